/-
  RFC5424 syslog decoder model: totality (`decode_total`) and field fidelity.
-/
import FileD.Lemmas.Dec.SyslogPri5424
import FileD.Model.Dec.Syslog5424
namespace FileD.Dec.Syslog5424
open FileD GoSlice FileD.Dec FileD.Dec.Syslog

/-! ### `readUntilSpaceOrNil` -/

theorem readUntilSpaceOrNil_spec (data : Bytes) :
    ∃ off ok, readUntilSpaceOrNil data = .ok (off, ok) ∧
      (ok = true → (off = 0 ∧ 2 ≤ data.length) ∨ (0 < off ∧ off < data.length)) := by
  unfold readUntilSpaceOrNil
  split
  · exact ⟨_, _, rfl, by simp⟩
  · rename_i hlen
    obtain ⟨c0, hc0, _⟩ := idx?_ok data 0 (by omega)
    obtain ⟨c1, hc1, _⟩ := idx?_ok data 1 (by omega)
    rw [hc0, ok_bind]
    have hb := indexByte_lt data SP
    by_cases h0 : c0 = cMinus
    · rw [if_pos h0, hc1, ok_bind, pure_eq_ok, ok_bind]
      split
      · exact ⟨_, _, rfl, by intro _; left; omega⟩
      · refine ⟨_, _, rfl, ?_⟩
        intro h
        right
        simp only [decide_eq_true_eq] at h
        omega
    · rw [if_neg h0, pure_eq_ok, ok_bind]
      simp only [Bool.false_eq_true, if_false]
      refine ⟨_, _, rfl, ?_⟩
      intro h
      right
      simp only [decide_eq_true_eq] at h
      omega

theorem readUntilSpaceOrNil_total (data : Bytes) : Total (readUntilSpaceOrNil data) := by
  obtain ⟨o, k, h, _⟩ := readUntilSpaceOrNil_spec data
  exact ⟨_, h⟩

/-! ### `validateTimestamp` -/

theorem digitsLoop_spec (ts : Bytes) (f : Nat) : ∀ (i : Int), 0 ≤ i → i ≤ ts.length →
    (ts.length : Int) < f + i → ∃ r, digitsLoop ts f i = .ok r ∧ i ≤ r ∧ r ≤ ts.length := by
  induction f with
  | zero =>
    intro i h0 hl hf
    omega
  | succ f ih =>
    intro i h0 hl hf
    unfold digitsLoop
    split
    · rename_i hlt
      obtain ⟨c, hc, _⟩ := idx?_ok ts i ⟨h0, hlt⟩
      rw [hc, ok_bind]
      split
      · obtain ⟨r, hr, h1, h2⟩ := ih (i + 1) (by omega) (by omega) (by omega)
        exact ⟨r, hr, by omega, h2⟩
      · exact ⟨i, rfl, by omega, by omega⟩
    · exact ⟨i, rfl, by omega, by omega⟩

theorem validateTimestamp_total (ts : Bytes) : Total (validateTimestamp ts) := by
  unfold validateTimestamp
  split
  · simp
  · rename_i hlen
    obtain ⟨t4, h4, _⟩ := idx?_ok ts 4 (by omega)
    obtain ⟨t7, h7, _⟩ := idx?_ok ts 7 (by omega)
    obtain ⟨t10, h10, _⟩ := idx?_ok ts 10 (by omega)
    obtain ⟨t13, h13, _⟩ := idx?_ok ts 13 (by omega)
    obtain ⟨t16, h16, _⟩ := idx?_ok ts 16 (by omega)
    rw [h4, ok_bind, h7, ok_bind, h10, ok_bind, h13, ok_bind, h16, ok_bind]
    split
    · simp
    · rw [sliceTo?_ok _ _ (by omega), ok_bind, slice?_ok _ _ _ (by omega), ok_bind,
        slice?_ok _ _ _ (by omega), ok_bind]
      split
      · simp
      · rw [slice?_ok _ _ _ (by omega), ok_bind, slice?_ok _ _ _ (by omega), ok_bind,
          slice?_ok _ _ _ (by omega), ok_bind, sliceFrom?_ok _ _ (by omega), ok_bind]
        generalize List.drop (19 : Int).toNat ts = t
        split
        · simp
        · have hfrac : ∃ frac, (if t.length ≥ 2 then do
              let a ← idx? t 0
              if a = cDot then do
                let b ← idx? t 1
                pure (isDigit b)
              else pure false
            else pure false : GoM Bool) = .ok frac ∧ (frac = true → 2 ≤ t.length) := by
            split
            · rename_i h2
              obtain ⟨a, ha, _⟩ := idx?_ok t 0 (by omega)
              obtain ⟨b, hb, _⟩ := idx?_ok t 1 (by omega)
              rw [ha, ok_bind]
              split
              · rw [hb, ok_bind]; exact ⟨_, rfl, fun _ => h2⟩
              · exact ⟨_, rfl, by simp⟩
            · exact ⟨_, rfl, by simp⟩
          obtain ⟨frac, hfr, hfl⟩ := hfrac
          rw [hfr, ok_bind]
          have hr : ∃ r, (if frac = true then do
              let i ← digitsLoop t (t.length + 1) 2
              if i > 7 then pure none
              else do
                let ts ← sliceFrom? t i
                pure (some ts)
            else pure (some t) : GoM (Option Bytes)) = .ok r := by
            split
            · rename_i hf
              have := hfl hf
              obtain ⟨i, hi, hi1, hi2⟩ := digitsLoop_spec t (t.length + 1) 2 (by omega) (by omega) (by omega)
              rw [hi, ok_bind]
              split
              · exact ⟨_, rfl⟩
              · rw [sliceFrom?_ok _ _ (by omega), ok_bind]; exact ⟨_, rfl⟩
            · exact ⟨_, rfl⟩
          obtain ⟨r, hr⟩ := hr
          rw [hr, ok_bind]
          cases r with
          | none => simp
          | some u =>
            simp only []
            have hz : ∃ z, (if u.length > 0 then do
                let a ← idx? u 0
                pure (a == 90)
              else pure false : GoM Bool) = .ok z := by
              split
              · obtain ⟨a, ha, _⟩ := idx?_ok u 0 (by omega)
                rw [ha, ok_bind]; exact ⟨_, rfl⟩
              · exact ⟨_, rfl⟩
            obtain ⟨z, hz⟩ := hz
            rw [hz, ok_bind]
            split
            · simp
            · split
              · simp
              · obtain ⟨a, ha, _⟩ := idx?_ok u 0 (by omega)
                obtain ⟨c, hc, _⟩ := idx?_ok u 3 (by omega)
                rw [ha, ok_bind, hc, ok_bind]
                split
                · simp
                · rw [slice?_ok _ _ _ (by omega), ok_bind, slice?_ok _ _ _ (by omega), ok_bind]
                  split <;> simp

/-! ### structured data -/

/-- loop invariant of the params loop (fuel `f`) -/
def PInv (data : Bytes) (f : Nat) (s : PS) : Prop :=
  0 ≤ s.startParamID ∧ s.startParamID ≤ s.idx ∧ 0 ≤ s.startParamValue ∧
  (s.inside = true → s.startParamValue ≤ s.idx) ∧ s.idx ≤ data.length ∧ (data.length : Int) < f + s.idx

theorem paramsLoop_spec (data : Bytes) (f : Nat) : ∀ (s : PS), PInv data f s →
    ∃ r, paramsLoop data f s = .ok r ∧
      ∀ ps, r = some (ps, true) → 0 ≤ ps.idx ∧ ps.idx < data.length := by
  induction f with
  | zero =>
    intro s ⟨h1, h2, h3, h4, h5, h6⟩
    omega
  | succ f ih =>
    intro s ⟨h1, h2, h3, h4, h5, h6⟩
    unfold paramsLoop
    split
    · exact ⟨_, rfl, by intro ps h; cases h⟩
    · rename_i hlt
      obtain ⟨b, hb, _⟩ := idx?_ok data s.idx (by omega)
      rw [hb, ok_bind]
      split
      · -- ']'
        split
        · exact ⟨_, rfl, by intro ps h; cases h⟩
        · obtain ⟨p, hp, _⟩ := idx?_ok data (s.idx - 1) (by omega)
          rw [hp, ok_bind]
          split
          · exact ⟨_, rfl, by intro ps h; cases h⟩
          · refine ⟨_, rfl, ?_⟩
            intro ps h
            cases h
            omega
      · split
        · -- SP outside a value
          apply ih
          refine ⟨?_, ?_, ?_, ?_, ?_, ?_⟩ <;> simp only [] <;> first | omega | (intro hin; have := h4 hin; omega)
        · split
          · -- '='
            have hbad : ∃ bad, (if s.idx + 1 < data.length then do
                   let n ← idx? data (s.idx + 1)
                   pure (n != cQuote)
                 else pure false : GoM Bool) = .ok bad := by
              split
              · obtain ⟨n, hn, _⟩ := idx?_ok data (s.idx + 1) (by omega)
                rw [hn, ok_bind]; exact ⟨_, rfl⟩
              · exact ⟨_, rfl⟩
            obtain ⟨bad, hbad⟩ := hbad
            rw [hbad, ok_bind]
            split
            · exact ⟨_, rfl, by intro ps h; cases h⟩
            · rw [slice?_ok _ _ _ (by omega), ok_bind]
              apply ih
              refine ⟨?_, ?_, ?_, ?_, ?_, ?_⟩ <;> simp only [] <;> first | omega | (intro hin; have := h4 hin; omega)
          · split
            · -- '"'
              split
              · exact ⟨_, rfl, by intro ps h; cases h⟩
              · obtain ⟨p, hp, _⟩ := idx?_ok data (s.idx - 1) (by omega)
                rw [hp, ok_bind]
                split
                · apply ih
                  refine ⟨?_, ?_, ?_, ?_, ?_, ?_⟩ <;> simp only [] <;> first | omega | (intro hin; have := h4 hin; omega)
                · split
                  · rename_i hin
                    have := h4 hin
                    rw [slice?_ok _ _ _ (by omega), ok_bind]
                    apply ih
                    refine ⟨?_, ?_, ?_, ?_, ?_, ?_⟩ <;> simp only [] <;> first | omega | simp
                  · apply ih
                    refine ⟨?_, ?_, ?_, ?_, ?_, ?_⟩ <;> simp only [] <;> first | omega | (intro hin; have := h4 hin; omega)
            · apply ih
              refine ⟨?_, ?_, ?_, ?_, ?_, ?_⟩ <;> simp only [] <;> first | omega | (intro hin; have := h4 hin; omega)

theorem sdLoop_spec (f : Nat) : ∀ (data : Bytes) (offset : Int) (sd : SD) (wasOpen : Bool),
    data.length < f → 0 ≤ offset →
    ∃ r, sdLoop f data offset sd wasOpen = .ok r ∧ ∀ sd' o w, r = some (sd', o, w) → 0 ≤ o := by
  induction f with
  | zero => intro _ _ _ _ h; omega
  | succ f ih =>
    intro data offset sd wasOpen hf ho
    unfold sdLoop
    split
    · rename_i hpos
      obtain ⟨c, hc, _⟩ := idx?_ok data 0 (by omega)
      rw [hc, ok_bind]
      split
      · exact ⟨_, rfl, by intro _ _ _ h; cases h; exact ho⟩
      · rw [sliceFrom?_ok _ _ (by omega), ok_bind]
        simp only []
        have hd1 : (data.drop (1 : Int).toNat).length = data.length - 1 := by simp
        generalize data.drop (1 : Int).toNat = d1 at hd1
        have hb := indexByte_lt d1 SP
        split
        · exact ⟨_, rfl, by intro _ _ _ h; cases h⟩
        · rename_i hidx
          rw [sliceTo?_ok _ _ (by omega), ok_bind, sliceFrom?_ok _ _ (by omega), ok_bind]
          have hd2 : (d1.drop (indexByte d1 SP + 1).toNat).length = d1.length - (indexByte d1 SP + 1).toNat := by
            simp
          generalize d1.drop (indexByte d1 SP + 1).toNat = d2 at hd2
          obtain ⟨r, hr, hres⟩ := paramsLoop_spec d2 (d2.length + 1) ⟨0, 0, 0, false, [], []⟩
            ⟨by simp, by simp, by simp, by simp, by simp, by simp; omega⟩
          rw [hr, ok_bind]
          cases r with
          | none => exact ⟨_, rfl, by intro _ _ _ h; cases h⟩
          | some pw =>
            obtain ⟨ps, wc⟩ := pw
            simp only []
            split
            · exact ⟨_, rfl, by intro _ _ _ h; cases h⟩
            · rename_i hwc
              have hwc' : wc = true := by simpa using hwc
              subst hwc'
              have := hres ps rfl
              rw [sliceFrom?_ok _ _ (by omega), ok_bind]
              apply ih
              · simp only [List.length_drop]; omega
              · omega
    · exact ⟨_, rfl, by intro _ _ _ h; cases h; exact ho⟩

theorem parseStructuredData_spec (data : Bytes) :
    ∃ sd o k, parseStructuredData data = .ok (sd, o, k) ∧ 0 ≤ o := by
  unfold parseStructuredData
  have hdash : ∃ dash, (if data.length > 0 then do
                let c ← idx? data 0
                pure (c == cMinus)
              else pure false : GoM Bool) = .ok dash ∧ (dash = true → 0 < data.length) := by
    split
    · rename_i h
      obtain ⟨c, hc, _⟩ := idx?_ok data 0 (by omega)
      rw [hc, ok_bind]; exact ⟨_, rfl, fun _ => h⟩
    · exact ⟨_, rfl, by simp⟩
  obtain ⟨dash, hd, hdl⟩ := hdash
  rw [hd, ok_bind]
  split
  · rename_i hdt
    have := hdl hdt
    split
    · exact ⟨_, _, _, rfl, by omega⟩
    · obtain ⟨c, hc, _⟩ := idx?_ok data 1 (by omega)
      rw [hc, ok_bind]; exact ⟨_, _, _, rfl, by omega⟩
  · obtain ⟨r, hr, hres⟩ := sdLoop_spec (data.length + 1) data 0 [] false (by omega) (by omega)
    rw [hr, ok_bind]
    cases r with
    | none => exact ⟨_, _, _, rfl, by omega⟩
    | some t =>
      obtain ⟨sd, o, w⟩ := t
      simp only []
      split
      · exact ⟨_, _, _, rfl, by omega⟩
      · exact ⟨_, _, _, rfl, hres _ _ _ rfl⟩

theorem headerField_total (data : Bytes) : Total (headerField data) := by
  unfold headerField
  obtain ⟨off, ok, h, hres⟩ := readUntilSpaceOrNil_spec data
  rw [h, ok_bind]
  simp only []
  split
  · simp
  · rename_i hok
    have hok' : ok = true := by simpa using hok
    have := hres hok'
    split
    · rw [sliceFrom?_ok _ _ (by omega), ok_bind]; simp
    · rw [sliceTo?_ok _ _ (by omega), ok_bind, sliceFrom?_ok _ _ (by omega), ok_bind]; simp

/-! ### `decode` never panics -/

theorem total_bind {α β} {x : GoM α} {f : α → GoM β} (hx : Total x)
    (hf : ∀ v, x = .ok v → Total (f v)) : Total (x >>= f) := by
  obtain ⟨v, hv⟩ := hx
  subst hv
  exact hf v rfl

theorem decode_total (facStr sevStr : Bool) (data : Bytes) : Total (decode facStr sevStr data) := by
  unfold decode
  generalize trimSuffixNL data = d0
  simp only []
  split
  · simp
  · obtain ⟨r, hr, hres⟩ := parsePriority_spec d0
    rw [hr, ok_bind]
    cases r with
    | none => simp
    | some po =>
      obtain ⟨pri, off⟩ := po
      obtain ⟨ho1, ho2, ho3, _⟩ := hres pri off rfl
      simp only []
      rw [slice?_ok _ _ _ (by omega), ok_bind, sliceFrom?_ok _ _ (by omega), ok_bind]
      generalize d0.drop (off + 1).toNat = d1
      have hb := indexByte_lt d1 SP
      split
      · simp
      · rw [sliceTo?_ok _ _ (by omega), ok_bind]
        split
        · simp
        · rw [sliceFrom?_ok _ _ (by omega), ok_bind]
          generalize d1.drop (indexByte d1 SP + 1).toNat = d2
          obtain ⟨o, k, hrd, hro⟩ := readUntilSpaceOrNil_spec d2
          rw [hrd, ok_bind]
          simp only []
          split
          · simp
          · rename_i hk
            have hk' : k = true := by simpa using hk
            have hok := hro hk'
            apply total_bind
            · split
              · rw [sliceFrom?_ok _ _ (by omega), ok_bind]; simp
              · rw [sliceTo?_ok _ _ (by omega), ok_bind]
                apply total_bind (validateTimestamp_total _)
                intro v _
                split
                · simp
                · rw [sliceFrom?_ok _ _ (by omega), ok_bind]; simp
            · intro r _
              cases r with
              | none => simp
              | some td =>
              obtain ⟨timestamp, d3⟩ := td
              simp only []
              apply total_bind (headerField_total _)
              intro r _
              cases r with
              | none => simp
              | some td =>
              obtain ⟨hostname, d4⟩ := td
              simp only []
              apply total_bind (headerField_total _)
              intro r _
              cases r with
              | none => simp
              | some td =>
              obtain ⟨appName, d5⟩ := td
              simp only []
              apply total_bind (headerField_total _)
              intro r _
              cases r with
              | none => simp
              | some td =>
              obtain ⟨procID, d6⟩ := td
              simp only []
              apply total_bind (headerField_total _)
              intro r _
              cases r with
              | none => simp
              | some td =>
              obtain ⟨msgID, d7⟩ := td
              simp only []
              obtain ⟨sd, o7, k7, hsd, ho7⟩ := parseStructuredData_spec d7
              rw [hsd, ok_bind]
              simp only []
              split
              · simp
              · split
                · simp
                · rw [sliceFrom?_ok _ _ (by omega), ok_bind]
                  generalize d7.drop (o7 + 1).toNat = d8
                  apply total_bind
                  · split
                    · obtain ⟨c, hc, _⟩ := idx?_ok d8 0 (by omega)
                      rw [hc, ok_bind]
                      split
                      · rw [sliceFrom?_ok _ _ (by omega)]; simp
                      · simp
                    · simp
                  · intro d9 _
                    apply total_bind
                    · split
                      · rw [sliceTo?_ok _ _ (by omega), ok_bind]
                        split
                        · rw [sliceFrom?_ok _ _ (by omega)]; simp
                        · simp
                      · simp
                    · intro _ _
                      simp

/-- non-vacuity: `"<34>1 - h a p m - x"` decodes (so `decode_total` is not about a model that
    always errors), and a garbage line is a decoder error, not a panic -/
example : decode false false [60,51,52,62,49,32,45,32,104,32,97,32,112,32,109,32,45,32,120] =
    .ok (some ⟨[51,52], [52], [50], [49], [], [104], [97], [112], [109], [120], []⟩) := by rfl
example : decode false false [60,51,52,62,49,32,45,32,104,32,97,32,112,32,109,32,91,93] = .ok none := by rfl

/-! ### fidelity on well-formed lines -/

theorem bind_eq {α β} {x : GoM α} {f : α → GoM β} {v : α} {r : GoM β} (hx : x = .ok v) (hf : f v = r) :
    x >>= f = r := by
  subst hx; exact hf

theorem trimSuffixNL_append_nl (x : Bytes) : trimSuffixNL (x ++ [NL]) = x := by
  unfold trimSuffixNL
  simp

theorem trimSuffixNL_of_ne (x : Bytes) (h : x.getLast? ≠ some NL) : trimSuffixNL x = x := by
  unfold trimSuffixNL
  rw [if_neg h]

/-- how a header field is written: NILVALUE `-` for the empty field -/
def nilOr (f : Bytes) : Bytes := if f = [] then [cMinus] else f

/-- a header field value: contains no SP and is not literally `-` (which is the NILVALUE) -/
def FieldOK (f : Bytes) : Prop := SP ∉ f ∧ f ≠ [cMinus]

theorem readUntilSpaceOrNil_nil (rest : Bytes) : readUntilSpaceOrNil (cMinus :: SP :: rest) = .ok (0, true) := by
  unfold readUntilSpaceOrNil
  have h0 : idx? (cMinus :: SP :: rest) 0 = .ok cMinus := rfl
  have h1 : idx? (cMinus :: SP :: rest) 1 = .ok SP := rfl
  rw [if_neg (by simp), h0, ok_bind, if_pos rfl, h1, ok_bind]
  rfl

theorem readUntilSpaceOrNil_field (f rest : Bytes) (hne : f ≠ []) (h : FieldOK f) :
    readUntilSpaceOrNil (f ++ SP :: rest) = .ok (f.length, true) := by
  obtain ⟨hsp, hnil⟩ := h
  have hidx := indexByte_append_cons f rest SP hsp
  unfold readUntilSpaceOrNil
  rw [hidx, if_neg (by cases f with | nil => exact absurd rfl hne | cons _ _ => simp; omega)]
  have hpos : decide ((f.length : Int) > 0) = true := by
    cases f with
    | nil => exact absurd rfl hne
    | cons _ _ => simp
  cases f with
  | nil => exact absurd rfl hne
  | cons a f' =>
    have h0 : idx? (a :: f' ++ SP :: rest) 0 = .ok a := rfl
    rw [h0, ok_bind]
    cases f' with
    | nil =>
      have ha : a ≠ cMinus := fun e => hnil (by rw [e])
      rw [if_neg ha]
      simp only [pure_eq_ok, ok_bind, Bool.false_eq_true, if_false]
      rw [hpos]
    | cons b f'' =>
      have h1 : idx? (a :: b :: f'' ++ SP :: rest) 1 = .ok b := rfl
      have hb : (b == SP) = false := by
        have : b ≠ SP := fun e => hsp (by simp [e])
        simpa using this
      by_cases ha : a = cMinus
      · rw [if_pos ha, h1, ok_bind, hb]
        simp only [pure_eq_ok, ok_bind, Bool.false_eq_true, if_false]
        rw [hpos]
      · rw [if_neg ha]
        simp only [pure_eq_ok, ok_bind, Bool.false_eq_true, if_false]
        rw [hpos]

theorem headerField_enc (f rest : Bytes) (h : FieldOK f) :
    headerField (nilOr f ++ SP :: rest) = .ok (some (f, rest)) := by
  unfold headerField nilOr
  by_cases hf : f = []
  · subst hf
    rw [if_pos rfl]
    simp only [List.cons_append, List.nil_append]
    rw [readUntilSpaceOrNil_nil, ok_bind]
    simp only [Bool.not_true, Bool.false_eq_true, if_false, if_true]
    have : sliceFrom? (cMinus :: SP :: rest) 2 = .ok rest := sliceFrom?_append [cMinus, SP] rest 2 rfl
    rw [this, ok_bind]
    rfl
  · rw [if_neg hf, readUntilSpaceOrNil_field f rest hf h, ok_bind]
    have hl : ¬ ((f.length : Int) = 0) := by
      cases f with
      | nil => exact absurd rfl hf
      | cons _ _ => simp; omega
    simp only [Bool.not_true, Bool.false_eq_true, if_false]
    rw [if_neg hl, sliceTo?_append _ _ _ rfl, ok_bind, sliceFrom?_append_cons _ _ _ _ rfl, ok_bind]
    rfl

theorem parseStructuredData_nil (rest : Bytes) : parseStructuredData (cMinus :: SP :: rest) = .ok ([], 0, true) := by
  unfold parseStructuredData
  have h0 : idx? (cMinus :: SP :: rest) 0 = .ok cMinus := rfl
  have h1 : idx? (cMinus :: SP :: rest) 1 = .ok SP := rfl
  rw [if_pos (by simp), h0, ok_bind]
  simp only [pure_eq_ok, ok_bind, beq_self_eq_true, if_true]
  rw [if_neg (by simp), h1, ok_bind]
  rfl

theorem validateTimestamp_length {ts : Bytes} (h : validateTimestamp ts = .ok true) : 20 ≤ ts.length := by
  unfold validateTimestamp at h
  split at h
  · cases h
  · omega

/-- the decoded message: a leading BOM is dropped -/
def stripBom (msg : Bytes) : Bytes := if msg.take 3 = bom then msg.drop 3 else msg

/-- the BOM step of `decode` -/
theorem bomStep (msg : Bytes) :
    (if msg.length > 2 then do
        let h ← sliceTo? msg 3
        if h = bom then sliceFrom? msg 3 else pure msg
      else pure msg : GoM Bytes) = .ok (stripBom msg) := by
  unfold stripBom
  split
  · rw [sliceTo?_ok _ _ (by omega), ok_bind]
    split
    · rename_i hb
      rw [sliceFrom?_ok _ _ (by omega)]
      have hb' : msg.take 3 = bom := hb
      rw [if_pos hb']
      rfl
    · rename_i hb
      have hb' : ¬ msg.take 3 = bom := hb
      rw [if_neg hb']
      rfl
  · rename_i hl
    have : msg.take 3 ≠ bom := by
      intro e
      have := congrArg List.length e
      simp [bom, List.length_take] at this
      omega
    rw [if_neg this]
    rfl

/-- the last part of `decode` (structured data and message), verbatim from the model, as a
    function of the header fields already read and the remaining bytes -/
def sdMsgPart (priority fac sev protoVersion timestamp hostname appName procID msgID : Bytes)
    (data : Bytes) : GoM (Option Row) := do
  let (sd, offset, ok) ← parseStructuredData data
  if !ok then pure none else do
  if offset ≥ data.length then
    pure (some ⟨priority, fac, sev, protoVersion, timestamp, hostname, appName, procID, msgID, [], sd⟩) else do
  let data ← sliceFrom? data (offset + 1)
  let data ← (if data.length > 0 then do
      let c ← idx? data 0
      if c = SP then sliceFrom? data 1 else pure data
    else pure data)
  let data ← (if data.length > 2 then do
      let h ← sliceTo? data 3
      if h = bom then sliceFrom? data 3 else pure data
    else pure data)
  pure (some ⟨priority, fac, sev, protoVersion, timestamp, hostname, appName, procID, msgID, data, sd⟩)

/-- header fidelity: on `<pri>ver SP ts SP host SP app SP procid SP msgid SP T` the decoder reads the
    header fields and continues with structured data / message on `T` -/
theorem decode_header (facStr sevStr : Bool) (data0 pri ver ts host app procid msgid T : Bytes) (p : Int)
    (hpri : atoi pri = some p) (hpl : pri.length ≤ 3) (hp : p ≤ 191)
    (hver : (atoi ver).isSome)
    (hts : ts = [] ∨ (SP ∉ ts ∧ validateTimestamp ts = .ok true))
    (hhost : FieldOK host) (happ : FieldOK app) (hproc : FieldOK procid) (hmsgid : FieldOK msgid)
    (hdata : trimSuffixNL data0 = cLt :: (pri ++ cGt :: (ver ++ SP :: (nilOr ts ++ SP :: (nilOr host ++ SP ::
      (nilOr app ++ SP :: (nilOr procid ++ SP :: (nilOr msgid ++ SP :: T)))))))) :
    decode facStr sevStr data0 =
      sdMsgPart pri (facility p facStr) (severity p sevStr) ver ts host app procid msgid T := by
  unfold decode
  rw [hdata]
  simp only []
  rw [if_neg (by simp)]
  rw [parsePriority_wf _ _ _ hpri hpl hp, ok_bind]
  simp only []
  have hs : slice? (cLt :: (pri ++ cGt :: (ver ++ SP :: (nilOr ts ++ SP :: (nilOr host ++ SP ::
      (nilOr app ++ SP :: (nilOr procid ++ SP :: (nilOr msgid ++ SP :: T)))))))) 1 (pri.length + 1)
      = .ok pri := by
    rw [slice?_ok _ _ _ (by simp; omega)]
    simp
  rw [hs, ok_bind]
  have hs2 : ∀ rest : Bytes, sliceFrom? (cLt :: (pri ++ cGt :: rest)) ((pri.length : Int) + 1 + 1) = .ok rest := by
    intro rest
    exact sliceFrom?_append_cons (cLt :: pri) rest cGt _ (by simp)
  rw [hs2, ok_bind]
  obtain ⟨v, hv⟩ := Option.isSome_iff_exists.mp hver
  obtain ⟨hvne, hvdig⟩ := atoi_digits hv
  have hvsp : SP ∉ ver := not_mem_of_digits hvdig SP (by left; decide)
  rw [indexByte_append_cons ver _ SP hvsp]
  have hvl : ¬ ((ver.length : Int) ≤ 0) := by
    cases ver with
    | nil => exact absurd rfl hvne
    | cons _ _ => simp
  rw [if_neg hvl, sliceTo?_append _ _ _ rfl, ok_bind, hv]
  simp only [Option.isNone_some, Bool.false_eq_true, if_false]
  rw [sliceFrom?_append_cons _ _ _ _ rfl, ok_bind]
  generalize hR : (nilOr host ++ SP :: (nilOr app ++ SP :: (nilOr procid ++ SP ::
    (nilOr msgid ++ SP :: T)))) = R
  have hru : readUntilSpaceOrNil (nilOr ts ++ SP :: R) = .ok (if ts = [] then 0 else (ts.length : Int), true) := by
    rcases hts with e | ⟨htsp, hval⟩
    · subst e
      simp only [nilOr, ↓reduceIte, List.cons_append, List.nil_append]
      exact readUntilSpaceOrNil_nil R
    · have := validateTimestamp_length hval
      have hne : ts ≠ [] := by intro e; simp [e] at this
      have hok : FieldOK ts := ⟨htsp, by intro e; simp [e] at this⟩
      simp only [nilOr, if_neg hne]
      exact readUntilSpaceOrNil_field ts R hne hok
  rw [hru, ok_bind]
  simp only [Bool.not_true, Bool.false_eq_true, if_false]
  refine bind_eq (v := some (ts, R)) ?_ ?_
  · rcases hts with e | ⟨htsp, hval⟩
    · subst e
      simp only [nilOr, ↓reduceIte, List.cons_append, List.nil_append]
      have : sliceFrom? (cMinus :: SP :: R) 2 = .ok R := sliceFrom?_append [cMinus, SP] R 2 rfl
      rw [this]
      rfl
    · have := validateTimestamp_length hval
      have hne : ts ≠ [] := by intro e; simp [e] at this
      simp only [nilOr, if_neg hne]
      rw [if_neg (by omega), sliceTo?_append _ _ _ rfl, ok_bind, hval, ok_bind]
      simp only [Bool.not_true, Bool.false_eq_true, if_false]
      rw [sliceFrom?_append_cons _ _ _ _ rfl]
      rfl
  · simp only []
    subst hR
    rw [headerField_enc _ _ hhost, ok_bind]
    simp only []
    rw [headerField_enc _ _ happ, ok_bind]
    simp only []
    rw [headerField_enc _ _ hproc, ok_bind]
    simp only []
    rw [headerField_enc _ _ hmsgid, ok_bind]
    rfl

/-- NILVALUE structured data followed by a message -/
theorem sdMsgPart_nil (a b c d e f g h i msg : Bytes) :
    sdMsgPart a b c d e f g h i (cMinus :: SP :: msg) = .ok (some ⟨a, b, c, d, e, f, g, h, i, stripBom msg, []⟩) := by
  unfold sdMsgPart
  rw [parseStructuredData_nil, ok_bind]
  simp only [Bool.not_true, Bool.false_eq_true, if_false]
  rw [if_neg (by simp; omega)]
  have h1 : sliceFrom? (cMinus :: SP :: msg) (0 + 1) = .ok (SP :: msg) := sliceFrom?_append [cMinus] (SP :: msg) _ rfl
  rw [h1, ok_bind]
  have h2 : idx? (SP :: msg) 0 = .ok SP := rfl
  have h3 : sliceFrom? (SP :: msg) 1 = .ok msg := sliceFrom?_append [SP] msg _ rfl
  rw [if_pos (by simp), h2, ok_bind, if_pos rfl, h3, ok_bind]
  refine bind_eq (v := stripBom msg) ?_ rfl
  exact bomStep msg

/-- fidelity, right-nested form of the line (after `TrimSuffix`) -/
theorem decode_fields_aux (facStr sevStr : Bool) (data0 pri ver ts host app procid msgid msg : Bytes) (p : Int)
    (hpri : atoi pri = some p) (hpl : pri.length ≤ 3) (hp : p ≤ 191)
    (hver : (atoi ver).isSome)
    (hts : ts = [] ∨ (SP ∉ ts ∧ validateTimestamp ts = .ok true))
    (hhost : FieldOK host) (happ : FieldOK app) (hproc : FieldOK procid) (hmsgid : FieldOK msgid)
    (hdata : trimSuffixNL data0 = cLt :: (pri ++ cGt :: (ver ++ SP :: (nilOr ts ++ SP :: (nilOr host ++ SP ::
      (nilOr app ++ SP :: (nilOr procid ++ SP :: (nilOr msgid ++ SP :: cMinus :: SP :: msg)))))))) :
    decode facStr sevStr data0 =
      .ok (some ⟨pri, facility p facStr, severity p sevStr, ver, ts, host, app, procid, msgid, stripBom msg, []⟩) := by
  rw [decode_header facStr sevStr data0 pri ver ts host app procid msgid _ p hpri hpl hp hver hts hhost happ hproc
    hmsgid hdata]
  exact sdMsgPart_nil _ _ _ _ _ _ _ _ _ _

/-- **Fidelity** (NILVALUE structured data). For a line
    `<pri>ver SP ts SP host SP app SP procid SP msgid SP - SP msg [NL]`
    where every header field is written as `-` when empty (`nilOr`), the decoder returns exactly the
    fields. Hypotheses are only about the reserved delimiters: `pri` is 1-3 digits with value ≤ 191,
    `ver` digits, `ts` absent or accepted by `validateTimestamp` and SP-free, the other fields SP-free and
    not literally `-`, and (without trailing NL) `msg` must not itself end in NL (it would be trimmed).
    `msg` may contain anything else, including leading spaces; a leading BOM is dropped (`stripBom`). -/
theorem decode_fields (facStr sevStr nl : Bool) (pri ver ts host app procid msgid msg : Bytes) (p : Int)
    (hpri : atoi pri = some p) (hpl : pri.length ≤ 3) (hp : p ≤ 191)
    (hver : (atoi ver).isSome)
    (hts : ts = [] ∨ (SP ∉ ts ∧ validateTimestamp ts = .ok true))
    (hhost : FieldOK host) (happ : FieldOK app) (hproc : FieldOK procid) (hmsgid : FieldOK msgid)
    (hnl : nl = false → msg.getLast? ≠ some NL) :
    decode facStr sevStr ([cLt] ++ pri ++ [cGt] ++ ver ++ [SP] ++ nilOr ts ++ [SP] ++ nilOr host ++ [SP] ++
        nilOr app ++ [SP] ++ nilOr procid ++ [SP] ++ nilOr msgid ++ [SP, cMinus, SP] ++ msg ++
        (if nl then [NL] else [])) =
      .ok (some ⟨pri, facility p facStr, severity p sevStr, ver, ts, host, app, procid, msgid, stripBom msg, []⟩) := by
  apply decode_fields_aux facStr sevStr _ pri ver ts host app procid msgid msg p hpri hpl hp hver hts hhost happ
    hproc hmsgid
  cases nl with
  | true =>
    rw [if_pos rfl, trimSuffixNL_append_nl]
    simp only [List.append_assoc, List.cons_append, List.nil_append]
  | false =>
    have hlast : ∀ Y : Bytes, (Y ++ [SP, cMinus, SP] ++ msg).getLast? ≠ some NL := by
      intro Y
      rw [List.getLast?_append]
      cases hm : msg.getLast? with
      | none => simp [List.getLast?_append]; decide
      | some c =>
        simp only [Option.some_or]
        intro e
        exact hnl rfl (by rw [hm, e])
    rw [if_neg (by simp), List.append_nil, trimSuffixNL_of_ne _ (hlast _)]
    simp only [List.append_assoc, List.cons_append, List.nil_append]

/-- all header fields present, no BOM: the row is exactly the fields of the line -/
theorem decode_fields_present (facStr sevStr nl : Bool) (pri ver ts host app procid msgid msg : Bytes) (p : Int)
    (hpri : atoi pri = some p) (hpl : pri.length ≤ 3) (hp : p ≤ 191)
    (hver : (atoi ver).isSome)
    (hts : SP ∉ ts ∧ validateTimestamp ts = .ok true)
    (hhost : host ≠ [] ∧ FieldOK host) (happ : app ≠ [] ∧ FieldOK app)
    (hproc : procid ≠ [] ∧ FieldOK procid) (hmsgid : msgid ≠ [] ∧ FieldOK msgid)
    (hbom : msg.take 3 ≠ bom) (hnl : nl = false → msg.getLast? ≠ some NL) :
    decode facStr sevStr ([cLt] ++ pri ++ [cGt] ++ ver ++ [SP] ++ ts ++ [SP] ++ host ++ [SP] ++
        app ++ [SP] ++ procid ++ [SP] ++ msgid ++ [SP, cMinus, SP] ++ msg ++ (if nl then [NL] else [])) =
      .ok (some ⟨pri, facility p facStr, severity p sevStr, ver, ts, host, app, procid, msgid, msg, []⟩) := by
  have hl := validateTimestamp_length hts.2
  have htne : ts ≠ [] := by intro e; simp [e] at hl
  have := decode_fields facStr sevStr nl pri ver ts host app procid msgid msg p hpri hpl hp hver (Or.inr hts)
    hhost.2 happ.2 hproc.2 hmsgid.2 hnl
  simp only [nilOr, if_neg htne, if_neg hhost.1, if_neg happ.1, if_neg hproc.1, if_neg hmsgid.1, stripBom,
    if_neg hbom] at this
  exact this

/-- non-vacuity of `decode_fields_present`:
    `<165>1 2003-10-11T22:14:15.003Z host app 10 ID47 - hello\n` -/
example : decode false false [60,49,54,53,62,49,32, 50,48,48,51,45,49,48,45,49,49,84,50,50,58,49,52,58,49,53,46,48,48,51,90,32,
      104,111,115,116,32, 97,112,112,32, 49,48,32, 73,68,52,55,32, 45,32, 104,101,108,108,111, 10] =
    .ok (some ⟨[49,54,53], [50,48], [53], [49],
      [50,48,48,51,45,49,48,45,49,49,84,50,50,58,49,52,58,49,53,46,48,48,51,90],
      [104,111,115,116], [97,112,112], [49,48], [73,68,52,55], [104,101,108,108,111], []⟩) := by rfl

/-- the hypotheses of `decode_fields_present` are satisfiable by that very line -/
example : atoi [49,54,53] = some 165 ∧
    validateTimestamp [50,48,48,51,45,49,48,45,49,49,84,50,50,58,49,52,58,49,53,46,48,48,51,90] = .ok true := by
  constructor <;> rfl

/-! ### one structured-data element -/

theorem idx?_append_cons {α} (pre tail : List α) (c : α) (n : Int) (h : n = pre.length) :
    idx? (pre ++ c :: tail) n = .ok c := by
  subst h
  unfold idx?
  simp

/-- a byte that the params loop just steps over -/
theorem paramsLoop_skip1 (data : Bytes) (f : Nat) (i a b : Int) (ins : Bool) (pid : Bytes) (ps : SDParams)
    (c : UInt8) (hc : idx? data i = .ok c) (h1 : c ≠ cRBr) (h2 : c ≠ cQuote)
    (h3 : ins = false → c ≠ SP ∧ c ≠ cEq) :
    paramsLoop data (f+1) ⟨i, a, b, ins, pid, ps⟩ = paramsLoop data f ⟨i+1, a, b, ins, pid, ps⟩ := by
  have hb := idx?_eq_ok hc
  rw [paramsLoop]
  simp only []
  rw [if_neg (by omega), hc, ok_bind, if_neg h1]
  have e1 : ¬ (c = SP ∧ (!ins) = true) := by
    intro ⟨e, hi⟩
    cases ins with
    | true => simp at hi
    | false => exact (h3 rfl).1 e
  have e2 : ¬ (c = cEq ∧ (!ins) = true) := by
    intro ⟨e, hi⟩
    cases ins with
    | true => simp at hi
    | false => exact (h3 rfl).2 e
  rw [if_neg e1, if_neg e2, if_neg h2]

/-- a run `w` of bytes the loop steps over, at position `|pre|` -/
theorem paramsLoop_skip (data : Bytes) (a b : Int) (ins : Bool) (pid : Bytes) (ps : SDParams) (w : Bytes) :
    ∀ (pre tail : Bytes) (f : Nat) (i : Int), data = pre ++ (w ++ tail) → i = pre.length →
    (∀ c ∈ w, c ≠ cRBr ∧ c ≠ cQuote ∧ (ins = false → c ≠ SP ∧ c ≠ cEq)) →
    paramsLoop data (f + w.length) ⟨i, a, b, ins, pid, ps⟩ = paramsLoop data f ⟨i + w.length, a, b, ins, pid, ps⟩ := by
  induction w with
  | nil => intro pre tail f i _ _ _; simp
  | cons c w ih =>
    intro pre tail f i hd hi hw
    have hc := hw c (by simp)
    have hidx : idx? data i = .ok c := by
      rw [hd]; exact idx?_append_cons pre (w ++ tail) c i hi
    have : f + (c :: w).length = (f + w.length) + 1 := by simp; omega
    rw [this, paramsLoop_skip1 data _ i a b ins pid ps c hidx hc.1 hc.2.1 hc.2.2]
    rw [ih (pre ++ [c]) tail f (i + 1) (by rw [hd]; simp) (by simp; omega) (fun x hx => hw x (by simp [hx]))]
    congr 2
    simp; omega

/-- `=` directly followed by `"` outside a value: the param name is `data[startParamID:idx]` -/
theorem paramsLoop_eq (data : Bytes) (f : Nat) (i a b : Int) (pid : Bytes) (ps : SDParams)
    (pre tail : Bytes) (hd : data = pre ++ cEq :: cQuote :: tail) (hi : i = pre.length) (ha : 0 ≤ a ∧ a ≤ i) :
    paramsLoop data (f+1) ⟨i, a, b, false, pid, ps⟩ =
      paramsLoop data f ⟨i+1, a, b, false, (data.drop a.toNat).take (i.toNat - a.toNat), ps⟩ := by
  have hc : idx? data i = .ok cEq := by rw [hd]; exact idx?_append_cons _ _ _ _ hi
  have hn : idx? data (i + 1) = .ok cQuote := by
    rw [hd]
    have : pre ++ cEq :: cQuote :: tail = (pre ++ [cEq]) ++ cQuote :: tail := by simp
    rw [this]; exact idx?_append_cons _ _ _ _ (by simp; omega)
  have hb := idx?_eq_ok hn
  rw [paramsLoop]
  simp only []
  rw [if_neg (by omega), hc, ok_bind, if_neg (by decide), if_neg (by decide), if_pos (by decide)]
  rw [if_pos (by omega), hn, ok_bind]
  simp only [pure_eq_ok, ok_bind, bne_self_eq_false, Bool.false_eq_true, if_false]
  rw [slice?_ok _ _ _ (by omega), ok_bind]

/-- a `"` not preceded by a backslash, outside a value: the value starts after it -/
theorem paramsLoop_open (data : Bytes) (f : Nat) (i a b : Int) (pid : Bytes) (ps : SDParams)
    (pre tail : Bytes) (x : UInt8) (hd : data = pre ++ x :: cQuote :: tail) (hi : i = pre.length + 1)
    (hx : x ≠ cBackslash) :
    paramsLoop data (f+1) ⟨i, a, b, false, pid, ps⟩ = paramsLoop data f ⟨i+1, a, i+1, true, pid, ps⟩ := by
  have hp : idx? data (i - 1) = .ok x := by rw [hd]; exact idx?_append_cons _ _ _ _ (by omega)
  have hc : idx? data i = .ok cQuote := by
    rw [hd]
    have : pre ++ x :: cQuote :: tail = (pre ++ [x]) ++ cQuote :: tail := by simp
    rw [this]; exact idx?_append_cons _ _ _ _ (by simp; omega)
  have hb := idx?_eq_ok hc
  rw [paramsLoop]
  simp only []
  rw [if_neg (by omega), hc, ok_bind, if_neg (by decide), if_neg (by decide), if_neg (by decide), if_pos rfl,
    if_neg (by omega), hp, ok_bind, if_neg hx]
  simp only [Bool.false_eq_true, if_false]

/-- a `"` not preceded by a backslash, inside a value: the value is `data[startParamValue:idx]` -/
theorem paramsLoop_close (data : Bytes) (f : Nat) (i a b : Int) (pid : Bytes) (ps : SDParams)
    (pre tail : Bytes) (x : UInt8) (hd : data = pre ++ x :: cQuote :: tail) (hi : i = pre.length + 1)
    (hx : x ≠ cBackslash) (hbv : 0 ≤ b ∧ b ≤ i) :
    paramsLoop data (f+1) ⟨i, a, b, true, pid, ps⟩ =
      paramsLoop data f ⟨i+1, a, b, false, pid, mapSet ps pid ((data.drop b.toNat).take (i.toNat - b.toNat))⟩ := by
  have hp : idx? data (i - 1) = .ok x := by rw [hd]; exact idx?_append_cons _ _ _ _ (by omega)
  have hc : idx? data i = .ok cQuote := by
    rw [hd]
    have : pre ++ x :: cQuote :: tail = (pre ++ [x]) ++ cQuote :: tail := by simp
    rw [this]; exact idx?_append_cons _ _ _ _ (by simp; omega)
  have hb := idx?_eq_ok hc
  rw [paramsLoop]
  simp only []
  rw [if_neg (by omega), hc, ok_bind, if_neg (by decide), if_neg (by decide), if_neg (by decide), if_pos rfl,
    if_neg (by omega), hp, ok_bind, if_neg hx]
  simp only [if_true]
  rw [slice?_ok _ _ _ (by omega), ok_bind]

/-- `]` directly after a `"`: the element is closed -/
theorem paramsLoop_rbr (data : Bytes) (f : Nat) (s : PS)
    (pre tail : Bytes) (hd : data = pre ++ cQuote :: cRBr :: tail) (hi : s.idx = pre.length + 1) :
    paramsLoop data (f+1) s = .ok (some (s, true)) := by
  have hp : idx? data (s.idx - 1) = .ok cQuote := by rw [hd]; exact idx?_append_cons _ _ _ _ (by omega)
  have hc : idx? data s.idx = .ok cRBr := by
    rw [hd]
    have : pre ++ cQuote :: cRBr :: tail = (pre ++ [cQuote]) ++ cRBr :: tail := by simp
    rw [this]; exact idx?_append_cons _ _ _ _ (by simp; omega)
  have hb := idx?_eq_ok hc
  rw [paramsLoop]
  rw [if_neg (by omega), hc, ok_bind, if_pos rfl, if_neg (by omega), hp, ok_bind]
  simp

/-- the params loop on one parameter `k="v"]` -/
theorem paramsLoop_one (k v rest : Bytes)
    (hk : ∀ c ∈ k, c ≠ cRBr ∧ c ≠ cQuote ∧ c ≠ SP ∧ c ≠ cEq)
    (hv : ∀ c ∈ v, c ≠ cRBr ∧ c ≠ cQuote) (hvl : v.getLast? ≠ some cBackslash) (f : Nat) :
    paramsLoop (k ++ cEq :: cQuote :: (v ++ cQuote :: cRBr :: rest)) (f + 1 + 1 + v.length + 1 + 1 + k.length)
        ⟨0, 0, 0, false, [], []⟩ =
      .ok (some (⟨k.length + 1 + 1 + v.length + 1, 0, k.length + 1 + 1, false, k, [(k, v)]⟩, true)) := by
  generalize hdata : k ++ cEq :: cQuote :: (v ++ cQuote :: cRBr :: rest) = data
  rw [paramsLoop_skip data 0 0 false [] [] k [] (cEq :: cQuote :: (v ++ cQuote :: cRBr :: rest)) _ 0
    (by rw [← hdata]; simp) (by simp)
    (fun c hc => ⟨(hk c hc).1, (hk c hc).2.1, fun _ => (hk c hc).2.2⟩)]
  rw [paramsLoop_eq data _ _ 0 0 [] [] k (v ++ cQuote :: cRBr :: rest) hdata.symm (by omega) (by omega)]
  have hpid : (data.drop (0 : Int).toNat).take ((0 + (k.length : Int)).toNat - (0 : Int).toNat) = k := by
    rw [← hdata]; simp
  rw [hpid]
  rw [paramsLoop_open data _ _ 0 0 k [] k (v ++ cQuote :: cRBr :: rest) cEq hdata.symm (by omega) (by decide)]
  rw [paramsLoop_skip data 0 _ true k [] v (k ++ [cEq, cQuote]) (cQuote :: cRBr :: rest) _ _
    (by rw [← hdata]; simp) (by simp; omega)
    (fun c hc => ⟨(hv c hc).1, (hv c hc).2, fun h => by cases h⟩)]
  -- the byte before the closing quote
  have hlast : ∃ pre' x, k ++ cEq :: cQuote :: v = pre' ++ [x] ∧ x ≠ cBackslash := by
    rcases List.eq_nil_or_concat v with e | ⟨v', x, e⟩
    · subst e
      exact ⟨k ++ [cEq], cQuote, by simp, by decide⟩
    · subst e
      refine ⟨k ++ cEq :: cQuote :: v', x, by simp, ?_⟩
      intro ex
      apply hvl
      simp [ex]
  obtain ⟨pre', x, hpre, hx⟩ := hlast
  have hlen := congrArg List.length hpre
  simp only [List.length_append, List.length_cons, List.length_nil] at hlen
  have hd2 : data = pre' ++ x :: cQuote :: cRBr :: rest := by
    rw [← hdata]
    have : k ++ cEq :: cQuote :: (v ++ cQuote :: cRBr :: rest) = (k ++ cEq :: cQuote :: v) ++ cQuote :: cRBr :: rest := by
      simp
    rw [this, hpre]; simp
  rw [paramsLoop_close data _ _ 0 _ k [] pre' (cRBr :: rest) x hd2 (by omega) hx (by omega)]
  rw [paramsLoop_rbr data f _ (k ++ cEq :: cQuote :: v) rest (by rw [← hdata]; simp) (by simp; omega)]
  have hval : (data.drop (0 + (k.length : Int) + 1 + 1).toNat).take
      ((0 + (k.length : Int) + 1 + 1 + v.length).toNat - (0 + (k.length : Int) + 1 + 1).toNat) = v := by
    rw [← hdata]
    have e1 : (0 + (k.length : Int) + 1 + 1).toNat = k.length + 2 := by omega
    have e2 : (0 + (k.length : Int) + 1 + 1 + v.length).toNat - (k.length + 2) = v.length := by omega
    rw [e1, e2]
    have : k ++ cEq :: cQuote :: (v ++ cQuote :: cRBr :: rest) = (k ++ [cEq, cQuote]) ++ (v ++ cQuote :: cRBr :: rest) := by
      simp
    rw [this, List.drop_left' (by simp), List.take_left' rfl]
  rw [hval]
  simp only [mapSet]
  congr 4 <;> omega

/-- byte length of the element `[id k="v"]` -/
def sdLen (id k v : Bytes) : Nat := 1 + (id.length + 1) + (k.length + 1 + 1 + v.length + 1 + 1)

/-- one structured-data element `[id k="v"]` followed by `rest` (which does not open another element) -/
theorem parseStructuredData_one (id k v rest : Bytes)
    (hid : SP ∉ id) (hidl : 2 ≤ id.length)
    (hk : ∀ c ∈ k, c ≠ cRBr ∧ c ≠ cQuote ∧ c ≠ SP ∧ c ≠ cEq)
    (hv : ∀ c ∈ v, c ≠ cRBr ∧ c ≠ cQuote) (hvl : v.getLast? ≠ some cBackslash)
    (hrest : rest.head? ≠ some cLBr) :
    parseStructuredData (cLBr :: (id ++ SP :: (k ++ cEq :: cQuote :: (v ++ cQuote :: cRBr :: rest)))) =
      .ok ([(id, [(k, v)])], (sdLen id k v : Nat), true) := by
  generalize hP : k ++ cEq :: cQuote :: (v ++ cQuote :: cRBr :: rest) = P
  have hPlen : P.length + 1 = (rest.length + 1) + 1 + 1 + v.length + 1 + 1 + k.length := by
    rw [← hP]; simp only [List.length_append, List.length_cons]; omega
  have hloop : sdLoop ((id ++ SP :: P).length + 1 + 1) (cLBr :: (id ++ SP :: P)) 0 [] false =
      .ok (some ([(id, [(k, v)])], (sdLen id k v : Nat), true)) := by
    rw [sdLoop]
    have h0 : idx? (cLBr :: (id ++ SP :: P)) 0 = .ok cLBr := rfl
    rw [if_pos (by simp), h0, ok_bind, if_neg (by simp)]
    have h1 : sliceFrom? (cLBr :: (id ++ SP :: P)) 1 = .ok (id ++ SP :: P) := sliceFrom?_append [cLBr] _ _ rfl
    rw [h1, ok_bind]
    simp only []
    rw [indexByte_append_cons id P SP hid, if_neg (by omega), sliceTo?_append _ _ _ rfl, ok_bind,
      sliceFrom?_append_cons _ _ _ _ rfl, ok_bind, hPlen, ← hP, paramsLoop_one k v rest hk hv hvl, ok_bind]
    simp only [Bool.not_true, Bool.false_eq_true, if_false]
    have h2 : sliceFrom? (k ++ cEq :: cQuote :: (v ++ cQuote :: cRBr :: rest))
        ((k.length : Int) + 1 + 1 + v.length + 1 + 1) = .ok rest := by
      have : k ++ cEq :: cQuote :: (v ++ cQuote :: cRBr :: rest) = (k ++ cEq :: cQuote :: (v ++ [cQuote, cRBr])) ++ rest := by
        simp
      rw [this]
      exact sliceFrom?_append _ _ _ (by simp; omega)
    rw [h2, ok_bind, hP, sdLoop]
    have hoff : (0 : Int) + 1 + ((id.length : Int) + 1) + ((k.length : Int) + 1 + 1 + v.length + 1 + 1) =
        (sdLen id k v : Nat) := by
      unfold sdLen; omega
    rw [hoff]
    cases rest with
    | nil => rfl
    | cons c r =>
      have hc : c ≠ cLBr := fun e => hrest (by simp [e])
      have h3 : idx? (c :: r) 0 = .ok c := rfl
      rw [if_pos (by simp), h3, ok_bind, if_pos hc]
      rfl
  unfold parseStructuredData
  have h0 : idx? (cLBr :: (id ++ SP :: P)) 0 = .ok cLBr := rfl
  rw [if_pos (by simp), h0, ok_bind]
  simp only [pure_eq_ok, ok_bind]
  rw [if_neg (by decide)]
  show (sdLoop ((id ++ SP :: P).length + 1 + 1) (cLBr :: (id ++ SP :: P)) 0 [] false >>= _) = _
  rw [hloop, ok_bind]
  rfl

/-- structured data `[id k="v"]`, SP, message -/
theorem sdMsgPart_one (a b c d e f g h i id k v msg : Bytes)
    (hid : SP ∉ id) (hidl : 2 ≤ id.length)
    (hk : ∀ c ∈ k, c ≠ cRBr ∧ c ≠ cQuote ∧ c ≠ SP ∧ c ≠ cEq)
    (hv : ∀ c ∈ v, c ≠ cRBr ∧ c ≠ cQuote) (hvl : v.getLast? ≠ some cBackslash)
    (hmsg : msg.head? ≠ some SP) :
    sdMsgPart a b c d e f g h i
        (cLBr :: (id ++ SP :: (k ++ cEq :: cQuote :: (v ++ cQuote :: cRBr :: SP :: msg)))) =
      .ok (some ⟨a, b, c, d, e, f, g, h, i, stripBom msg, [(id, [(k, v)])]⟩) := by
  unfold sdMsgPart
  rw [parseStructuredData_one id k v (SP :: msg) hid hidl hk hv hvl (by simp; decide), ok_bind]
  simp only [Bool.not_true, Bool.false_eq_true, if_false]
  have hlen : (cLBr :: (id ++ SP :: (k ++ cEq :: cQuote :: (v ++ cQuote :: cRBr :: SP :: msg)))).length =
      sdLen id k v + 1 + msg.length := by
    unfold sdLen
    simp only [List.length_append, List.length_cons]
    omega
  rw [if_neg (by rw [hlen]; omega)]
  have hs : sliceFrom? (cLBr :: (id ++ SP :: (k ++ cEq :: cQuote :: (v ++ cQuote :: cRBr :: SP :: msg))))
      ((sdLen id k v : Nat) + 1) = .ok msg := by
    have : cLBr :: (id ++ SP :: (k ++ cEq :: cQuote :: (v ++ cQuote :: cRBr :: SP :: msg))) =
        (cLBr :: (id ++ SP :: (k ++ cEq :: cQuote :: (v ++ [cQuote, cRBr])))) ++ SP :: msg := by simp
    rw [this]
    apply sliceFrom?_append_cons
    unfold sdLen
    simp only [List.length_append, List.length_cons, List.length_nil]
    omega
  rw [hs, ok_bind]
  have hstrip : (if msg.length > 0 then do
      let c ← idx? msg 0
      if c = SP then sliceFrom? msg 1 else pure msg
    else pure msg : GoM Bytes) = .ok msg := by
    cases msg with
    | nil => rfl
    | cons x r =>
      have hx : x ≠ SP := fun e => hmsg (by simp [e])
      have h3 : idx? (x :: r) 0 = .ok x := rfl
      rw [if_pos (by simp), h3, ok_bind, if_neg hx]
      rfl
  rw [hstrip, ok_bind, bomStep, ok_bind]
  rfl

theorem getLast?_sp_append_ne_nl (Y msg : Bytes) (h : msg.getLast? ≠ some NL) :
    (Y ++ [SP] ++ msg).getLast? ≠ some NL := by
  rw [List.getLast?_append]
  cases hm : msg.getLast? with
  | none => simp [List.getLast?_append]; decide
  | some c =>
    simp only [Option.some_or]
    intro e
    exact h (by rw [hm, e])

/-- **Fidelity** with one structured-data element `[id k="v"]`: the header fields as in `decode_fields`,
    `sd = {id: {k: v}}`, and the message. Hypotheses about reserved bytes only: `id` has no SP and at least
    2 bytes; `k` has none of `]` `"` SP `=`; `v` has no `]` or `"` and does not end in a backslash.
    NB: here (unlike the NILVALUE case) the Go code strips one leading SP of the message, so the
    message must not start with SP for the row to be exact. -/
theorem decode_sd_one (facStr sevStr nl : Bool) (pri ver ts host app procid msgid id k v msg : Bytes) (p : Int)
    (hpri : atoi pri = some p) (hpl : pri.length ≤ 3) (hp : p ≤ 191)
    (hver : (atoi ver).isSome)
    (hts : ts = [] ∨ (SP ∉ ts ∧ validateTimestamp ts = .ok true))
    (hhost : FieldOK host) (happ : FieldOK app) (hproc : FieldOK procid) (hmsgid : FieldOK msgid)
    (hid : SP ∉ id) (hidl : 2 ≤ id.length)
    (hk : ∀ c ∈ k, c ≠ cRBr ∧ c ≠ cQuote ∧ c ≠ SP ∧ c ≠ cEq)
    (hv : ∀ c ∈ v, c ≠ cRBr ∧ c ≠ cQuote) (hvl : v.getLast? ≠ some cBackslash)
    (hmsg : msg.head? ≠ some SP)
    (hnl : nl = false → msg.getLast? ≠ some NL) :
    decode facStr sevStr ([cLt] ++ pri ++ [cGt] ++ ver ++ [SP] ++ nilOr ts ++ [SP] ++ nilOr host ++ [SP] ++
        nilOr app ++ [SP] ++ nilOr procid ++ [SP] ++ nilOr msgid ++ [SP] ++
        ([cLBr] ++ id ++ [SP] ++ k ++ [cEq, cQuote] ++ v ++ [cQuote, cRBr]) ++ [SP] ++ msg ++
        (if nl then [NL] else [])) =
      .ok (some ⟨pri, facility p facStr, severity p sevStr, ver, ts, host, app, procid, msgid, stripBom msg,
        [(id, [(k, v)])]⟩) := by
  rw [decode_header facStr sevStr _ pri ver ts host app procid msgid
    (cLBr :: (id ++ SP :: (k ++ cEq :: cQuote :: (v ++ cQuote :: cRBr :: SP :: msg)))) p hpri hpl hp hver hts
    hhost happ hproc hmsgid ?_]
  · exact sdMsgPart_one _ _ _ _ _ _ _ _ _ id k v msg hid hidl hk hv hvl hmsg
  · cases nl with
    | true =>
      rw [if_pos rfl, trimSuffixNL_append_nl]
      simp only [List.append_assoc, List.cons_append, List.nil_append]
    | false =>
      rw [if_neg (by simp), List.append_nil, trimSuffixNL_of_ne _ (getLast?_sp_append_ne_nl _ _ (hnl rfl))]
      simp only [List.append_assoc, List.cons_append, List.nil_append]

/-- non-vacuity: `<165>1 - host app 10 ID47 [ab k="v"] hi` -/
example : decode false false [60,49,54,53,62,49,32,45,32,104,111,115,116,32,97,112,112,32,49,48,32,73,68,52,55,32,
      91,97,98,32,107,61,34,118,34,93,32,104,105] =
    .ok (some ⟨[49,54,53], [50,48], [53], [49], [], [104,111,115,116], [97,112,112], [49,48], [73,68,52,55],
      [104,105], [([97,98], [([107], [118])])]⟩) := by rfl

/-- Asymmetry worth knowing (faithful to the Go code, see `decode_sd_one`): after a structured-data
    element one leading SP of the message is eaten, after the NILVALUE it is kept.
    `… [ab k="v"]␣␣hi` gives message `hi`, `… -␣␣hi` gives message `␣hi`. -/
example : decode false false [60,49,62,49,32,45,32,104,32,97,32,112,32,109,32,
      91,97,98,32,107,61,34,118,34,93,32,32,104,105] =
    .ok (some ⟨[49], [48], [49], [49], [], [104], [97], [112], [109], [104,105], [([97,98], [([107], [118])])]⟩) := by rfl
example : decode false false [60,49,62,49,32,45,32,104,32,97,32,112,32,109,32,45,32,32,104,105] =
    .ok (some ⟨[49], [48], [49], [49], [], [104], [97], [112], [109], [32,104,105], []⟩) := by rfl

/-! ### lines without a message -/

/-- NILVALUE structured data at the end of the line: no message -/
theorem sdMsgPart_nil_nomsg (a b c d e f g h i : Bytes) :
    sdMsgPart a b c d e f g h i [cMinus] = .ok (some ⟨a, b, c, d, e, f, g, h, i, [], []⟩) := by rfl

/-- structured data `[id k="v"]` at the end of the line: no message -/
theorem sdMsgPart_one_nomsg (a b c d e f g h i id k v : Bytes)
    (hid : SP ∉ id) (hidl : 2 ≤ id.length)
    (hk : ∀ c ∈ k, c ≠ cRBr ∧ c ≠ cQuote ∧ c ≠ SP ∧ c ≠ cEq)
    (hv : ∀ c ∈ v, c ≠ cRBr ∧ c ≠ cQuote) (hvl : v.getLast? ≠ some cBackslash) :
    sdMsgPart a b c d e f g h i
        (cLBr :: (id ++ SP :: (k ++ cEq :: cQuote :: (v ++ cQuote :: cRBr :: [])))) =
      .ok (some ⟨a, b, c, d, e, f, g, h, i, [], [(id, [(k, v)])]⟩) := by
  unfold sdMsgPart
  rw [parseStructuredData_one id k v [] hid hidl hk hv hvl (by simp), ok_bind]
  simp only [Bool.not_true, Bool.false_eq_true, if_false]
  have hlen : (cLBr :: (id ++ SP :: (k ++ cEq :: cQuote :: (v ++ cQuote :: cRBr :: [])))).length =
      sdLen id k v := by
    unfold sdLen
    simp only [List.length_append, List.length_cons, List.length_nil]
    omega
  rw [if_pos (by rw [hlen]; omega)]
  rfl

theorem getLast?_concat_ne_nl (Y : Bytes) (c : UInt8) (h : c ≠ NL) : (Y ++ [c]).getLast? ≠ some NL := by
  simp [h]

/-- fidelity, NILVALUE structured data and no message: `… msgid SP -` -/
theorem decode_fields_nomsg (facStr sevStr nl : Bool) (pri ver ts host app procid msgid : Bytes) (p : Int)
    (hpri : atoi pri = some p) (hpl : pri.length ≤ 3) (hp : p ≤ 191)
    (hver : (atoi ver).isSome)
    (hts : ts = [] ∨ (SP ∉ ts ∧ validateTimestamp ts = .ok true))
    (hhost : FieldOK host) (happ : FieldOK app) (hproc : FieldOK procid) (hmsgid : FieldOK msgid) :
    decode facStr sevStr ([cLt] ++ pri ++ [cGt] ++ ver ++ [SP] ++ nilOr ts ++ [SP] ++ nilOr host ++ [SP] ++
        nilOr app ++ [SP] ++ nilOr procid ++ [SP] ++ nilOr msgid ++ [SP] ++ [cMinus] ++
        (if nl then [NL] else [])) =
      .ok (some ⟨pri, facility p facStr, severity p sevStr, ver, ts, host, app, procid, msgid, [], []⟩) := by
  rw [decode_header facStr sevStr _ pri ver ts host app procid msgid [cMinus] p hpri hpl hp hver hts
    hhost happ hproc hmsgid ?_]
  · exact sdMsgPart_nil_nomsg _ _ _ _ _ _ _ _ _
  · cases nl with
    | true =>
      rw [if_pos rfl, trimSuffixNL_append_nl]
      simp only [List.append_assoc, List.cons_append, List.nil_append]
    | false =>
      rw [if_neg (by simp), List.append_nil, trimSuffixNL_of_ne _ (getLast?_concat_ne_nl _ _ (by decide))]
      simp only [List.append_assoc, List.cons_append, List.nil_append]

/-- fidelity, one structured-data element and no message: `… msgid SP [id k="v"]` -/
theorem decode_sd_one_nomsg (facStr sevStr nl : Bool) (pri ver ts host app procid msgid id k v : Bytes) (p : Int)
    (hpri : atoi pri = some p) (hpl : pri.length ≤ 3) (hp : p ≤ 191)
    (hver : (atoi ver).isSome)
    (hts : ts = [] ∨ (SP ∉ ts ∧ validateTimestamp ts = .ok true))
    (hhost : FieldOK host) (happ : FieldOK app) (hproc : FieldOK procid) (hmsgid : FieldOK msgid)
    (hid : SP ∉ id) (hidl : 2 ≤ id.length)
    (hk : ∀ c ∈ k, c ≠ cRBr ∧ c ≠ cQuote ∧ c ≠ SP ∧ c ≠ cEq)
    (hv : ∀ c ∈ v, c ≠ cRBr ∧ c ≠ cQuote) (hvl : v.getLast? ≠ some cBackslash) :
    decode facStr sevStr ([cLt] ++ pri ++ [cGt] ++ ver ++ [SP] ++ nilOr ts ++ [SP] ++ nilOr host ++ [SP] ++
        nilOr app ++ [SP] ++ nilOr procid ++ [SP] ++ nilOr msgid ++ [SP] ++
        ([cLBr] ++ id ++ [SP] ++ k ++ [cEq, cQuote] ++ v ++ [cQuote] ++ [cRBr]) ++
        (if nl then [NL] else [])) =
      .ok (some ⟨pri, facility p facStr, severity p sevStr, ver, ts, host, app, procid, msgid, [],
        [(id, [(k, v)])]⟩) := by
  rw [decode_header facStr sevStr _ pri ver ts host app procid msgid
    (cLBr :: (id ++ SP :: (k ++ cEq :: cQuote :: (v ++ cQuote :: cRBr :: [])))) p hpri hpl hp hver hts
    hhost happ hproc hmsgid ?_]
  · exact sdMsgPart_one_nomsg _ _ _ _ _ _ _ _ _ id k v hid hidl hk hv hvl
  · cases nl with
    | true =>
      rw [if_pos rfl, trimSuffixNL_append_nl]
      simp only [List.append_assoc, List.cons_append, List.nil_append]
    | false =>
      rw [if_neg (by simp), List.append_nil]
      simp only [← List.append_assoc]
      rw [trimSuffixNL_of_ne _ (getLast?_concat_ne_nl _ _ (by decide))]
      simp only [List.append_assoc, List.cons_append, List.nil_append]

end FileD.Dec.Syslog5424
