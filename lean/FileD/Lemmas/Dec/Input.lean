import FileD.Lemmas.Dec.Basic
import FileD.Model.Dec.Input
namespace FileD.Dec.Input
open FileD GoSlice FileD.Dec

/-- what `checkInputBytes` does, in closed form -/
def spec (cfg : Cfg) (line following : Bytes) : Res :=
  if line.length = 0 ∨ line = [NL] then ⟨false, false, line, line ++ following⟩
  else if cfg.maxEventSize ≠ 0 ∧ line.length > cfg.maxEventSize then
    if !cfg.cutOff then ⟨false, false, line, line ++ following⟩
    else if line.getLast? = some NL then
      ⟨true, true, line.take cfg.maxEventSize ++ [NL], line.set cfg.maxEventSize NL ++ following⟩
    else ⟨true, true, line.take cfg.maxEventSize, line ++ following⟩
  else ⟨true, false, line, line ++ following⟩

theorem getLast?_eq_getElem? {α} (l : List α) : l.getLast? = l[l.length - 1]? := by
  cases l with
  | nil => rfl
  | cons a as => rw [List.getLast?_eq_getElem?]

theorem checkInputBytes_eq (cfg : Cfg) (line following : Bytes) :
    checkInputBytes cfg line following = .ok (spec cfg line following) := by
  unfold checkInputBytes spec
  simp only []
  by_cases h0 : line.length = 0
  · have : ((line.length : Nat) : Int) = 0 := by omega
    simp [h0]
  · have hi : ¬ (((line.length : Nat) : Int) = 0) := by omega
    rw [if_neg hi]
    obtain ⟨b0, hb0, hg0⟩ := idx?_ok line 0 (by omega)
    rw [hb0, ok_bind]
    by_cases h1 : line = [NL]
    · subst h1
      have : b0 = NL := by simpa using hg0.symm
      subst this
      simp
    · have hc1 : ¬ (b0 = NL ∧ ((line.length : Nat) : Int) = 1) := by
        intro ⟨hb, hl⟩
        apply h1
        have hl' : line.length = 1 := by omega
        match line, hl' with
        | [x], _ =>
          have : x = b0 := by simpa using hg0
          rw [this, hb]
      have hs : ¬ (line.length = 0 ∨ line = [NL]) := by simp [h0, h1]
      rw [if_neg hc1, if_neg hs]
      by_cases hm : cfg.maxEventSize ≠ 0 ∧ line.length > cfg.maxEventSize
      · have hm' : cfg.maxEventSize ≠ 0 ∧ ((line.length : Nat) : Int) > (cfg.maxEventSize : Nat) := ⟨hm.1, by omega⟩
        rw [if_pos hm', if_pos hm]
        by_cases hcut : cfg.cutOff = true
        · simp only [hcut, Bool.not_true, Bool.false_eq_true, ↓reduceIte]
          obtain ⟨last, hl, hgl⟩ := idx?_ok line (((line.length : Nat) : Int) - 1) (by omega)
          rw [hl, ok_bind, sliceTo?_ok _ _ (by omega), ok_bind]
          have hlast : line.getLast? = some last := by
            rw [getLast?_eq_getElem?]
            have : (((line.length : Nat) : Int) - 1).toNat = line.length - 1 := by omega
            rw [← this]; exact hgl
          by_cases hnl : last = NL
          · subst hnl
            simp only [beq_self_eq_true, ↓reduceIte, hlast]
            unfold appendByte
            have hlt : cfg.maxEventSize < (line ++ following).length := by simp; omega
            rw [if_pos hlt]
            simp only [pure_eq_ok]
            have hset : (line ++ following).set cfg.maxEventSize NL = line.set cfg.maxEventSize NL ++ following :=
              List.set_append_left _ _ (by omega)
            rw [hset]
            congr 2
            have hlen : cfg.maxEventSize + 1 ≤ (line.set cfg.maxEventSize NL).length := by simp; omega
            rw [List.take_append_of_le_length hlen]
            rw [List.take_add_one, List.take_set_of_le (Nat.le_refl _)]
            simp [hm.2]
          · have : (last == NL) = false := by simp [hnl]
            simp only [this, Bool.false_eq_true, ↓reduceIte, hlast, Option.some.injEq, hnl, Int.toNat_natCast, pure_eq_ok]
        · have hcut' : cfg.cutOff = false := by simpa using hcut
          simp [hcut']
      · have hm' : ¬ (cfg.maxEventSize ≠ 0 ∧ ((line.length : Nat) : Int) > (cfg.maxEventSize : Nat)) := by
          intro ⟨a, b⟩; exact hm ⟨a, by omega⟩
        rw [if_neg hm', if_neg hm]
        rfl

end FileD.Dec.Input
