/-
  C12, nginx error-log decoder (`decoder/nginx.go`, model `FileD/Model/Dec/Nginx.lean`).

  * `decode_total`           : for every byte string (every `unicode.IsLetter` oracle, with or without
                               custom fields) the decoder never panics and no loop runs out of fuel.
  * `decode_msg`, `decode_cid_msg` : header fidelity in general form — after a well-formed
                               `date clock [level] pid#tid: ` (resp. `… pid#tid: *cid `) the header fields
                               are exact and the message part goes to `extractCustomFields` unchanged.
  * `decode_fields`          : `date clock [level] pid#tid: msg` decodes to its fields (no custom fields).
  * `decode_fields_cid`      : the same with a connection id `… pid#tid: *cid msg`.
  * `decode_fields_custom`, `decode_fields_cid_custom` : with `nginx_with_custom_fields`, a message without
                               `", "` followed by `, key: "value"` fields yields message and field map
                               (`extractCustomFields_raw` covers unquoted `, key:raw` fields).

  Proof method: every loop of the model is shown equal to a pure function of a sub-list
  (`spaceSplit_eq`, `pidLoop_eq`, `extractLoop_step`), which gives totality and is computed on
  structured lines.
-/
import FileD.Lemmas.Dec.Basic
import FileD.Model.Dec.Nginx
namespace FileD.Dec.Nginx
open FileD GoSlice FileD.Dec

/-! ### general list facts -/

theorem drop_cons_of_getElem? {α} {l : List α} {n : Nat} {c : α} (h : l[n]? = some c) :
    l.drop n = c :: l.drop (n + 1) := by
  obtain ⟨hn, hc⟩ := List.getElem?_eq_some_iff.mp h
  rw [List.drop_eq_getElem_cons hn, hc]

theorem drop_append_len {α} (a b : List α) (n : Nat) (h : n = a.length) : (a ++ b).drop n = b := by
  subst h; simp

theorem getLast?_append_ne_nil {α} (a b : List α) (h : b ≠ []) : (a ++ b).getLast? = b.getLast? := by
  rw [List.getLast?_append, List.getLast?_eq_some_getLast h]
  rfl

theorem take_append_len {α} (a b : List α) (n : Nat) (h : n = a.length) : (a ++ b).take n = a := by
  subst h; simp

/-! ### `spaceSplit` is "the first `limit` space positions" -/

/-- positions of the spaces of `b`, counted from `k` -/
def spPos : Bytes → Int → List Int
  | [], _ => []
  | c :: cs, k => if c = SP then k :: spPos cs (k + 1) else spPos cs (k + 1)

theorem spaceSplitLoop_eq (b : Bytes) (limit : Nat) (f : Nat) :
    ∀ (i : Nat) (res : List Int), i ≤ b.length → b.length - i < f → res.length ≤ limit →
      spaceSplitLoop b limit f i res = .ok ((res ++ spPos (b.drop i) i).take limit) := by
  induction f with
  | zero => intro i res h1 h2; omega
  | succ f ih =>
    intro i res hi hf hres
    unfold spaceSplitLoop
    split
    · rename_i hc
      obtain ⟨c, hc1, hc2⟩ := idx?_ok b i (by omega)
      rw [hc1, ok_bind]
      have e : ((i : Int) + 1) = ((i + 1 : Nat) : Int) := by omega
      rw [e, ih (i + 1) _ (by omega) (by omega) (by split <;> (try simp) <;> omega)]
      simp only [Int.toNat_natCast] at hc2
      rw [drop_cons_of_getElem? hc2]
      simp only [spPos]
      rw [← e]
      split
      · simp
      · rfl
    · rename_i hc
      simp only [pure_eq_ok]
      congr 1
      by_cases h : i < b.length
      · have : res.length = limit := by omega
        rw [List.take_left' this]
      · have : b.drop i = [] := by simp; omega
        rw [this]
        simp only [spPos, List.append_nil]
        rw [List.take_of_length_le hres]

theorem spaceSplit_eq (b : Bytes) (limit : Nat) : spaceSplit b limit = .ok ((spPos b 0).take limit) := by
  unfold spaceSplit
  have := spaceSplitLoop_eq b limit (b.length + 1) 0 [] (by omega) (by omega) (by simp)
  simpa using this

/-- every element is the position of a space of `data`, the elements increase strictly from `lo` -/
def Good (data : Bytes) : Int → List Int → Prop
  | _, [] => True
  | lo, p :: ps => lo ≤ p ∧ p < data.length ∧ data[p.toNat]? = some SP ∧ Good data (p + 1) ps

theorem Good.mono {data : Bytes} : ∀ {l : List Int} {lo lo' : Int}, Good data lo l → lo' ≤ lo → Good data lo' l
  | [], _, _, _, _ => trivial
  | _ :: _, _, _, h, hle => ⟨by have := h.1; omega, h.2.1, h.2.2.1, h.2.2.2⟩

theorem Good.take {data : Bytes} : ∀ {l : List Int} {lo : Int} (n : Nat), Good data lo l → Good data lo (l.take n)
  | [], _, n, _ => by simp [Good]
  | _ :: _, _, 0, _ => by simp [Good]
  | p :: ps, _, n + 1, h => by
    rw [List.take_succ_cons]
    exact ⟨h.1, h.2.1, h.2.2.1, Good.take n h.2.2.2⟩

theorem spPos_good (data : Bytes) : ∀ (b : Bytes) (k : Nat), data.drop k = b → Good data k (spPos b k)
  | [], _, _ => trivial
  | c :: cs, k, h => by
    have hk : k < data.length := by
      apply Classical.byContradiction
      intro hn
      rw [List.drop_of_length_le (by omega)] at h
      cases h
    rw [List.drop_eq_getElem_cons hk] at h
    injection h with h1 h2
    have ih := spPos_good data cs (k + 1) h2
    have e : ((k : Int) + 1) = ((k + 1 : Nat) : Int) := by omega
    unfold spPos
    split
    · rename_i hsp
      refine ⟨Int.le_refl _, by omega, ?_, ?_⟩
      · simp [hk, h1, hsp]
      · rw [e]; exact ih
    · rw [e]
      exact ih.mono (by omega)

theorem spaceSplit_good (data : Bytes) (limit : Nat) :
    ∃ split, spaceSplit data limit = .ok split ∧ Good data 0 split :=
  ⟨_, spaceSplit_eq data limit, (spPos_good data data 0 rfl).take limit⟩

/-! ### the `pid#tid:` loop is a scan of `data[i:hi]` -/

def pidScan : Bytes → Bytes → Bytes → Bool → PT
  | [], pid, tid, pc => ⟨pid, tid, pc, false⟩
  | c :: cs, pid, tid, pc =>
    if c = cHash then pidScan cs pid tid true
    else if c = cColon then ⟨pid, tid, pc, true⟩
    else if pc then pidScan cs pid (tid ++ [c]) pc
    else pidScan cs (pid ++ [c]) tid pc

theorem pidLoop_eq (data : Bytes) (hi : Int) (hhi : hi ≤ data.length) (f : Nat) :
    ∀ (i : Int) (pid tid : Bytes) (pc : Bool), 0 ≤ i → hi - i < f → 0 < f →
      pidLoop data hi f i pid tid pc
        = .ok (pidScan ((data.drop i.toNat).take (hi - i).toNat) pid tid pc) := by
  induction f with
  | zero => intro i _ _ _ _ _ h; omega
  | succ f ih =>
    intro i pid tid pc h0 hf _
    unfold pidLoop
    split
    · rename_i hlt
      obtain ⟨c, hc1, hc2⟩ := idx?_ok data i (by omega)
      rw [hc1, ok_bind]
      have e1 : (hi - i).toNat = (hi - (i + 1)).toNat + 1 := by omega
      have e2 : i.toNat + 1 = (i + 1).toNat := by omega
      rw [drop_cons_of_getElem? hc2, e1, List.take_succ_cons, e2]
      simp only [pidScan]
      split
      · exact ih _ _ _ _ (by omega) (by omega) (by omega)
      · split
        · rfl
        · split
          · exact ih _ _ _ _ (by omega) (by omega) (by omega)
          · exact ih _ _ _ _ (by omega) (by omega) (by omega)
    · rename_i hge
      have : (hi - i).toNat = 0 := by omega
      rw [this]
      simp [pidScan]

/-! ### `bytes.LastIndex` with a two-byte needle -/

theorem lastIndex2Aux_bounds (x y : UInt8) : ∀ (b : Bytes) (i : Nat) (acc : Int),
    lastIndex2Aux x y b i acc = acc ∨
      ((i : Int) ≤ lastIndex2Aux x y b i acc ∧ lastIndex2Aux x y b i acc + 2 ≤ i + b.length)
  | [], _, _ => by simp [lastIndex2Aux]
  | [_], _, _ => by simp [lastIndex2Aux]
  | a :: b :: rest, i, acc => by
    have ih := lastIndex2Aux_bounds x y (b :: rest) (i + 1) (if a = x ∧ b = y then (i : Int) else acc)
    rw [lastIndex2Aux]
    simp only [List.length_cons] at ih ⊢
    rcases ih with ih | ih
    · rw [ih]
      split
      · right; omega
      · left; rfl
    · right; omega

theorem lastIndex2_bounds (b : Bytes) (x y : UInt8) :
    lastIndex2 b x y = -1 ∨ (0 ≤ lastIndex2 b x y ∧ lastIndex2 b x y + 2 ≤ b.length) := by
  unfold lastIndex2
  rcases lastIndex2Aux_bounds x y b 0 (-1) with h | h
  · left; exact h
  · right; omega

/-! ### `extractCustomFields` -/

theorem extractLoop_total (letters : Bytes → Bool) (f : Nat) :
    ∀ (data : Bytes) (fields : Fields), data.length < f → Total (extractLoop letters f data fields) := by
  induction f with
  | zero => intro _ _ h; omega
  | succ f ih =>
    intro data fields hf
    unfold extractLoop
    split
    · have hs := lastIndex2_bounds data cComma SP
      simp only []
      split
      · simp
      · rw [sliceFrom?_ok _ _ (by omega), ok_bind]
        have hb := indexByte_bounds (data.drop (lastIndex2 data cComma SP + 2).toNat) cColon
        split
        · simp
        · rw [sliceTo?_ok _ _ (by omega), ok_bind]
          split
          · simp
          · rw [sliceFrom?_ok _ _ (by omega), ok_bind]
            have hdata : sliceTo? data (lastIndex2 data cComma SP) = .ok (data.take (lastIndex2 data cComma SP).toNat) :=
              sliceTo?_ok _ _ (by omega)
            split
            · rename_i hlen
              simp only [List.length_drop] at hlen hb
              rw [sliceFrom?_ok _ _ (by simp only [List.length_drop]; omega), ok_bind]
              simp only [pure_eq_ok, ok_bind]
              rw [hdata, ok_bind]
              apply ih
              simp only [List.length_take]
              omega
            · simp only [pure_eq_ok, ok_bind]
              rw [hdata, ok_bind]
              apply ih
              simp only [List.length_take]
              omega
    · simp

theorem extractCustomFields_total (withCustom : Bool) (letters : Bytes → Bool) (data : Bytes) :
    Total (extractCustomFields withCustom letters data) := by
  unfold extractCustomFields
  split
  · simp
  · exact extractLoop_total letters _ _ _ (by omega)

/-! ### totality of `Decode` -/

theorem exists_four {α} (l : List α) (h : ¬ l.length < 4) : ∃ a b c e rest, l = a :: b :: c :: e :: rest := by
  match l, h with
  | [], h => simp at h
  | [_], h => simp at h
  | [_, _], h => simp at h
  | [_, _, _], h => simp at h
  | a :: b :: c :: e :: rest, _ => exact ⟨a, b, c, e, rest, rfl⟩

theorem idx?_1 {α} (a b : α) (l : List α) : idx? (a :: b :: l) 1 = .ok b := rfl
theorem idx?_2 {α} (a b c : α) (l : List α) : idx? (a :: b :: c :: l) 2 = .ok c := rfl
theorem idx?_3 {α} (a b c e : α) (l : List α) : idx? (a :: b :: c :: e :: l) 3 = .ok e := rfl
theorem idx?_4 {α} (a b c e g : α) (l : List α) : idx? (a :: b :: c :: e :: g :: l) 4 = .ok g := rfl

theorem decode_total (withCustom : Bool) (letters : Bytes → Bool) (data : Bytes) :
    Total (decode withCustom letters data) := by
  unfold decode
  simp only []
  generalize trimSuffixNL data = d
  obtain ⟨split, hs, hg⟩ := spaceSplit_good d 5
  rw [hs, ok_bind]
  split
  · simp
  · rename_i hlen
    obtain ⟨s0, s1, s2, s3, rest, rfl⟩ := exists_four split hlen
    simp only [Good] at hg
    obtain ⟨h0, -, -, h1, -, -, h2, -, -, h3, h3l, -, hrest⟩ := hg
    rw [idx?_1, ok_bind, sliceTo?_ok _ _ (by omega), ok_bind, idx?_2, ok_bind]
    split
    · simp
    · rw [slice?_ok _ _ _ (by omega), ok_bind, idx?_3, ok_bind,
        pidLoop_eq d s3 (by omega) _ _ _ _ _ (by omega) (by omega) (by omega), ok_bind]
      split
      · simp
      · split
        · simp
        · rename_i hlen2
          generalize pidScan _ [] [] false = pt
          have hnostar : ∀ (time level : Bytes), Total (do
              let rest ← sliceFrom? d (s3 + 1)
              let (msg, fields) ← extractCustomFields withCustom letters rest
              pure (some (⟨time, level, pt.pid, pt.tid, [], msg, fields⟩ : Row))) := by
            intro time level
            rw [sliceFrom?_ok _ _ (by omega), ok_bind]
            obtain ⟨r, hr⟩ := extractCustomFields_total withCustom letters (d.drop (s3 + 1).toNat)
            rw [hr, ok_bind]
            simp
          cases rest with
          | nil =>
            rw [if_neg (by simp), pure_eq_ok, ok_bind, if_neg (by simp)]
            exact hnostar _ _
          | cons s4 rest =>
            simp only [Good] at hrest
            obtain ⟨h4, h4l, h4sp, -⟩ := hrest
            obtain ⟨c, hc1, hc2⟩ := idx?_ok d (s3 + 1) (by omega)
            rw [if_pos (by simp), hc1, ok_bind, pure_eq_ok, ok_bind]
            split
            · rename_i hstar
              have hne : s4 ≠ s3 + 1 := by
                intro e
                rw [e, hc2] at h4sp
                injection h4sp with h4sp
                rw [h4sp] at hstar
                exact absurd hstar (by decide)
              rw [idx?_4, ok_bind, slice?_ok _ _ _ (by omega), ok_bind]
              split
              · rw [sliceFrom?_ok _ _ (by omega), ok_bind]
                obtain ⟨r, hr⟩ := extractCustomFields_total withCustom letters (d.drop (s4 + 1).toNat)
                rw [hr, ok_bind]
                simp
              · simp
            · exact hnostar _ _

/-- non-vacuity: `"d c [e] 1#2: m\n"` decodes; `"a b c d"` is rejected without a panic -/
example : decode true (fun _ => true) [100,32,99,32,91,101,93,32,49,35,50,58,32,109,10]
    = .ok (some ⟨[100,32,99],[101],[49],[50],[],[109],[]⟩) := rfl
example : decode true (fun _ => true) [97,32,98,32,99,32,100] = .ok none := rfl

/-! ### fidelity on well-formed lines -/

theorem spPos_append : ∀ (a b : Bytes) (k : Int), spPos (a ++ b) k = spPos a k ++ spPos b (k + a.length)
  | [], b, k => by simp [spPos]
  | c :: cs, b, k => by
    have ih := spPos_append cs b (k + 1)
    have e : k + (((c :: cs).length : Nat) : Int) = k + 1 + cs.length := by
      simp only [List.length_cons]; omega
    rw [e]
    simp only [List.cons_append, spPos]
    split <;> simp [ih]

theorem spPos_nosp : ∀ (a : Bytes) (k : Int), SP ∉ a → spPos a k = []
  | [], _, _ => rfl
  | c :: cs, k, h => by
    simp only [List.mem_cons, not_or] at h
    unfold spPos
    rw [if_neg (fun e => h.1 e.symm)]
    exact spPos_nosp cs (k + 1) h.2

theorem spPos_sp (cs : Bytes) (k : Int) : spPos (SP :: cs) k = k :: spPos cs (k + 1) := by
  simp [spPos]

theorem spPos_ne (c : UInt8) (cs : Bytes) (k : Int) (h : c ≠ SP) : spPos (c :: cs) k = spPos cs (k + 1) := by
  simp [spPos, h]

theorem cons_congr {α} {a a' : α} {l l' : List α} (h1 : a = a') (h2 : l = l') : a :: l = a' :: l' := by
  rw [h1, h2]

theorem getElem?_of_drop_eq_cons {α} {l : List α} {n : Nat} {c : α} {cs : List α} (h : l.drop n = c :: cs) :
    l[n]? = some c := by
  have := List.getElem?_drop (xs := l) (i := n) (j := 0)
  rw [h] at this
  simpa using this.symm

theorem pidScan_pid : ∀ (seg rest pid tid : Bytes), (∀ c ∈ seg, c ≠ cHash ∧ c ≠ cColon) →
    pidScan (seg ++ rest) pid tid false = pidScan rest (pid ++ seg) tid false
  | [], _, _, _, _ => by simp
  | c :: cs, rest, pid, tid, h => by
    have hc := h c (by simp)
    have ih := pidScan_pid cs rest (pid ++ [c]) tid (fun x hx => h x (by simp [hx]))
    simp only [List.cons_append, pidScan, if_neg hc.1, if_neg hc.2]
    simpa using ih

theorem pidScan_tid : ∀ (seg rest pid tid : Bytes), (∀ c ∈ seg, c ≠ cHash ∧ c ≠ cColon) →
    pidScan (seg ++ rest) pid tid true = pidScan rest pid (tid ++ seg) true
  | [], _, _, _, _ => by simp
  | c :: cs, rest, pid, tid, h => by
    have hc := h c (by simp)
    have ih := pidScan_tid cs rest pid (tid ++ [c]) (fun x hx => h x (by simp [hx]))
    simp only [List.cons_append, pidScan, if_neg hc.1, if_neg hc.2]
    simpa using ih

theorem pidScan_line (pid tid : Bytes) (hp : ∀ c ∈ pid, c ≠ cHash ∧ c ≠ cColon)
    (ht : ∀ c ∈ tid, c ≠ cHash ∧ c ≠ cColon) :
    pidScan (pid ++ cHash :: (tid ++ [cColon])) [] [] false = ⟨pid, tid, true, true⟩ := by
  rw [pidScan_pid _ _ _ _ hp]
  simp only [pidScan, if_true]
  rw [pidScan_tid _ _ _ _ ht]
  simp [pidScan, cColon, cHash]

theorem trimSuffixNL_line (a : Bytes) (nl : Bool) (h : nl = false → a.getLast? ≠ some NL) :
    trimSuffixNL (a ++ (if nl then [NL] else [])) = a := by
  unfold trimSuffixNL
  cases nl with
  | true => simp
  | false => simp [h rfl]

/-- what `Decode` does after the `pid#tid:` loop -/
def decodeTail (withCustom : Bool) (letters : Bytes → Bool) (data : Bytes) (split : List Int) (s3 : Int)
    (time level pid tid : Bytes) : GoM (Option Row) :=
  if (data.length : Int) ≤ s3 + 1 then pure (some ⟨time, level, pid, tid, [], [], []⟩) else do
  let star ← (if split.length > 4 then do
                let c ← idx? data (s3 + 1)
                pure (c == cStar)
              else pure false)
  if star then do
    let s4 ← idx? split 4
    let cid ← slice? data (s3 + 2) s4
    if (data.length : Int) > s4 + 1 then do
      let rest ← sliceFrom? data (s4 + 1)
      let (msg, fields) ← extractCustomFields withCustom letters rest
      pure (some ⟨time, level, pid, tid, cid, msg, fields⟩)
    else pure (some ⟨time, level, pid, tid, cid, [], []⟩)
  else do
    let rest ← sliceFrom? data (s3 + 1)
    let (msg, fields) ← extractCustomFields withCustom letters rest
    pure (some ⟨time, level, pid, tid, [], msg, fields⟩)

theorem decode_prefix (withCustom : Bool) (letters : Bytes → Bool) (data0 data : Bytes)
    (s0 s1 s2 s3 : Int) (T : List Int) (time level pid tid : Bytes)
    (htrim : trimSuffixNL data0 = data)
    (hsplit : spPos data 0 = s0 :: s1 :: s2 :: s3 :: T)
    (h1 : 0 ≤ s1) (h12 : s1 + 4 ≤ s2) (h23 : s2 + 1 ≤ s3) (h3 : s3 ≤ data.length)
    (htime : data.take s1.toNat = time)
    (hlevel : (data.drop (s1 + 2).toNat).take ((s2 - 1).toNat - (s1 + 2).toNat) = level)
    (hpt : pidScan ((data.drop (s2 + 1).toNat).take (s3 - (s2 + 1)).toNat) [] [] false = ⟨pid, tid, true, true⟩) :
    decode withCustom letters data0
      = decodeTail withCustom letters data (s0 :: s1 :: s2 :: s3 :: T.take 1) s3 time level pid tid := by
  unfold decode
  simp only []
  rw [htrim, spaceSplit_eq, ok_bind, hsplit]
  have e : (s0 :: s1 :: s2 :: s3 :: T).take 5 = s0 :: s1 :: s2 :: s3 :: T.take 1 := rfl
  rw [e, if_neg (by simp), idx?_1, ok_bind, sliceTo?_ok _ _ (by omega), ok_bind, idx?_2, ok_bind,
    if_neg (by omega), slice?_ok _ _ _ (by omega), ok_bind, idx?_3, ok_bind,
    pidLoop_eq data s3 h3 _ _ _ _ _ (by omega) (by omega) (by omega), ok_bind, hpt, htime, hlevel]
  rfl

/-- `date clock [level] pid#tid: ` -/
def pre (date clock level pid tid : Bytes) : Bytes :=
  date ++ [SP] ++ clock ++ [SP, cLBr] ++ level ++ [cRBr, SP] ++ pid ++ [cHash] ++ tid ++ [cColon, SP]

/-- a line that starts with a well-formed `date clock [level] pid#tid: ` reaches the message part
    with exactly these header fields (`R` is whatever follows) -/
theorem decode_line (withCustom : Bool) (letters : Bytes → Bool) (date clock level pid tid R : Bytes) (nl : Bool)
    (hdate : SP ∉ date) (hclock : SP ∉ clock) (hlevel : SP ∉ level) (hlevel0 : level ≠ [])
    (hpid : ∀ c ∈ pid, c ≠ SP ∧ c ≠ cHash ∧ c ≠ cColon)
    (htid : ∀ c ∈ tid, c ≠ SP ∧ c ≠ cHash ∧ c ≠ cColon)
    (hnl : nl = false → R.getLast? ≠ some NL) :
    ∃ s0 s1 s2 : Int,
      decode withCustom letters (pre date clock level pid tid ++ R ++ (if nl then [NL] else []))
        = decodeTail withCustom letters (pre date clock level pid tid ++ R)
            (s0 :: s1 :: s2 :: ((pre date clock level pid tid).length - 1 : Int)
              :: (spPos R (pre date clock level pid tid).length).take 1)
            ((pre date clock level pid tid).length - 1) (date ++ [SP] ++ clock) level pid tid := by
  have hN : pre date clock level pid tid ++ R = date ++ SP :: (clock ++ SP :: cLBr :: (level ++ cRBr :: SP ::
      (pid ++ cHash :: (tid ++ cColon :: SP :: R)))) := by simp [pre]
  have hlen : (pre date clock level pid tid).length
      = date.length + clock.length + level.length + pid.length + tid.length + 8 := by
    simp [pre]; omega
  have hlevel1 : 0 < level.length := List.length_pos_iff.mpr hlevel0
  refine ⟨date.length, date.length + 1 + clock.length, date.length + clock.length + level.length + 4, ?_⟩
  apply decode_prefix
  · apply trimSuffixNL_line
    intro h
    cases R with
    | nil =>
      have e : pre date clock level pid tid ++ [] = (date ++ [SP] ++ clock ++ [SP, cLBr] ++ level ++ [cRBr, SP]
          ++ pid ++ [cHash] ++ tid ++ [cColon]) ++ [SP] := by simp [pre]
      rw [e, List.getLast?_concat]
      decide
    | cons r rs =>
      have := hnl h
      simpa [List.getLast?_append] using this
  · rw [hN, spPos_append, spPos_nosp _ _ hdate, List.nil_append, spPos_sp,
      spPos_append, spPos_nosp _ _ hclock, List.nil_append, spPos_sp, spPos_ne _ _ _ (by decide),
      spPos_append, spPos_nosp _ _ hlevel, List.nil_append, spPos_ne _ _ _ (by decide), spPos_sp,
      spPos_append, spPos_nosp _ _ (fun h => (hpid _ h).1 rfl), List.nil_append, spPos_ne _ _ _ (by decide),
      spPos_append, spPos_nosp _ _ (fun h => (htid _ h).1 rfl), List.nil_append, spPos_ne _ _ _ (by decide),
      spPos_sp]
    exact cons_congr (by omega) (cons_congr (by omega) (cons_congr (by omega) (cons_congr (by omega)
      (congrArg _ (by omega)))))
  · omega
  · omega
  · omega
  · simp only [List.length_append]; omega
  · have e : pre date clock level pid tid ++ R = (date ++ [SP] ++ clock) ++ (SP :: cLBr :: (level ++ cRBr :: SP ::
        (pid ++ cHash :: (tid ++ cColon :: SP :: R)))) := by simp [pre]
    rw [e, take_append_len _ _ _ (by simp only [List.length_append, List.length_cons, List.length_nil]; omega)]
  · have e : pre date clock level pid tid ++ R = (date ++ [SP] ++ clock ++ [SP, cLBr]) ++ (level ++ (cRBr :: SP ::
        (pid ++ cHash :: (tid ++ cColon :: SP :: R)))) := by simp [pre]
    rw [e, drop_append_len _ _ _ (by simp only [List.length_append, List.length_cons, List.length_nil]; omega),
      take_append_len _ _ _ (by omega)]
  · have e : pre date clock level pid tid ++ R = (date ++ [SP] ++ clock ++ [SP, cLBr] ++ level ++ [cRBr, SP])
        ++ ((pid ++ cHash :: (tid ++ [cColon])) ++ (SP :: R)) := by simp [pre]
    rw [e, drop_append_len _ _ _ (by simp only [List.length_append, List.length_cons, List.length_nil]; omega),
      take_append_len _ _ _ (by simp only [List.length_append, List.length_cons, List.length_nil]; omega)]
    exact pidScan_line pid tid (fun c hc => (hpid c hc).2) (fun c hc => (htid c hc).2)

theorem extractCustomFields_nil (withCustom : Bool) (letters : Bytes → Bool) :
    extractCustomFields withCustom letters [] = .ok ([], []) := by
  cases withCustom <;> rfl

theorem decodeTail_nostar (withCustom : Bool) (letters : Bytes → Bool) (data : Bytes) (s0 s1 s2 s3 : Int)
    (T : List Int) (time level pid tid rest msg : Bytes) (fields : Fields)
    (h3 : 0 ≤ s3 + 1 ∧ s3 + 1 ≤ data.length)
    (hrest : data.drop (s3 + 1).toNat = rest) (hT : T ≠ [] → rest.head? ≠ some cStar)
    (hx : extractCustomFields withCustom letters rest = .ok (msg, fields)) :
    decodeTail withCustom letters data (s0 :: s1 :: s2 :: s3 :: T) s3 time level pid tid
      = .ok (some ⟨time, level, pid, tid, [], msg, fields⟩) := by
  unfold decodeTail
  split
  · rename_i hle
    have : rest = [] := by
      rw [← hrest]
      apply List.drop_of_length_le
      omega
    rw [this, extractCustomFields_nil] at hx
    injection hx with hx
    injection hx with hm hf
    rw [← hm, ← hf]
    rfl
  · rename_i hgt
    have hstar : (if (s0 :: s1 :: s2 :: s3 :: T).length > 4 then do
                    let c ← idx? data (s3 + 1)
                    pure (c == cStar)
                  else pure false) = (.ok false : GoM Bool) := by
      split
      · rename_i hl
        obtain ⟨c, hc1, hc2⟩ := idx?_ok data (s3 + 1) (by omega)
        rw [hc1, ok_bind, pure_eq_ok]
        have hm : rest = c :: data.drop ((s3 + 1).toNat + 1) := by
          rw [← hrest]; exact drop_cons_of_getElem? hc2
        have hT' : T ≠ [] := by
          intro e; rw [e] at hl; simp at hl
        have := hT hT'
        rw [hm] at this
        simp only [List.head?_cons, ne_eq, Option.some.injEq] at this
        simp [this]
      · rfl
    rw [hstar, ok_bind]
    simp only [Bool.false_eq_true, if_false]
    rw [sliceFrom?_ok _ _ h3, ok_bind, hrest, hx, ok_bind]
    rfl

/-- header fidelity, general form: after a well-formed `date clock [level] pid#tid: ` the message part
    `R` is handed to `extractCustomFields` unchanged (no connection id). -/
theorem decode_msg (withCustom : Bool) (letters : Bytes → Bool) (date clock level pid tid R msg : Bytes)
    (fields : Fields) (nl : Bool)
    (hdate : SP ∉ date) (hclock : SP ∉ clock) (hlevel : SP ∉ level) (hlevel0 : level ≠ [])
    (hpid : ∀ c ∈ pid, c ≠ SP ∧ c ≠ cHash ∧ c ≠ cColon)
    (htid : ∀ c ∈ tid, c ≠ SP ∧ c ≠ cHash ∧ c ≠ cColon)
    (hstar : SP ∈ R → R.head? ≠ some cStar)
    (hnl : nl = false → R.getLast? ≠ some NL)
    (hx : extractCustomFields withCustom letters R = .ok (msg, fields)) :
    decode withCustom letters (pre date clock level pid tid ++ R ++ (if nl then [NL] else []))
      = .ok (some ⟨date ++ [SP] ++ clock, level, pid, tid, [], msg, fields⟩) := by
  obtain ⟨s0, s1, s2, h⟩ := decode_line withCustom letters date clock level pid tid R nl
    hdate hclock hlevel hlevel0 hpid htid hnl
  rw [h]
  apply decodeTail_nostar (rest := R) (hx := hx)
  · simp only [List.length_append]; omega
  · apply drop_append_len; omega
  · intro hT
    apply hstar
    apply Classical.byContradiction
    intro hsp
    rw [spPos_nosp _ _ hsp] at hT
    exact hT rfl

/-- **fidelity**: a well-formed line `date clock [level] pid#tid: msg` (optionally newline-terminated)
    decodes to exactly its fields. Only the reserved delimiters are constrained: no space in `date`,
    `clock`, `level`, `pid`, `tid`; `level` non-empty (Go rejects `[]`); no `#`/`:` in `pid`, `tid`;
    a message that contains a space must not start with `*` (else its first word is the connection id,
    see `decode_fields_cid`); without the trailing newline the message must not itself end in a newline.
    `msg` may be empty. -/
theorem decode_fields (letters : Bytes → Bool) (date clock level pid tid msg : Bytes) (nl : Bool)
    (hdate : SP ∉ date) (hclock : SP ∉ clock) (hlevel : SP ∉ level) (hlevel0 : level ≠ [])
    (hpid : ∀ c ∈ pid, c ≠ SP ∧ c ≠ cHash ∧ c ≠ cColon)
    (htid : ∀ c ∈ tid, c ≠ SP ∧ c ≠ cHash ∧ c ≠ cColon)
    (hstar : SP ∈ msg → msg.head? ≠ some cStar)
    (hnl : nl = false → msg.getLast? ≠ some NL) :
    decode false letters (date ++ [SP] ++ clock ++ [SP, 91] ++ level ++ [93, SP] ++ pid ++ [35] ++ tid
        ++ [58, SP] ++ msg ++ (if nl then [NL] else []))
      = .ok (some ⟨date ++ [SP] ++ clock, level, pid, tid, [], msg, []⟩) :=
  decode_msg false letters date clock level pid tid msg msg [] nl hdate hclock hlevel hlevel0 hpid htid hstar hnl rfl

/-- non-vacuity: `"d c [e] 1#2: m x"` with and without newline -/
example : decode false (fun _ => false) ([100] ++ [SP] ++ [99] ++ [SP, 91] ++ [101] ++ [93, SP] ++ [49] ++ [35] ++ [50]
      ++ [58, SP] ++ [109, 32, 120] ++ (if true then [NL] else []))
    = .ok (some ⟨[100] ++ [SP] ++ [99], [101], [49], [50], [], [109, 32, 120], []⟩) :=
  decode_fields _ _ _ _ _ _ _ true (by decide) (by decide) (by decide) (by decide) (by decide) (by decide)
    (by decide) (by decide)
example : decode false (fun _ => false) [100,32,99,32,91,101,93,32,49,35,50,58,32,109,32,120]
    = .ok (some ⟨[100,32,99], [101], [49], [50], [], [109, 32, 120], []⟩) := rfl

theorem decodeTail_star (withCustom : Bool) (letters : Bytes → Bool) (data : Bytes) (s0 s1 s2 s3 s4 : Int)
    (T : List Int) (time level pid tid cid rest msg : Bytes) (fields : Fields)
    (h3 : 0 ≤ s3 + 1) (h34 : s3 + 2 ≤ s4) (h4 : s4 < data.length)
    (hstar : data[(s3 + 1).toNat]? = some cStar)
    (hcid : (data.drop (s3 + 2).toNat).take (s4.toNat - (s3 + 2).toNat) = cid)
    (hrest : data.drop (s4 + 1).toNat = rest)
    (hx : extractCustomFields withCustom letters rest = .ok (msg, fields)) :
    decodeTail withCustom letters data (s0 :: s1 :: s2 :: s3 :: s4 :: T) s3 time level pid tid
      = .ok (some ⟨time, level, pid, tid, cid, msg, fields⟩) := by
  unfold decodeTail
  rw [if_neg (by omega), if_pos (by simp)]
  obtain ⟨c, hc1, hc2⟩ := idx?_ok data (s3 + 1) (by omega)
  rw [hstar] at hc2
  injection hc2 with hc2
  rw [hc1, ok_bind, pure_eq_ok, ok_bind, ← hc2]
  simp only [beq_self_eq_true, if_true]
  rw [idx?_4, ok_bind, slice?_ok _ _ _ (by omega), ok_bind, hcid]
  split
  · rw [sliceFrom?_ok _ _ (by omega), ok_bind, hrest, hx, ok_bind]
    rfl
  · have : rest = [] := by
      rw [← hrest]
      apply List.drop_of_length_le
      omega
    rw [this, extractCustomFields_nil] at hx
    injection hx with hx
    injection hx with hm hf
    rw [← hm, ← hf]
    rfl

/-- header fidelity with a connection id, general form: `… pid#tid: *cid R`; the message part `R`
    is handed to `extractCustomFields` unchanged. -/
theorem decode_cid_msg (withCustom : Bool) (letters : Bytes → Bool) (date clock level pid tid cid R msg : Bytes)
    (fields : Fields) (nl : Bool)
    (hdate : SP ∉ date) (hclock : SP ∉ clock) (hlevel : SP ∉ level) (hlevel0 : level ≠ [])
    (hpid : ∀ c ∈ pid, c ≠ SP ∧ c ≠ cHash ∧ c ≠ cColon)
    (htid : ∀ c ∈ tid, c ≠ SP ∧ c ≠ cHash ∧ c ≠ cColon)
    (hcid : SP ∉ cid)
    (hnl : nl = false → R.getLast? ≠ some NL)
    (hx : extractCustomFields withCustom letters R = .ok (msg, fields)) :
    decode withCustom letters (pre date clock level pid tid ++ cStar :: (cid ++ SP :: R) ++ (if nl then [NL] else []))
      = .ok (some ⟨date ++ [SP] ++ clock, level, pid, tid, cid, msg, fields⟩) := by
  have hnl' : nl = false → (cStar :: (cid ++ SP :: R)).getLast? ≠ some NL := by
    intro h
    cases R with
    | nil =>
      have e : cStar :: (cid ++ [SP]) = (cStar :: cid) ++ [SP] := rfl
      rw [e, List.getLast?_concat]
      decide
    | cons m ms =>
      have := hnl h
      have e : cStar :: (cid ++ SP :: m :: ms) = (cStar :: cid ++ [SP]) ++ (m :: ms) := by simp
      rw [e, getLast?_append_ne_nil _ _ (by simp)]
      exact this
  obtain ⟨s0, s1, s2, h⟩ := decode_line withCustom letters date clock level pid tid (cStar :: (cid ++ SP :: R)) nl
    hdate hclock hlevel hlevel0 hpid htid hnl'
  rw [h]
  generalize hL : (pre date clock level pid tid).length = L
  have hT : (spPos (cStar :: (cid ++ SP :: R)) L).take 1 = [(L : Int) + 1 + cid.length] := by
    rw [spPos_ne _ _ _ (by decide), spPos_append, spPos_nosp _ _ hcid, List.nil_append, spPos_sp]
    rfl
  rw [hT]
  generalize hP : pre date clock level pid tid = P at hL ⊢
  apply decodeTail_star (rest := R) (hx := hx)
  · omega
  · omega
  · simp only [List.length_append, List.length_cons]; omega
  · have : ((L : Int) - 1 + 1).toNat = P.length := by omega
    rw [this]
    simp
  · have e2 : P ++ cStar :: (cid ++ SP :: R) = (P ++ [cStar]) ++ (cid ++ SP :: R) := by simp
    rw [e2, drop_append_len _ _ _ (by simp only [List.length_append, List.length_cons, List.length_nil]; omega),
      take_append_len _ _ _ (by omega)]
  · have e2 : P ++ cStar :: (cid ++ SP :: R) = (P ++ cStar :: (cid ++ [SP])) ++ R := by simp
    rw [e2, drop_append_len _ _ _ (by simp only [List.length_append, List.length_cons, List.length_nil]; omega)]

/-- **fidelity with a connection id**: `date clock [level] pid#tid: *cid msg`. `msg` and `cid` may be
    empty; `cid` contains no space. -/
theorem decode_fields_cid (letters : Bytes → Bool) (date clock level pid tid cid msg : Bytes) (nl : Bool)
    (hdate : SP ∉ date) (hclock : SP ∉ clock) (hlevel : SP ∉ level) (hlevel0 : level ≠ [])
    (hpid : ∀ c ∈ pid, c ≠ SP ∧ c ≠ cHash ∧ c ≠ cColon)
    (htid : ∀ c ∈ tid, c ≠ SP ∧ c ≠ cHash ∧ c ≠ cColon)
    (hcid : SP ∉ cid)
    (hnl : nl = false → msg.getLast? ≠ some NL) :
    decode false letters (date ++ [SP] ++ clock ++ [SP, 91] ++ level ++ [93, SP] ++ pid ++ [35] ++ tid
        ++ [58, SP, 42] ++ cid ++ [SP] ++ msg ++ (if nl then [NL] else []))
      = .ok (some ⟨date ++ [SP] ++ clock, level, pid, tid, cid, msg, []⟩) := by
  have e : date ++ [SP] ++ clock ++ [SP, 91] ++ level ++ [93, SP] ++ pid ++ [35] ++ tid
        ++ [58, SP, 42] ++ cid ++ [SP] ++ msg ++ (if nl then [NL] else [])
      = pre date clock level pid tid ++ (cStar :: (cid ++ SP :: msg)) ++ (if nl then [NL] else []) := by
    simp [pre, cLBr, cRBr, cHash, cColon, cStar]
  rw [e]
  exact decode_cid_msg false letters date clock level pid tid cid msg msg [] nl hdate hclock hlevel hlevel0 hpid htid
    hcid hnl rfl

/-- non-vacuity: `"d c [e] 1#2: *7 m x\n"` -/
example : decode false (fun _ => false) ([100] ++ [SP] ++ [99] ++ [SP, 91] ++ [101] ++ [93, SP] ++ [49] ++ [35] ++ [50]
      ++ [58, SP, 42] ++ [55] ++ [SP] ++ [109, 32, 120] ++ (if true then [NL] else []))
    = .ok (some ⟨[100] ++ [SP] ++ [99], [101], [49], [50], [55], [109, 32, 120], []⟩) :=
  decode_fields_cid _ _ _ _ _ _ _ _ true (by decide) (by decide) (by decide) (by decide) (by decide) (by decide)
    (by decide) (by decide)
example : decode false (fun _ => false) [100,32,99,32,91,101,93,32,49,35,50,58,32,42,55,32,109,32,120,10]
    = .ok (some ⟨[100,32,99], [101], [49], [50], [55], [109, 32, 120], []⟩) := rfl

/-! ### custom fields (`nginx_with_custom_fields`) -/

/-- `b` does not contain `", "` -/
def noSep : Bytes → Bool
  | a :: b :: rest => !(a == cComma && b == SP) && noSep (b :: rest)
  | _ => true

theorem noSep_cons_ne (a : UInt8) (l : Bytes) (h : a ≠ cComma) : noSep (a :: l) = noSep l := by
  cases l with
  | nil => rfl
  | cons b rest => simp [noSep, h]

theorem lastIndex2Aux_noSep : ∀ (b : Bytes) (i : Nat) (acc : Int), noSep b = true →
    lastIndex2Aux cComma SP b i acc = acc
  | [], _, _, _ => rfl
  | [_], _, _, _ => rfl
  | a :: b :: rest, i, acc, h => by
    rw [lastIndex2Aux]
    simp only [noSep, Bool.and_eq_true, Bool.not_eq_true', Bool.and_eq_false_iff, beq_eq_false_iff_ne] at h
    rw [lastIndex2Aux_noSep (b :: rest) (i + 1) _ h.2, if_neg]
    intro hab
    rcases h.1 with h1 | h1
    · exact h1 hab.1
    · exact h1 hab.2

theorem lastIndex2Aux_sep (F : Bytes) (hF : noSep F = true) : ∀ (D : Bytes) (i : Nat) (acc : Int),
    lastIndex2Aux cComma SP (D ++ cComma :: SP :: F) i acc = i + D.length
  | [], i, acc => by
    rw [List.nil_append, lastIndex2Aux, lastIndex2Aux_noSep _ _ _ (by rw [noSep_cons_ne _ _ (by decide)]; exact hF)]
    simp
  | a :: D, i, acc => by
    cases hD : D ++ cComma :: SP :: F with
    | nil => simp at hD
    | cons b rest =>
      rw [List.cons_append, hD, lastIndex2Aux, ← hD, lastIndex2Aux_sep F hF D (i + 1)]
      simp only [List.length_cons]
      omega

theorem lastIndex2_sep (D F : Bytes) (hF : noSep F = true) :
    lastIndex2 (D ++ cComma :: SP :: F) cComma SP = D.length := by
  unfold lastIndex2
  rw [lastIndex2Aux_sep F hF]
  simp

theorem lastIndex2_noSep (b : Bytes) (h : noSep b = true) : lastIndex2 b cComma SP = -1 :=
  lastIndex2Aux_noSep b 0 (-1) h

theorem findIdx?_append_cons (c : UInt8) (rest : Bytes) : ∀ (a : Bytes), c ∉ a →
    (a ++ c :: rest).findIdx? (· == c) = some a.length
  | [], _ => by simp [List.findIdx?_cons]
  | x :: xs, h => by
    simp only [List.mem_cons, not_or] at h
    have hx : (x == c) = false := by
      simp only [beq_eq_false_iff_ne, ne_eq]
      exact fun e => h.1 e.symm
    rw [List.cons_append, List.findIdx?_cons, hx, findIdx?_append_cons c rest xs h.2]
    simp

theorem indexByte_append_cons (a rest : Bytes) (c : UInt8) (h : c ∉ a) : indexByte (a ++ c :: rest) c = a.length := by
  unfold indexByte
  rw [findIdx?_append_cons c rest a h]

theorem asciiLetter_facts (c : UInt8) (h : asciiLetter c = true) : c ≠ cComma ∧ c ≠ cColon ∧ c < 128 := by
  refine ⟨?_, ?_, ?_⟩
  · intro e; rw [e] at h; revert h; decide
  · intro e; rw [e] at h; revert h; decide
  · simp only [asciiLetter, Bool.or_eq_true, Bool.and_eq_true, decide_eq_true_eq, UInt8.le_iff_toNat_le] at h
    rw [UInt8.lt_iff_toNat_lt]
    simp at h ⊢
    omega

theorem lettersOnly_ascii (letters : Bytes → Bool) (k : Bytes) (hk : k.all asciiLetter = true) :
    lettersOnly letters k = true := by
  unfold lettersOnly
  rw [if_pos, hk]
  rw [List.all_eq_true] at hk ⊢
  intro x hx
  simpa using (asciiLetter_facts x (hk x hx)).2.2

theorem noSep_key_colon : ∀ (k r : Bytes), k.all asciiLetter = true → noSep r = true →
    noSep (k ++ cColon :: r) = true
  | [], r, _, hr => by rw [List.nil_append, noSep_cons_ne _ _ (by decide)]; exact hr
  | x :: xs, r, hk, hr => by
    simp only [List.all_cons, Bool.and_eq_true] at hk
    rw [List.cons_append, noSep_cons_ne _ _ (asciiLetter_facts x hk.1).1]
    exact noSep_key_colon xs r hk.2 hr

/-- the value the decoder stores for a field `key:raw` -/
def valOf (raw : Bytes) : Bytes := if raw.length > 1 then trimQuotes (raw.drop 1) else []

theorem extractLoop_step (letters : Bytes → Bool) (f : Nat) (D k r : Bytes) (acc : Fields)
    (hk : k.all asciiLetter = true) (hr : noSep r = true) :
    extractLoop letters (f + 1) (D ++ cComma :: SP :: (k ++ cColon :: r)) acc
      = extractLoop letters f D (mapSet acc k (valOf r)) := by
  have hF := noSep_key_colon k r hk hr
  have hsep := lastIndex2_sep D _ hF
  have hcolon : cColon ∉ k := by
    intro h
    rw [List.all_eq_true] at hk
    exact (asciiLetter_facts _ (hk _ h)).2.1 rfl
  have hidx := indexByte_append_cons k r cColon hcolon
  have hlen : (D ++ cComma :: SP :: (k ++ cColon :: r)).length = D.length + k.length + r.length + 3 := by
    simp only [List.length_append, List.length_cons]; omega
  have hfield : (D ++ cComma :: SP :: (k ++ cColon :: r)).drop ((D.length : Int) + 2).toNat = k ++ cColon :: r := by
    have e : D ++ cComma :: SP :: (k ++ cColon :: r) = (D ++ [cComma, SP]) ++ (k ++ cColon :: r) := by simp
    rw [e, drop_append_len _ _ _ (by simp only [List.length_append, List.length_cons, List.length_nil]; omega)]
  have hFlen : (k ++ cColon :: r).length = k.length + r.length + 1 := by
    simp only [List.length_append, List.length_cons]; omega
  have hrest : (k ++ cColon :: r).drop ((k.length : Int) + 1).toNat = r := by
    have e : k ++ cColon :: r = (k ++ [cColon]) ++ r := by simp
    rw [e, drop_append_len _ _ _ (by simp only [List.length_append, List.length_cons, List.length_nil]; omega)]
  have hv : (k ++ cColon :: r).drop ((k.length : Int) + 2).toNat = r.drop 1 := by
    have e : k ++ cColon :: r = (k ++ [cColon]) ++ r := by simp
    have e2 : ((k.length : Int) + 2).toNat = (k ++ [cColon]).length + 1 := by
      simp only [List.length_append, List.length_cons, List.length_nil]; omega
    rw [e, e2, ← List.drop_drop, drop_append_len _ _ _ rfl]
  rw [extractLoop, if_pos (by omega)]
  simp only []
  rw [hsep, if_neg (by omega), sliceFrom?_ok _ _ (by omega), ok_bind, hfield, hidx, if_neg (by omega),
    sliceTo?_ok _ _ (by omega), ok_bind, take_append_len _ _ _ (by omega), lettersOnly_ascii letters k hk]
  simp only [Bool.not_true, Bool.false_eq_true, if_false]
  rw [sliceFrom?_ok _ _ (by omega), ok_bind, hrest, sliceTo?_ok _ _ (by omega), take_append_len _ _ _ (by omega)]
  unfold valOf
  split
  · rw [sliceFrom?_ok _ _ (by omega), hv]
    rfl
  · rfl

/-- `, key:raw` -/
def fldRaw (kr : Bytes × Bytes) : Bytes := cComma :: SP :: (kr.1 ++ cColon :: kr.2)

theorem extractLoop_fields (letters : Bytes → Bool) (M : Bytes) (hM : noSep M = true) :
    ∀ (rk : List (Bytes × Bytes)) (f : Nat) (acc : Fields),
      (∀ kr ∈ rk, kr.1.all asciiLetter = true ∧ noSep kr.2 = true) →
      (M ++ rk.reverse.flatMap fldRaw).length < f →
      extractLoop letters f (M ++ rk.reverse.flatMap fldRaw) acc
        = .ok (M, rk.foldl (fun a kr => mapSet a kr.1 (valOf kr.2)) acc)
  | [], f, acc, _, hf => by
    cases f with
    | zero => omega
    | succ f =>
      simp only [List.reverse_nil, List.flatMap_nil, List.append_nil, List.foldl_nil]
      rw [extractLoop]
      split
      · simp only []
        rw [if_pos (lastIndex2_noSep M hM)]
        rfl
      · rfl
  | kr :: rk, f, acc, h, hf => by
    cases f with
    | zero => omega
    | succ f =>
      have hkr := h kr (by simp)
      have e : M ++ (kr :: rk).reverse.flatMap fldRaw
          = (M ++ rk.reverse.flatMap fldRaw) ++ cComma :: SP :: (kr.1 ++ cColon :: kr.2) := by
        simp [List.flatMap_append, fldRaw]
      rw [e] at hf ⊢
      rw [extractLoop_step letters f _ _ _ _ hkr.1 hkr.2,
        extractLoop_fields letters M hM rk f _ (fun x hx => h x (by simp [hx]))
          (by simp only [List.length_append, List.length_cons] at hf ⊢; omega)]
      rfl

theorem extractCustomFields_raw (letters : Bytes → Bool) (M : Bytes) (krs : List (Bytes × Bytes))
    (hM : noSep M = true) (h : ∀ kr ∈ krs, kr.1.all asciiLetter = true ∧ noSep kr.2 = true) :
    extractCustomFields true letters (M ++ krs.flatMap fldRaw)
      = .ok (M, krs.foldr (fun kr a => mapSet a kr.1 (valOf kr.2)) []) := by
  have := extractLoop_fields letters M hM krs.reverse ((M ++ krs.flatMap fldRaw).length + 1) []
    (fun kr hkr => h kr (by simpa using hkr)) (by rw [List.reverse_reverse]; omega)
  rw [List.reverse_reverse, List.foldl_reverse] at this
  exact this

/-- `, key: "value"` -/
def fld (kv : Bytes × Bytes) : Bytes := [cComma, SP] ++ kv.1 ++ [cColon, SP, cQuote] ++ kv.2 ++ [cQuote]

/-- the map built by `fields[key] = value`, the line's fields taken from last to first -/
def customOf (kvs : List (Bytes × Bytes)) : Fields := kvs.foldr (fun kv a => mapSet a kv.1 kv.2) []

theorem dropWhile_head (q : UInt8) (l : Bytes) (h : l.head? ≠ some q) : l.dropWhile (· == q) = l := by
  cases l with
  | nil => rfl
  | cons x xs =>
    simp only [List.head?_cons, ne_eq, Option.some.injEq] at h
    rw [List.dropWhile_cons, if_neg (by simpa using h)]

theorem trimQuotes_quoted (v : Bytes) (h1 : v.head? ≠ some cQuote) (h2 : v.getLast? ≠ some cQuote) :
    trimQuotes (cQuote :: (v ++ [cQuote])) = v := by
  unfold trimQuotes dropWhileEnd
  rw [List.dropWhile_cons, if_pos (by simp)]
  cases v with
  | nil => simp
  | cons x xs =>
    have e : (x :: xs ++ [cQuote]).dropWhile (· == cQuote) = x :: xs ++ [cQuote] :=
      dropWhile_head _ _ (by simpa using h1)
    rw [e, List.reverse_append]
    simp only [List.reverse_cons, List.reverse_nil, List.nil_append, List.singleton_append]
    rw [List.dropWhile_cons, if_pos (by simp), ← List.reverse_cons,
      dropWhile_head _ _ (by rw [List.head?_reverse]; exact h2), List.reverse_reverse]

theorem valOf_quoted (v : Bytes) (h1 : v.head? ≠ some cQuote) (h2 : v.getLast? ≠ some cQuote) :
    valOf (SP :: cQuote :: (v ++ [cQuote])) = v := by
  unfold valOf
  rw [if_pos (by simp)]
  exact trimQuotes_quoted v h1 h2

theorem noSep_append_single (c : UInt8) (hc : c ≠ SP) : ∀ (v : Bytes), noSep v = true → noSep (v ++ [c]) = true
  | [], _ => rfl
  | [a], _ => by simp [noSep, hc]
  | a :: b :: rest, h => by
    simp only [noSep, Bool.and_eq_true] at h
    have ih := noSep_append_single c hc (b :: rest) h.2
    simp only [List.cons_append, noSep, Bool.and_eq_true] at ih ⊢
    exact ⟨h.1, ih⟩

theorem noSep_quoted (v : Bytes) (h : noSep v = true) : noSep (SP :: cQuote :: (v ++ [cQuote])) = true := by
  rw [noSep_cons_ne _ _ (by decide), noSep_cons_ne _ _ (by decide)]
  exact noSep_append_single _ (by decide) v h

def toRaw (kv : Bytes × Bytes) : Bytes × Bytes := (kv.1, SP :: cQuote :: (kv.2 ++ [cQuote]))

theorem flatMap_fld : ∀ (kvs : List (Bytes × Bytes)), kvs.flatMap fld = (kvs.map toRaw).flatMap fldRaw
  | [] => rfl
  | kv :: kvs => by
    simp only [List.flatMap_cons, List.map_cons, flatMap_fld kvs]
    simp [fld, fldRaw, toRaw]

theorem foldr_toRaw : ∀ (kvs : List (Bytes × Bytes)),
    (∀ kv ∈ kvs, kv.2.head? ≠ some cQuote ∧ kv.2.getLast? ≠ some cQuote) →
    (kvs.map toRaw).foldr (fun kr a => mapSet a kr.1 (valOf kr.2)) [] = customOf kvs
  | [], _ => rfl
  | kv :: kvs, h => by
    have hkv := h kv (by simp)
    have ih := foldr_toRaw kvs (fun x hx => h x (by simp [hx]))
    simp only [List.map_cons, List.foldr_cons, customOf] at ih ⊢
    rw [ih]
    simp only [toRaw]
    rw [valOf_quoted _ hkv.1 hkv.2]

/-- `extractCustomFields` on `msg, k₁: "v₁", …, kₙ: "vₙ"` -/
theorem extractCustomFields_quoted (letters : Bytes → Bool) (M : Bytes) (kvs : List (Bytes × Bytes))
    (hM : noSep M = true)
    (h : ∀ kv ∈ kvs, kv.1.all asciiLetter = true ∧ noSep kv.2 = true
          ∧ kv.2.head? ≠ some cQuote ∧ kv.2.getLast? ≠ some cQuote) :
    extractCustomFields true letters (M ++ kvs.flatMap fld) = .ok (M, customOf kvs) := by
  rw [flatMap_fld, extractCustomFields_raw letters M _ hM, foldr_toRaw kvs (fun kv hkv => (h kv hkv).2.2)]
  intro kr hkr
  obtain ⟨kv, hkv, rfl⟩ := List.mem_map.mp hkr
  exact ⟨(h kv hkv).1, noSep_quoted _ (h kv hkv).2.1⟩

theorem getLast?_msg_flds (msg : Bytes) (kvs : List (Bytes × Bytes))
    (h : kvs = [] → msg.getLast? ≠ some NL) : (msg ++ kvs.flatMap fld).getLast? ≠ some NL := by
  rcases List.eq_nil_or_concat kvs with e | ⟨init, last, e⟩
  · rw [e, List.flatMap_nil, List.append_nil]
    exact h e
  · have e2 : msg ++ kvs.flatMap fld
        = (msg ++ init.flatMap fld ++ [cComma, SP] ++ last.1 ++ [cColon, SP, cQuote] ++ last.2) ++ [cQuote] := by
      rw [e, List.concat_eq_append, List.flatMap_append]
      simp [fld]
    rw [e2, List.getLast?_concat]
    decide

theorem head?_msg_flds (msg : Bytes) (kvs : List (Bytes × Bytes))
    (h : (SP ∈ msg ∨ kvs ≠ []) → msg.head? ≠ some cStar) :
    SP ∈ msg ++ kvs.flatMap fld → (msg ++ kvs.flatMap fld).head? ≠ some cStar := by
  intro hsp
  cases msg with
  | nil =>
    cases kvs with
    | nil => simp at hsp
    | cons kv kvs =>
      simp only [List.nil_append, List.flatMap_cons, fld, List.cons_append, List.head?_cons]
      decide
  | cons m ms =>
    have : SP ∈ m :: ms ∨ kvs ≠ [] := by
      cases kvs with
      | nil => left; simpa using hsp
      | cons kv kvs => right; simp
    simpa using h this

/-- **fidelity with custom fields** (`nginx_with_custom_fields: true`): a message without `", "` followed
    by fields `, key: "value"` — keys of ASCII letters, values without `", "` that neither start nor end
    with `"` — yields the message and the map of the fields (for a repeated key the first one in the
    line wins, as in Go where the fields are assigned from last to first). -/
theorem decode_fields_custom (letters : Bytes → Bool) (date clock level pid tid msg : Bytes)
    (kvs : List (Bytes × Bytes)) (nl : Bool)
    (hdate : SP ∉ date) (hclock : SP ∉ clock) (hlevel : SP ∉ level) (hlevel0 : level ≠ [])
    (hpid : ∀ c ∈ pid, c ≠ SP ∧ c ≠ cHash ∧ c ≠ cColon)
    (htid : ∀ c ∈ tid, c ≠ SP ∧ c ≠ cHash ∧ c ≠ cColon)
    (hmsg : noSep msg = true)
    (hkv : ∀ kv ∈ kvs, kv.1.all asciiLetter = true ∧ noSep kv.2 = true
            ∧ kv.2.head? ≠ some cQuote ∧ kv.2.getLast? ≠ some cQuote)
    (hstar : (SP ∈ msg ∨ kvs ≠ []) → msg.head? ≠ some cStar)
    (hnl : nl = false → kvs = [] → msg.getLast? ≠ some NL) :
    decode true letters (date ++ [SP] ++ clock ++ [SP, 91] ++ level ++ [93, SP] ++ pid ++ [35] ++ tid
        ++ [58, SP] ++ msg ++ kvs.flatMap fld ++ (if nl then [NL] else []))
      = .ok (some ⟨date ++ [SP] ++ clock, level, pid, tid, [], msg, customOf kvs⟩) := by
  have e : date ++ [SP] ++ clock ++ [SP, 91] ++ level ++ [93, SP] ++ pid ++ [35] ++ tid
        ++ [58, SP] ++ msg ++ kvs.flatMap fld ++ (if nl then [NL] else [])
      = pre date clock level pid tid ++ (msg ++ kvs.flatMap fld) ++ (if nl then [NL] else []) := by
    simp [pre, cLBr, cRBr, cHash, cColon]
  rw [e]
  exact decode_msg true letters date clock level pid tid _ msg (customOf kvs) nl hdate hclock hlevel hlevel0
    hpid htid (head?_msg_flds msg kvs hstar) (fun h => getLast?_msg_flds msg kvs (hnl h))
    (extractCustomFields_quoted letters msg kvs hmsg hkv)

/-- the same with a connection id: `… pid#tid: *cid msg, key: "value", …` -/
theorem decode_fields_cid_custom (letters : Bytes → Bool) (date clock level pid tid cid msg : Bytes)
    (kvs : List (Bytes × Bytes)) (nl : Bool)
    (hdate : SP ∉ date) (hclock : SP ∉ clock) (hlevel : SP ∉ level) (hlevel0 : level ≠ [])
    (hpid : ∀ c ∈ pid, c ≠ SP ∧ c ≠ cHash ∧ c ≠ cColon)
    (htid : ∀ c ∈ tid, c ≠ SP ∧ c ≠ cHash ∧ c ≠ cColon)
    (hcid : SP ∉ cid)
    (hmsg : noSep msg = true)
    (hkv : ∀ kv ∈ kvs, kv.1.all asciiLetter = true ∧ noSep kv.2 = true
            ∧ kv.2.head? ≠ some cQuote ∧ kv.2.getLast? ≠ some cQuote)
    (hnl : nl = false → kvs = [] → msg.getLast? ≠ some NL) :
    decode true letters (date ++ [SP] ++ clock ++ [SP, 91] ++ level ++ [93, SP] ++ pid ++ [35] ++ tid
        ++ [58, SP, 42] ++ cid ++ [SP] ++ msg ++ kvs.flatMap fld ++ (if nl then [NL] else []))
      = .ok (some ⟨date ++ [SP] ++ clock, level, pid, tid, cid, msg, customOf kvs⟩) := by
  have e : date ++ [SP] ++ clock ++ [SP, 91] ++ level ++ [93, SP] ++ pid ++ [35] ++ tid
        ++ [58, SP, 42] ++ cid ++ [SP] ++ msg ++ kvs.flatMap fld ++ (if nl then [NL] else [])
      = pre date clock level pid tid ++ (cStar :: (cid ++ SP :: (msg ++ kvs.flatMap fld)))
          ++ (if nl then [NL] else []) := by
    simp [pre, cLBr, cRBr, cHash, cColon, cStar]
  rw [e]
  exact decode_cid_msg true letters date clock level pid tid cid _ msg (customOf kvs) nl hdate hclock hlevel hlevel0
    hpid htid hcid (fun h => getLast?_msg_flds msg kvs (hnl h))
    (extractCustomFields_quoted letters msg kvs hmsg hkv)

/-- `noSep` says what it should: `b` has no occurrence of `", "` -/
theorem noSep_false_of_sep (c : Bytes) : ∀ (a : Bytes), noSep (a ++ [cComma, SP] ++ c) = false
  | [] => by simp [noSep]
  | x :: a => by
    have ih := noSep_false_of_sep c a
    cases h : a ++ [cComma, SP] ++ c with
    | nil => simp at h
    | cons y rest =>
      rw [h] at ih
      rw [List.cons_append, List.cons_append, h]
      simp only [noSep, ih, Bool.and_false]

theorem sep_of_noSep_false : ∀ (b : Bytes), noSep b = false → ∃ a c, b = a ++ [cComma, SP] ++ c
  | [], h => by simp [noSep] at h
  | [_], h => by simp [noSep] at h
  | x :: y :: rest, h => by
    simp only [noSep, Bool.and_eq_false_iff, Bool.not_eq_false', Bool.and_eq_true, beq_iff_eq] at h
    rcases h with ⟨hx, hy⟩ | h
    · exact ⟨[], rest, by rw [hx, hy]; rfl⟩
    · obtain ⟨a, c, e⟩ := sep_of_noSep_false (y :: rest) h
      exact ⟨x :: a, c, by rw [e]; rfl⟩

theorem noSep_iff (b : Bytes) : noSep b = true ↔ ∀ a c, b ≠ a ++ [cComma, SP] ++ c := by
  constructor
  · intro h a c e
    rw [e, noSep_false_of_sep] at h
    cases h
  · intro h
    cases hb : noSep b with
    | true => rfl
    | false =>
      obtain ⟨a, c, e⟩ := sep_of_noSep_false b hb
      exact absurd e (h a c)

/-- non-vacuity: `d c [e] 1#2: m x, a: "1", b: ""` + newline, as an instance of the theorem … -/
example : decode true (fun _ => false) ([100] ++ [SP] ++ [99] ++ [SP, 91] ++ [101] ++ [93, SP] ++ [49] ++ [35] ++ [50]
      ++ [58, SP] ++ [109, 32, 120] ++ [([97], [49]), ([98], [])].flatMap fld ++ (if true then [NL] else []))
    = .ok (some ⟨[100] ++ [SP] ++ [99], [101], [49], [50], [], [109, 32, 120], customOf [([97], [49]), ([98], [])]⟩) :=
  decode_fields_custom _ _ _ _ _ _ _ _ true (by decide) (by decide) (by decide) (by decide) (by decide) (by decide)
    (by decide) (by decide) (by decide) (by decide)
/-- … and by evaluation (the map lists the fields in the order Go assigns them: last field first) -/
example : decode true (fun _ => false)
      [100,32,99,32,91,101,93,32,49,35,50,58,32,109,32,120,44,32,97,58,32,34,49,34,44,32,98,58,32,34,34,10]
    = .ok (some ⟨[100,32,99], [101], [49], [50], [], [109, 32, 120], [([98], []), ([97], [49])]⟩) := rfl
/-- with a connection id -/
example : decode true (fun _ => false) ([100] ++ [SP] ++ [99] ++ [SP, 91] ++ [101] ++ [93, SP] ++ [49] ++ [35] ++ [50]
      ++ [58, SP, 42] ++ [55] ++ [SP] ++ [109, 32, 120] ++ [([97], [49])].flatMap fld ++ (if false then [NL] else []))
    = .ok (some ⟨[100] ++ [SP] ++ [99], [101], [49], [50], [55], [109, 32, 120], customOf [([97], [49])]⟩) :=
  decode_fields_cid_custom _ _ _ _ _ _ _ _ _ false (by decide) (by decide) (by decide) (by decide) (by decide)
    (by decide) (by decide) (by decide) (by decide) (by decide)
/-- the line of the Go doc comment:
    `2022/08/17 10:49:27 [error] 2725122#2725122: *792412315 lua udp socket read timed out, context: ngx.timer`
    (an unquoted value, covered by `extractCustomFields_raw`) -/
example : decode true (fun _ => false)
      [50, 48, 50, 50, 47, 48, 56, 47, 49, 55, 32, 49, 48, 58, 52, 57, 58, 50, 55, 32, 91, 101, 114, 114, 111, 114, 93, 32,
       50, 55, 50, 53, 49, 50, 50, 35, 50, 55, 50, 53, 49, 50, 50, 58, 32, 42, 55, 57, 50, 52, 49, 50, 51, 49, 53, 32, 108,
       117, 97, 32, 117, 100, 112, 32, 115, 111, 99, 107, 101, 116, 32, 114, 101, 97, 100, 32, 116, 105, 109, 101, 100, 32,
       111, 117, 116, 44, 32, 99, 111, 110, 116, 101, 120, 116, 58, 32, 110, 103, 120, 46, 116, 105, 109, 101, 114]
    = .ok (some ⟨[50, 48, 50, 50, 47, 48, 56, 47, 49, 55, 32, 49, 48, 58, 52, 57, 58, 50, 55],
        [101, 114, 114, 111, 114], [50, 55, 50, 53, 49, 50, 50], [50, 55, 50, 53, 49, 50, 50],
        [55, 57, 50, 52, 49, 50, 51, 49, 53],
        [108, 117, 97, 32, 117, 100, 112, 32, 115, 111, 99, 107, 101, 116, 32, 114, 101, 97, 100, 32, 116, 105,
         109, 101, 100, 32, 111, 117, 116],
        [([99, 111, 110, 116, 101, 120, 116], [110, 103, 120, 46, 116, 105, 109, 101, 114])]⟩) := rfl

end FileD.Dec.Nginx
