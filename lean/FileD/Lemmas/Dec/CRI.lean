import FileD.Lemmas.Dec.Index
import FileD.Model.Dec.CRI
namespace FileD.Dec.CRI
open FileD GoSlice FileD.Dec

theorem streamLoop_total (f : Nat) : ∀ (stream data : Bytes), data.length < f → Total (streamLoop f stream data) := by
  induction f with
  | zero => intro _ _ h; omega
  | succ f ih =>
    intro stream data hf
    unfold streamLoop
    have hb := indexByte_bounds data SP
    split
    · simp
    · simp only []
      split
      · simp
      · rw [sliceTo?_ok _ _ (by omega), ok_bind, sliceFrom?_ok _ _ (by omega), ok_bind]
        apply ih
        simp
        omega

theorem decode_total (data : Bytes) : Total (decode data) := by
  unfold decode
  have hb := indexByte_bounds data SP
  simp only []
  split
  · simp
  · rw [sliceTo?_ok _ _ (by omega), ok_bind, sliceFrom?_ok _ _ (by omega), ok_bind]
    obtain ⟨r, hr⟩ := streamLoop_total ((data.drop (indexByte data SP + 1).toNat).length + 2) []
      (data.drop (indexByte data SP + 1).toNat) (by omega)
    rw [hr, ok_bind]
    cases r with
    | none => simp
    | some sd =>
      obtain ⟨stream, d2⟩ := sd
      simp only []
      have hb2 := indexByte_bounds d2 SP
      split
      · simp
      · rw [sliceTo?_ok _ _ (by omega), ok_bind, sliceFrom?_ok _ _ (by omega), ok_bind]
        split
        · simp
        · rename_i hlen
          simp only [List.length_take] at hlen
          obtain ⟨x, hx, _⟩ := idx?_ok (d2.take (indexByte d2 SP).toNat) 0 (by simp; omega)
          rw [hx, ok_bind]
          simp

/-- a well-formed CRI line yields exactly its fields; a partial line loses only a trailing newline -/
theorem decode_fields (time stream : Bytes) (t0 : UInt8) (tag log : Bytes)
    (ht : SP ∉ time) (hs : SP ∉ stream) (hs6 : stream.length = 6) (h0 : t0 ≠ SP) (htag : SP ∉ tag) :
    decode (time ++ SP :: (stream ++ SP :: (t0 :: tag ++ SP :: log)))
      = .ok (some ⟨if t0 == 80 then trimSuffixNL log else log, time, stream, t0 == 80⟩) := by
  unfold decode
  simp only [indexByte_append_hit time SP _ ht]
  have c1 : ¬ ((time.length : Int) < 0) := by omega
  simp only [c1, ↓reduceIte]
  rw [sliceTo?_ok _ _ (by simp; omega), ok_bind, sliceFrom?_ok _ _ (by simp; omega), ok_bind]
  have x1 : ((time.length : Int) + 1).toNat = time.length + 1 := by omega
  rw [x1, drop_append_length_succ]
  simp only [Int.toNat_natCast, List.take_left']
  -- the stream loop: one iteration reads `stream`, the second sees length 6
  have hl : streamLoop ((stream ++ SP :: (t0 :: tag ++ SP :: log)).length + 2) [] (stream ++ SP :: (t0 :: tag ++ SP :: log))
      = .ok (some (stream, t0 :: tag ++ SP :: log)) := by
    have : (stream ++ SP :: (t0 :: tag ++ SP :: log)).length + 2 = ((stream ++ SP :: (t0 :: tag ++ SP :: log)).length) + 1 + 1 := rfl
    rw [this]
    unfold streamLoop
    simp only [List.length_nil, indexByte_append_hit stream SP _ hs]
    have c2 : ¬ ((stream.length : Int) < 0) := by omega
    have c0 : ¬ ((0 : Nat) = 6) := by omega
    simp only [c0, c2, ↓reduceIte]
    rw [sliceTo?_ok _ _ (by simp; omega), ok_bind, sliceFrom?_ok _ _ (by simp; omega), ok_bind]
    have x2 : ((stream.length : Int) + 1).toNat = stream.length + 1 := by omega
    rw [x2, drop_append_length_succ]
    simp only [Int.toNat_natCast, List.take_left']
    unfold streamLoop
    simp [hs6]
  rw [hl, ok_bind]
  simp only []
  have ht' : SP ∉ t0 :: tag := by simp [htag, Ne.symm h0]
  have e3 : indexByte (t0 :: tag ++ SP :: log) SP = ((t0 :: tag).length : Nat) := indexByte_append_hit (t0 :: tag) SP log ht'
  simp only [e3]
  have c3 : ¬ ((((t0 :: tag).length : Nat) : Int) < 0) := by omega
  simp only [c3, ↓reduceIte]
  rw [sliceTo?_ok _ _ (by simp; omega), ok_bind, sliceFrom?_ok _ _ (by simp; omega), ok_bind]
  have x3 : ((((t0 :: tag).length : Nat) : Int) + 1).toNat = (t0 :: tag).length + 1 := by omega
  rw [x3, drop_append_length_succ]
  simp only [Int.toNat_natCast, List.take_left']
  have c4 : ¬ ((t0 :: tag).length = 0) := by simp
  simp only [c4, ↓reduceIte]
  rfl

end FileD.Dec.CRI
