import FileD.Lemmas.Dec.Basic
import FileD.Model.Dec.CRI
namespace FileD.Dec.CRI
open FileD GoSlice FileD.Dec

theorem streamLoop_total (f : Nat) : ∀ (stream data : Bytes), data.length < f → Total (streamLoop f stream data) := by
  induction f with
  | zero => intro _ _ h; omega
  | succ f ih =>
    intro stream data hf
    unfold streamLoop
    have hb := indexByte_bounds data SP
    split
    · simp
    · simp only []
      split
      · simp
      · rw [sliceTo?_ok _ _ (by omega), ok_bind, sliceFrom?_ok _ _ (by omega), ok_bind]
        apply ih
        simp
        omega

theorem decode_total (data : Bytes) : Total (decode data) := by
  unfold decode
  have hb := indexByte_bounds data SP
  simp only []
  split
  · simp
  · rw [sliceTo?_ok _ _ (by omega), ok_bind, sliceFrom?_ok _ _ (by omega), ok_bind]
    obtain ⟨r, hr⟩ := streamLoop_total ((data.drop (indexByte data SP + 1).toNat).length + 2) []
      (data.drop (indexByte data SP + 1).toNat) (by omega)
    rw [hr, ok_bind]
    cases r with
    | none => simp
    | some sd =>
      obtain ⟨stream, d2⟩ := sd
      simp only []
      have hb2 := indexByte_bounds d2 SP
      split
      · simp
      · rw [sliceTo?_ok _ _ (by omega), ok_bind, sliceFrom?_ok _ _ (by omega), ok_bind]
        split
        · simp
        · rename_i hlen
          simp only [List.length_take] at hlen
          obtain ⟨x, hx, _⟩ := idx?_ok (d2.take (indexByte d2 SP).toNat) 0 (by simp; omega)
          rw [hx, ok_bind]
          simp

end FileD.Dec.CRI
