/-
  `indexByte` on concrete shapes (used by the `<dec>_fields` round-trip theorems).
-/
import FileD.Lemmas.Dec.Basic
namespace FileD.Dec
open FileD GoSlice

theorem indexByte_nil (c : UInt8) : indexByte [] c = -1 := rfl

theorem indexByte_cons (x : UInt8) (xs : Bytes) (c : UInt8) :
    indexByte (x :: xs) c = if x = c then 0 else (if indexByte xs c = -1 then -1 else indexByte xs c + 1) := by
  unfold indexByte
  simp only [List.findIdx?_cons, beq_iff_eq]
  by_cases h : x = c
  · simp [h]
  · simp only [h, ↓reduceIte]
    cases hf : List.findIdx? (fun x => x == c) xs with
    | none => simp
    | some i =>
      simp only [Option.map_some]
      have : ¬ ((i : Int) = -1) := by omega
      simp only [this, ↓reduceIte]
      omega

/-- first occurrence: `c ∉ a → IndexByte(a ++ c :: rest, c) = len(a)` -/
theorem indexByte_append_hit (a : Bytes) (c : UInt8) (rest : Bytes) (h : c ∉ a) :
    indexByte (a ++ c :: rest) c = a.length := by
  induction a with
  | nil => simp [indexByte_cons]
  | cons x xs ih =>
    have hx : x ≠ c := by intro e; apply h; simp [e]
    have hxs : c ∉ xs := by intro e; apply h; simp [e]
    rw [List.cons_append, indexByte_cons, ih hxs]
    simp only [hx, ↓reduceIte, List.length_cons]
    have : ¬ ((xs.length : Int) = -1) := by omega
    simp only [this, ↓reduceIte]
    omega

theorem indexByte_not_mem (a : Bytes) (c : UInt8) (h : c ∉ a) : indexByte a c = -1 := by
  induction a with
  | nil => rfl
  | cons x xs ih =>
    have hx : x ≠ c := by intro e; apply h; simp [e]
    have hxs : c ∉ xs := by intro e; apply h; simp [e]
    rw [indexByte_cons, ih hxs]
    simp [hx]

theorem take_append_length {α} (a b : List α) : (a ++ b).take a.length = a := by simp

theorem drop_append_length_succ {α} (a : List α) (c : α) (b : List α) : (a ++ c :: b).drop (a.length + 1) = b := by
  induction a with
  | nil => simp
  | cons x xs ih => simp

theorem drop_append_succ_add {α} (a : List α) (c : α) (b : List α) (k : Nat) :
    (a ++ c :: b).drop (a.length + 1 + k) = b.drop k := by
  induction a with
  | nil =>
    have : ([] : List α).length + 1 + k = k + 1 := by simp; omega
    rw [this]; rfl
  | cons x xs ih =>
    have : (x :: xs).length + 1 + k = (xs.length + 1 + k) + 1 := by simp; omega
    rw [this]
    exact ih

theorem trimSuffixNL_append_nl (l : Bytes) : trimSuffixNL (l ++ [NL]) = l := by
  unfold trimSuffixNL; simp

theorem trimSuffixNL_of_last_ne (l : Bytes) (h : l.getLast? ≠ some NL) : trimSuffixNL l = l := by
  unfold trimSuffixNL; simp [h]

theorem atoiLoop_digits (b : Bytes) (x : Int) (p : Int) (h : atoiLoop b x = some p) : ∀ c ∈ b, 48 ≤ c ∧ c ≤ 57 := by
  induction b generalizing x with
  | nil => intro c hc; cases hc
  | cons d ds ih =>
    unfold atoiLoop at h
    split at h
    · cases h
    · rename_i hd
      intro c hc
      simp only [Bool.or_eq_true, decide_eq_true_eq, not_or, UInt8.not_lt] at hd
      rcases List.mem_cons.mp hc with rfl | hc
      · exact hd
      · exact ih _ h c hc

theorem atoi_digits (b : Bytes) (p : Int) (h : atoi b = some p) : ∀ c ∈ b, 48 ≤ c ∧ c ≤ 57 := by
  unfold atoi at h
  split at h
  · cases h
  · exact atoiLoop_digits b 0 p h

theorem indexAny_cons (x : UInt8) (xs : Bytes) (s : List UInt8) :
    indexAny (x :: xs) s = if x ∈ s then 0 else (if indexAny xs s = -1 then -1 else indexAny xs s + 1) := by
  unfold indexAny
  simp only [List.findIdx?_cons, List.contains_eq_mem, decide_eq_true_eq]
  by_cases h : x ∈ s
  · simp [h]
  · simp only [h, ↓reduceIte]
    cases hf : List.findIdx? (fun c => decide (c ∈ s)) xs with
    | none => simp
    | some i =>
      simp only [Option.map_some]
      have : ¬ ((i : Int) = -1) := by omega
      simp only [this, ↓reduceIte]
      omega

theorem indexAny_append_hit (a : Bytes) (c : UInt8) (rest : Bytes) (s : List UInt8)
    (ha : ∀ x ∈ a, x ∉ s) (hc : c ∈ s) :
    indexAny (a ++ c :: rest) s = a.length := by
  induction a with
  | nil => simp [indexAny_cons, hc]
  | cons x xs ih =>
    have hx : x ∉ s := ha x (by simp)
    have hxs : ∀ y ∈ xs, y ∉ s := fun y hy => ha y (by simp [hy])
    rw [List.cons_append, indexAny_cons, ih hxs]
    simp only [hx, ↓reduceIte, List.length_cons]
    have : ¬ ((xs.length : Int) = -1) := by omega
    simp only [this, ↓reduceIte]
    omega

theorem idx?_append_left {α} (a b : List α) (i : Int) (h : i < a.length) : idx? (a ++ b) i = idx? a i := by
  unfold idx?
  split
  · rfl
  · have : i.toNat < a.length := by omega
    rw [List.getElem?_append_left this]

theorem slice?_append_left {α} (a b : List α) (lo hi : Int) (h : hi ≤ a.length) (h0 : 0 ≤ lo ∧ lo ≤ hi) :
    slice? (a ++ b) lo hi = slice? a lo hi := by
  rw [slice?_ok _ _ _ ⟨h0.1, h0.2, by simp; omega⟩, slice?_ok _ _ _ ⟨h0.1, h0.2, h⟩]
  congr 1
  rw [List.drop_append_of_le_length (by omega), List.take_append_of_le_length (by simp; omega)]

end FileD.Dec
