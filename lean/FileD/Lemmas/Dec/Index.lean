/-
  `indexByte` on concrete shapes (used by the `<dec>_fields` round-trip theorems).
-/
import FileD.Lemmas.Dec.Basic
namespace FileD.Dec
open FileD GoSlice

theorem indexByte_nil (c : UInt8) : indexByte [] c = -1 := rfl

theorem indexByte_cons (x : UInt8) (xs : Bytes) (c : UInt8) :
    indexByte (x :: xs) c = if x = c then 0 else (if indexByte xs c = -1 then -1 else indexByte xs c + 1) := by
  unfold indexByte
  simp only [List.findIdx?_cons, beq_iff_eq]
  by_cases h : x = c
  · simp [h]
  · simp only [h, ↓reduceIte]
    cases hf : List.findIdx? (fun x => x == c) xs with
    | none => simp
    | some i =>
      simp only [Option.map_some]
      have : ¬ ((i : Int) = -1) := by omega
      simp only [this, ↓reduceIte]
      omega

/-- first occurrence: `c ∉ a → IndexByte(a ++ c :: rest, c) = len(a)` -/
theorem indexByte_append_hit (a : Bytes) (c : UInt8) (rest : Bytes) (h : c ∉ a) :
    indexByte (a ++ c :: rest) c = a.length := by
  induction a with
  | nil => simp [indexByte_cons]
  | cons x xs ih =>
    have hx : x ≠ c := by intro e; apply h; simp [e]
    have hxs : c ∉ xs := by intro e; apply h; simp [e]
    rw [List.cons_append, indexByte_cons, ih hxs]
    simp only [hx, ↓reduceIte, List.length_cons]
    have : ¬ ((xs.length : Int) = -1) := by omega
    simp only [this, ↓reduceIte]
    omega

theorem indexByte_not_mem (a : Bytes) (c : UInt8) (h : c ∉ a) : indexByte a c = -1 := by
  induction a with
  | nil => rfl
  | cons x xs ih =>
    have hx : x ≠ c := by intro e; apply h; simp [e]
    have hxs : c ∉ xs := by intro e; apply h; simp [e]
    rw [indexByte_cons, ih hxs]
    simp [hx]

theorem take_append_length {α} (a b : List α) : (a ++ b).take a.length = a := by simp

theorem drop_append_length_succ {α} (a : List α) (c : α) (b : List α) : (a ++ c :: b).drop (a.length + 1) = b := by
  induction a with
  | nil => simp
  | cons x xs ih => simp

theorem drop_append_succ_add {α} (a : List α) (c : α) (b : List α) (k : Nat) :
    (a ++ c :: b).drop (a.length + 1 + k) = b.drop k := by
  induction a with
  | nil =>
    have : ([] : List α).length + 1 + k = k + 1 := by simp; omega
    rw [this]; rfl
  | cons x xs ih =>
    have : (x :: xs).length + 1 + k = (xs.length + 1 + k) + 1 := by simp; omega
    rw [this]
    exact ih

end FileD.Dec
