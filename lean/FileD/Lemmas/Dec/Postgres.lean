import FileD.Lemmas.Dec.Index
import FileD.Model.Dec.Postgres
namespace FileD.Dec.Postgres
open FileD GoSlice FileD.Dec

/-- an in-place append of the bytes that are already there leaves the buffer as it was -/
theorem appendAt_self (buf : Bytes) (pos n : Nat) (h : pos + n ≤ buf.length) :
    appendAt buf (pos : Int) ((buf.drop pos).take n) = .ok buf := by
  unfold appendAt
  have hl : ((buf.drop pos).take n).length = n := by simp; omega
  rw [hl]
  have hc : 0 ≤ (pos : Int) ∧ (pos : Int) + (n : Nat) ≤ (buf.length : Nat) := by omega
  rw [if_pos hc]
  simp only [Int.toNat_natCast]
  congr 1
  rw [List.append_assoc, ← List.drop_drop, List.take_append_drop, List.take_append_drop]

theorem take_one_of_getElem? (b : Bytes) (i : Nat) (c : UInt8) (h : b[i]? = some c) : (b.drop i).take 1 = [c] := by
  have hlt := (List.getElem?_eq_some_iff.mp h).1
  have hv := (List.getElem?_eq_some_iff.mp h).2
  rw [List.drop_eq_getElem_cons hlt]
  simp [hv]

theorem appendAt_sp (buf : Bytes) (pos : Nat) (h : buf[pos]? = some SP) : appendAt buf (pos : Int) [SP] = .ok buf := by
  have hlt := (List.getElem?_eq_some_iff.mp h).1
  have := appendAt_self buf pos 1 (by omega)
  rwa [take_one_of_getElem? buf pos SP h] at this

theorem cred_total (data : Bytes) (stop : UInt8) (hs : stop ≠ cEq) : Total (cred data stop) := by
  unfold cred
  have ho := indexByte_bounds data cEq
  have hp := indexByte_bounds data stop
  simp only []
  split
  · simp
  · split
    · simp
    · split
      · simp
      · have hne : indexByte data stop ≠ indexByte data cEq := by
          intro e
          have h1 := (indexByte_spec data stop (by omega)).1
          have h2 := (indexByte_spec data cEq (by omega)).1
          rw [e, h2] at h1
          exact hs (Option.some.inj h1).symm
        rw [slice?_ok _ _ _ (by omega), ok_bind, sliceFrom?_ok _ _ (by omega), ok_bind]
        simp

theorem afterTime_total (time data : Bytes) : Total (afterTime time data) := by
  unfold afterTime
  have h1 := indexByte_bounds data cRBr
  simp only []
  split
  · simp
  · rw [slice?_ok _ _ _ (by omega), ok_bind, sliceFrom?_ok _ _ (by omega), ok_bind]
    generalize data.drop (indexByte data cRBr + 1).toNat = d2
    have h2 := indexByte_bounds d2 cLBr
    split
    · simp
    · rw [sliceFrom?_ok _ _ (by omega), ok_bind]
      generalize d2.drop (indexByte d2 cLBr + 1).toNat = d3
      have h3 := indexByte_bounds d3 cRBr
      split
      · simp
      · rw [sliceTo?_ok _ _ (by omega), ok_bind, sliceFrom?_ok _ _ (by omega), ok_bind]
        generalize d3.drop (indexByte d3 cRBr + 1).toNat = d4
        obtain ⟨r1, hr1⟩ := cred_total d4 cComma (by decide)
        rw [hr1, ok_bind]
        cases r1 with
        | none => simp
        | some p1 =>
          obtain ⟨client, d5⟩ := p1
          simp only []
          obtain ⟨r2, hr2⟩ := cred_total d5 cComma (by decide)
          rw [hr2, ok_bind]
          cases r2 with
          | none => simp
          | some p2 =>
            obtain ⟨db, d6⟩ := p2
            simp only []
            obtain ⟨r3, hr3⟩ := cred_total d6 SP (by decide)
            rw [hr3, ok_bind]
            cases r3 with
            | none => simp
            | some p3 =>
              obtain ⟨user, d7⟩ := p3
              simp only []
              have h7 := indexByte_bounds d7 SP
              split
              · simp
              · rw [sliceFrom?_ok _ _ (by omega), ok_bind]
                simp

/-- totality and frame in one statement: the call returns normally and the buffer it returns
    (the caller's line after the in-place appends) is the buffer it was given -/
theorem decode_total_frame (buf : Bytes) : ∃ r, decode buf = .ok (r, buf) := by
  unfold decode
  have h1 := indexByte_bounds buf SP
  simp only []
  split
  · exact ⟨none, rfl⟩
  · rename_i hp1
    have s1 := (indexByte_spec buf SP (by omega)).1
    generalize hp : indexByte buf SP = p1 at *
    obtain ⟨n1, rfl⟩ : ∃ n : Nat, p1 = n := ⟨p1.toNat, by omega⟩
    simp only [Int.toNat_natCast] at s1
    rw [sliceTo?_ok _ _ (by omega), ok_bind, appendAt_sp buf n1 s1, ok_bind,
      sliceFrom?_ok _ _ (by omega), ok_bind]
    have e1 : ((n1 : Int) + 1).toNat = n1 + 1 := by omega
    rw [e1]
    have h2 := indexByte_bounds (buf.drop (n1 + 1)) SP
    split
    · exact ⟨none, rfl⟩
    · have s2 := (indexByte_spec (buf.drop (n1 + 1)) SP (by omega)).1
      generalize hp2 : indexByte (buf.drop (n1 + 1)) SP = p2 at *
      obtain ⟨n2, rfl⟩ : ∃ n : Nat, p2 = n := ⟨p2.toNat, by omega⟩
      simp only [Int.toNat_natCast, List.length_drop] at s2 h2
      rw [sliceTo?_ok _ _ (by simp; omega), ok_bind]
      simp only [Int.toNat_natCast]
      have a2 : appendAt buf ((n1 : Int) + 1) ((buf.drop (n1 + 1)).take n2) = .ok buf := by
        have := appendAt_self buf (n1 + 1) n2 (by omega)
        simpa using this
      rw [a2, ok_bind]
      have s2' : buf[n1 + 1 + n2]? = some SP := by
        rw [List.getElem?_drop] at s2; exact s2
      have a3 : appendAt buf ((n1 : Int) + 1 + (n2 : Int)) [SP] = .ok buf := by
        have := appendAt_sp buf (n1 + 1 + n2) s2'
        simpa using this
      rw [a3, ok_bind, sliceFrom?_ok _ _ (by omega), ok_bind]
      have e2 : ((n1 : Int) + 1 + ((n2 : Int) + 1)).toNat = n1 + 1 + (n2 + 1) := by omega
      rw [e2]
      have h3 := indexByte_bounds (buf.drop (n1 + 1 + (n2 + 1))) SP
      split
      · exact ⟨none, rfl⟩
      · generalize hp3 : indexByte (buf.drop (n1 + 1 + (n2 + 1))) SP = p3 at *
        obtain ⟨n3, rfl⟩ : ∃ n : Nat, p3 = n := ⟨p3.toNat, by omega⟩
        simp only [List.length_drop] at h3
        rw [sliceTo?_ok _ _ (by simp; omega), ok_bind]
        simp only [Int.toNat_natCast]
        have a4 : appendAt buf ((n1 : Int) + 1 + (n2 : Int) + 1) ((buf.drop (n1 + 1 + (n2 + 1))).take n3) = .ok buf := by
          have := appendAt_self buf (n1 + 1 + (n2 + 1)) n3 (by omega)
          have e : ((n1 + 1 + (n2 + 1) : Nat) : Int) = (n1 : Int) + 1 + (n2 : Int) + 1 := by omega
          rw [e] at this
          exact this
        rw [a4, ok_bind, sliceFrom?_ok _ _ (by omega), ok_bind, sliceTo?_ok _ _ (by omega), ok_bind]
        obtain ⟨r, hr⟩ := afterTime_total (buf.take ((n1 : Int) + 1 + (n2 : Int) + 1 + (n3 : Int)).toNat)
          (buf.drop ((n1 : Int) + 1 + ((n2 : Int) + 1) + ((n3 : Int) + 1)).toNat)
        rw [hr, ok_bind]
        exact ⟨r, rfl⟩


theorem cred_hit (pre v rest : Bytes) (stop : UInt8) (hs : stop ≠ cEq) (h1 : cEq ∉ pre) (h2 : stop ∉ pre) (h3 : stop ∉ v) :
    cred (pre ++ cEq :: (v ++ stop :: rest)) stop = .ok (some (v, rest)) := by
  unfold cred
  have e1 : indexByte (pre ++ cEq :: (v ++ stop :: rest)) cEq = pre.length := indexByte_append_hit pre cEq _ h1
  have e2 : indexByte (pre ++ cEq :: (v ++ stop :: rest)) stop = (pre.length + 1 + v.length : Nat) := by
    have : pre ++ cEq :: (v ++ stop :: rest) = (pre ++ cEq :: v) ++ stop :: rest := by simp
    rw [this, indexByte_append_hit (pre ++ cEq :: v) stop rest (by simp [h2, h3, hs])]
    simp; omega
  simp only [e1, e2]
  have c1 : ¬ ((pre.length : Int) < 0) := by omega
  have c2 : ¬ (((pre.length + 1 + v.length : Nat) : Int) < 0) := by omega
  have c3 : ¬ (((pre.length + 1 + v.length : Nat) : Int) < (pre.length : Int)) := by omega
  simp only [c1, c2, c3, ↓reduceIte]
  rw [slice?_ok _ _ _ (by simp; omega), ok_bind, sliceFrom?_ok _ _ (by simp; omega), ok_bind]
  simp only [pure_eq_ok]
  congr 3
  · have : ((pre.length : Int) + 1).toNat = pre.length + 1 := by omega
    rw [this]
    have : ((pre.length + 1 + v.length : Nat) : Int).toNat - (pre.length + 1) = v.length := by omega
    rw [this, drop_append_length_succ]
    simp
  · have : (((pre.length + 1 + v.length : Nat) : Int) + 1).toNat = (pre ++ cEq :: v).length + 1 := by simp; omega
    rw [this]
    have : pre ++ cEq :: (v ++ stop :: rest) = (pre ++ cEq :: v) ++ stop :: rest := by simp
    rw [this, drop_append_length_succ]

/-- when the three timestamp spaces are found at `n1`, `n2`, `n3` (relative to the running `data`) -/
theorem decode_eq (buf : Bytes) (n1 n2 n3 : Nat)
    (e1 : indexByte buf SP = n1) (e2 : indexByte (buf.drop (n1 + 1)) SP = n2)
    (e3 : indexByte (buf.drop (n1 + 1 + (n2 + 1))) SP = n3) :
    decode buf = (afterTime (buf.take (n1 + 1 + n2 + 1 + n3)) (buf.drop (n1 + 1 + (n2 + 1) + (n3 + 1)))) >>= fun r => pure (r, buf) := by
  unfold decode
  have h1 := indexByte_bounds buf SP
  have s1 := (indexByte_spec buf SP (by omega)).1
  simp only []
  rw [e1] at h1 s1 ⊢
  simp only [Int.toNat_natCast] at s1
  have c1 : ¬ ((n1 : Int) < 0) := by omega
  simp only [c1, ↓reduceIte]
  rw [sliceTo?_ok _ _ (by omega), ok_bind, appendAt_sp buf n1 s1, ok_bind,
    sliceFrom?_ok _ _ (by omega), ok_bind]
  have x1 : ((n1 : Int) + 1).toNat = n1 + 1 := by omega
  rw [x1]
  have h2 := indexByte_bounds (buf.drop (n1 + 1)) SP
  have s2 := (indexByte_spec (buf.drop (n1 + 1)) SP (by omega)).1
  rw [e2] at h2 s2 ⊢
  simp only [Int.toNat_natCast, List.length_drop] at s2 h2
  have c2 : ¬ ((n2 : Int) < 0) := by omega
  simp only [c2, ↓reduceIte]
  rw [sliceTo?_ok _ _ (by simp; omega), ok_bind]
  simp only [Int.toNat_natCast]
  have a2 : appendAt buf ((n1 : Int) + 1) ((buf.drop (n1 + 1)).take n2) = .ok buf := by
    have := appendAt_self buf (n1 + 1) n2 (by omega)
    simpa using this
  rw [a2, ok_bind]
  have s2' : buf[n1 + 1 + n2]? = some SP := by
    rw [List.getElem?_drop] at s2; exact s2
  have a3 : appendAt buf ((n1 : Int) + 1 + (n2 : Int)) [SP] = .ok buf := by
    have := appendAt_sp buf (n1 + 1 + n2) s2'
    simpa using this
  rw [a3, ok_bind, sliceFrom?_ok _ _ (by omega), ok_bind]
  have x2 : ((n1 : Int) + 1 + ((n2 : Int) + 1)).toNat = n1 + 1 + (n2 + 1) := by omega
  rw [x2]
  have h3 := indexByte_bounds (buf.drop (n1 + 1 + (n2 + 1))) SP
  rw [e3] at h3 ⊢
  simp only [List.length_drop] at h3
  have c3 : ¬ ((n3 : Int) < 0) := by omega
  simp only [c3, ↓reduceIte]
  rw [sliceTo?_ok _ _ (by simp; omega), ok_bind]
  simp only [Int.toNat_natCast]
  have a4 : appendAt buf ((n1 : Int) + 1 + (n2 : Int) + 1) ((buf.drop (n1 + 1 + (n2 + 1))).take n3) = .ok buf := by
    have := appendAt_self buf (n1 + 1 + (n2 + 1)) n3 (by omega)
    have e : ((n1 + 1 + (n2 + 1) : Nat) : Int) = (n1 : Int) + 1 + (n2 : Int) + 1 := by omega
    rw [e] at this
    exact this
  rw [a4, ok_bind, sliceFrom?_ok _ _ (by omega), ok_bind, sliceTo?_ok _ _ (by omega), ok_bind]
  have x3 : ((n1 : Int) + 1 + (n2 : Int) + 1 + (n3 : Int)).toNat = n1 + 1 + n2 + 1 + n3 := by omega
  have x4 : ((n1 : Int) + 1 + ((n2 : Int) + 1) + ((n3 : Int) + 1)).toNat = n1 + 1 + (n2 + 1) + (n3 + 1) := by omega
  rw [x3, x4]

theorem afterTime_fields (time : Bytes) (o : UInt8) (pid mid pmn pre1 c pre2 d pre3 u lvl : Bytes) (x : UInt8) (log : Bytes)
    (ho : o ≠ cRBr) (hpid : cRBr ∉ pid) (hmid : cLBr ∉ mid) (hpmn : cRBr ∉ pmn)
    (hp1 : cEq ∉ pre1 ∧ cComma ∉ pre1) (hc : cComma ∉ c)
    (hp2 : cEq ∉ pre2 ∧ cComma ∉ pre2) (hd : cComma ∉ d)
    (hp3 : cEq ∉ pre3 ∧ SP ∉ pre3) (hu : SP ∉ u) (hlvl : SP ∉ lvl) :
    afterTime time (o :: (pid ++ cRBr :: (mid ++ cLBr :: (pmn ++ cRBr :: (pre1 ++ cEq :: (c ++ cComma ::
      (pre2 ++ cEq :: (d ++ cComma :: (pre3 ++ cEq :: (u ++ SP :: (lvl ++ SP :: x :: log)))))))))))
      = .ok (some ⟨time, pid, pmn, c, d, u, log⟩) := by
  unfold afterTime
  have e1 : ∀ rest, indexByte (o :: (pid ++ cRBr :: rest)) cRBr = (pid.length + 1 : Nat) := by
    intro rest
    have := indexByte_append_hit (o :: pid) cRBr rest (by simp [hpid, Ne.symm ho])
    simpa using this
  simp only [e1]
  have c1 : ¬ (((pid.length + 1 : Nat) : Int) < 1) := by omega
  simp only [c1, ↓reduceIte]
  rw [slice?_ok _ _ _ (by simp; omega), ok_bind, sliceFrom?_ok _ _ (by simp; omega), ok_bind]
  have x1 : (((pid.length + 1 : Nat) : Int) + 1).toNat = (o :: pid).length + 1 := by simp; omega
  have x1' : ∀ rest, o :: (pid ++ cRBr :: rest) = (o :: pid) ++ cRBr :: rest := by simp
  rw [x1, x1', drop_append_length_succ]
  have v1 : List.take (((pid.length + 1 : Nat) : Int).toNat - (1 : Int).toNat) (List.drop (1 : Int).toNat ((o :: pid) ++ cRBr ::
      (mid ++ cLBr :: (pmn ++ cRBr :: (pre1 ++ cEq :: (c ++ cComma ::
      (pre2 ++ cEq :: (d ++ cComma :: (pre3 ++ cEq :: (u ++ SP :: (lvl ++ SP :: x :: log))))))))))) = pid := by
    simp
  rw [v1]
  rw [indexByte_append_hit mid cLBr _ hmid]
  have c2 : ¬ ((mid.length : Int) < 0) := by omega
  simp only [c2, ↓reduceIte]
  rw [sliceFrom?_ok _ _ (by simp; omega), ok_bind]
  have x2 : ((mid.length : Int) + 1).toNat = mid.length + 1 := by omega
  rw [x2, drop_append_length_succ, indexByte_append_hit pmn cRBr _ hpmn]
  have c3 : ¬ ((pmn.length : Int) < 0) := by omega
  simp only [c3, ↓reduceIte]
  rw [sliceTo?_ok _ _ (by simp; omega), ok_bind, sliceFrom?_ok _ _ (by simp; omega), ok_bind]
  have x3 : ((pmn.length : Int) + 1).toNat = pmn.length + 1 := by omega
  rw [x3, drop_append_length_succ]
  simp only [Int.toNat_natCast, List.take_left']
  rw [cred_hit pre1 c _ cComma (by decide) hp1.1 hp1.2 hc, ok_bind]
  simp only []
  rw [cred_hit pre2 d _ cComma (by decide) hp2.1 hp2.2 hd, ok_bind]
  simp only []
  rw [cred_hit pre3 u _ SP (by decide) hp3.1 hp3.2 hu, ok_bind]
  simp only []
  rw [indexByte_append_hit lvl SP _ hlvl]
  have c4 : ¬ ((lvl.length : Int) < 0 ∨ (lvl.length : Int) + 2 > ((lvl ++ SP :: x :: log).length : Nat)) := by
    simp; omega
  simp only [c4, ↓reduceIte]
  rw [sliceFrom?_ok _ _ (by simp; omega), ok_bind]
  have x4 : ((lvl.length : Int) + 2).toNat = lvl.length + 1 + 1 := by omega
  rw [x4]
  have : lvl ++ SP :: x :: log = (lvl ++ [SP]) ++ x :: log := by simp
  rw [this]
  have : lvl.length + 1 = (lvl ++ [SP]).length := by simp
  rw [this, drop_append_length_succ]
  rfl


/-- the rendered line: `t1 t2 t3 [pid]<mid>[pmn]<pre1>=c,<pre2>=d,<pre3>=u lvl<x>log`
    (in the documented format: mid = " => ", pre1 = " client", pre2 = "db", pre3 = "user", x = ' ') -/
def render (t1 t2 t3 : Bytes) (o : UInt8) (pid mid pmn pre1 c pre2 d pre3 u lvl : Bytes) (x : UInt8) (log : Bytes) : Bytes :=
  t1 ++ SP :: (t2 ++ SP :: (t3 ++ SP :: (o :: (pid ++ cRBr :: (mid ++ cLBr :: (pmn ++ cRBr :: (pre1 ++ cEq :: (c ++ cComma ::
      (pre2 ++ cEq :: (d ++ cComma :: (pre3 ++ cEq :: (u ++ SP :: (lvl ++ SP :: x :: log)))))))))))))

theorem decode_fields (t1 t2 t3 : Bytes) (o : UInt8) (pid mid pmn pre1 c pre2 d pre3 u lvl : Bytes) (x : UInt8) (log : Bytes)
    (h1 : SP ∉ t1) (h2 : SP ∉ t2) (h3 : SP ∉ t3)
    (ho : o ≠ cRBr) (hpid : cRBr ∉ pid) (hmid : cLBr ∉ mid) (hpmn : cRBr ∉ pmn)
    (hp1 : cEq ∉ pre1 ∧ cComma ∉ pre1) (hc : cComma ∉ c)
    (hp2 : cEq ∉ pre2 ∧ cComma ∉ pre2) (hd : cComma ∉ d)
    (hp3 : cEq ∉ pre3 ∧ SP ∉ pre3) (hu : SP ∉ u) (hlvl : SP ∉ lvl) :
    decode (render t1 t2 t3 o pid mid pmn pre1 c pre2 d pre3 u lvl x log)
      = .ok (some ⟨t1 ++ SP :: (t2 ++ SP :: t3), pid, pmn, c, d, u, log⟩,
             render t1 t2 t3 o pid mid pmn pre1 c pre2 d pre3 u lvl x log) := by
  unfold render
  rw [decode_eq _ t1.length t2.length t3.length (indexByte_append_hit t1 SP _ h1)
        (by rw [drop_append_length_succ]; exact indexByte_append_hit t2 SP _ h2)
        (by
          rw [drop_append_succ_add, drop_append_length_succ]
          exact indexByte_append_hit t3 SP _ h3)]
  have d1 : ∀ rest : Bytes, (t1 ++ SP :: (t2 ++ SP :: (t3 ++ SP :: rest))).drop (t1.length + 1 + (t2.length + 1) + (t3.length + 1)) = rest := by
    intro rest
    rw [Nat.add_assoc, drop_append_succ_add, drop_append_succ_add, drop_append_length_succ]
  have t : ∀ rest : Bytes, (t1 ++ SP :: (t2 ++ SP :: (t3 ++ SP :: rest))).take (t1.length + 1 + t2.length + 1 + t3.length)
      = t1 ++ SP :: (t2 ++ SP :: t3) := by
    intro rest
    have : t1 ++ SP :: (t2 ++ SP :: (t3 ++ SP :: rest)) = (t1 ++ SP :: (t2 ++ SP :: t3)) ++ SP :: rest := by simp
    rw [this]
    have : t1.length + 1 + t2.length + 1 + t3.length = (t1 ++ SP :: (t2 ++ SP :: t3)).length := by simp; omega
    rw [this, List.take_left']
    rfl
  rw [d1, t, afterTime_fields _ o pid mid pmn pre1 c pre2 d pre3 u lvl x log ho hpid hmid hpmn hp1 hc hp2 hd hp3 hu hlvl]
  rfl

end FileD.Dec.Postgres
