/-
  C12, CSV decoder (`FileD/Model/Dec/CSV.lean`, mirrors `(*CSVDecoder).Decode`):
    * `decode_total`     no panic / no fuel exhaustion, for every input, delimiter and `TrimSpace` oracle
    * `decode_frame`, `decode_frameOk`  the caller's buffer: unchanged, or a final "\r\n" became "\n\n"
    * `decode_fields`, `decode_fields_nl`  fidelity: a rendered row (quoted / unquoted fields) decodes to
      exactly its fields
  Technique: the quoted-field loop is characterised byte by byte (`quoted_cons_ne`, `quoted_qq`,
  `quoted_q_end`, `quoted_q_other`), `decode` is put in closed form (`decode_eq`).
-/
import FileD.Lemmas.Dec.Basic
import FileD.Model.Dec.CSV
import FileD.Spec.C12
namespace FileD.Dec.CSV
open FileD GoSlice FileD.Dec

theorem indexByte_cons (x : UInt8) (xs : Bytes) (c : UInt8) :
    indexByte (x :: xs) c =
      if x = c then 0 else if indexByte xs c = -1 then -1 else indexByte xs c + 1 := by
  unfold indexByte
  rw [List.findIdx?_cons]
  by_cases h : x = c
  · simp [h]
  · simp only [beq_iff_eq, h, if_false]
    cases xs.findIdx? (· == c) with
    | none => simp
    | some i =>
      simp only [Option.map_some]
      have : ¬ ((i : Int) = -1) := by omega
      simp [this]

theorem indexByte_not_mem (a : Bytes) (c : UInt8) (h : c ∉ a) : indexByte a c = -1 := by
  induction a with
  | nil => rfl
  | cons x xs ih =>
    rw [indexByte_cons]
    have h1 : x ≠ c := fun e => h (by simp [e])
    have h2 : c ∉ xs := fun e => h (by simp [e])
    simp [h1, ih h2]

theorem indexByte_append_mem (a r : Bytes) (c : UInt8) (h : c ∉ a) :
    indexByte (a ++ c :: r) c = a.length := by
  induction a with
  | nil => simp [indexByte_cons]
  | cons x xs ih =>
    have h1 : x ≠ c := fun e => h (by simp [e])
    have h2 : c ∉ xs := fun e => h (by simp [e])
    rw [List.cons_append, indexByte_cons, ih h2]
    simp [h1]

theorem idx?_zero_cons {α} (x : α) (xs : List α) : idx? (x :: xs) 0 = .ok x := by
  simp [idx?]

theorem sliceFrom?_one_cons {α} (x : α) (xs : List α) : sliceFrom? (x :: xs) 1 = .ok xs := by
  rw [sliceFrom?_ok _ _ (by simp; omega)]
  rfl


theorem quoted_cons_ne (delim : UInt8) (fuel : Nat) (c : UInt8) (d rb : Bytes) (hc : c ≠ cQuote) :
    quoted delim fuel (c :: d) rb = quoted delim fuel d (rb ++ [c]) := by
  cases fuel with
  | zero => rfl
  | succ f =>
    unfold quoted
    simp only []
    rw [indexByte_cons]
    simp only [hc, if_false]
    have hb := indexByte_bounds d cQuote
    by_cases hj : indexByte d cQuote = -1
    · simp [hj]
    · simp only [hj, if_false]
      have h1 : indexByte d cQuote + 1 ≥ 0 := by omega
      have h2 : indexByte d cQuote ≥ 0 := by omega
      simp only [h1, h2, if_true]
      rw [sliceTo?_ok (c :: d) _ (by simp; omega), ok_bind, sliceTo?_ok d _ (by omega), ok_bind,
        sliceFrom?_ok (c :: d) _ (by simp; omega), ok_bind, sliceFrom?_ok d _ (by omega), ok_bind]
      have e1 : (indexByte d cQuote + 1).toNat = (indexByte d cQuote).toNat + 1 := by omega
      have e2 : (indexByte d cQuote + 1 + 1).toNat = (indexByte d cQuote + 1).toNat + 1 := by omega
      rw [e2, e1, List.take_succ_cons, List.drop_succ_cons, ← e1]
      simp only [List.append_assoc, List.singleton_append]

theorem quoted_qq (delim : UInt8) (f : Nat) (d rb : Bytes) :
    quoted delim (f+1) (cQuote :: cQuote :: d) rb = quoted delim f d (rb ++ [cQuote]) := by
  rw [quoted]
  simp only [indexByte_cons, if_true]
  rw [sliceTo?_ok _ _ (by simp; omega)]
  simp [sliceFrom?_one_cons, idx?_zero_cons]


theorem quoted_nil (delim : UInt8) (f : Nat) (rb : Bytes) :
    quoted delim (f+1) [] rb = .ok .bad := by
  rw [quoted]; rfl

theorem quoted_q_end (delim : UInt8) (f : Nat) (rb : Bytes) :
    quoted delim (f+1) [cQuote] rb = .ok (.done rb) := by
  rw [quoted]
  simp only [indexByte_cons, if_true]
  rw [sliceTo?_ok _ _ (by simp)]
  simp [sliceFrom?_one_cons]

theorem quoted_q_other (delim : UInt8) (f : Nat) (x : UInt8) (d rb : Bytes) (hx : x ≠ cQuote) :
    quoted delim (f+1) (cQuote :: x :: d) rb =
      .ok (if x = delim then .cont d rb else if d = [] ∧ x = NL then .done rb else .bad) := by
  rw [quoted]
  simp only [indexByte_cons, if_true]
  rw [sliceTo?_ok _ _ (by simp; omega)]
  simp only [Int.zero_add, sliceFrom?_one_cons, idx?_zero_cons, ok_bind, hx, if_false]
  by_cases h1 : x = delim
  · simp [h1]
  · simp [h1]
    split <;> rfl

/-- what the quoted-field loop guarantees about its result -/
def QPost (data rb : Bytes) : Q → Prop
  | .cont d' rb' => d'.length + 2 ≤ data.length ∧ ∃ ext, rb' = rb ++ ext
  | .done rb' => ∃ ext, rb' = rb ++ ext
  | .bad => True

theorem quoted_total_aux (delim : UInt8) : ∀ (n : Nat) (data : Bytes), data.length ≤ n →
    ∀ (fuel : Nat) (rb : Bytes), data.length < fuel →
      ∃ q, quoted delim fuel data rb = .ok q ∧ QPost data rb q := by
  intro n
  induction n with
  | zero =>
    intro data hn fuel rb hf
    have : data = [] := List.eq_nil_of_length_eq_zero (by omega)
    subst this
    obtain ⟨f, rfl⟩ : ∃ f, fuel = f + 1 := ⟨fuel - 1, by simp at hf; omega⟩
    exact ⟨.bad, quoted_nil _ _ _, trivial⟩
  | succ n ih =>
    intro data hn fuel rb hf
    obtain ⟨f, rfl⟩ : ∃ f, fuel = f + 1 := ⟨fuel - 1, by omega⟩
    match data, hn, hf with
    | [], _, _ => exact ⟨.bad, quoted_nil _ _ _, trivial⟩
    | c :: d, hn, hf =>
      by_cases hc : c = cQuote
      · subst hc
        match d, hn, hf with
        | [], _, _ => exact ⟨.done rb, quoted_q_end _ _ _, ⟨[], by simp⟩⟩
        | x :: d, hn, hf =>
          by_cases hx : x = cQuote
          · subst hx
            rw [quoted_qq]
            obtain ⟨q, hq, hp⟩ := ih d (by simp at hn; omega) f (rb ++ [cQuote]) (by simp at hf; omega)
            refine ⟨q, hq, ?_⟩
            cases q with
            | bad => trivial
            | done rb' =>
              obtain ⟨ext, he⟩ := hp
              exact ⟨[cQuote] ++ ext, by simp [he]⟩
            | cont d' rb' =>
              obtain ⟨hl, ext, he⟩ := hp
              exact ⟨by simp; omega, [cQuote] ++ ext, by simp [he]⟩
          · rw [quoted_q_other _ _ _ _ _ hx]
            refine ⟨_, rfl, ?_⟩
            split
            · exact ⟨by simp, [], by simp⟩
            · split
              · exact ⟨[], by simp⟩
              · trivial
      · rw [quoted_cons_ne _ _ _ _ _ hc]
        obtain ⟨q, hq, hp⟩ := ih d (by simp at hn; omega) (f+1) (rb ++ [c]) (by simp at hf; omega)
        refine ⟨q, hq, ?_⟩
        cases q with
        | bad => trivial
        | done rb' =>
          obtain ⟨ext, he⟩ := hp
          exact ⟨[c] ++ ext, by simp [he]⟩
        | cont d' rb' =>
          obtain ⟨hl, ext, he⟩ := hp
          exact ⟨by simp; omega, [c] ++ ext, by simp [he]⟩

theorem quoted_total (delim : UInt8) (fuel : Nat) (data rb : Bytes) (hf : data.length < fuel) :
    ∃ q, quoted delim fuel data rb = .ok q ∧ QPost data rb q :=
  quoted_total_aux delim data.length data (Nat.le_refl _) fuel rb hf


/-! ### `parseField`, `cutFields` -/

/-- `pre ≤ i₁ ≤ i₂ ≤ … ≤ n`, all non-negative: every `str[pre:idx]` of `cutFields` is in bounds -/
def Chain (n : Int) : Int → List Int → Prop
  | pre, [] => 0 ≤ pre ∧ pre ≤ n
  | pre, i :: rest => 0 ≤ pre ∧ pre ≤ i ∧ Chain n i rest

theorem Chain.snoc {n n' : Int} (h : n ≤ n') : ∀ {pre : Int} {idxs : List Int},
    Chain n pre idxs → Chain n' pre (idxs ++ [n'])
  | pre, [], hc => by
    obtain ⟨h0, h1⟩ := hc
    exact ⟨h0, by omega, by omega, Int.le_refl _⟩
  | pre, i :: rest, hc => by
    obtain ⟨h0, h1, h2⟩ := hc
    exact ⟨h0, h1, Chain.snoc h h2⟩

theorem cutFields_total (str : Bytes) : ∀ (idxs : List Int) (pre : Int),
    Chain str.length pre idxs → Total (cutFields str idxs pre)
  | [], _, _ => by simp [cutFields]
  | i :: rest, pre, hc => by
    obtain ⟨h0, h1, h2⟩ := hc
    have hi : i ≤ str.length := by
      cases rest with
      | nil => exact h2.2
      | cons j r =>
        have : ∀ (l : List Int) (a : Int), Chain str.length a l → a ≤ str.length := by
          intro l
          induction l with
          | nil => intro a h; exact h.2
          | cons b l ih => intro a h; have := ih b h.2.2; have := h.2.1; omega
        exact this _ _ h2
    unfold cutFields
    rw [slice?_ok _ _ _ ⟨h0, h1, hi⟩, ok_bind]
    obtain ⟨fs, hfs⟩ := cutFields_total str rest i h2
    rw [hfs, ok_bind]
    simp

def firstNotQuote : Bytes → Bool
  | [] => true
  | c :: _ => c != cQuote

theorem unq_check (data : Bytes) :
    (if data.length = 0 then pure true else do
        let c ← idx? data 0
        pure (c != cQuote) : GoM Bool) = .ok (firstNotQuote data) := by
  cases data with
  | nil => rfl
  | cons c d => simp [idx?_zero_cons, firstNotQuote]

theorem parseField_total (delim : UInt8) (trim : Bytes → Bytes) : ∀ (f : Nat) (data rb : Bytes)
    (idxs : List Int), data.length + 1 < f → Chain rb.length 0 idxs →
    ∃ r, parseField delim trim f data rb idxs = .ok r ∧
      ∀ rb' idxs', r = some (rb', idxs') → Chain rb'.length 0 idxs' := by
  intro f
  induction f with
  | zero => intro _ _ _ h; omega
  | succ f ih =>
    intro data rb idxs hf hc
    unfold parseField
    rw [unq_check, ok_bind]
    cases hq : firstNotQuote data with
    | true =>
      simp only [if_true]
      have hb := indexByte_bounds data delim
      by_cases hi : indexByte data delim ≥ 0
      · simp only [hi, if_true]
        rw [sliceTo?_ok _ _ (by omega), ok_bind]
        split
        · exact ⟨none, rfl, by intro _ _ h; cases h⟩
        · rw [sliceFrom?_ok _ _ (by omega), ok_bind]
          apply ih
          · simp only [List.length_drop]; omega
          · exact Chain.snoc (by simp; omega) hc
      · simp only [hi, if_false, pure_eq_ok, ok_bind]
        split
        · exact ⟨none, rfl, by intro _ _ h; cases h⟩
        · refine ⟨_, rfl, ?_⟩
          intro rb' idxs' h
          cases h
          exact Chain.snoc (by simp; omega) hc
    | false =>
      cases data with
      | nil => simp [firstNotQuote] at hq
      | cons c d =>
        simp only [Bool.false_eq_true, if_false]
        rw [sliceFrom?_one_cons, ok_bind]
        obtain ⟨q, hq, hp⟩ := quoted_total delim (d.length + 1) d rb (by omega)
        rw [hq, ok_bind]
        cases q with
        | bad => exact ⟨none, rfl, by intro _ _ h; cases h⟩
        | done rb' =>
          refine ⟨_, rfl, ?_⟩
          intro rb'' idxs' h
          cases h
          obtain ⟨ext, he⟩ := hp
          exact Chain.snoc (by simp [he]; omega) hc
        | cont d' rb' =>
          obtain ⟨hl, ext, he⟩ := hp
          apply ih
          · simp only [List.length_cons] at hf; omega
          · exact Chain.snoc (by simp [he]; omega) hc


/-! ### `decode` in closed form -/

/-- the buffer ends with "\r\n" -/
def isCRLF (buf : Bytes) : Bool :=
  decide (2 ≤ buf.length) && (buf.drop (buf.length - 2) == [CR, NL])

/-- the caller's buffer after the call -/
def fixBuf (buf : Bytes) : Bytes :=
  if isCRLF buf then buf.take (buf.length - 2) ++ [NL, NL] else buf

/-- the bytes the field loop runs on -/
def dataOf (buf : Bytes) : Bytes :=
  if isCRLF buf then buf.take (buf.length - 2) ++ [NL] else buf

def finish (buf' : Bytes) : Option (Bytes × List Int) → GoM (Option (List Bytes) × Bytes)
  | none => pure (none, buf')
  | some (rb, idxs) => do
    let fs ← cutFields rb idxs 0
    pure (some fs, buf')

theorem exists_snoc2 {α} (l : List α) (h : 2 ≤ l.length) : ∃ a x y, l = a ++ [x, y] := by
  have hd : (l.drop (l.length - 2)).length = 2 := by simp; omega
  match hdr : l.drop (l.length - 2), hd with
  | [x, y], _ => exact ⟨l.take (l.length - 2), x, y, by rw [← hdr, List.take_append_drop]⟩

theorem idx?_append_at {α} (a r : List α) (x : α) (i : Int) (hi : i = a.length) :
    idx? (a ++ x :: r) i = .ok x := by
  subst hi
  simp [idx?]

theorem isCRLF_snoc2 (a : Bytes) (x y : UInt8) :
    isCRLF (a ++ [x, y]) = (x == CR && y == NL) := by
  simp [isCRLF]

theorem decode_eq (delim : UInt8) (trim : Bytes → Bytes) (buf : Bytes) (hne : buf ≠ []) :
    decode delim trim buf =
      parseField delim trim ((dataOf buf).length + 2) (dataOf buf) [] [] >>= finish (fixBuf buf) := by
  have hlen : buf.length ≠ 0 := by
    intro h; exact hne (List.eq_nil_of_length_eq_zero h)
  unfold decode
  simp only [hlen, if_false]
  by_cases h2 : 2 ≤ buf.length
  · obtain ⟨a, x, y, rfl⟩ := exists_snoc2 buf h2
    have hn : ((a ++ [x, y]).length : Int) ≥ 2 := by simp; omega
    simp only [hn, if_true]
    rw [idx?_append_at a [y] x _ (by simp), ok_bind]
    have e : a ++ [x, y] = (a ++ [x]) ++ y :: [] := by simp
    rw [e, idx?_append_at (a ++ [x]) [] y _ (by simp; omega), ← e]
    simp only [dataOf, fixBuf, isCRLF_snoc2]
    by_cases hx : x = CR
    · by_cases hy : y = NL
      · subst hx; subst hy
        simp only [if_true, pure_eq_ok, ok_bind, beq_self_eq_true, Bool.and_self]
        have hs : (a ++ [CR, NL]).set (((a ++ [CR, NL]).length : Int) - 2).toNat NL = a ++ [NL, NL] := by
          have : (((a ++ [CR, NL]).length : Int) - 2).toNat = a.length := by simp
          rw [this]; simp
        have ht : List.take ((a ++ [CR, NL]).length - 2) (a ++ [CR, NL]) = a := by simp
        rw [hs, ht, sliceTo?_ok _ _ (by simp; omega), ok_bind]
        have : List.take (((a ++ [CR, NL]).length : Int) - 1).toNat (a ++ [NL, NL]) = a ++ [NL] := by
          have : (((a ++ [CR, NL]).length : Int) - 1).toNat = a.length + 1 := by simp; omega
          rw [this, List.take_append]; simp [List.take_of_length_le]
        rw [this]
        rfl
      · have : (y == NL) = false := by simp [hy]
        simp only [hx, this, if_true, pure_eq_ok, ok_bind, Bool.and_false, Bool.false_eq_true, if_false]
        rfl
    · have : (x == CR) = false := by simp [hx]
      simp only [hx, this, pure_eq_ok, ok_bind, Bool.false_and, Bool.false_eq_true, if_false]
      rfl
  · have hn : ¬ ((buf.length : Int) ≥ 2) := by omega
    have hc : isCRLF buf = false := by simp [isCRLF]; intro h; omega
    simp only [hn, dataOf, fixBuf, hc, pure_eq_ok, ok_bind, Bool.false_eq_true, if_false]
    rfl


/-! ### C12 for CSV, part 1: no panic -/

theorem finish_total (b rb : Bytes) (idxs : List Int) (h : Chain rb.length 0 idxs) :
    Total (finish b (some (rb, idxs))) := by
  obtain ⟨fs, hfs⟩ := cutFields_total rb idxs 0 h
  simp only [finish]
  rw [hfs, ok_bind]
  simp

/-- for every byte string, delimiter and `TrimSpace` oracle: `Decode` neither panics nor does the
    model run out of fuel -/
theorem decode_total (delim : UInt8) (trim : Bytes → Bytes) (buf : Bytes) :
    Total (decode delim trim buf) := by
  by_cases hne : buf = []
  · subst hne
    simp [decode]
  · rw [decode_eq _ _ _ hne]
    obtain ⟨r, hr, hc⟩ := parseField_total delim trim ((dataOf buf).length + 2) (dataOf buf) [] []
      (by omega) ⟨Int.le_refl _, by simp⟩
    rw [hr, ok_bind]
    match r, hc with
    | none, _ => simp [finish]
    | some (rb, idxs), hc => exact finish_total _ _ _ (hc rb idxs rfl)

example : decode 44 id [34, 97, 34, 34, 44, 98, 34, 44, 99, 13, 10] =
    .ok (some [[97, 34, 44, 98], [99, 10]], [34, 97, 34, 34, 44, 98, 34, 44, 99, 10, 10]) := by rfl
example : decode 44 id [34, 97, 34, 98] = .ok (none, [34, 97, 34, 98]) := by rfl

/-! ### part 2: the caller's buffer -/

theorem finish_snd (b : Bytes) (x : Option (Bytes × List Int)) (r : Option (List Bytes)) (b' : Bytes)
    (h : finish b x = .ok (r, b')) : b' = b := by
  match x, h with
  | none, h =>
    simp only [finish, pure_eq_ok] at h
    cases h; rfl
  | some (rb, idxs), h =>
    simp only [finish] at h
    cases hc : cutFields rb idxs 0 with
    | error e => rw [hc] at h; cases h
    | ok fs => rw [hc, ok_bind] at h; cases h; rfl

theorem decode_buf (delim : UInt8) (trim : Bytes → Bytes) (buf : Bytes) (r : Option (List Bytes))
    (buf' : Bytes) (h : decode delim trim buf = .ok (r, buf')) : buf' = fixBuf buf := by
  by_cases hne : buf = []
  · subst hne
    simp only [decode, List.length_nil, if_true, pure_eq_ok] at h
    cases h; rfl
  · rw [decode_eq _ _ _ hne] at h
    cases hp : parseField delim trim ((dataOf buf).length + 2) (dataOf buf) [] [] with
    | error e => rw [hp] at h; cases h
    | ok x => rw [hp, ok_bind] at h; exact finish_snd _ _ _ _ h

/-- the only effect on the line buffer: a final "\r\n" becomes "\n\n"; nothing else is written -/
theorem decode_frame (delim : UInt8) (trim : Bytes → Bytes) (buf : Bytes) (r : Option (List Bytes))
    (buf' : Bytes) (h : decode delim trim buf = .ok (r, buf')) :
    buf'.length = buf.length ∧
      (buf' = buf ∨
        (2 ≤ buf.length ∧ buf.drop (buf.length - 2) = [CR, NL] ∧
          buf' = buf.take (buf.length - 2) ++ [NL, NL])) := by
  rw [decode_buf _ _ _ _ _ h]
  unfold fixBuf
  cases hc : isCRLF buf with
  | false => simp
  | true =>
    simp only [isCRLF, Bool.and_eq_true, decide_eq_true_eq, beq_iff_eq] at hc
    refine ⟨by simp; omega, Or.inr ⟨hc.1, hc.2, by simp⟩⟩

example : decode 44 id [97, 13, 10] = .ok (some [[97, 10]], [97, 10, 10]) := by rfl

theorem decode_frameOk (delim : UInt8) (trim : Bytes → Bytes) (buf : Bytes) (r : Option (List Bytes))
    (buf' : Bytes) (h : decode delim trim buf = .ok (r, buf')) :
    SpecC12.frameOk true buf buf' = true := by
  obtain ⟨_, h1 | ⟨h2, h3, h4⟩⟩ := decode_frame delim trim buf r buf' h
  · simp [SpecC12.frameOk, h1]
  · simp [SpecC12.frameOk, h2, h3, h4]

/-! ### part 3: fidelity — render a row, decode it back -/

/-- CSV quoting: every `"` is doubled -/
def escQ : Bytes → Bytes
  | [] => []
  | c :: cs => if c = cQuote then cQuote :: cQuote :: escQ cs else c :: escQ cs

def renderField (q : Bool) (f : Bytes) : Bytes :=
  if q then [cQuote] ++ escQ f ++ [cQuote] else f

/-- fields (quoted or not) joined by the delimiter -/
def renderRow (delim : UInt8) : List (Bool × Bytes) → Bytes
  | [] => []
  | [p] => renderField p.1 p.2
  | p :: p' :: rest => renderField p.1 p.2 ++ [delim] ++ renderRow delim (p' :: rest)

/-- the quoted loop reads an escaped field back; `tl` is whatever terminates the field -/
theorem quoted_esc (delim : UInt8) (tl : Bytes) (R : Bytes → Q)
    (hR : ∀ k rb, quoted delim (k+1) tl rb = .ok (R rb)) :
    ∀ (f : Bytes) (fuel : Nat) (rb : Bytes), (escQ f ++ tl).length < fuel →
      quoted delim fuel (escQ f ++ tl) rb = .ok (R (rb ++ f)) := by
  intro f
  induction f with
  | nil =>
    intro fuel rb hf
    obtain ⟨k, rfl⟩ : ∃ k, fuel = k + 1 := ⟨fuel - 1, by omega⟩
    simp [escQ, hR]
  | cons c f ih =>
    intro fuel rb hf
    by_cases hc : c = cQuote
    · subst hc
      obtain ⟨k, rfl⟩ : ∃ k, fuel = k + 1 := ⟨fuel - 1, by omega⟩
      simp only [escQ, if_true, List.cons_append] at hf ⊢
      rw [quoted_qq, ih k _ (by simp only [List.length_cons] at hf; omega)]
      simp
    · simp only [escQ, hc, if_false, List.cons_append] at hf ⊢
      rw [quoted_cons_ne _ _ _ _ _ hc, ih fuel _ (by simp only [List.length_cons] at hf; omega)]
      simp

theorem quoted_esc_delim (delim : UInt8) (hd : delim ≠ cQuote) (f more : Bytes) (fuel : Nat) (rb : Bytes)
    (hf : (escQ f ++ cQuote :: delim :: more).length < fuel) :
    quoted delim fuel (escQ f ++ cQuote :: delim :: more) rb = .ok (.cont more (rb ++ f)) := by
  apply quoted_esc delim _ (fun rb => .cont more rb) _ f fuel rb hf
  intro k rb
  rw [quoted_q_other _ _ _ _ _ hd]
  simp

theorem quoted_esc_end (delim : UInt8) (f : Bytes) (fuel : Nat) (rb : Bytes)
    (hf : (escQ f ++ [cQuote]).length < fuel) :
    quoted delim fuel (escQ f ++ [cQuote]) rb = .ok (.done (rb ++ f)) :=
  quoted_esc delim _ (fun rb => .done rb) (fun _ _ => quoted_q_end _ _ _) f fuel rb hf

theorem quoted_esc_nl (delim : UInt8) (hn : delim ≠ NL) (f : Bytes) (fuel : Nat) (rb : Bytes)
    (hf : (escQ f ++ [cQuote, NL]).length < fuel) :
    quoted delim fuel (escQ f ++ [cQuote, NL]) rb = .ok (.done (rb ++ f)) := by
  apply quoted_esc delim _ (fun rb => .done rb) _ f fuel rb hf
  intro k rb
  rw [quoted_q_other _ _ _ _ _ (by decide)]
  have : ¬ NL = delim := fun e => hn e.symm
  simp [this]


/-! one iteration of `parseField:` -/

theorem parseField_unq_mid (delim : UInt8) (trim : Bytes → Bytes) (hd : delim ≠ cQuote)
    (k : Nat) (f more rb : Bytes) (idxs : List Int) (h1 : delim ∉ f) (h2 : cQuote ∉ f) :
    parseField delim trim (k+1) (f ++ delim :: more) rb idxs =
      parseField delim trim k more (rb ++ f) (idxs ++ [((rb ++ f).length : Int)]) := by
  have hq : firstNotQuote (f ++ delim :: more) = true := by
    cases f with
    | nil => simp [firstNotQuote, hd]
    | cons c f =>
      have : c ≠ cQuote := fun e => h2 (by simp [e])
      simp [firstNotQuote, this]
  rw [parseField, unq_check, ok_bind]
  simp only [hq, if_true, indexByte_append_mem _ _ _ h1]
  have hge : ((f.length : Nat) : Int) ≥ 0 := by omega
  simp only [hge, if_true]
  rw [sliceTo?_ok _ _ (by simp; omega), ok_bind]
  have ht : List.take ((f.length : Nat) : Int).toNat (f ++ delim :: more) = f := by simp
  rw [ht]
  have hnq : ¬ indexByte f cQuote ≥ 0 := by rw [indexByte_not_mem _ _ h2]; omega
  simp only [hnq, if_false]
  rw [sliceFrom?_ok _ _ (by simp; omega), ok_bind]
  have hdp : List.drop (((f.length : Nat) : Int) + 1).toNat (f ++ delim :: more) = more := by
    have : (((f.length : Nat) : Int) + 1).toNat = f.length + 1 := by omega
    rw [this, List.drop_append]; simp
  rw [hdp]

theorem parseField_unq_last (delim : UInt8) (trim : Bytes → Bytes)
    (k : Nat) (data rb : Bytes) (idxs : List Int) (h0 : firstNotQuote data = true)
    (h1 : delim ∉ data) (h2 : cQuote ∉ trim data) :
    parseField delim trim (k+1) data rb idxs =
      .ok (some (rb ++ trim data, idxs ++ [((rb ++ trim data).length : Int)])) := by
  rw [parseField, unq_check, ok_bind]
  simp only [h0, if_true, indexByte_not_mem _ _ h1]
  have hneg : ¬ ((-1 : Int) ≥ 0) := by omega
  simp only [hneg, if_false, pure_eq_ok, ok_bind]
  have hnq : ¬ indexByte (trim data) cQuote ≥ 0 := by rw [indexByte_not_mem _ _ h2]; omega
  simp only [hnq, if_false]

theorem parseField_q_cont (delim : UInt8) (trim : Bytes → Bytes)
    (k : Nat) (d rb d' rb' : Bytes) (idxs : List Int)
    (h : quoted delim (d.length + 1) d rb = .ok (.cont d' rb')) :
    parseField delim trim (k+1) (cQuote :: d) rb idxs =
      parseField delim trim k d' rb' (idxs ++ [(rb'.length : Int)]) := by
  rw [parseField, unq_check, ok_bind]
  simp only [firstNotQuote, bne_self_eq_false, Bool.false_eq_true, if_false]
  rw [sliceFrom?_one_cons, ok_bind, h, ok_bind]

theorem parseField_q_done (delim : UInt8) (trim : Bytes → Bytes)
    (k : Nat) (d rb rb' : Bytes) (idxs : List Int)
    (h : quoted delim (d.length + 1) d rb = .ok (.done rb')) :
    parseField delim trim (k+1) (cQuote :: d) rb idxs =
      .ok (some (rb', idxs ++ [(rb'.length : Int)])) := by
  rw [parseField, unq_check, ok_bind]
  simp only [firstNotQuote, bne_self_eq_false, Bool.false_eq_true, if_false]
  rw [sliceFrom?_one_cons, ok_bind, h, ok_bind]
  rfl


/-- the field-end offsets `parseField` records for the fields `fs`, starting at offset `base` -/
def idxsOf : Nat → List Bytes → List Int
  | _, [] => []
  | base, f :: fs => ((base + f.length : Nat) : Int) :: idxsOf (base + f.length) fs

theorem firstNotQuote_unq (f tail : Bytes) (h2 : cQuote ∉ f) (ht : tail = [] ∨ tail = [NL]) :
    firstNotQuote (f ++ tail) = true := by
  cases f with
  | nil => rcases ht with rfl | rfl <;> rfl
  | cons c f =>
    have : c ≠ cQuote := fun e => h2 (by simp [e])
    simp [firstNotQuote, this]

theorem parseField_render (delim : UInt8) (trim : Bytes → Bytes) (hd : delim ≠ cQuote)
    (tail : Bytes) (htl : tail = [] ∨ (tail = [NL] ∧ delim ≠ NL)) :
    ∀ (fs : List (Bool × Bytes)), fs ≠ [] →
      (∀ p ∈ fs, p.1 = false → delim ∉ p.2 ∧ cQuote ∉ p.2) →
      (∀ f, fs.getLast? = some (false, f) → trim (f ++ tail) = f) →
      ∀ (fuel : Nat) (rb : Bytes) (idxs : List Int),
        (renderRow delim fs ++ tail).length + 2 ≤ fuel →
        parseField delim trim fuel (renderRow delim fs ++ tail) rb idxs =
          .ok (some (rb ++ (fs.map (·.2)).flatten, idxs ++ idxsOf rb.length (fs.map (·.2)))) := by
  intro fs
  induction fs with
  | nil => intro h; exact absurd rfl h
  | cons p rest ih =>
    intro _ hunq hlast fuel rb idxs hfuel
    obtain ⟨k, rfl⟩ : ∃ k, fuel = k + 1 := ⟨fuel - 1, by omega⟩
    obtain ⟨q, f⟩ := p
    cases rest with
    | nil =>
      cases q with
      | false =>
        have hu := hunq (false, f) (by simp) rfl
        have htr : trim (f ++ tail) = f := hlast f (by simp)
        have hdn : delim ∉ f ++ tail := by
          rcases htl with rfl | ⟨rfl, hn⟩
          · simpa using hu.1
          · simp only [List.mem_append, List.mem_singleton, not_or]
            exact ⟨hu.1, hn⟩
        have hfq := firstNotQuote_unq f tail hu.2 (by rcases htl with h | h; exact .inl h; exact .inr h.1)
        simp only [renderRow, renderField, Bool.false_eq_true, if_false]
        rw [parseField_unq_last delim trim k (f ++ tail) rb idxs hfq hdn (by rw [htr]; exact hu.2), htr]
        simp [idxsOf]
      | true =>
        have e : renderRow delim [(true, f)] ++ tail = cQuote :: (escQ f ++ cQuote :: tail) := by
          simp [renderRow, renderField]
        rw [e]
        rcases htl with rfl | ⟨rfl, hn⟩
        · rw [parseField_q_done delim trim k _ rb (rb ++ f) idxs (quoted_esc_end delim f _ rb (by simp))]
          simp [idxsOf]
        · rw [parseField_q_done delim trim k _ rb (rb ++ f) idxs (quoted_esc_nl delim hn f _ rb (by simp))]
          simp [idxsOf]
    | cons p' rest' =>
      have ih' := fun k' (hk : (renderRow delim (p' :: rest') ++ tail).length + 2 ≤ k') rb' idxs' =>
        ih (by simp) (fun p hp => hunq p (by simp [hp])) (fun f hf => hlast f (by simpa using hf))
          k' rb' idxs' hk
      cases q with
      | false =>
        have hu := hunq (false, f) (by simp) rfl
        have e : renderRow delim ((false, f) :: p' :: rest') ++ tail
            = f ++ delim :: (renderRow delim (p' :: rest') ++ tail) := by
          simp [renderRow, renderField]
        rw [e] at hfuel ⊢
        rw [parseField_unq_mid delim trim hd k f _ rb idxs hu.1 hu.2,
          ih' k (by simp only [List.length_append, List.length_cons] at hfuel ⊢; omega)]
        simp [idxsOf, List.length_append]
      | true =>
        have e : renderRow delim ((true, f) :: p' :: rest') ++ tail
            = cQuote :: (escQ f ++ cQuote :: delim :: (renderRow delim (p' :: rest') ++ tail)) := by
          simp [renderRow, renderField]
        rw [e] at hfuel ⊢
        rw [parseField_q_cont delim trim k _ rb _ (rb ++ f) idxs
            (quoted_esc_delim delim hd f _ _ rb (by simp)),
          ih' k (by simp only [List.length_append, List.length_cons] at hfuel ⊢; omega)]
        simp [idxsOf, List.length_append]


theorem cutFields_render : ∀ (fs : List Bytes) (p : Bytes),
    cutFields (p ++ fs.flatten) (idxsOf p.length fs) p.length = .ok fs
  | [], _ => rfl
  | f :: fs, p => by
    simp only [idxsOf, cutFields]
    rw [slice?_ok _ _ _ (by simp; omega), ok_bind]
    have e1 : List.take (((p.length + f.length : Nat) : Int).toNat - ((p.length : Nat) : Int).toNat)
        (List.drop ((p.length : Nat) : Int).toNat (p ++ (f :: fs).flatten)) = f := by
      have : ((p.length + f.length : Nat) : Int).toNat - ((p.length : Nat) : Int).toNat = f.length := by
        omega
      rw [this]
      simp
    rw [e1]
    have e2 : p ++ (f :: fs).flatten = (p ++ f) ++ fs.flatten := by simp
    have e3 : p.length + f.length = (p ++ f).length := by simp
    rw [e2, e3, cutFields_render fs (p ++ f)]
    rfl

/-- core of the fidelity theorems: `tail` is the optional final "\n" -/
theorem decode_render (delim : UInt8) (trim : Bytes → Bytes) (hd : delim ≠ cQuote)
    (tail : Bytes) (htl : tail = [] ∨ (tail = [NL] ∧ delim ≠ NL))
    (fs : List (Bool × Bytes)) (hne : fs ≠ [])
    (hunq : ∀ p ∈ fs, p.1 = false → delim ∉ p.2 ∧ cQuote ∉ p.2)
    (hlast : ∀ f, fs.getLast? = some (false, f) → trim (f ++ tail) = f)
    (hbuf : renderRow delim fs ++ tail ≠ [])
    (hcrlf : isCRLF (renderRow delim fs ++ tail) = false) :
    decode delim trim (renderRow delim fs ++ tail) =
      .ok (some (fs.map (·.2)), renderRow delim fs ++ tail) := by
  rw [decode_eq _ _ _ hbuf]
  simp only [dataOf, fixBuf, hcrlf, Bool.false_eq_true, if_false]
  rw [parseField_render delim trim hd tail htl fs hne hunq hlast _ [] [] (Nat.le_refl _), ok_bind]
  simp only [finish, List.nil_append, List.length_nil]
  have := cutFields_render (fs.map (·.2)) []
  simp only [List.nil_append, List.length_nil] at this
  rw [show (((0 : Nat) : Int)) = 0 from rfl] at this
  rw [this, ok_bind]
  rfl


/-! the "\r\n" rewrite does not fire on rendered rows -/

theorem isCRLF_true (b : Bytes) (h : isCRLF b = true) : ∃ a, b = a ++ [CR, NL] := by
  simp only [isCRLF, Bool.and_eq_true, decide_eq_true_eq, beq_iff_eq] at h
  exact ⟨b.take (b.length - 2), by rw [← h.2, List.take_append_drop]⟩

theorem mem_of_getLast? {α} {l : List α} {a : α} (h : l.getLast? = some a) : a ∈ l := by
  obtain ⟨ys, rfl⟩ := List.getLast?_eq_some_iff.mp h
  simp

theorem renderField_last (q : Bool) (f : Bytes) (c : UInt8)
    (h : (renderField q f).getLast? = some c) : (q = true ∧ c = cQuote) ∨ (q = false ∧ c ∈ f) := by
  cases q with
  | false => exact .inr ⟨rfl, mem_of_getLast? (by simpa [renderField] using h)⟩
  | true =>
    left
    simp only [renderField, if_true, List.getLast?_concat] at h
    cases h; exact ⟨rfl, rfl⟩

/-- the last byte of a rendered row is a closing quote, a delimiter, or a byte of an unquoted field -/
theorem renderRow_last (delim : UInt8) : ∀ (fs : List (Bool × Bytes)) (c : UInt8),
    (renderRow delim fs).getLast? = some c →
      c = cQuote ∨ c = delim ∨ ∃ p ∈ fs, p.1 = false ∧ c ∈ p.2 := by
  intro fs
  induction fs with
  | nil => intro c h; simp [renderRow] at h
  | cons p rest ih =>
    intro c h
    cases rest with
    | nil =>
      rcases renderField_last p.1 p.2 c (by simpa [renderRow] using h) with ⟨_, hc⟩ | ⟨hq, hc⟩
      · exact .inl hc
      · exact .inr (.inr ⟨p, by simp, hq, hc⟩)
    | cons p' rest' =>
      simp only [renderRow, List.getLast?_append] at h
      cases hl : (renderRow delim (p' :: rest')).getLast? with
      | none =>
        rw [hl] at h
        simp at h
        exact .inr (.inl h.symm)
      | some c' =>
        rw [hl] at h
        simp at h
        subst h
        rcases ih c' hl with h1 | h1 | ⟨p0, hp0, h1⟩
        · exact .inl h1
        · exact .inr (.inl h1)
        · exact .inr (.inr ⟨p0, by simp [List.mem_cons] at hp0 ⊢; exact .inr hp0, h1⟩)

/-- FIDELITY. A row of fields — unquoted ones free of the delimiter, `"`, CR and NL; quoted ones
    arbitrary bytes with `"` doubled — joined by the delimiter decodes to exactly those fields, and
    the caller's buffer is untouched. `trim` (= `bytes.TrimSpace`) is only asked to leave the last
    unquoted field alone. The rendered line must be non-empty (an empty line decodes to zero fields,
    not to one empty field). -/
theorem decode_fields (delim : UInt8) (trim : Bytes → Bytes) (fs : List (Bool × Bytes))
    (hd : delim ≠ cQuote) (hn : delim ≠ NL)
    (hrow : renderRow delim fs ≠ [])
    (hunq : ∀ p ∈ fs, p.1 = false → delim ∉ p.2 ∧ cQuote ∉ p.2 ∧ CR ∉ p.2 ∧ NL ∉ p.2)
    (htrim : ∀ f, fs.getLast? = some (false, f) → trim f = f) :
    decode delim trim (renderRow delim fs) = .ok (some (fs.map (·.2)), renderRow delim fs) := by
  have hne : fs ≠ [] := by intro h; subst h; exact hrow rfl
  have key := decode_render delim trim hd [] (.inl rfl) fs hne
    (fun p hp hq => ⟨(hunq p hp hq).1, (hunq p hp hq).2.1⟩)
    (fun f hf => by simpa using htrim f hf)
  simp only [List.append_nil] at key
  apply key hrow
  cases hc : isCRLF (renderRow delim fs) with
  | false => rfl
  | true =>
    exfalso
    obtain ⟨a, ha⟩ := isCRLF_true _ hc
    have hl : (renderRow delim fs).getLast? = some NL := by
      rw [ha, show a ++ [CR, NL] = (a ++ [CR]) ++ [NL] by simp, List.getLast?_concat]
    rcases renderRow_last delim fs NL hl with h | h | ⟨p, hp, hq, hm⟩
    · exact absurd h (by decide)
    · exact hn h.symm
    · exact (hunq p hp hq).2.2.2 hm

/-- the same line followed by "\n" (`"\n` after a last quoted field is accepted, `TrimSpace` removes it
    after a last unquoted field). `delim ≠ CR` keeps a trailing empty field from forming "\r\n". -/
theorem decode_fields_nl (delim : UInt8) (trim : Bytes → Bytes) (fs : List (Bool × Bytes))
    (hd : delim ≠ cQuote) (hn : delim ≠ NL) (hr : delim ≠ CR)
    (hne : fs ≠ [])
    (hunq : ∀ p ∈ fs, p.1 = false → delim ∉ p.2 ∧ cQuote ∉ p.2 ∧ CR ∉ p.2 ∧ NL ∉ p.2)
    (htrim : ∀ f, fs.getLast? = some (false, f) → trim (f ++ [NL]) = f) :
    decode delim trim (renderRow delim fs ++ [NL]) =
      .ok (some (fs.map (·.2)), renderRow delim fs ++ [NL]) := by
  apply decode_render delim trim hd [NL] (.inr ⟨rfl, hn⟩) fs hne
    (fun p hp hq => ⟨(hunq p hp hq).1, (hunq p hp hq).2.1⟩) htrim (by simp)
  cases hc : isCRLF (renderRow delim fs ++ [NL]) with
  | false => rfl
  | true =>
    exfalso
    obtain ⟨a, ha⟩ := isCRLF_true _ hc
    have hl : (renderRow delim fs).getLast? = some CR := by
      rw [show a ++ [CR, NL] = (a ++ [CR]) ++ [NL] by simp] at ha
      rw [(List.append_inj' ha rfl).1, List.getLast?_concat]
    rcases renderRow_last delim fs CR hl with h | h | ⟨p, hp, hq, hm⟩
    · exact absurd h (by decide)
    · exact hr h.symm
    · exact (hunq p hp hq).2.2.1 hm


/-! non-vacuity: concrete rows (`"a"",\n",,c` and the same with a final "\n"; a row ending in a quoted
    field) satisfy the hypotheses, and the model really computes the claimed results -/

example : renderRow 44 [(true, [97, 34, 44, 10]), (false, []), (false, [99])] =
    [34, 97, 34, 34, 44, 10, 34, 44, 44, 99] := by rfl

example : decode 44 id [34, 97, 34, 34, 44, 10, 34, 44, 44, 99] =
    .ok (some [[97, 34, 44, 10], [], [99]], [34, 97, 34, 34, 44, 10, 34, 44, 44, 99]) := by rfl

example : decode 44 id (renderRow 44 [(true, [97, 34, 44, 10]), (false, []), (false, [99])]) =
    .ok (some [[97, 34, 44, 10], [], [99]],
      renderRow 44 [(true, [97, 34, 44, 10]), (false, []), (false, [99])]) :=
  decode_fields 44 id _ (by decide) (by decide) (by decide) (by decide) (fun _ _ => rfl)

example : decode 44 trimSuffixNL (renderRow 44 [(true, [97, 34, 44, 10]), (false, []), (false, [99])] ++ [NL]) =
    .ok (some [[97, 34, 44, 10], [], [99]],
      renderRow 44 [(true, [97, 34, 44, 10]), (false, []), (false, [99])] ++ [NL]) :=
  decode_fields_nl 44 trimSuffixNL _ (by decide) (by decide) (by decide) (by decide) (by decide)
    (by intro f h; simp at h; subst h; rfl)

example : decode 59 id (renderRow 59 [(false, [120]), (true, [13, 10, 34])] ++ [NL]) =
    .ok (some [[120], [13, 10, 34]], [120, 59, 34, 13, 10, 34, 34, 34, 10]) :=
  decode_fields_nl 59 id _ (by decide) (by decide) (by decide) (by decide) (by decide)
    (by intro f h; simp at h)

/-- the hypothesis `renderRow delim fs ≠ []` of `decode_fields` cannot be dropped: one empty unquoted
    field renders as the empty line, which decodes to zero fields -/
example : decode 44 id (renderRow 44 [(false, [])]) = .ok (some [], []) := by rfl

/-- nor can `delim ≠ CR` in `decode_fields_nl`: with delimiter CR the line "a\r" ++ "\n" is rewritten -/
example : decode 13 trimSuffixNL (renderRow 13 [(false, [97]), (false, [])] ++ [NL]) =
    .ok (some [[97]], [97, 10, 10]) := by rfl

end FileD.Dec.CSV
