/-
  C12, `json_max_fields_size` cutting (`cutFieldsBySize` / `jsonRawCutPoint`, decoder/json.go):
  A. totality  — no index / slice panic under what gjson guarantees about a reported string
                 (`ProbeOk`), for any number of configured paths, overlapping or not
                 (`cutFields_total`; `cutFields_total_single` is the "fast way");
  B. validity  — with one configured path the cut keeps a prefix of the literal that is still a
                 string literal for the reference parser (no escape sequence is split) and touches
                 no other byte of the document (`cutFields_valid`).
-/
import FileD.Lemmas.Dec.Index
import FileD.Model.Dec.JsonCut
import FileD.Model.Dec.Json
namespace FileD.Dec.JsonCut
open FileD GoSlice FileD.Dec

/-! ## A. totality -/

/-- what gjson guarantees for a reported string: the literal lies inside the document and
    unescaping never lengthens it -/
def ProbeOk (data : Bytes) (p : Probe) : Prop :=
  p.found = true → 0 ≤ p.index ∧ 2 ≤ p.rawLen ∧ p.index + p.rawLen ≤ data.length ∧ p.strLen ≤ p.rawLen - 2

/-- A1. `jsonRawCutPoint`'s loop never reads outside `raw`, only moves forward and stops at
    `limit + 1` at the latest. (`0 < f` is needed besides `len(raw) - i < f`: with `i > len(raw)`
    the model still spends one unit of fuel to return `i`.) -/
theorem cutPointLoop_spec (raw : Bytes) (limit : Int) :
    ∀ (f : Nat) (i : Int), 1 ≤ i → 0 < f → (raw.length : Int) - i < f →
      ∃ r, cutPointLoop raw limit f i = .ok r ∧ i ≤ r ∧ r ≤ max i (limit + 1) := by
  intro f
  induction f with
  | zero => intro i h1 h0 hf; omega
  | succ f ih =>
    intro i h1 _ hf
    unfold cutPointLoop
    by_cases hlt : i < (raw.length : Int) - 1
    · rw [if_pos hlt]
      obtain ⟨c, hc, _⟩ := idx?_ok raw i (by omega)
      rw [hc, ok_bind]
      -- the step width
      have hn : ∃ n : Int, (if c = cBackslash then do
                 let isU ← (if i + 1 < raw.length then do
                              let d ← idx? raw (i + 1)
                              pure (d == 117)
                            else pure false)
                 pure (if isU then (6 : Int) else 2)
               else pure (1 : Int) : GoM Int) = .ok n ∧ 1 ≤ n := by
        by_cases hb : c = cBackslash
        · rw [if_pos hb]
          have h2 : i + 1 < (raw.length : Int) := by omega
          rw [if_pos h2]
          obtain ⟨d, hd, _⟩ := idx?_ok raw (i + 1) (by omega)
          rw [hd, ok_bind]
          simp only [pure_eq_ok, ok_bind]
          by_cases hu : (d == 117) = true
          · rw [if_pos hu]; exact ⟨6, rfl, by omega⟩
          · rw [if_neg hu]; exact ⟨2, rfl, by omega⟩
        · rw [if_neg hb]; exact ⟨1, rfl, by omega⟩
      obtain ⟨n, hn, hn1⟩ := hn
      rw [hn, ok_bind]
      by_cases hbrk : i - 1 + n > limit
      · rw [if_pos hbrk]
        exact ⟨i, rfl, by omega, by omega⟩
      · rw [if_neg hbrk]
        obtain ⟨r, hr, hlo, hhi⟩ := ih (i + n) (by omega) (by omega) (by omega)
        exact ⟨r, hr, by omega, by omega⟩
    · rw [if_neg hlt]
      exact ⟨i, rfl, by omega, by omega⟩

theorem cutPoint_spec (raw : Bytes) (limit : Int) :
    ∃ r, cutPoint raw limit = .ok r ∧ 1 ≤ r ∧ r ≤ max 1 (limit + 1) := by
  unfold cutPoint
  exact cutPointLoop_spec raw limit (raw.length + 1) 1 (by omega) (by omega) (by omega)

/-- A2. `findPos` does not panic and a reported cut lies inside the literal, after the opening
    quote and up to (excluding) the closing one -/
theorem findPos_spec (data : Bytes) (p : Probe) (h : ProbeOk data p) :
    ∃ r, findPos data p = .ok r ∧
      ∀ s e, r = some (s, e) →
        e = p.index + p.rawLen - 2 ∧ p.index + 1 ≤ s ∧ s ≤ e + 1 ∧ e + 1 ≤ data.length := by
  unfold findPos
  by_cases hc : (!p.found || decide (p.strLen ≤ p.limit)) = true
  · rw [if_pos hc]
    exact ⟨none, rfl, by intro _ _ h; cases h⟩
  · rw [if_neg hc]
    simp only [Bool.or_eq_true, Bool.not_eq_eq_eq_not, Bool.not_true, decide_eq_true_eq, not_or,
      Bool.not_eq_false, Int.not_le] at hc
    obtain ⟨hf, hl⟩ := hc
    obtain ⟨h0, h2, hlen, hs⟩ := h hf
    by_cases hz : p.index = 0
    · rw [if_pos hz]
      exact ⟨none, rfl, by intro _ _ h; cases h⟩
    · rw [if_neg hz, slice?_ok _ _ _ (by omega), ok_bind]
      obtain ⟨r, hr, hr1, hr2⟩ := cutPoint_spec
        (List.take ((p.index + p.rawLen).toNat - p.index.toNat) (List.drop p.index.toNat data)) p.limit
      rw [hr, ok_bind]
      refine ⟨_, rfl, ?_⟩
      intro s e hse
      simp only [Option.some.injEq, Prod.mk.injEq] at hse
      obtain ⟨rfl, rfl⟩ := hse
      omega

theorem applyCut_ok (data : Bytes) (s e : Int) (h : 0 ≤ s ∧ s ≤ e + 1 ∧ e + 1 ≤ data.length) :
    applyCut data (s, e) = .ok (data.take s.toNat ++ data.drop (e + 1).toNat) := by
  unfold applyCut
  simp only []
  rw [sliceTo?_ok _ _ (by omega), ok_bind, sliceFrom?_ok _ _ (by omega), ok_bind]
  rfl

theorem cutFields_invalid (ps : List Probe) (data : Bytes) : cutFields false ps data = .ok data := by
  unfold cutFields
  simp

/-- one configured path (the "fast way"): `cutFields` is `findPos` followed by at most one cut -/
theorem cutFields_single (p : Probe) (data : Bytes) :
    cutFields true [p] data
      = (findPos data p >>= fun r => match r with
          | some x => applyCut data x
          | none => .ok data) := by
  unfold cutFields
  simp only [List.length_cons, List.length_nil, Nat.zero_add, Nat.succ_ne_self, decide_false,
    Bool.not_true, Bool.or_self, Bool.false_eq_true, ↓reduceIte, collect, pure_eq_ok]
  cases findPos data p with
  | error e => rfl
  | ok r =>
    cases r with
    | none => rfl
    | some x => rfl

/-- A3. one configured path: no panic -/
theorem cutFields_total_single (valid : Bool) (p : Probe) (data : Bytes) (h : ProbeOk data p) :
    Total (cutFields valid [p] data) := by
  cases valid with
  | false => rw [cutFields_invalid]; simp
  | true =>
    rw [cutFields_single]
    obtain ⟨r, hr, hspec⟩ := findPos_spec data p h
    rw [hr, ok_bind]
    cases r with
    | none => simp
    | some x =>
      obtain ⟨s, e⟩ := x
      obtain ⟨he, hs1, hs2, hlen⟩ := hspec s e rfl
      have h0 : 0 ≤ p.index := by
        by_cases hf : p.found = true
        · exact (h hf).1
        · -- `findPos` reports nothing for a probe that was not found
          unfold findPos at hr
          simp only [Bool.not_eq_true] at hf
          simp [hf] at hr
      simp only []
      rw [applyCut_ok _ _ _ (by omega)]
      simp

/-- the historical failing input `{"a":"x\"\"\"\""}` with `a` limited to 2 bytes -/
def exDoc : Bytes := [123, 34, 97, 34, 58, 34, 120, 92, 34, 92, 34, 92, 34, 92, 34, 34, 125]
def exProbe : Probe := ⟨2, true, 5, 5, 11⟩

#guard exDoc == str "{\"a\":\"x\\\"\\\"\\\"\\\"\"}"   -- evaluated, documents the spelling only

example : ProbeOk exDoc exProbe := by intro _; decide
example : Total (cutFields true [exProbe] exDoc) := cutFields_total_single _ _ _ (by intro _; decide)

/-! ## B. validity -/

/-- one lexical unit of a string body: a plain byte, a two-byte escape or `\uXXXX` -/
inductive Tok : Bytes → Prop
  | plain (c : UInt8) : c ≠ cQuote → c ≠ cBackslash → ¬ c < 32 → Tok [c]
  | esc (d : UInt8) : d ≠ 117 → Json.isEscChar d = true → Tok [cBackslash, d]
  | uni (h1 h2 h3 h4 : UInt8) :
      ((Json.hexVal? h1).isSome && (Json.hexVal? h2).isSome && (Json.hexVal? h3).isSome
        && (Json.hexVal? h4).isSome) = true → Tok [cBackslash, 117, h1, h2, h3, h4]

/-- a sequence of complete units -/
inductive Toks : Bytes → Prop
  | nil : Toks []
  | cons {t b : Bytes} : Tok t → Toks b → Toks (t ++ b)

theorem Tok.length_pos {t : Bytes} (h : Tok t) : 1 ≤ t.length := by
  cases h <;> simp

/-- the reference scanner consumes one unit whatever follows -/
theorem Tok.strBody {t : Bytes} (h : Tok t) (X acc : Bytes) :
    Json.strBody (t ++ X) acc = Json.strBody X (acc ++ t) := by
  cases h with
  | plain c h1 h2 h3 =>
    rw [List.singleton_append, Json.strBody.eq_def]
    simp only [if_neg h1, if_neg h2, if_neg h3]
  | esc d h1 h2 =>
    show Json.strBody (cBackslash :: d :: X) acc = _
    rw [Json.strBody.eq_def]
    have : ¬ cBackslash = cQuote := by decide
    simp only [if_neg this, if_neg h1, if_pos h2, ↓reduceIte]
  | uni h1 h2 h3 h4 hh =>
    show Json.strBody (cBackslash :: 117 :: h1 :: h2 :: h3 :: h4 :: X) acc = _
    rw [Json.strBody.eq_def]
    have : ¬ cBackslash = cQuote := by decide
    simp only [if_neg this, if_pos hh, ↓reduceIte]

/-- a sequence of units followed by a quote is a literal body -/
theorem Toks.strBody {b : Bytes} (h : Toks b) :
    ∀ (post acc : Bytes), Json.strBody (b ++ cQuote :: post) acc = some (acc ++ b, post) := by
  induction h with
  | nil => intro post acc; rw [Json.strBody.eq_def]; simp
  | cons ht _ ih =>
    intro post acc
    rw [List.append_assoc, ht.strBody, ih, List.append_assoc]

/-- whatever the reference scanner accepts is a sequence of units up to the closing quote -/
theorem strBody_toks (s acc r rest : Bytes) (h : Json.strBody s acc = some (r, rest)) :
    ∃ t, Toks t ∧ r = acc ++ t ∧ s = t ++ cQuote :: rest := by
  fun_induction Json.strBody s acc with
  | case1 => cases h
  | case2 cs acc =>
    simp only [Option.some.injEq, Prod.mk.injEq] at h
    obtain ⟨rfl, rfl⟩ := h
    exact ⟨[], .nil, by simp, by simp⟩
  | case3 => cases h
  | case4 acc h1 h2 h3 h4 rest' hh _ ih =>
    obtain ⟨t, ht, hr, hs⟩ := ih h
    refine ⟨[cBackslash, 117, h1, h2, h3, h4] ++ t, .cons (.uni h1 h2 h3 h4 hh) ht, ?_, ?_⟩
    · rw [hr, List.append_assoc]
    · rw [hs]; rfl
  | case5 => cases h
  | case6 => cases h
  | case7 acc d cs' hd he _ ih =>
    obtain ⟨t, ht, hr, hs⟩ := ih h
    refine ⟨[cBackslash, d] ++ t, .cons (.esc d hd he) ht, ?_, ?_⟩
    · rw [hr, List.append_assoc]
    · rw [hs]; rfl
  | case8 => cases h
  | case9 => cases h
  | case10 c cs acc h1 h2 h3 ih =>
    obtain ⟨t, ht, hr, hs⟩ := ih h
    refine ⟨[c] ++ t, .cons (.plain c h1 h2 h3) ht, ?_, ?_⟩
    · rw [hr, List.append_assoc]
    · rw [hs]; rfl

/-- `"body"` is a string literal for the reference parser iff `body` is a sequence of units -/
theorem toks_of_lit (body post : Bytes) (h : Json.strBody (body ++ cQuote :: post) [] = some (body, post)) :
    Toks body := by
  obtain ⟨t, ht, hr, _⟩ := strBody_toks _ _ _ _ h
  rw [List.nil_append] at hr
  rw [hr]; exact ht

/-! ### the cut-point loop walks over whole units -/

theorem idx?_append_right {α} (a b : List α) (j : Nat) :
    idx? (a ++ b) ((a.length : Int) + j) = idx? b j := by
  unfold idx?
  have h1 : ¬ ((a.length : Int) + j < 0) := by omega
  have h2 : ¬ ((j : Int) < 0) := by omega
  rw [if_neg h1, if_neg h2]
  have e1 : ((a.length : Int) + j).toNat = a.length + j := by omega
  have e2 : (j : Int).toNat = j := by omega
  rw [e1, e2, List.getElem?_append_right (by omega)]
  simp

theorem idx?_append_head {α} (a : List α) (c : α) (b : List α) :
    idx? (a ++ c :: b) (a.length : Int) = .ok c := by
  have := idx?_append_right a (c :: b) 0
  simp only [Int.natCast_zero, Int.add_zero] at this
  rw [this]; rfl

theorem idx?_append_second {α} (a : List α) (c d : α) (b : List α) :
    idx? (a ++ c :: d :: b) ((a.length : Int) + 1) = .ok d := by
  have := idx?_append_right a (c :: d :: b) 1
  simp only [Int.natCast_one] at this
  rw [this]; rfl

/-- one iteration on a unit `t` that is not the end of `raw`: step over it unless it does not fit -/
theorem loop_step (done t more : Bytes) (limit : Int) (f : Nat) (ht : Tok t) (hm : more ≠ []) :
    cutPointLoop (done ++ (t ++ more)) limit (f + 1) done.length =
      if (done.length : Int) - 1 + t.length > limit then .ok (done.length : Int)
      else cutPointLoop (done ++ (t ++ more)) limit f ((done.length : Int) + t.length) := by
  have hmore : 1 ≤ more.length := List.length_pos_iff.mpr hm
  have hlt : (done.length : Int) < ((done ++ (t ++ more)).length : Int) - 1 := by
    have := ht.length_pos
    simp only [List.length_append]
    omega
  rw [cutPointLoop, if_pos hlt]
  cases ht with
  | plain c h1 h2 h3 =>
    rw [List.singleton_append, idx?_append_head, ok_bind, if_neg h2]
    rfl
  | esc d h1 h2 =>
    simp only [List.cons_append, List.nil_append]
    rw [idx?_append_head, ok_bind, if_pos rfl]
    have h2' : (done.length : Int) + 1 < ((done ++ cBackslash :: d :: more).length : Nat) := by
      simp only [List.length_append, List.length_cons]; omega
    rw [if_pos h2', idx?_append_second, ok_bind]
    have hu : (d == 117) = false := by simpa using h1
    simp only [pure_eq_ok, ok_bind, hu]
    rfl
  | uni h1 h2 h3 h4 hh =>
    simp only [List.cons_append, List.nil_append]
    rw [idx?_append_head, ok_bind, if_pos rfl]
    have h2' : (done.length : Int) + 1 < ((done ++ cBackslash :: 117 :: (h1 :: h2 :: h3 :: h4 :: more)).length : Nat) := by
      simp only [List.length_append, List.length_cons]; omega
    rw [if_pos h2', idx?_append_second, ok_bind]
    simp only [pure_eq_ok, ok_bind]
    rfl

/-- the loop started at the beginning of a sequence of units stops at the end of one of them -/
theorem loop_toks (limit : Int) {rest : Bytes} (hrest : Toks rest) :
    ∀ (done : Bytes) (f : Nat), rest.length < f →
      ∃ kept tail, rest = kept ++ tail ∧ Toks kept ∧
        cutPointLoop (done ++ (rest ++ [cQuote])) limit f done.length
          = .ok ((done.length : Int) + kept.length) := by
  induction hrest with
  | nil =>
    intro done f hf
    obtain ⟨f, rfl⟩ : ∃ f', f = f' + 1 := ⟨f - 1, by omega⟩
    refine ⟨[], [], rfl, .nil, ?_⟩
    have hge : ¬ ((done.length : Int) < ((done ++ ([] ++ [cQuote])).length : Int) - 1) := by
      simp only [List.length_append, List.length_cons, List.length_nil]; omega
    rw [cutPointLoop, if_neg hge]
    simp
  | @cons t b ht hb ih =>
    intro done f hf
    obtain ⟨f, rfl⟩ : ∃ f', f = f' + 1 := ⟨f - 1, by omega⟩
    have hpos := ht.length_pos
    rw [List.append_assoc, loop_step done t (b ++ [cQuote]) limit f ht (by simp)]
    by_cases hbrk : (done.length : Int) - 1 + t.length > limit
    · rw [if_pos hbrk]
      exact ⟨[], t ++ b, rfl, .nil, by simp⟩
    · rw [if_neg hbrk]
      obtain ⟨kept, tail, hk, htk, hloop⟩ := ih (done ++ t) f (by simp only [List.length_append] at hf; omega)
      refine ⟨t ++ kept, tail, by rw [hk, List.append_assoc], .cons ht htk, ?_⟩
      rw [List.append_assoc] at hloop
      have e : ((done ++ t).length : Int) = (done.length : Int) + t.length := by simp
      rw [e] at hloop
      rw [hloop, List.length_append]
      congr 1
      omega

/-! ### `jsoncut_valid` -/

theorem slice_lit (pre body post : Bytes) :
    slice? (pre ++ cQuote :: (body ++ cQuote :: post)) (pre.length : Int) ((pre.length : Int) + ((body.length : Int) + 2))
      = .ok ([cQuote] ++ (body ++ [cQuote])) := by
  rw [slice?_ok _ _ _ (by simp only [List.length_append, List.length_cons]; omega)]
  have e1 : ((pre.length : Int) + ((body.length : Int) + 2)).toNat - (pre.length : Int).toNat
      = ([cQuote] ++ (body ++ [cQuote])).length := by
    simp only [List.length_append, List.length_cons, List.length_nil]; omega
  have e2 : (pre.length : Int).toNat = pre.length := by omega
  have e3 : pre ++ cQuote :: (body ++ cQuote :: post) = pre ++ (([cQuote] ++ (body ++ [cQuote])) ++ post) := by simp
  rw [e1, e2, e3, List.drop_left, List.take_left]

theorem cut_lit (pre kept tail post : Bytes) :
    applyCut (pre ++ cQuote :: ((kept ++ tail) ++ cQuote :: post))
        ((pre.length : Int) + (1 + kept.length), (pre.length : Int) + (((kept ++ tail).length : Int) + 2) - 2)
      = .ok (pre ++ cQuote :: (kept ++ cQuote :: post)) := by
  rw [applyCut_ok _ _ _ (by simp only [List.length_append, List.length_cons]; omega)]
  have e1 : ((pre.length : Int) + (1 + kept.length)).toNat = (pre ++ cQuote :: kept).length := by
    simp only [List.length_append, List.length_cons]; omega
  have e2 : ((pre.length : Int) + (((kept ++ tail).length : Int) + 2) - 2 + 1).toNat
      = (pre ++ cQuote :: (kept ++ tail)).length := by
    simp only [List.length_append, List.length_cons]; omega
  have d1 : pre ++ cQuote :: ((kept ++ tail) ++ cQuote :: post) = (pre ++ cQuote :: kept) ++ (tail ++ cQuote :: post) := by simp
  have d2 : pre ++ cQuote :: ((kept ++ tail) ++ cQuote :: post) = (pre ++ cQuote :: (kept ++ tail)) ++ (cQuote :: post) := by simp
  rw [e1, e2]
  conv => lhs; arg 1; arg 1; rw [d1, List.take_left]
  rw [d2, List.drop_left]
  simp

/-- **jsoncut_valid**, one configured path pointing at the string literal `"body"` of the
    document `pre "body" post`: the result is `pre "body'" post` where `body'` is a prefix of
    `body` that is still a literal body (no escape sequence split, so the document stays as
    well-formed as it was); nothing outside the literal is touched; a value within the limit is
    left alone, a cut one keeps at most `limit` bytes. `hlit` says `"body"` is a literal for the
    reference parser (`Json.strBody` at the empty accumulator); `hpre`: the value is not at
    offset 0, which the code takes for "position unknown" (`cutFields_index_zero`). -/
theorem cutFields_valid (pre body post : Bytes) (p : Probe)
    (hlit : Json.strBody (body ++ cQuote :: post) [] = some (body, post))
    (hpre : pre ≠ []) (hidx : p.index = pre.length) (hraw : p.rawLen = body.length + 2)
    (hfound : p.found = true) (hstr : p.strLen ≤ body.length) :
    ∃ body', cutFields true [p] (pre ++ cQuote :: (body ++ cQuote :: post))
          = .ok (pre ++ cQuote :: (body' ++ cQuote :: post))
      ∧ (∃ tail, body = body' ++ tail)
      ∧ (∀ acc, Json.strBody (body' ++ cQuote :: post) acc = some (acc ++ body', post))
      ∧ (p.strLen ≤ p.limit → body' = body)
      ∧ (p.limit < p.strLen → (body'.length : Int) ≤ max 0 p.limit) := by
  have _ := hstr
  have htoks := toks_of_lit body post hlit
  rw [cutFields_single]
  unfold findPos
  by_cases hc : p.strLen ≤ p.limit
  · have hcond : (!p.found || decide (p.strLen ≤ p.limit)) = true := by simp [hc]
    rw [if_pos hcond]
    exact ⟨body, rfl, ⟨[], by simp⟩, fun acc => htoks.strBody post acc, fun _ => rfl, fun h => by omega⟩
  · have hcond : ¬ (!p.found || decide (p.strLen ≤ p.limit)) = true := by simp [hc, hfound]
    have hz : ¬ p.index = 0 := by
      have := List.length_pos_iff.mpr hpre
      omega
    rw [if_neg hcond, if_neg hz, hidx, hraw, slice_lit, ok_bind]
    unfold cutPoint
    obtain ⟨kept, tail, hsplit, hkept, hloop⟩ :=
      loop_toks p.limit htoks [cQuote] (([cQuote] ++ (body ++ [cQuote])).length + 1)
        (by simp only [List.length_append, List.length_cons, List.length_nil]; omega)
    obtain ⟨r, hr, _, hr2⟩ := cutPointLoop_spec ([cQuote] ++ (body ++ [cQuote])) p.limit
      (([cQuote] ++ (body ++ [cQuote])).length + 1) 1 (by omega) (by omega) (by omega)
    have hone : (([cQuote] : Bytes).length : Int) = 1 := rfl
    rw [hone] at hloop
    have hrk : r = 1 + (kept.length : Int) := by
      rw [hloop] at hr; injection hr with hr; exact hr.symm
    rw [hloop, ok_bind]
    simp only [pure_eq_ok, ok_bind]
    refine ⟨kept, ?_, ⟨tail, hsplit⟩, fun acc => hkept.strBody post acc, fun h => absurd h hc, fun _ => by omega⟩
    subst hsplit
    exact cut_lit pre kept tail post

/-- the statement with the literal hypothesis at every accumulator -/
theorem cutFields_valid' (pre body post : Bytes) (p : Probe)
    (hlit : ∀ acc, Json.strBody (body ++ cQuote :: post) acc = some (acc ++ body, post))
    (hpre : pre ≠ []) (hidx : p.index = pre.length) (hraw : p.rawLen = body.length + 2)
    (hfound : p.found = true) (hstr : p.strLen ≤ body.length) :
    ∃ body', cutFields true [p] (pre ++ cQuote :: (body ++ cQuote :: post))
          = .ok (pre ++ cQuote :: (body' ++ cQuote :: post))
      ∧ (∃ tail, body = body' ++ tail)
      ∧ (∀ acc, Json.strBody (body' ++ cQuote :: post) acc = some (acc ++ body', post))
      ∧ (p.strLen ≤ p.limit → body' = body)
      ∧ (p.limit < p.strLen → (body'.length : Int) ≤ max 0 p.limit) :=
  cutFields_valid pre body post p (by simpa using hlit []) hpre hidx hraw hfound hstr

/-- the accumulator of the reference scanner is only ever extended -/
theorem strBody_acc (s a b : Bytes) :
    Json.strBody s (a ++ b) = (Json.strBody s b).map (fun x => (a ++ x.1, x.2)) := by
  fun_induction Json.strBody s b with
  | case1 => rw [Json.strBody.eq_def]; rfl
  | case2 cs acc => rw [Json.strBody.eq_def]; simp
  | case3 acc hq => rw [Json.strBody.eq_def]; simp [hq]
  | case4 acc h1 h2 h3 h4 rest hh hq ih =>
    rw [Json.strBody.eq_def]
    simp only [if_neg hq, if_pos hh, ↓reduceIte, List.append_assoc]
    rw [← ih]
  | case5 acc h1 h2 h3 h4 rest hh hq =>
    rw [Json.strBody.eq_def]
    simp only [if_neg hq, if_neg hh, ↓reduceIte, Option.map_none]
  | case6 acc cs' hcs hq =>
    rw [Json.strBody.eq_def]
    simp only [if_neg hq, ↓reduceIte]
    rfl
  | case7 acc d cs' hd he hq ih =>
    rw [Json.strBody.eq_def]
    simp only [if_neg hq, if_neg hd, if_pos he, ↓reduceIte]
    rw [← ih, List.append_assoc]
  | case8 acc d cs' hd he hq =>
    rw [Json.strBody.eq_def]
    simp only [if_neg hq, if_neg hd, if_neg he, ↓reduceIte, Option.map_none]
  | case9 c cs acc h1 h2 h3 =>
    rw [Json.strBody.eq_def]
    simp only [if_neg h1, if_neg h2, if_pos h3, Option.map_none]
  | case10 c cs acc h1 h2 h3 ih =>
    rw [Json.strBody.eq_def]
    simp only [if_neg h1, if_neg h2, if_neg h3]
    rw [← ih, List.append_assoc]

theorem strBody_acc_nil (s acc : Bytes) :
    Json.strBody s acc = (Json.strBody s []).map (fun x => (acc ++ x.1, x.2)) := by
  have := strBody_acc s acc []
  rwa [List.append_nil] at this

/-- a path that does not resolve to a string leaves the document alone -/
theorem cutFields_not_found (p : Probe) (data : Bytes) (h : p.found = false) :
    cutFields true [p] data = .ok data := by
  rw [cutFields_single]
  unfold findPos
  simp [h]

/-- a value reported at offset 0 (gjson: position unknown, e.g. a computed value) is left alone -/
theorem cutFields_index_zero (p : Probe) (data : Bytes) (h : p.index = 0) :
    cutFields true [p] data = .ok data := by
  rw [cutFields_single]
  unfold findPos
  by_cases hc : (!p.found || decide (p.strLen ≤ p.limit)) = true
  · rw [if_pos hc]; rfl
  · rw [if_neg hc, if_pos h]; rfl

/-! ### concrete instances (non-vacuity) -/

/-- the historical failing input: `{"a":"x\"\"\"\""}`, limit 2, is cut to `{"a":"x"}` — the cut
    stops in front of the escape sequence `\"` instead of splitting it -/
example : cutFields true [exProbe] exDoc = .ok [123, 34, 97, 34, 58, 34, 120, 34, 125] := rfl
#guard ([123, 34, 97, 34, 58, 34, 120, 34, 125] : Bytes) == str "{\"a\":\"x\"}"

/-- limit 3 keeps `x\"` -/
example : cutFields true [⟨3, true, 5, 5, 11⟩] exDoc = .ok [123, 34, 97, 34, 58, 34, 120, 92, 34, 34, 125] := rfl

/-- `["\u00e9z"]`: the escape is stepped over as a whole, limit 5 keeps nothing, limit 6 the escape -/
example : cutFields true [⟨5, true, 1, 7, 9⟩] [91, 34, 92, 117, 48, 48, 101, 57, 122, 34, 93]
    = .ok [91, 34, 34, 93] := rfl
example : cutFields true [⟨6, true, 1, 7, 9⟩] [91, 34, 92, 117, 48, 48, 101, 57, 122, 34, 93]
    = .ok [91, 34, 92, 117, 48, 48, 101, 57, 34, 93] := rfl

/-- the document `"\u00e9z"` itself: the value is at offset 0 and is skipped -/
example : cutFields true [⟨5, true, 0, 7, 9⟩] [34, 92, 117, 48, 48, 101, 57, 122, 34]
    = .ok [34, 92, 117, 48, 48, 101, 57, 122, 34] := rfl
example : cutFields true [⟨5, true, 0, 7, 9⟩] [34, 92, 117, 48, 48, 101, 57, 122, 34]
    = .ok [34, 92, 117, 48, 48, 101, 57, 122, 34] := cutFields_index_zero _ _ rfl

example : cutFields false [exProbe] exDoc = .ok exDoc := cutFields_invalid _ _
example : cutFields true [⟨2, false, 0, 0, 0⟩] exDoc = .ok exDoc := cutFields_not_found _ _ rfl

/-- `cutFields_valid` on the historical input: pre = `{"a":`, body = `x\"\"\"\"`, post = `}` -/
example : ∃ body', cutFields true [exProbe] exDoc = .ok ([123, 34, 97, 34, 58] ++ cQuote :: (body' ++ cQuote :: [125]))
      ∧ (∃ tail, [120, 92, 34, 92, 34, 92, 34, 92, 34] = body' ++ tail)
      ∧ (∀ acc, Json.strBody (body' ++ cQuote :: [125]) acc = some (acc ++ body', [125]))
      ∧ (exProbe.strLen ≤ exProbe.limit → body' = [120, 92, 34, 92, 34, 92, 34, 92, 34])
      ∧ (exProbe.limit < exProbe.strLen → (body'.length : Int) ≤ max 0 exProbe.limit) :=
  cutFields_valid [123, 34, 97, 34, 58] [120, 92, 34, 92, 34, 92, 34, 92, 34] [125] exProbe rfl (by simp) rfl rfl rfl (by decide)

/-! ## A4. several configured paths (overlapping or not) -/

theorem findPos_some_found (data : Bytes) (p : Probe) (x : Int × Int) (h : findPos data p = .ok (some x)) :
    p.found = true := by
  unfold findPos at h
  by_cases hc : (!p.found || decide (p.strLen ≤ p.limit)) = true
  · rw [if_pos hc] at h; cases h
  · simp only [Bool.or_eq_true, Bool.not_eq_eq_eq_not, Bool.not_true, not_or, Bool.not_eq_false] at hc
    exact hc.1

/-- every collected span lies inside the document -/
theorem collect_spec (data : Bytes) :
    ∀ (ps : List Probe), (∀ p ∈ ps, ProbeOk data p) →
      ∃ L, collect data ps = .ok L ∧
        ∀ x ∈ L, 0 ≤ x.1 ∧ x.1 ≤ x.2 + 1 ∧ x.2 + 1 ≤ data.length := by
  intro ps
  induction ps with
  | nil => intro _; exact ⟨[], rfl, by intro x hx; cases hx⟩
  | cons p ps ih =>
    intro hok
    obtain ⟨L, hL, hmem⟩ := ih (fun q hq => hok q (List.mem_cons_of_mem _ hq))
    obtain ⟨r, hr, hspec⟩ := findPos_spec data p (hok p (List.mem_cons_self ..))
    unfold collect
    rw [hr, ok_bind, hL, ok_bind]
    cases r with
    | none => exact ⟨L, rfl, hmem⟩
    | some x =>
      obtain ⟨s, e⟩ := x
      obtain ⟨he, hs1, hs2, hlen⟩ := hspec s e rfl
      have hf := findPos_some_found data p _ hr
      have h0 := (hok p (List.mem_cons_self ..) hf).1
      refine ⟨(s, e) :: L, rfl, ?_⟩
      intro y hy
      rcases List.mem_cons.mp hy with rfl | hy
      · exact ⟨by omega, hs2, hlen⟩
      · exact hmem y hy

theorem mem_insertDesc (x w : Int × Int) (ys : List (Int × Int)) :
    w ∈ insertDesc x ys ↔ w = x ∨ w ∈ ys := by
  induction ys with
  | nil => simp [insertDesc]
  | cons y ys ih =>
    unfold insertDesc
    split
    · simp
    · simp only [List.mem_cons, ih]
      constructor
      · rintro (h | h | h)
        · exact .inr (.inl h)
        · exact .inl h
        · exact .inr (.inr h)
      · rintro (h | h | h)
        · exact .inr (.inl h)
        · exact .inl h
        · exact .inr (.inr h)

/-- the insertion sort yields the same spans -/
theorem mem_sortDesc (w : Int × Int) :
    ∀ (L : List (Int × Int)), w ∈ L.foldr insertDesc [] ↔ w ∈ L := by
  intro L
  induction L with
  | nil => exact Iff.rfl
  | cons x L ih => rw [List.foldr_cons, mem_insertDesc, ih, List.mem_cons]

/-- the cutting loop: a span either still fits the (shortened) document or reaches into the
    previous cut and is skipped. After a cut at `(s, e)` the document keeps its first `s` bytes,
    so a span ending below `s` still fits and every other one is skipped. (The order of the spans
    plays no role for the absence of panics.) -/
theorem applyAll_total :
    ∀ (S : List (Int × Int)) (prev : Int) (data : Bytes),
      (∀ x ∈ S, 0 ≤ x.1 ∧ x.1 ≤ x.2 + 1 ∧ (x.2 + 1 ≤ data.length ∨ prev ≤ x.2)) →
      Total (applyAll S prev data) := by
  intro S
  induction S with
  | nil => intro prev data _; unfold applyAll; simp
  | cons x S ih =>
    intro prev data hok
    obtain ⟨s, e⟩ := x
    have hx := hok (s, e) (List.mem_cons_self ..)
    simp only [] at hx
    unfold applyAll
    by_cases hskip : e ≥ prev
    · rw [if_pos hskip]
      exact ih prev data (fun y hy => hok y (List.mem_cons_of_mem _ hy))
    · rw [if_neg hskip, applyCut_ok _ _ _ (by omega), ok_bind]
      apply ih
      intro y hy
      have hy1 := hok y (List.mem_cons_of_mem _ hy)
      have hl : s.toNat ≤ (List.take s.toNat data ++ List.drop (e + 1).toNat data).length := by
        rw [List.length_append, List.length_take]
        omega
      refine ⟨hy1.1, hy1.2.1, ?_⟩
      simp only []
      omega

/-- A4. any number of configured paths, whatever they resolve to: no panic -/
theorem cutFields_total (valid : Bool) (ps : List Probe) (data : Bytes)
    (hok : ∀ p ∈ ps, ProbeOk data p) : Total (cutFields valid ps data) := by
  unfold cutFields
  obtain ⟨L, hL, hmem⟩ := collect_spec data ps hok
  by_cases hc : (ps.length = 0 || !valid) = true
  · rw [if_pos hc]; simp
  · rw [if_neg hc, hL, ok_bind, ok_bind]
    by_cases h1 : ps.length = 1
    · rw [if_pos h1]
      split
      · rename_i pos
        obtain ⟨s, e⟩ := pos
        have := hmem (s, e) (List.mem_cons_self ..)
        rw [applyCut_ok _ _ _ this]
        simp
      · simp
    · rw [if_neg h1]
      apply applyAll_total
      intro x hx
      obtain ⟨h0, h2, h4⟩ := hmem x ((mem_sortDesc x L).mp hx)
      exact ⟨h0, h2, .inl h4⟩

/-! ### concrete instances -/

/-- `{"a":"xyz","b":"uvw"}` with `a` limited to 1 and `b` to 2 bytes (listed in ascending order,
    the code sorts them) becomes `{"a":"x","b":"uv"}` -/
def exDoc2 : Bytes :=
  [123, 34, 97, 34, 58, 34, 120, 121, 122, 34, 44, 34, 98, 34, 58, 34, 117, 118, 119, 34, 125]
def exA : Probe := ⟨1, true, 5, 3, 5⟩
def exB : Probe := ⟨2, true, 15, 3, 5⟩

#guard exDoc2 == str "{\"a\":\"xyz\",\"b\":\"uvw\"}"

example : cutFields true [exA, exB] exDoc2
    = .ok [123, 34, 97, 34, 58, 34, 120, 34, 44, 34, 98, 34, 58, 34, 117, 118, 34, 125] := rfl
#guard ([123, 34, 97, 34, 58, 34, 120, 34, 44, 34, 98, 34, 58, 34, 117, 118, 34, 125] : Bytes)
  == str "{\"a\":\"x\",\"b\":\"uv\"}"

example : Total (cutFields true [exA, exB] exDoc2) := by
  apply cutFields_total
  intro p hp
  simp only [List.mem_cons, List.not_mem_nil, or_false] at hp
  rcases hp with rfl | rfl <;> (intro _; decide)

/-- two paths resolving to the *same* literal (`a` and `*` on `{"a":"xxxxxxxx"}`; this made the
    unfixed loop slice past the end of the already shortened document): the value is cut once -/
def exDoc3 : Bytes := [123, 34, 97, 34, 58, 34, 120, 120, 120, 120, 120, 120, 120, 120, 34, 125]
#guard exDoc3 == str "{\"a\":\"xxxxxxxx\"}"

example : cutFields true [⟨1, true, 5, 8, 10⟩, ⟨1, true, 5, 8, 10⟩] exDoc3
    = .ok [123, 34, 97, 34, 58, 34, 120, 34, 125] := rfl   -- {"a":"x"}

example : Total (cutFields true [⟨1, true, 5, 8, 10⟩, ⟨1, true, 5, 8, 10⟩] exDoc3) := by
  apply cutFields_total
  intro p hp
  simp only [List.mem_cons, List.not_mem_nil, or_false, or_self] at hp
  subst hp
  intro _; decide

/-- same value, different limits: the cut with the higher start wins, the other is skipped -/
example : cutFields true [⟨1, true, 5, 8, 10⟩, ⟨3, true, 5, 8, 10⟩] exDoc3
    = .ok [123, 34, 97, 34, 58, 34, 120, 120, 120, 34, 125] := rfl   -- {"a":"xxx"}

/-- a probe at offset 0 is skipped in the loop as well -/
example : cutFields true [⟨1, true, 0, 8, 10⟩, ⟨1, true, 5, 8, 10⟩] exDoc3
    = .ok [123, 34, 97, 34, 58, 34, 120, 34, 125] := rfl

end FileD.Dec.JsonCut
