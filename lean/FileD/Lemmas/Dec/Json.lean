/-
  C12, reference JSON codec: `decode (encode t) = some t` for every tree whose number leaves
  carry a spelling the number scanner reads back (`WfNum`). Strings and keys are arbitrary bytes.
-/
import FileD.Model.Dec.Json
namespace FileD.Dec.Json
open FileD FileD.Dec

/-! ### bytes: finite case analysis -/

/-- a property of all bytes follows from the 256 instances (each decided by the kernel) -/
theorem forall_byte {P : UInt8 → Prop} (h : ∀ n, n < 256 → P (UInt8.ofNat n)) (c : UInt8) : P c := by
  have := h c.toNat c.toNat_lt
  rwa [UInt8.ofNat_toNat] at this

theorem hexVal_hexDigit : ∀ n, n < 16 → hexVal? (hexDigit n) = some n := by decide

theorem hexVal_48 : hexVal? 48 = some 0 := by decide

theorem utf8_small (c : UInt8) (h : c < 32) : utf8 c.toNat = [c] := by
  have h' : c.toNat < 32 := by simpa [UInt8.lt_iff_toNat_lt] using h
  have : c.toNat < 0x80 := by omega
  simp [utf8, this]

/-! ### (a) `unescape` inverts `escape` -/

theorem unescape_plain (c : UInt8) (rest : Bytes) (h : c ≠ cBackslash) :
    unescape (c :: rest) = (unescape rest).map (c :: ·) := by
  rw [unescape.eq_def]; simp only [if_neg h]

theorem unescape_u (h1 h2 h3 h4 : UInt8) (rest : Bytes) (a b c d : Nat)
    (ha : hexVal? h1 = some a) (hb : hexVal? h2 = some b) (hc : hexVal? h3 = some c)
    (hd : hexVal? h4 = some d) :
    unescape (cBackslash :: 117 :: h1 :: h2 :: h3 :: h4 :: rest)
      = (unescape rest).map (utf8 (a * 4096 + b * 256 + c * 16 + d) ++ ·) := by
  rw [unescape.eq_def]
  simp only [if_true, ha, hb, hc, hd]
  cases unescape rest <;> rfl

theorem unescape_simple (d o : UInt8) (rest : Bytes) (hd : d ≠ 117)
    (ho : (if d = cQuote then some cQuote else if d = cBackslash then some cBackslash
            else if d = 47 then some 47 else if d = 98 then some 8 else if d = 102 then some 12
            else if d = 110 then some 10 else if d = 114 then some 13 else if d = 116 then some 9
            else none) = some o) :
    unescape (cBackslash :: d :: rest) = (unescape rest).map (o :: ·) := by
  rw [unescape.eq_def]
  simp only [if_true, if_neg hd, ho]
  cases unescape rest <;> rfl

theorem unescape_escByte (c : UInt8) (rest : Bytes) :
    unescape (escByte c ++ rest) = (unescape rest).map (c :: ·) := by
  unfold escByte
  split
  · subst_vars; exact unescape_simple cQuote cQuote rest (by decide) (by decide)
  split
  · subst_vars; exact unescape_simple cBackslash cBackslash rest (by decide) (by decide)
  split
  · subst_vars; exact unescape_simple 110 10 rest (by decide) (by decide)
  split
  · subst_vars; exact unescape_simple 114 13 rest (by decide) (by decide)
  split
  · subst_vars; exact unescape_simple 116 9 rest (by decide) (by decide)
  split
  · next hlt =>
    have h' : c.toNat < 32 := by simpa [UInt8.lt_iff_toNat_lt] using hlt
    have e := unescape_u 48 48 (hexDigit (c.toNat / 16)) (hexDigit (c.toNat % 16)) rest 0 0
      (c.toNat / 16) (c.toNat % 16) hexVal_48 hexVal_48
      (hexVal_hexDigit _ (by omega)) (hexVal_hexDigit _ (by omega))
    have en : 0 * 4096 + 0 * 256 + c.toNat / 16 * 16 + c.toNat % 16 = c.toNat := by omega
    rw [en, utf8_small c hlt] at e
    exact e
  · next h1 h2 _ _ _ _ => exact unescape_plain c rest h2

theorem unescape_escape (s : Bytes) : unescape (escape s) = some s := by
  induction s with
  | nil => rfl
  | cons c cs ih => simp only [escape, unescape_escByte, ih, Option.map_some]

/-! ### (b) `strBody` reads an escaped string up to the closing quote -/

theorem strBody_quote (rest acc : Bytes) : strBody (cQuote :: rest) acc = some (acc, rest) := by
  rw [strBody.eq_def]; simp only [if_true]

theorem strBody_plain (c : UInt8) (rest acc : Bytes) (h1 : c ≠ cQuote) (h2 : c ≠ cBackslash)
    (h3 : ¬ c < 32) : strBody (c :: rest) acc = strBody rest (acc ++ [c]) := by
  rw [strBody.eq_def]; simp only [if_neg h1, if_neg h2, if_neg h3]

theorem strBody_simple (d : UInt8) (rest acc : Bytes) (hd : d ≠ 117) (he : isEscChar d = true) :
    strBody (cBackslash :: d :: rest) acc = strBody rest (acc ++ [cBackslash, d]) := by
  rw [strBody.eq_def]
  have : cBackslash ≠ cQuote := by decide
  simp only [if_neg this, if_true, if_neg hd, he]

theorem strBody_u (h1 h2 h3 h4 : UInt8) (rest acc : Bytes)
    (e1 : (hexVal? h1).isSome = true) (e2 : (hexVal? h2).isSome = true)
    (e3 : (hexVal? h3).isSome = true) (e4 : (hexVal? h4).isSome = true) :
    strBody (cBackslash :: 117 :: h1 :: h2 :: h3 :: h4 :: rest) acc
      = strBody rest (acc ++ [cBackslash, 117, h1, h2, h3, h4]) := by
  rw [strBody.eq_def]
  have : cBackslash ≠ cQuote := by decide
  simp only [if_neg this, if_true, e1, e2, e3, e4, Bool.and_self]

theorem strBody_escByte (c : UInt8) (rest acc : Bytes) :
    strBody (escByte c ++ rest) acc = strBody rest (acc ++ escByte c) := by
  unfold escByte
  split
  · exact strBody_simple cQuote rest acc (by decide) (by decide)
  split
  · exact strBody_simple cBackslash rest acc (by decide) (by decide)
  split
  · exact strBody_simple 110 rest acc (by decide) (by decide)
  split
  · exact strBody_simple 114 rest acc (by decide) (by decide)
  split
  · exact strBody_simple 116 rest acc (by decide) (by decide)
  split
  · next hlt =>
    have h' : c.toNat < 32 := by simpa [UInt8.lt_iff_toNat_lt] using hlt
    have e0 : (hexVal? 48).isSome = true := by decide
    have ea : (hexVal? (hexDigit (c.toNat / 16))).isSome = true := by
      rw [hexVal_hexDigit _ (by omega)]; rfl
    have eb : (hexVal? (hexDigit (c.toNat % 16))).isSome = true := by
      rw [hexVal_hexDigit _ (by omega)]; rfl
    exact strBody_u 48 48 _ _ rest acc e0 e0 ea eb
  · next h1 h2 _ _ _ h6 => exact strBody_plain c rest acc h1 h2 h6

theorem strBody_escape (s rest acc : Bytes) :
    strBody (escape s ++ cQuote :: rest) acc = some (acc ++ escape s, rest) := by
  induction s generalizing acc with
  | nil => simp only [escape, List.nil_append, List.append_nil, strBody_quote]
  | cons c cs ih =>
    simp only [escape, List.append_assoc, strBody_escByte, ih]

/-! ### well-formed number leaves, the raw (still escaped) tree, fuel -/

/-- a raw number spelling the scanner reads back: starts with `-` or a digit, only number characters -/
def numOk : Bytes → Bool
  | [] => false
  | c :: cs => (c == cMinus || (48 ≤ c && c ≤ 57)) && cs.all isNumChar

mutual
  /-- every `.num` leaf satisfies `numOk` -/
  def WfNum : JTree → Prop
    | .num r => numOk r = true
    | .arr xs => WfNumList xs
    | .obj kvs => WfNumKVs kvs
    | _ => True
  def WfNumList : List JTree → Prop
    | [] => True
    | x :: xs => WfNum x ∧ WfNumList xs
  def WfNumKVs : List (Bytes × JTree) → Prop
    | [] => True
    | (_, v) :: kvs => WfNum v ∧ WfNumKVs kvs
end

mutual
  /-- what `parseRaw` returns on `encode t`: strings and keys still escaped -/
  def escTree : JTree → JTree
    | .str s => .str (escape s)
    | .arr xs => .arr (escList xs)
    | .obj kvs => .obj (escKVs kvs)
    | t => t
  def escList : List JTree → List JTree
    | [] => []
    | x :: xs => escTree x :: escList xs
  def escKVs : List (Bytes × JTree) → List (Bytes × JTree)
    | [] => []
    | (k, v) :: kvs => (escape k, escTree v) :: escKVs kvs
end

mutual
  /-- fuel sufficient for `parseVal` on `encode t` -/
  def need : JTree → Nat
    | .arr xs => 1 + needL xs
    | .obj kvs => 1 + needK kvs
    | _ => 1
  def needL : List JTree → Nat
    | [] => 0
    | x :: xs => 1 + need x + needL xs
  def needK : List (Bytes × JTree) → Nat
    | [] => 0
    | (_, v) :: kvs => 1 + need v + needK kvs
end

/-- what may follow a number: end of input or a byte that is not a number character -/
def Good (rest : Bytes) : Prop := ∀ c cs, rest = c :: cs → isNumChar c = false

theorem good_nil : Good [] := by intro c cs h; cases h

theorem good_cons (c : UInt8) (cs : Bytes) (h : isNumChar c = false) : Good (c :: cs) := by
  intro c' cs' e; cases e; exact h

/-! ### (d) `unescTree` inverts `escTree` -/

mutual
  theorem unescTree_escTree : ∀ t : JTree, unescTree (escTree t) = some t
    | .null => rfl
    | .bool _ => rfl
    | .num _ => rfl
    | .str s => by simp only [escTree, unescTree, unescape_escape, Option.map_some]
    | .arr xs => by simp only [escTree, unescTree, unescList_escList xs, Option.map_some]
    | .obj kvs => by simp only [escTree, unescTree, unescKVs_escKVs kvs, Option.map_some]
  theorem unescList_escList : ∀ xs : List JTree, unescList (escList xs) = some xs
    | [] => rfl
    | x :: xs => by
      simp only [escList, unescList, unescTree_escTree x, unescList_escList xs]
  theorem unescKVs_escKVs : ∀ kvs : List (Bytes × JTree), unescKVs (escKVs kvs) = some kvs
    | [] => rfl
    | (k, v) :: kvs => by
      simp only [escKVs, unescKVs, unescape_escape, unescTree_escTree v, unescKVs_escKVs kvs]
end

/-! ### (c) the parser on encoder output -/

set_option maxRecDepth 100000 in
theorem numStart_facts : ∀ c : UInt8, (c == cMinus || (48 ≤ c && c ≤ 57)) = true →
    isWs c = false ∧ c ≠ cQuote ∧ c ≠ 123 ∧ c ≠ 91 ∧ c ≠ 110 ∧ c ≠ 116 ∧ c ≠ 102 ∧ c ≠ 93 ∧
      isNumChar c = true ∧ (decide (c = cMinus) || (decide (48 ≤ c) && decide (c ≤ 57))) = true :=
  forall_byte (by decide)

theorem spanNum_all (r rest acc : Bytes) (h : r.all isNumChar = true) (hg : Good rest) :
    spanNum (r ++ rest) acc = (acc ++ r, rest) := by
  induction r generalizing acc with
  | nil =>
    cases rest with
    | nil => simp [spanNum]
    | cons c cs => simp [spanNum, hg c cs rfl]
  | cons c cs ih =>
    simp only [List.all_cons, Bool.and_eq_true] at h
    simp only [List.cons_append, spanNum, h.1, if_true, ih _ h.2, List.append_assoc,
      List.nil_append]

theorem skipWs_cons (c : UInt8) (cs : Bytes) (h : isWs c = false) : skipWs (c :: cs) = c :: cs := by
  simp [skipWs, h]

theorem parseVal_num (r rest : Bytes) (f : Nat) (h : numOk r = true) (hg : Good rest) :
    parseVal (f + 1) (r ++ rest) = some (.num r, rest) := by
  cases r with
  | nil => simp [numOk] at h
  | cons c cs =>
    simp only [numOk, Bool.and_eq_true] at h
    obtain ⟨hc, hcs⟩ := h
    obtain ⟨hw, h1, h2, h3, h4, h5, h6, _, hn, hd⟩ := numStart_facts c hc
    have hsp : spanNum (c :: (cs ++ rest)) [] = (c :: cs, rest) := by
      have := spanNum_all (c :: cs) rest [] (by simp [hn, hcs]) hg
      simpa using this
    rw [parseVal, List.cons_append, skipWs_cons _ _ hw]
    simp only [if_neg h1, if_neg h2, if_neg h3, if_neg h4, if_neg h5, if_neg h6, hd, if_true, hsp]

theorem need_pos (t : JTree) : 1 ≤ need t := by
  cases t <;> simp only [need] <;> omega

/-- the first byte of an encoded value is neither white space nor `]` -/
theorem encode_head (t : JTree) (h : WfNum t) :
    ∃ c cs, encode t = c :: cs ∧ isWs c = false ∧ c ≠ 93 := by
  cases t with
  | null => exact ⟨110, _, rfl, by decide, by decide⟩
  | bool b => cases b
              · exact ⟨102, _, rfl, by decide, by decide⟩
              · exact ⟨116, _, rfl, by decide, by decide⟩
  | num r =>
    cases r with
    | nil => simp [WfNum, numOk] at h
    | cons c cs =>
      simp only [WfNum, numOk, Bool.and_eq_true] at h
      have := numStart_facts c h.1
      exact ⟨c, cs, rfl, this.1, this.2.2.2.2.2.2.2.1⟩
  | str s => exact ⟨34, _, rfl, by decide, by decide⟩
  | arr xs => exact ⟨91, _, rfl, by decide, by decide⟩
  | obj kvs => exact ⟨123, _, rfl, by decide, by decide⟩

mutual
  theorem parseVal_encode : ∀ (t : JTree), WfNum t → ∀ (rest : Bytes) (fuel : Nat), Good rest →
      need t ≤ fuel → parseVal fuel (encode t ++ rest) = some (escTree t, rest)
    | .null, _, rest, fuel, _, hf => by
      obtain ⟨f, rfl⟩ : ∃ f, fuel = f + 1 := ⟨fuel - 1, by simp only [need] at hf; omega⟩
      rfl
    | .bool b, _, rest, fuel, _, hf => by
      obtain ⟨f, rfl⟩ : ∃ f, fuel = f + 1 := ⟨fuel - 1, by simp only [need] at hf; omega⟩
      cases b <;> rfl
    | .num r, h, rest, fuel, hg, hf => by
      obtain ⟨f, rfl⟩ : ∃ f, fuel = f + 1 := ⟨fuel - 1, by simp only [need] at hf; omega⟩
      exact parseVal_num r rest f h hg
    | .str s, _, rest, fuel, _, hf => by
      obtain ⟨f, rfl⟩ : ∃ f, fuel = f + 1 := ⟨fuel - 1, by simp only [need] at hf; omega⟩
      have e : encode (.str s) ++ rest = cQuote :: (escape s ++ cQuote :: rest) := by
        simp [encode, quote]
      rw [e, parseVal, skipWs_cons _ _ (by decide)]
      simp only [if_true, strBody_escape, List.nil_append, escTree]
    | .arr xs, h, rest, fuel, _, hf => by
      obtain ⟨f, rfl⟩ : ∃ f, fuel = f + 1 := ⟨fuel - 1, by simp only [need] at hf; omega⟩
      have ih := parseElems_encode xs
      cases xs with
      | nil => rfl
      | cons x xs =>
        simp only [WfNum, WfNumList] at h
        have ih' := ih (by simp) h rest f (by simp only [need] at hf; omega)
        obtain ⟨c, cs, e, hw, h93⟩ := encode_head x h.1
        have e1 : encode (.arr (x :: xs)) ++ rest = 91 :: (encodeList (x :: xs) ++ 93 :: rest) := by
          simp [encode]
        have e2 : ∃ cs', encodeList (x :: xs) ++ 93 :: rest = c :: cs' := by
          cases xs <;> simp [encodeList, e]
        obtain ⟨cs', e2⟩ := e2
        rw [e2] at ih'
        rw [e1, parseVal, skipWs_cons _ _ (by decide), e2]
        have n1 : (91 : UInt8) ≠ cQuote := by decide
        have n2 : (91 : UInt8) ≠ 123 := by decide
        simp only [if_neg n1, if_neg n2, if_true, skipWs_cons _ _ hw]
        split
        · next heq => cases heq; exact absurd rfl h93
        · simp only [ih', escTree]
    | .obj kvs, h, rest, fuel, _, hf => by
      obtain ⟨f, rfl⟩ : ∃ f, fuel = f + 1 := ⟨fuel - 1, by simp only [need] at hf; omega⟩
      have ih := parseMembers_encode kvs
      cases kvs with
      | nil => rfl
      | cons kv kvs =>
        obtain ⟨k, v⟩ := kv
        simp only [WfNum] at h
        have ih' := ih (by simp) h rest f (by simp only [need] at hf; omega)
        have e1 : encode (.obj ((k, v) :: kvs)) ++ rest
            = 123 :: (encodeKVs ((k, v) :: kvs) ++ 125 :: rest) := by
          simp [encode]
        have e2 : ∃ cs', encodeKVs ((k, v) :: kvs) ++ 125 :: rest = cQuote :: cs' := by
          cases kvs <;> simp [encodeKVs, quote]
        obtain ⟨cs', e2⟩ := e2
        rw [e2] at ih'
        rw [e1, parseVal, skipWs_cons _ _ (by decide), e2]
        have n1 : (123 : UInt8) ≠ cQuote := by decide
        simp only [if_neg n1, if_true, skipWs_cons _ _ (show isWs cQuote = false by decide)]
        split
        · next heq => cases heq
        · simp only [ih', escTree]
  theorem parseElems_encode : ∀ (xs : List JTree), xs ≠ [] → WfNumList xs → ∀ (rest : Bytes)
      (fuel : Nat), needL xs ≤ fuel →
      parseElems fuel (encodeList xs ++ 93 :: rest) = some (escList xs, rest)
    | [], hne, _, _, _, _ => absurd rfl hne
    | [x], _, h, rest, fuel, hf => by
      obtain ⟨f, rfl⟩ : ∃ f, fuel = f + 1 := ⟨fuel - 1, by simp only [needL] at hf; omega⟩
      simp only [WfNumList] at h
      have hv := parseVal_encode x h.1 (93 :: rest) f (good_cons _ _ (by decide))
        (by simp only [needL] at hf; omega)
      simp only [encodeList]
      rw [parseElems, hv]
      simp only [skipWs_cons 93 _ (by decide), escList]
    | x :: y :: ys, _, h, rest, fuel, hf => by
      obtain ⟨f, rfl⟩ : ∃ f, fuel = f + 1 := ⟨fuel - 1, by simp only [needL] at hf; omega⟩
      rw [WfNumList] at h
      have hv := parseVal_encode x h.1 (44 :: (encodeList (y :: ys) ++ 93 :: rest)) f
        (good_cons _ _ (by decide)) (by simp only [needL] at hf ⊢; omega)
      have ih := parseElems_encode (y :: ys) (by simp) h.2 rest f
        (by simp only [needL] at hf ⊢; omega)
      have e : encodeList (x :: y :: ys) ++ 93 :: rest
          = encode x ++ 44 :: (encodeList (y :: ys) ++ 93 :: rest) := by
        simp [encodeList, cComma]
      rw [e, parseElems, hv]
      have el : escList (x :: y :: ys) = escTree x :: escList (y :: ys) := by rw [escList]
      simp only [skipWs_cons 44 _ (by decide), ih, el]
  theorem parseMembers_encode : ∀ (kvs : List (Bytes × JTree)), kvs ≠ [] → WfNumKVs kvs →
      ∀ (rest : Bytes) (fuel : Nat), needK kvs ≤ fuel →
      parseMembers fuel (encodeKVs kvs ++ 125 :: rest) = some (escKVs kvs, rest)
    | [], hne, _, _, _, _ => absurd rfl hne
    | [(k, v)], _, h, rest, fuel, hf => by
      obtain ⟨f, rfl⟩ : ∃ f, fuel = f + 1 := ⟨fuel - 1, by simp only [needK] at hf; omega⟩
      simp only [WfNumKVs] at h
      have hv := parseVal_encode v h.1 (125 :: rest) f (good_cons _ _ (by decide))
        (by simp only [needK] at hf; omega)
      have e : encodeKVs [(k, v)] ++ 125 :: rest
          = 34 :: (escape k ++ cQuote :: 58 :: (encode v ++ 125 :: rest)) := by
        simp [encodeKVs, quote, cQuote, cColon]
      rw [e, parseMembers, skipWs_cons 34 _ (by decide)]
      simp only [strBody_escape, skipWs_cons 58 _ (by decide), hv, skipWs_cons 125 _ (by decide),
        List.nil_append, escKVs]
    | (k, v) :: kv :: kvs, _, h, rest, fuel, hf => by
      obtain ⟨f, rfl⟩ : ∃ f, fuel = f + 1 := ⟨fuel - 1, by simp only [needK] at hf; omega⟩
      rw [WfNumKVs] at h
      have hv := parseVal_encode v h.1 (44 :: (encodeKVs (kv :: kvs) ++ 125 :: rest)) f
        (good_cons _ _ (by decide)) (by simp only [needK] at hf ⊢; omega)
      have ih := parseMembers_encode (kv :: kvs) (by simp) h.2 rest f
        (by simp only [needK] at hf ⊢; omega)
      have e : encodeKVs ((k, v) :: kv :: kvs) ++ 125 :: rest
          = 34 :: (escape k ++ cQuote :: 58 :: (encode v ++ 44 :: (encodeKVs (kv :: kvs) ++ 125 :: rest))) := by
        simp [encodeKVs, quote, cQuote, cColon, cComma]
      have ek : escKVs ((k, v) :: kv :: kvs) = (escape k, escTree v) :: escKVs (kv :: kvs) := by
        rw [escKVs]
      rw [e, parseMembers, skipWs_cons 34 _ (by decide)]
      simp only [strBody_escape, skipWs_cons 58 _ (by decide), hv, skipWs_cons 44 _ (by decide), ih,
        List.nil_append, ek]
end

/-! ### the fuel `parseRaw` gives is enough -/

mutual
  theorem need_le : ∀ t : JTree, WfNum t → need t ≤ (encode t).length
    | .null, _ => by simp [need, encode]
    | .bool true, _ => by simp [need, encode]
    | .bool false, _ => by simp [need, encode]
    | .num r, h => by
      cases r with
      | nil => simp [WfNum, numOk] at h
      | cons c cs => simp [need, encode]
    | .str s, _ => by simp [need, encode, quote]
    | .arr xs, h => by
      have := needL_le xs (by simpa only [WfNum] using h)
      simp only [need, encode, List.length_cons, List.length_append, List.length_nil]; omega
    | .obj kvs, h => by
      have := needK_le kvs (by simpa only [WfNum] using h)
      simp only [need, encode, List.length_cons, List.length_append, List.length_nil]; omega
  theorem needL_le : ∀ xs : List JTree, WfNumList xs → needL xs ≤ (encodeList xs).length + 1
    | [], _ => by simp [needL]
    | [x], h => by
      have := need_le x h.1
      simp only [needL, encodeList]; omega
    | x :: y :: ys, h => by
      rw [WfNumList] at h
      have := need_le x h.1
      have := needL_le (y :: ys) h.2
      rw [needL, encodeList]
      simp only [List.length_cons, List.length_append]; omega
  theorem needK_le : ∀ kvs : List (Bytes × JTree), WfNumKVs kvs →
      needK kvs ≤ (encodeKVs kvs).length + 1
    | [], _ => by simp [needK]
    | [(k, v)], h => by
      have := need_le v h.1
      simp only [needK, encodeKVs, List.length_cons, List.length_append]; omega
    | (k, v) :: kv :: kvs, h => by
      rw [WfNumKVs] at h
      have := need_le v h.1
      have := needK_le (kv :: kvs) h.2
      rw [needK, encodeKVs]
      simp only [List.length_cons, List.length_append]; omega
end

/-! ### (e) the round trip -/

theorem parseRaw_encode (t : JTree) (h : WfNum t) : parseRaw (encode t) = some (escTree t) := by
  have hp := parseVal_encode t h [] ((encode t).length + 1) good_nil
    (by have := need_le t h; omega)
  rw [List.append_nil] at hp
  simp only [parseRaw, hp, skipWs, if_true]

/-- C12 (JSON): decoding an encoded tree gives the tree back — arbitrary byte strings and keys
    (quotes, backslashes, control bytes, bytes ≥ 0x80), numbers with a scanner-stable spelling. -/
theorem json_roundtrip (t : JTree) (h : WfNum t) : decode (encode t) = some t := by
  simp only [decode, parseRaw_encode t h, Option.bind_some, unescTree_escTree]

/-- the string-leaf instance: any bytes survive `quote`, `strBody`, `unescape` -/
theorem json_roundtrip_str (s : Bytes) : decode (encode (.str s)) = some (.str s) :=
  json_roundtrip (.str s) (by simp only [WfNum])

example : WfNum (.obj [([97], .arr [.num [45, 49, 46, 53, 101, 43, 51], .str [34, 10, 92, 1, 200]]),
    ([34], .null)]) := by
  simp only [WfNum, WfNumKVs, WfNumList, and_true]; decide

example : encode (.obj [([97], .arr [.num [49], .str [34, 10, 1]])])
    -- {"a":[1,"\"\n\u0001"]}
    = [123, 34, 97, 34, 58, 91, 49, 44, 34, 92, 34, 92, 110, 92, 117, 48, 48, 48, 49, 34, 93, 125] := by
  decide

example : decode (encode (.obj [([97], .arr [.num [49], .str [34, 10, 1]])]))
    = some (.obj [([97], .arr [.num [49], .str [34, 10, 1]])]) := by rfl

/-- a spelling that is not scanner-stable does not round-trip: the hypothesis is needed -/
example : decode (encode (.num [49, 32])) = some (.num [49]) := by rfl

end FileD.Dec.Json
