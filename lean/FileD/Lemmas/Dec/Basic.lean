/-
  Helper lemmas for the decoder models (C12): checked accesses succeed under their bounds,
  facts about `indexByte` and friends, and the `Total` predicate ("the Go code does not panic").
-/
import FileD.Model.Dec.Common
namespace FileD.Dec
open FileD GoSlice

/-- the modelled Go code returned normally (no panic, no fuel / frame escape) -/
def Total {α} (x : GoM α) : Prop := ∃ v, x = .ok v

@[simp] theorem pure_eq_ok {α} (a : α) : (pure a : GoM α) = .ok a := rfl
@[simp] theorem ok_bind {α β} (a : α) (f : α → GoM β) : (Except.ok a >>= f) = f a := rfl
@[simp] theorem error_bind {α β} (e : Panic) (f : α → GoM β) : ((Except.error e : GoM α) >>= f) = .error e := rfl
@[simp] theorem total_ok {α} (a : α) : Total (Except.ok a : GoM α) := ⟨a, rfl⟩
@[simp] theorem total_pure {α} (a : α) : Total (pure a : GoM α) := ⟨a, rfl⟩
@[simp] theorem not_total_error {α} (e : Panic) : ¬ Total (Except.error e : GoM α) := by
  intro ⟨v, h⟩; cases h

theorem Total.bind {α β} {x : GoM α} {f : α → GoM β} {v : α} (hx : x = .ok v) (hf : Total (f v)) :
    Total (x >>= f) := by
  subst hx; exact hf

theorem Total.of_eq {α} {x : GoM α} {v : α} (h : x = .ok v) : Total x := ⟨v, h⟩

theorem total_ite {α} {c : Prop} [Decidable c] {a b : GoM α} (ha : c → Total a) (hb : ¬c → Total b) :
    Total (if c then a else b) := by
  split
  · exact ha ‹_›
  · exact hb ‹_›

/-! ### checked accesses -/

theorem slice?_ok {α} (b : List α) (lo hi : Int) (h : 0 ≤ lo ∧ lo ≤ hi ∧ hi ≤ b.length) :
    slice? b lo hi = .ok ((b.drop lo.toNat).take (hi.toNat - lo.toNat)) := by
  simp [slice?, h]

theorem sliceTo?_ok {α} (b : List α) (hi : Int) (h : 0 ≤ hi ∧ hi ≤ b.length) :
    sliceTo? b hi = .ok (b.take hi.toNat) := by
  unfold sliceTo?
  rw [slice?_ok b 0 hi ⟨by omega, h.1, h.2⟩]
  simp

theorem sliceFrom?_ok {α} (b : List α) (lo : Int) (h : 0 ≤ lo ∧ lo ≤ b.length) :
    sliceFrom? b lo = .ok (b.drop lo.toNat) := by
  unfold sliceFrom?
  rw [slice?_ok b lo b.length ⟨h.1, h.2, by omega⟩]
  congr 1
  apply List.take_of_length_le
  simp

theorem idx?_ok {α} (b : List α) (i : Int) (h : 0 ≤ i ∧ i < b.length) :
    ∃ x, idx? b i = .ok x ∧ b[i.toNat]? = some x := by
  have hlt : i.toNat < b.length := by omega
  refine ⟨b[i.toNat], ?_, by simp [hlt]⟩
  unfold idx?
  have : ¬ i < 0 := by omega
  simp [this, hlt]

theorem idx?_eq_ok {α} {b : List α} {i : Int} {x : α} (h : idx? b i = .ok x) :
    0 ≤ i ∧ i < b.length ∧ b[i.toNat]? = some x := by
  unfold idx? at h
  split at h
  · cases h
  · split at h
    · rename_i y hy
      cases h
      have := (List.getElem?_eq_some_iff.mp hy).1
      exact ⟨by omega, by omega, hy⟩
    · cases h

/-! ### `indexByte` -/

theorem findIdx?_lt {α} (p : α → Bool) (l : List α) (i : Nat) (h : l.findIdx? p = some i) : i < l.length := by
  have := List.findIdx?_eq_some_iff_getElem.mp h
  exact this.1

theorem indexByte_bounds (b : Bytes) (c : UInt8) :
    indexByte b c = -1 ∨ (0 ≤ indexByte b c ∧ indexByte b c < b.length) := by
  unfold indexByte
  split
  · rename_i i hi
    right
    have := findIdx?_lt _ _ _ hi
    omega
  · left; rfl

theorem indexByte_ge (b : Bytes) (c : UInt8) : -1 ≤ indexByte b c := by
  rcases indexByte_bounds b c with h | h <;> omega

theorem indexByte_lt (b : Bytes) (c : UInt8) : indexByte b c < b.length := by
  rcases indexByte_bounds b c with h | h <;> omega

/-- the byte at a found position is the byte searched for, and it is the first one -/
theorem indexByte_spec (b : Bytes) (c : UInt8) (h : 0 ≤ indexByte b c) :
    b[(indexByte b c).toNat]? = some c ∧ ∀ j, j < (indexByte b c).toNat → b[j]? ≠ some c := by
  unfold indexByte at h ⊢
  split at h
  · rename_i i hi
    have := List.findIdx?_eq_some_iff_getElem.mp hi
    obtain ⟨hlt, hp, hmin⟩ := this
    simp only [Int.toNat_natCast]
    constructor
    · simp only [beq_iff_eq] at hp
      simp [hlt, hp]
    · intro j hj hjc
      have hjl : j < b.length := by omega
      have := hmin j hj
      rw [List.getElem?_eq_getElem hjl] at hjc
      simp at hjc
      simp [hjc] at this
  · simp at h

theorem indexAny_bounds (b : Bytes) (s : List UInt8) :
    indexAny b s = -1 ∨ (0 ≤ indexAny b s ∧ indexAny b s < b.length) := by
  unfold indexAny
  split
  · rename_i i hi
    right
    have := findIdx?_lt _ _ _ hi
    omega
  · left; rfl

theorem trimSuffixNL_length_le (b : Bytes) : (trimSuffixNL b).length ≤ b.length := by
  unfold trimSuffixNL
  split <;> simp

end FileD.Dec
