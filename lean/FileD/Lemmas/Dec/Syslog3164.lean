import FileD.Lemmas.Dec.Index
import FileD.Model.Dec.Syslog3164
namespace FileD.Dec.Syslog
open FileD GoSlice FileD.Dec

/-- `syslogParsePriority` never panics; a parsed priority comes with `2 ≤ offset ≤ 4`, inside the line -/
theorem parsePriority_spec (data : Bytes) :
    ∃ r, parsePriority data = .ok r ∧
      ∀ p off, r = some (p, off) → 2 ≤ off ∧ off ≤ 4 ∧ off < data.length := by
  unfold parsePriority
  split
  · exact ⟨none, rfl, by intro _ _ h; cases h⟩
  · obtain ⟨c0, h0, _⟩ := idx?_ok data 0 (by omega)
    rw [h0, ok_bind]
    split
    · exact ⟨none, rfl, by intro _ _ h; cases h⟩
    · have hb := indexByte_bounds data cGt
      simp only []
      split
      · exact ⟨none, rfl, by intro _ _ h; cases h⟩
      · rw [slice?_ok _ _ _ (by omega), ok_bind]
        split
        · exact ⟨none, rfl, by intro _ _ h; cases h⟩
        · split
          · exact ⟨none, rfl, by intro _ _ h; cases h⟩
          · refine ⟨_, rfl, ?_⟩
            intro p off h
            simp only [pure_eq_ok, Option.some.injEq, Prod.mk.injEq] at h
            obtain ⟨_, rfl⟩ := h
            omega

end FileD.Dec.Syslog

namespace FileD.Dec.Syslog3164
open FileD GoSlice FileD.Dec FileD.Dec.Syslog

/-- `rw` one checked index access whose bounds follow from the context -/
macro "idx_step" b:term "," i:term : tactic =>
  `(tactic| (obtain ⟨_, hx, _⟩ := idx?_ok $b $i (by omega); rw [hx, ok_bind]; clear hx))

/-- the optional leading space of the message -/
theorem msgTail_total {β} (d : Bytes) (k : Bytes → GoM β) (hk : ∀ d', Total (k d')) :
    Total ((if d.length > 0 then do
              let c ← idx? d 0
              if c = SP then sliceFrom? d 1 else pure d
            else pure d) >>= k) := by
  split
  · idx_step d, 0
    split
    · rw [sliceFrom?_ok _ _ (by omega), ok_bind]; exact hk _
    · exact hk _
  · exact hk _

theorem validateTimestamp_total (ts : Bytes) : Total (validateTimestamp ts) := by
  unfold validateTimestamp
  by_cases h : (ts.length : Int) < stampLen + 1
  · rw [if_pos h]; simp
  · rw [if_neg h]
    simp only [stampLen] at h
    have hl : 16 ≤ ts.length := by omega
    idx_step ts, 3
    idx_step ts, 6
    idx_step ts, 9
    idx_step ts, 12
    idx_step ts, 15
    split
    · simp
    · idx_step ts, 0
      idx_step ts, 1
      idx_step ts, 2
      split
      · simp
      · idx_step ts, 4
        idx_step ts, 5
        split
        · simp
        · rw [slice?_ok _ _ _ (by omega), ok_bind, slice?_ok _ _ _ (by omega), ok_bind, slice?_ok _ _ _ (by omega), ok_bind]
          split <;> simp

/-- an accepted timestamp is at least 16 bytes long (15 + the space) -/
theorem validateTimestamp_true_len (ts : Bytes) (h : validateTimestamp ts = .ok true) : 16 ≤ ts.length := by
  unfold validateTimestamp at h
  by_cases hc : (ts.length : Int) < stampLen + 1
  · rw [if_pos hc] at h; cases h
  · simp only [stampLen] at hc; omega

theorem decode_total (facStr sevStr : Bool) (data0 : Bytes) : Total (decode facStr sevStr data0) := by
  unfold decode
  generalize trimSuffixNL data0 = data
  simp only [pure_eq_ok, ok_bind]
  split
  · simp
  · obtain ⟨r, hr, hspec⟩ := parsePriority_spec data
    rw [hr, ok_bind]
    cases r with
    | none => simp
    | some po =>
      obtain ⟨pri, offset⟩ := po
      have hs := hspec pri offset rfl
      simp only []
      rw [slice?_ok _ _ _ (by omega), ok_bind, sliceFrom?_ok _ _ (by omega), ok_bind]
      generalize hd1 : data.drop (offset + 1).toNat = d1
      obtain ⟨v, hv⟩ := validateTimestamp_total d1
      rw [hv, ok_bind]
      cases v with
      | false => simp
      | true =>
        have hl := validateTimestamp_true_len d1 hv
        simp only [Bool.not_true, Bool.false_eq_true, ↓reduceIte, stampLen]
        rw [sliceTo?_ok _ _ (by omega), ok_bind, sliceFrom?_ok _ _ (by omega), ok_bind]
        generalize d1.drop ((15 : Int) + 1).toNat = d2
        have h2 := indexByte_bounds d2 SP
        split
        · simp
        · rw [sliceTo?_ok _ _ (by omega), ok_bind, sliceFrom?_ok _ _ (by omega), ok_bind]
          generalize d2.drop (indexByte d2 SP + 1).toNat = d3
          have h3 := indexAny_bounds d3 [cLBr, cColon, SP]
          split
          · simp
          · rw [sliceTo?_ok _ _ (by omega), ok_bind, sliceFrom?_ok _ _ (by omega), ok_bind]
            generalize hd4 : d3.drop (indexAny d3 [cLBr, cColon, SP]).toNat = d4
            have hl4 : 0 < d4.length := by rw [← hd4]; simp; omega
            obtain ⟨c0, hc0, hg0⟩ := idx?_ok d4 0 (by omega)
            rw [hc0, ok_bind]
            by_cases hcl : c0 = cLBr
            · rw [if_pos hcl]
              have h4 := indexByte_bounds d4 cRBr
              split
              · simp
              · rename_i hno
                have hb4 : 0 ≤ indexByte d4 cRBr + 1 ∧ indexByte d4 cRBr + 1 < d4.length := by omega
                obtain ⟨_, hx, _⟩ := idx?_ok d4 (indexByte d4 cRBr + 1) hb4
                rw [hx, ok_bind]
                split
                · simp
                · have hpos : 1 ≤ indexByte d4 cRBr := by
                    have hs := (indexByte_spec d4 cRBr (by omega)).1
                    by_cases hz : indexByte d4 cRBr = 0
                    · rw [hz] at hs
                      rw [hs] at hg0
                      rw [← Option.some.inj hg0] at hcl
                      exact absurd hcl (by decide)
                    · omega
                  rw [slice?_ok _ _ _ (by omega), ok_bind, sliceFrom?_ok _ _ (by omega), ok_bind]
                  simp only [pure_eq_ok, ok_bind]
                  exact msgTail_total _ _ (by intro d'; simp)
            · rw [if_neg hcl, sliceFrom?_ok _ _ (by omega), ok_bind]
              simp only [pure_eq_ok, ok_bind]
              exact msgTail_total _ _ (by intro d'; simp)

end FileD.Dec.Syslog3164

/-! ### fidelity -/

namespace FileD.Dec.Syslog
open FileD GoSlice FileD.Dec

/-- a rendered priority `<pri>` is read back -/
theorem parsePriority_hit (pri rest : Bytes) (p : Int) (ha : atoi pri = some p) (hp : p ≤ 191)
    (hl : 1 ≤ pri.length ∧ pri.length ≤ 3) :
    parsePriority (cLt :: (pri ++ cGt :: rest)) = .ok (some (p, (pri.length + 1 : Nat))) := by
  have hd := atoi_digits pri p ha
  have hgt : cGt ∉ cLt :: pri := by
    intro h
    rcases List.mem_cons.mp h with h | h
    · exact absurd h (by decide)
    · have := hd _ h
      revert this; decide
  have e : indexByte (cLt :: (pri ++ cGt :: rest)) cGt = ((cLt :: pri).length : Nat) :=
    indexByte_append_hit (cLt :: pri) cGt rest hgt
  unfold parsePriority
  have c0 : ¬ ((cLt :: (pri ++ cGt :: rest)).length < 3) := by simp; omega
  simp only [c0, ↓reduceIte]
  obtain ⟨x, hx, hg⟩ := idx?_ok (cLt :: (pri ++ cGt :: rest)) 0 (by simp; omega)
  have : x = cLt := by simpa using hg.symm
  subst this
  rw [hx, ok_bind]
  simp only [ne_eq, not_true_eq_false, ↓reduceIte, e]
  have c1 : ¬ ((((cLt :: pri).length : Nat) : Int) < 2 ∨ 4 < (((cLt :: pri).length : Nat) : Int)) := by simp; omega
  simp only [c1, ↓reduceIte]
  rw [slice?_ok _ _ _ (by simp; omega), ok_bind]
  have v : List.take ((((cLt :: pri).length : Nat) : Int).toNat - (1 : Int).toNat) (List.drop (1 : Int).toNat (cLt :: (pri ++ cGt :: rest))) = pri := by
    simp
  rw [v, ha]
  have c2 : ¬ (p > 191) := by omega
  simp only [c2, ↓reduceIte, pure_eq_ok, List.length_cons]

end FileD.Dec.Syslog

namespace FileD.Dec.Syslog3164
open FileD GoSlice FileD.Dec FileD.Dec.Syslog

/-- `validateTimestamp` looks at the first 16 bytes only -/
theorem validateTimestamp_append (x y : Bytes) (h : 16 ≤ x.length) : validateTimestamp (x ++ y) = validateTimestamp x := by
  unfold validateTimestamp
  have c1 : ¬ (((x ++ y).length : Int) < stampLen + 1) := by simp [stampLen]; omega
  have c2 : ¬ ((x.length : Int) < stampLen + 1) := by simp [stampLen]; omega
  rw [if_neg c1, if_neg c2]
  simp only [idx?_append_left x y _ (by omega : (3 : Int) < x.length), idx?_append_left x y _ (by omega : (6 : Int) < x.length),
    idx?_append_left x y _ (by omega : (9 : Int) < x.length), idx?_append_left x y _ (by omega : (12 : Int) < x.length),
    idx?_append_left x y _ (by omega : (15 : Int) < x.length), idx?_append_left x y _ (by omega : (0 : Int) < x.length),
    idx?_append_left x y _ (by omega : (1 : Int) < x.length), idx?_append_left x y _ (by omega : (2 : Int) < x.length),
    idx?_append_left x y _ (by omega : (4 : Int) < x.length), idx?_append_left x y _ (by omega : (5 : Int) < x.length),
    slice?_append_left x y 7 9 (by omega) (by omega), slice?_append_left x y 10 12 (by omega) (by omega),
    slice?_append_left x y 13 15 (by omega) (by omega)]

/-- the optional space in front of the message -/
def stripSP (d : Bytes) : Bytes := match d with | c :: cs => if c = SP then cs else d | [] => []

theorem msgTail_eq (d : Bytes) :
    (if d.length > 0 then do
        let c ← idx? d 0
        if c = SP then sliceFrom? d 1 else pure d
      else pure d) = (.ok (stripSP d) : GoM Bytes) := by
  cases d with
  | nil => rfl
  | cons c cs =>
    have : (c :: cs).length > 0 := by simp
    rw [if_pos this]
    obtain ⟨x, hx, hg⟩ := idx?_ok (c :: cs) 0 (by simp)
    have : x = c := by simpa using hg.symm
    subst this
    rw [hx, ok_bind]
    by_cases hsp : x = SP
    · rw [if_pos hsp, sliceFrom?_ok _ _ (by simp <;> omega)]; simp [stripSP, hsp]
    · rw [if_neg hsp]; simp [stripSP, hsp]

theorem msgTail_eq' (d : Bytes) :
    (if d.length > 0 then do
        let c ← idx? d 0
        if c = SP then sliceFrom? d 1 else Except.ok d
      else Except.ok d) = (.ok (stripSP d) : GoM Bytes) := msgTail_eq d

/-- the line without its trailing newline: `<pri>ts host app[procid]: msg` -/
def render (pri ts host app procid msg : Bytes) : Bytes :=
  cLt :: (pri ++ cGt :: (ts ++ SP :: (host ++ SP :: (app ++ cLBr :: (procid ++ cRBr :: cColon :: SP :: msg)))))

theorem decode_trimmed (fs ss : Bool) (pri ts host app procid msg : Bytes) (p : Int)
    (ha : atoi pri = some p) (hp : p ≤ 191) (hl : 1 ≤ pri.length ∧ pri.length ≤ 3)
    (hts : ts.length = 15) (hv : validateTimestamp (ts ++ [SP]) = .ok true)
    (hh : SP ∉ host) (happ : ∀ x ∈ app, x ∉ [cLBr, cColon, SP]) (hpr : cRBr ∉ procid)
    (line : Bytes) (hline : trimSuffixNL line = render pri ts host app procid msg) :
    decode fs ss line = .ok (some ⟨pri, facility p fs, severity p ss, ts, host, app, procid, msg⟩) := by
  unfold decode
  rw [hline]
  unfold render
  simp only [pure_eq_ok, ok_bind]
  have c0 : ¬ ((cLt :: (pri ++ cGt :: (ts ++ SP :: (host ++ SP :: (app ++ cLBr :: (procid ++ cRBr :: cColon :: SP :: msg)))))).length = 0) := by simp
  rw [if_neg c0, parsePriority_hit pri _ p ha hp hl, ok_bind]
  simp only []
  rw [slice?_ok _ _ _ (by simp; omega), ok_bind, sliceFrom?_ok _ _ (by simp; omega), ok_bind]
  have x1 : (((pri.length + 1 : Nat) : Int) + 1).toNat = (cLt :: pri).length + 1 := by simp; omega
  have x1' : ∀ r, cLt :: (pri ++ cGt :: r) = (cLt :: pri) ++ cGt :: r := by simp
  rw [x1, x1', drop_append_length_succ]
  have v1 : ∀ r, List.take (((pri.length + 1 : Nat) : Int).toNat - (1 : Int).toNat) (List.drop (1 : Int).toNat ((cLt :: pri) ++ cGt :: r)) = pri := by
    intro r; simp
  rw [v1]
  have hv' : ∀ r, validateTimestamp (ts ++ SP :: r) = .ok true := by
    intro r
    have : ts ++ SP :: r = (ts ++ [SP]) ++ r := by simp
    rw [this, validateTimestamp_append _ _ (by simp; omega), hv]
  rw [hv', ok_bind]
  simp only [Bool.not_true, Bool.false_eq_true, ↓reduceIte, stampLen]
  rw [sliceTo?_ok _ _ (by simp; omega), ok_bind, sliceFrom?_ok _ _ (by simp; omega), ok_bind]
  have x2 : ((15 : Int) + 1).toNat = ts.length + 1 := by omega
  have x2' : (15 : Int).toNat = ts.length := by omega
  rw [x2, x2', drop_append_length_succ, List.take_left' rfl]
  rw [indexByte_append_hit host SP _ hh]
  have c1 : ¬ ((host.length : Int) < 0) := by omega
  simp only [c1, ↓reduceIte]
  rw [sliceTo?_ok _ _ (by simp; omega), ok_bind, sliceFrom?_ok _ _ (by simp; omega), ok_bind]
  have x3 : ((host.length : Int) + 1).toNat = host.length + 1 := by omega
  rw [x3, drop_append_length_succ]
  simp only [Int.toNat_natCast, List.take_left']
  rw [indexAny_append_hit app cLBr _ [cLBr, cColon, SP] happ (by simp)]
  have c2 : ¬ ((app.length : Int) < 0) := by omega
  simp only [c2, ↓reduceIte]
  rw [sliceTo?_ok _ _ (by simp; omega), ok_bind, sliceFrom?_ok _ _ (by simp; omega), ok_bind]
  simp only [Int.toNat_natCast, List.take_left', List.drop_left']
  obtain ⟨x, hx, hg⟩ := idx?_ok (cLBr :: (procid ++ cRBr :: cColon :: SP :: msg)) 0 (by simp; omega)
  have : x = cLBr := by simpa using hg.symm
  subst this
  rw [hx, ok_bind]
  simp only [↓reduceIte]
  have e4 : indexByte (cLBr :: (procid ++ cRBr :: cColon :: SP :: msg)) cRBr = ((cLBr :: procid).length : Nat) :=
    indexByte_append_hit (cLBr :: procid) cRBr _ (by simp [hpr]; decide)
  rw [e4]
  have c3 : ¬ ((((cLBr :: procid).length : Nat) : Int) < 0 ∨ (((cLBr :: procid).length : Nat) : Int) + 1 ≥ ((cLBr :: (procid ++ cRBr :: cColon :: SP :: msg)).length : Nat)) := by
    simp; omega
  rw [if_neg c3]
  obtain ⟨y, hy, hgy⟩ := idx?_ok (cLBr :: (procid ++ cRBr :: cColon :: SP :: msg)) ((((cLBr :: procid).length : Nat) : Int) + 1) (by simp; omega)
  have : y = cColon := by
    have e : ((((cLBr :: procid).length : Nat) : Int) + 1).toNat = (cLBr :: procid).length + 1 := by omega
    rw [e] at hgy
    have : cLBr :: (procid ++ cRBr :: cColon :: SP :: msg) = (cLBr :: procid) ++ cRBr :: (cColon :: SP :: msg) := by simp
    rw [this, List.getElem?_append_right (by omega)] at hgy
    simpa using hgy.symm
  subst this
  rw [hy, ok_bind]
  simp only [ne_eq, not_true_eq_false, ↓reduceIte]
  rw [slice?_ok _ _ _ (by simp; omega), ok_bind, sliceFrom?_ok _ _ (by simp; omega), ok_bind]
  simp only [pure_eq_ok, ok_bind]
  have x5 : ((((cLBr :: procid).length : Nat) : Int) + 2).toNat = (cLBr :: procid).length + 1 + 1 := by omega
  have x5' : cLBr :: (procid ++ cRBr :: cColon :: SP :: msg) = ((cLBr :: procid) ++ [cRBr]) ++ cColon :: (SP :: msg) := by simp
  have x5'' : (cLBr :: procid).length + 1 = ((cLBr :: procid) ++ [cRBr]).length := by simp
  rw [x5, x5', x5'', drop_append_length_succ, msgTail_eq', ok_bind]
  have v5 : List.take ((((cLBr :: procid).length : Nat) : Int).toNat - (1 : Int).toNat) (List.drop (1 : Int).toNat (((cLBr :: procid) ++ [cRBr]) ++ cColon :: (SP :: msg))) = procid := by
    simp
  rw [v5]
  simp [stripSP]

/-- **fidelity**: a well-formed RFC3164 line yields exactly its fields, with and without the trailing newline -/
theorem decode_fields (fs ss : Bool) (pri ts host app procid msg : Bytes) (p : Int) (nl : Bool)
    (ha : atoi pri = some p) (hp : p ≤ 191) (hl : 1 ≤ pri.length ∧ pri.length ≤ 3)
    (hts : ts.length = 15) (hv : validateTimestamp (ts ++ [SP]) = .ok true)
    (hh : SP ∉ host) (happ : ∀ x ∈ app, x ∉ [cLBr, cColon, SP]) (hpr : cRBr ∉ procid)
    (hmsg : msg.getLast? ≠ some NL) :
    decode fs ss (render pri ts host app procid msg ++ (if nl then [NL] else []))
      = .ok (some ⟨pri, facility p fs, severity p ss, ts, host, app, procid, msg⟩) := by
  apply decode_trimmed fs ss pri ts host app procid msg p ha hp hl hts hv hh happ hpr
  cases nl with
  | true => exact trimSuffixNL_append_nl _
  | false =>
    simp only [Bool.false_eq_true, ↓reduceIte, List.append_nil]
    apply trimSuffixNL_of_last_ne
    unfold render
    have : cLt :: (pri ++ cGt :: (ts ++ SP :: (host ++ SP :: (app ++ cLBr :: (procid ++ cRBr :: cColon :: SP :: msg)))))
        = (cLt :: (pri ++ cGt :: (ts ++ SP :: (host ++ SP :: (app ++ cLBr :: (procid ++ [cRBr, cColon])))))) ++ (SP :: msg) := by simp
    rw [this, List.getLast?_append]
    cases msg with
    | nil => simp; decide
    | cons m ms =>
      rw [List.getLast?_cons_cons]
      cases hm : (m :: ms).getLast? with
      | none => simp at hm
      | some z =>
        rw [hm] at hmsg
        simpa using hmsg

end FileD.Dec.Syslog3164
