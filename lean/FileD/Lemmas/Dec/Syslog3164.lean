import FileD.Lemmas.Dec.Index
import FileD.Model.Dec.Syslog3164
namespace FileD.Dec.Syslog
open FileD GoSlice FileD.Dec

/-- `syslogParsePriority` never panics; a parsed priority comes with `2 ≤ offset ≤ 4`, inside the line -/
theorem parsePriority_spec (data : Bytes) :
    ∃ r, parsePriority data = .ok r ∧
      ∀ p off, r = some (p, off) → 2 ≤ off ∧ off ≤ 4 ∧ off < data.length := by
  unfold parsePriority
  split
  · exact ⟨none, rfl, by intro _ _ h; cases h⟩
  · obtain ⟨c0, h0, _⟩ := idx?_ok data 0 (by omega)
    rw [h0, ok_bind]
    split
    · exact ⟨none, rfl, by intro _ _ h; cases h⟩
    · have hb := indexByte_bounds data cGt
      simp only []
      split
      · exact ⟨none, rfl, by intro _ _ h; cases h⟩
      · rw [slice?_ok _ _ _ (by omega), ok_bind]
        split
        · exact ⟨none, rfl, by intro _ _ h; cases h⟩
        · split
          · exact ⟨none, rfl, by intro _ _ h; cases h⟩
          · refine ⟨_, rfl, ?_⟩
            intro p off h
            simp only [pure_eq_ok, Option.some.injEq, Prod.mk.injEq] at h
            obtain ⟨_, rfl⟩ := h
            omega

end FileD.Dec.Syslog

namespace FileD.Dec.Syslog3164
open FileD GoSlice FileD.Dec FileD.Dec.Syslog

/-- `rw` one checked index access whose bounds follow from the context -/
macro "idx_step" b:term "," i:term : tactic =>
  `(tactic| (obtain ⟨_, hx, _⟩ := idx?_ok $b $i (by omega); rw [hx, ok_bind]; clear hx))

/-- the optional leading space of the message -/
theorem msgTail_total {β} (d : Bytes) (k : Bytes → GoM β) (hk : ∀ d', Total (k d')) :
    Total ((if d.length > 0 then do
              let c ← idx? d 0
              if c = SP then sliceFrom? d 1 else pure d
            else pure d) >>= k) := by
  split
  · idx_step d, 0
    split
    · rw [sliceFrom?_ok _ _ (by omega), ok_bind]; exact hk _
    · exact hk _
  · exact hk _

theorem validateTimestamp_total (ts : Bytes) : Total (validateTimestamp ts) := by
  unfold validateTimestamp
  by_cases h : (ts.length : Int) < stampLen + 1
  · rw [if_pos h]; simp
  · rw [if_neg h]
    simp only [stampLen] at h
    have hl : 16 ≤ ts.length := by omega
    idx_step ts, 3
    idx_step ts, 6
    idx_step ts, 9
    idx_step ts, 12
    idx_step ts, 15
    split
    · simp
    · idx_step ts, 0
      idx_step ts, 1
      idx_step ts, 2
      split
      · simp
      · idx_step ts, 4
        idx_step ts, 5
        split
        · simp
        · rw [slice?_ok _ _ _ (by omega), ok_bind, slice?_ok _ _ _ (by omega), ok_bind, slice?_ok _ _ _ (by omega), ok_bind]
          split <;> simp

/-- an accepted timestamp is at least 16 bytes long (15 + the space) -/
theorem validateTimestamp_true_len (ts : Bytes) (h : validateTimestamp ts = .ok true) : 16 ≤ ts.length := by
  unfold validateTimestamp at h
  by_cases hc : (ts.length : Int) < stampLen + 1
  · rw [if_pos hc] at h; cases h
  · simp only [stampLen] at hc; omega

theorem decode_total (facStr sevStr : Bool) (data0 : Bytes) : Total (decode facStr sevStr data0) := by
  unfold decode
  generalize trimSuffixNL data0 = data
  simp only [pure_eq_ok, ok_bind]
  split
  · simp
  · obtain ⟨r, hr, hspec⟩ := parsePriority_spec data
    rw [hr, ok_bind]
    cases r with
    | none => simp
    | some po =>
      obtain ⟨pri, offset⟩ := po
      have hs := hspec pri offset rfl
      simp only []
      rw [slice?_ok _ _ _ (by omega), ok_bind, sliceFrom?_ok _ _ (by omega), ok_bind]
      generalize hd1 : data.drop (offset + 1).toNat = d1
      obtain ⟨v, hv⟩ := validateTimestamp_total d1
      rw [hv, ok_bind]
      cases v with
      | false => simp
      | true =>
        have hl := validateTimestamp_true_len d1 hv
        simp only [Bool.not_true, Bool.false_eq_true, ↓reduceIte, stampLen]
        rw [sliceTo?_ok _ _ (by omega), ok_bind, sliceFrom?_ok _ _ (by omega), ok_bind]
        generalize d1.drop ((15 : Int) + 1).toNat = d2
        have h2 := indexByte_bounds d2 SP
        split
        · simp
        · rw [sliceTo?_ok _ _ (by omega), ok_bind, sliceFrom?_ok _ _ (by omega), ok_bind]
          generalize d2.drop (indexByte d2 SP + 1).toNat = d3
          have h3 := indexAny_bounds d3 [cLBr, cColon, SP]
          split
          · simp
          · rw [sliceTo?_ok _ _ (by omega), ok_bind, sliceFrom?_ok _ _ (by omega), ok_bind]
            generalize hd4 : d3.drop (indexAny d3 [cLBr, cColon, SP]).toNat = d4
            have hl4 : 0 < d4.length := by rw [← hd4]; simp; omega
            obtain ⟨c0, hc0, hg0⟩ := idx?_ok d4 0 (by omega)
            rw [hc0, ok_bind]
            by_cases hcl : c0 = cLBr
            · rw [if_pos hcl]
              have h4 := indexByte_bounds d4 cRBr
              split
              · simp
              · rename_i hno
                have hb4 : 0 ≤ indexByte d4 cRBr + 1 ∧ indexByte d4 cRBr + 1 < d4.length := by omega
                obtain ⟨_, hx, _⟩ := idx?_ok d4 (indexByte d4 cRBr + 1) hb4
                rw [hx, ok_bind]
                split
                · simp
                · have hpos : 1 ≤ indexByte d4 cRBr := by
                    have hs := (indexByte_spec d4 cRBr (by omega)).1
                    by_cases hz : indexByte d4 cRBr = 0
                    · rw [hz] at hs
                      rw [hs] at hg0
                      rw [← Option.some.inj hg0] at hcl
                      exact absurd hcl (by decide)
                    · omega
                  rw [slice?_ok _ _ _ (by omega), ok_bind, sliceFrom?_ok _ _ (by omega), ok_bind]
                  simp only [pure_eq_ok, ok_bind]
                  exact msgTail_total _ _ (by intro d'; simp)
            · rw [if_neg hcl, sliceFrom?_ok _ _ (by omega), ok_bind]
              simp only [pure_eq_ok, ok_bind]
              exact msgTail_total _ _ (by intro d'; simp)

end FileD.Dec.Syslog3164
