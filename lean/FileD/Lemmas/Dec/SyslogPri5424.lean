/-
  Lemmas about the shared syslog priority parser `parsePriority` (used by the RFC5424 proofs).
-/
import FileD.Lemmas.Dec.Basic
import FileD.Model.Dec.Syslog
/- declarations live in `FileD.Dec.Syslog5424` so that they cannot clash with the RFC3164 lemma files -/
namespace FileD.Dec.Syslog5424
open FileD GoSlice FileD.Dec FileD.Dec.Syslog

/-- `parsePriority` never panics; a successful parse leaves `offset` at the `'>'`:
    `2 ≤ offset ≤ 4` and `offset < len(data)`. -/
theorem parsePriority_spec (data : Bytes) :
    ∃ r, parsePriority data = .ok r ∧
      ∀ p off, r = some (p, off) → 2 ≤ off ∧ off ≤ 4 ∧ off < data.length ∧ off = indexByte data cGt := by
  unfold parsePriority
  split
  · exact ⟨none, rfl, by intro _ _ h; cases h⟩
  · rename_i hlen
    obtain ⟨c0, hc0, _⟩ := idx?_ok data 0 (by omega)
    rw [hc0, ok_bind]
    split
    · exact ⟨none, rfl, by intro _ _ h; cases h⟩
    · have hb := indexByte_lt data cGt
      simp only []
      split
      · exact ⟨none, rfl, by intro _ _ h; cases h⟩
      · rw [slice?_ok _ _ _ (by omega), ok_bind]
        split
        · exact ⟨none, rfl, by intro _ _ h; cases h⟩
        · split
          · exact ⟨none, rfl, by intro _ _ h; cases h⟩
          · refine ⟨_, rfl, ?_⟩
            intro p off h
            cases h
            omega

theorem parsePriority_total (data : Bytes) : Total (parsePriority data) := by
  obtain ⟨r, h, _⟩ := parsePriority_spec data
  exact ⟨r, h⟩

/-! ### generic facts used by the fidelity theorems -/

theorem findIdx?_append_cons (a rest : Bytes) (c : UInt8) (h : c ∉ a) :
    (a ++ c :: rest).findIdx? (· == c) = some a.length := by
  induction a with
  | nil => simp [List.findIdx?_cons]
  | cons x a ih =>
    have hx : x ≠ c := fun e => h (by simp [e])
    have ha : c ∉ a := fun e => h (by simp [e])
    simp only [List.cons_append, List.findIdx?_cons, beq_iff_eq, hx, if_false, ih ha]
    simp

/-- `bytes.IndexByte` finds the first delimiter -/
theorem indexByte_append_cons (a rest : Bytes) (c : UInt8) (h : c ∉ a) :
    indexByte (a ++ c :: rest) c = a.length := by
  unfold indexByte
  rw [findIdx?_append_cons a rest c h]

theorem sliceTo?_append {α} (a b : List α) (n : Int) (h : n = a.length) : sliceTo? (a ++ b) n = .ok a := by
  subst h
  rw [sliceTo?_ok _ _ (by simp; omega)]
  simp

theorem sliceFrom?_append {α} (a b : List α) (n : Int) (h : n = a.length) : sliceFrom? (a ++ b) n = .ok b := by
  subst h
  rw [sliceFrom?_ok _ _ (by simp; omega)]
  simp

theorem sliceFrom?_append_cons {α} (a b : List α) (c : α) (n : Int) (h : n = a.length + 1) :
    sliceFrom? (a ++ c :: b) n = .ok b := by
  have : a ++ c :: b = (a ++ [c]) ++ b := by simp
  rw [this]
  exact sliceFrom?_append _ _ _ (by simp [h])

theorem atoiLoop_digits (b : Bytes) : ∀ x y, atoiLoop b x = some y → ∀ c ∈ b, 48 ≤ c ∧ c ≤ 57 := by
  induction b with
  | nil => intro _ _ _ c hc; cases hc
  | cons d ds ih =>
    intro x y h c hc
    unfold atoiLoop at h
    split at h
    · cases h
    · rename_i hd
      simp only [Bool.or_eq_true, decide_eq_true_eq, not_or, UInt8.not_lt] at hd
      rcases List.mem_cons.mp hc with e | e
      · subst e; exact hd
      · exact ih _ _ h c e

/-- a byte string accepted by `atoi` is non-empty and consists of ASCII digits -/
theorem atoi_digits {b : Bytes} {y : Int} (h : atoi b = some y) : b ≠ [] ∧ ∀ c ∈ b, 48 ≤ c ∧ c ≤ 57 := by
  unfold atoi at h
  split at h
  · cases h
  · rename_i hl
    exact ⟨by intro e; simp [e] at hl, atoiLoop_digits b _ _ h⟩

theorem not_mem_of_digits {b : Bytes} (h : ∀ c ∈ b, 48 ≤ c ∧ c ≤ 57) (x : UInt8) (hx : x < 48 ∨ 57 < x) : x ∉ b := by
  intro hm
  have := h x hm
  rcases hx with hx | hx
  · exact absurd this.1 (UInt8.not_le.mpr hx)
  · exact absurd this.2 (UInt8.not_le.mpr hx)

/-- `parsePriority` on `'<' pri '>' rest` -/
theorem parsePriority_wf (pri rest : Bytes) (p : Int) (hpri : atoi pri = some p) (hlen : pri.length ≤ 3)
    (hp : p ≤ 191) : parsePriority (cLt :: (pri ++ cGt :: rest)) = .ok (some (p, pri.length + 1)) := by
  obtain ⟨hne, hdig⟩ := atoi_digits hpri
  have hgt : cGt ∉ pri := not_mem_of_digits hdig cGt (by right; decide)
  have hl1 : 1 ≤ pri.length := by
    cases pri with
    | nil => exact absurd rfl hne
    | cons _ _ => simp
  have hidx : indexByte (cLt :: (pri ++ cGt :: rest)) cGt = pri.length + 1 := by
    have := indexByte_append_cons (cLt :: pri) rest cGt (by
      intro hm
      rcases List.mem_cons.mp hm with e | e
      · exact absurd e (by decide)
      · exact hgt e)
    simpa using this
  unfold parsePriority
  rw [hidx]
  have hlen' : ¬ (cLt :: (pri ++ cGt :: rest)).length < 3 := by simp; omega
  rw [if_neg hlen']
  have h0 : idx? (cLt :: (pri ++ cGt :: rest)) 0 = .ok cLt := rfl
  rw [h0, ok_bind]
  simp only [ne_eq, not_true_eq_false, if_false]
  rw [if_neg (by omega)]
  have hs : slice? (cLt :: (pri ++ cGt :: rest)) 1 (pri.length + 1) = .ok pri := by
    rw [slice?_ok _ _ _ (by simp; omega)]
    simp
  rw [hs, ok_bind, hpri]
  simp only []
  rw [if_neg (by omega)]
  rfl

end FileD.Dec.Syslog5424
