/-
  cfg.ParseFieldSelector ∘ cfg.BuildFieldSelector = id on valid name lists.
-/
import FileD.Model.Fields
import FileD.Spec.C18
namespace FileD.Fields
open FileD FileD.SpecC18

theorem cutDot_length {sel pre post : Bytes} (h : cutDot sel = some (pre, post)) :
    sel.length = pre.length + 1 + post.length := by
  induction sel generalizing pre with
  | nil => simp [cutDot] at h
  | cons c cs ih =>
    simp only [cutDot] at h
    split at h
    · cases h; simp; omega
    · cases hc : cutDot cs with
      | none => rw [hc] at h; cases h
      | some ab =>
        obtain ⟨a, b⟩ := ab
        rw [hc] at h
        cases h
        have := ih hc
        simp [this]; omega

theorem cutDot_append {a : Bytes} (b : Bytes) (h : DOT ∉ a) : cutDot (a ++ DOT :: b) = some (a, b) := by
  induction a with
  | nil => simp [cutDot]
  | cons c cs ih =>
    have hc : c ≠ DOT := fun e => h (by simp [e])
    have hcs : DOT ∉ cs := fun e => h (List.mem_cons_of_mem _ e)
    simp [cutDot, hc, ih hcs]

theorem cutDot_none {a : Bytes} (h : DOT ∉ a) : cutDot a = none := by
  induction a with
  | nil => rfl
  | cons c cs ih =>
    have hc : c ≠ DOT := fun e => h (by simp [e])
    have hcs : DOT ∉ cs := fun e => h (List.mem_cons_of_mem _ e)
    simp [cutDot, hc, ih hcs]

/-- more fuel than the selector is long never changes the result -/
theorem pfsLoop_fuel : ∀ (f1 f2 : Nat) (sel tail : Bytes) (res : List Bytes), sel.length < f1 → sel.length < f2 →
    pfsLoop f1 sel tail res = pfsLoop f2 sel tail res := by
  intro f1
  induction f1 with
  | zero => intro f2 sel tail res h; omega
  | succ f1 ih =>
    intro f2 sel tail res h1 h2
    cases f2 with
    | zero => omega
    | succ f2 =>
      simp only [pfsLoop]
      cases hc : cutDot sel with
      | none => rfl
      | some pp =>
        obtain ⟨pre, post⟩ := pp
        have hl := cutDot_length hc
        simp only
        split
        · refine ih f2 _ _ _ ?_ ?_ <;> omega
        · cases post with
          | nil => refine ih f2 _ _ _ ?_ ?_ <;> simp <;> omega
          | cons c post' =>
            simp only
            simp only [List.length_cons] at hl
            split
            · refine ih f2 _ _ _ ?_ ?_ <;> omega
            · refine ih f2 _ _ _ ?_ ?_ <;> simp only [List.length_cons] <;> omega

/-- the loop with exactly enough fuel -/
def pfs (sel tail : Bytes) (res : List Bytes) : List Bytes := pfsLoop (sel.length + 1) sel tail res

theorem pfs_none {sel : Bytes} (tail : Bytes) (res : List Bytes) (h : cutDot sel = none) :
    pfs sel tail res = if sel.length + tail.length != 0 then res ++ [tail ++ sel] else res := by
  simp [pfs, pfsLoop, h]

theorem pfs_esc {sel pre post : Bytes} (tail : Bytes) (res : List Bytes) (h : cutDot sel = some (pre, post))
    (hb : pre.getLast? = some BSL) : pfs sel tail res = pfs post (tail ++ pre.dropLast ++ [DOT]) res := by
  have hl := cutDot_length h
  have e : pfs sel tail res = pfsLoop sel.length post (tail ++ pre.dropLast ++ [DOT]) res := by
    simp only [pfs, pfsLoop, h, hb, if_true]
  rw [e]; unfold pfs
  refine pfsLoop_fuel _ _ _ _ _ ?_ ?_ <;> omega

theorem pfs_sep {sel pre post : Bytes} (tail : Bytes) (res : List Bytes) (h : cutDot sel = some (pre, post))
    (hb : pre.getLast? ≠ some BSL) (hp : post.head? ≠ some DOT) :
    pfs sel tail res = pfs post [] (res ++ [tail ++ pre]) := by
  have hl := cutDot_length h
  have e : pfs sel tail res = pfsLoop sel.length post [] (res ++ [tail ++ pre]) := by
    cases post with
    | nil => simp only [pfs, pfsLoop, h, hb, if_false]
    | cons c post' =>
      have hc : c ≠ DOT := by intro e; subst e; simp at hp
      simp only [pfs, pfsLoop, h, hb, hc, if_false]
  rw [e]; unfold pfs
  refine pfsLoop_fuel _ _ _ _ _ ?_ ?_ <;> omega

theorem getLast?_cons_ne {α} (x : α) {l : List α} (h : l ≠ []) : (x :: l).getLast? = l.getLast? := by
  cases l with
  | nil => exact absurd rfl h
  | cons y ys => simp [List.getLast?_cons_cons]

/-- one name followed by the separator -/
theorem pfs_field : ∀ (f a tail : Bytes) (res : List Bytes) (rest : Bytes), DOT ∉ a →
    (a ++ f).getLast? ≠ some BSL → rest.head? ≠ some DOT →
    pfs (a ++ escapeDots f ++ DOT :: rest) tail res = pfs rest [] (res ++ [tail ++ a ++ f]) := by
  intro f
  induction f with
  | nil =>
    intro a tail res rest ha hl hr
    simp only [escapeDots, List.append_nil] at *
    exact pfs_sep tail res (cutDot_append rest ha) hl hr
  | cons c f' ih =>
    intro a tail res rest ha hl hr
    by_cases hc : c = DOT
    · subst hc
      have e : a ++ escapeDots (DOT :: f') ++ DOT :: rest = (a ++ [BSL]) ++ DOT :: ([] ++ escapeDots f' ++ DOT :: rest) := by
        simp [escapeDots]
      have hab : DOT ∉ a ++ [BSL] := by
        intro h; rcases List.mem_append.1 h with h | h
        · exact ha h
        · simp [DOT, BSL] at h
      rw [e, pfs_esc tail res (cutDot_append _ hab) (by simp)]
      rw [ih [] _ res rest (by simp) ?_ hr]
      · simp
      · cases f' with
        | nil => simp
        | cons d f'' =>
          have : (a ++ DOT :: d :: f'').getLast? = (d :: f'').getLast? := by
            have e1 : a ++ DOT :: d :: f'' = (a ++ [DOT]) ++ (d :: f'') := by simp
            rw [e1, List.getLast?_append]
            cases h : (d :: f'').getLast? with
            | none => simp at h
            | some x => simp
          simpa [this] using hl
    · have e : a ++ escapeDots (c :: f') ++ DOT :: rest = (a ++ [c]) ++ escapeDots f' ++ DOT :: rest := by
        simp [escapeDots, hc]
      have hab : DOT ∉ a ++ [c] := by
        intro h; rcases List.mem_append.1 h with h | h
        · exact ha h
        · simp at h; exact hc h.symm
      rw [e, ih (a ++ [c]) tail res rest hab (by simpa using hl) hr]
      simp

/-- the last name -/
theorem pfs_last : ∀ (f a tail : Bytes) (res : List Bytes), DOT ∉ a → tail ++ a ++ f ≠ [] →
    pfs (a ++ escapeDots f) tail res = res ++ [tail ++ a ++ f] := by
  intro f
  induction f with
  | nil =>
    intro a tail res ha hne
    simp only [escapeDots, List.append_nil] at *
    rw [pfs_none tail res (cutDot_none ha)]
    have hcond : (a.length + tail.length != 0) = true := by
      cases a with
      | cons _ _ => simp
      | nil =>
        cases tail with
        | cons _ _ => simp
        | nil => exact absurd rfl hne
    rw [hcond]; simp
  | cons c f' ih =>
    intro a tail res ha hne
    by_cases hc : c = DOT
    · subst hc
      have e : a ++ escapeDots (DOT :: f') = (a ++ [BSL]) ++ DOT :: ([] ++ escapeDots f') := by
        simp [escapeDots]
      have hab : DOT ∉ a ++ [BSL] := by
        intro h; rcases List.mem_append.1 h with h | h
        · exact ha h
        · simp [DOT, BSL] at h
      rw [e, pfs_esc tail res (cutDot_append _ hab) (by simp)]
      rw [ih [] _ res (by simp) (by simp)]
      simp
    · have e : a ++ escapeDots (c :: f') = (a ++ [c]) ++ escapeDots f' := by
        simp [escapeDots, hc]
      have hab : DOT ∉ a ++ [c] := by
        intro h; rcases List.mem_append.1 h with h | h
        · exact ha h
        · simp at h; exact hc h.symm
      rw [e, ih (a ++ [c]) tail res hab (by simp)]
      simp

theorem escapeDots_head (g : Bytes) (hg : g ≠ []) : (escapeDots g).head? ≠ some DOT := by
  cases g with
  | nil => exact absurd rfl hg
  | cons c g' =>
    by_cases hc : c = DOT
    · simp [escapeDots, hc, BSL, DOT]
    · simp [escapeDots, hc]

theorem build_head (g : Bytes) (r : List Bytes) (hg : g ≠ []) : (buildFieldSelector (g :: r)).head? ≠ some DOT := by
  cases r with
  | nil => exact escapeDots_head g hg
  | cons h r' =>
    simp only [buildFieldSelector]
    have := escapeDots_head g hg
    cases he : escapeDots g with
    | nil => cases g with
      | nil => exact absurd rfl hg
      | cons c g' => by_cases hc : c = DOT <;> simp [escapeDots, hc] at he
    | cons x xs => rw [he] at this; simpa using this

theorem pfs_build : ∀ (fields : List Bytes) (res : List Bytes), validNames fields = true →
    pfs (buildFieldSelector fields) [] res = res ++ fields
  | [], res, _ => by simp [buildFieldSelector, pfs, pfsLoop, cutDot]
  | [f], res, h => by
    simp [validNames] at h
    have := pfs_last f [] [] res (by simp) (by simpa using h)
    simpa [buildFieldSelector] using this
  | f :: g :: r, res, h => by
    simp only [validNames, Bool.and_eq_true, Bool.not_eq_true', bne_iff_ne, ne_eq] at h
    obtain ⟨⟨h1, h2⟩, h3⟩ := h
    have hg : g ≠ [] := by
      cases r with
      | nil => simp [validNames] at h3; exact h3
      | cons _ _ => simp [validNames] at h3; exact h3.1.1
    have := pfs_field f [] [] res (buildFieldSelector (g :: r)) (by simp) (by simpa using h2) (build_head g r hg)
    simp only [buildFieldSelector, List.nil_append] at this ⊢
    rw [this, pfs_build (g :: r) _ h3]
    simp

end FileD.Fields
