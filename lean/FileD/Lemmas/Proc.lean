/-
  Lemmas for M3 (Model/Proc.lean): a processor whose chain has at most one holding action, and
  in which no plain action upstream of the holder breaks, only emits operation sequences that
  the discipline automaton `dstep?` (the processor-side guards of M2) accepts.
-/
import FileD.Model.Proc
namespace FileD.Proc
open FileD.StreamProc (Op)

/-! ### the discipline automaton is the processor side of M2 -/

theorem drun_append (d : DS) (a b : List Op) : drun d (a ++ b) = (drun d a).bind (drun · b) := by
  induction a generalizing d with
  | nil => simp [drun]
  | cons op ops ih =>
    simp only [List.cons_append, drun]
    cases dstep? d op with
    | none => simp
    | some d1 => simp [ih]

/-- every step M2 takes is a step of the discipline automaton on the projection -/
theorem proj_step {s s' : StreamProc.SS} {op : Op} (h : StreamProc.step? s op = some s') :
    dstep? (proj s) op = some (proj s') := by
  cases op <;> simp only [StreamProc.step?] at h <;> simp only [dstep?, proj]
  all_goals (repeat' split at h)
  all_goals first
    | (cases h; done)
    | (cases h; simp_all; done)

/-! ### state shapes -/

def Clean (ps : PS) : Prop := ps.busy = [] ∧ ps.held = []
def Holding (ps : PS) (h : Nat) (x : EvSpec) : Prop := ps.busy = [h] ∧ ps.held = [(h, x)]

theorem resetBusy_clean {ps : PS} (hc : Clean ps) (i : Nat) : resetBusy ps i = ps := by
  cases ps; simp_all [resetBusy, Clean]

theorem resetBusy_holding_ne {ps : PS} {h i : Nat} {x : EvSpec} (hh : Holding ps h x) (hne : i ≠ h) :
    resetBusy ps i = ps := by
  cases ps; simp_all [resetBusy, Holding]; omega

theorem clean_emit {ps : PS} (hc : Clean ps) (t : Op) : Clean (emit ps t) := by
  simpa [Clean, emit] using hc

theorem clean_fin {ps : PS} (hc : Clean ps) (ev : Ev) (b : Bool) : Clean (fin ps ev b) := by
  cases ev <;> simp [fin] <;> first | exact hc | exact clean_emit hc _

theorem busyTotal_clean {ps : PS} (hc : Clean ps) : busyTotal ps = 0 := by
  simp [busyTotal, hc.1]

theorem heldAt_clean {ps : PS} (hc : Clean ps) (i : Nat) : heldAt ps i = none := by
  simp [heldAt, hc.2]

theorem heldAt_holding {ps : PS} {h : Nat} {x : EvSpec} (hh : Holding ps h x) : heldAt ps h = some x := by
  simp [heldAt, hh.2]

/-- no holder at or after position `idx` -/
def NoHolderFrom (acts : List Act) (idx : Nat) : Prop := ∀ j g, idx ≤ j → acts[j]? ≠ some (.holder g)

theorem fin_toks (ps : PS) (ev : Ev) (b : Bool) :
    (fin ps ev b).toks = ps.toks ++ (match ev with | .reg e => [if b then Op.drop e.seq else Op.hold e.seq] | _ => []) := by
  cases ev <;> simp [fin, emit]

theorem fin_ins (ps : PS) (ev : Ev) (b : Bool) : (fin ps ev b).ins = ps.ins := by
  cases ev <;> simp [fin, emit]

/-- **post run**: downstream of the last holder, with nothing busy, an event runs through the
    remaining actions without touching the state: it passes (no operation), or a plain action
    discards it (one `drop`); children of a split pass silently. -/
theorem post_run (acts : List Act) [NoCol acts] :
    ∀ fuel,
      (∀ idx ev ps ps' r, NoHolderFrom acts idx → Clean ps → doActs fuel acts idx ev ps = (ps', r) →
        Clean ps' ∧ ps'.ins = ps.ins ∧
        ((r = .passed ∧ ps'.toks = ps.toks) ∨ (∃ l, r = .stopped l ∧ ps'.toks = (fin ps ev true).toks ∧ ∀ sk, ev ≠ .child sk) ∨
         (∃ w, r = .halt w ∧ ps'.toks = ps.toks))) ∧
      (∀ idx sk k ps ps' r, NoHolderFrom acts (idx+1) → Clean ps → spawnKids fuel acts idx sk k ps = (ps', r) →
        Clean ps' ∧ ps'.ins = ps.ins ∧ ps'.toks = ps.toks) := by
  intro fuel
  induction fuel with
  | zero =>
    constructor
    · intro idx ev ps ps' r _ hc h
      rw [doActs.eq_def] at h; simp only at h
      cases h; exact ⟨hc, rfl, Or.inr (Or.inr ⟨_, rfl, rfl⟩)⟩
    · intro idx sk k ps ps' r _ hc h
      rw [spawnKids.eq_def] at h; simp only at h
      cases h; exact ⟨hc, rfl, rfl⟩
  | succ n ih =>
    obtain ⟨ihA, ihK⟩ := ih
    constructor
    · intro idx ev ps ps' r hno hc h
      have hno1 : NoHolderFrom acts (idx+1) := fun j g hj => hno j g (by omega)
      rw [doActs.eq_def] at h; simp only at h
      cases hget : acts[idx]? with
      | none => rw [hget] at h; simp only at h; cases h; exact ⟨hc, rfl, Or.inl ⟨rfl, rfl⟩⟩
      | some a =>
        rw [hget] at h; simp only at h
        by_cases hsk : (!isBusy ps idx && skips ev idx) = true
        · rw [if_pos hsk] at h; exact ihA _ _ _ _ _ hno1 hc h
        · rw [if_neg hsk] at h
          cases a with
          | collapser ci => exact absurd hget (NoCol.out _ _)
          | plain i =>
            simp only at h
            rw [resetBusy_clean hc] at h
            split at h
            · exact ihA _ _ _ _ _ hno1 hc h
            · cases h; exact ⟨hc, rfl, Or.inl ⟨rfl, rfl⟩⟩
            · rename_i hv
              cases h
              refine ⟨clean_fin hc _ _, fin_ins _ _ _, Or.inr (Or.inl ⟨_, rfl, rfl, ?_⟩)⟩
              intro sk hch; subst hch; simp [plainVerdict] at hv
          | spawner =>
            simp only at h
            split at h
            · rename_i e
              split at h
              · rw [resetBusy_clean hc] at h; exact ihA _ _ _ _ _ hno1 hc h
              · split at h
                · rename_i ps1 why hk
                  cases h
                  obtain ⟨c1, i1, t1⟩ := ihK _ _ _ _ _ _ hno1 hc hk
                  exact ⟨c1, i1, Or.inr (Or.inr ⟨_, rfl, t1⟩)⟩
                · rename_i ps1 hk
                  obtain ⟨c1, i1, t1⟩ := ihK _ _ _ _ _ _ hno1 hc hk
                  rw [busyTotal_clean c1] at h
                  simp only [↓reduceIte, resetBusy_clean c1] at h
                  cases h
                  exact ⟨c1, i1, Or.inl ⟨rfl, t1⟩⟩
            · rw [resetBusy_clean hc] at h; exact ihA _ _ _ _ _ hno1 hc h
          | holder f => exact absurd hget (hno idx f (Nat.le_refl _))
    · intro idx sk k ps ps' r hno hc h
      cases k with
      | zero => rw [spawnKids.eq_def] at h; simp only at h; cases h; exact ⟨hc, rfl, rfl⟩
      | succ k =>
        rw [spawnKids.eq_def] at h; simp only at h
        split at h
        · rename_i ps1 why hd
          cases h
          obtain ⟨c1, i1, t1⟩ := ihA _ _ _ _ _ hno hc hd
          refine ⟨c1, i1, ?_⟩
          rcases t1 with ⟨_, t⟩ | ⟨l, _, _, hne⟩ | ⟨w, _, t⟩
          · exact t
          · exact absurd rfl (hne sk)
          · exact t
        · rename_i ps1 r1 hnh hd
          obtain ⟨c1, i1, t1⟩ := ihA _ _ _ _ _ hno hc hd
          obtain ⟨c2, i2, t2⟩ := ihK _ _ _ _ _ _ hno c1 h
          refine ⟨c2, i2.trans i1, t2.trans ?_⟩
          rcases t1 with ⟨_, t⟩ | ⟨l, _, _, hne⟩ | ⟨w, _, t⟩
          · exact t
          · exact absurd rfl (hne sk)
          · exact t

theorem flush_state {ps : PS} {h : Nat} {x : EvSpec} (hh : Holding ps h x) (t : Op) :
    Clean (resetBusy (emit (setHeld ps h none) t) h) ∧
    (resetBusy (emit (setHeld ps h none) t) h).toks = ps.toks ++ [t] ∧
    (resetBusy (emit (setHeld ps h none) t) h).ins = ps.ins := by
  cases ps; simp_all [resetBusy, emit, setHeld, Holding, Clean]

/-- **flush**: the only holder re-injects its event; downstream nothing is busy, so the event is
    handed to the output or discarded right away and the nested frame returns -/
theorem flush_holding (acts : List Act) [NoCol acts] (h : Nat) (hno : NoHolderFrom acts (h+1)) :
    ∀ fuel ps ps' r x, Holding ps h x → flushAt fuel acts h ps = (ps', r) →
      ps'.ins = ps.ins ∧
      ((r = none ∧ Clean ps' ∧ (ps'.toks = ps.toks ++ [.propagate x.seq, .out x.seq] ∨
                                ps'.toks = ps.toks ++ [.propagate x.seq, .drop x.seq])) ∨
       (r ≠ none ∧ (ps'.toks = ps.toks ∨ ps'.toks = ps.toks ++ [.propagate x.seq]))) := by
  intro fuel ps ps' r x hh hf
  rw [flushAt.eq_def] at hf
  cases fuel with
  | zero => simp only at hf; cases hf; exact ⟨rfl, Or.inr ⟨by simp, Or.inl rfl⟩⟩
  | succ n =>
    simp only [heldAt_holding hh] at hf
    obtain ⟨c0, t0, i0⟩ := flush_state hh (.propagate x.seq)
    generalize resetBusy (emit (setHeld ps h none) (.propagate x.seq)) h = ps0 at hf c0 t0 i0
    cases hd : doActs n acts (h+1) (.reg x) ps0 with
    | mk ps1 r1 =>
      obtain ⟨c1, i1, t1⟩ := (post_run acts n).1 _ _ _ _ _ hno c0 hd
      rw [hd] at hf
      rcases t1 with ⟨rfl, t⟩ | ⟨l, rfl, t, _⟩ | ⟨w, rfl, t⟩
      · simp only at hf; cases hf
        refine ⟨by simp [emit, i1, i0], Or.inl ⟨rfl, clean_emit c1 _, Or.inl ?_⟩⟩
        simp [emit, t, t0]
      · simp only at hf; cases hf
        refine ⟨by simp [i1, i0], Or.inl ⟨rfl, c1, Or.inr ?_⟩⟩
        simp [t, fin_toks, t0]
      · simp only at hf; cases hf
        exact ⟨by simp [i1, i0], Or.inr ⟨by simp, Or.inr (by simp [t, t0])⟩⟩

/-! ### the chain: at most one holder (at position `h`; `h = acts.length` when there is none) -/

structure Chain (acts : List Act) (h : Nat) : Prop where
  pos  : (∃ f, acts[h]? = some (.holder f)) ∨ h = acts.length
  only : ∀ j g, acts[j]? = some (.holder g) → j = h

/-- no plain action upstream of the holder breaks this event -/
def OKSpec (acts : List Act) (h : Nat) (e : EvSpec) : Prop :=
  ∀ j i, j < h → acts[j]? = some (.plain i) → e.vs.getD i .pass ≠ .brk

/-- the automaton state `d` mirrors the processor state `ps`; `c` is the event in hand, `lb` a
    bound between what is held and what is in hand -/
def StateOK (acts : List Act) (h : Nat) (ps : PS) (d : DS) (c : Option Nat) (lb : Nat) : Prop :=
  d.propd = [] ∧ d.inhand = c ∧ (∀ q, c = some q → lb < q) ∧
  ((Clean ps ∧ d.held = []) ∨
   (∃ x f, Holding ps h x ∧ acts[h]? = some (.holder f) ∧ d.held = [x.seq] ∧ x.seq ≤ lb))

def EvOK (acts : List Act) (h : Nat) (ev : Ev) (c : Option Nat) : Prop :=
  match ev with
  | .reg e => c = some e.seq ∧ OKSpec acts h e
  | _ => True

def Post (acts : List Act) (h : Nat) (r : Res) (ev : Ev) (ps' : PS) (d' : DS) (c : Option Nat) (lb : Nat) : Prop :=
  match r with
  | .passed => StateOK acts h ps' d' c lb ∧ Clean ps'
  | .stopped _ =>
    match ev with
    | .reg e => StateOK acts h ps' d' none e.seq
    | .tmo => StateOK acts h ps' d' c lb
    | .child _ => False
  | .halt _ => True

theorem d_drop_inhand {d : DS} {q : Nat} (hq : d.inhand = some q) :
    drun d [.drop q] = some { d with inhand := none } := by
  simp [drun, dstep?, hq]

theorem d_hold_inhand {d : DS} {q : Nat} (hq : d.inhand = some q) :
    drun d [.hold q] = some { d with inhand := none, held := d.held ++ [q] } := by
  simp [drun, dstep?, hq]

theorem d_prop {d : DS} {x : Nat} (hh : d.held = [x]) :
    drun d [.propagate x] = some { d with held := [], propd := x :: d.propd } := by
  simp [drun, dstep?, hh]

theorem d_flush_out {d : DS} {x : Nat} (hp : d.propd = []) (hh : d.held = [x])
    (hlt : ∀ q, d.inhand = some q → x < q) :
    drun d [.propagate x, .out x] = some { d with held := [], propd := [] } := by
  have hg : ∀ y ∈ d.inhand.toList, x ≤ y := by
    intro y hy; cases hi : d.inhand with
    | none => simp [hi] at hy
    | some q => simp [hi] at hy; subst hy; exact Nat.le_of_lt (hlt _ hi)
  simp [drun, dstep?, hh, hp]
  intro y hy; exact hg y (by simpa using hy)

theorem d_flush_drop {d : DS} {x : Nat} (hp : d.propd = []) (hh : d.held = [x])
    (hlt : ∀ q, d.inhand = some q → x < q) :
    drun d [.propagate x, .drop x] = some { d with held := [], propd := [] } := by
  have hne : d.inhand ≠ some x := by
    intro hi; exact absurd (hlt x hi) (Nat.lt_irrefl _)
  simp [drun, dstep?, hh, hp, hne]

/-- flush, seen by the automaton -/
theorem flush_sim (acts : List Act) [NoCol acts] (h : Nat) (hno : NoHolderFrom acts (h+1))
    {fuel : Nat} {ps ps' : PS} {r : Option String} {x : EvSpec} {d : DS}
    (hh : Holding ps h x) (hp : d.propd = []) (hd : d.held = [x.seq]) (hlt : ∀ q, d.inhand = some q → x.seq < q)
    (hf : flushAt fuel acts h ps = (ps', r)) :
    ∃ extra d', ps'.toks = ps.toks ++ extra ∧ drun d extra = some d' ∧ ps'.ins = ps.ins ∧
      (r = none → Clean ps' ∧ d' = { d with held := [], propd := [] }) := by
  obtain ⟨hi, hcase⟩ := flush_holding acts h hno fuel ps ps' r x hh hf
  rcases hcase with ⟨rfl, hc, ht | ht⟩ | ⟨hr, ht | ht⟩
  · exact ⟨_, _, ht, d_flush_out hp hd hlt, hi, fun _ => ⟨hc, rfl⟩⟩
  · exact ⟨_, _, ht, d_flush_drop hp hd hlt, hi, fun _ => ⟨hc, rfl⟩⟩
  · exact ⟨[], d, by simp [ht], rfl, hi, fun h0 => absurd h0 hr⟩
  · exact ⟨_, _, ht, d_prop hd, hi, fun h0 => absurd h0 hr⟩

theorem noHolder_after {acts : List Act} [NoCol acts] {h : Nat} (hch : Chain acts h) : NoHolderFrom acts (h+1) := by
  intro j g hj hget
  have := hch.only j g hget
  omega

theorem chain_not_holder_lt {acts : List Act} [NoCol acts] {h idx : Nat} (hch : Chain acts h) (hle : idx ≤ h)
    {a : Act} (hget : acts[idx]? = some a) (hna : ∀ g, a ≠ .holder g) : idx < h := by
  rcases Nat.lt_or_ge idx h with hlt | hge
  · exact hlt
  · have : idx = h := by omega
    subst this
    rcases hch.pos with ⟨f, hf⟩ | hlen
    · rw [hf] at hget; cases hget; exact absurd rfl (hna f)
    · have : acts[idx]? = none := by rw [List.getElem?_eq_none_iff]; omega
      rw [this] at hget; cases hget

theorem stateOK_reset_ne {acts : List Act} [NoCol acts] {h idx : Nat} {ps : PS} {d : DS} {c : Option Nat} {lb : Nat}
    (hs : StateOK acts h ps d c lb) (hne : idx ≠ h) : resetBusy ps idx = ps := by
  rcases hs.2.2.2 with ⟨hc, _⟩ | ⟨x, f, hh, _, _, _⟩
  · exact resetBusy_clean hc _
  · exact resetBusy_holding_ne hh hne

theorem holding_fin {ps : PS} {h : Nat} {x : EvSpec} (hh : Holding ps h x) (ev : Ev) (b : Bool) :
    Holding (fin ps ev b) h x := by
  cases ev <;> simp [fin, emit, Holding] <;> exact hh

theorem markBusy_holding {ps : PS} {h : Nat} {x : EvSpec} (hh : Holding ps h x) : markBusy ps h = ps := by
  simp [markBusy, hh.1]

theorem hold_state {ps : PS} (hc : Clean ps) (h : Nat) (e : EvSpec) :
    Holding (fin (markBusy (setHeld ps h (some e)) h) (.reg e) false) h e ∧
    (fin (markBusy (setHeld ps h (some e)) h) (.reg e) false).toks = ps.toks ++ [.hold e.seq] ∧
    (fin (markBusy (setHeld ps h (some e)) h) (.reg e) false).ins = ps.ins := by
  cases ps; simp_all [fin, emit, markBusy, setHeld, Holding, Clean]

/-- the holder flushes first when it is joining -/
theorem maybe_flush (acts : List Act) [NoCol acts] (h : Nat) (hch : Chain acts h)
    {n : Nat} {ps ps1 : PS} {r1 : Option String} {d : DS} {c : Option Nat} {lb : Nat}
    (hs : StateOK acts h ps d c lb)
    (hf : (if (heldAt ps h).isSome = true then flushAt n acts h ps else (ps, none)) = (ps1, r1)) :
    ∃ extra d1, ps1.toks = ps.toks ++ extra ∧ drun d extra = some d1 ∧ ps1.ins = ps.ins ∧
      (r1 = none → Clean ps1 ∧ StateOK acts h ps1 d1 c lb ∧ d1.held = []) := by
  obtain ⟨hp, hi, hb, hst⟩ := hs
  rcases hst with ⟨hc, hd⟩ | ⟨x, f, hh, hget, hd, hx⟩
  · rw [heldAt_clean hc] at hf
    simp only [Option.isSome_none, Bool.false_eq_true, ↓reduceIte] at hf
    cases hf
    exact ⟨[], d, by simp, rfl, rfl, fun _ => ⟨hc, ⟨hp, hi, hb, Or.inl ⟨hc, hd⟩⟩, hd⟩⟩
  · rw [heldAt_holding hh] at hf
    simp only [Option.isSome_some, ↓reduceIte] at hf
    have hlt : ∀ q, d.inhand = some q → x.seq < q := by
      intro q hq; rw [hi] at hq; exact Nat.lt_of_le_of_lt hx (hb q hq)
    obtain ⟨extra, d1, ht, hdr, hin, hok⟩ := flush_sim acts h (noHolder_after hch) hh hp hd hlt hf
    refine ⟨extra, d1, ht, hdr, hin, fun h0 => ?_⟩
    obtain ⟨hc1, hd1⟩ := hok h0
    subst hd1
    exact ⟨hc1, ⟨rfl, hi, hb, Or.inl ⟨hc1, rfl⟩⟩, rfl⟩

/-- downstream of the holder, seen by the automaton -/
theorem post_sim (acts : List Act) [NoCol acts] (h : Nat) (hch : Chain acts h)
    {n : Nat} {ev : Ev} {ps ps' : PS} {r : Res} {d : DS} {c : Option Nat} {lb : Nat}
    (hc : Clean ps) (hs : StateOK acts h ps d c lb) (hd0 : d.held = []) (hev : EvOK acts h ev c)
    (hf : doActs n acts (h+1) ev ps = (ps', r)) :
    ∃ extra d', ps'.toks = ps.toks ++ extra ∧ drun d extra = some d' ∧ ps'.ins = ps.ins ∧
      Post acts h r ev ps' d' c lb := by
  obtain ⟨c1, i1, t1⟩ := (post_run acts n).1 _ _ _ _ _ (noHolder_after hch) hc hf
  obtain ⟨hp, hi, hb, _⟩ := hs
  rcases t1 with ⟨rfl, t⟩ | ⟨l, rfl, t, hne⟩ | ⟨w, rfl, t⟩
  · exact ⟨[], d, by simp [t], rfl, i1, ⟨hp, hi, hb, Or.inl ⟨c1, hd0⟩⟩, c1⟩
  · cases ev with
    | reg e =>
      obtain ⟨hce, _⟩ := hev
      have hq : d.inhand = some e.seq := by rw [hi, hce]
      refine ⟨[.drop e.seq], _, by simp [t, fin_toks], d_drop_inhand hq, i1, ?_⟩
      exact ⟨hp, rfl, by simp, Or.inl ⟨c1, hd0⟩⟩
    | tmo => exact ⟨[], d, by simp [t, fin_toks], rfl, i1, ⟨hp, hi, hb, Or.inl ⟨c1, hd0⟩⟩⟩
    | child sk => exact absurd rfl (hne sk)
  · exact ⟨[], d, by simp [t], rfl, i1, trivial⟩

theorem drun_two {d d1 d2 : DS} {a b : List Op} (h1 : drun d a = some d1) (h2 : drun d1 b = some d2) :
    drun d (a ++ b) = some d2 := by
  rw [drun_append, h1]; exact h2

/-- **the run of one event through the chain, from at or before the holder**, simulated by the
    discipline automaton -/
theorem pre_run (acts : List Act) [NoCol acts] (h : Nat) (hch : Chain acts h) :
    ∀ fuel,
      (∀ idx ev ps ps' r d c lb, idx ≤ h → StateOK acts h ps d c lb → EvOK acts h ev c →
        doActs fuel acts idx ev ps = (ps', r) →
        ∃ extra d', ps'.toks = ps.toks ++ extra ∧ drun d extra = some d' ∧ ps'.ins = ps.ins ∧
          Post acts h r ev ps' d' c lb) ∧
      (∀ idx sk k ps ps' r d c lb, idx < h → StateOK acts h ps d c lb →
        spawnKids fuel acts idx sk k ps = (ps', r) →
        ∃ extra d', ps'.toks = ps.toks ++ extra ∧ drun d extra = some d' ∧ ps'.ins = ps.ins ∧
          (r = none → StateOK acts h ps' d' c lb ∧ (k ≠ 0 → Clean ps'))) := by
  intro fuel
  induction fuel with
  | zero =>
    constructor
    · intro idx ev ps ps' r d c lb _ _ _ hf
      rw [doActs.eq_def] at hf; simp only at hf; cases hf
      exact ⟨[], d, by simp, rfl, rfl, trivial⟩
    · intro idx sk k ps ps' r d c lb _ _ hf
      rw [spawnKids.eq_def] at hf; simp only at hf; cases hf
      exact ⟨[], d, by simp, rfl, rfl, fun h0 => by cases h0⟩
  | succ n ih =>
    obtain ⟨ihA, ihK⟩ := ih
    constructor
    · intro idx ev ps ps' r d c lb hle hs hev hf
      rw [doActs.eq_def] at hf; simp only at hf
      cases hget : acts[idx]? with
      | none =>
        rw [hget] at hf; simp only at hf; cases hf
        refine ⟨[], d, by simp, rfl, rfl, hs, ?_⟩
        rcases hs.2.2.2 with ⟨hc, _⟩ | ⟨x, f, _, hgh, _, _⟩
        · exact hc
        · have h1 : acts.length ≤ idx := List.getElem?_eq_none_iff.1 hget
          have h2 : acts[h]? = none := List.getElem?_eq_none_iff.2 (by omega)
          rw [h2] at hgh; cases hgh
      | some a =>
        rw [hget] at hf; simp only at hf
        cases a with
        | collapser ci => exact absurd hget (NoCol.out _ _)
        | plain i =>
          have hlt : idx < h := chain_not_holder_lt hch hle hget (by intro g hg; cases hg)
          by_cases hsk : (!isBusy ps idx && skips ev idx) = true
          · rw [if_pos hsk] at hf; exact ihA _ _ _ _ _ _ _ _ (by omega) hs hev hf
          rw [if_neg hsk] at hf
          simp only at hf
          rw [stateOK_reset_ne hs (Nat.ne_of_lt hlt)] at hf
          cases hv : plainVerdict ev i with
          | pass => rw [hv] at hf; exact ihA _ _ _ _ _ _ _ _ (by omega) hs hev hf
          | brk =>
            exfalso
            cases ev with
            | reg e => exact hev.2 idx i hlt hget (by simpa [plainVerdict] using hv)
            | tmo => simp [plainVerdict] at hv
            | child sk => simp [plainVerdict] at hv
          | discard =>
            rw [hv] at hf; simp only at hf; cases hf
            obtain ⟨hp, hi, hb, hst⟩ := hs
            cases ev with
            | reg e =>
              have hq : d.inhand = some e.seq := by rw [hi, hev.1]
              refine ⟨[.drop e.seq], _, by simp [fin_toks], d_drop_inhand hq, fin_ins _ _ _, ?_⟩
              refine ⟨hp, rfl, by simp, ?_⟩
              rcases hst with ⟨hc, hd⟩ | ⟨x, f, hh, hgh, hd, hx⟩
              · exact Or.inl ⟨clean_fin hc _ _, hd⟩
              · refine Or.inr ⟨x, f, holding_fin hh _ _, hgh, hd, ?_⟩
                have := hb e.seq hev.1; omega
            | tmo => exact ⟨[], d, by simp [fin_toks], rfl, fin_ins _ _ _, ⟨hp, hi, hb, hst⟩⟩
            | child sk => simp [plainVerdict] at hv
        | spawner =>
          have hlt : idx < h := chain_not_holder_lt hch hle hget (by intro g hg; cases hg)
          by_cases hsk : (!isBusy ps idx && skips ev idx) = true
          · rw [if_pos hsk] at hf; exact ihA _ _ _ _ _ _ _ _ (by omega) hs hev hf
          rw [if_neg hsk] at hf
          simp only at hf
          have hreset := stateOK_reset_ne hs (Nat.ne_of_lt hlt)
          cases ev with
          | reg e =>
            simp only at hf
            by_cases hk : e.kids = 0
            · rw [if_pos hk, hreset] at hf
              exact ihA _ _ _ _ _ _ _ _ (by omega) hs hev hf
            · rw [if_neg hk] at hf
              cases hsk2 : spawnKids n acts idx e.kidSkip e.kids ps with
              | mk ps1 r1 =>
                rw [hsk2] at hf
                obtain ⟨extra, d1, ht, hdr, hin, hok⟩ := ihK _ _ _ _ _ _ _ _ _ hlt hs hsk2
                cases r1 with
                | some why => simp only at hf; cases hf; exact ⟨extra, d1, ht, hdr, hin, trivial⟩
                | none =>
                  obtain ⟨hs1, hc1⟩ := hok rfl
                  have hc1 := hc1 hk
                  simp only [busyTotal_clean hc1, ↓reduceIte, resetBusy_clean hc1] at hf
                  cases hf
                  exact ⟨extra, d1, ht, hdr, hin, hs1, hc1⟩
          | tmo => simp only at hf; rw [hreset] at hf; exact ihA _ _ _ _ _ _ _ _ (by omega) hs hev hf
          | child sk => simp only at hf; rw [hreset] at hf; exact ihA _ _ _ _ _ _ _ _ (by omega) hs hev hf
        | holder f =>
          have hidx : idx = h := hch.only idx f hget
          subst hidx
          by_cases hsk : (!isBusy ps idx && skips ev idx) = true
          · rw [if_pos hsk] at hf
            obtain ⟨hp, hi, hb, hst⟩ := hs
            rcases hst with ⟨hc, hd⟩ | ⟨x, g, hh, hgh, hd, hx⟩
            · exact post_sim acts idx hch hc ⟨hp, hi, hb, Or.inl ⟨hc, hd⟩⟩ hd hev hf
            · exfalso
              have : isBusy ps idx = true := by simp [isBusy, hh.1]
              simp [this] at hsk
          rw [if_neg hsk] at hf
          simp only at hf
          cases ev with
          | tmo =>
            simp only at hf
            obtain ⟨hp, hi, hb, hst⟩ := hs
            rcases hst with ⟨hc, hd⟩ | ⟨x, g, hh, hgh, hd, hx⟩
            · rw [heldAt_clean hc] at hf
              simp only [Option.isSome_none, Bool.not_false, ↓reduceIte] at hf
              cases hf
              exact ⟨[], d, by simp, rfl, rfl, trivial⟩
            · rw [heldAt_holding hh] at hf
              simp only [Option.isSome_some, Bool.not_true, Bool.false_eq_true, ↓reduceIte] at hf
              have hlt : ∀ q, d.inhand = some q → x.seq < q := by
                intro q hq; rw [hi] at hq; exact Nat.lt_of_le_of_lt hx (hb q hq)
              cases hfl : flushAt n acts idx ps with
              | mk ps1 r1 =>
                rw [hfl] at hf
                obtain ⟨extra, d1, ht, hdr, hin, hok⟩ := flush_sim acts idx (noHolder_after hch) hh hp hd hlt hfl
                cases r1 with
                | some why => simp only at hf; cases hf; exact ⟨extra, d1, ht, hdr, hin, trivial⟩
                | none =>
                  obtain ⟨hc1, hd1⟩ := hok rfl
                  simp only [resetBusy_clean hc1] at hf
                  cases hf; subst hd1
                  exact ⟨extra, _, ht, hdr, hin, ⟨rfl, hi, hb, Or.inl ⟨hc1, rfl⟩⟩⟩
          | reg e =>
            simp only at hf
            cases hcls : joinCls (.reg e) f with
            | cont =>
              rw [hcls] at hf; simp only at hf
              obtain ⟨hp, hi, hb, hst⟩ := hs
              rcases hst with ⟨hc, hd⟩ | ⟨x, g, hh, hgh, hd, hx⟩
              · rw [heldAt_clean hc] at hf
                simp only [Option.isSome_none, Bool.false_eq_true, ↓reduceIte, resetBusy_clean hc] at hf
                exact post_sim acts idx hch hc ⟨hp, hi, hb, Or.inl ⟨hc, hd⟩⟩ hd hev hf
              · rw [heldAt_holding hh] at hf
                simp only [Option.isSome_some, ↓reduceIte, markBusy_holding hh] at hf
                cases hf
                have hq : d.inhand = some e.seq := by rw [hi, hev.1]
                refine ⟨[.drop e.seq], _, by simp [fin_toks], d_drop_inhand hq, fin_ins _ _ _, ?_⟩
                refine ⟨hp, rfl, by simp, Or.inr ⟨x, g, holding_fin hh _ _, hgh, hd, ?_⟩⟩
                have := hb e.seq hev.1; omega
            | start =>
              rw [hcls] at hf; simp only at hf
              cases hmf : (if (heldAt ps idx).isSome = true then flushAt n acts idx ps else (ps, none)) with
              | mk ps1 r1 =>
                rw [hmf] at hf
                obtain ⟨extra, d1, ht, hdr, hin, hok⟩ := maybe_flush acts idx hch hs hmf
                cases r1 with
                | some why => simp only at hf; cases hf; exact ⟨extra, d1, ht, hdr, hin, trivial⟩
                | none =>
                  obtain ⟨hc1, hs1, hd1⟩ := hok rfl
                  simp only at hf; cases hf
                  obtain ⟨hh2, ht2, hi2⟩ := hold_state hc1 idx e
                  have hq : d1.inhand = some e.seq := by rw [hs1.2.1, hev.1]
                  refine ⟨extra ++ [.hold e.seq], _, by simp [ht2, ht], drun_two hdr (d_hold_inhand hq), by rw [hi2, hin], ?_⟩
                  refine ⟨hs1.1, rfl, by simp, Or.inr ⟨e, f, hh2, hget, by simp [hd1], Nat.le_refl _⟩⟩
            | other =>
              rw [hcls] at hf; simp only at hf
              cases hmf : (if (heldAt ps idx).isSome = true then flushAt n acts idx ps else (ps, none)) with
              | mk ps1 r1 =>
                rw [hmf] at hf
                obtain ⟨extra, d1, ht, hdr, hin, hok⟩ := maybe_flush acts idx hch hs hmf
                cases r1 with
                | some why => simp only at hf; cases hf; exact ⟨extra, d1, ht, hdr, hin, trivial⟩
                | none =>
                  obtain ⟨hc1, hs1, hd1⟩ := hok rfl
                  simp only [resetBusy_clean hc1] at hf
                  obtain ⟨extra2, d2, ht2, hdr2, hin2, hpost⟩ := post_sim acts idx hch hc1 hs1 hd1 hev hf
                  exact ⟨extra ++ extra2, d2, by simp [ht2, ht], drun_two hdr hdr2, by rw [hin2, hin], hpost⟩
            | absent =>
              rw [hcls] at hf; simp only at hf
              cases hmf : (if (heldAt ps idx).isSome = true then flushAt n acts idx ps else (ps, none)) with
              | mk ps1 r1 =>
                rw [hmf] at hf
                obtain ⟨extra, d1, ht, hdr, hin, hok⟩ := maybe_flush acts idx hch hs hmf
                cases r1 with
                | some why => simp only at hf; cases hf; exact ⟨extra, d1, ht, hdr, hin, trivial⟩
                | none =>
                  obtain ⟨hc1, hs1, hd1⟩ := hok rfl
                  simp only [resetBusy_clean hc1] at hf
                  obtain ⟨extra2, d2, ht2, hdr2, hin2, hpost⟩ := post_sim acts idx hch hc1 hs1 hd1 hev hf
                  exact ⟨extra ++ extra2, d2, by simp [ht2, ht], drun_two hdr hdr2, by rw [hin2, hin], hpost⟩
          | child sk =>
            have hcls : joinCls (.child sk) f = .absent := rfl
            simp only [hcls] at hf
            cases hmf : (if (heldAt ps idx).isSome = true then flushAt n acts idx ps else (ps, none)) with
            | mk ps1 r1 =>
              rw [hmf] at hf
              obtain ⟨extra, d1, ht, hdr, hin, hok⟩ := maybe_flush acts idx hch hs hmf
              cases r1 with
              | some why => simp only at hf; cases hf; exact ⟨extra, d1, ht, hdr, hin, trivial⟩
              | none =>
                obtain ⟨hc1, hs1, hd1⟩ := hok rfl
                simp only [resetBusy_clean hc1] at hf
                obtain ⟨extra2, d2, ht2, hdr2, hin2, hpost⟩ := post_sim acts idx hch hc1 hs1 hd1 hev hf
                exact ⟨extra ++ extra2, d2, by simp [ht2, ht], drun_two hdr hdr2, by rw [hin2, hin], hpost⟩
    · intro idx sk k ps ps' r d c lb hlt hs hf
      cases k with
      | zero =>
        rw [spawnKids.eq_def] at hf; simp only at hf; cases hf
        exact ⟨[], d, by simp, rfl, rfl, fun _ => ⟨hs, fun h0 => absurd rfl h0⟩⟩
      | succ k =>
        rw [spawnKids.eq_def] at hf; simp only at hf
        cases hd : doActs n acts (idx+1) (.child sk) ps with
        | mk ps1 r1 =>
          rw [hd] at hf
          obtain ⟨extra, d1, ht, hdr, hin, hpost⟩ := ihA _ _ _ _ _ _ _ _ (by omega) hs (by simp [EvOK]) hd
          cases r1 with
          | halt why => simp only at hf; cases hf; exact ⟨extra, d1, ht, hdr, hin, fun h0 => by cases h0⟩
          | stopped l => exact absurd hpost (by simp [Post])
          | passed =>
            simp only at hf
            obtain ⟨hs1, hc1⟩ := hpost
            obtain ⟨extra2, d2, ht2, hdr2, hin2, hok2⟩ := ihK _ _ _ _ _ _ _ _ _ hlt hs1 hf
            refine ⟨extra ++ extra2, d2, by simp [ht2, ht], drun_two hdr hdr2, by rw [hin2, hin], fun h0 => ?_⟩
            obtain ⟨hs2, hck⟩ := hok2 h0
            refine ⟨hs2, fun _ => ?_⟩
            by_cases hk0 : k = 0
            · subst hk0
              rw [spawnKids.eq_def] at hf
              cases n with
              | zero => simp only at hf; cases hf; cases h0
              | succ n => simp only at hf; cases hf; exact hc1
            · exact hck hk0

/-! ### the loops: processEvent's blockGet loop and dischargeStream -/

/-- the stream hands events out in read order: sequence numbers of the items grow -/
def Above : Nat → List Item → Prop
  | _, [] => True
  | lb, .ev e :: r => lb < e.seq ∧ Above e.seq r
  | lb, .tmo :: r => Above lb r
  | lb, .gap :: r => Above lb r

def ItemsOK (acts : List Act) (h : Nat) (ins : List Item) : Prop := ∀ e, Item.ev e ∈ ins → OKSpec acts h e

theorem d_out_inhand {d : DS} {q : Nat} (hp : d.propd = []) (hh : d.held = []) (hq : d.inhand = some q) :
    drun d [.out q] = some { d with inhand := none } := by
  simp [drun, dstep?, hp, hh, hq]

theorem d_get {d : DS} {q : Nat} (hp : d.propd = []) (hq : d.inhand = none) :
    drun d [.get q] = some { d with inhand := some q } := by
  simp [drun, dstep?, hp, hq]

theorem d_getTimeout {d : DS} (hp : d.propd = []) (hq : d.inhand = none) :
    drun d [.getTimeout] = some d := by
  simp [drun, dstep?, hp, hq]

theorem timeoutAction_holding {ps : PS} {h : Nat} {x : EvSpec} (hh : Holding ps h x) (last : Nat) :
    timeoutAction ps last = h := by
  unfold timeoutAction isBusy
  rw [hh.1]
  by_cases hl : last = h
  · subst hl; simp
  · have : ([h] : List Nat).contains last = false := by simp; omega
    rw [this]; simp

theorem stateOK_clean_held {acts : List Act} [NoCol acts] {h : Nat} {ps : PS} {d : DS} {c : Option Nat} {lb : Nat}
    (hs : StateOK acts h ps d c lb) (hc : Clean ps) : d.held = [] := by
  rcases hs.2.2.2 with ⟨_, hd⟩ | ⟨x, f, hh, _, _, _⟩
  · exact hd
  · have := hh.1; rw [hc.1] at this; cases this

theorem stateOK_busy0 {acts : List Act} [NoCol acts] {h : Nat} {ps : PS} {d : DS} {c : Option Nat} {lb : Nat}
    (hs : StateOK acts h ps d c lb) (hb : busyTotal ps = 0) : Clean ps := by
  rcases hs.2.2.2 with ⟨hc, _⟩ | ⟨x, f, hh, _, _, _⟩
  · exact hc
  · simp [busyTotal, hh.1] at hb

/-- moving the input cursor and logging an operation leave the action state alone -/
theorem stateOK_take {acts : List Act} [NoCol acts] {h : Nat} {ps : PS} {d : DS} {lb m : Nat} (rest : List Item) (t : Op)
    (c' : Option Nat) (hs : StateOK acts h ps d none lb) (hlm : lb ≤ m) (hc' : ∀ q, c' = some q → m < q) :
    StateOK acts h (emit { ps with ins := rest } t) { d with inhand := c' } c' m := by
  obtain ⟨hp, _, _, hst⟩ := hs
  refine ⟨hp, rfl, hc', ?_⟩
  rcases hst with ⟨hc, hd⟩ | ⟨x, f, hh, hg, hd, hx⟩
  · exact Or.inl ⟨by simpa [Clean, emit] using hc, hd⟩
  · exact Or.inr ⟨x, f, by simpa [Holding, emit] using hh, hg, hd, by omega⟩

theorem procEv_sim (acts : List Act) [NoCol acts] (h : Nat) (hch : Chain acts h) :
    ∀ fuel ev idx ps ps' r d c lb m, idx ≤ h → StateOK acts h ps d c lb → EvOK acts h ev c →
      (∀ sk, ev ≠ .child sk) → (ev = .tmo → c = none) → lb ≤ m → (∀ q, c = some q → q ≤ m) →
      Above m ps.ins → ItemsOK acts h ps.ins →
      procEv fuel acts ev idx ps = (ps', r) →
      ∃ extra d', ps'.toks = ps.toks ++ extra ∧ drun d extra = some d' ∧
        ((∀ w, r ≠ .halt w) → Clean ps' ∧ d' = {} ∧ ∃ m', Above m' ps'.ins ∧ ItemsOK acts h ps'.ins) := by
  intro fuel
  induction fuel with
  | zero =>
    intro ev idx ps ps' r d c lb m _ _ _ _ _ _ _ _ _ hf
    rw [procEv.eq_def] at hf; simp only at hf; cases hf
    exact ⟨[], d, by simp, rfl, fun h0 => absurd rfl (h0 _)⟩
  | succ n ih =>
    intro ev idx ps ps' r d c lb m hle hs hev hnc htm hlm hcm hab hio hf
    rw [procEv.eq_def] at hf; simp only at hf
    cases hd : doActs n acts idx ev ps with
    | mk ps1 r1 =>
      rw [hd] at hf
      obtain ⟨extra, d1, ht, hdr, hin, hpost⟩ := (pre_run acts h hch n).1 _ _ _ _ _ _ _ _ hle hs hev hd
      cases r1 with
      | halt why => simp only at hf; cases hf; exact ⟨extra, d1, ht, hdr, fun h0 => absurd rfl (h0 _)⟩
      | passed =>
        simp only at hf
        obtain ⟨hs1, hc1⟩ := hpost
        cases ev with
        | reg e =>
          simp only at hf; cases hf
          have hq : d1.inhand = some e.seq := by rw [hs1.2.1, hev.1]
          refine ⟨extra ++ [.out e.seq], _, by simp [emit, ht],
            drun_two hdr (d_out_inhand hs1.1 (stateOK_clean_held hs1 hc1) hq), fun _ => ?_⟩
          refine ⟨clean_emit hc1 _, ?_, m, by simpa [emit, hin] using hab, by simpa [emit, hin] using hio⟩
          have h1 := hs1.1; have h2 := stateOK_clean_held hs1 hc1
          cases d1; simp_all
        | tmo => simp only at hf; cases hf; exact ⟨extra, d1, ht, hdr, fun h0 => absurd rfl (h0 _)⟩
        | child sk => exact absurd rfl (hnc sk)
      | stopped last =>
        simp only at hf
        -- the state after the event was disposed of: nothing in hand
        have hs1 : StateOK acts h ps1 d1 none m := by
          cases ev with
          | reg e =>
            obtain ⟨hp, hi, _, hst⟩ := (hpost : StateOK acts h ps1 d1 none e.seq)
            refine ⟨hp, hi, by simp, ?_⟩
            rcases hst with hcl | ⟨x, f, hh, hg, hd1, hx⟩
            · exact Or.inl hcl
            · exact Or.inr ⟨x, f, hh, hg, hd1, Nat.le_trans hx (hcm _ hev.1)⟩
          | tmo =>
            have hcn := htm rfl
            subst hcn
            obtain ⟨hp, hi, _, hst⟩ := (hpost : StateOK acts h ps1 d1 none lb)
            refine ⟨hp, hi, by simp, ?_⟩
            rcases hst with hcl | ⟨x, f, hh, hg, hd1, hx⟩
            · exact Or.inl hcl
            · exact Or.inr ⟨x, f, hh, hg, hd1, Nat.le_trans hx hlm⟩
          | child sk => exact absurd rfl (hnc sk)
        by_cases hb : busyTotal ps1 = 0
        · rw [if_pos hb] at hf; cases hf
          have hc1 := stateOK_busy0 hs1 hb
          refine ⟨extra, d1, ht, hdr, fun _ => ⟨hc1, ?_, m, by simpa [hin] using hab, by simpa [hin] using hio⟩⟩
          have h1 := hs1.1; have h2 := stateOK_clean_held hs1 hc1; have h3 := hs1.2.1
          cases d1; simp_all
        · rw [if_neg hb] at hf
          rw [hin] at hf
          cases hins : ps.ins with
          | nil => rw [hins] at hf; simp only at hf; cases hf; exact ⟨extra, d1, ht, hdr, fun h0 => absurd rfl (h0 _)⟩
          | cons it rest =>
            rw [hins] at hf hab hio
            cases it with
            | gap => simp only at hf; cases hf; exact ⟨extra, d1, ht, hdr, fun h0 => absurd rfl (h0 _)⟩
            | ev e' =>
              simp only at hf
              obtain ⟨hlt', hab'⟩ := (hab : m < e'.seq ∧ Above e'.seq rest)
              have hs2 := stateOK_take rest (.get e'.seq) (some e'.seq) hs1 (Nat.le_refl m) (by intro q hq; cases hq; exact hlt')
              have hio' : ItemsOK acts h rest := fun e he => hio e (List.mem_cons_of_mem _ he)
              obtain ⟨extra2, d2, ht2, hdr2, hok2⟩ := ih (.reg e') 0 _ _ _ _ (some e'.seq) m e'.seq (Nat.zero_le _) hs2
                ⟨rfl, hio e' (List.mem_cons_self ..)⟩ (by simp) (by simp) (Nat.le_of_lt hlt') (by intro q hq; cases hq; exact Nat.le_refl _)
                (by simpa [emit] using hab') (by simpa [emit] using hio') hf
              refine ⟨extra ++ [.get e'.seq] ++ extra2, d2, by simp [ht2, emit, ht], ?_, hok2⟩
              exact drun_two (drun_two hdr (d_get hs1.1 hs1.2.1)) hdr2
            | tmo =>
              simp only at hf
              have hs2 := stateOK_take rest .getTimeout none hs1 (Nat.le_refl m) (by simp)
              have hio' : ItemsOK acts h rest := fun e he => hio e (List.mem_cons_of_mem _ he)
              have hidx : timeoutAction ps1 last ≤ h := by
                rcases hs1.2.2.2 with ⟨hc, _⟩ | ⟨x, f, hh, _, _, _⟩
                · exact absurd (busyTotal_clean hc) hb
                · rw [timeoutAction_holding hh]; exact Nat.le_refl _
              have hd1 : ({ d1 with inhand := none } : DS) = d1 := by
                have := hs1.2.1; cases d1; simp_all
              rw [hd1] at hs2
              obtain ⟨extra2, d2, ht2, hdr2, hok2⟩ := ih .tmo _ _ _ _ _ none m m hidx hs2
                (by simp [EvOK]) (by simp) (by simp) (Nat.le_refl _) (by simp)
                (by have hab2 : Above m rest := hab
                    simpa [emit] using hab2) (by simpa [emit] using hio') hf
              refine ⟨extra ++ [.getTimeout] ++ extra2, d2, by simp [ht2, emit, ht], ?_, hok2⟩
              exact drun_two (drun_two hdr (d_getTimeout hs1.1 hs1.2.1)) hdr2

theorem procSeq_sim (acts : List Act) [NoCol acts] (h : Nat) (hch : Chain acts h)
    {fuel : Nat} {ev : Ev} {ps ps' : PS} {r : Option String} {d : DS} {c : Option Nat} {lb m : Nat}
    (hs : StateOK acts h ps d c lb) (hev : EvOK acts h ev c) (hnc : ∀ sk, ev ≠ .child sk) (htm : ev = .tmo → c = none)
    (hlm : lb ≤ m) (hcm : ∀ q, c = some q → q ≤ m) (hab : Above m ps.ins) (hio : ItemsOK acts h ps.ins)
    (hf : procSeq fuel acts ev 0 ps = (ps', r)) :
    ∃ extra d', ps'.toks = ps.toks ++ extra ∧ drun d extra = some d' ∧
      (r = none → Clean ps' ∧ d' = {} ∧ ∃ m', Above m' ps'.ins ∧ ItemsOK acts h ps'.ins) := by
  rw [procSeq.eq_def] at hf
  cases fuel with
  | zero => simp only at hf; cases hf; exact ⟨[], d, by simp, rfl, fun h0 => by cases h0⟩
  | succ n =>
    simp only at hf
    cases hp : procEv n acts ev 0 ps with
    | mk ps1 r1 =>
      rw [hp] at hf
      obtain ⟨extra, d1, ht, hdr, hok⟩ := procEv_sim acts h hch n ev 0 ps ps1 r1 d c lb m (Nat.zero_le _) hs hev hnc htm hlm hcm hab hio hp
      cases r1 with
      | halt why => simp only at hf; cases hf; exact ⟨extra, d1, ht, hdr, fun h0 => by cases h0⟩
      | passed => simp only at hf; cases hf; exact ⟨extra, d1, ht, hdr, fun _ => hok (by intro w hw; cases hw)⟩
      | stopped l => simp only at hf; cases hf; exact ⟨extra, d1, ht, hdr, fun _ => hok (by intro w hw; cases hw)⟩

theorem stateOK_empty (acts : List Act) [NoCol acts] (h : Nat) {ps : PS} (hc : Clean ps) (lb : Nat) :
    StateOK acts h ps {} none lb := ⟨rfl, rfl, by simp, Or.inl ⟨hc, rfl⟩⟩

theorem discharge_sim (acts : List Act) [NoCol acts] (h : Nat) (hch : Chain acts h) :
    ∀ fuel ps ps' r m, Clean ps → Above m ps.ins → ItemsOK acts h ps.ins →
      discharge fuel acts ps = (ps', r) →
      ∃ extra d', ps'.toks = ps.toks ++ extra ∧ drun {} extra = some d' := by
  intro fuel
  induction fuel with
  | zero =>
    intro ps ps' r m _ _ _ hf
    rw [discharge] at hf; cases hf; exact ⟨[], {}, by simp, rfl⟩
  | succ n ih =>
    intro ps ps' r m hc hab hio hf
    rw [discharge] at hf
    cases hins : ps.ins with
    | nil => rw [hins] at hf; simp only at hf; cases hf; exact ⟨[], {}, by simp, rfl⟩
    | cons it rest =>
      rw [hins] at hf hab hio
      have hio' : ItemsOK acts h rest := fun e he => hio e (List.mem_cons_of_mem _ he)
      cases it with
      | gap =>
        simp only at hf
        have hab2 : Above m rest := hab
        obtain ⟨extra2, d2, ht2, hdr2⟩ := ih _ _ _ m (by simpa [Clean, emit] using hc) (by simpa [emit] using hab2) (by simpa [emit] using hio') hf
        refine ⟨[.leave] ++ extra2, d2, by simp [ht2, emit], ?_⟩
        exact drun_two (by simp [drun, dstep?]) hdr2
      | ev e =>
        simp only at hf
        obtain ⟨hlt, hab2⟩ := (hab : m < e.seq ∧ Above e.seq rest)
        cases hp : procSeq n acts (.reg e) 0 (emit { ps with ins := rest } (.get e.seq)) with
        | mk ps1 r1 =>
          rw [hp] at hf
          have hs2 := stateOK_take rest (.get e.seq) (some e.seq) (stateOK_empty acts h hc m) (Nat.le_refl m) (by intro q hq; cases hq; exact hlt)
          have hev2 : EvOK acts h (.reg e) (some e.seq) := ⟨rfl, hio e (List.mem_cons_self ..)⟩
          obtain ⟨extra, d1, ht, hdr, hok⟩ := procSeq_sim acts h hch hs2 hev2 (by simp) (by simp)
            (Nat.le_of_lt hlt) (by intro q hq; cases hq; exact Nat.le_refl _) (by simpa [emit] using hab2) (by simpa [emit] using hio') hp
          have hget : drun ({} : DS) [.get e.seq] = some { ({} : DS) with inhand := some e.seq } := d_get rfl rfl
          cases r1 with
          | some why =>
            simp only at hf; cases hf
            exact ⟨[.get e.seq] ++ extra, d1, by simp [ht, emit], drun_two hget hdr⟩
          | none =>
            simp only at hf
            obtain ⟨hc1, hd1, m', hab1, hio1⟩ := hok rfl
            subst hd1
            obtain ⟨extra2, d2, ht2, hdr2⟩ := ih _ _ _ m' hc1 hab1 hio1 hf
            exact ⟨[.get e.seq] ++ extra ++ extra2, d2, by simp [ht2, ht, emit], drun_two (drun_two hget hdr) hdr2⟩
      | tmo =>
        simp only at hf
        have hab2 : Above m rest := hab
        cases hp : procSeq n acts .tmo 0 (emit { ps with ins := rest } .getTimeout) with
        | mk ps1 r1 =>
          rw [hp] at hf
          have hs2 := stateOK_take rest .getTimeout none (stateOK_empty acts h hc m) (Nat.le_refl m) (by simp)
          obtain ⟨extra, d1, ht, hdr, hok⟩ := procSeq_sim acts h hch hs2 (by simp [EvOK]) (by simp) (by simp)
            (Nat.le_refl m) (by simp) (by simpa [emit] using hab2) (by simpa [emit] using hio') hp
          have hget : drun ({} : DS) [.getTimeout] = some ({} : DS) := d_getTimeout rfl rfl
          cases r1 with
          | some why =>
            simp only at hf; cases hf
            exact ⟨[.getTimeout] ++ extra, d1, by simp [ht, emit], drun_two hget hdr⟩
          | none =>
            simp only at hf
            obtain ⟨hc1, hd1, m', hab1, hio1⟩ := hok rfl
            subst hd1
            obtain ⟨extra2, d2, ht2, hdr2⟩ := ih _ _ _ m' hc1 hab1 hio1 hf
            exact ⟨[.getTimeout] ++ extra ++ extra2, d2, by simp [ht2, ht, emit], drun_two (drun_two hget hdr) hdr2⟩

/-! ### liveness of the holder: with enough call depth nothing halts downstream, and a time-out
    event makes the holder let go of its event -/

def kidsOfEv : Ev → Nat
  | .reg e => e.kids
  | _ => 0

/-- downstream of the holder, a run needs at most (remaining actions + children + 3) nested calls -/
theorem post_total (acts : List Act) [NoCol acts] :
    ∀ fuel,
      (∀ idx ev ps, NoHolderFrom acts idx → Clean ps → idx ≤ acts.length → (acts.length - idx) + kidsOfEv ev + 3 ≤ fuel →
        ∀ w, (doActs fuel acts idx ev ps).2 ≠ .halt w) ∧
      (∀ idx sk k ps, NoHolderFrom acts (idx+1) → Clean ps → idx < acts.length → (acts.length - idx) + k + 2 ≤ fuel →
        (spawnKids fuel acts idx sk k ps).2 = none) := by
  intro fuel
  induction fuel with
  | zero =>
    constructor
    · intro idx ev ps _ _ _ hb; omega
    · intro idx sk k ps _ _ _ hb; omega
  | succ n ih =>
    obtain ⟨ihA, ihK⟩ := ih
    constructor
    · intro idx ev ps hno hc _ hb w
      have hno1 : NoHolderFrom acts (idx+1) := fun j g hj => hno j g (by omega)
      rw [doActs.eq_def]; simp only
      cases hget : acts[idx]? with
      | none => simp
      | some a =>
        have hidx : idx < acts.length := by
          rcases Nat.lt_or_ge idx acts.length with hl | hg
          · exact hl
          · rw [List.getElem?_eq_none_iff.2 hg] at hget; cases hget
        simp only
        by_cases hsk : (!isBusy ps idx && skips ev idx) = true
        · rw [if_pos hsk]; exact ihA _ _ _ hno1 hc (by omega) (by omega) w
        · rw [if_neg hsk]
          cases a with
          | collapser ci => exact absurd hget (NoCol.out _ _)
          | plain i =>
            simp only; rw [resetBusy_clean hc]
            split
            · exact ihA _ _ _ hno1 hc (by omega) (by omega) w
            · simp
            · simp
          | spawner =>
            simp only
            cases ev with
            | reg e =>
              simp only
              by_cases hk : e.kids = 0
              · rw [if_pos hk, resetBusy_clean hc]; exact ihA _ _ _ hno1 hc (by omega) (by simp [kidsOfEv] at hb ⊢; omega) w
              · rw [if_neg hk]
                have hnone := ihK idx e.kidSkip e.kids ps hno1 hc hidx (by simp [kidsOfEv] at hb; omega)
                cases hsp : spawnKids n acts idx e.kidSkip e.kids ps with
                | mk ps1 r1 =>
                  rw [hsp] at hnone; simp only at hnone; subst hnone
                  obtain ⟨c1, _, _⟩ := (post_run acts n).2 _ _ _ _ _ _ hno1 hc hsp
                  simp [busyTotal_clean c1]
            | tmo => simp only; rw [resetBusy_clean hc]; exact ihA _ _ _ hno1 hc (by omega) (by simp [kidsOfEv] at hb ⊢; omega) w
            | child sk => simp only; rw [resetBusy_clean hc]; exact ihA _ _ _ hno1 hc (by omega) (by simp [kidsOfEv] at hb ⊢; omega) w
          | holder f => exact absurd hget (hno idx f (Nat.le_refl _))
    · intro idx sk k ps hno hc hidx hb
      cases k with
      | zero => rw [spawnKids.eq_def]
      | succ k =>
        rw [spawnKids.eq_def]; simp only
        cases hd : doActs n acts (idx+1) (.child sk) ps with
        | mk ps1 r1 =>
          have hnh := ihA (idx+1) (.child sk) ps hno hc (by omega) (by simp [kidsOfEv]; omega)
          rw [hd] at hnh; simp only at hnh
          obtain ⟨c1, _, _⟩ := (post_run acts n).1 _ _ _ _ _ hno hc hd
          cases r1 with
          | halt w => exact absurd rfl (hnh w)
          | passed => simp only; exact ihK idx sk k ps1 hno c1 hidx (by omega)
          | stopped l => simp only; exact ihK idx sk k ps1 hno c1 hidx (by omega)

/-- **a time-out event reaches the holder and the held event leaves the processor**: whatever
    action handled the previous event (`last`), the time-out is delivered to the busy holder
    (processor.timeoutAction), which re-injects its event; that event is handed to the output or
    dropped, the processor frame returns with nothing busy. -/
theorem timeout_flushes (acts : List Act) [NoCol acts] (h : Nat) (hch : Chain acts h)
    (ps : PS) (x : EvSpec) (f : Nat) (hh : Holding ps h x) (hget : acts[h]? = some (.holder f))
    (last fuel : Nat) (hfuel : acts.length + x.kids + 8 ≤ fuel) :
    ∃ ps', procEv fuel acts .tmo (timeoutAction ps last) ps = (ps', .stopped h) ∧ Clean ps' ∧ ps'.ins = ps.ins ∧
      (ps'.toks = ps.toks ++ [.propagate x.seq, .out x.seq] ∨ ps'.toks = ps.toks ++ [.propagate x.seq, .drop x.seq]) := by
  rw [timeoutAction_holding hh]
  obtain ⟨n4, rfl⟩ : ∃ n4, fuel = n4 + 5 := ⟨fuel - 5, by omega⟩
  have hno := noHolder_after hch
  -- the nested frame of the flush
  have hflush : ∃ ps1, flushAt (n4+3) acts h ps = (ps1, none) ∧ Clean ps1 ∧ ps1.ins = ps.ins ∧
      (ps1.toks = ps.toks ++ [.propagate x.seq, .out x.seq] ∨ ps1.toks = ps.toks ++ [.propagate x.seq, .drop x.seq]) := by
    cases hfl : flushAt (n4+3) acts h ps with
    | mk ps1 r1 =>
      obtain ⟨hi, hcase⟩ := flush_holding acts h hno (n4+3) ps ps1 r1 x hh hfl
      rcases hcase with ⟨rfl, hc, ht⟩ | ⟨hr, _⟩
      · exact ⟨ps1, rfl, hc, hi, ht⟩
      · -- cannot halt: enough depth
        exfalso
        rw [flushAt.eq_def] at hfl; simp only [heldAt_holding hh] at hfl
        obtain ⟨c0, _, _⟩ := flush_state hh (.propagate x.seq)
        generalize resetBusy (emit (setHeld ps h none) (.propagate x.seq)) h = ps0 at hfl c0
        have hlen : h < acts.length := by
          rcases Nat.lt_or_ge h acts.length with hl | hg
          · exact hl
          · rw [List.getElem?_eq_none_iff.2 hg] at hget; cases hget
        have hnh := (post_total acts (n4+2)).1 (h+1) (.reg x) ps0 hno c0 (by omega) (by simp [kidsOfEv]; omega)
        cases hd : doActs (n4+2) acts (h+1) (.reg x) ps0 with
        | mk ps2 r2 =>
          rw [hd] at hfl hnh; simp only at hnh
          cases r2 with
          | halt w => exact absurd rfl (hnh w)
          | passed => simp only at hfl; cases hfl; exact hr rfl
          | stopped l => simp only at hfl; cases hfl; exact hr rfl
  obtain ⟨ps1, hfl, hc1, hi1, ht1⟩ := hflush
  refine ⟨ps1, ?_, hc1, hi1, ht1⟩
  rw [procEv.eq_def]; simp only
  rw [doActs.eq_def]; simp only [hget]
  have hbusy : isBusy ps h = true := by simp [isBusy, hh.1]
  simp only [hbusy, Bool.not_true, Bool.false_and, Bool.false_eq_true, ↓reduceIte, heldAt_holding hh,
    Option.isSome_some, hfl, resetBusy_clean hc1, busyTotal_clean hc1]

end FileD.Proc
