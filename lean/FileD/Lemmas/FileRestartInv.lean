/-
  Helper lemmas for C03, part 3: every op of `FileRestart.step?` except `truncate` preserves `Inv`
  (`crash` under the hypothesis `CrashCovered`).
-/
import FileD.Lemmas.FileRestart
namespace FileD.FileRestart
open FileD FileD.SpecC06 FileD.SpecC03

/-! ### transfer lemmas -/

theorem Handled.mono {s s' : State} {i : Nat} {l : Nat × Bytes} (h : Handled s i l)
    (ha : ∀ e ∈ s.acked, e ∈ s'.acked) (hi : ∀ e ∈ s.inflight, e ∈ s'.inflight ∨ e ∈ s'.acked) :
    Handled s' i l := by
  rcases h with h | ⟨e, he, h3⟩
  · exact Or.inl (Covers_mono ha h)
  · rcases hi e he with h' | h'
    · exact Or.inr ⟨e, h', h3⟩
    · exact Or.inl ⟨e, h', h3⟩

/-- the job-independent transfer: acked grows, in-flight events stay in flight or become acked,
    no new in-flight event of this source -/
theorem JobInv.transfer {cfg : Cfg} {s s' : State} {i : Nat} {j : JobSt} {c : Bytes} {hl : List (Nat × Bytes)}
    (h : JobInv cfg s i j c hl)
    (ha : ∀ e ∈ s.acked, e ∈ s'.acked) (hi : ∀ e ∈ s.inflight, e ∈ s'.inflight ∨ e ∈ s'.acked)
    (hi' : ∀ e ∈ s'.inflight, e.ino = i → e ∈ s.inflight) : JobInv cfg s' i j c hl :=
  ⟨h.skip, h.le, h.tail, fun l hl' hacc => (h.handled l hl' hacc).mono ha hi, h.offs.mono' ha,
   fun e he hei => h.infl e (hi' e he hei) hei⟩

theorem JobInv.same {cfg : Cfg} {s s' : State} {i : Nat} {j : JobSt} {c : Bytes} {hl : List (Nat × Bytes)}
    (h : JobInv cfg s i j c hl) (ha : s'.acked = s.acked) (hi : s'.inflight = s.inflight) :
    JobInv cfg s' i j c hl :=
  h.transfer (fun _ h => ha ▸ h) (fun _ h => Or.inl (hi ▸ h)) (fun _ h _ => hi ▸ h)

theorem Glob.acked_mono {cfg : Cfg} {fs : Nat → Option FileSt} {a b : List Ev}
    {pe lo : Nat → Option Offsets} {up : Bool} (hab : ∀ e ∈ a, e ∈ b)
    (h : Glob cfg fs a pe lo up) : Glob cfg fs b pe lo up := by
  refine ⟨?_, ?_, ?_⟩
  · intro i p hp
    obtain ⟨f, hf, hne, hs⟩ := h.pers i p hp
    exact ⟨f, hf, hne, hs.mono' hab⟩
  · intro i p hp
    obtain ⟨f, hf, hne, hs, hpa⟩ := h.loaded i p hp
    exact ⟨f, hf, hne, hs.mono' hab, hpa.mono' hab⟩
  · intro hup i p f hp hf
    exact (h.down_prefix hup i p f hp hf).mono' hab

/-! ### ops that do not touch jobs or in-flight events -/

theorem inv_delivered {cfg : Cfg} {s : State} (d : List Ev) (h : Inv cfg s) :
    Inv cfg { s with delivered := d } :=
  ⟨h.glob, fun i j hj => by
      obtain ⟨f, hf, hji⟩ := h.jobs i j hj
      exact ⟨f, hf, hji.same rfl rfl⟩,
   h.infl_job, h.sorted, h.down, h.skipped⟩

theorem inv_scanning {cfg : Cfg} {s : State} (b : Bool) (h : Inv cfg s) :
    Inv cfg { s with scanning := b } :=
  ⟨h.glob, fun i j hj => by
      obtain ⟨f, hf, hji⟩ := h.jobs i j hj
      exact ⟨f, hf, hji.same rfl rfl⟩,
   h.infl_job, h.sorted, h.down, h.skipped⟩

theorem inv_panicked {cfg : Cfg} {s : State} (b : Bool) (h : Inv cfg s) :
    Inv cfg { s with panicked := b } :=
  ⟨h.glob, fun i j hj => by
      obtain ⟨f, hf, hji⟩ := h.jobs i j hj
      exact ⟨f, hf, hji.same rfl rfl⟩,
   h.infl_job, h.sorted, h.down, h.skipped⟩

theorem inv_ack {cfg : Cfg} {s : State} (e : Ev) (h : Inv cfg s) :
    Inv cfg { s with acked := s.acked ++ [e] } := by
  have hab : ∀ x ∈ s.acked, x ∈ s.acked ++ [e] := fun x hx => List.mem_append_left _ hx
  refine ⟨h.glob.acked_mono hab, ?_, h.infl_job, h.sorted, h.down, ?_⟩
  · intro i j hj
    obtain ⟨f, hf, hji⟩ := h.jobs i j hj
    exact ⟨f, hf, hji.transfer hab (fun _ h => Or.inl h) (fun _ h _ => h)⟩
  · intro x hx; exact Covers_mono hab (h.skipped x hx)

/-! ### save -/

theorem inv_save {cfg : Cfg} {s : State} {i : Nat} {j : JobSt} (hup : s.up = true) (hj : s.jobs i = some j)
    (h : Inv cfg s) :
    Inv cfg { s with persisted := upd s.persisted i (if j.offsets = [] then none else some j.offsets) } := by
  refine ⟨⟨?_, h.glob.loaded, ?_⟩, ?_, h.infl_job, h.sorted, h.down, h.skipped⟩
  · intro k p hp
    by_cases hk : k = i
    · subst hk
      simp only [upd_same] at hp
      split at hp
      · cases hp
      · rename_i hne
        cases hp
        obtain ⟨f, hf, hji⟩ := h.jobs k j hj
        exact ⟨f, hf, hne, hji.offs⟩
    · simp only [upd_other _ _ hk] at hp
      exact h.glob.pers k p hp
  · intro hdown; simp [hup] at hdown
  · intro k j' hj'
    obtain ⟨f, hf, hji⟩ := h.jobs k j' hj'
    exact ⟨f, hf, hji.same rfl rfl⟩

theorem inv_saveAbsent {cfg : Cfg} {s : State} {i : Nat} (hup : s.up = true) (h : Inv cfg s) :
    Inv cfg { s with persisted := upd s.persisted i none } := by
  refine ⟨⟨?_, h.glob.loaded, ?_⟩, ?_, h.infl_job, h.sorted, h.down, h.skipped⟩
  · intro k p hp
    by_cases hk : k = i
    · subst hk; simp at hp
    · simp only [upd_other _ _ hk] at hp
      exact h.glob.pers k p hp
  · intro hdown; simp [hup] at hdown
  · intro k j' hj'
    obtain ⟨f, hf, hji⟩ := h.jobs k j' hj'
    exact ⟨f, hf, hji.same rfl rfl⟩

/-! ### crash and restart -/

theorem inv_crash {cfg : Cfg} {s : State} (hc : CrashCovered cfg s) (h : Inv cfg s) :
    Inv cfg { s with jobs := fun _ => none, loaded := fun _ => none, seqs := fun _ _ => 0,
                     inflight := [], delivered := [], up := false, scanning := false, panicked := false } := by
  refine ⟨⟨h.glob.pers, ?_, ?_⟩, ?_, ?_, ?_, ?_, h.skipped⟩
  · intro i p hp; cases hp
  · intro _ i p f hp hf l hl hacc
    obtain ⟨f', hf', hne, hs⟩ := h.glob.pers i p hp
    rw [hf] at hf'; cases hf'
    by_cases hcov : Covers s.acked i l
    · exact hcov
    · have hline : l ∈ SpecC03.lines f := specLines_take_sub _ _ hl
      have := hc i f p l hf hp hline hacc hcov
      obtain ⟨o, ho⟩ := Option.isSome_iff_exists.1 this
      have hmem := oget_mem ho
      have hso := hs _ hmem
      exact hso.covered l (specLines_take_take (minOff_le hmem) hl) hacc rfl
  · intro i j hj; cases hj
  · intro e he; cases he
  · exact List.Pairwise.nil
  · intro _; exact ⟨fun _ => rfl, rfl⟩

theorem inv_restart {cfg : Cfg} {s : State} (hdown : s.up = false) (h : Inv cfg s) :
    Inv cfg { s with up := true, scanning := true, loaded := s.persisted } := by
  obtain ⟨hjobs, hinf⟩ := h.down hdown
  refine ⟨⟨h.glob.pers, ?_, ?_⟩, ?_, h.infl_job, h.sorted, ?_, h.skipped⟩
  · intro i p hp
    obtain ⟨f, hf, hne, hs⟩ := h.glob.pers i p hp
    exact ⟨f, hf, hne, hs, h.glob.down_prefix hdown i p f hp hf⟩
  · intro hup; cases hup
  · intro i j hj; rw [hjobs i] at hj; cases hj
  · intro hup; cases hup

/-! ### discover (addJob + initJobOffset) -/

/-- adding a job for a file that has none, at a position below which everything is acked -/
theorem inv_newJob {cfg : Cfg} {s : State} {i : Nat} {f : FileSt} {jn : JobSt}
    (hup : s.up = true) (hf : s.files i = some f) (hj : s.jobs i = none)
    (hskip : jn.w.skip = false) (hle : jn.w.curOffset ≤ f.content.length)
    (htail : specTail (f.content.take jn.w.curOffset) [] = jn.w.tail)
    (hpre : PrefixAcked cfg s.acked i f.content jn.w.curOffset)
    (hoffs : SoundOffs cfg s.acked i f.content jn.offsets)
    (h : Inv cfg s) : Inv cfg { s with jobs := upd s.jobs i (some jn) } := by
  refine ⟨h.glob, ?_, ?_, h.sorted, ?_, h.skipped⟩
  · intro k j hk
    by_cases hki : k = i
    · subst hki
      simp only [upd_same] at hk; cases hk
      refine ⟨f, hf, hskip, hle, htail, fun l hl hacc => Or.inl (hpre l hl hacc), hoffs, ?_⟩
      intro e he hei
      have := h.infl_job e he
      rw [hei, hj] at this; cases this
    · simp only [upd_other _ _ hki] at hk
      obtain ⟨g, hg, hji⟩ := h.jobs k j hk
      exact ⟨g, hg, hji.same rfl rfl⟩
  · intro e he
    by_cases hei : e.ino = i
    · simp [hei]
    · simp only [upd_other _ _ hei]; exact h.infl_job e he
  · intro hdown; simp [hup] at hdown

theorem inv_addJob {cfg : Cfg} {s : State} {i : Nat} {f : FileSt}
    (hup : s.up = true) (hf : s.files i = some f) (hj : s.jobs i = none)
    (h : Inv cfg s) : Inv cfg (addJob s i) := by
  have fresh : Inv cfg { s with jobs := upd s.jobs i (some ⟨⟨0, [], false⟩, [], 0, 0⟩) } :=
    inv_newJob (jn := ⟨⟨0, [], false⟩, [], 0, 0⟩) hup hf hj rfl (Nat.zero_le _) (by simp [specTail])
      (by intro l hl; simp [specLines] at hl) (by intro x hx; cases hx) h
  unfold addJob
  split
  · split
    · exact fresh
    · rename_i p hp
      split
      · exact inv_panicked true h
      · rename_i hne
        obtain ⟨f', hf', _, hs, hpa⟩ := h.glob.loaded i p hp
        rw [hf] at hf'; cases hf'
        obtain ⟨x, hx, hxe⟩ := minOff_mem hne
        have hso := hs x hx
        rw [hxe] at hso
        exact inv_newJob (jn := ⟨⟨minOff p, [], false⟩, p, 0, 0⟩) hup hf hj rfl hso.le hso.boundary hpa hs h
  · exact fresh

/-! ### commit -/

theorem headOf_spec {i : Nat} {st : Stream} {l : List Ev} {e : Ev} (hs : Sorted l)
    (h : headOf i st l = some e) :
    e ∈ l ∧ e.ino = i ∧ e.stream = st ∧ ∀ e' ∈ l, e'.ino = i → e'.stream = st → e' = e ∨ e.off < e'.off := by
  induction l with
  | nil => simp [headOf] at h
  | cons x xs ih =>
    simp only [headOf] at h
    have hs' := List.pairwise_cons.1 hs
    split at h
    · rename_i hx
      cases h
      refine ⟨by simp, hx.1, hx.2, ?_⟩
      intro e' he' hi' _
      rcases List.mem_cons.1 he' with rfl | he'
      · exact Or.inl rfl
      · exact Or.inr (hs'.1 e' he' (by rw [hx.1, hi']))
    · rename_i hx
      obtain ⟨h1, h2, h3, h4⟩ := ih hs'.2 h
      refine ⟨List.mem_cons_of_mem _ h1, h2, h3, ?_⟩
      intro e' he' hi' hst'
      rcases List.mem_cons.1 he' with rfl | he'
      · exact absurd ⟨hi', hst'⟩ hx
      · exact h4 e' he' hi' hst'

theorem mem_filter_ne {l : List Ev} {e x : Ev} (h : x ∈ l.filter (fun y => y ≠ e)) : x ∈ l ∧ x ≠ e := by
  simpa using h

/-- removing an acked event from the in-flight list -/
theorem JobInv.drop {cfg : Cfg} {s s' : State} {i : Nat} {j : JobSt} {c : Bytes} {hl : List (Nat × Bytes)} {e : Ev}
    (h : JobInv cfg s i j c hl) (he : e ∈ s.acked) (ha : s'.acked = s.acked)
    (hi : s'.inflight = s.inflight.filter (fun y => y ≠ e)) : JobInv cfg s' i j c hl := by
  refine h.transfer (fun _ hx => ha ▸ hx) ?_ ?_
  · intro x hx
    by_cases hxe : x = e
    · subst hxe; exact Or.inr (ha ▸ he)
    · left; rw [hi]; simpa using ⟨hx, hxe⟩
  · intro x hx _; rw [hi] at hx; exact (mem_filter_ne hx).1

theorem JobInv.setOffs {cfg : Cfg} {s : State} {i : Nat} {j : JobSt} {c : Bytes} {hl : List (Nat × Bytes)}
    {p : Offsets} (h : JobInv cfg s i j c hl) (hp : SoundOffs cfg s.acked i c p) :
    JobInv cfg s i { j with offsets := p } c hl :=
  ⟨h.skip, h.le, h.tail, h.handled, hp, h.infl⟩

/-- removing an acked event from the in-flight list, jobs unchanged -/
theorem inv_drop {cfg : Cfg} {s : State} {e : Ev} (he : e ∈ s.acked) (h : Inv cfg s) :
    Inv cfg { s with inflight := s.inflight.filter (fun y => y ≠ e) } := by
  refine ⟨h.glob, ?_, ?_, ?_, ?_, h.skipped⟩
  · intro i j hj
    obtain ⟨f, hf, hji⟩ := h.jobs i j hj
    exact ⟨f, hf, hji.drop he rfl rfl⟩
  · intro x hx; exact h.infl_job x (mem_filter_ne hx).1
  · exact List.Pairwise.filter _ h.sorted
  · intro hdown
    obtain ⟨h1, h2⟩ := h.down hdown
    exact ⟨h1, by simp [h2]⟩

/-- the new committed offset is sound: per-stream order makes every earlier line of the stream acked -/
theorem soundOff_commit {cfg : Cfg} {s : State} {e : Ev} {j : JobSt} {f : FileSt}
    (hji : JobInv cfg s e.ino j f.content (specLines (f.content.take j.w.curOffset) 0 []))
    (hsorted : Sorted s.inflight) (he : e ∈ s.inflight) (hea : e ∈ s.acked) (hold : oldest s e) :
    SoundOff cfg s.acked e.ino f.content e.stream e.off := by
  obtain ⟨hmem, hstream⟩ := hji.infl e he rfl
  have hoff := specLines_off hmem
  have hcur : e.off ≤ j.w.curOffset := by
    have := hoff.2; simp [List.length_take] at this; omega
  have hhead := headOf_spec hsorted hold
  refine ⟨Nat.le_trans hcur hji.le, ?_, ⟨e.data, specLines_take_sub _ _ hmem, hstream.symm⟩, ?_⟩
  · have := specTail_take_of_mem hmem
    simp [List.take_take] at this
    rwa [Nat.min_eq_left hcur] at this
  · intro l hl hacc hst
    have hl1 : l.1 ≤ e.off := by
      have := (specLines_off hl).2; simp [List.length_take] at this; omega
    have hl' := specLines_take_take hcur hl
    rcases hji.handled l hl' hacc with hc | ⟨e', he', hi', ho', hd'⟩
    · exact hc
    · have hst' : e'.stream = e.stream := by
        rw [(hji.infl e' he' hi').2, hd', hst]
      rcases hhead.2.2.2 e' he' hi' hst' with heq | hlt
      · subst heq; exact ⟨e', hea, hi', ho', hd'⟩
      · omega

theorem inv_commit {cfg : Cfg} {s : State} {e : Ev}
    (he : e ∈ s.inflight) (hea : e ∈ s.acked) (hold : oldest s e) (h : Inv cfg s) :
    Inv cfg (commit s e) := by
  unfold commit
  have setOff : ∀ j, s.jobs e.ino = some j →
      Inv cfg { s with inflight := s.inflight.filter (fun x => x ≠ e),
                       jobs := upd s.jobs e.ino (some { j with offsets := oset j.offsets e.stream e.off }) } := by
    intro j hj
    have hd := inv_drop hea h
    obtain ⟨f, hf, hji⟩ := h.jobs e.ino j hj
    have hnew := soundOff_commit hji h.sorted he hea hold
    refine ⟨hd.glob, ?_, ?_, hd.sorted, ?_, hd.skipped⟩
    · intro k jk hk
      by_cases hki : k = e.ino
      · subst hki
        simp only [upd_same] at hk; cases hk
        refine ⟨f, hf, ?_⟩
        apply JobInv.setOffs
        · exact hji.drop hea rfl rfl
        · intro x hx
          rcases mem_oset hx with rfl | hx
          · exact hnew
          · exact hji.offs x hx
      · simp only [upd_other _ _ hki] at hk
        obtain ⟨g, hg, hjk⟩ := h.jobs k jk hk
        exact ⟨g, hg, hjk.drop hea rfl rfl⟩
    · intro x hx
      have := h.infl_job x (mem_filter_ne hx).1
      by_cases hxi : x.ino = e.ino
      · simp [hxi]
      · simp only [upd_other _ _ hxi]; exact this
    · intro hdown
      obtain ⟨h1, _⟩ := h.down hdown
      rw [h1 e.ino] at hj; cases hj
  split
  · exact inv_drop hea h
  · rename_i j hj
    split
    · exact inv_drop hea h
    · split
      · split
        · exact inv_panicked true h
        · exact setOff j hj
      · split
        · exact inv_panicked true h
        · exact setOff j hj

end FileD.FileRestart
