/-
  Helper lemmas for C03, part 3: every op of `FileRestart.step?` except `truncate` preserves `Inv`
  (`crash` under the hypothesis `CrashCovered`).
-/
import FileD.Lemmas.FileRestart
namespace FileD.FileRestart
open FileD FileD.SpecC06 FileD.SpecC03

section
variable {cfg : Cfg} {G : Ev → Prop} {Ex : Nat → Prop}

/-! ### transfer lemmas -/

theorem Handled.mono {s s' : State} {i : Nat} {l : Nat × Bytes} (h : Handled G s i l)
    (ha : ∀ e ∈ s.acked, e ∈ s'.acked) (hi : ∀ e ∈ s.inflight, G e → e ∈ s'.inflight ∨ e ∈ s'.acked) :
    Handled G s' i l := by
  rcases h with h | ⟨e, he, hg, h3⟩
  · exact Or.inl (CoversG_mono ha h)
  · rcases hi e he hg with h' | h'
    · exact Or.inr ⟨e, h', hg, h3⟩
    · exact Or.inl ⟨e, h', hg, h3⟩

/-- the job-independent transfer: acked grows, good in-flight events stay in flight or become acked,
    no new good in-flight event of this source -/
theorem JobInv.transfer {s s' : State} {i : Nat} {j : JobSt} {c : Bytes} {hl : List (Nat × Bytes)}
    (h : JobInv cfg G Ex s i j c hl)
    (ha : ∀ e ∈ s.acked, e ∈ s'.acked) (hi : ∀ e ∈ s.inflight, G e → e ∈ s'.inflight ∨ e ∈ s'.acked)
    (hi' : ∀ e ∈ s'.inflight, G e → e.ino = i → e ∈ s.inflight) : JobInv cfg G Ex s' i j c hl :=
  ⟨h.skip, h.le, h.tail, fun l hl' hacc => (h.handled l hl' hacc).mono ha hi, h.offs.mono' ha, h.wit,
   fun e he hg hei => h.infl e (hi' e he hg hei) hg hei⟩

theorem JobInv.same {s s' : State} {i : Nat} {j : JobSt} {c : Bytes} {hl : List (Nat × Bytes)}
    (h : JobInv cfg G Ex s i j c hl) (ha : s'.acked = s.acked) (hi : s'.inflight = s.inflight) :
    JobInv cfg G Ex s' i j c hl :=
  h.transfer (fun _ h => ha ▸ h) (fun _ h _ => Or.inl (hi ▸ h)) (fun _ h _ _ => hi ▸ h)

theorem Glob.acked_mono {fs : Nat → Option FileSt} {a b : List Ev}
    {pe lo : Nat → Option Offsets} {up : Bool} (hab : ∀ e ∈ a, e ∈ b)
    (h : Glob cfg G Ex fs a pe lo up) : Glob cfg G Ex fs b pe lo up := by
  refine ⟨?_, ?_, ?_⟩
  · intro i p hex hp
    obtain ⟨f, hf, hne, hs, hw⟩ := h.pers i p hex hp
    exact ⟨f, hf, hne, hs.mono' hab, hw⟩
  · intro i p hex hp
    obtain ⟨f, hf, hne, hs, hw, hpa⟩ := h.loaded i p hex hp
    exact ⟨f, hf, hne, hs.mono' hab, hw, hpa.mono' hab⟩
  · intro hup i p f hex hp hf
    exact (h.down_prefix hup i p f hex hp hf).mono' hab

/-- a step that touches neither files, jobs, in-flight events, acked events, sequence counters nor
    the offsets -/
theorem Inv.frame {s s' : State} (h : Inv cfg G Ex s)
    (h1 : s'.files = s.files) (h2 : s'.jobs = s.jobs) (h3 : s'.loaded = s.loaded)
    (h4 : s'.persisted = s.persisted) (h5 : s'.seqs = s.seqs) (h6 : s'.inflight = s.inflight)
    (h7 : s'.acked = s.acked) (h8 : s'.skipped = s.skipped) (h9 : s'.up = s.up) : Inv cfg G Ex s' := by
  refine ⟨by rw [h1, h7, h4, h3, h9]; exact h.glob, ?_, by rw [h6, h2]; exact h.infl_job,
    by rw [h6]; exact h.sorted, by rw [h9, h2, h6]; exact h.down, by rw [h8, h7]; exact h.skipped,
    by rw [h6, h2]; exact h.bad, by rw [h5]; exact h.fresh, by rw [h2]; exact h.exJob⟩
  intro i j hj
  rw [h2] at hj
  obtain ⟨f, hf, hji⟩ := h.jobs i j hj
  exact ⟨f, by rw [h1]; exact hf, hji.same h7 h6⟩

/-! ### ops that do not touch jobs or in-flight events -/

theorem inv_delivered {s : State} (d : List Ev) (h : Inv cfg G Ex s) :
    Inv cfg G Ex { s with delivered := d } := h.frame rfl rfl rfl rfl rfl rfl rfl rfl rfl

theorem inv_scanning {s : State} (b : Bool) (h : Inv cfg G Ex s) :
    Inv cfg G Ex { s with scanning := b } := h.frame rfl rfl rfl rfl rfl rfl rfl rfl rfl

theorem inv_panicked {s : State} (b : Bool) (h : Inv cfg G Ex s) :
    Inv cfg G Ex { s with panicked := b } := h.frame rfl rfl rfl rfl rfl rfl rfl rfl rfl

theorem inv_ack {s : State} (e : Ev) (h : Inv cfg G Ex s) :
    Inv cfg G Ex { s with acked := s.acked ++ [e] } := by
  have hab : ∀ x ∈ s.acked, x ∈ s.acked ++ [e] := fun x hx => List.mem_append_left _ hx
  refine ⟨h.glob.acked_mono hab, ?_, h.infl_job, h.sorted, h.down, ?_, h.bad, h.fresh, h.exJob⟩
  · intro i j hj
    obtain ⟨f, hf, hji⟩ := h.jobs i j hj
    exact ⟨f, hf, hji.transfer hab (fun _ h _ => Or.inl h) (fun _ h _ _ => h)⟩
  · intro x hx hg; exact CoversG_mono hab (h.skipped x hx hg)

/-! ### save -/

theorem inv_save {s : State} {i : Nat} {j : JobSt} (hup : s.up = true) (hj : s.jobs i = some j)
    (h : Inv cfg G Ex s) :
    Inv cfg G Ex { s with persisted := upd s.persisted i (if j.offsets = [] then none else some j.offsets) } := by
  refine ⟨⟨?_, h.glob.loaded, ?_⟩, ?_, h.infl_job, h.sorted, h.down, h.skipped, h.bad, h.fresh, h.exJob⟩
  · intro k p hex hp
    by_cases hk : k = i
    · subst hk
      simp only [upd_same] at hp
      split at hp
      · cases hp
      · rename_i hne
        cases hp
        obtain ⟨f, hf, hji⟩ := h.jobs k j hj
        exact ⟨f, hf, hne, hji.offs, hji.wit hex⟩
    · simp only [upd_other _ _ hk] at hp
      exact h.glob.pers k p hex hp
  · intro hdown; simp [hup] at hdown
  · intro k j' hj'
    obtain ⟨f, hf, hji⟩ := h.jobs k j' hj'
    exact ⟨f, hf, hji.same rfl rfl⟩

theorem inv_saveAbsent {s : State} {i : Nat} (hup : s.up = true) (h : Inv cfg G Ex s) :
    Inv cfg G Ex { s with persisted := upd s.persisted i none } := by
  refine ⟨⟨?_, h.glob.loaded, ?_⟩, ?_, h.infl_job, h.sorted, h.down, h.skipped, h.bad, h.fresh, h.exJob⟩
  · intro k p hex hp
    by_cases hk : k = i
    · subst hk; simp at hp
    · simp only [upd_other _ _ hk] at hp
      exact h.glob.pers k p hex hp
  · intro hdown; simp [hup] at hdown
  · intro k j' hj'
    obtain ⟨f, hf, hji⟩ := h.jobs k j' hj'
    exact ⟨f, hf, hji.same rfl rfl⟩

end

/-! ### crash and restart (all events good, no exempt source) -/

theorem inv_crash {cfg : Cfg} {s : State} (hc : CrashCovered cfg s) (h : Inv cfg allGood noEx s) :
    Inv cfg allGood noEx { s with jobs := fun _ => none, loaded := fun _ => none, seqs := fun _ _ => 0, inflight := [], delivered := [], up := false, scanning := false, panicked := false } := by
  refine ⟨⟨h.glob.pers, ?_, ?_⟩, ?_, ?_, ?_, ?_, h.skipped, ?_, fun _ _ _ => trivial, ?_⟩
  · intro i p _ hp; cases hp
  · intro _ i p f hex hp hf l hl hacc
    obtain ⟨f', hf', hne, hs, _⟩ := h.glob.pers i p hex hp
    rw [hf] at hf'; cases hf'
    by_cases hcov : Covers s.acked i l
    · exact coversG_all.2 hcov
    · have hline : l ∈ SpecC03.lines f := specLines_take_sub _ _ hl
      have := hc i f p l hf hp hline hacc hcov
      obtain ⟨o, ho⟩ := Option.isSome_iff_exists.1 this
      have hmem := oget_mem ho
      have hso := hs _ hmem
      exact hso.covered l (specLines_take_take (minOff_le hmem) hl) hacc rfl
  · intro i j hj; cases hj
  · intro e he; cases he
  · exact List.Pairwise.nil
  · intro _; exact ⟨fun _ => rfl, rfl⟩
  · intro e he; cases he
  · intro i hi; exact absurd hi (by simp [noEx])

theorem inv_restart {cfg : Cfg} {s : State} (hdown : s.up = false) (h : Inv cfg allGood noEx s) :
    Inv cfg allGood noEx { s with up := true, scanning := true, loaded := s.persisted } := by
  obtain ⟨hjobs, hinf⟩ := h.down hdown
  refine ⟨⟨h.glob.pers, ?_, ?_⟩, ?_, h.infl_job, h.sorted, ?_, h.skipped, h.bad, h.fresh, h.exJob⟩
  · intro i p hex hp
    obtain ⟨f, hf, hne, hs, hw⟩ := h.glob.pers i p hex hp
    exact ⟨f, hf, hne, hs, hw, h.glob.down_prefix hdown i p f hex hp hf⟩
  · intro hup; cases hup
  · intro i j hj; rw [hjobs i] at hj; cases hj
  · intro hup; cases hup

section
variable {cfg : Cfg} {G : Ev → Prop} {Ex : Nat → Prop}

/-! ### discover (addJob + initJobOffset) -/

/-- adding a job for a file that has none, at a position below which everything is acked -/
theorem inv_newJob {s : State} {i : Nat} {f : FileSt} {jn : JobSt}
    (hup : s.up = true) (hf : s.files i = some f) (hj : s.jobs i = none)
    (hskip : jn.w.skip = false) (hle : jn.w.curOffset ≤ f.content.length)
    (htail : specTail (f.content.take jn.w.curOffset) [] = jn.w.tail)
    (hpre : PrefixAcked cfg G s.acked i f.content jn.w.curOffset)
    (hoffs : SoundOffs cfg G s.acked i f.content jn.offsets)
    (hwit : Witnessed cfg f.content jn.offsets)
    (h : Inv cfg G Ex s) : Inv cfg G Ex { s with jobs := upd s.jobs i (some jn) } := by
  have hne : ∀ e ∈ s.inflight, e.ino ≠ i := by
    intro e he hei
    have := h.infl_job e he
    rw [hei, hj] at this; cases this
  refine ⟨h.glob, ?_, ?_, h.sorted, ?_, h.skipped, ?_, h.fresh, ?_⟩
  · intro k j hk
    by_cases hki : k = i
    · subst hki
      simp only [upd_same] at hk; cases hk
      refine ⟨f, hf, hskip, hle, htail, fun l hl hacc => Or.inl (hpre l hl hacc), hoffs, fun _ => hwit, ?_⟩
      intro e he _ hei
      exact absurd hei (hne e he)
    · simp only [upd_other _ _ hki] at hk
      obtain ⟨g, hg, hji⟩ := h.jobs k j hk
      exact ⟨g, hg, hji.same rfl rfl⟩
  · intro e he
    by_cases hei : e.ino = i
    · simp [hei]
    · simp only [upd_other _ _ hei]; exact h.infl_job e he
  · intro hdown; simp [hup] at hdown
  · intro e he hg
    obtain ⟨j, hj', hle'⟩ := h.bad e he hg
    exact ⟨j, by simp only [upd_other _ _ (hne e he)]; exact hj', hle'⟩
  · intro k hk
    by_cases hki : k = i
    · simp [hki]
    · simp only [upd_other _ _ hki]; exact h.exJob k hk

theorem inv_addJob {s : State} {i : Nat} {f : FileSt}
    (hup : s.up = true) (hf : s.files i = some f) (hj : s.jobs i = none)
    (h : Inv cfg G Ex s) : Inv cfg G Ex (addJob s i) := by
  have hex : ¬ Ex i := by
    intro hx; have := h.exJob i hx; rw [hj] at this; cases this
  have fresh : Inv cfg G Ex { s with jobs := upd s.jobs i (some ⟨⟨0, [], false⟩, [], 0, 0⟩) } :=
    inv_newJob (jn := ⟨⟨0, [], false⟩, [], 0, 0⟩) hup hf hj rfl (Nat.zero_le _) (by simp [specTail])
      (by intro l hl; simp [specLines] at hl) (by intro x hx; cases hx) (by intro x hx; cases hx) h
  unfold addJob
  split
  · split
    · exact fresh
    · rename_i p hp
      split
      · exact inv_panicked true h
      · rename_i hne
        obtain ⟨f', hf', _, hs, hw, hpa⟩ := h.glob.loaded i p hex hp
        rw [hf] at hf'; cases hf'
        obtain ⟨x, hx, hxe⟩ := minOff_mem hne
        have hso := hs x hx
        rw [hxe] at hso
        exact inv_newJob (jn := ⟨⟨minOff p, [], false⟩, p, 0, 0⟩) hup hf hj rfl hso.le hso.boundary hpa hs hw h
  · exact fresh

/-! ### forget (maintenance releases an idle job) -/

theorem inv_forget {s : State} {i : Nat} (hup : s.up = true) (hex : ¬ Ex i)
    (hq : ∀ e ∈ s.inflight, e.ino ≠ i) (h : Inv cfg G Ex s) :
    Inv cfg G Ex { s with jobs := upd s.jobs i none } := by
  refine ⟨h.glob, ?_, ?_, h.sorted, ?_, h.skipped, ?_, h.fresh, ?_⟩
  · intro k j hk
    by_cases hki : k = i
    · subst hki; simp at hk
    · simp only [upd_other _ _ hki] at hk
      obtain ⟨g, hg, hji⟩ := h.jobs k j hk
      exact ⟨g, hg, hji.same rfl rfl⟩
  · intro e he
    simp only [upd_other _ _ (hq e he)]; exact h.infl_job e he
  · intro hdown; simp [hup] at hdown
  · intro e he hg
    obtain ⟨j, hj, hle⟩ := h.bad e he hg
    exact ⟨j, by simp only [upd_other _ _ (hq e he)]; exact hj, hle⟩
  · intro k hk
    have hki : k ≠ i := fun e => hex (e ▸ hk)
    simp only [upd_other _ _ hki]; exact h.exJob k hk

/-- the rule of `maintenanceJob`: when a job is released, every admitted line of its file has been
    read; with nothing of the source in flight, every one is acked -/
theorem forget_all_acked {s : State} {i : Nat} {f : FileSt} {j : JobSt} (h : Inv cfg G Ex s)
    (hf : s.files i = some f) (hj : s.jobs i = some j) (hcur : j.w.curOffset = f.content.length)
    (hq : ∀ e ∈ s.inflight, e.ino ≠ i) :
    ∀ l ∈ specLines f.content 0 [], cfg.accept l.2 = true → CoversG G s.acked i l := by
  intro l hl hacc
  obtain ⟨f', hf', hji⟩ := h.jobs i j hj
  rw [hf] at hf'; cases hf'
  rw [hcur, List.take_length] at hji
  rcases hji.handled l hl hacc with hc | ⟨e, he, _, hi, _⟩
  · exact hc
  · exact absurd hi (hq e he)

/-! ### commit -/

theorem headOf_spec {i : Nat} {st : Stream} {l : List Ev} {e : Ev} (hs : Sorted G l) (hg : G e)
    (h : headOf i st l = some e) :
    e ∈ l ∧ e.ino = i ∧ e.stream = st ∧
      ∀ e' ∈ l, G e' → e'.ino = i → e'.stream = st → e' = e ∨ e.off < e'.off := by
  induction l with
  | nil => simp [headOf] at h
  | cons x xs ih =>
    simp only [headOf] at h
    have hs' := List.pairwise_cons.1 hs
    split at h
    · rename_i hx
      cases h
      refine ⟨by simp, hx.1, hx.2, ?_⟩
      intro e' he' hg' hi' _
      rcases List.mem_cons.1 he' with rfl | he'
      · exact Or.inl rfl
      · exact Or.inr (hs'.1 e' he' hg hg' (by rw [hx.1, hi']))
    · rename_i hx
      obtain ⟨h1, h2, h3, h4⟩ := ih hs'.2 h
      refine ⟨List.mem_cons_of_mem _ h1, h2, h3, ?_⟩
      intro e' he' hg' hi' hst'
      rcases List.mem_cons.1 he' with rfl | he'
      · exact absurd ⟨hi', hst'⟩ hx
      · exact h4 e' he' hg' hi' hst'

theorem mem_filter_ne {l : List Ev} {e x : Ev} (h : x ∈ l.filter (fun y => y ≠ e)) : x ∈ l ∧ x ≠ e := by
  simpa using h

/-- removing from the in-flight list an event that is acked (or not good) -/
theorem JobInv.drop {s s' : State} {i : Nat} {j : JobSt} {c : Bytes} {hl : List (Nat × Bytes)} {e : Ev}
    (h : JobInv cfg G Ex s i j c hl) (he : G e → e ∈ s.acked) (ha : s'.acked = s.acked)
    (hi : s'.inflight = s.inflight.filter (fun y => y ≠ e)) : JobInv cfg G Ex s' i j c hl := by
  refine h.transfer (fun _ hx => ha ▸ hx) ?_ ?_
  · intro x hx hgx
    by_cases hxe : x = e
    · subst hxe; exact Or.inr (ha ▸ he hgx)
    · left; rw [hi]; simpa using ⟨hx, hxe⟩
  · intro x hx _ _; rw [hi] at hx; exact (mem_filter_ne hx).1

theorem JobInv.setOffs {s : State} {i : Nat} {j : JobSt} {c : Bytes} {hl : List (Nat × Bytes)}
    {p : Offsets} (h : JobInv cfg G Ex s i j c hl) (hp : SoundOffs cfg G s.acked i c p)
    (hw : ¬ Ex i → Witnessed cfg c p) :
    JobInv cfg G Ex s i { j with offsets := p } c hl :=
  ⟨h.skip, h.le, h.tail, h.handled, hp, hw, h.infl⟩

/-- removing an acked (or not good) event from the in-flight list, jobs unchanged -/
theorem inv_drop {s : State} {e : Ev} (he : G e → e ∈ s.acked) (h : Inv cfg G Ex s) :
    Inv cfg G Ex { s with inflight := s.inflight.filter (fun y => y ≠ e) } := by
  refine ⟨h.glob, ?_, ?_, ?_, ?_, h.skipped, ?_, h.fresh, h.exJob⟩
  · intro i j hj
    obtain ⟨f, hf, hji⟩ := h.jobs i j hj
    exact ⟨f, hf, hji.drop he rfl rfl⟩
  · intro x hx; exact h.infl_job x (mem_filter_ne hx).1
  · exact List.Pairwise.filter _ h.sorted
  · intro hdown
    obtain ⟨h1, h2⟩ := h.down hdown
    exact ⟨h1, by simp [h2]⟩
  · intro x hx hg; exact h.bad x (mem_filter_ne hx).1 hg

/-- the new committed offset is sound: per-stream order makes every earlier line of the stream acked -/
theorem soundOff_commit {s : State} {e : Ev} {j : JobSt} {f : FileSt}
    (hji : JobInv cfg G Ex s e.ino j f.content (specLines (f.content.take j.w.curOffset) 0 []))
    (hsorted : Sorted G s.inflight) (hg : G e) (he : e ∈ s.inflight) (hea : e ∈ s.acked) (hold : oldest s e) :
    SoundOff cfg G s.acked e.ino f.content e.stream e.off ∧
      ∃ d, (e.off, d) ∈ specLines f.content 0 [] ∧ cfg.streamOf d = e.stream := by
  obtain ⟨hmem, hstream⟩ := hji.infl e he hg rfl
  have hoff := specLines_off hmem
  have hcur : e.off ≤ j.w.curOffset := by
    have := hoff.2; simp [List.length_take] at this; omega
  have hhead := headOf_spec hsorted hg hold
  refine ⟨⟨Nat.le_trans hcur hji.le, ?_, ?_⟩, ⟨e.data, specLines_take_sub _ _ hmem, hstream.symm⟩⟩
  · have := specTail_take_of_mem hmem
    simp [List.take_take] at this
    rwa [Nat.min_eq_left hcur] at this
  · intro l hl hacc hst
    have hl1 : l.1 ≤ e.off := by
      have := (specLines_off hl).2; simp [List.length_take] at this; omega
    have hl' := specLines_take_take hcur hl
    rcases hji.handled l hl' hacc with hc | ⟨e', he', hg', hi', ho', hd'⟩
    · exact hc
    · have hst' : e'.stream = e.stream := by
        rw [(hji.infl e' he' hg' hi').2, hd', hst]
      rcases hhead.2.2.2 e' he' hg' hi' hst' with heq | hlt
      · subst heq; exact ⟨e', hea, hg', hi', ho', hd'⟩
      · omega

theorem inv_commit {s : State} {e : Ev}
    (he : e ∈ s.inflight) (hea : e ∈ s.acked) (hold : oldest s e) (h : Inv cfg G Ex s) :
    Inv cfg G Ex (commit s e) := by
  by_cases hg : G e
  · unfold commit
    have setOff : ∀ j, s.jobs e.ino = some j →
        Inv cfg G Ex { s with inflight := s.inflight.filter (fun x => x ≠ e), jobs := upd s.jobs e.ino (some { j with offsets := oset j.offsets e.stream e.off }) } := by
      intro j hj
      have hd := inv_drop (e := e) (fun _ => hea) h
      obtain ⟨f, hf, hji⟩ := h.jobs e.ino j hj
      obtain ⟨hnew, hwnew⟩ := soundOff_commit hji h.sorted hg he hea hold
      refine ⟨hd.glob, ?_, ?_, hd.sorted, ?_, hd.skipped, ?_, hd.fresh, ?_⟩
      · intro k jk hk
        by_cases hki : k = e.ino
        · subst hki
          simp only [upd_same] at hk; cases hk
          refine ⟨f, hf, ?_⟩
          apply JobInv.setOffs
          · exact hji.drop (fun _ => hea) rfl rfl
          · intro x hx
            rcases mem_oset hx with rfl | hx
            · exact hnew
            · exact hji.offs x hx
          · intro hex x hx
            rcases mem_oset hx with rfl | hx
            · exact hwnew
            · exact hji.wit hex x hx
        · simp only [upd_other _ _ hki] at hk
          obtain ⟨g, hg', hjk⟩ := h.jobs k jk hk
          exact ⟨g, hg', hjk.drop (fun _ => hea) rfl rfl⟩
      · intro x hx
        have := h.infl_job x (mem_filter_ne hx).1
        by_cases hxi : x.ino = e.ino
        · simp [hxi]
        · simp only [upd_other _ _ hxi]; exact this
      · intro hdown
        obtain ⟨h1, _⟩ := h.down hdown
        rw [h1 e.ino] at hj; cases hj
      · intro x hx hgx
        obtain ⟨jx, hjx, hle⟩ := h.bad x (mem_filter_ne hx).1 hgx
        by_cases hxi : x.ino = e.ino
        · rw [hxi] at hjx; rw [hj] at hjx; cases hjx
          exact ⟨{ j with offsets := oset j.offsets e.stream e.off }, by rw [hxi]; simp, hle⟩
        · exact ⟨jx, by simp only [upd_other _ _ hxi]; exact hjx, hle⟩
      · intro k hk
        by_cases hki : k = e.ino
        · simp [hki]
        · simp only [upd_other _ _ hki]; exact h.exJob k hk
    split
    · exact inv_drop (fun _ => hea) h
    · rename_i j hj
      split
      · exact inv_drop (fun _ => hea) h
      · split
        · split
          · exact inv_panicked true h
          · exact setOff j hj
        · split
          · exact inv_panicked true h
          · exact setOff j hj
  · -- a stale event: the commit is ignored
    obtain ⟨j, hj, hle⟩ := h.bad e he hg
    have : commit s e = { s with inflight := s.inflight.filter (fun x => x ≠ e) } := by
      simp [commit, hj, hle]
    rw [this]
    exact inv_drop (fun hg' => absurd hg' hg) h

end

end FileD.FileRestart
