/-
  Inductive invariant of the standard pool model (Model/Pool.lean, namespace Std):
  the free1/free2 two-phase slot protocol, event ownership, and the counters.
-/
import FileD.Lemmas.Pool
namespace FileD.Pool.Std

def isHoldS : Pc → Bool | .holding _ => true | _ => false
/-- the reader has an event that is out of its slot (slot flags false/false) -/
def isOutish : Pc → Bool | .out _ | .holding _ | .btkt _ | .bspin .. => true | _ => false
/-- the reader is counted in inUseEvents -/
def inCtr : Pc → Bool | .holding _ | .btkt _ | .bspin .. | .returning .. | .bdec => true | _ => false
def isSW : Pc → Bool
  | .wantLock _ | .willWait _ | .parked _ | .woken _ | .unlocking _ | .postUnlock _ => true
  | _ => false
def hasMu : Pc → Bool | .willWait _ | .unlocking _ => true | _ => false
/-- the event the reader carries -/
def carries : Pc → Option Nat
  | .out e | .holding e | .btkt e | .bspin _ e | .returning _ e => some e
  | _ => none
/-- the slot the reader has exclusive access to (between its successful CAS and its Store) -/
def slotRef : Pc → Option Nat | .taken x | .returning x _ => some x | _ => none
def isFF (sl : Slot) : Bool := !sl.f1 && !sl.f2

/-- what the owner of a false/true slot is doing -/
def OwnerOK (x : Nat) (sl : Slot) (pc : Pc) : Prop :=
  (pc = .taken x ∧ sl.ev.isSome = true) ∨ (∃ e, pc = .returning x e ∧ sl.ev = none)

/-- **the four slot states** of the two-phase protocol -/
def SlotOK (s : St) (x : Nat) (sl : Slot) : Prop :=
  match sl.f1, sl.f2 with
  | true, true => sl.ev.isSome = true ∧ sl.own = none                       -- Free
  | true, false => False
  | false, false => sl.ev = none ∧ sl.own = none                           -- Out
  | false, true => ∃ r pc, sl.own = some r ∧ s.pcs[r]? = some pc ∧ OwnerOK x sl pc   -- Taken / Returning

structure SInv (s : St) : Prop where
  len : s.slots.length = s.cap
  slot : ∀ (x : Nat) (sl : Slot), s.slots[x]? = some sl → SlotOK s x sl
  rd : ∀ (r : Nat) (pc : Pc) (x : Nat), s.pcs[r]? = some pc → slotRef pc = some x →
        ∃ sl : Slot, s.slots[x]? = some sl ∧ sl.f1 = false ∧ sl.f2 = true ∧ sl.own = some r
  e1 : ∀ (x : Nat) (sl : Slot) (e : Nat), s.slots[x]? = some sl → sl.ev = some e → s.loc[e]? = some (Loc.inSlot x)
  e2 : ∀ (r : Nat) (pc : Pc) (e : Nat), s.pcs[r]? = some pc → carries pc = some e → s.loc[e]? = some (Loc.heldBy r)
  nff : cnt s isOutish = s.slots.countP isFF
  ctr : s.inUse = cnt s inCtr
  hist : s.gets = s.backs + cnt s isHoldS
  sw : s.sw = cnt s isSW
  mu1 : ∀ (r : Nat) (pc : Pc), s.pcs[r]? = some pc → hasMu pc = true → s.mu = some r
  np : s.panicked = false

theorem countP_map_range_false {α} (p : α → Bool) (f : Nat → α) (n : Nat) (h : ∀ i, p (f i) = false) :
    ((List.range n).map f).countP p = 0 := by
  rw [List.countP_eq_zero]
  intro a ha
  simp at ha
  obtain ⟨i, _, rfl⟩ := ha
  simp [h]

theorem inv_init (cap n : Nat) : SInv (init cap n) := by
  refine ⟨by simp [init], ?_, ?_, ?_, ?_, ?_, ?_, ?_, ?_, ?_, rfl⟩
  · intro x sl h
    simp [init] at h
    obtain ⟨w, _, rfl⟩ := h
    simp [SlotOK]
  · intro r pc x h hr
    simp [init, List.getElem?_replicate] at h
    rw [← h.2] at hr; simp [slotRef] at hr
  · intro x sl e h he
    simp [init] at h
    obtain ⟨w, hw, rfl⟩ := h
    simp at he; subst he
    obtain ⟨hlt, heq⟩ := List.getElem?_eq_some_iff.mp hw
    simp at hlt heq; subst heq
    simp [init, hlt]
  · intro r pc e h hc
    simp [init, List.getElem?_replicate] at h
    rw [← h.2] at hc; simp [carries] at hc
  · simp only [init, cnt]
    rw [countP_map_range_false isFF _ cap (by intro i; rfl)]
    simp [List.countP_replicate, isOutish]
  · simp [init, cnt, List.countP_replicate, inCtr]
  · simp [init, cnt, List.countP_replicate, isHoldS]
  · simp [init, cnt, List.countP_replicate, isSW]
  · intro r pc h hm
    simp [init, List.getElem?_replicate] at h
    rw [← h.2] at hm; simp [hasMu] at hm

def b2n (b : Bool) : Nat := if b then 1 else 0

theorem get_set_ne' {α} (l : List α) (i j : Nat) (a : α) (h : i ≠ j) : (l.set i a)[j]? = l[j]? := by
  simp [h]

/-- the reader of a slot-owning pc is the slot's `own`; so any other pc of the same reader is not -/
theorem not_owner_of (s : St) (h : SInv s) (r : Nat) (old : Pc) (hpc : s.pcs[r]? = some old)
    (hold : slotRef old = none) (x : Nat) (sl : Slot) (hsl : s.slots[x]? = some sl) :
    sl.f1 = false → sl.f2 = true → sl.own ≠ some r := by
  intro h1 h2 ho
  have := h.slot x sl hsl
  simp only [SlotOK, h1, h2] at this
  obtain ⟨r', pc', ho', hpc', hok⟩ := this
  rw [ho] at ho'; simp at ho'; subst ho'
  rw [hpc] at hpc'; simp at hpc'; subst hpc'
  rcases hok with ⟨e, _⟩ | ⟨e, he, _⟩ <;> simp_all [slotRef]

/-- **class A**: a step that only moves one reader `old → new` (neither owns a slot, both carry
    the same event) and adjusts counters. -/
theorem inv_pcOnly (s : St) (r : Nat) (old new : Pc) (g bk iu w gt bs : Nat) (m : Option Nat) (ha : Bool)
    (h : SInv s) (hpc : s.pcs[r]? = some old)
    (hso : slotRef old = none) (hsn : slotRef new = none) (hcar : carries new = carries old)
    (hout : isOutish new = isOutish old)
    (hctr : iu + b2n (inCtr old) = s.inUse + b2n (inCtr new))
    (hhist : gt + s.backs + b2n (isHoldS old) = s.gets + bs + b2n (isHoldS new))
    (hsw : w + b2n (isSW old) = s.sw + b2n (isSW new))
    (hmu : ∀ q pc, s.pcs[q]? = some pc → hasMu pc = true → m = some q ∨ q = r)
    (hmn : hasMu new = true → m = some r) :
    SInv { s with getCtr := g, backCtr := bk, inUse := iu, sw := w, mu := m, pcs := s.pcs.set r new,
                  hbArmed := ha, gets := gt, backs := bs } := by
  have c1 := countP_set_of_get isOutish s.pcs r old new hpc
  have c2 := countP_set_of_get inCtr s.pcs r old new hpc
  have c3 := countP_set_of_get isHoldS s.pcs r old new hpc
  have c4 := countP_set_of_get isSW s.pcs r old new hpc
  have hnff := h.nff; have hctr0 := h.ctr; have hhist0 := h.hist; have hsw0 := h.sw
  simp only [cnt] at hnff hctr0 hhist0 hsw0
  refine ⟨h.len, ?_, ?_, h.e1, ?_, ?_, ?_, ?_, ?_, ?_, h.np⟩
  · intro x sl hsl
    have hs := h.slot x sl hsl
    revert hs
    simp only [SlotOK]
    cases h1 : sl.f1 <;> cases h2 : sl.f2 <;> simp only [] <;> intro hs
    · exact hs
    · obtain ⟨r', pc', ho', hpc', hok⟩ := hs
      have hne : r ≠ r' := by
        intro e; subst e
        exact not_owner_of s h r old hpc hso x sl hsl h1 h2 ho'
      exact ⟨r', pc', ho', by simpa [get_set_ne' _ _ _ _ hne] using hpc', hok⟩
    · exact hs
    · exact hs
  · intro q pc x hq hr
    simp only [] at hq
    by_cases e : r = q
    · subst e
      rw [get_set_self s.pcs r old new hpc] at hq
      simp at hq; subst hq; rw [hsn] at hr; simp at hr
    · rw [get_set_ne' _ _ _ _ e] at hq
      exact h.rd q pc x hq hr
  · intro q pc e hq hc
    simp only [] at hq
    by_cases e' : r = q
    · subst e'
      rw [get_set_self s.pcs r old new hpc] at hq
      simp at hq; subst hq
      rw [hcar] at hc
      exact h.e2 r old e hpc hc
    · rw [get_set_ne' _ _ _ _ e'] at hq
      exact h.e2 q pc e hq hc
  · simp only [cnt]; rw [hout] at c1; omega
  · simp only [cnt, b2n] at *; omega
  · simp only [cnt, b2n] at *; omega
  · simp only [cnt, b2n] at *; omega
  · intro q pc hq hm
    simp only [] at hq
    rw [List.getElem?_set] at hq
    split at hq
    · rename_i heq; subst heq
      split at hq
      · simp at hq; subst hq; exact hmn hm
      · simp at hq
    · rename_i hne
      rcases hmu q pc hq hm with h' | h'
      · exact h'
      · exact absurd h'.symm hne

theorem wake_of_ref (pc : Pc) (x : Nat) (h : slotRef pc = some x) : wake pc = pc := by
  cases pc <;> simp [slotRef] at h <;> rfl
theorem slotRef_wake (pc : Pc) : slotRef (wake pc) = slotRef pc := by cases pc <;> rfl
theorem carries_wake (pc : Pc) : carries (wake pc) = carries pc := by cases pc <;> rfl
theorem isOutish_wake (pc : Pc) : isOutish (wake pc) = isOutish pc := by cases pc <;> rfl
theorem inCtr_wake (pc : Pc) : inCtr (wake pc) = inCtr pc := by cases pc <;> rfl
theorem isHoldS_wake (pc : Pc) : isHoldS (wake pc) = isHoldS pc := by cases pc <;> rfl
theorem isSW_wake (pc : Pc) : isSW (wake pc) = isSW pc := by cases pc <;> rfl
theorem hasMu_wake (pc : Pc) : hasMu (wake pc) = hasMu pc := by cases pc <;> rfl

theorem countP_map_wake (l : List Pc) (p : Pc → Bool) (h : ∀ pc, p (wake pc) = p pc) :
    (l.map wake).countP p = l.countP p := by
  simp only [List.countP_map]
  congr 1; funext pc; simp [Function.comp, h]

/-- **class B**: Broadcast -/
theorem inv_broadcast (s : St) (h : SInv s) (ha : Bool) :
    SInv { s with pcs := s.pcs.map wake, hbArmed := ha } := by
  refine ⟨h.len, ?_, ?_, h.e1, ?_, ?_, ?_, ?_, ?_, ?_, h.np⟩
  · intro x sl hsl
    have hs := h.slot x sl hsl
    revert hs
    simp only [SlotOK]
    cases h1 : sl.f1 <;> cases h2 : sl.f2 <;> simp only [] <;> intro hs
    · exact hs
    · obtain ⟨r', pc', ho', hpc', hok⟩ := hs
      refine ⟨r', pc', ho', ?_, hok⟩
      simp only [List.getElem?_map, hpc', Option.map]
      have : slotRef pc' = some x := by
        rcases hok with ⟨e, _⟩ | ⟨e, he, _⟩ <;> simp [*, slotRef]
      rw [wake_of_ref pc' x this]
    · exact hs
    · exact hs
  · intro q pc x hq hr
    simp only [List.getElem?_map] at hq
    cases hq0 : s.pcs[q]? with
    | none => simp [hq0] at hq
    | some pc0 =>
      simp [hq0] at hq; subst hq
      rw [slotRef_wake] at hr
      exact h.rd q pc0 x hq0 hr
  · intro q pc e hq hc
    simp only [List.getElem?_map] at hq
    cases hq0 : s.pcs[q]? with
    | none => simp [hq0] at hq
    | some pc0 =>
      simp [hq0] at hq; subst hq
      rw [carries_wake] at hc
      exact h.e2 q pc0 e hq0 hc
  · have := h.nff; simp only [cnt] at this ⊢; rw [countP_map_wake _ _ isOutish_wake]; exact this
  · have := h.ctr; simp only [cnt] at this ⊢; rw [countP_map_wake _ _ inCtr_wake]; exact this
  · have := h.hist; simp only [cnt] at this ⊢; rw [countP_map_wake _ _ isHoldS_wake]; exact this
  · have := h.sw; simp only [cnt] at this ⊢; rw [countP_map_wake _ _ isSW_wake]; exact this
  · intro q pc hq hm
    simp only [List.getElem?_map] at hq
    cases hq0 : s.pcs[q]? with
    | none => simp [hq0] at hq
    | some pc0 =>
      simp [hq0] at hq; subst hq
      rw [hasMu_wake] at hm
      exact h.mu1 q pc0 hq0 hm

/-- what the new content of the touched slot must look like, given the new pc of the reader -/
def NewSlotOK (r x : Nat) (sl' : Slot) (new : Pc) : Prop :=
  match sl'.f1, sl'.f2 with
  | true, true => sl'.ev.isSome = true ∧ sl'.own = none
  | true, false => False
  | false, false => sl'.ev = none ∧ sl'.own = none
  | false, true => sl'.own = some r ∧ OwnerOK x sl' new

/-- **class C**: reader `r` moves `old → new` and rewrites slot `x` (and possibly `loc`) -/
theorem inv_slotOp (s : St) (r x : Nat) (old new : Pc) (sl sl' : Slot) (loc' : List Loc)
    (h : SInv s) (hpc : s.pcs[r]? = some old) (hsl : s.slots[x]? = some sl)
    (hown : ∀ x' sl'', x' ≠ x → s.slots[x']? = some sl'' → sl''.f1 = false → sl''.f2 = true → sl''.own ≠ some r)
    (href : ∀ q pc, q ≠ r → s.pcs[q]? = some pc → slotRef pc ≠ some x)
    (hnew : NewSlotOK r x sl' new)
    (hrd : ∀ x'', slotRef new = some x'' → x'' = x ∧ sl'.f1 = false ∧ sl'.f2 = true ∧ sl'.own = some r)
    (he1 : ∀ x' sl'' e', (s.slots.set x sl')[x']? = some sl'' → sl''.ev = some e' → loc'[e']? = some (Loc.inSlot x'))
    (he2 : ∀ q pc e', (s.pcs.set r new)[q]? = some pc → carries pc = some e' → loc'[e']? = some (Loc.heldBy q))
    (hnff : b2n (isOutish new) + b2n (isFF sl) = b2n (isOutish old) + b2n (isFF sl'))
    (hc : inCtr new = inCtr old) (hh : isHoldS new = isHoldS old)
    (hw : isSW new = isSW old) (hm : hasMu new = false) :
    SInv { s with slots := s.slots.set x sl', pcs := s.pcs.set r new, loc := loc' } := by
  have c1 := countP_set_of_get isOutish s.pcs r old new hpc
  have c2 := countP_set_of_get inCtr s.pcs r old new hpc
  have c3 := countP_set_of_get isHoldS s.pcs r old new hpc
  have c4 := countP_set_of_get isSW s.pcs r old new hpc
  have c5 := countP_set_of_get isFF s.slots x sl sl' hsl
  have hnff0 := h.nff; have hctr0 := h.ctr; have hhist0 := h.hist; have hsw0 := h.sw
  simp only [cnt] at hnff0 hctr0 hhist0 hsw0
  refine ⟨by simpa using h.len, ?_, ?_, he1, he2, ?_, ?_, ?_, ?_, ?_, h.np⟩
  · intro x' sl'' hsl''
    simp only [] at hsl''
    by_cases ex : x = x'
    · subst ex
      rw [get_set_self s.slots x sl sl' hsl] at hsl''
      simp at hsl''; subst hsl''
      revert hnew
      simp only [NewSlotOK, SlotOK]
      cases h1 : sl'.f1 <;> cases h2 : sl'.f2 <;> simp only [] <;> intro hs
      · exact hs
      · exact ⟨r, new, hs.1, get_set_self s.pcs r old new hpc, hs.2⟩
      · exact hs
      · exact hs
    · rw [get_set_ne' _ _ _ _ ex] at hsl''
      have hs := h.slot x' sl'' hsl''
      revert hs
      simp only [SlotOK]
      cases h1 : sl''.f1 <;> cases h2 : sl''.f2 <;> simp only [] <;> intro hs
      · exact hs
      · obtain ⟨r', pc', ho', hpc', hok⟩ := hs
        have hne : r ≠ r' := by
          intro e; subst e
          exact hown x' sl'' (fun e => ex e.symm) hsl'' h1 h2 ho'
        exact ⟨r', pc', ho', by simpa [get_set_ne' _ _ _ _ hne] using hpc', hok⟩
      · exact hs
      · exact hs
  · intro q pc x'' hq hr
    simp only [] at hq
    by_cases e : r = q
    · subst e
      rw [get_set_self s.pcs r old new hpc] at hq
      simp at hq; subst hq
      obtain ⟨rfl, h1, h2, h3⟩ := hrd x'' hr
      exact ⟨sl', get_set_self s.slots x'' sl sl' hsl, h1, h2, h3⟩
    · rw [get_set_ne' _ _ _ _ e] at hq
      have hx : x ≠ x'' := by
        intro ex; subst ex
        exact href q pc (fun e' => e e'.symm) hq hr
      obtain ⟨sl0, hsl0, rest⟩ := h.rd q pc x'' hq hr
      exact ⟨sl0, by simpa [get_set_ne' _ _ _ _ hx] using hsl0, rest⟩
  · simp only [cnt, b2n] at *; omega
  · simp only [cnt, b2n] at *; rw [hc] at c2; omega
  · simp only [cnt, b2n] at *; rw [hh] at c3; omega
  · simp only [cnt, b2n] at *; rw [hw] at c4; omega
  · intro q pc hq hmq
    simp only [] at hq
    by_cases e : r = q
    · subst e
      rw [get_set_self s.pcs r old new hpc] at hq
      simp at hq; subst hq; rw [hm] at hmq; simp at hmq
    · rw [get_set_ne' _ _ _ _ e] at hq
      exact h.mu1 q pc hq hmq

theorem mu_keep (s : St) (h : SInv s) (r : Nat) :
    ∀ q pc, s.pcs[q]? = some pc → hasMu pc = true → s.mu = some q ∨ q = r :=
  fun q pc a b => Or.inl (h.mu1 q pc a b)

theorem casFail_props (x c t : Nat) :
    slotRef (casFail x c t) = none ∧ carries (casFail x c t) = none ∧ isOutish (casFail x c t) = false
    ∧ inCtr (casFail x c t) = false ∧ isHoldS (casFail x c t) = false ∧ isSW (casFail x c t) = false
    ∧ hasMu (casFail x c t) = false := by
  unfold casFail; split
  · simp [slotRef, carries, isOutish, inCtr, isHoldS, isSW, hasMu]
  · split <;> simp [slotRef, carries, isOutish, inCtr, isHoldS, isSW, hasMu]

theorem step_inv_start (s s' : St) (r : Nat) (h : SInv s) (hs : step? s (.start r) = some s') : SInv s' := by
  simp only [step?] at hs; split at hs <;> simp at hs; subst hs; rename_i hpc
  exact inv_pcOnly s r .idle .tkt _ _ _ _ _ _ _ _ h hpc rfl rfl rfl rfl (by simp [b2n, inCtr])
    (by simp [b2n, isHoldS]) (by simp [b2n, isSW]) (mu_keep s h r) (by simp [hasMu])


macro "pcA" s:ident r:ident h:ident hpc:term "," old:term "," new:term "," mu:term "," mun:term : tactic =>
  `(tactic| exact inv_pcOnly $s $r $old $new _ _ _ _ _ _ _ _ $h $hpc rfl rfl rfl rfl
      (by simp [b2n, inCtr]) (by simp [b2n, isHoldS]) (by simp [b2n, isSW]) $mu $mun)

theorem step_inv_tkt (s s' : St) (r : Nat) (h : SInv s) (hs : step? s (.tkt r) = some s') : SInv s' := by
  simp only [step?] at hs; split at hs <;> simp at hs; subst hs; rename_i hpc
  pcA s r h hpc, .tkt, (.try_ (s.getCtr % s.cap) 0 0), (mu_keep s h r), (by simp [hasMu])

theorem step_inv_swInc (s s' : St) (r : Nat) (h : SInv s) (hs : step? s (.swInc r) = some s') : SInv s' := by
  simp only [step?] at hs; split at hs <;> simp at hs; subst hs; rename_i x hpc
  pcA s r h hpc, (.slowInc x), (.wantLock x), (mu_keep s h r), (by simp [hasMu])

theorem step_inv_lock (s s' : St) (r : Nat) (h : SInv s) (hs : step? s (.lock r) = some s') : SInv s' := by
  simp only [step?] at hs; split at hs
  · rename_i x hpc
    split at hs <;> simp at hs; subst hs; rename_i hmu
    pcA s r h hpc, (.wantLock x), (.willWait x),
      (fun q pc a b => by have := h.mu1 q pc a b; rw [hmu] at this; simp at this), (fun _ => rfl)
  · simp at hs

theorem step_inv_waitEnq (s s' : St) (r : Nat) (h : SInv s) (hs : step? s (.waitEnq r) = some s') : SInv s' := by
  simp only [step?] at hs; split at hs <;> simp at hs; subst hs; rename_i x hpc
  have hm : s.mu = some r := h.mu1 r _ hpc rfl
  pcA s r h hpc, (.willWait x), (.parked x),
    (fun q pc a b => by have := h.mu1 q pc a b; rw [hm] at this; simp at this; exact Or.inr this.symm),
    (by simp [hasMu])

theorem step_inv_relock (s s' : St) (r : Nat) (h : SInv s) (hs : step? s (.relock r) = some s') : SInv s' := by
  simp only [step?] at hs; split at hs
  · rename_i x hpc
    split at hs <;> simp at hs; subst hs; rename_i hmu
    pcA s r h hpc, (.woken x), (.unlocking x),
      (fun q pc a b => by have := h.mu1 q pc a b; rw [hmu] at this; simp at this), (fun _ => rfl)
  · simp at hs

theorem step_inv_unlock (s s' : St) (r : Nat) (h : SInv s) (hs : step? s (.unlock r) = some s') : SInv s' := by
  simp only [step?] at hs; split at hs <;> simp at hs; subst hs; rename_i x hpc
  have hm : s.mu = some r := h.mu1 r _ hpc rfl
  pcA s r h hpc, (.unlocking x), (.postUnlock x),
    (fun q pc a b => by have := h.mu1 q pc a b; rw [hm] at this; simp at this; exact Or.inr this.symm),
    (by simp [hasMu])

theorem step_inv_swDec (s s' : St) (r : Nat) (h : SInv s) (hs : step? s (.swDec r) = some s') : SInv s' := by
  simp only [step?] at hs; split at hs <;> simp at hs; subst hs; rename_i x hpc
  have hpos : 0 < s.sw := by
    have := countP_pos_of_get isSW s.pcs r _ hpc rfl
    have := h.sw; simp only [cnt] at this; omega
  exact inv_pcOnly s r (.postUnlock x) (.try_ x 0 0) _ _ _ _ _ _ _ _ h hpc rfl rfl rfl rfl
      (by simp [b2n, inCtr]) (by simp [b2n, isHoldS]) (by simp [b2n, isSW]; omega) (mu_keep s h r) (by simp [hasMu])

theorem step_inv_iInc (s s' : St) (r : Nat) (h : SInv s) (hs : step? s (.iInc r) = some s') : SInv s' := by
  simp only [step?] at hs; split at hs <;> simp at hs; subst hs; rename_i e hpc
  exact inv_pcOnly s r (.out e) (.holding e) _ _ _ _ _ _ _ _ h hpc rfl rfl rfl rfl
      (by simp [b2n, inCtr]) (by simp [b2n, isHoldS]; omega) (by simp [b2n, isSW]) (mu_keep s h r) (by simp [hasMu])

theorem step_inv_bstart (s s' : St) (r : Nat) (h : SInv s) (hs : step? s (.bstart r) = some s') : SInv s' := by
  simp only [step?] at hs; split at hs <;> simp at hs; subst hs; rename_i e hpc
  exact inv_pcOnly s r (.holding e) (.btkt e) _ _ _ _ _ _ _ _ h hpc rfl rfl rfl rfl
      (by simp [b2n, inCtr]) (by simp [b2n, isHoldS]; omega) (by simp [b2n, isSW]) (mu_keep s h r) (by simp [hasMu])

theorem step_inv_btkt (s s' : St) (r : Nat) (h : SInv s) (hs : step? s (.btkt r) = some s') : SInv s' := by
  simp only [step?] at hs; split at hs <;> simp at hs; subst hs; rename_i e hpc
  pcA s r h hpc, (.btkt e), (.bspin (s.backCtr % s.cap) e), (mu_keep s h r), (by simp [hasMu])

theorem step_inv_bDec (s s' : St) (r : Nat) (h : SInv s) (hs : step? s (.bDec r) = some s') : SInv s' := by
  simp only [step?] at hs; split at hs <;> simp at hs; subst hs; rename_i hpc
  have hpos : 0 < s.inUse := by
    have := countP_pos_of_get inCtr s.pcs r _ hpc rfl
    have := h.ctr; simp only [cnt] at this; omega
  exact inv_pcOnly s r .bdec .bbc _ _ _ _ _ _ _ _ h hpc rfl rfl rfl rfl
      (by simp [b2n, inCtr]; omega) (by simp [b2n, isHoldS]) (by simp [b2n, isSW]) (mu_keep s h r) (by simp [hasMu])

theorem step_inv_bBcast (s s' : St) (r : Nat) (h : SInv s) (hs : step? s (.bBcast r) = some s') : SInv s' := by
  simp only [step?] at hs; split at hs <;> simp at hs; subst hs; rename_i hpc
  have h1 : SInv (setPc s r .idle) := by
    exact inv_pcOnly s r .bbc .idle _ _ _ _ _ _ _ _ h hpc rfl rfl rfl rfl
      (by simp [b2n, inCtr]) (by simp [b2n, isHoldS]) (by simp [b2n, isSW]) (mu_keep s h r) (by simp [hasMu])
  exact inv_broadcast _ h1 _

theorem step_inv_hb (s s' : St) (op : Op) (hop : op = .hbRead ∨ op = .hbFire) (h : SInv s)
    (hs : step? s op = some s') : SInv s' := by
  rcases hop with rfl | rfl
  · simp [step?] at hs; subst hs
    exact ⟨h.len, h.slot, h.rd, h.e1, h.e2, h.nff, h.ctr, h.hist, h.sw, h.mu1, h.np⟩
  · simp [step?] at hs; subst hs
    split
    · exact inv_broadcast _ h _
    · exact h

/-- a reader that owns no slot is not the `own` of any false/true slot -/
theorem hown_of_noref (s : St) (h : SInv s) (r : Nat) (old : Pc) (hpc : s.pcs[r]? = some old)
    (hso : slotRef old = none) (x : Nat) :
    ∀ x' sl'', x' ≠ x → s.slots[x']? = some sl'' → sl''.f1 = false → sl''.f2 = true → sl''.own ≠ some r :=
  fun x' sl'' _ hsl h1 h2 => not_owner_of s h r old hpc hso x' sl'' hsl h1 h2

/-- a reader that owns slot `x` is not the `own` of any other slot -/
theorem hown_of_ref (s : St) (h : SInv s) (r : Nat) (old : Pc) (hpc : s.pcs[r]? = some old) (x : Nat)
    (hso : slotRef old = some x) :
    ∀ x' sl'', x' ≠ x → s.slots[x']? = some sl'' → sl''.f1 = false → sl''.f2 = true → sl''.own ≠ some r := by
  intro x' sl'' hne hsl h1 h2 ho
  have := h.slot x' sl'' hsl
  simp only [SlotOK, h1, h2] at this
  obtain ⟨r', pc', ho', hpc', hok⟩ := this
  rw [ho] at ho'; simp at ho'; subst ho'
  rw [hpc] at hpc'; simp at hpc'; subst hpc'
  rcases hok with ⟨e, _⟩ | ⟨e, he, _⟩ <;> simp_all [slotRef]

/-- nobody else refers to a slot whose flags are not false/true, or whose `own` is `r` -/
theorem href_of_flags (s : St) (h : SInv s) (r x : Nat) (sl : Slot) (hsl : s.slots[x]? = some sl)
    (hf : ¬ (sl.f1 = false ∧ sl.f2 = true ∧ sl.own ≠ some r)) :
    ∀ q pc, q ≠ r → s.pcs[q]? = some pc → slotRef pc ≠ some x := by
  intro q pc hq hpcq hr
  obtain ⟨sl0, hsl0, h1, h2, h3⟩ := h.rd q pc x hpcq hr
  rw [hsl] at hsl0; simp at hsl0; subst hsl0
  apply hf; refine ⟨h1, h2, ?_⟩
  rw [h3]; simp; exact hq

theorem lt_of_get {α} (l : List α) (i : Nat) (a : α) (h : l[i]? = some a) : i < l.length := by
  rcases Nat.lt_or_ge i l.length with h' | h'
  · exact h'
  · simp [List.getElem?_eq_none h'] at h

theorem step_inv_cas (s s' : St) (r : Nat) (h : SInv s) (hs : step? s (.cas r) = some s') : SInv s' := by
  simp only [step?] at hs
  split at hs
  · rename_i x c t hpc
    split at hs
    · rename_i sl hsl
      split at hs
      · rename_i hc
        simp at hs; subst hs
        have hok := h.slot x sl hsl
        have hf2 : sl.f2 = true := by
          cases h2 : sl.f2
          · simp [SlotOK, hc.2, h2] at hok
          · rfl
        simp only [SlotOK, hc.2, hf2] at hok
        refine inv_slotOp s r x (.try_ x c t) (.taken x) sl { sl with f1 := false, own := some r } s.loc h hpc hsl
          (hown_of_noref s h r _ hpc rfl x)
          (href_of_flags s h r x sl hsl (by simp [hc.2]))
          (by simp [NewSlotOK, hf2, OwnerOK, hok.1])
          (by intro x'' hx; simp [slotRef] at hx; subst hx; simp [hf2])
          ?_ ?_ (by simp [b2n, isOutish, isFF, hc.2, hf2]) rfl rfl rfl rfl
        · intro x' sl'' e' hsl'' he'
          by_cases ex : x = x'
          · subst ex
            rw [get_set_self s.slots x sl _ hsl] at hsl''
            simp at hsl''; subst hsl''
            exact h.e1 x sl e' hsl he'
          · rw [get_set_ne' _ _ _ _ ex] at hsl''
            exact h.e1 x' sl'' e' hsl'' he'
        · intro q pc e' hq hcq
          by_cases e : r = q
          · subst e
            rw [get_set_self s.pcs r _ _ hpc] at hq
            simp at hq; subst hq; simp [carries] at hcq
          · rw [get_set_ne' _ _ _ _ e] at hq
            exact h.e2 q pc e' hq hcq
      · simp at hs; subst hs
        obtain ⟨p1, p2, p3, p4, p5, p6, p7⟩ := casFail_props x c t
        exact inv_pcOnly s r (.try_ x c t) (casFail x c t) _ _ _ _ _ _ _ _ h hpc rfl p1 (by rw [p2]; rfl)
          (by rw [p3]; rfl) (by rw [p4]; simp [b2n, inCtr]) (by rw [p5]; simp [b2n, isHoldS]) (by rw [p6]; simp [b2n, isSW])
          (mu_keep s h r) (by simp [p7])
    · simp at hs
  · simp at hs

theorem step_inv_take (s s' : St) (r : Nat) (h : SInv s) (hs : step? s (.take r) = some s') : SInv s' := by
  simp only [step?] at hs
  split at hs
  · rename_i x hpc
    obtain ⟨sl, hsl, h1, h2, h3⟩ := h.rd r _ x hpc rfl
    have hok := h.slot x sl hsl
    simp only [SlotOK, h1, h2] at hok
    obtain ⟨r', pc', ho', hpc', hown⟩ := hok
    rw [h3] at ho'; simp at ho'; subst ho'
    rw [hpc] at hpc'; simp at hpc'; subst hpc'
    have hev : sl.ev.isSome = true := by
      rcases hown with ⟨_, he⟩ | ⟨e, he, _⟩
      · exact he
      · simp at he
    simp only [hsl] at hs
    split at hs
    · rename_i e he
      simp at hs; subst hs
      have hloc := h.e1 x sl e hsl he
      have helt := lt_of_get _ _ _ hloc
      refine inv_slotOp s r x (.taken x) (.out e) sl { sl with ev := none, f2 := false, own := none }
          (s.loc.set e (.heldBy r)) h hpc hsl
          (hown_of_ref s h r _ hpc x rfl)
          (href_of_flags s h r x sl hsl (by simp [h3]))
          (by simp [NewSlotOK, h1])
          (by intro x'' hx; simp [slotRef] at hx)
          ?_ ?_ (by simp [b2n, isOutish, isFF, h1, h2]) rfl rfl rfl rfl
      · intro x' sl'' e' hsl'' he'
        by_cases ex : x = x'
        · subst ex
          rw [get_set_self s.slots x sl _ hsl] at hsl''
          simp at hsl''; subst hsl''; simp at he'
        · rw [get_set_ne' _ _ _ _ ex] at hsl''
          have hl' := h.e1 x' sl'' e' hsl'' he'
          have hne : e ≠ e' := by
            intro ee; subst ee
            rw [hloc] at hl'; simp at hl'; exact ex hl'
          rw [get_set_ne' _ _ _ _ hne]; exact hl'
      · intro q pc e' hq hcq
        by_cases eq : r = q
        · subst eq
          rw [get_set_self s.pcs r _ _ hpc] at hq
          simp at hq; subst hq; simp [carries] at hcq; subst hcq
          simp [helt]
        · rw [get_set_ne' _ _ _ _ eq] at hq
          have hl' := h.e2 q pc e' hq hcq
          have hne : e ≠ e' := by
            intro ee; subst ee
            rw [hloc] at hl'; simp at hl'
          rw [get_set_ne' _ _ _ _ hne]; exact hl'
    · rename_i he
      rw [he] at hev; simp at hev
  · simp at hs

theorem step_inv_bcas (s s' : St) (r : Nat) (h : SInv s) (hs : step? s (.bcas r) = some s') : SInv s' := by
  simp only [step?] at hs
  split at hs
  · rename_i x e hpc
    split at hs
    · rename_i sl hsl
      split at hs
      · rename_i hf2
        simp at hs; subst hs
        have hok := h.slot x sl hsl
        have hf1 : sl.f1 = false := by
          cases h1 : sl.f1
          · rfl
          · simp [SlotOK, h1, hf2] at hok
        simp only [SlotOK, hf1, hf2] at hok
        refine inv_slotOp s r x (.bspin x e) (.returning x e) sl { sl with f2 := true, own := some r } s.loc h hpc hsl
          (hown_of_noref s h r _ hpc rfl x)
          (href_of_flags s h r x sl hsl (by simp [hf2]))
          (by simp [NewSlotOK, hf1, OwnerOK, hok.1])
          (by intro x'' hx; simp [slotRef] at hx; subst hx; simp [hf1])
          ?_ ?_ (by simp [b2n, isOutish, isFF, hf1, hf2]) rfl rfl rfl rfl
        · intro x' sl'' e' hsl'' he'
          by_cases ex : x = x'
          · subst ex
            rw [get_set_self s.slots x sl _ hsl] at hsl''
            simp at hsl''; subst hsl''
            exact h.e1 x sl e' hsl he'
          · rw [get_set_ne' _ _ _ _ ex] at hsl''
            exact h.e1 x' sl'' e' hsl'' he'
        · intro q pc e' hq hcq
          by_cases eq : r = q
          · subst eq
            rw [get_set_self s.pcs r _ _ hpc] at hq
            simp at hq; subst hq
            exact h.e2 r (.bspin x e) e' hpc hcq
          · rw [get_set_ne' _ _ _ _ eq] at hq
            exact h.e2 q pc e' hq hcq
      · simp at hs; subst hs; exact h
    · simp at hs
  · simp at hs

theorem step_inv_bput (s s' : St) (r : Nat) (h : SInv s) (hs : step? s (.bput r) = some s') : SInv s' := by
  simp only [step?] at hs
  split at hs
  · rename_i x e hpc
    obtain ⟨sl, hsl, h1, h2, h3⟩ := h.rd r _ x hpc rfl
    simp only [hsl] at hs
    simp at hs; subst hs
    have hloc := h.e2 r _ e hpc rfl
    have helt := lt_of_get _ _ _ hloc
    refine inv_slotOp s r x (.returning x e) .bdec sl { sl with ev := some e, f1 := true, own := none }
        (s.loc.set e (.inSlot x)) h hpc hsl
        (hown_of_ref s h r _ hpc x rfl)
        (href_of_flags s h r x sl hsl (by simp [h3]))
        (by simp [NewSlotOK, h2])
        (by intro x'' hx; simp [slotRef] at hx)
        ?_ ?_ (by simp [b2n, isOutish, isFF, h1, h2]) rfl rfl rfl rfl
    · intro x' sl'' e' hsl'' he'
      by_cases ex : x = x'
      · subst ex
        rw [get_set_self s.slots x sl _ hsl] at hsl''
        simp at hsl''; subst hsl''; simp at he'; subst he'
        simp [helt]
      · rw [get_set_ne' _ _ _ _ ex] at hsl''
        have hl' := h.e1 x' sl'' e' hsl'' he'
        have hne : e ≠ e' := by
          intro ee; subst ee
          rw [hloc] at hl'; simp at hl'
        rw [get_set_ne' _ _ _ _ hne]; exact hl'
    · intro q pc e' hq hcq
      by_cases eq : r = q
      · subst eq
        rw [get_set_self s.pcs r _ _ hpc] at hq
        simp at hq; subst hq; simp [carries] at hcq
      · rw [get_set_ne' _ _ _ _ eq] at hq
        have hl' := h.e2 q pc e' hq hcq
        have hne : e ≠ e' := by
          intro ee; subst ee
          rw [hloc] at hl'; simp at hl'; exact eq hl'
        rw [get_set_ne' _ _ _ _ hne]; exact hl'
  · simp at hs

theorem step_inv (s s' : St) (op : Op) (h : SInv s) (hs : step? s op = some s') : SInv s' := by
  cases op with
  | start r => exact step_inv_start s s' r h hs
  | tkt r => exact step_inv_tkt s s' r h hs
  | cas r => exact step_inv_cas s s' r h hs
  | swInc r => exact step_inv_swInc s s' r h hs
  | lock r => exact step_inv_lock s s' r h hs
  | waitEnq r => exact step_inv_waitEnq s s' r h hs
  | relock r => exact step_inv_relock s s' r h hs
  | unlock r => exact step_inv_unlock s s' r h hs
  | swDec r => exact step_inv_swDec s s' r h hs
  | take r => exact step_inv_take s s' r h hs
  | iInc r => exact step_inv_iInc s s' r h hs
  | bstart r => exact step_inv_bstart s s' r h hs
  | btkt r => exact step_inv_btkt s s' r h hs
  | bcas r => exact step_inv_bcas s s' r h hs
  | bput r => exact step_inv_bput s s' r h hs
  | bDec r => exact step_inv_bDec s s' r h hs
  | bBcast r => exact step_inv_bBcast s s' r h hs
  | mark r =>
    simp only [step?] at hs; split at hs <;> simp at hs; subst hs; exact h
  | hbRead => exact step_inv_hb s s' _ (Or.inl rfl) h hs
  | hbFire => exact step_inv_hb s s' _ (Or.inr rfl) h hs

theorem inv_reachable (cap n : Nat) (s : St) (h : TS.Reachable step? (init cap n) s) : SInv s :=
  TS.invariant_reachable step? SInv (init cap n) (inv_init cap n) (fun s op s' => step_inv s s' op) s h

end FileD.Pool.Std

namespace FileD.Pool

theorem set_cases {α} (l : List α) (r0 r : Nat) (new pc pc' : α)
    (h' : (l.set r0 new)[r]? = some pc') (h : l[r]? = some pc) : (r0 = r ∧ pc' = new) ∨ pc' = pc := by
  by_cases e : r0 = r
  · subst e
    rw [get_set_self l r0 pc new h] at h'
    exact Or.inl ⟨rfl, (Option.some.inj h').symm⟩
  · rw [List.getElem?_set_ne e] at h'
    rw [h] at h'; exact Or.inr (Option.some.inj h').symm

/-- a reader inside `get` -/
def lmInGet : LM.Pc → Bool
  | .want | .over | .slow | .wantLock | .locked | .willWait | .parked | .woken | .unlocking | .postUnlock => true
  | _ => false

theorem lmInGet_wake (pc : LM.Pc) : lmInGet (LM.wake pc) = lmInGet pc := by cases pc <;> rfl


/-- a reader inside the standard pool's `get` -/
def stdInGet : Std.Pc → Bool
  | .tkt | .try_ .. | .slowInc _ | .wantLock _ | .willWait _ | .parked _ | .woken _ | .unlocking _
  | .postUnlock _ | .taken _ | .out _ => true
  | _ => false

theorem stdInGet_wake (pc : Std.Pc) : stdInGet (Std.wake pc) = stdInGet pc := by cases pc <;> rfl

theorem stdInGet_casFail (x c t : Nat) : stdInGet (Std.casFail x c t) = true := by
  unfold Std.casFail; split
  · rfl
  · split <;> rfl


end FileD.Pool
