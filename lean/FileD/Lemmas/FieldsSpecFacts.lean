/-
  Facts about the specs (`subtract`, `project`) and about ParseNestedFields' first loop / the sort oracle.
-/
import FileD.Lemmas.FieldsSubtract
import FileD.Lemmas.FieldsKeep
namespace FileD.Fields
open FileD FileD.SpecC18

/-! ### paths that do not resolve are ignored by the specs -/

theorem setKey_self {k : Bytes} {v : JTree} {l : KVs} (h : lookup k l = some v) : setKey k v l = l := by
  induction l with
  | nil => rfl
  | cons x r ih =>
    obtain ⟨k1, v1⟩ := x
    by_cases e : k1 = k
    · simp [lookup, e] at h; subst h; simp [setKey, e]
    · simp [lookup, e] at h; simp [setKey, e, ih h]

theorem subtract_unresolved : ∀ (p : Path) (t : JTree) (ps : List Path), uniq t = true →
    resolves t p = false → subtract (p :: ps) t = subtract ps t := by
  intro p
  induction p with
  | nil => intro t ps _ h; cases t <;> simp [resolves] at h
  | cons k r ih =>
    intro t ps hu h
    cases t with
    | obj kvs =>
      have hn := ((uniq_obj kvs).1 hu).1
      simp only [subtract]
      congr 1
      simp only [resolves] at h
      cases hl : lookup k kvs with
      | none => exact subtractKVs_nokey k r ps kvs (by rw [hasKey_eq_isSome, hl]; rfl)
      | some v =>
        rw [hl] at h
        simp only at h
        have hr : r ≠ [] := by intro e; subst e; cases v <;> simp [resolves] at h
        have := subtractKVs_setKey k r hr ps kvs v v hn hl (ih v (tailsOf k ps) (uniq_of_lookup hu hl) h).symm
        rw [setKey_self hl] at this
        exact this.symm
    | _ => rfl

theorem projectKVs_nokey (k : Bytes) (r : Path) (ps : List Path) (kvs : KVs) (h : hasKey k kvs = false) :
    projectKVs ((k :: r) :: ps) kvs = projectKVs ps kvs := by
  induction kvs with
  | nil => rfl
  | cons x rest ih =>
    obtain ⟨k1, v1⟩ := x
    simp [hasKey] at h
    have hne : k ≠ k1 := fun e => h.1 e.symm
    simp only [projectKVs, tailsOf_cons_ne r ps hne, ih h.2]

theorem projectKVs_unresolved_aux (k : Bytes) (r : Path) (hr : r ≠ []) (ps : List Path) (kvs : KVs) (v : JTree)
    (hn : nodupKeys kvs = true) (hl : lookup k kvs = some v)
    (hv : projectV (r :: tailsOf k ps) v = projectV (tailsOf k ps) v) :
    projectKVs ((k :: r) :: ps) kvs = projectKVs ps kvs := by
  induction kvs with
  | nil => rfl
  | cons x rest ih =>
    obtain ⟨k1, v1⟩ := x
    simp [nodupKeys] at hn
    by_cases e : k1 = k
    · subst e
      simp [lookup] at hl
      subst hl
      simp only [projectKVs, tailsOf_cons_eq, hasNil_cons_ne _ hr, projectKVs_nokey _ _ _ _ hn.1, hv]
    · have hne : k ≠ k1 := fun e' => e e'.symm
      simp [lookup, e] at hl
      simp only [projectKVs, tailsOf_cons_ne r ps hne, ih hn.2 hl]

theorem projectV_unresolved : ∀ (p : Path) (t : JTree) (ps : List Path), uniq t = true →
    resolves t p = false → projectV (p :: ps) t = projectV ps t := by
  intro p
  induction p with
  | nil => intro t ps _ h; cases t <;> simp [resolves] at h
  | cons k r ih =>
    intro t ps hu h
    cases t with
    | obj kvs =>
      have hn := ((uniq_obj kvs).1 hu).1
      simp only [resolves] at h
      have : projectKVs ((k :: r) :: ps) kvs = projectKVs ps kvs := by
        cases hl : lookup k kvs with
        | none => exact projectKVs_nokey k r ps kvs (by rw [hasKey_eq_isSome, hl]; rfl)
        | some v =>
          rw [hl] at h
          simp only at h
          have hr : r ≠ [] := by intro e; subst e; cases v <;> simp [resolves] at h
          exact projectKVs_unresolved_aux k r hr ps kvs v hn hl (ih v (tailsOf k ps) (uniq_of_lookup hu hl) h)
      simp only [projectV, this]
    | _ => rfl

theorem project_unresolved (p : Path) (kvs : KVs) (ps : List Path) (hu : uniq (.obj kvs) = true)
    (h : resolves (.obj kvs) p = false) : project (p :: ps) (.obj kvs) = project ps (.obj kvs) := by
  have := projectV_unresolved p (.obj kvs) ps hu h
  simp only [projectV] at this
  simp only [project]
  congr 1
  by_cases e1 : (projectKVs (p :: ps) kvs).isEmpty = true <;> by_cases e2 : (projectKVs ps kvs).isEmpty = true
  · rw [List.isEmpty_iff] at e1 e2; rw [e1, e2]
  · simp [e1, e2] at this
  · simp [e1, e2] at this
  · simp [e1, e2] at this; exact this

/-! ### the projection of a tree with unique keys has unique keys -/

theorem mem_projectKVs {S : List Path} {l : KVs} {kv : Bytes × JTree} (h : kv ∈ projectKVs S l) :
    ∃ v, (kv.1, v) ∈ l ∧ keepOf S kv.1 v = some kv.2 := by
  induction l with
  | nil => simp [projectKVs] at h
  | cons x r ih =>
    obtain ⟨k, v⟩ := x
    rw [projectKVs_cons] at h
    cases hk : keepOf S k v with
    | none =>
      rw [hk] at h
      obtain ⟨v', h1, h2⟩ := ih h
      exact ⟨v', List.mem_cons_of_mem _ h1, h2⟩
    | some pv =>
      rw [hk] at h
      rcases List.mem_cons.1 h with e | e
      · subst e; exact ⟨v, List.mem_cons_self, hk⟩
      · obtain ⟨v', h1, h2⟩ := ih e
        exact ⟨v', List.mem_cons_of_mem _ h1, h2⟩

theorem hasKey_projectKVs {S : List Path} {l : KVs} {k : Bytes} (h : hasKey k l = false) :
    hasKey k (projectKVs S l) = false := by
  rw [hasKey_eq_isSome, hasKey_projectKVs_false S k l h]; rfl

theorem nodupKeys_projectKVs (S : List Path) (l : KVs) (hn : nodupKeys l = true) :
    nodupKeys (projectKVs S l) = true := by
  induction l with
  | nil => rfl
  | cons x r ih =>
    obtain ⟨k, v⟩ := x
    simp [nodupKeys] at hn
    rw [projectKVs_cons]
    cases keepOf S k v with
    | none => exact ih hn.2
    | some pv => simp [nodupKeys, ih hn.2, hasKey_projectKVs hn.1]

theorem uniq_projectV : ∀ t : JTree, uniq t = true → ∀ (S : List Path) (pv : JTree), projectV S t = some pv →
    uniq pv = true := by
  intro t
  induction t using jtree_induct with
  | hnull => intro _ S pv h; simp [projectV] at h
  | hbool b => intro _ S pv h; simp [projectV] at h
  | hnum r => intro _ S pv h; simp [projectV] at h
  | hstr s => intro _ S pv h; simp [projectV] at h
  | harr xs _ => intro _ S pv h; simp [projectV] at h
  | hobj kvs ih =>
    intro hu S pv h
    simp only [projectV] at h
    split at h
    · cases h
    · cases h
      rw [uniq_obj] at hu ⊢
      refine ⟨nodupKeys_projectKVs S kvs hu.1, ?_⟩
      intro kv hkv
      obtain ⟨v, hv, hk⟩ := mem_projectKVs hkv
      simp only [keepOf] at hk
      split at hk
      · cases hk; exact hu.2 _ hv
      · exact ih _ hv (hu.2 _ hv) _ _ hk

theorem uniq_project (S : List Path) (kvs : KVs) (hu : uniq (.obj kvs) = true) :
    uniq (project S (.obj kvs)) = true := by
  simp only [project]
  have hu' := (uniq_obj kvs).1 hu
  rw [uniq_obj]
  refine ⟨nodupKeys_projectKVs S kvs hu'.1, ?_⟩
  intro kv hkv
  obtain ⟨v, hv, hk⟩ := mem_projectKVs hkv
  simp only [keepOf] at hk
  split at hk
  · cases hk; exact hu'.2 _ hv
  · exact uniq_projectV v (hu'.2 _ hv) _ _ hk

/-! ### ParseNestedFields: first loop, sort oracle -/

theorem parsePathsLoop_ne_nil : ∀ (fields : List Bytes) (raw : List Path), parsePathsLoop fields = .ok raw →
    (∀ p ∈ raw, p ≠ []) ∧ raw = fields.map parseFieldSelector := by
  intro fields
  induction fields with
  | nil => intro raw h; simp [parsePathsLoop] at h; cases h; simp
  | cons f fs ih =>
    intro raw h
    simp only [parsePathsLoop] at h
    split at h
    · cases h
    · rename_i hne
      cases hr : parsePathsLoop fs with
      | error e => rw [hr] at h; cases h
      | ok ps =>
        rw [hr] at h
        cases h
        obtain ⟨h1, h2⟩ := ih ps hr
        refine ⟨?_, by simp [h2]⟩
        intro p hp
        rcases List.mem_cons.1 hp with e | e
        · subst e; intro e'; rw [e'] at hne; simp at hne
        · exact h1 p e

theorem parsePaths_ok {fields : List Bytes} {raw : List Path} (h : parsePaths fields = .ok raw) :
    (∀ p ∈ raw, p ≠ []) ∧ raw ≠ [] ∧ raw = fields.map parseFieldSelector := by
  simp only [parsePaths] at h
  split at h
  · cases h
  · rename_i hne
    obtain ⟨h1, h2⟩ := parsePathsLoop_ne_nil fields raw h
    refine ⟨h1, ?_, h2⟩
    rw [h2]
    cases fields with
    | nil => simp at hne
    | cons _ _ => simp

theorem dedupe_ne_nil {sorted : List Path} (h : sorted ≠ []) : dedupe sorted ≠ [] := by
  cases sorted with
  | nil => exact absurd rfl h
  | cons p r => simp [dedupe, dedupeLoop, covered]

theorem insertLen_perm (p : Path) (l : List Path) : (insertLen p l).Perm (p :: l) := by
  induction l with
  | nil => simp [insertLen]
  | cons q r ih =>
    simp only [insertLen]
    split
    · exact List.Perm.refl _
    · exact (List.Perm.cons q ih).trans (List.Perm.swap p q r)

theorem sortLen_perm (l : List Path) : (sortLen l).Perm l := by
  induction l with
  | nil => exact List.Perm.refl _
  | cons p r ih => exact (insertLen_perm p (sortLen r)).trans (List.Perm.cons p ih)

theorem insertLen_sorted (p : Path) (l : List Path) (h : l.Pairwise (fun a b => a.length ≤ b.length)) :
    (insertLen p l).Pairwise (fun a b => a.length ≤ b.length) := by
  induction l with
  | nil => simp [insertLen]
  | cons q r ih =>
    rw [List.pairwise_cons] at h
    simp only [insertLen]
    split
    · rename_i hlt
      refine List.pairwise_cons.2 ⟨?_, List.pairwise_cons.2 h⟩
      intro c hc
      rcases List.mem_cons.1 hc with e | e
      · subst e; omega
      · have := h.1 c e; omega
    · rename_i hge
      refine List.pairwise_cons.2 ⟨?_, ih h.2⟩
      intro c hc
      rcases List.mem_cons.1 ((insertLen_perm p r).mem_iff.1 hc) with e | e
      · subst e; omega
      · exact h.1 c e

theorem sortLen_sorted (l : List Path) : (sortLen l).Pairwise (fun a b => a.length ≤ b.length) := by
  induction l with
  | nil => exact List.Pairwise.nil
  | cons p r ih => exact insertLen_sorted p _ ih

end FileD.Fields
