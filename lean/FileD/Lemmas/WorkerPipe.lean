/- helper lemmas for C06, worker in front of the real pipeline -/
import FileD.Model.WorkerPipe
import FileD.Lemmas.Worker
import FileD.Lemmas.Admission
namespace FileD.WorkerPipe
open FileD FileD.Worker FileD.SpecC06 FileD.SpecC20 FileD.Admission

/-- `Pipeline.In` on one worker call, in closed form -/
def admitCall (cfg : Cfg) (c : Nat × Bytes) : Option (Nat × Bytes) :=
  if c.2 = [] ∨ c.2 = [NL] then none
  else if (cfg.maxSize ≠ 0 ∧ c.2.length > cfg.maxSize) ∧ cfg.cutOff = false then none
  else some (c.1, (specBytes cfg.maxSize c.2).dropLast)

theorem oversize_iff (cfg : Cfg) (b : Bytes) :
    oversize ((settings cfg).maxEventSize) b ↔ (cfg.maxSize ≠ 0 ∧ b.length > cfg.maxSize) := by
  simp only [oversize, settings]
  constructor
  · rintro ⟨h1, h2⟩; exact ⟨by omega, by omega⟩
  · rintro ⟨h1, h2⟩; exact ⟨by omega, by omega⟩

theorem inCall_eq (cfg : Cfg) (c : Nat × Bytes) : inCall cfg c = .ok (admitCall cfg c) := by
  unfold inCall
  rw [inStep_eq_admit _ _ _ _ (by simp [settings])]
  have hb : bannedNow (settings cfg) Antispam.init (rec c) = false := by simp [bannedNow, settings]
  have hcm : ¬ committed (settings cfg) (rec c) := by
    intro h; have := h.1; simp [settings] at this
  rw [hb]
  unfold admitRec admitCall
  have hd : (rec c).data = c.2 := rfl
  simp only [hd, isEmptyRec]
  by_cases he : c.2 = [] ∨ c.2 = [NL]
  · simp [he]
  · simp only [he, ↓reduceIte]
    by_cases ho : oversize ((settings cfg).maxEventSize) c.2 ∧ (settings cfg).cutOff = false
    · have ho' : (cfg.maxSize ≠ 0 ∧ c.2.length > cfg.maxSize) ∧ cfg.cutOff = false :=
        ⟨(oversize_iff cfg c.2).mp ho.1, ho.2⟩
      simp [ho, ho']
    · have ho' : ¬ ((cfg.maxSize ≠ 0 ∧ c.2.length > cfg.maxSize) ∧ cfg.cutOff = false) :=
        fun h => ho ⟨(oversize_iff cfg c.2).mpr h.1, h.2⟩
      simp only [ho, ho', hcm, ↓reduceIte, Bool.false_eq_true]
      simp [specDecode, settings, rec, rawEvent, addMeta_nil, message]

theorem deliver_eq (cfg : Cfg) (cs : List (Nat × Bytes)) :
    deliver cfg cs = .ok (cs.filterMap (admitCall cfg)) := by
  induction cs with
  | nil => rfl
  | cons c cs ih =>
    simp only [deliver, inCall_eq, ih, List.filterMap_cons]
    cases admitCall cfg c <;> rfl

/-- a line that is not over the limit passes `Pipeline.In` as the spec wants -/
theorem admitCall_fits (cfg : Cfg) (x : Nat × Bytes)
    (h : ¬ (cfg.maxSize ≠ 0 ∧ x.2.length > cfg.maxSize)) : admitCall cfg x = wantEvent cfg x := by
  unfold admitCall wantEvent
  have hs : specBytes (cfg.maxSize : Int) x.2 = x.2 :=
    specBytes_of_not_oversize (fun ho => h ((oversize_iff cfg x.2).mp ho))
  by_cases he : x.2 = [] ∨ x.2 = [NL]
  · simp [he]
  · simp [he, h, hs]

/-- cut mode: whatever the worker kept of the middle, the event is the spec's -/
theorem admitCall_cut (cfg : Cfg) (hc : cfg.cutOff = true) (hm : cfg.maxSize ≠ 0) {g w : Nat × Bytes}
    (hk : cutOk cfg.maxSize g w = true) (_hw : w.2.getLast? = some NL) :
    admitCall cfg g = wantEvent cfg w := by
  obtain ⟨h1, h2, h3⟩ := cutOk_iff.mp hk
  by_cases hl : w.2.length ≤ cfg.maxSize
  · have hg : g = w := Prod.ext h1 (h2 hl)
    rw [hg]; exact admitCall_fits cfg w (by omega)
  · have hl' : cfg.maxSize < w.2.length := by omega
    obtain ⟨a, b, c⟩ := h3 hl'
    have hpos : 0 < cfg.maxSize := by omega
    have hge : ¬ (g.2 = [] ∨ g.2 = [NL]) := by
      rintro (e | e)
      · rw [e] at a; simp at a
      · rw [e] at a; simp at a; omega
    have hwe : ¬ (w.2 = [] ∨ w.2 = [NL]) := by
      rintro (e | e)
      · rw [e] at hl'; simp at hl'
      · rw [e] at hl'; simp at hl'; omega
    have hov : oversize (cfg.maxSize : Int) g.2 := (oversize_iff cfg g.2).mpr ⟨hm, a⟩
    unfold admitCall wantEvent
    simp only [hge, hwe, ↓reduceIte, hc, Bool.true_eq_false, and_false, hm, ne_eq, not_false_eq_true,
      hl', gt_iff_lt, and_self]
    have : specBytes (cfg.maxSize : Int) g.2 = g.2.take cfg.maxSize ++ [NL] := by
      simp [specBytes, hov, endsNL, c]
    rw [this, List.dropLast_concat, b, h1]

theorem filterMap_allCut (cfg : Cfg) (hc : cfg.cutOff = true) (hm : cfg.maxSize ≠ 0)
    {calls want : List (Nat × Bytes)} (h : allCut cfg.maxSize calls want = true)
    (hw : ∀ x, x ∈ want → x.2.getLast? = some NL) :
    calls.filterMap (admitCall cfg) = want.filterMap (wantEvent cfg) := by
  induction calls generalizing want with
  | nil => cases want with
    | nil => rfl
    | cons _ _ => simp [allCut] at h
  | cons g gs ih => cases want with
    | nil => simp [allCut] at h
    | cons w ws =>
      simp only [allCut, Bool.and_eq_true] at h
      simp only [List.filterMap_cons]
      rw [admitCall_cut cfg hc hm h.1 (hw w (by simp)), ih h.2 (fun x hx => hw x (by simp [hx]))]

theorem filterMap_filter_fits (cfg : Cfg) (hc : cfg.cutOff = false) (hm : cfg.maxSize ≠ 0)
    (want : List (Nat × Bytes)) :
    (want.filter (fits cfg.maxSize)).filterMap (admitCall cfg) = want.filterMap (wantEvent cfg) := by
  induction want with
  | nil => rfl
  | cons w ws ih =>
    have hmz : (cfg.maxSize == 0) = false := by simpa using hm
    by_cases hf : w.2.length ≤ cfg.maxSize
    · have : fits cfg.maxSize w = true := by simp [SpecC06.fits, hf]
      simp only [List.filter_cons, this, ↓reduceIte, List.filterMap_cons, ih]
      rw [admitCall_fits cfg w (by omega)]
    · have : fits cfg.maxSize w = false := by simp [SpecC06.fits, hmz, hf]
      have hwn : wantEvent cfg w = none := by
        unfold wantEvent
        have hl : cfg.maxSize < w.2.length := by omega
        by_cases he : w.2 = [] ∨ w.2 = [NL]
        · simp [he]
        · simp [he, hm, hl, hc]
      simp only [List.filter_cons, this, Bool.false_eq_true, ↓reduceIte, List.filterMap_cons, hwn, ih]

theorem dropFirst_mem {s : Bool} {l : List (Nat × Bytes)} {x : Nat × Bytes} (h : x ∈ dropFirst s l) : x ∈ l := by
  cases s
  · simpa [dropFirst] using h
  · simp only [dropFirst, ↓reduceIte] at h; exact List.mem_of_mem_drop h

/-- whatever relation `holds` allows between the worker's calls and the spec lines, behind the
    real pipeline the events are exactly `pipeSpec` -/
theorem filterMap_of_match (cfg : Cfg) {calls want : List (Nat × Bytes)} (h : Match cfg calls want)
    (hw : ∀ x, x ∈ want → x.2.getLast? = some NL) :
    calls.filterMap (admitCall cfg) = want.filterMap (wantEvent cfg) := by
  unfold Match at h
  by_cases hm : cfg.maxSize = 0
  · simp only [hm, ↓reduceIte] at h
    subst h
    congr 1; funext x
    exact admitCall_fits cfg x (by simp [hm])
  · simp only [hm, ↓reduceIte] at h
    cases hc : cfg.cutOff
    · simp only [hc, Bool.false_eq_true, ↓reduceIte] at h
      subst h; exact filterMap_filter_fits cfg hc hm want
    · simp only [hc, ↓reduceIte] at h
      exact filterMap_allCut cfg hc hm h hw

end FileD.WorkerPipe
