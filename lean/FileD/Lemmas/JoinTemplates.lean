/- helper lemma for C15: the byte classes of ascii.go against the regexp classes, all 256 bytes -/
import FileD.Model.JoinTemplates
import FileD.Spec.C15Templates
namespace FileD.JoinTemplates
open FileD FileD.SpecC15Templates

/-- every helper agrees with the class of the regexp it replaces, except `IsSpace` on form feed /
    carriage return and `IsHexDigit` on the comma -/
def classesAgree (c : UInt8) : Bool :=
  (c == 12 || c == 13 || isSpace c == reSpace c) && isDigit c == reDigit c &&
  (c == 44 || isHexDigit c == reHexClass c) && isLowerCaseLetter c == reLower c &&
  isUpperCaseLetter c == reUpper c && isLetter c == reLetter c &&
  isLetterOrUnderscore c == reIdentStart c && isLetterOrUnderscoreOrDigit c == reWord c &&
  toLower c == reFold c

set_option maxRecDepth 100000 in
theorem classesAgree_fin : ∀ n : Fin 256, classesAgree (UInt8.ofNat n.val) = true := by decide

theorem classesAgree_all (c : UInt8) : classesAgree c = true := by
  have := classesAgree_fin ⟨c.toNat, c.toNat_lt⟩
  simpa using this

end FileD.JoinTemplates
