/-
  Helper lemmas for C03, part 2: the inductive invariant of `FileRestart.step?` for histories
  without truncation, and its preservation by every op.
-/
import FileD.Lemmas.FileRestartSpec
import FileD.Spec.C03
namespace FileD.FileRestart
open FileD FileD.SpecC06 FileD.SpecC03

/-! ### small facts -/

@[simp] theorem upd_same {α} (m : Nat → α) (i : Nat) (v : α) : upd m i v i = v := by simp [upd]
theorem upd_other {α} (m : Nat → α) {i k : Nat} (v : α) (h : k ≠ i) : upd m i v k = m k := by simp [upd, h]

theorem turn_lit (j : Worker.Job) (hs : j.skip = false) (reads : List Bytes) :
    Worker.turn ⟨0, false⟩ j reads =
      (⟨j.curOffset + reads.flatten.length, specTail reads.flatten j.tail, false⟩,
       specLines reads.flatten j.curOffset j.tail) := turn_unl j hs reads

theorem oget_mem {p : Offsets} {st : Stream} {o : Nat} (h : oget p st = some o) : (st, o) ∈ p := by
  induction p with
  | nil => simp [oget] at h
  | cons x xs ih =>
    obtain ⟨k, v⟩ := x
    simp only [oget] at h
    split at h
    · rename_i hk; simp at h; subst hk; subst h; simp
    · exact List.mem_cons_of_mem _ (ih h)

theorem mem_oset {p : Offsets} {st : Stream} {v : Nat} {x : Stream × Nat} (h : x ∈ oset p st v) :
    x = (st, v) ∨ x ∈ p := by
  induction p with
  | nil => simp [oset] at h; exact Or.inl h
  | cons y ys ih =>
    obtain ⟨k, w⟩ := y
    simp only [oset] at h
    split at h
    · rename_i hk
      rcases List.mem_cons.1 h with h | h
      · left; rw [h, hk]
      · right; exact List.mem_cons_of_mem _ h
    · rcases List.mem_cons.1 h with h | h
      · right; rw [h]; exact List.mem_cons_self
      · rcases ih h with h | h
        · exact Or.inl h
        · exact Or.inr (List.mem_cons_of_mem _ h)

theorem oset_ne_nil (p : Offsets) (st : Stream) (v : Nat) : oset p st v ≠ [] := by
  cases p with
  | nil => simp [oset]
  | cons y ys => obtain ⟨k, w⟩ := y; simp only [oset]; split <;> simp

theorem minOff_le {p : Offsets} {x : Stream × Nat} (h : x ∈ p) : minOff p ≤ x.2 := by
  induction p with
  | nil => simp at h
  | cons y ys ih =>
    obtain ⟨k, w⟩ := y
    cases ys with
    | nil => simp at h; subst h; simp [minOff]
    | cons z zs =>
      simp only [minOff]
      rcases List.mem_cons.1 h with h | h
      · subst h; exact Nat.min_le_left _ _
      · exact Nat.le_trans (Nat.min_le_right _ _) (ih h)

theorem minOff_mem {p : Offsets} (h : p ≠ []) : ∃ x ∈ p, x.2 = minOff p := by
  induction p with
  | nil => exact absurd rfl h
  | cons y ys ih =>
    obtain ⟨k, w⟩ := y
    cases ys with
    | nil => exact ⟨(k, w), by simp, by simp [minOff]⟩
    | cons z zs =>
      simp only [minOff]
      by_cases hw : w ≤ minOff (z :: zs)
      · exact ⟨(k, w), by simp, by simp [Nat.min_eq_left hw]⟩
      · obtain ⟨x, hx, hx'⟩ := ih (by simp)
        refine ⟨x, List.mem_cons_of_mem _ hx, ?_⟩
        rw [hx', Nat.min_eq_right (by omega)]

/-! ### the invariant

  It is parametrised by `G`, the *good* events (all events for the no-loss theorems; after a detected
  truncation only the events read afterwards), and by `Ex`, the sources whose offsets-file entry is
  exempt (after a truncation the entry is stale until the next save). -/

/-- some good event of `evs` is the line `l` of file `i` -/
def CoversG (G : Ev → Prop) (evs : List Ev) (i : Nat) (l : Nat × Bytes) : Prop :=
  ∃ e ∈ evs, G e ∧ e.ino = i ∧ e.off = l.1 ∧ e.data = l.2

def allGood : Ev → Prop := fun _ => True
def noEx : Nat → Prop := fun _ => False

theorem coversG_all {evs : List Ev} {i : Nat} {l : Nat × Bytes} : CoversG allGood evs i l ↔ Covers evs i l :=
  ⟨fun ⟨e, he, _, h⟩ => ⟨e, he, h⟩, fun ⟨e, he, h⟩ => ⟨e, he, trivial, h⟩⟩

theorem CoversG_mono {G : Ev → Prop} {a b : List Ev} (h : ∀ e ∈ a, e ∈ b) {i : Nat} {l : Nat × Bytes} :
    CoversG G a i l → CoversG G b i l := fun ⟨e, he, h3⟩ => ⟨e, h e he, h3⟩

/-- the line is acked, or in flight in this run -/
def Handled (G : Ev → Prop) (s : State) (i : Nat) (l : Nat × Bytes) : Prop :=
  CoversG G s.acked i l ∨ CoversG G s.inflight i l

/-- a committed offset `o` of stream `st`: a line boundary of the file, and every admitted line of
    that stream up to it has been acked -/
structure SoundOff (cfg : Cfg) (G : Ev → Prop) (acked : List Ev) (i : Nat) (c : Bytes) (st : Stream) (o : Nat) : Prop where
  le : o ≤ c.length
  boundary : specTail (c.take o) [] = []
  covered : ∀ l ∈ specLines (c.take o) 0 [], cfg.accept l.2 = true → cfg.streamOf l.2 = st → CoversG G acked i l

def SoundOffs (cfg : Cfg) (G : Ev → Prop) (acked : List Ev) (i : Nat) (c : Bytes) (p : Offsets) : Prop :=
  ∀ x ∈ p, SoundOff cfg G acked i c x.1 x.2

/-- every offset of the list is the end of a line of its stream -/
def Witnessed (cfg : Cfg) (c : Bytes) (p : Offsets) : Prop :=
  ∀ x ∈ p, ∃ d, (x.2, d) ∈ specLines c 0 [] ∧ cfg.streamOf d = x.1

def PrefixAcked (cfg : Cfg) (G : Ev → Prop) (acked : List Ev) (i : Nat) (c : Bytes) (m : Nat) : Prop :=
  ∀ l ∈ specLines (c.take m) 0 [], cfg.accept l.2 = true → CoversG G acked i l

section
variable {cfg : Cfg} {G : Ev → Prop} {Ex : Nat → Prop}

theorem SoundOff.mono {a b : List Ev} {i : Nat} {c : Bytes} {st : Stream} {o : Nat} (more : Bytes)
    (hab : ∀ e ∈ a, e ∈ b) (h : SoundOff cfg G a i c st o) : SoundOff cfg G b i (c ++ more) st o := by
  have e : (c ++ more).take o = c.take o := List.take_append_of_le_length h.le
  refine ⟨by simp; have := h.le; omega, by rw [e]; exact h.boundary, ?_⟩
  rw [e]; intro l hl ha hs; exact CoversG_mono hab (h.covered l hl ha hs)

theorem SoundOffs.mono {a b : List Ev} {i : Nat} {c : Bytes} {p : Offsets} (more : Bytes)
    (hab : ∀ e ∈ a, e ∈ b) (h : SoundOffs cfg G a i c p) : SoundOffs cfg G b i (c ++ more) p :=
  fun x hx => (h x hx).mono more hab

theorem SoundOffs.mono' {a b : List Ev} {i : Nat} {c : Bytes} {p : Offsets}
    (hab : ∀ e ∈ a, e ∈ b) (h : SoundOffs cfg G a i c p) : SoundOffs cfg G b i c p := by
  have := h.mono [] hab; simpa using this

theorem Witnessed.mono {c : Bytes} {p : Offsets} (more : Bytes) (h : Witnessed cfg c p) :
    Witnessed cfg (c ++ more) p := by
  intro x hx
  obtain ⟨d, hd, hs⟩ := h x hx
  exact ⟨d, by rw [specLines_append]; exact List.mem_append_left _ hd, hs⟩

theorem PrefixAcked.mono {a b : List Ev} {i : Nat} {c : Bytes} {m : Nat} (more : Bytes)
    (hm : m ≤ c.length) (hab : ∀ e ∈ a, e ∈ b) (h : PrefixAcked cfg G a i c m) :
    PrefixAcked cfg G b i (c ++ more) m := by
  have e : (c ++ more).take m = c.take m := List.take_append_of_le_length hm
  intro l hl ha; rw [e] at hl; exact CoversG_mono hab (h l hl ha)

theorem PrefixAcked.mono' {a b : List Ev} {i : Nat} {c : Bytes} {m : Nat}
    (hab : ∀ e ∈ a, e ∈ b) (h : PrefixAcked cfg G a i c m) : PrefixAcked cfg G b i c m :=
  fun l hl ha => CoversG_mono hab (h l hl ha)

theorem minOff_le_length {a : List Ev} {i : Nat} {c : Bytes} {p : Offsets}
    (hp : p ≠ []) (h : SoundOffs cfg G a i c p) : minOff p ≤ c.length := by
  obtain ⟨x, hx, e⟩ := minOff_mem hp
  rw [← e]; exact (h x hx).le

end

/-- per-job part of the invariant, relative to the list `hl` of lines the job has consumed -/
structure JobInv (cfg : Cfg) (G : Ev → Prop) (Ex : Nat → Prop) (s : State) (i : Nat) (j : JobSt) (c : Bytes)
    (hl : List (Nat × Bytes)) : Prop where
  skip : j.w.skip = false
  le : j.w.curOffset ≤ c.length
  tail : specTail (c.take j.w.curOffset) [] = j.w.tail
  handled : ∀ l ∈ hl, cfg.accept l.2 = true → Handled G s i l
  offs : SoundOffs cfg G s.acked i c j.offsets
  wit : ¬ Ex i → Witnessed cfg c j.offsets
  infl : ∀ e ∈ s.inflight, G e → e.ino = i → (e.off, e.data) ∈ hl ∧ e.stream = cfg.streamOf e.data

/-- good in-flight events of one source are listed in offset order -/
def Sorted (G : Ev → Prop) (l : List Ev) : Prop :=
  l.Pairwise (fun a b => G a → G b → a.ino = b.ino → a.off < b.off)

/-- the part of the invariant about the offsets file and the loaded offsets -/
structure Glob (cfg : Cfg) (G : Ev → Prop) (Ex : Nat → Prop) (files : Nat → Option FileSt) (acked : List Ev)
    (persisted loaded : Nat → Option Offsets) (up : Bool) : Prop where
  pers : ∀ i p, ¬ Ex i → persisted i = some p →
      ∃ f, files i = some f ∧ p ≠ [] ∧ SoundOffs cfg G acked i f.content p ∧ Witnessed cfg f.content p
  loaded : ∀ i p, ¬ Ex i → loaded i = some p →
      ∃ f, files i = some f ∧ p ≠ [] ∧ SoundOffs cfg G acked i f.content p ∧ Witnessed cfg f.content p ∧
        PrefixAcked cfg G acked i f.content (minOff p)
  down_prefix : up = false → ∀ i p f, ¬ Ex i → persisted i = some p → files i = some f →
      PrefixAcked cfg G acked i f.content (minOff p)

structure Inv (cfg : Cfg) (G : Ev → Prop) (Ex : Nat → Prop) (s : State) : Prop where
  glob : Glob cfg G Ex s.files s.acked s.persisted s.loaded s.up
  jobs : ∀ i j, s.jobs i = some j → ∃ f, s.files i = some f ∧
      JobInv cfg G Ex s i j f.content (specLines (f.content.take j.w.curOffset) 0 [])
  infl_job : ∀ e ∈ s.inflight, (s.jobs e.ino).isSome
  sorted : Sorted G s.inflight
  down : s.up = false → (∀ i, s.jobs i = none) ∧ s.inflight = []
  skipped : ∀ e ∈ s.skipped, ¬ Ex e.ino → CoversG G s.acked e.ino (e.off, e.data)
  /-- an in-flight event that is not good is stale: its commit will be ignored -/
  bad : ∀ e ∈ s.inflight, ¬ G e → ∃ j, s.jobs e.ino = some j ∧ e.seq ≤ j.ignoreLE
  /-- the next event of every pipeline stream is good -/
  fresh : ∀ i off data, G ⟨i, cfg.streamOf data, off, s.seqs i (cfg.streamOf data) + 1, data⟩
  /-- exempt sources (truncated in this run) have a job -/
  exJob : ∀ i, Ex i → (s.jobs i).isSome

/-- goodness only depends on source, stream and SeqID, and is upward closed in the SeqID -/
def GoodUp (G : Ev → Prop) : Prop :=
  ∀ i st off d off' d' q q', q ≤ q' → G ⟨i, st, off, q, d⟩ → G ⟨i, st, off', q', d'⟩

theorem goodUp_all : GoodUp allGood := fun _ _ _ _ _ _ _ _ _ _ => trivial

theorem inv_init (cfg : Cfg) : Inv cfg allGood noEx init := by
  refine ⟨⟨?_, ?_, ?_⟩, ?_, ?_, ?_, ?_, ?_, ?_, ?_, ?_⟩ <;> simp [init, Sorted, allGood, noEx]

/-! ### the environment: files -/

/-- growth of the watched directory: every existing file keeps its content as a prefix -/
def FilesGrow (fs fs' : Nat → Option FileSt) : Prop :=
  ∀ i f, fs i = some f → ∃ f' more, fs' i = some f' ∧ f'.content = f.content ++ more

section
variable {cfg : Cfg} {G : Ev → Prop} {Ex : Nat → Prop}

theorem Glob.grow {fs fs' : Nat → Option FileSt} {acked : List Ev}
    {pe lo : Nat → Option Offsets} {up : Bool}
    (hg : FilesGrow fs fs') (h : Glob cfg G Ex fs acked pe lo up) : Glob cfg G Ex fs' acked pe lo up := by
  refine ⟨?_, ?_, ?_⟩
  · intro i p hex hp
    obtain ⟨f, hf, hne, hs, hw⟩ := h.pers i p hex hp
    obtain ⟨f', more, hf', e⟩ := hg i f hf
    exact ⟨f', hf', hne, by rw [e]; exact hs.mono more (fun _ h => h), by rw [e]; exact hw.mono more⟩
  · intro i p hex hp
    obtain ⟨f, hf, hne, hs, hw, hpa⟩ := h.loaded i p hex hp
    obtain ⟨f', more, hf', e⟩ := hg i f hf
    refine ⟨f', hf', hne, by rw [e]; exact hs.mono more (fun _ h => h), by rw [e]; exact hw.mono more, ?_⟩
    rw [e]; exact hpa.mono more (minOff_le_length hne hs) (fun _ h => h)
  · intro hup i p f' hex hp hf'
    obtain ⟨f, hf, hne, hs, _⟩ := h.pers i p hex hp
    obtain ⟨f'', more, hf'', e⟩ := hg i f hf
    rw [hf'] at hf''; cases hf''
    rw [e]; exact (h.down_prefix hup i p f hex hp hf).mono more (minOff_le_length hne hs) (fun _ h => h)

theorem JobInv.grow {s s' : State} {i : Nat} {j : JobSt} {c : Bytes} (more : Bytes)
    (ha : s'.acked = s.acked) (hi : s'.inflight = s.inflight)
    (h : JobInv cfg G Ex s i j c (specLines (c.take j.w.curOffset) 0 [])) :
    JobInv cfg G Ex s' i j (c ++ more) (specLines ((c ++ more).take j.w.curOffset) 0 []) := by
  have e : (c ++ more).take j.w.curOffset = c.take j.w.curOffset := List.take_append_of_le_length h.le
  rw [e]
  refine ⟨h.skip, by simp; have := h.le; omega, by rw [e]; exact h.tail, ?_, ?_, ?_, ?_⟩
  · intro l hl hacc; simp only [Handled, ha, hi]; exact h.handled l hl hacc
  · rw [ha]; exact h.offs.mono more (fun _ h => h)
  · intro hex; exact (h.wit hex).mono more
  · rw [hi]; exact h.infl

/-- a step that only changes the files, growing them -/
theorem Inv.files_grow {s : State} {fs' : Nat → Option FileSt}
    (hg : FilesGrow s.files fs') (h : Inv cfg G Ex s) : Inv cfg G Ex { s with files := fs' } := by
  refine ⟨h.glob.grow hg, ?_, h.infl_job, h.sorted, h.down, h.skipped, h.bad, h.fresh, h.exJob⟩
  intro i j hj
  obtain ⟨f, hf, hji⟩ := h.jobs i j hj
  obtain ⟨f', more, hf', e⟩ := hg i f hf
  exact ⟨f', hf', by rw [e]; exact hji.grow (s := s) (s' := { s with files := fs' }) more rfl rfl⟩

end

theorem filesGrow_upd_append {fs : Nat → Option FileSt} {i : Nat} {f : FileSt} (hf : fs i = some f) (b : Bytes) :
    FilesGrow fs (upd fs i (some { f with content := f.content ++ b })) := by
  intro k g hg
  by_cases hk : k = i
  · subst hk; rw [hf] at hg; cases hg; exact ⟨{ f with content := f.content ++ b }, b, by simp, rfl⟩
  · exact ⟨g, [], by rw [upd_other _ _ hk]; exact hg, by simp⟩

theorem filesGrow_upd_new {fs : Nat → Option FileSt} {i : Nat} (hf : fs i = none) (g : FileSt) :
    FilesGrow fs (upd fs i (some g)) := by
  intro k f hk
  have : k ≠ i := by intro e; subst e; rw [hf] at hk; cases hk
  exact ⟨f, [], by rw [upd_other _ _ this]; exact hk, by simp⟩

theorem filesGrow_upd_name {fs : Nat → Option FileSt} {i : Nat} {f : FileSt} (hf : fs i = some f) (nm : Nat) :
    FilesGrow fs (upd fs i (some { f with name := nm })) := by
  intro k g hg
  by_cases hk : k = i
  · subst hk; rw [hf] at hg; cases hg; exact ⟨{ f with name := nm }, [], by simp, by simp⟩
  · exact ⟨g, [], by rw [upd_other _ _ hk]; exact hg, by simp⟩

theorem FilesGrow.trans {a b c : Nat → Option FileSt} (h1 : FilesGrow a b) (h2 : FilesGrow b c) :
    FilesGrow a c := by
  intro i f hf
  obtain ⟨f', m1, hf', e1⟩ := h1 i f hf
  obtain ⟨f'', m2, hf'', e2⟩ := h2 i f' hf'
  exact ⟨f'', m1 ++ m2, hf'', by rw [e2, e1, List.append_assoc]⟩

end FileD.FileRestart
