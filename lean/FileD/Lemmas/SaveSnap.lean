/- Invariant of concurrent saves under the real lock order (Model/SaveSnap.lean). -/
import FileD.Model.SaveSnap
namespace FileD.SaveSnap

/-- invariant of the real lock order: only the holder of o.mu is not idle, nobody has a snapshot
    without the lock, and the holder's cells of the shared array are the order it snapshotted -/
structure LInv (s : St) : Prop where
  only_holder : ∀ g, s.pcs g ≠ .idle → s.holder = some g
  no_snapped  : ∀ g ord, s.pcs g ≠ .snapped ord
  own_cells   : ∀ g ord idx buf, s.pcs g = .fmt ord idx buf →
                  s.shared.take ord.length = ord ∧ buf = ord.take idx ∧ idx ≤ ord.length
  done_ok     : ∀ p ∈ s.done, p.2 = p.1

theorem linv_init : LInv init :=
  ⟨by simp [init], by simp [init], by simp [init], by simp [init]⟩

theorem setPc_same (s : St) (g : Nat) (pc : PC) : setPc s g pc g = pc := by simp [setPc]
theorem setPc_other (s : St) (g g' : Nat) (pc : PC) (h : g' ≠ g) : setPc s g pc g' = s.pcs g' := by
  simp [setPc, h]

theorem others_idle {s : St} (hi : LInv s) {g g' : Nat} (hh : s.holder = some g) (hne : g' ≠ g) :
    s.pcs g' = .idle := by
  by_cases h : s.pcs g' = .idle
  · exact h
  · have := hi.only_holder g' h
    rw [hh] at this; simp at this; exact absurd this.symm hne

theorem linv_step (s : St) (op : Op) (s' : St) (hi : LInv s) (hs : step? .lockFirst s op = some s') :
    LInv s' := by
  cases op with
  | lock g =>
    simp only [step?] at hs
    cases hh : s.holder with
    | some x => simp [hh] at hs
    | none =>
      simp only [hh] at hs
      cases hp : s.pcs g <;> simp [hp] at hs
      subst hs
      have allidle : ∀ g', s.pcs g' = .idle := by
        intro g'
        by_cases h : s.pcs g' = .idle
        · exact h
        · have := hi.only_holder g' h; rw [hh] at this; simp at this
      refine ⟨?_, ?_, ?_, hi.done_ok⟩
      · intro g' hne
        by_cases e : g' = g
        · subst e; rfl
        · simp [setPc, e, allidle g'] at hne
      · intro g' ord
        by_cases e : g' = g
        · subst e; simp [setPc]
        · simp [setPc, e, allidle g']
      · intro g' ord idx buf h
        by_cases e : g' = g
        · subst e; simp [setPc] at h
        · simp [setPc, e, allidle g'] at h
  | snap g ord =>
    simp only [step?] at hs
    cases hp : s.pcs g <;> simp [hp] at hs
    subst hs
    have hh : s.holder = some g := hi.only_holder g (by rw [hp]; simp)
    refine ⟨?_, ?_, ?_, hi.done_ok⟩
    · intro g' hne
      by_cases e : g' = g
      · subst e; exact hh
      · simp [setPc, e, others_idle hi hh e] at hne
    · intro g' ord'
      by_cases e : g' = g
      · subst e; simp [setPc]
      · simp [setPc, e, others_idle hi hh e]
    · intro g' ord' idx buf h
      by_cases e : g' = g
      · subst e
        simp [setPc] at h
        obtain ⟨rfl, rfl, rfl⟩ := h
        simp [refill]
      · simp [setPc, e, others_idle hi hh e] at h
  | visit g =>
    simp only [step?] at hs
    cases hp : s.pcs g with
    | fmt ord idx buf =>
      simp only [hp] at hs
      split at hs
      · rename_i hlt
        cases hx : s.shared[idx]? with
        | none => simp [hx] at hs
        | some x =>
          simp [hx] at hs
          subst hs
          have hh : s.holder = some g := hi.only_holder g (by rw [hp]; simp)
          obtain ⟨hcells, hbuf, _⟩ := hi.own_cells g ord idx buf hp
          refine ⟨?_, ?_, ?_, hi.done_ok⟩
          · intro g' hne
            by_cases e : g' = g
            · subst e; exact hh
            · simp [setPc, e, others_idle hi hh e] at hne
          · intro g' ord'
            by_cases e : g' = g
            · subst e; simp [setPc]
            · simp [setPc, e, others_idle hi hh e]
          · intro g' ord' idx' buf' h
            by_cases e : g' = g
            · subst e
              simp [setPc] at h
              obtain ⟨rfl, rfl, rfl⟩ := h
              refine ⟨hcells, ?_, hlt⟩
              have h1 : ord[idx]? = some x := by
                have h2 : (s.shared.take ord.length)[idx]? = s.shared[idx]? := List.getElem?_take_of_lt hlt
                rw [hcells] at h2
                rw [h2, hx]
              rw [List.take_add_one, h1, hbuf]; rfl
            · simp [setPc, e, others_idle hi hh e] at h
      · simp at hs
    | _ => simp [hp] at hs
  | finish g =>
    simp only [step?] at hs
    cases hp : s.pcs g with
    | fmt ord idx buf =>
      simp only [hp] at hs
      split at hs
      · rename_i heq
        simp at hs
        subst hs
        have hh : s.holder = some g := hi.only_holder g (by rw [hp]; simp)
        obtain ⟨_, hbuf, _⟩ := hi.own_cells g ord idx buf hp
        refine ⟨?_, ?_, ?_, ?_⟩
        · intro g' hne
          by_cases e : g' = g
          · subst e; simp [setPc] at hne
          · simp [setPc, e, others_idle hi hh e] at hne
        · intro g' ord'
          by_cases e : g' = g
          · subst e; simp [setPc]
          · simp [setPc, e, others_idle hi hh e]
        · intro g' ord' idx' buf' h
          by_cases e : g' = g
          · subst e; simp [setPc] at h
          · simp [setPc, e, others_idle hi hh e] at h
        · intro p hpm
          simp at hpm
          rcases hpm with h | h
          · exact hi.done_ok p h
          · subst h; simp [hbuf, heq]
      · simp at hs
    | _ => simp [hp] at hs

end FileD.SaveSnap
