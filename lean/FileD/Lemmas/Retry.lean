/-
  Lemmas about the RetriableBatcher.Out fold (Model/Retry.lean).
-/
import FileD.Model.Retry
import FileD.Lemmas.Batcher
namespace FileD.Retry
open FileD.Batcher

theorem failedSends_cons_false (l : List REv) : failedSends (.send false :: l) = failedSends l + 1 := by
  simp [failedSends, List.filter]

theorem failedSends_cons_next (t : Nat) (b : BackOff) (l : List REv) :
    failedSends (.next t b :: l) = failedSends l := by
  simp [failedSends, List.filter]

theorem failedSends_cons_sleep (d : Nat) (l : List REv) : failedSends (.sleep d :: l) = failedSends l := by
  simp [failedSends, List.filter]

theorem failedSends_giveUp (cfg : RCfg) (evs : List Ev) : failedSends (giveUp cfg evs) = 0 := by
  unfold giveUp failedSends
  split
  · simp [List.filter_append, List.filter]
  · simp [List.filter]

theorem errorCalls_giveUp (cfg : RCfg) (evs : List Ev) : errorCalls (giveUp cfg evs) = 1 := by
  unfold giveUp errorCalls
  split
  · simp [List.filter_append, List.filter]
  · simp [List.filter]

theorem failedIds_giveUp (cfg : RCfg) (evs : List Ev) :
    failedIds (giveUp cfg evs) = if cfg.dq then evs.map (·.id) else [] := by
  unfold giveUp failedIds
  split
  · simp [List.filterMap_append, List.filterMap_map, Function.comp_def]
  · simp

/-- what `out` returns, by cases on the first oracle values -/
theorem out_fail_cons (cfg : RCfg) (evs : List Ev) (ss : List Bool) (b : BackOff) (bs : List BackOff) (tries : Nat) :
    out cfg evs (false :: ss) (b :: bs) tries =
      if b = .stop ∨ exhausted cfg tries = true then
        { log := [.send false, .next tries b] ++ giveUp cfg evs, finished := true, gaveUp := true, keep := !cfg.dq }
      else
        { out cfg evs ss bs (tries + 1) with
          log := [.send false, .next tries b, .sleep (match b with | .dur d => d | .stop => 0)] ++
                 (out cfg evs ss bs (tries + 1)).log } := by
  simp only [out]
  split <;> rfl

/-- the central counting fact: if the back-off never says stop, giving up needs
    `failedSends + tries ≥ attemptNum + 2` and a non-negative `attemptNum` -/
theorem gaveUp_counts (cfg : RCfg) (evs : List Ev) (sends : List Bool) (backs : List BackOff) (tries : Nat)
    (hns : ∀ b ∈ backs, b ≠ .stop) (hg : (out cfg evs sends backs tries).gaveUp = true) :
    cfg.attemptNum ≥ 0 ∧ ((failedSends (out cfg evs sends backs tries).log + tries : Nat) : Int) ≥ cfg.attemptNum + 2 := by
  induction sends generalizing backs tries with
  | nil => simp [out] at hg
  | cons s ss ih =>
    cases s with
    | true => simp [out] at hg
    | false =>
      cases backs with
      | nil => simp [out] at hg
      | cons b bs =>
        rw [out_fail_cons] at hg ⊢
        have hb : b ≠ .stop := hns b (by simp)
        split
        · rename_i hc
          rcases hc with hc | hc
          · exact absurd hc hb
          · simp only [exhausted, Bool.and_eq_true, decide_eq_true_eq] at hc
            refine ⟨hc.1, ?_⟩
            simp only [List.cons_append, List.nil_append, failedSends_cons_false, failedSends_cons_next,
              failedSends_giveUp]
            omega
        · rename_i hc
          simp only [hc, ↓reduceIte] at hg
          have := ih bs (tries + 1) (fun x hx => hns x (by simp [hx])) hg
          refine ⟨this.1, ?_⟩
          simp only [List.cons_append, List.nil_append, failedSends_cons_false, failedSends_cons_next,
            failedSends_cons_sleep]
          have h2 := this.2
          omega

/-- shape of a finished call that gave up: the log ends with the give-up block -/
theorem gaveUp_shape (cfg : RCfg) (evs : List Ev) (sends : List Bool) (backs : List BackOff) (tries : Nat)
    (hg : (out cfg evs sends backs tries).gaveUp = true) :
    (out cfg evs sends backs tries).finished = true ∧
    (out cfg evs sends backs tries).keep = !cfg.dq ∧
    errorCalls (out cfg evs sends backs tries).log = 1 ∧
    failedIds (out cfg evs sends backs tries).log = (if cfg.dq then evs.map (·.id) else []) := by
  induction sends generalizing backs tries with
  | nil => simp [out] at hg
  | cons s ss ih =>
    cases s with
    | true => simp [out] at hg
    | false =>
      cases backs with
      | nil => simp [out] at hg
      | cons b bs =>
        rw [out_fail_cons] at hg ⊢
        split
        · refine ⟨rfl, rfl, ?_, ?_⟩
          · have := errorCalls_giveUp cfg evs
            simp only [errorCalls, List.cons_append, List.nil_append, List.filter] at this ⊢
            exact this
          · have := failedIds_giveUp cfg evs
            simp only [failedIds, List.cons_append, List.nil_append, List.filterMap] at this ⊢
            exact this
        · rename_i hc
          simp only [hc, ↓reduceIte] at hg
          have := ih bs (tries + 1) hg
          refine ⟨this.1, this.2.1, ?_, ?_⟩
          · have h := this.2.2.1
            simp only [errorCalls, List.cons_append, List.nil_append, List.filter] at h ⊢
            exact h
          · have h := this.2.2.2
            simp only [failedIds, List.cons_append, List.nil_append, List.filterMap] at h ⊢
            exact h

/-- a call that did not give up hands nothing over, calls no error callback and keeps the batch -/
theorem notGaveUp_shape (cfg : RCfg) (evs : List Ev) (sends : List Bool) (backs : List BackOff) (tries : Nat)
    (hg : (out cfg evs sends backs tries).gaveUp = false) :
    (out cfg evs sends backs tries).keep = true ∧
    errorCalls (out cfg evs sends backs tries).log = 0 ∧
    failedIds (out cfg evs sends backs tries).log = [] := by
  induction sends generalizing backs tries with
  | nil => simp [out, errorCalls, failedIds]
  | cons s ss ih =>
    cases s with
    | true => simp [out, errorCalls, failedIds, List.filter, List.filterMap]
    | false =>
      cases backs with
      | nil => simp [out, errorCalls, failedIds, List.filter, List.filterMap]
      | cons b bs =>
        rw [out_fail_cons] at hg ⊢
        split
        · rename_i hc; simp [hc] at hg
        · rename_i hc
          simp only [hc, ↓reduceIte] at hg
          have := ih bs (tries + 1) hg
          refine ⟨this.1, ?_, ?_⟩
          · have h := this.2.1
            simp only [errorCalls, List.cons_append, List.nil_append, List.filter] at h ⊢
            exact h
          · have h := this.2.2
            simp only [failedIds, List.cons_append, List.nil_append, List.filterMap] at h ⊢
            exact h

end FileD.Retry

namespace FileD.Retry
open FileD.Batcher

theorem sleepsOf_giveUp (cfg : RCfg) (evs : List Ev) : sleepsOf (giveUp cfg evs) = [] := by
  unfold giveUp sleepsOf
  split
  · simp [List.filterMap_append, List.filterMap_map, Function.comp_def]
  · simp

/-- the pauses of one `Out` call are, in order, the answers of that call's own back-off:
    the n-th sleep is the n-th `NextBackOff()` result (as long as the call goes on) -/
theorem sleeps_prefix (cfg : RCfg) (evs : List Ev) (sends : List Bool) (backs : List BackOff) (tries : Nat) :
    ∃ r, sleepsOf (out cfg evs sends backs tries).log = (backs.take r).map (fun b => match b with | .dur d => d | .stop => 0) ∧
      ∀ b ∈ backs.take r, b ≠ .stop := by
  induction sends generalizing backs tries with
  | nil => exact ⟨0, by simp [out, sleepsOf], by simp⟩
  | cons s ss ih =>
    cases s with
    | true => exact ⟨0, by simp [out, sleepsOf], by simp⟩
    | false =>
      cases backs with
      | nil => exact ⟨0, by simp [out, sleepsOf], by simp⟩
      | cons b bs =>
        rw [out_fail_cons]
        split
        · refine ⟨0, ?_, by simp⟩
          have := sleepsOf_giveUp cfg evs
          simp only [sleepsOf, List.cons_append, List.nil_append, List.filterMap] at this ⊢
          simpa using this
        · rename_i hc
          obtain ⟨r, h1, h2⟩ := ih bs (tries + 1)
          have hb : b ≠ .stop := fun h => hc (Or.inl h)
          refine ⟨r + 1, ?_, ?_⟩
          · simp only [sleepsOf, List.cons_append, List.nil_append, List.filterMap, List.take_succ_cons, List.map_cons] at h1 ⊢
            rw [h1]
          · intro x hx
            simp only [List.take_succ_cons, List.mem_cons] at hx
            rcases hx with rfl | hx
            · exact hb
            · exact h2 x hx

end FileD.Retry
