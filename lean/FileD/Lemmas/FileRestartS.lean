/-
  Helper lemmas for C03, part 6: a twin of `step?` whose worker turn is written with the structural
  functions `specLines` / `specTail` (what `Worker.turn` computes without size limit, `turn_lit`).
  The kernel can evaluate the twin on concrete histories (`Worker.parseLoop` is defined by
  well-founded recursion and does not reduce); on every history the two coincide.
-/
import FileD.Lemmas.FileRestartRun
namespace FileD.FileRestart
open FileD FileD.SpecC06 FileD.SpecC03

def readTurnS (cfg : Cfg) (s : State) (i : Nat) (f : FileSt) (j : JobSt) (reads : List Bytes) : State :=
  let s1 := (specLines reads.flatten j.w.curOffset j.w.tail).foldl (inOne cfg i) s
  match s1.jobs i with
  | none => s1
  | some j1 =>
    let j2 : JobSt := { j1 with w := ⟨j.w.curOffset + reads.flatten.length, specTail reads.flatten j.w.tail, false⟩ }
    let j3 : JobSt := if j2.w.curOffset > f.content.length then truncateJob j2 else j2
    { s1 with jobs := upd s1.jobs i (some j3) }

theorem readTurn_eq_S (cfg : Cfg) (s : State) (i : Nat) (f : FileSt) (j : JobSt) (reads : List Bytes)
    (hs : j.w.skip = false) : readTurn cfg s i f j reads = readTurnS cfg s i f j reads := by
  unfold readTurn readTurnS
  rw [turn_lit j.w hs reads]
  rfl

def stepS? (cfg : Cfg) (s : State) : Op → Option State
  | .readTurn i reads =>
    if running s then
      match s.files i, s.jobs i with
      | some f, some j =>
        if reads.flatten <+: f.content.drop j.w.curOffset then some (readTurnS cfg s i f j reads) else none
      | _, _ => none
    else none
  | op => step? cfg s op

/-- `shouldSkip` is never set (offsets_op is `continue` or `reset`, never `tail`) -/
def SkipInv (s : State) : Prop := ∀ i j, s.jobs i = some j → j.w.skip = false

theorem step_eq_S {cfg : Cfg} {s : State} (h : SkipInv s) (op : Op) : step? cfg s op = stepS? cfg s op := by
  cases op <;> try rfl
  rename_i i reads
  simp only [step?, stepS?]
  split
  · cases hf : s.files i with
    | none => rfl
    | some f =>
      cases hj : s.jobs i with
      | none => rfl
      | some j => simp only [readTurn_eq_S cfg s i f j reads (h i j hj)]
  · rfl

theorem inOne_skip {cfg : Cfg} {i : Nat} {s : State} (l : Nat × Bytes) (h : SkipInv s) : SkipInv (inOne cfg i s l) := by
  unfold inOne
  split
  · exact h
  · rename_i j hj
    split
    · split
      · intro k jk hk
        by_cases hki : k = i
        · subst hki; simp only [upd_same] at hk; cases hk; exact h k j hj
        · simp only [upd_other _ _ hki] at hk; exact h k jk hk
      · exact h
    · exact h

theorem fold_skip {cfg : Cfg} {i : Nat} (calls : List (Nat × Bytes)) {s : State} (h : SkipInv s) :
    SkipInv (calls.foldl (inOne cfg i) s) := by
  induction calls generalizing s with
  | nil => exact h
  | cons c cs ih => exact ih (inOne_skip c h)

theorem skipInv_upd {s : State} {i : Nat} {jn : JobSt} (hn : jn.w.skip = false) (h : SkipInv s) :
    SkipInv { s with jobs := upd s.jobs i (some jn) } := by
  intro k jk hk
  by_cases hki : k = i
  · subst hki; simp only [upd_same] at hk; cases hk; exact hn
  · simp only [upd_other _ _ hki] at hk; exact h k jk hk

theorem skipInv_step {cfg : Cfg} {s s' : State} {op : Op} (h : SkipInv s) (hs : stepS? cfg s op = some s') :
    SkipInv s' := by
  cases op with
  | readTurn i reads =>
    simp only [stepS?] at hs
    split at hs
    · split at hs
      · rename_i f j hf hj
        split at hs
        · cases hs
          unfold readTurnS
          have hfold := fold_skip (cfg := cfg) (i := i) (specLines reads.flatten j.w.curOffset j.w.tail) h
          dsimp only
          split
          · exact hfold
          · rename_i j1 hj1
            refine skipInv_upd ?_ hfold
            split <;> simp [truncateJob]
        · cases hs
      · cases hs
    · cases hs
  | discover i =>
    simp only [stepS?, step?] at hs
    split at hs
    · split at hs
      · cases hs
        unfold addJob
        split
        · split
          · exact skipInv_upd rfl h
          · split
            · exact h
            · exact skipInv_upd rfl h
        · exact skipInv_upd rfl h
      · cases hs
    · cases hs
  | commit e =>
    simp only [stepS?, step?] at hs
    split at hs
    · cases hs
      unfold commit
      split
      · exact h
      · rename_i j hj
        split
        · exact h
        · split
          · split
            · exact h
            · exact skipInv_upd (h _ j hj) h
          · split
            · exact h
            · exact skipInv_upd (h _ j hj) h
    · cases hs
  | crash =>
    simp only [stepS?, step?] at hs
    split at hs
    · cases hs; intro k jk hk; cases hk
    · cases hs
  | create i nm => simp only [stepS?, step?] at hs; split at hs <;> cases hs; exact h
  | append i b =>
    simp only [stepS?, step?] at hs
    split at hs
    · split at hs <;> cases hs; exact h
    · cases hs
  | appendPartial i b => simp only [stepS?, step?] at hs; split at hs <;> cases hs; exact h
  | renameRotate i nm k => simp only [stepS?, step?] at hs; split at hs <;> cases hs; exact h
  | truncate i => simp only [stepS?, step?] at hs; split at hs <;> cases hs; exact h
  | scanDone => simp only [stepS?, step?] at hs; split at hs <;> cases hs; exact h
  | deliver e => simp only [stepS?, step?] at hs; split at hs <;> cases hs; exact h
  | ack e => simp only [stepS?, step?] at hs; split at hs <;> cases hs; exact h
  | save i =>
    simp only [stepS?, step?] at hs
    split at hs
    · split at hs <;> cases hs; exact h
    · cases hs
  | saveAbsent i =>
    simp only [stepS?, step?] at hs
    split at hs
    · split at hs <;> cases hs; exact h
    · cases hs
  | restart => simp only [stepS?, step?] at hs; split at hs <;> cases hs; exact h
  | forget i =>
    simp only [stepS?, step?] at hs
    split at hs
    · split at hs
      · split at hs
        · cases hs
          intro k jk hk
          by_cases hki : k = i
          · subst hki; simp at hk
          · simp only [upd_other _ _ hki] at hk; exact h k jk hk
        · cases hs
      · cases hs
    · cases hs

/-- the two step functions agree along every history that starts without a skipping job -/
theorem run_eq_S {cfg : Cfg} (ops : List Op) {s : State} (h : SkipInv s) :
    TS.run (step? cfg) s ops = TS.run (stepS? cfg) s ops := by
  induction ops generalizing s with
  | nil => rfl
  | cons op ops ih =>
    simp only [TS.run, step_eq_S h op]
    cases hso : stepS? cfg s op with
    | none => rfl
    | some s1 => exact ih (skipInv_step h hso)

theorem skipInv_init : SkipInv init := by intro i j h; cases h

end FileD.FileRestart

namespace FileD.FileRestart
open FileD FileD.SpecC06 FileD.SpecC03

/-- the states in which the `crash` ops of a history are executed (computed with the twin) -/
def crashStates (cfg : Cfg) : State → List Op → List State
  | _, [] => []
  | s, op :: ops =>
    (match op with | .crash => [s] | _ => []) ++
    (match stepS? cfg s op with | some s' => crashStates cfg s' ops | none => [])

theorem atCrashes_of_crashStates {cfg : Cfg} {P : State → Prop} (ops : List Op) {s : State} (h : SkipInv s)
    (hp : ∀ sc ∈ crashStates cfg s ops, P sc) : AtCrashes cfg P s ops := by
  induction ops generalizing s with
  | nil => trivial
  | cons op ops ih =>
    refine ⟨?_, ?_⟩
    · intro hop; subst hop
      exact hp s (by simp [crashStates])
    · intro s' hs'
      rw [step_eq_S h op] at hs'
      refine ih (skipInv_step h hs') ?_
      intro sc hsc
      exact hp sc (by simp only [crashStates, hs']; exact List.mem_append_right _ hsc)

end FileD.FileRestart
