/-
  Children of split parents in M1 (Model/Core.lean): processor.Spawn hands every child to the
  output before the parent itself goes out, batches are committed in the order they were sealed
  and only after their send returned (or they had nothing to send), hence a parent is committed
  only after all its children were sent.
-/
import FileD.Lemmas.Core
namespace FileD.Core

/-- what a sealed batch holds, regardless of its status -/
def shape (l : List Batch) : List (List Ev × List Kid) := l.map (fun b => (b.evs, b.kids))

theorem setSt_shape {k evs st l f} (h : setSt k evs st l = some f) : shape f = shape l := by
  induction l generalizing f with
  | nil => simp [setSt] at h
  | cons b bs ih =>
    simp only [setSt] at h
    split at h
    · split at h
      · simp at h; subst h; simp [shape]
      · simp at h
    · cases hr : setSt k evs st bs with
      | none => simp [hr] at h
      | some f' =>
        simp [hr] at h; subst h
        have := ih hr
        simp only [shape, List.map_cons] at this ⊢
        rw [this]

theorem giveUpIn_shape {k evs st l f} (h : giveUpIn k evs st false l = some f) : shape f = shape l := by
  induction l generalizing f with
  | nil => simp [giveUpIn] at h
  | cons b bs ih =>
    simp only [giveUpIn] at h
    split at h
    · simp at h; subst h; simp [shape]
    · cases hr : giveUpIn k evs st false bs with
      | none => simp [hr] at h
      | some f' =>
        simp [hr] at h; subst h
        have := ih hr
        simp only [shape, List.map_cons] at this ⊢
        rw [this]

/-- batches that are not pending had their children finished -/
def KidsOK (kidsDone : List Kid) (full : List Batch) : Prop :=
  ∀ b ∈ full, b.st ≠ .pending → ∀ kid ∈ b.kids, kid ∈ kidsDone

theorem KidsOK_mono {kd kd' full} (h : KidsOK kd full) (hm : ∀ x ∈ kd, x ∈ kd') : KidsOK kd' full :=
  fun b hb hs kid hk => hm kid (h b hb hs kid hk)

/-- `setSt` marks the first batch with sequence number `k` (the one `find?` returns) -/
theorem setSt_kids {k evs st l f b kd} (h : setSt k evs st l = some f)
    (hfind : l.find? (fun b => b.seq = k) = some b) (hl : KidsOK kd l) : KidsOK (kd ++ b.kids) f := by
  induction l generalizing f with
  | nil => simp [setSt] at h
  | cons x xs ih =>
    simp only [setSt] at h
    have hxs : KidsOK kd xs := fun y hy => hl y (List.mem_cons_of_mem _ hy)
    split at h
    · rename_i hk
      split at h
      · simp at h; subst h
        have hb : x = b := by simpa [List.find?, hk] using hfind
        subst hb
        intro y hy hs kid hkid
        rcases List.mem_cons.1 hy with rfl | hy
        · exact List.mem_append_right _ hkid
        · exact List.mem_append_left _ (hxs y hy hs kid hkid)
      · simp at h
    · rename_i hk
      cases hr : setSt k evs st xs with
      | none => simp [hr] at h
      | some f' =>
        simp [hr] at h; subst h
        have hfind' : xs.find? (fun b => b.seq = k) = some b := by
          simpa [List.find?, hk] using hfind
        intro y hy hs kid hkid
        rcases List.mem_cons.1 hy with rfl | hy
        · exact List.mem_append_left _ (hl y (List.mem_cons_self ..) hs kid hkid)
        · exact ih hr hfind' hxs y hy hs kid hkid

theorem giveUpIn_kids {k evs st l f kd} (h : giveUpIn k evs st false l = some f) (hl : KidsOK kd l) :
    KidsOK (kd ++ ((l.find? (fun b => b.seq = k ∧ b.st = .pending ∧ b.evs = evs)).map (·.kids)).getD []) f := by
  induction l generalizing f with
  | nil => simp [giveUpIn] at h
  | cons x xs ih =>
    simp only [giveUpIn] at h
    have hxs : KidsOK kd xs := fun y hy => hl y (List.mem_cons_of_mem _ hy)
    split at h
    · rename_i hp
      simp at h; subst h
      have hf : (x :: xs).find? (fun b => b.seq = k ∧ b.st = .pending ∧ b.evs = evs) = some x := by
        simp [List.find?, hp]
      rw [hf]
      intro y hy hs kid hkid
      rcases List.mem_cons.1 hy with rfl | hy
      · exact List.mem_append_right _ (by simpa using hkid)
      · exact List.mem_append_left _ (hxs y hy hs kid hkid)
    · rename_i hp
      cases hr : giveUpIn k evs st false xs with
      | none => simp [hr] at h
      | some f' =>
        simp [hr] at h; subst h
        have hf : (x :: xs).find? (fun b => b.seq = k ∧ b.st = .pending ∧ b.evs = evs)
            = xs.find? (fun b => b.seq = k ∧ b.st = .pending ∧ b.evs = evs) := by
          simp [List.find?, hp]
        rw [hf]
        intro y hy hs kid hkid
        rcases List.mem_cons.1 hy with rfl | hy
        · exact List.mem_append_left _ (hl y (List.mem_cons_self ..) hs kid hkid)
        · exact ih hr hxs y hy hs kid hkid

/-- children sit in the timeline no later than their parent -/
def KidsBefore (s : State) : Prop :=
  ∀ pre post, shape s.main.full = pre ++ post →
    ∀ p ∈ s.main.done ++ pre.flatMap (·.1), ∀ k, (p, k) ∈ s.kidsAdded →
      (p, k) ∈ s.main.kidsLoop ++ pre.flatMap (·.2)

structure KInv (s : State) : Prop where
  layoutK : s.main.kidsLoop ++ (shape s.main.full).flatMap (·.2) ++ s.main.curKids = s.kidsAdded
  layoutE : s.main.done ++ (shape s.main.full).flatMap (·.1) ++ s.main.cur = s.main.added
  kidsOK  : KidsOK s.kidsDone s.main.full
  loopOK  : ∀ kid ∈ s.main.kidsLoop, kid ∈ s.kidsDone
  before  : KidsBefore s

theorem kinv_init : KInv (init false) := by
  refine ⟨by simp [init, shape], by simp [init, shape], ?_, by simp [init], ?_⟩
  · intro b hb; simp [init] at hb
  · intro pre post h p hp k hk; simp [init] at hk

theorem shape_flat_evs (l : List Batch) : (shape l).flatMap (·.1) = l.flatMap (·.evs) := by
  induction l with
  | nil => simp [shape]
  | cons b bs ih => simp only [shape, List.map_cons, List.flatMap_cons] at ih ⊢; rw [ih]

theorem kinv_step {s s' : State} {op : Op} (hc : CInv s) (h : KInv s) (hs : step? s op = some s') : KInv s' := by
  obtain ⟨hlk, hle, hko, hlo, hbe⟩ := h
  have hnd := hc.noDQ
  have hdq := hc.dqIdle
  cases op with
  | accept e =>
    simp only [step?] at hs
    split at hs
    · simp at hs; subst hs; exact ⟨hlk, hle, hko, hlo, hbe⟩
    · simp at hs
  | drop e =>
    simp only [step?] at hs
    split at hs
    · simp at hs; subst hs; exact ⟨hlk, hle, hko, hlo, hbe⟩
    · simp at hs
  | add d e =>
    cases d with
    | true => simp [step?, hnd] at hs
    | false =>
      simp only [step?] at hs
      split at hs
      · simp at hs; subst hs
        refine ⟨hlk, ?_, hko, hlo, hbe⟩
        simp only; rw [← hle]; simp [List.append_assoc]
      · simp at hs
  | sealB d k =>
    cases d with
    | true => simp [step?, bq, hdq.1, hc.dqKids] at hs
    | false =>
      simp only [step?, bq, setBq, Bool.false_eq_true, ↓reduceIte] at hs
      split at hs
      · simp at hs; subst hs
        refine ⟨?_, ?_, ?_, hlo, ?_⟩
        · simp only [shape, List.map_append, List.map_cons, List.map_nil, List.flatMap_append, List.flatMap_cons,
            List.flatMap_nil, List.append_nil]
          rw [← hlk]; simp [shape, List.append_assoc]
        · simp only [shape, List.map_append, List.map_cons, List.map_nil, List.flatMap_append, List.flatMap_cons,
            List.flatMap_nil, List.append_nil]
          rw [← hle]; simp [shape, List.append_assoc]
        · intro b hb hst kid hk
          simp only [List.mem_append, List.mem_singleton] at hb
          rcases hb with hb | rfl
          · exact hko b hb hst kid hk
          · simp at hst
        · -- a prefix of the new timeline is a prefix of the old one, or everything sealed so far
          intro pre post hsp p hp kk hk
          simp only [shape, List.map_append, List.map_cons, List.map_nil] at hsp
          rcases List.append_eq_append_iff.1 hsp with ⟨a', h1, h2⟩ | ⟨c', h1, h2⟩
          · -- pre = shape full ++ a' : a' is [] or the new batch
            cases a' with
            | nil =>
              simp at h1
              exact hbe pre [] (by simp [shape, h1]) p hp kk hk
            | cons x xs =>
              have hlen := congrArg List.length h2
              simp only [List.length_append, List.length_cons, List.length_nil] at hlen
              have hxs : xs = [] := List.length_eq_zero_iff.1 (by omega)
              have hpost : post = [] := List.length_eq_zero_iff.1 (by omega)
              subst hxs; subst hpost
              simp at h2
              subst h2
              -- pre is the whole timeline: use the layouts
              have hpa : p ∈ s.main.added := by
                rw [← hle]
                simp only [h1, List.flatMap_append, List.flatMap_cons, List.flatMap_nil, List.append_nil,
                  List.mem_append] at hp ⊢
                rcases hp with hp | hp | hp
                · exact Or.inl (Or.inl hp)
                · exact Or.inl (Or.inr (by simpa [shape] using hp))
                · exact Or.inr hp
              have : (p, kk) ∈ s.main.kidsLoop ++ (shape s.main.full).flatMap (·.2) ++ s.main.curKids := by
                rw [hlk]; exact hk
              simp only [h1, List.flatMap_append, List.flatMap_cons, List.flatMap_nil, List.append_nil,
                List.mem_append] at this ⊢
              rcases this with (h3 | h3) | h3
              · exact Or.inl h3
              · exact Or.inr (Or.inl (by simpa [shape] using h3))
              · exact Or.inr (Or.inr h3)
          · -- pre is a prefix of the old sealed batches
            exact hbe pre c' (by simpa [shape] using h1) p hp kk hk
      · simp at hs
  | sendOk d k evs =>
    cases d with
    | true => simp [step?, bq, hdq.2.1] at hs
    | false =>
      simp only [step?, bq, setBq, Bool.false_eq_true, ↓reduceIte] at hs
      split at hs
      · rename_i b hb
        split at hs
        · split at hs
          · rename_i f hf
            simp at hs; subst hs
            have hsh := setSt_shape hf
            refine ⟨by simp only; rw [hsh]; exact hlk, by simp only; rw [hsh]; exact hle,
              setSt_kids hf hb hko, fun kid hk => List.mem_append_left _ (hlo kid hk), ?_⟩
            intro pre post hsp; simp only at hsp; rw [hsh] at hsp; exact hbe pre post hsp
          · simp at hs
        · simp at hs
      · simp at hs
  | sendFail d k evs =>
    simp only [step?] at hs
    split at hs
    · simp at hs; subst hs; exact ⟨hlk, hle, hko, hlo, hbe⟩
    · simp at hs
  | giveUp d k evs =>
    cases d with
    | true => simp [step?, bq, hdq.2.1, giveUpIn, hnd] at hs
    | false =>
      simp only [step?, bq, setBq, hnd, Bool.not_false, Bool.false_eq_true, and_false, ↓reduceIte] at hs
      split at hs
      · rename_i f hf
        have hs' := Option.some.inj hs; subst hs'
        have hsh := giveUpIn_shape hf
        refine ⟨by simp only; rw [hsh]; exact hlk, by simp only; rw [hsh]; exact hle,
          giveUpIn_kids hf hko, fun kid hk => List.mem_append_left _ (hlo kid hk), ?_⟩
        intro pre post hsp; simp only at hsp; rw [hsh] at hsp; exact hbe pre post hsp
      · simp at hs
  | bcommit d k =>
    cases d with
    | true => simp [step?, bq, hdq.2.1] at hs
    | false =>
      simp only [step?, bq, setBq, Bool.false_eq_true, ↓reduceIte] at hs
      split at hs
      · rename_i b bs hfl
        split at hs
        · rename_i hg
          simp at hs; subst hs
          obtain ⟨_, _, hst, _⟩ := hg
          have hshape : shape s.main.full = (b.evs, b.kids) :: shape bs := by rw [hfl]; simp [shape]
          refine ⟨?_, ?_, ?_, ?_, ?_⟩
          · simp only; rw [← hlk, hshape]; simp [List.append_assoc]
          · simp only; rw [← hle, hshape]; simp [List.append_assoc]
          · intro x hx; exact hko x (by rw [hfl]; exact List.mem_cons_of_mem _ hx)
          · intro kid hk
            simp only [List.mem_append] at hk
            rcases hk with hk | hk
            · exact hlo kid hk
            · rcases hst with hst | ⟨_, hni⟩
              · exact hko b (by rw [hfl]; simp) hst kid hk
              · -- nothing iterable: the batch has no children at all
                simp only [Bool.and_eq_true, List.isEmpty_iff] at hni
                rw [hni.1] at hk; simp at hk
          · intro pre post hsp p hp kk hk
            simp only at hsp hp hk ⊢
            have := hbe ((b.evs, b.kids) :: pre) post (by rw [hshape, hsp]; simp) p
              (by simp only [List.flatMap_cons, List.mem_append] at hp ⊢
                  rcases hp with (hp | hp) | hp
                  · exact Or.inl hp
                  · exact Or.inr (Or.inl hp)
                  · exact Or.inr (Or.inr hp)) kk hk
            simp only [List.flatMap_cons, List.mem_append] at this ⊢
            rcases this with h1 | h1 | h1
            · exact Or.inl (Or.inl h1)
            · exact Or.inl (Or.inr h1)
            · exact Or.inr h1
        · simp at hs
      · simp at hs
  | commit e =>
    simp only [step?, hdq.2.2.1] at hs
    split at hs
    · simp at hs; subst hs; exact ⟨hlk, hle, hko, hlo, hbe⟩
    · simp at hs
  | spawn p k =>
    simp only [step?] at hs
    split at hs
    · simp at hs; subst hs; exact ⟨hlk, hle, hko, hlo, hbe⟩
    · simp at hs
  | addKid p k =>
    simp only [step?] at hs
    split at hs
    · rename_i hg
      simp at hs; subst hs
      obtain ⟨_, _, hpa⟩ := hg
      have hpa' : p ∉ s.main.added := by simpa using hpa
      refine ⟨by simp only; rw [← hlk]; simp [List.append_assoc], hle, hko, hlo, ?_⟩
      intro pre post hsp x hx kk hk
      simp only at hsp hx hk
      simp only [List.mem_append, List.mem_singleton] at hk
      rcases hk with hk | hk
      · exact hbe pre post hsp x hx kk hk
      · -- the new child's parent is not in the timeline yet
        obtain ⟨rfl, rfl⟩ := Prod.mk.inj hk
        exfalso; apply hpa'
        rw [← hle]
        simp only [List.mem_append] at hx ⊢
        rcases hx with hx | hx
        · exact Or.inl (Or.inl hx)
        · refine Or.inl (Or.inr ?_)
          rw [hsp]; simp only [List.flatMap_append, List.mem_append]; exact Or.inl hx
    · simp at hs
  | kidAck p k =>
    simp only [step?] at hs
    simp at hs; subst hs; exact ⟨hlk, hle, hko, hlo, hbe⟩

theorem ckinv_run {s s' : State} {ops : List Op} (hc : CInv s) (hk : KInv s) (hr : run s ops = some s') :
    CInv s' ∧ KInv s' := by
  induction ops generalizing s with
  | nil => simp [run] at hr; subst hr; exact ⟨hc, hk⟩
  | cons op ops ih =>
    simp only [run] at hr
    cases hso : step? s op with
    | none => simp [hso] at hr
    | some s1 => simp [hso] at hr; exact ih (cinv_step hc hso) (kinv_step hc hk hso) hr

end FileD.Core
