/-
  Inductive invariants of the save protocol (Model/SaveProto.lean) and of commits-vs-saves
  (Model/CommitSnap.lean).
-/
import FileD.Model.SaveProto
import FileD.Model.CommitSnap
set_option linter.unusedSimpArgs false
namespace FileD.SaveProto
open FileD

/-- volatile level: the offsets file is the previous or the new snapshot, and the temp file is as
    far as the program counter says -/
def InvV (old : Option Bytes) (new : Bytes) (s : St) : Prop :=
  (s.fs.cur.vol = old ∨ s.fs.cur.vol = some new) ∧
  (match s.pc with
   | .opened => s.fs.tmp.vol = some []
   | .written => s.fs.tmp.vol = some new
   | .synced => s.fs.tmp.vol = some new
   | .closedOk => s.fs.tmp.vol = some new
   | _ => True)

/-- durable level, for the programs that sync before they rename -/
def InvD (old : Option Bytes) (new : Bytes) (s : St) : Prop :=
  (s.fs.cur.dur = old ∨ s.fs.cur.dur = some new) ∧
  (match s.pc with
   | .synced => s.fs.tmp.dur = some new ∧ s.fs.tmp.vol = some new
   | .closedOk => s.fs.tmp.dur = some new
   | _ => True)

def Syncing : Variant → Prop
  | .fileFixed => True
  | .genFixed => True
  | _ => False

def NotOrigFile : Variant → Prop
  | .fileOrig => False
  | .genNoTrunc => False
  | _ => True

theorem take_all {α} (l : List α) (n : Nat) (h : n = l.length) : l.take n = l := by
  subst h; simp

theorem invV_init (old : Option Bytes) (new : Bytes) : InvV old new (init old) := by
  simp [InvV, init]

theorem invD_init (old : Option Bytes) (new : Bytes) : InvD old new (init old) := by
  simp [InvD, init]

theorem invV_step (v : Variant) (hv : NotOrigFile v) (old : Option Bytes) (new : Bytes)
    (s : St) (op : Op) (s' : St) (hi : InvV old new s) (hs : step? v new s op = some s') :
    InvV old new s' := by
  obtain ⟨fs, pc⟩ := s
  obtain ⟨hcur, htmp⟩ := hi
  cases op with
  | openTrunc ok =>
    cases ok <;> cases pc <;> cases v <;>
      simp_all [step?, next, InvV, apply, absent, NotOrigFile] <;>
      (try subst_vars) <;> (try simp_all)
  | openKeep ok =>
    cases ok <;> cases pc <;> cases v <;>
      simp_all [step?, next, InvV, apply, absent, NotOrigFile]
  | write n ok =>
    cases ok <;> cases pc <;> cases v <;>
      simp_all [step?, next, InvV, apply, absent, NotOrigFile, writeValid] <;>
      (try subst_vars) <;> (try simp_all [take_all]) <;>
      (try (split at hs <;> simp_all [take_all] <;> (try subst_vars) <;> (try simp_all [take_all]))) <;>
      (try (rename_i heq; obtain ⟨_, rfl⟩ := heq; simp_all [take_all]))
  | fsync ok =>
    cases ok <;> cases pc <;> cases v <;>
      simp_all [step?, next, InvV, apply, absent, NotOrigFile] <;>
      (try subst_vars) <;> (try simp_all)
  | rename ok =>
    cases ok <;> cases pc <;> cases v <;>
      simp_all [step?, next, InvV, apply, absent, NotOrigFile] <;>
      (try subst_vars) <;> (try simp_all)
  | close ok =>
    cases ok <;> cases pc <;> cases v <;>
      simp_all [step?, next, InvV, apply, absent, NotOrigFile] <;>
      (try subst_vars) <;> (try simp_all)
  | unlink ok =>
    cases ok <;> cases pc <;> cases v <;>
      simp_all [step?, next, InvV, apply, absent, NotOrigFile] <;>
      (try subst_vars) <;> (try simp_all)

theorem invD_step (v : Variant) (hv : Syncing v) (old oldv : Option Bytes) (new : Bytes)
    (s : St) (op : Op) (s' : St) (hd : InvD old new s) (hvv : InvV oldv new s)
    (hs : step? v new s op = some s') : InvD old new s' := by
  obtain ⟨fs, pc⟩ := s
  obtain ⟨hcur, htmp⟩ := hd
  obtain ⟨hcurv, htmpv⟩ := hvv
  cases op with
  | openTrunc ok =>
    cases ok <;> cases pc <;> cases v <;>
      simp_all [step?, next, InvD, InvV, apply, absent, Syncing] <;>
      (try subst_vars) <;> (try simp_all)
  | openKeep ok =>
    cases ok <;> cases pc <;> cases v <;>
      simp_all [step?, next, InvD, InvV, apply, absent, Syncing]
  | write n ok =>
    cases ok <;> cases pc <;> cases v <;>
      simp_all [step?, next, InvD, InvV, apply, absent, Syncing, writeValid] <;>
      (try subst_vars) <;> (try simp_all [take_all]) <;>
      (try (split at hs <;> simp_all [take_all] <;> (try subst_vars) <;> (try simp_all [take_all]))) <;>
      (try (rename_i heq; obtain ⟨_, rfl⟩ := heq; simp_all [take_all]))
  | fsync ok =>
    cases ok <;> cases pc <;> cases v <;>
      simp_all [step?, next, InvD, InvV, apply, absent, Syncing] <;>
      (try subst_vars) <;> (try simp_all)
  | rename ok =>
    cases ok <;> cases pc <;> cases v <;>
      simp_all [step?, next, InvD, InvV, apply, absent, Syncing] <;>
      (try subst_vars) <;> (try simp_all)
  | close ok =>
    cases ok <;> cases pc <;> cases v <;>
      simp_all [step?, next, InvD, InvV, apply, absent, Syncing] <;>
      (try subst_vars) <;> (try simp_all)
  | unlink ok =>
    cases ok <;> cases pc <;> cases v <;>
      simp_all [step?, next, InvD, InvV, apply, absent, Syncing] <;>
      (try subst_vars) <;> (try simp_all)

/-- both invariants hold after every run of a program that syncs before it renames -/
theorem inv_run (v : Variant) (hv : Syncing v) (old : Option Bytes) (new : Bytes)
    (ops : List Op) (s : St) (hr : run v new (init old) ops = some s) :
    InvV old new s ∧ InvD old new s := by
  have hn : NotOrigFile v := by cases v <;> simp_all [Syncing, NotOrigFile]
  have := TS.invariant_of_step (step? v new) (fun s => InvV old new s ∧ InvD old new s)
    (fun s op s' hi hs => ⟨invV_step v hn old new s op s' hi.1 hs,
                           invD_step v hv old old new s op s' hi.2 hi.1 hs⟩)
    (init old) s ops ⟨invV_init old new, invD_init old new⟩ hr
  exact this

/-- the same from any file system a save can start on (a temp file may be left over): the
    offsets file keeps what it held when the save started, or gets the new snapshot -/
theorem inv_run_from (v : Variant) (hv : Syncing v) (fs0 : FS) (new : Bytes)
    (ops : List Op) (s : St) (hr : run v new ⟨fs0, .start⟩ ops = some s) :
    InvV fs0.cur.vol new s ∧ InvD fs0.cur.dur new s := by
  have hn : NotOrigFile v := by cases v <;> simp_all [Syncing, NotOrigFile]
  exact TS.invariant_of_step (step? v new) (fun s => InvV fs0.cur.vol new s ∧ InvD fs0.cur.dur new s)
    (fun s op s' hi hs => ⟨invV_step v hn _ new s op s' hi.1 hs,
                           invD_step v hv _ _ new s op s' hi.2 hi.1 hs⟩)
    ⟨fs0, .start⟩ s ops ⟨by simp [InvV], by simp [InvD]⟩ hr

theorem beginSave_cur (v : Variant) (fs : FS) : (beginSave v fs).cur = fs.cur := by
  unfold beginSave; split <;> rfl

/-- histories: after any number of saves — each with any failure pattern, stopped anywhere, temp
    files of interrupted saves left behind — the offsets file holds what it held at the start or the
    buffer of one of the saves, on both levels -/
theorem hist_inv (v : Variant) (hv : Syncing v) (saves : List (Bytes × List Op)) (fs0 fs : FS)
    (hr : runHist v fs0 saves = some fs) :
    (fs.cur.vol = fs0.cur.vol ∨ ∃ sv ∈ saves, fs.cur.vol = some sv.1) ∧
    (fs.cur.dur = fs0.cur.dur ∨ ∃ sv ∈ saves, fs.cur.dur = some sv.1) := by
  induction saves generalizing fs0 with
  | nil => simp [runHist] at hr; subst hr; simp
  | cons sv rest ih =>
    obtain ⟨data, ops⟩ := sv
    simp only [runHist] at hr
    split at hr
    · simp at hr
    · rename_i s hs
      obtain ⟨hv1, hd1⟩ := inv_run_from v hv (beginSave v fs0) data ops s hs
      rw [beginSave_cur] at hv1 hd1
      obtain ⟨ihv, ihd⟩ := ih s.fs hr
      constructor
      · rcases ihv with h | ⟨x, hx, h⟩
        · rcases hv1.1 with h1 | h1
          · left; rw [h, h1]
          · right; exact ⟨(data, ops), by simp, by rw [h, h1]⟩
        · right; exact ⟨x, by simp [hx], h⟩
      · rcases ihd with h | ⟨x, hx, h⟩
        · rcases hd1.1 with h1 | h1
          · left; rw [h, h1]
          · right; exact ⟨(data, ops), by simp, by rw [h, h1]⟩
        · right; exact ⟨x, by simp [hx], h⟩

/-- with the real reset point the buffer plays no role: a history on one object is the history of
    its snapshots -/
theorem objHist_eq_hist (v : Variant) (saves : List (Bytes × List Op)) (fs : FS) (buf : Bytes) :
    (runObjHist v .beforeFormat fs buf saves).map (·.1) = runHist v fs saves := by
  induction saves generalizing fs buf with
  | nil => simp [runObjHist, runHist]
  | cons sv rest ih =>
    obtain ⟨snap, ops⟩ := sv
    simp only [runObjHist, runHist, saveData]
    cases run v snap ⟨beginSave v fs, .start⟩ ops with
    | none => simp
    | some s => exact ih s.fs _

theorem invV_run (v : Variant) (hv : NotOrigFile v) (old : Option Bytes) (new : Bytes)
    (ops : List Op) (s : St) (hr : run v new (init old) ops = some s) : InvV old new s :=
  TS.invariant_of_step (step? v new) (InvV old new)
    (fun s op s' hi hs => invV_step v hv old new s op s' hi hs) (init old) s ops (invV_init old new) hr

/-- an op whose write / fsync outcome is success (or which is neither) -/
def opOk : Op → Bool
  | .write _ ok => ok
  | .fsync ok => ok
  | _ => true

theorem orig_step_fixed (data : Bytes) (s s' : St) (op : Op) (hok : opOk op = true)
    (hs : step? .fileOrig data s op = some s') : step? .fileFixed data s op = some s' := by
  obtain ⟨fs, pc⟩ := s
  cases op with
  | openTrunc ok => cases ok <;> cases pc <;> simp_all [step?, next]
  | openKeep ok => cases ok <;> cases pc <;> simp_all [step?, next]
  | write n ok =>
    cases ok <;> cases pc <;> simp_all [step?, next, opOk]
  | fsync ok => cases ok <;> cases pc <;> simp_all [step?, next, opOk]
  | rename ok => cases ok <;> cases pc <;> simp_all [step?, next]
  | close ok => cases ok <;> cases pc <;> simp_all [step?, next]
  | unlink ok => cases ok <;> cases pc <;> simp_all [step?, next]

theorem orig_run_fixed (data : Bytes) (ops : List Op) (s s' : St) (hok : ∀ op ∈ ops, opOk op = true)
    (hr : run .fileOrig data s ops = some s') : run .fileFixed data s ops = some s' := by
  induction ops generalizing s with
  | nil => simpa [run, TS.run] using hr
  | cons op ops ih =>
    simp only [run, TS.run] at hr ⊢
    cases h1 : step? .fileOrig data s op with
    | none => simp [h1] at hr
    | some s1 =>
      rw [orig_step_fixed data s s1 op (hok op (by simp)) h1]
      simp only [h1, Option.bind_some] at hr ⊢
      exact ih s1 (fun o ho => hok o (by simp [ho])) hr

end FileD.SaveProto

namespace FileD.CommitSnap
open FileD FileD.OffsetsFile

/-- everything a save has copied, is copying, or could copy now is in the ghost history; a finished
    buffer only holds values the history had when the buffer was complete -/
def HInv (s : St) : Prop :=
  (∀ e ∈ s.jobs, e ∈ s.hist) ∧
  (∀ p, s.pending = some p → ∀ e ∈ p.2, e ∈ s.hist) ∧
  (∀ sn ∈ s.snaps, sn.2 ≤ s.hist.length ∧ ∀ e ∈ sn.1, e ∈ s.hist.take sn.2)

theorem lookup_mem (jobs : List Entry) (src : Nat) (m : SMap) (h : lookup jobs src = some m) :
    (src, m) ∈ jobs := by
  unfold lookup at h
  cases hf : jobs.find? (fun e => e.1 == src) with
  | none => simp [hf] at h
  | some e =>
    simp [hf] at h
    have hm := List.mem_of_find?_eq_some hf
    have hp := List.find?_some hf
    simp at hp
    obtain ⟨a, b⟩ := e
    simp at hp h
    subst hp; subst h; exact hm

theorem update_mem (jobs : List Entry) (src : Nat) (m : SMap) (x : Entry) (h : x ∈ update jobs src m) :
    x ∈ jobs ∨ x = (src, m) := by
  unfold update at h
  simp at h
  obtain ⟨a, b, hab, hx⟩ := h
  split at hx
  · rename_i he; right; rw [← hx]; simp [he]
  · left; rw [← hx]; exact hab

theorem take_append_le {α} (l x : List α) (n : Nat) (h : n ≤ l.length) : (l ++ x).take n = l.take n := by
  rw [List.take_append_of_le_length h]

theorem snaps_grow (s : St) (x : List Entry)
    (h : ∀ sn ∈ s.snaps, sn.2 ≤ s.hist.length ∧ ∀ e ∈ sn.1, e ∈ s.hist.take sn.2) :
    ∀ sn ∈ s.snaps, sn.2 ≤ (s.hist ++ x).length ∧ ∀ e ∈ sn.1, e ∈ (s.hist ++ x).take sn.2 := by
  intro sn hsn
  obtain ⟨h1, h2⟩ := h sn hsn
  refine ⟨by simp; omega, ?_⟩
  rw [take_append_le _ _ _ h1]; exact h2

theorem hinv_step (s : St) (op : Op) (s' : St) (hi : HInv s) (hs : step? s op = some s') : HInv s' := by
  obtain ⟨hj, hp, hsn⟩ := hi
  cases op with
  | addJob src =>
    simp only [step?] at hs
    split at hs
    · simp at hs
    · simp at hs; subst hs
      refine ⟨?_, ?_, snaps_grow s _ hsn⟩
      · intro e he; simp at he ⊢
        rcases he with he | he
        · left; exact hj e he
        · right; exact he
      · intro p hpp e he; simp; left; exact hp p hpp e he
  | commit src stream off =>
    simp only [step?] at hs
    split at hs
    · simp at hs; subst hs; exact ⟨hj, hp, hsn⟩
    · have key : ∀ m', s' = { s with jobs := update s.jobs src m', hist := s.hist ++ [(src, m')] } →
          HInv s' := by
        intro m' hs'; subst hs'
        refine ⟨?_, ?_, snaps_grow s _ hsn⟩
        · intro e he
          rcases update_mem _ _ _ _ he with h1 | h1
          · simp; left; exact hj e h1
          · simp; right; exact h1
        · intro p hpp e he; simp; left; exact hp p hpp e he
      split at hs <;> simp at hs <;> exact key _ hs.2.symm
  | truncate src =>
    simp only [step?] at hs
    split at hs
    · simp at hs
    · simp at hs; subst hs
      refine ⟨?_, ?_, snaps_grow s _ hsn⟩
      · intro e he
        rcases update_mem _ _ _ _ he with h1 | h1
        · simp; left; exact hj e h1
        · simp; right; exact h1
      · intro p hpp e he; simp; left; exact hp p hpp e he
  | saveBegin order =>
    simp only [step?] at hs
    split at hs
    · simp at hs
    · split at hs
      · simp at hs; subst hs
        refine ⟨hj, ?_, hsn⟩
        intro p hpp e he; simp at hpp; subst hpp; simp at he
      · simp at hs
  | saveVisit =>
    simp only [step?] at hs
    split at hs
    · rename_i src rest buf hpend
      split at hs
      · rename_i m hl
        simp at hs; subst hs
        refine ⟨hj, ?_, hsn⟩
        intro p hpp e he
        simp at hpp; subst hpp
        simp at he
        rcases he with he | he
        · exact hp _ hpend e he
        · subst he; exact hj _ (lookup_mem _ _ _ hl)
      · simp at hs
    · simp at hs
  | saveEnd =>
    simp only [step?] at hs
    split at hs
    · rename_i buf hpend
      simp at hs; subst hs
      refine ⟨hj, ?_, ?_⟩
      · intro p hpp; simp at hpp
      · intro sn hsn'
        simp at hsn'
        rcases hsn' with h1 | h1
        · exact hsn sn h1
        · subst h1
          refine ⟨Nat.le_refl _, ?_⟩
          intro e he
          simp only [List.take_length]
          exact hp _ hpend e he
    · simp at hs

theorem hinv_init : HInv init := by simp [HInv, init]

end FileD.CommitSnap
