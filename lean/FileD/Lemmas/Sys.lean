/-
  The composed system (Model/Sys.lean) keeps: CInv of the commit path, PInv of every stream, and
  the link between the two (what a stream handed over / dropped is what the batcher got / what
  was dropped). Consequence: whenever M2 enables `out`, M1's hand-over guard holds — the
  unguarded `addU` equals the guarded `add` — so M1's theorems hold for the composed system.
-/
import FileD.Model.Sys
import FileD.Lemmas.Core
import FileD.Lemmas.StreamProc
namespace FileD.Sys
open FileD FileD.Core

/-- link between the commit path and ONE stream -/
structure LinkAt (c : Core.State) (st : Nat) (ss : StreamProc.SS) : Prop where
  addOut : ∀ e ∈ c.main.added, e.st = st → e.seq ∈ ss.outd
  outAdd : ∀ q ∈ ss.outd, ∃ e ∈ c.main.added, e.st = st ∧ e.seq = q
  dropS  : ∀ e ∈ c.dropped, e.st = st → e.seq ∈ ss.dropped
  sDrop  : ∀ q ∈ ss.dropped, ∃ e ∈ c.dropped, e.st = st ∧ e.seq = q
  last   : lastSeq st c.accepted = ss.nextSeq

structure SInv (s : State) : Prop where
  cinv   : CInv s.core
  pinv   : ∀ st, StreamProc.PInv (s.streams st)
  link   : ∀ st, LinkAt s.core st (s.streams st)
  seqPos : ∀ e ∈ s.core.accepted, 1 ≤ e.seq

theorem sinv_init : SInv (init false) := by
  refine ⟨cinv_init, fun _ => StreamProc.pinv_init, ?_, by simp [init, Core.init]⟩
  intro st
  refine ⟨by simp [init, Core.init], by simp [init], by simp [init, Core.init], by simp [init], ?_⟩
  simp [init, Core.init, lastSeq]

/-! ### facts about single steps of the two layers -/

theorem lastSeq_append (st : Nat) (l : List Ev) (e : Ev) :
    lastSeq st (l ++ [e]) = if e.st = st then max (lastSeq st l) e.seq else lastSeq st l := by
  simp [lastSeq, List.foldl_append]

theorem earlierDone_of {s : Core.State} {e : Ev}
    (h : ∀ e' ∈ s.accepted, e'.st = e.st → e'.seq < e.seq → e' ∈ s.dropped ∨ e' ∈ s.main.added) :
    earlierDone s e = true := by
  simp only [earlierDone, List.all_eq_true]
  intro e' he'
  by_cases hst : e'.st = e.st
  · by_cases hlt : e'.seq < e.seq
    · rcases h e' he' hst hlt with h1 | h1
      · simp [h1]
      · simp [h1]
    · simp [hlt]
  · simp [hst]

/-- what M2's `out` needs and does -/
theorem out_facts {s s' : StreamProc.SS} {q : Nat} (h : StreamProc.step? s (.out q) = some s') :
    q ∈ StreamProc.procSet s ∧ (∀ x ∈ StreamProc.procSet s, q ≤ x) ∧
    s'.outd = s.outd ++ [q] ∧ s'.dropped = s.dropped ∧ s'.nextSeq = s.nextSeq := by
  simp only [StreamProc.step?] at h
  split at h
  · rename_i hg
    split at h
    · rename_i hin
      simp at h; subst h
      exact ⟨by simp [StreamProc.procSet, hin], hg.2, rfl, rfl, rfl⟩
    · split at h
      · rename_i hih
        simp at h; subst h
        exact ⟨by simp [StreamProc.procSet, hih], hg.2, rfl, rfl, rfl⟩
      · simp at h
  · simp at h

theorem drop_facts {s s' : StreamProc.SS} {q : Nat} (h : StreamProc.step? s (.drop q) = some s') :
    s'.outd = s.outd ∧ s'.dropped = s.dropped ++ [q] ∧ s'.nextSeq = s.nextSeq := by
  simp only [StreamProc.step?] at h
  split at h
  · simp at h; subst h; exact ⟨rfl, rfl, rfl⟩
  · split at h
    · simp at h; subst h; exact ⟨rfl, rfl, rfl⟩
    · simp at h

theorem put_facts {s s' : StreamProc.SS} {q : Nat} (h : StreamProc.step? s (.put q) = some s') :
    q = s.nextSeq + 1 ∧ s'.outd = s.outd ∧ s'.dropped = s.dropped ∧ s'.nextSeq = q := by
  simp only [StreamProc.step?] at h
  split at h
  · rename_i hg
    simp at h; subst h; exact ⟨hg.2, rfl, rfl, rfl⟩
  · simp at h

/-- the non-joint steps of M2 do not touch what the link talks about -/
theorem streamOnly_facts {s s' : StreamProc.SS} {op : StreamProc.Op} (ho : streamOnly op = true)
    (h : StreamProc.step? s op = some s') :
    s'.outd = s.outd ∧ s'.dropped = s.dropped ∧ s'.nextSeq = s.nextSeq := by
  cases op <;> simp only [streamOnly] at ho <;> simp only [StreamProc.step?] at h
  all_goals first
    | (split at h
       · first
         | (simp at h; subst h; exact ⟨rfl, rfl, rfl⟩)
         | (split at h <;> (simp at h; subst h; exact ⟨rfl, rfl, rfl⟩))
       · first
         | (simp at h; done)
         | (split at h
            · simp at h; subst h; exact ⟨rfl, rfl, rfl⟩
            · simp at h))
    | simp at ho

/-- the non-joint steps of M1 do not touch what the link talks about -/
theorem coreOnly_facts {s s' : Core.State} {op : Core.Op} (hnd : s.hasDQ = false) (ho : coreOnly op = true)
    (h : Core.step? s op = some s') :
    s'.accepted = s.accepted ∧ s'.dropped = s.dropped ∧ s'.main.added = s.main.added := by
  cases op with
  | accept e => simp [coreOnly] at ho
  | drop e => simp [coreOnly] at ho
  | add d e =>
    cases d with
    | false => simp [coreOnly] at ho
    | true => simp [Core.step?, hnd] at h
  | sealB d k =>
    cases d <;> simp only [Core.step?, bq, setBq, Bool.false_eq_true, ↓reduceIte] at h <;>
      (split at h
       · simp at h; subst h; exact ⟨rfl, rfl, rfl⟩
       · simp at h)
  | sendOk d k evs =>
    cases d <;> simp only [Core.step?, bq, setBq, Bool.false_eq_true, ↓reduceIte] at h <;>
      (split at h
       · split at h
         · split at h
           · simp at h; subst h; exact ⟨rfl, rfl, rfl⟩
           · simp at h
         · simp at h
       · simp at h)
  | sendFail d k evs =>
    simp only [Core.step?] at h
    split at h
    · simp at h; subst h; exact ⟨rfl, rfl, rfl⟩
    · simp at h
  | giveUp d k evs =>
    cases d <;> simp only [Core.step?, bq, setBq, hnd, Bool.not_false, Bool.not_true, Bool.false_eq_true,
      and_false, false_and, Bool.false_and, Bool.and_false, ↓reduceIte] at h <;>
      (split at h
       · simp at h; subst h; exact ⟨rfl, rfl, rfl⟩
       · simp at h)
  | bcommit d k =>
    cases d <;> simp only [Core.step?, bq, setBq, Bool.false_eq_true, ↓reduceIte] at h <;>
      (split at h
       · split at h
         · simp at h; subst h; exact ⟨rfl, rfl, rfl⟩
         · simp at h
       · simp at h)
  | commit e =>
    simp only [Core.step?] at h
    split at h
    · simp at h; subst h; exact ⟨rfl, rfl, rfl⟩
    · split at h
      · simp at h; subst h; exact ⟨rfl, rfl, rfl⟩
      · simp at h
  | spawn p k =>
    simp only [Core.step?] at h
    split at h
    · simp at h; subst h; exact ⟨rfl, rfl, rfl⟩
    · simp at h
  | addKid p k =>
    simp only [Core.step?] at h
    split at h
    · simp at h; subst h; exact ⟨rfl, rfl, rfl⟩
    · simp at h
  | kidAck p k =>
    simp only [Core.step?] at h
    simp at h; subst h; exact ⟨rfl, rfl, rfl⟩

/-! ### the key step: M2 enables `out e.seq`  ⇒  M1's guarded `add` is enabled and equals `addU` -/

theorem add_guard_holds {s : State} (inv : SInv s) {e : Ev} {ss : StreamProc.SS}
    (hacc : e ∈ s.core.accepted)
    (hout : StreamProc.step? (s.streams e.st) (.out e.seq) = some ss) :
    Core.step? s.core (.add false e) = some (addU s.core e) := by
  obtain ⟨hin, hmin, _, _, _⟩ := out_facts hout
  have pinv := inv.pinv e.st
  have hpend : e.seq ∈ StreamProc.pending (s.streams e.st) := by simp [StreamProc.pending, hin]
  have hfresh := pinv.fresh e.seq hpend
  have hnd : e ∉ s.core.dropped := fun hd => hfresh.2 ((inv.link e.st).dropS e hd rfl)
  have hna : e ∉ s.core.main.added := fun ha => hfresh.1 ((inv.link e.st).addOut e ha rfl)
  have hed : earlierDone s.core e = true := by
    apply earlierDone_of
    intro e' he' hst hlt
    have h1 : 1 ≤ e'.seq := inv.seqPos e' he'
    have h2 : e'.seq ≤ (s.streams e.st).nextSeq := by
      rw [← (inv.link e.st).last]; exact le_lastSeq he' hst
    rcases pinv.cover e'.seq h1 h2 with h3 | h3 | h3
    · -- handed over already: the batcher has it
      obtain ⟨x, hx, hxst, hxseq⟩ := (inv.link e.st).outAdd e'.seq h3
      have : x = e' := inv.cinv.uniq x (inv.cinv.addedAcc x hx) e' he' (hxst.trans hst.symm) hxseq
      subst this; exact Or.inr hx
    · obtain ⟨x, hx, hxst, hxseq⟩ := (inv.link e.st).sDrop e'.seq h3
      have : x = e' := inv.cinv.uniq x (inv.cinv.dropAcc x hx) e' he' (hxst.trans hst.symm) hxseq
      subst this; exact Or.inl hx
    · -- still pending in the stream: impossible, `e` is the oldest the processor has
      simp only [StreamProc.pending, List.mem_append] at h3
      rcases h3 with h3 | h3
      · have := hmin e'.seq h3; omega
      · have := pinv.older e.seq hin e'.seq h3; omega
  simp [Core.step?, hacc, hnd, hna, hed, addU]

/-! ### preservation -/

/-- the core changed, but not in what concerns stream `st` -/
theorem linkAt_frame {c c' : Core.State} {st : Nat} {ss : StreamProc.SS} (L : LinkAt c st ss)
    (hA : ∀ e, e.st = st → (e ∈ c'.main.added ↔ e ∈ c.main.added))
    (hD : ∀ e, e.st = st → (e ∈ c'.dropped ↔ e ∈ c.dropped))
    (hL : lastSeq st c'.accepted = lastSeq st c.accepted) : LinkAt c' st ss := by
  refine ⟨?_, ?_, ?_, ?_, by rw [hL]; exact L.last⟩
  · intro e he hst; exact L.addOut e ((hA e hst).1 he) hst
  · intro q hq; obtain ⟨e, he, h1, h2⟩ := L.outAdd q hq; exact ⟨e, (hA e h1).2 he, h1, h2⟩
  · intro e he hst; exact L.dropS e ((hD e hst).1 he) hst
  · intro q hq; obtain ⟨e, he, h1, h2⟩ := L.sDrop q hq; exact ⟨e, (hD e h1).2 he, h1, h2⟩

/-- the stream changed, but not in what the link talks about -/
theorem linkAt_ss {c : Core.State} {st : Nat} {ss ss' : StreamProc.SS} (L : LinkAt c st ss)
    (ho : ss'.outd = ss.outd) (hd : ss'.dropped = ss.dropped) (hn : ss'.nextSeq = ss.nextSeq) :
    LinkAt c st ss' :=
  ⟨by rw [ho]; exact L.addOut, by rw [ho]; exact L.outAdd, by rw [hd]; exact L.dropS,
   by rw [hd]; exact L.sDrop, by rw [hn]; exact L.last⟩

theorem sinv_step {s s' : State} {op : Op} (inv : SInv s) (hs : step? s op = some s') : SInv s' := by
  cases op with
  | put e =>
    simp only [step?] at hs
    split at hs
    · rename_i ss c hss hc
      simp at hs; subst hs
      obtain ⟨hq, ho, hd, hn⟩ := put_facts hss
      have hcacc : c.accepted = s.core.accepted ++ [e] ∧ c.dropped = s.core.dropped ∧ c.main.added = s.core.main.added := by
        simp only [Core.step?] at hc
        split at hc
        · simp at hc; subst hc; exact ⟨rfl, rfl, rfl⟩
        · simp at hc
      refine ⟨cinv_step inv.cinv hc, ?_, ?_, ?_⟩
      · intro st
        show StreamProc.PInv (setStream s.streams e.st ss st)
        by_cases h : st = e.st
        · subst h; simp only [setStream, ↓reduceIte]; exact StreamProc.pinv_step (inv.pinv _) hss
        · simp only [setStream, h, ↓reduceIte]; exact inv.pinv st
      · intro st
        show LinkAt c st (setStream s.streams e.st ss st)
        by_cases h : st = e.st
        · subst h
          simp only [setStream, ↓reduceIte]
          have L := inv.link e.st
          refine ⟨?_, ?_, ?_, ?_, ?_⟩
          · intro x hx hst; rw [hcacc.2.2] at hx; rw [ho]; exact L.addOut x hx hst
          · intro q hq'; rw [ho] at hq'; rw [hcacc.2.2]; exact L.outAdd q hq'
          · intro x hx hst; rw [hcacc.2.1] at hx; rw [hd]; exact L.dropS x hx hst
          · intro q hq'; rw [hd] at hq'; rw [hcacc.2.1]; exact L.sDrop q hq'
          · rw [hcacc.1, lastSeq_append, hn]
            simp only [↓reduceIte]
            rw [L.last, hq]; omega
        · simp only [setStream, h, ↓reduceIte]
          refine linkAt_frame (inv.link st) (fun x _ => by rw [hcacc.2.2]) (fun x _ => by rw [hcacc.2.1]) ?_
          rw [hcacc.1, lastSeq_append]
          have h' : ¬ e.st = st := fun hc' => h hc'.symm
          simp [h']
      · intro x hx
        rw [hcacc.1] at hx
        simp only [List.mem_append, List.mem_singleton] at hx
        rcases hx with hx | rfl
        · exact inv.seqPos x hx
        · omega
    · simp at hs
  | drop e =>
    simp only [step?] at hs
    split at hs
    · rename_i ss c hss hc
      simp at hs; subst hs
      obtain ⟨ho, hd, hn⟩ := drop_facts hss
      have hcacc : c.accepted = s.core.accepted ∧ c.dropped = s.core.dropped ++ [e] ∧ c.main.added = s.core.main.added := by
        simp only [Core.step?] at hc
        split at hc
        · simp at hc; subst hc; exact ⟨rfl, rfl, rfl⟩
        · simp at hc
      refine ⟨cinv_step inv.cinv hc, ?_, ?_, by intro x hx; rw [hcacc.1] at hx; exact inv.seqPos x hx⟩
      · intro st
        show StreamProc.PInv (setStream s.streams e.st ss st)
        by_cases h : st = e.st
        · subst h; simp only [setStream, ↓reduceIte]; exact StreamProc.pinv_step (inv.pinv _) hss
        · simp only [setStream, h, ↓reduceIte]; exact inv.pinv st
      · intro st
        show LinkAt c st (setStream s.streams e.st ss st)
        by_cases h : st = e.st
        · subst h
          simp only [setStream, ↓reduceIte]
          have L := inv.link e.st
          refine ⟨?_, ?_, ?_, ?_, by rw [hcacc.1, hn]; exact L.last⟩
          · intro x hx hst; rw [hcacc.2.2] at hx; rw [ho]; exact L.addOut x hx hst
          · intro q hq'; rw [ho] at hq'; rw [hcacc.2.2]; exact L.outAdd q hq'
          · intro x hx hst
            rw [hcacc.2.1] at hx; rw [hd]
            simp only [List.mem_append, List.mem_singleton] at hx ⊢
            rcases hx with hx | rfl
            · exact Or.inl (L.dropS x hx hst)
            · exact Or.inr rfl
          · intro q hq'
            rw [hd] at hq'; rw [hcacc.2.1]
            simp only [List.mem_append, List.mem_singleton] at hq'
            rcases hq' with hq' | rfl
            · obtain ⟨x, hx, h1, h2⟩ := L.sDrop q hq'
              exact ⟨x, List.mem_append_left _ hx, h1, h2⟩
            · exact ⟨e, by simp, rfl, rfl⟩
        · simp only [setStream, h, ↓reduceIte]
          refine linkAt_frame (inv.link st) (fun x _ => by rw [hcacc.2.2]) ?_ (by rw [hcacc.1])
          intro x hx
          rw [hcacc.2.1]
          simp only [List.mem_append, List.mem_singleton]
          constructor
          · rintro (h1 | rfl)
            · exact h1
            · exact absurd hx.symm h
          · intro h1; exact Or.inl h1
    · simp at hs
  | out e =>
    simp only [step?] at hs
    split at hs
    · rename_i hacc
      have hacc' : e ∈ s.core.accepted := by simpa using hacc
      split at hs
      · rename_i ss hss
        simp at hs; subst hs
        obtain ⟨_, _, ho, hd, hn⟩ := out_facts hss
        have hadd := add_guard_holds inv hacc' hss
        refine ⟨cinv_step inv.cinv hadd, ?_, ?_, inv.seqPos⟩
        · intro st
          show StreamProc.PInv (setStream s.streams e.st ss st)
          by_cases h : st = e.st
          · subst h; simp only [setStream, ↓reduceIte]; exact StreamProc.pinv_step (inv.pinv _) hss
          · simp only [setStream, h, ↓reduceIte]; exact inv.pinv st
        · intro st
          show LinkAt (addU s.core e) st (setStream s.streams e.st ss st)
          by_cases h : st = e.st
          · subst h
            simp only [setStream, ↓reduceIte]
            have L := inv.link e.st
            refine ⟨?_, ?_, ?_, ?_, by rw [hn]; exact L.last⟩
            · intro x hx hst
              rw [ho]
              simp only [addU, List.mem_append, List.mem_singleton] at hx ⊢
              rcases hx with hx | rfl
              · exact Or.inl (L.addOut x hx hst)
              · exact Or.inr rfl
            · intro q hq'
              rw [ho] at hq'
              simp only [List.mem_append, List.mem_singleton] at hq'
              rcases hq' with hq' | rfl
              · obtain ⟨x, hx, h1, h2⟩ := L.outAdd q hq'
                exact ⟨x, by simp [addU, hx], h1, h2⟩
              · exact ⟨e, by simp [addU], rfl, rfl⟩
            · intro x hx hst; rw [hd]; exact L.dropS x hx hst
            · intro q hq'; rw [hd] at hq'; exact L.sDrop q hq'
          · simp only [setStream, h, ↓reduceIte]
            refine linkAt_frame (inv.link st) ?_ (fun x _ => Iff.rfl) rfl
            intro x hx
            simp only [addU, List.mem_append, List.mem_singleton]
            constructor
            · rintro (h1 | rfl)
              · exact h1
              · exact absurd hx.symm h
            · intro h1; exact Or.inl h1
      · simp at hs
    · simp at hs
  | stream st op =>
    simp only [step?] at hs
    split at hs
    · rename_i hso
      split at hs
      · rename_i ss hss
        simp at hs; subst hs
        obtain ⟨ho, hd, hn⟩ := streamOnly_facts hso hss
        refine ⟨inv.cinv, ?_, ?_, inv.seqPos⟩
        · intro i
          show StreamProc.PInv (setStream s.streams st ss i)
          by_cases h : i = st
          · subst h; simp only [setStream, ↓reduceIte]; exact StreamProc.pinv_step (inv.pinv _) hss
          · simp only [setStream, h, ↓reduceIte]; exact inv.pinv i
        · intro i
          show LinkAt s.core i (setStream s.streams st ss i)
          by_cases h : i = st
          · subst h; simp only [setStream, ↓reduceIte]; exact linkAt_ss (inv.link _) ho hd hn
          · simp only [setStream, h, ↓reduceIte]; exact inv.link i
      · simp at hs
    · simp at hs
  | core op =>
    simp only [step?] at hs
    split at hs
    · rename_i hco
      split at hs
      · rename_i c hc
        simp at hs; subst hs
        obtain ⟨ha, hd, hadd⟩ := coreOnly_facts inv.cinv.noDQ hco hc
        refine ⟨cinv_step inv.cinv hc, inv.pinv, ?_, by intro x hx; rw [ha] at hx; exact inv.seqPos x hx⟩
        intro st
        exact linkAt_frame (inv.link st) (fun x _ => by rw [hadd]) (fun x _ => by rw [hd]) (by rw [ha])
      · simp at hs
    · simp at hs

theorem sinv_run {s s' : State} {ops : List Op} (h : SInv s) (hr : run s ops = some s') : SInv s' := by
  induction ops generalizing s with
  | nil => simp [run] at hr; subst hr; exact h
  | cons op ops ih =>
    simp only [run] at hr
    cases hso : step? s op with
    | none => simp [hso] at hr
    | some s1 => simp [hso] at hr; exact ih (sinv_step h hso) hr

end FileD.Sys
