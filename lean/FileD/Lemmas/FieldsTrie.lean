/-
  keep_fields' fieldPathNode trie (built in Start) represents the normalised path list:
  `Rep n S` — the nodes of `n` are exactly the prefixes of the paths in `S`.
-/
import FileD.Lemmas.FieldsPaths
namespace FileD.Fields
open FileD FileD.SpecC18

def FP.walk : FP → Path → Option FP
  | n, [] => some n
  | .node ch, k :: r =>
    match fpLookup k ch with
    | some c => FP.walk c r
    | none => none

theorem FP.walk_cons (n : FP) (k : Bytes) (r : Path) :
    n.walk (k :: r) = match fpLookup k n.children with
      | some c => c.walk r
      | none => none := by
  cases n; rfl

theorem fpLookup_fpSet (k k' : Bytes) (c : FP) (ch : List (Bytes × FP)) :
    fpLookup k' (fpSet k c ch) = if k' = k then (fpLookup k ch).map (fun _ => c) else fpLookup k' ch := by
  induction ch with
  | nil => simp [fpSet, fpLookup]
  | cons x r ih =>
    obtain ⟨k1, c1⟩ := x
    by_cases h : k1 = k
    · subst h
      simp only [fpSet, if_true, fpLookup]
      by_cases h' : k1 = k'
      · subst h'; simp
      · have : ¬ k' = k1 := fun e => h' e.symm
        simp [h', this]
    · simp only [fpSet, h, if_false, fpLookup, ih]
      by_cases h' : k1 = k'
      · subst h'; simp [h]
      · simp [h']

theorem fpLookup_append (k' k : Bytes) (c : FP) (ch : List (Bytes × FP)) :
    fpLookup k' (ch ++ [(k, c)]) = match fpLookup k' ch with
      | some x => some x
      | none => if k = k' then some c else none := by
  induction ch with
  | nil => simp [fpLookup]
  | cons x r ih =>
    obtain ⟨k1, c1⟩ := x
    by_cases h : k1 = k' <;> simp [fpLookup, h, ih]

theorem walk_leaf (q : Path) : ((FP.node []).walk q).isSome ↔ q = [] := by
  cases q <;> simp [FP.walk, fpLookup]

theorem cons_prefix_cons {k k' : Bytes} {q r : Path} : (k' :: q) <+: (k :: r) ↔ k' = k ∧ q <+: r := by
  constructor
  · rintro ⟨t, ht⟩
    simp at ht
    exact ⟨ht.1, t, ht.2⟩
  · rintro ⟨rfl, t, ht⟩
    exact ⟨t, by simp [ht]⟩

theorem walk_insert : ∀ (p : Path) (n : FP) (q : Path),
    ((n.insert p).walk q).isSome ↔ ((n.walk q).isSome ∨ q <+: p) := by
  intro p
  induction p with
  | nil =>
    intro n q
    cases n
    simp only [FP.insert, List.prefix_nil]
    constructor
    · exact Or.inl
    · rintro (h | h)
      · exact h
      · subst h; rfl
  | cons k r ih =>
    intro n q
    cases n with
    | node ch =>
    cases q with
    | nil => simp [FP.walk]
    | cons k' q' =>
      simp only [FP.insert]
      cases hl : fpLookup k ch with
      | some c =>
        simp only [FP.walk, fpLookup_fpSet, hl, Option.map_some, cons_prefix_cons]
        by_cases e : k' = k
        · subst e
          simp only [if_true, hl, ih c q', true_and]
        · simp [e]
      | none =>
        simp only [FP.walk, fpLookup_append, cons_prefix_cons]
        by_cases e : k' = k
        · subst e
          simp only [hl, if_true, ih, walk_leaf, true_and]
          constructor
          · rintro (h | h)
            · subst h; exact Or.inr (List.nil_prefix)
            · exact Or.inr h
          · rintro (h | h)
            · cases h
            · exact Or.inr h
        · have e' : ¬ k = k' := fun x => e x.symm
          cases hl' : fpLookup k' ch <;> simp [e, e']

/-- the nodes of the trie are exactly the prefixes of the paths in `S` -/
def Rep (n : FP) (S : List Path) : Prop := ∀ q, (n.walk q).isSome ↔ (q = [] ∨ ∃ p ∈ S, q <+: p)

theorem rep_foldl_insert (ps : List Path) : ∀ (n : FP) (S : List Path), Rep n S → Rep (ps.foldl FP.insert n) (S ++ ps) := by
  induction ps with
  | nil => intro n S h; simpa using h
  | cons p ps ih =>
    intro n S h
    have : Rep (n.insert p) (S ++ [p]) := by
      intro q
      rw [walk_insert, h q]
      simp only [List.mem_append, List.mem_singleton]
      constructor
      · rintro ((h | ⟨p', hp', hq⟩) | h)
        · exact Or.inl h
        · exact Or.inr ⟨p', Or.inl hp', hq⟩
        · exact Or.inr ⟨p, Or.inr rfl, h⟩
      · rintro (h | ⟨p', hp' | hp', hq⟩)
        · exact Or.inl (Or.inl h)
        · exact Or.inl (Or.inr ⟨p', hp', hq⟩)
        · subst hp'; exact Or.inr hq
    have := ih (n.insert p) (S ++ [p]) this
    simpa using this

theorem rep_buildTrie (ps : List Path) : Rep (buildTrie ps) ps := by
  have := rep_foldl_insert ps (.node []) [] (by
    intro q; rw [walk_leaf]; simp)
  simpa [buildTrie] using this

/-! ### what the code reads off the trie -/

theorem Rep.child_none {n : FP} {S : List Path} (h : Rep n S) (k : Bytes) :
    fpLookup k n.children = none ↔ tailsOf k S = [] := by
  have := h [k]
  rw [FP.walk_cons] at this
  constructor
  · intro hl
    rw [hl] at this
    simp at this
    rw [List.eq_nil_iff_forall_not_mem]
    intro p hp
    rw [mem_tailsOf] at hp
    exact this _ hp ⟨p, rfl⟩
  · intro ht
    cases hl : fpLookup k n.children with
    | none => rfl
    | some c =>
      rw [hl] at this
      simp [FP.walk] at this
      obtain ⟨p, hp, t, rfl⟩ := this
      have : t ∈ tailsOf k S := mem_tailsOf.2 (by simpa using hp)
      rw [ht] at this; cases this

theorem Rep.child {n c : FP} {S : List Path} (h : Rep n S) {k : Bytes} (hl : fpLookup k n.children = some c) :
    Rep c (tailsOf k S) := by
  intro q
  have := h (k :: q)
  rw [FP.walk_cons, hl] at this
  simp only at this
  rw [this]
  constructor
  · rintro (h' | ⟨p, hp, hq⟩)
    · cases h'
    · cases p with
      | nil => simp at hq
      | cons a p' =>
        rw [cons_prefix_cons] at hq
        obtain ⟨rfl, hq⟩ := hq
        exact Or.inr ⟨p', mem_tailsOf.2 hp, hq⟩
  · rintro (h' | ⟨p', hp', hq⟩)
    · subst h'
      have hne : tailsOf k S ≠ [] := by
        intro e
        rw [← h.child_none k, hl] at e; cases e
      obtain ⟨p', hp'⟩ := List.exists_mem_of_ne_nil _ hne
      exact Or.inr ⟨k :: p', mem_tailsOf.1 hp', cons_prefix_cons.2 ⟨rfl, List.nil_prefix⟩⟩
    · exact Or.inr ⟨k :: p', mem_tailsOf.1 hp', cons_prefix_cons.2 ⟨rfl, hq⟩⟩

theorem Rep.isLeaf {n : FP} {S : List Path} (h : Rep n S) : n.isLeaf = true ↔ ∀ p ∈ S, p = [] := by
  cases n with
  | node ch =>
  simp only [FP.isLeaf, FP.children, List.isEmpty_iff]
  constructor
  · intro e p hp
    subst e
    cases p with
    | nil => rfl
    | cons k r =>
      have := (h [k]).2 (Or.inr ⟨k :: r, hp, cons_prefix_cons.2 ⟨rfl, List.nil_prefix⟩⟩)
      simp [FP.walk, fpLookup] at this
  · intro hS
    cases ch with
    | nil => rfl
    | cons x r =>
      obtain ⟨k, c⟩ := x
      have := (h [k]).1 (by simp [FP.walk, fpLookup])
      simp at this
      obtain ⟨p, hp, hq⟩ := this
      rw [hS p hp] at hq
      simp at hq

/-! ### antichains -/

/-- no path of the list is a proper prefix of another one -/
def AntiChain (S : List Path) : Prop := ∀ p ∈ S, ∀ q ∈ S, p <+: q → p = q

theorem PrefixFree.antiChain {S : List Path} (h : PrefixFree S) : AntiChain S := by
  induction S with
  | nil => intro p hp; cases hp
  | cons a S ih =>
    unfold PrefixFree at h
    rw [List.pairwise_cons] at h
    intro p hp q hq hpq
    rcases List.mem_cons.1 hp with e1 | e1 <;> rcases List.mem_cons.1 hq with e2 | e2
    · rw [e1, e2]
    · subst e1; exact absurd hpq (h.1 q e2).1
    · subst e2; exact absurd hpq (h.1 p e1).2
    · exact ih h.2 p e1 q e2 hpq

theorem AntiChain.tails {S : List Path} (h : AntiChain S) (k : Bytes) : AntiChain (tailsOf k S) := by
  intro p hp q hq hpq
  have := h _ (mem_tailsOf.1 hp) _ (mem_tailsOf.1 hq) (cons_prefix_cons.2 ⟨rfl, hpq⟩)
  simpa using this

/-- with an antichain a child that ends a path has no further children -/
theorem AntiChain.hasNil_tails {S : List Path} (h : AntiChain S) {k : Bytes} (hn : hasNil (tailsOf k S) = true) :
    ∀ p ∈ tailsOf k S, p = [] := by
  intro p hp
  rw [hasNil_tailsOf] at hn
  have := h _ hn _ (mem_tailsOf.1 hp) (cons_prefix_cons.2 ⟨rfl, List.nil_prefix⟩)
  simpa using this.symm

theorem child_isLeaf_iff {n c : FP} {S : List Path} (h : Rep n S) (ha : AntiChain S) {k : Bytes}
    (hl : fpLookup k n.children = some c) : c.isLeaf = true ↔ hasNil (tailsOf k S) = true := by
  rw [(h.child hl).isLeaf]
  constructor
  · intro hall
    have hne : tailsOf k S ≠ [] := by
      intro e
      rw [← h.child_none k, hl] at e; cases e
    obtain ⟨p, hp⟩ := List.exists_mem_of_ne_nil _ hne
    rw [hasNil_iff, ← hall p hp]; exact hp
  · exact ha.hasNil_tails

/-! ### depth of the buffers -/

theorem le_maxDepth {S : List Path} {p : Path} (h : p ∈ S) : p.length ≤ maxDepth S := by
  induction S with
  | nil => cases h
  | cons a S ih =>
    simp only [maxDepth]
    rcases List.mem_cons.1 h with e | e
    · subst e; exact Nat.le_max_right _ _
    · exact Nat.le_trans (ih e) (Nat.le_max_left _ _)

theorem maxDepth_le {S : List Path} {n : Nat} (h : ∀ p ∈ S, p.length ≤ n) : maxDepth S ≤ n := by
  induction S with
  | nil => simp [maxDepth]
  | cons a S ih =>
    simp only [maxDepth]
    exact Nat.max_le.2 ⟨ih (fun p hp => h p (List.mem_cons_of_mem _ hp)), h a List.mem_cons_self⟩

theorem maxDepth_tails {S : List Path} (k : Bytes) (hne : tailsOf k S ≠ []) :
    maxDepth (tailsOf k S) + 1 ≤ maxDepth S := by
  obtain ⟨p0, hp0⟩ := List.exists_mem_of_ne_nil _ hne
  have h0 := le_maxDepth (mem_tailsOf.1 hp0)
  simp at h0
  have : maxDepth (tailsOf k S) ≤ maxDepth S - 1 := by
    apply maxDepth_le
    intro p hp
    have := le_maxDepth (mem_tailsOf.1 hp)
    simp at this
    omega
  omega

end FileD.Fields
