/-
  Helper lemmas for C19 (payload builders and unframers).
-/
import FileD.Model.Payload
import FileD.Spec.C19
namespace FileD.Payload
open FileD FileD.SpecC19

/-- ForEach visits exactly the deliverable events, in order -/
theorem forEach_eq_foldl {σ : Type} (cb : σ → Ev → σ) (evs : List Ev) (s : σ) :
    forEach cb evs s = (deliverable evs).foldl cb s := by
  induction evs generalizing s with
  | nil => rfl
  | cons e es ih =>
    unfold forEach
    by_cases h : e.isChildParent
    · simp [h, deliverable, ih]
    · simp [h, deliverable, ih]

end FileD.Payload
