/-
  Helper lemmas for C19 (payload builders and unframers).
-/
import FileD.Model.Payload
import FileD.Spec.C19
namespace FileD.Payload
open FileD FileD.SpecC19

/-! ### ForEach and the worker buffer -/

/-- ForEach visits exactly the deliverable events, in order -/
theorem forEach_eq_foldl {σ : Type} (cb : σ → Ev → σ) (evs : List Ev) (s : σ) :
    forEach cb evs s = (deliverable evs).foldl cb s := by
  induction evs generalizing s with
  | nil => rfl
  | cons e es ih =>
    unfold forEach
    by_cases h : e.isChildParent
    · simp [h, deliverable, ih]
    · simp [h, deliverable, ih]

theorem resetBuf_data (lim : Nat) (wd : WD) : (resetBuf lim wd).data = [] := by
  cases wd with
  | none => rfl
  | some b => simp only [resetBuf]; split <;> simp

theorem append_data (b : Buf) (x : Bytes) : (b.append x).data = b.data ++ x := rfl

/-- a callback that appends `f e` to the buffer builds `flatMap f` -/
theorem foldl_data (g : Buf → Ev → Buf) (f : Ev → Bytes) (hg : ∀ b e, (g b e).data = b.data ++ f e)
    (l : List Ev) (b : Buf) : (l.foldl g b).data = b.data ++ l.flatMap f := by
  induction l generalizing b with
  | nil => simp
  | cons e es ih => simp [List.foldl_cons, ih, hg, List.flatMap_cons]

/-! ### separator framing -/

theorem unframeSepGo_frame (sep : UInt8) (x : Bytes) (hx : sep ∉ x) (acc rest : Bytes) :
    unframeSepGo sep acc (x ++ sep :: rest) = (unframeSepGo sep [] rest).map ((acc ++ x) :: ·) := by
  induction x generalizing acc with
  | nil => simp [unframeSepGo]
  | cons b bs ih =>
    have hb : b ≠ sep := by intro h; exact hx (by simp [h])
    have hbs : sep ∉ bs := by intro h; exact hx (by simp [h])
    simp [unframeSepGo, hb, ih hbs, List.append_assoc]

theorem unframeSep_frames (sep : UInt8) (xs : List Bytes) (h : ∀ x ∈ xs, sep ∉ x) :
    unframeSep sep (xs.flatMap (· ++ [sep])) = some xs := by
  unfold unframeSep
  induction xs with
  | nil => simp [unframeSepGo]
  | cons x xs ih =>
    have hx : sep ∉ x := h x (by simp)
    have hxs : ∀ y ∈ xs, sep ∉ y := fun y hy => h y (by simp [hy])
    simp only [List.flatMap_cons, List.append_assoc, List.singleton_append]
    rw [unframeSepGo_frame sep x hx, ih hxs]
    simp

theorem flatMap_sep (f : Ev → Bytes) (sep : UInt8) (l : List Ev) :
    l.flatMap (fun e => f e ++ [sep]) = (l.map f).flatMap (· ++ [sep]) := by
  induction l with
  | nil => rfl
  | cons e es ih => simp [List.flatMap_cons, ih]

/-! ### the begin table and the split recursion -/

/-- offsets of the frame boundaries: `n + 1` entries starting at `s` -/
def offs : Nat → List Bytes → List Nat
  | s, [] => [s]
  | s, f :: fs => s :: offs (s + f.length) fs

/-- the frames of events `l .. r-1` -/
def seg (fs : List Bytes) (l r : Nat) : List Bytes := (fs.drop l).take (r - l)

theorem offs_get (s : Nat) (fs : List Bytes) (i : Nat) (hi : i ≤ fs.length) :
    (offs s fs)[i]? = some (s + (fs.take i).flatten.length) := by
  induction fs generalizing s i with
  | nil => simp at hi; subst hi; simp [offs]
  | cons f fs ih =>
    cases i with
    | zero => simp [offs]
    | succ i =>
      simp only [offs, List.getElem?_cons_succ, List.take_succ_cons, List.flatten_cons, List.length_append]
      rw [ih (s + f.length) i (by simpa using hi)]
      simp [Nat.add_assoc]

theorem flatten_split (fs : List Bytes) (l r : Nat) (hlr : l ≤ r) :
    (fs.take r).flatten = (fs.take l).flatten ++ (seg fs l r).flatten := by
  have : fs.take r = fs.take l ++ seg fs l r := by
    unfold seg
    have h1 : fs.take r = (fs.take l ++ fs.drop l).take r := by rw [List.take_append_drop]
    rw [h1, List.take_append]
    have : (fs.take l).length ≤ r := by simp; omega
    rw [List.take_of_length_le this]
    congr 1
    simp only [List.length_take]
    by_cases h : l ≤ fs.length
    · rw [Nat.min_eq_left h]
    · have h' : fs.length ≤ l := by omega
      rw [Nat.min_eq_right h', List.drop_of_length_le h']; simp
  rw [this, List.flatten_append]

theorem sliceBE_offs (fs : List Bytes) (l r : Nat) (hlr : l ≤ r) (hr : r ≤ fs.length) :
    sliceBE fs.flatten (offs 0 fs) l r = .ok (seg fs l r).flatten := by
  have hl : l ≤ fs.length := by omega
  have e1 : GoSlice.idx? (offs 0 fs) (l : Int) = .ok (fs.take l).flatten.length := by
    simp [GoSlice.idx?, offs_get 0 fs l hl]
  have e2 : GoSlice.idx? (offs 0 fs) (r : Int) = .ok (fs.take r).flatten.length := by
    simp [GoSlice.idx?, offs_get 0 fs r hr]
  have hsplit := flatten_split fs l r hlr
  have hall : fs.flatten = (fs.take r).flatten ++ (fs.drop r).flatten := by
    rw [← List.flatten_append, List.take_append_drop]
  have hle : (fs.take l).flatten.length ≤ (fs.take r).flatten.length := by
    have := congrArg List.length hsplit; rw [List.length_append] at this; omega
  have hle2 : (fs.take r).flatten.length ≤ fs.flatten.length := by
    have := congrArg List.length hall; rw [List.length_append] at this; omega
  unfold sliceBE
  simp only [e1, e2, bind, Except.bind, GoSlice.slice?]
  rw [if_pos (by omega)]
  congr 1
  simp only [Int.toNat_natCast]
  rw [hall, hsplit]
  simp

def delivered (reqs : List Req) : Bytes :=
  (reqs.filter (fun q => isOkStatus q.status || (q.status == 413 && q.n == 1))).flatMap (·.body)

theorem delivered_append (a b : List Req) : delivered (a ++ b) = delivered a ++ delivered b := by
  simp [delivered, List.filter_append, List.flatMap_append]

theorem seg_flatten_split (fs : List Bytes) (l m r : Nat) (h1 : l ≤ m) (h2 : m ≤ r) :
    (seg fs l r).flatten = (seg fs l m).flatten ++ (seg fs m r).flatten := by
  have a := flatten_split fs l r (by omega)
  have b := flatten_split fs l m h1
  have c := flatten_split fs m r h2
  rw [c, b, List.append_assoc] at a
  exact (List.append_cancel_left a).symm


theorem seg_self (fs : List Bytes) (l : Nat) : seg fs l l = [] := by simp [seg]

theorem split_covers (fs : List Bytes) :
    ∀ fuel l r sc res, l ≤ r → r ≤ fs.length → r - l ≤ fuel →
      sendSplit fuel l r (offs 0 fs) fs.flatten sc = .ok res →
      (res.err = false ∨ res.code = 413) →
      delivered res.reqs = (seg fs l r).flatten := by
  intro fuel
  induction fuel with
  | zero =>
    intro l r sc res hlr hr hf h _
    have : l = r := by omega
    subst this
    unfold sendSplit at h
    simp at h
    subst h
    simp [delivered, seg_self]
  | succ n ih =>
    intro l r sc res hlr hr hf h hgood
    unfold sendSplit at h
    by_cases hEq : l = r
    · subst hEq
      simp at h
      subst h
      simp [delivered, seg_self]
    · simp only [hEq, if_false, sliceBE_offs fs l r hlr hr] at h
      split at h
      · -- accepted
        simp at h; subst h
        rename_i hok
        simp [delivered, hok]
      · split at h
        · rename_i hnok h413
          split at h
          · -- a single event refused
            rename_i h1
            simp at h; subst h
            simp [delivered, h413, h1]
          · rename_i h1
            have hm1 : l ≤ (l + r) / 2 := by omega
            have hm2 : (l + r) / 2 ≤ r := by omega
            split at h
            · simp at h
            · rename_i lres hl
              split at h
              · -- left half failed for another reason: the result is not committed
                rename_i hbad
                simp at h; subst h
                simp at hbad
                simp at hgood
                exact absurd hgood hbad.2
              · rename_i hlgood
                have hlg : lres.err = false ∨ lres.code = 413 := by
                  cases he : lres.err with
                  | false => exact Or.inl rfl
                  | true => right; simp [he] at hlgood; exact hlgood
                have ihl := ih l ((l + r) / 2) _ lres hm1 (by omega) (by omega) hl hlg
                split at h
                · simp at h
                · rename_i rres hr'
                  have whole : delivered [({ status := (nextStatus 200 sc).1, body := (seg fs l r).flatten, n := r - l } : Req)] = [] := by
                    simp [delivered, h413, h1]
                    intro hh; simp [isOkStatus] at hh
                  split at h
                  · rename_i hrerr
                    simp at h; subst h
                    have hrg : rres.err = false ∨ rres.code = 413 := by
                      right; simpa using hgood
                    have ihr := ih ((l + r) / 2) r _ rres hm2 hr (by omega) hr' hrg
                    rw [show ({ status := (nextStatus 200 sc).1, body := (seg fs l r).flatten, n := r - l } : Req) :: (lres.reqs ++ rres.reqs)
                          = [({ status := (nextStatus 200 sc).1, body := (seg fs l r).flatten, n := r - l } : Req)] ++ (lres.reqs ++ rres.reqs) from rfl]
                    rw [delivered_append, delivered_append, whole, ihl, ihr, List.nil_append,
                      ← seg_flatten_split fs l _ r hm1 hm2]
                  · rename_i hrok
                    simp at h; subst h
                    have hrg : rres.err = false ∨ rres.code = 413 := by
                      left; simpa using hrok
                    have ihr := ih ((l + r) / 2) r _ rres hm2 hr (by omega) hr' hrg
                    rw [show ({ status := (nextStatus 200 sc).1, body := (seg fs l r).flatten, n := r - l } : Req) :: (lres.reqs ++ rres.reqs)
                          = [({ status := (nextStatus 200 sc).1, body := (seg fs l r).flatten, n := r - l } : Req)] ++ (lres.reqs ++ rres.reqs) from rfl]
                    rw [delivered_append, delivered_append, whole, ihl, ihr, List.nil_append,
                      ← seg_flatten_split fs l _ r hm1 hm2]
        · -- any other status: not committed
          rename_i hnok hn413
          simp at h; subst h
          simp at hgood
          exact absurd hgood hn413


/-- the recursion never indexes outside the begin table or the buffer and never runs out of fuel -/
theorem split_ok (fs : List Bytes) :
    ∀ fuel l r sc, l ≤ r → r ≤ fs.length → r - l ≤ fuel →
      ∃ res, sendSplit fuel l r (offs 0 fs) fs.flatten sc = .ok res := by
  intro fuel
  induction fuel with
  | zero =>
    intro l r sc hlr hr hf
    have : l = r := by omega
    subst this
    exact ⟨⟨200, false, sc, []⟩, by unfold sendSplit; simp⟩
  | succ n ih =>
    intro l r sc hlr hr hf
    unfold sendSplit
    by_cases hEq : l = r
    · exact ⟨⟨200, false, sc, []⟩, by simp [hEq]⟩
    · simp only [hEq, if_false, sliceBE_offs fs l r hlr hr]
      split
      · exact ⟨_, rfl⟩
      · split
        · split
          · exact ⟨_, rfl⟩
          · have hm1 : l ≤ (l + r) / 2 := by omega
            have hm2 : (l + r) / 2 ≤ r := by omega
            obtain ⟨lres, hl⟩ := ih l ((l + r) / 2) (nextStatus 200 sc).2 hm1 (by omega) (by omega)
            rw [hl]
            simp only
            split
            · exact ⟨_, rfl⟩
            · obtain ⟨rres, hr'⟩ := ih ((l + r) / 2) r lres.sc hm2 hr (by omega)
              rw [hr']
              simp only
              split <;> exact ⟨_, rfl⟩
        · exact ⟨_, rfl⟩

/-! ### the ForEach loop of elasticsearch / http builds the frames and their begin table -/

theorem acc_foldl (fr : Ev → Bytes) (l : List Ev) (a : Acc) :
    (l.foldl (accStep fr) a).buf.data = a.buf.data ++ (l.map fr).flatten ∧
    (l.foldl (accStep fr) a).count = a.count + l.length ∧
    (l.foldl (accStep fr) a).begin ++ [(l.foldl (accStep fr) a).buf.data.length]
      = a.begin ++ offs a.buf.data.length (l.map fr) := by
  induction l generalizing a with
  | nil => simp [offs]
  | cons e es ih =>
    have := ih (accStep fr a e)
    simp only [List.foldl_cons, List.map_cons, List.flatten_cons, List.length_cons]
    refine ⟨?_, ?_, ?_⟩
    · rw [this.1]; simp [accStep, Buf.append, List.append_assoc]
    · rw [this.2.1]; simp [accStep]; omega
    · rw [this.2.2]; simp [accStep, Buf.append, offs, List.append_assoc]

theorem buildAcc_spec (fr : Ev → Bytes) (lim : Nat) (wd : WD) (batch : List Ev) :
    (buildAcc fr lim wd batch).buf.data = ((deliverable batch).map fr).flatten ∧
    (buildAcc fr lim wd batch).count = (deliverable batch).length ∧
    (buildAcc fr lim wd batch).begin ++ [(buildAcc fr lim wd batch).buf.data.length]
      = offs 0 ((deliverable batch).map fr) := by
  unfold buildAcc
  rw [forEach_eq_foldl]
  have := acc_foldl fr (deliverable batch) ⟨resetBuf lim wd, [], 0⟩
  simpa [resetBuf_data] using this

/-! ### elasticsearch action line -/

/-- a byte that may stand unescaped inside a JSON string and is not a newline -/
def SafeByte (b : UInt8) : Prop := 32 ≤ b ∧ b ≠ 34 ∧ b ≠ 92

instance (b : UInt8) : Decidable (SafeByte b) := by unfold SafeByte; infer_instance

/-- `s` contains no newline and is read through by the JSON string scanner -/
def Clean (s : Bytes) : Prop := NL ∉ s ∧ ∀ r, strBody (s ++ r) = strBody r

theorem clean_nil : Clean [] := ⟨by simp, by simp⟩

theorem clean_append {s t : Bytes} (hs : Clean s) (ht : Clean t) : Clean (s ++ t) :=
  ⟨by simp [hs.1, ht.1], by intro r; rw [List.append_assoc, hs.2, ht.2]⟩

theorem strBody_safe (b : UInt8) (hb : SafeByte b) (r : Bytes) : strBody (b :: r) = strBody r := by
  obtain ⟨h1, h2, h3⟩ := hb
  conv => lhs; unfold strBody
  split <;> simp_all
  intro hlt
  exact absurd hlt (by simpa [UInt8.not_lt] using h1)

theorem clean_single (b : UInt8) (hb : SafeByte b) : Clean [b] := by
  refine ⟨?_, fun r => strBody_safe b hb r⟩
  obtain ⟨h1, _, _⟩ := hb
  simp [NL]
  intro h; subst h; exact absurd h1 (by decide)

theorem clean_of_safe (s : Bytes) (h : ∀ b ∈ s, SafeByte b) : Clean s := by
  induction s with
  | nil => exact clean_nil
  | cons b bs ih =>
    have := clean_append (clean_single b (h b (by simp))) (ih (fun x hx => h x (by simp [hx])))
    simpa using this


theorem hex_ok : ∀ k, k < 32 →
    isHex (hexDigit (UInt8.ofNat k >>> 4)) = true ∧ isHex (hexDigit (UInt8.ofNat k &&& 15)) = true ∧
    hexDigit (UInt8.ofNat k >>> 4) ≠ 10 ∧ hexDigit (UInt8.ofNat k &&& 15) ≠ 10 := by decide

theorem strBody_esc2 (c : UInt8) (hc : c = 34 ∨ c = 92) (r : Bytes) : strBody (92 :: c :: r) = strBody r := by
  rcases hc with h | h <;> subst h <;> (conv => lhs; unfold strBody) <;> simp

theorem strBody_escU (a b : UInt8) (ha : isHex a = true) (hb : isHex b = true) (r : Bytes) :
    strBody (92 :: 117 :: 48 :: 48 :: a :: b :: r) = strBody r := by
  have h48 : isHex 48 = true := by decide
  conv => lhs; unfold strBody
  simp only [h48, ha, hb, Bool.and_self, if_true]

theorem clean_escapeIdx (v : Bytes) : Clean (escapeIdx v) := by
  induction v with
  | nil => exact clean_nil
  | cons c cs ih =>
    unfold escapeIdx
    split
    · rename_i h
      have : Clean [92, c] := by
        refine ⟨?_, fun r => strBody_esc2 c h r⟩
        rcases h with h | h <;> subst h <;> decide
      exact clean_append this ih
    · split
      · rename_i h32
        have hk : c.toNat < 32 := by simpa [UInt8.lt_iff_toNat_lt] using h32
        have hh := hex_ok c.toNat hk
        rw [UInt8.ofNat_toNat] at hh
        have : Clean [92, 117, 48, 48, hexDigit (c >>> 4), hexDigit (c &&& 15)] := by
          refine ⟨?_, fun r => strBody_escU _ _ hh.1 hh.2.1 r⟩
          simp [NL]
          exact ⟨fun h => hh.2.2.1 h.symm, fun h => hh.2.2.2 h.symm⟩
        exact clean_append this ih
      · rename_i h1 h2
        have hs : SafeByte c := by
          refine ⟨by simpa [UInt8.not_lt] using h2, fun h => h1 (Or.inl h), fun h => h1 (Or.inr h)⟩
        exact clean_append (clean_single c hs) ih


theorem indexValue_clean (c : EsCfg) (e : Ev) (i : Nat) (v : Bytes)
    (ht : ∀ b ∈ c.time, SafeByte b) (h : indexValue true c e i = some v) : Clean v := by
  unfold indexValue at h
  split at h
  · simp at h
  · split at h
    · simp at h; subst h; exact clean_of_safe _ ht
    · split at h
      · simp at h; subst h; exact clean_escapeIdx _
      · simp at h

theorem expandFormat_clean (c : EsCfg) (e : Ev) (ht : ∀ b ∈ c.time, SafeByte b) :
    ∀ (fmt : Bytes) (i : Nat) (out res : Bytes), (∀ b ∈ fmt, SafeByte b) →
      expandFormat true c e fmt i out = some res → ∃ x, res = out ++ x ∧ Clean x := by
  intro fmt
  induction fmt with
  | nil => intro i out res _ h; simp [expandFormat] at h; exact ⟨[], by simp [h], clean_nil⟩
  | cons ch rest ih =>
    intro i out res hf h
    have hrest : ∀ b ∈ rest, SafeByte b := fun b hb => hf b (by simp [hb])
    unfold expandFormat at h
    split at h
    · obtain ⟨x, hx, hc⟩ := ih i (out ++ [ch]) res hrest h
      exact ⟨[ch] ++ x, by simp [hx], clean_append (clean_single ch (hf ch (by simp))) hc⟩
    · split at h
      · simp at h
      · rename_i v hv
        obtain ⟨x, hx, hc⟩ := ih (i + 1) (out ++ v) res hrest h
        exact ⟨v ++ x, by simp [hx], clean_append (indexValue_clean c e i v ht hv) hc⟩

theorem stripPrefix_append (pre rest : Bytes) : stripPrefix pre (pre ++ rest) = some rest := by
  simp [stripPrefix]

/-- shape of the action line: header, a clean index name, the closing `"}}` -/
theorem actionLine_shape (c : EsCfg) (e : Ev) (a : Bytes)
    (hf : ∀ b ∈ c.format, SafeByte b) (ht : ∀ b ∈ c.time, SafeByte b)
    (h : actionLine true c e = some a) :
    ∃ x, a = headerPrefix c ++ x ++ [34, 125, 125] ∧ Clean x := by
  unfold actionLine at h
  cases hx : expandFormat true c e c.format 0 (headerPrefix c) with
  | none => simp [hx] at h
  | some res =>
    obtain ⟨x, hres, hc⟩ := expandFormat_clean c e ht c.format 0 (headerPrefix c) res hf hx
    simp [hx] at h
    exact ⟨x, by rw [← h, hres]; simp [lit], hc⟩

theorem pairUp_interleave (l : List (Bytes × Bytes)) :
    pairUp (l.flatMap (fun p => [p.1, p.2])) = some l := by
  induction l with
  | nil => rfl
  | cons p ps ih => simp [List.flatMap_cons, pairUp, ih]

/-! ### bracket scanner: splunk and loki -/

theorem scanGo_append (v : Bytes) :
    ∀ (s : SSt) (acc w rest : Bytes), scanGo s acc v = some (w, []) → scanGo s acc (v ++ rest) = some (w, rest) := by
  induction v with
  | nil => intro s acc w rest h; simp [scanGo] at h
  | cons b bs ih =>
    intro s acc w rest h
    simp only [List.cons_append]
    unfold scanGo at h ⊢
    cases hs : sstep s b with
    | none => simp [hs] at h
    | some s' =>
      simp only [hs] at h ⊢
      by_cases hd : s'.depth = 0
      · simp [hd] at h ⊢
        obtain ⟨h1, h2⟩ := h
        subst h2
        simp [h1]
      · simp [hd] at h ⊢
        exact ih s' _ w rest h

theorem scanOne_append (v rest : Bytes) (h : wellBracketed v = true) : scanOne (v ++ rest) = some (v, rest) := by
  unfold wellBracketed at h
  have h' : scanOne v = some (v, []) := by simpa using h
  cases v with
  | nil => simp [scanOne] at h'
  | cons b bs =>
    simp only [List.cons_append]
    simp only [scanOne] at h' ⊢
    by_cases hb : b = 123 ∨ b = 91
    · rw [if_pos hb] at h' ⊢
      exact scanGo_append bs _ _ _ rest h'
    · rw [if_neg hb] at h'; simp at h'

theorem wellBracketed_ne_nil (v : Bytes) (h : wellBracketed v = true) : v ≠ [] := by
  intro hv; subst hv; simp [wellBracketed, scanOne] at h

theorem unframeConcat_frames (vs : List Bytes) (h : ∀ v ∈ vs, wellBracketed v = true) :
    ∀ fuel, vs.length ≤ fuel → unframeConcat fuel vs.flatten = some vs := by
  induction vs with
  | nil => intro fuel _; cases fuel <;> simp [unframeConcat]
  | cons v vs ih =>
    intro fuel hf
    have hv := h v (by simp)
    have hne := wellBracketed_ne_nil v hv
    cases fuel with
    | zero => simp at hf
    | succ n =>
      simp only [List.flatten_cons]
      cases hvv : v ++ vs.flatten with
      | nil => simp at hvv; exact absurd hvv.1 hne
      | cons x xs =>
        unfold unframeConcat
        rw [← hvv, scanOne_append v _ hv]
        simp [ih (fun y hy => h y (by simp [hy])) n (by simpa using hf)]

theorem length_le_flatten (vs : List Bytes) (h : ∀ v ∈ vs, v ≠ []) : vs.length ≤ vs.flatten.length := by
  induction vs with
  | nil => simp
  | cons v vs ih =>
    have : 1 ≤ v.length := by
      cases v with
      | nil => exact absurd rfl (h [] (by simp))
      | cons _ _ => simp
    have := ih (fun y hy => h y (by simp [hy]))
    simp only [List.length_cons, List.flatten_cons, List.length_append]
    omega


theorem wellBracketed_head (v : Bytes) (h : wellBracketed v = true) : ∃ b bs, v = b :: bs ∧ (b = 123 ∨ b = 91) := by
  cases v with
  | nil => simp [wellBracketed, scanOne] at h
  | cons b bs =>
    refine ⟨b, bs, rfl, ?_⟩
    by_cases hb : b = 123 ∨ b = 91
    · exact hb
    · simp [wellBracketed, scanOne, hb] at h

theorem lokiEntries_frames (es : List Bytes) (hne : es ≠ []) (h : ∀ v ∈ es, wellBracketed v = true) :
    ∀ fuel, es.length ≤ fuel → lokiEntries fuel (joinComma es ++ lokiSuffix) = some es := by
  induction es with
  | nil => exact absurd rfl hne
  | cons v vs ih =>
    intro fuel hf
    have hv := h v (by simp)
    cases fuel with
    | zero => simp at hf
    | succ n =>
      cases vs with
      | nil =>
        simp only [joinComma]
        unfold lokiEntries
        rw [scanOne_append v _ hv]
        simp
      | cons w ws =>
        simp only [joinComma, List.append_assoc]
        unfold lokiEntries
        rw [scanOne_append v _ hv]
        have hne' : (lit "," ++ (joinComma (w :: ws) ++ lokiSuffix)) ≠ lokiSuffix := by
          simp [lit, lokiSuffix]
        simp only [hne', if_false]
        have : lit "," ++ (joinComma (w :: ws) ++ lokiSuffix) = 44 :: (joinComma (w :: ws) ++ lokiSuffix) := by
          simp [lit]
        rw [this]
        simp only
        rw [ih (by simp) (fun y hy => h y (by simp [hy])) n (by simpa using hf)]
        simp

theorem length_le_joinComma (es : List Bytes) (h : ∀ v ∈ es, v ≠ []) : es.length ≤ (joinComma es).length + 1 := by
  induction es with
  | nil => simp
  | cons v vs ih =>
    have hv : 1 ≤ v.length := by
      cases v with
      | nil => exact absurd rfl (h [] (by simp))
      | cons _ _ => simp
    have := ih (fun y hy => h y (by simp [hy]))
    cases vs with
    | nil => simp [joinComma]
    | cons w ws =>
      simp only [joinComma, List.length_cons, List.length_append] at this ⊢
      omega

theorem unframeLoki_body (labels : Bytes) (es : List Bytes) (h : ∀ v ∈ es, wellBracketed v = true) :
    unframeLoki labels (lokiBody labels es) = some es := by
  have hb : lokiBody labels es = lokiPrefix labels ++ (joinComma es ++ lokiSuffix) := by
    simp [lokiBody, lokiPrefix, lokiSuffix, List.append_assoc]
  unfold unframeLoki
  rw [hb, stripPrefix_append]
  simp only
  cases es with
  | nil => simp [joinComma]
  | cons v vs =>
    have hv := h v (by simp)
    obtain ⟨b, bs, hvb, hb'⟩ := wellBracketed_head v hv
    have hne : joinComma (v :: vs) ++ lokiSuffix ≠ lokiSuffix := by
      intro heq
      have hh : (joinComma (v :: vs) ++ lokiSuffix).head? = lokiSuffix.head? := by rw [heq]
      cases vs with
      | nil => subst hvb; simp [joinComma, lokiSuffix, lit] at hh; rcases hb' with h | h <;> simp [h] at hh
      | cons w ws => subst hvb; simp [joinComma, lokiSuffix, lit] at hh; rcases hb' with h | h <;> simp [h] at hh
    rw [if_neg hne]
    apply lokiEntries_frames (v :: vs) (by simp) h
    have h1 := length_le_joinComma (v :: vs) (fun y hy => wellBracketed_ne_nil y (h y hy))
    simp only [List.length_append] at h1 ⊢
    omega


theorem forEach_collect (batch : List Ev) (acc : List Ev) :
    forEach (fun acc e => acc ++ [e]) batch acc = acc ++ deliverable batch := by
  rw [forEach_eq_foldl]
  generalize deliverable batch = l
  induction l generalizing acc with
  | nil => simp
  | cons e es ih => simp [List.foldl_cons, ih]

/-! ### kafka: views into the growing buffer -/

/-- a record whose view still shows `enc` in heap `h` -/
def Good (h : KHeap) (r : KRec) (enc : Bytes) : Prop :=
  r.value.hi = r.value.lo + enc.length ∧ r.value.arr ≤ h.frozen.length ∧
  (h.cur.drop r.value.lo).take enc.length = enc ∧ r.value.hi ≤ h.cur.length ∧
  (∀ a, h.frozen[r.value.arr]? = some a → r.value.hi ≤ a.length)

def AllGood (h : KHeap) (c : KCfg) : List KRec → List Ev → Prop
  | [], [] => True
  | r :: rs, e :: es => (r.topic = kafkaTopic c e ∧ Good h r e.enc) ∧ AllGood h c rs es
  | _, _ => False

/-- abandoned arrays are prefixes of the current one -/
def FrozenOk (h : KHeap) : Prop := ∀ a ∈ h.frozen, a <+: h.cur

theorem append_cur (grow : Nat → Nat → Nat) (h : KHeap) (x : Bytes) : (h.append grow x).cur = h.cur ++ x := by
  unfold KHeap.append; split <;> rfl

theorem append_frozen (grow : Nat → Nat → Nat) (h : KHeap) (x : Bytes) :
    (h.append grow x).frozen = h.frozen ∨ (h.append grow x).frozen = h.frozen ++ [h.cur] := by
  unfold KHeap.append; split
  · exact Or.inl rfl
  · exact Or.inr rfl

theorem frozenOk_append (grow : Nat → Nat → Nat) (h : KHeap) (x : Bytes) (hf : FrozenOk h) :
    FrozenOk (h.append grow x) := by
  intro a ha
  rw [append_cur]
  rcases append_frozen grow h x with h1 | h1
  · rw [h1] at ha
    exact (hf a ha).trans (List.prefix_append _ _)
  · rw [h1] at ha
    simp at ha
    rcases ha with ha | ha
    · exact (hf a ha).trans (List.prefix_append _ _)
    · subst ha; exact List.prefix_append _ _

theorem drop_take_append (cur x : Bytes) (lo n : Nat) (h : lo + n ≤ cur.length) :
    ((cur ++ x).drop lo).take n = (cur.drop lo).take n := by
  rw [List.drop_append_of_le_length (by omega), List.take_append_of_le_length (by simp; omega)]

theorem good_append (grow : Nat → Nat → Nat) (h : KHeap) (x : Bytes) (r : KRec) (enc : Bytes)
    (hg : Good h r enc) : Good (h.append grow x) r enc := by
  obtain ⟨h1, h2, h3, h4, h5⟩ := hg
  refine ⟨h1, ?_, ?_, ?_, ?_⟩
  · rcases append_frozen grow h x with e | e
    · rw [e]; exact h2
    · rw [e]; simp; omega
  · rw [append_cur, drop_take_append _ _ _ _ (by omega)]; exact h3
  · rw [append_cur]; simp; omega
  · intro a ha
    rcases append_frozen grow h x with e | e
    · rw [e] at ha; exact h5 a ha
    · rw [e] at ha
      by_cases hlt : r.value.arr < h.frozen.length
      · rw [List.getElem?_append_left hlt] at ha; exact h5 a ha
      · have : r.value.arr = h.frozen.length := by omega
        rw [this] at ha
        simp at ha
        subst ha
        exact h4

theorem allGood_append (grow : Nat → Nat → Nat) (c : KCfg) (h : KHeap) (x : Bytes) :
    ∀ (rs : List KRec) (es : List Ev), AllGood h c rs es → AllGood (h.append grow x) c rs es := by
  intro rs
  induction rs with
  | nil => intro es hh; cases es <;> simpa [AllGood] using hh
  | cons r rs ih =>
    intro es hh
    cases es with
    | nil => simp [AllGood] at hh
    | cons e es =>
      simp only [AllGood] at hh ⊢
      exact ⟨⟨hh.1.1, good_append grow h x r e.enc hh.1.2⟩, ih es hh.2⟩

theorem allGood_snoc (h : KHeap) (c : KCfg) (r : KRec) (e : Ev) :
    ∀ (rs : List KRec) (es : List Ev), AllGood h c rs es → (r.topic = kafkaTopic c e ∧ Good h r e.enc) →
      AllGood h c (rs ++ [r]) (es ++ [e]) := by
  intro rs
  induction rs with
  | nil => intro es hh hr; cases es <;> simp [AllGood] at hh ⊢; exact hr
  | cons r' rs ih =>
    intro es hh hr
    cases es with
    | nil => simp [AllGood] at hh
    | cons e' es =>
      simp only [AllGood, List.cons_append] at hh ⊢
      exact ⟨hh.1, ih es hh.2 hr⟩

theorem allGood_length (h : KHeap) (c : KCfg) : ∀ (rs : List KRec) (es : List Ev), AllGood h c rs es → rs.length = es.length := by
  intro rs
  induction rs with
  | nil => intro es hh; cases es <;> simp [AllGood] at hh ⊢
  | cons r rs ih =>
    intro es hh
    cases es with
    | nil => simp [AllGood] at hh
    | cons e es => simp only [AllGood] at hh; simp [ih es hh.2]

theorem prefix_slice (a cur : Bytes) (hp : a <+: cur) (lo hi : Nat) (h1 : lo ≤ hi) (h2 : hi ≤ a.length) :
    (a.drop lo).take (hi - lo) = (cur.drop lo).take (hi - lo) := by
  obtain ⟨t, rfl⟩ := hp
  rw [drop_take_append _ _ _ _ (by omega)]

theorem read_good (h : KHeap) (hf : FrozenOk h) (r : KRec) (enc : Bytes) (hg : Good h r enc) :
    h.read r.value = some enc := by
  obtain ⟨h1, h2, h3, h4, h5⟩ := hg
  unfold KHeap.read KHeap.arrays
  by_cases hlt : r.value.arr < h.frozen.length
  · rw [List.getElem?_append_left hlt]
    have hget : h.frozen[r.value.arr]? = some h.frozen[r.value.arr] := List.getElem?_eq_getElem hlt
    rw [hget]
    have hle := h5 _ hget
    have hp := hf _ (List.getElem_mem hlt)
    simp only
    rw [if_pos ⟨by omega, hle⟩, prefix_slice _ _ hp _ _ (by omega) hle]
    have : r.value.hi - r.value.lo = enc.length := by omega
    rw [this, h3]
  · have : r.value.arr = h.frozen.length := by omega
    rw [this]
    simp only [List.getElem?_append_right (Nat.le_refl _), Nat.sub_self, List.getElem?_cons_zero]
    rw [if_pos ⟨by omega, h4⟩]
    have : r.value.hi - r.value.lo = enc.length := by omega
    rw [this, h3]

theorem read_allGood (h : KHeap) (c : KCfg) (hf : FrozenOk h) :
    ∀ (rs : List KRec) (es : List Ev), AllGood h c rs es →
      rs.mapM (fun r => (h.read r.value).map (fun v => (r.topic, v))) = some (es.map (fun e => (kafkaTopic c e, e.enc))) := by
  intro rs
  induction rs with
  | nil => intro es hh; cases es <;> simp [AllGood] at hh ⊢
  | cons r rs ih =>
    intro es hh
    cases es with
    | nil => simp [AllGood] at hh
    | cons e es =>
      simp only [AllGood] at hh
      simp [List.mapM_cons, read_good h hf r e.enc hh.1.2, ih es hh.2, hh.1.1]


structure KInv (c : KCfg) (a : KAcc) (done : List Ev) : Prop where
  np : a.panic = false
  fr : FrozenOk a.heap
  good : AllGood a.heap c a.recs done
  ord : a.recs.Pairwise (fun r s => r.value.hi ≤ s.value.lo)
  bound : ∀ r ∈ a.recs, r.value.hi ≤ a.heap.cur.length

theorem kinv_init (c : KCfg) (lim : Nat) : KInv c ⟨kafkaStart lim, [], false⟩ [] :=
  ⟨rfl, by intro a ha; simp [kafkaStart] at ha, by simp [AllGood], by simp, by simp⟩

theorem kinv_step (grow : Nat → Nat → Nat) (c : KCfg) (a : KAcc) (done : List Ev) (e : Ev)
    (hi : KInv c a done) (hroom : done.length < c.batchSize) :
    KInv c (kafkaStep grow c a e) (done ++ [e]) := by
  have hlen := allGood_length _ _ _ _ hi.good
  unfold kafkaStep
  rw [if_neg (by simp [hi.np])]
  simp only
  rw [if_pos (by omega)]
  have hcur := append_cur grow a.heap e.enc
  refine ⟨rfl, frozenOk_append grow _ _ hi.fr, ?_, ?_, ?_⟩
  · apply allGood_snoc _ _ _ _ _ _ (allGood_append grow c a.heap e.enc _ _ hi.good)
    refine ⟨rfl, ?_, ?_, ?_, ?_, ?_⟩
    · simp [hcur]
    · simp [KHeap.curId]
    · simp [hcur]
    · simp
    · intro x hx; simp [KHeap.curId] at hx
  · rw [List.pairwise_append]
    refine ⟨hi.ord, by simp, ?_⟩
    intro r hr s hs
    simp at hs; subst hs
    exact hi.bound r hr
  · intro r hr
    simp at hr
    rcases hr with hr | hr
    · have := hi.bound r hr; rw [hcur]; simp; omega
    · subst hr; simp

theorem kinv_foldl (grow : Nat → Nat → Nat) (c : KCfg) :
    ∀ (l : List Ev) (a : KAcc) (done : List Ev), KInv c a done → done.length + l.length ≤ c.batchSize →
      KInv c (l.foldl (kafkaStep grow c) a) (done ++ l) := by
  intro l
  induction l with
  | nil => intro a done h _; simpa using h
  | cons e es ih =>
    intro a done h hroom
    simp only [List.foldl_cons, List.length_cons] at hroom ⊢
    have := ih (kafkaStep grow c a e) (done ++ [e]) (kinv_step grow c a done e h (by omega)) (by simp; omega)
    simpa using this

/-! ### decoding the index name back out of the action line -/

/-- `s` is read by the JSON string decoder as `v` -/
def Dec (s v : Bytes) : Prop := ∀ r, strDecode (s ++ r) = (strDecode r).map (fun x => (v ++ x.1, x.2))

theorem dec_nil : Dec [] [] := by intro r; cases h : strDecode r <;> simp [h]

theorem dec_append {s t v w : Bytes} (hs : Dec s v) (ht : Dec t w) : Dec (s ++ t) (v ++ w) := by
  intro r
  rw [List.append_assoc, hs, ht]
  cases strDecode r <;> simp

theorem dec_single (b : UInt8) (hb : SafeByte b) : Dec [b] [b] := by
  obtain ⟨h1, h2, h3⟩ := hb
  intro r
  conv => lhs; simp only [List.singleton_append]; unfold strDecode
  split <;> simp_all
  intro hlt
  exact absurd hlt (by simpa [UInt8.not_lt] using h1)

theorem dec_of_safe (s : Bytes) (h : ∀ b ∈ s, SafeByte b) : Dec s s := by
  induction s with
  | nil => exact dec_nil
  | cons b bs ih =>
    have := dec_append (dec_single b (h b (by simp))) (ih (fun x hx => h x (by simp [hx])))
    simpa using this

theorem dec_esc2 (c : UInt8) (hc : c = 34 ∨ c = 92) : Dec [92, c] [c] := by
  intro r
  rcases hc with h | h <;> subst h <;> (conv => lhs; simp only [List.cons_append, List.nil_append]; unfold strDecode) <;>
    simp [unescapeChar]

theorem hex_dec : ∀ k, k < 32 →
    hexVal (hexDigit (UInt8.ofNat k >>> 4)) = some (k / 16) ∧ hexVal (hexDigit (UInt8.ofNat k &&& 15)) = some (k % 16) := by
  decide

theorem utf8_low : ∀ k, k < 32 → utf8 ((((0 * 16 + 0) * 16 + k / 16) * 16) + k % 16) = [UInt8.ofNat k] := by decide

theorem dec_escU (c : UInt8) (hc : c < 32) : Dec [92, 117, 48, 48, hexDigit (c >>> 4), hexDigit (c &&& 15)] [c] := by
  have hk : c.toNat < 32 := by simpa [UInt8.lt_iff_toNat_lt] using hc
  have hh := hex_dec c.toNat hk
  have hu := utf8_low c.toNat hk
  rw [UInt8.ofNat_toNat] at hh hu
  have h48 : hexVal 48 = some 0 := by decide
  intro r
  conv => lhs; simp only [List.cons_append, List.nil_append]; unfold strDecode
  simp only [h48, hh.1, hh.2]
  have hns : ¬ (0xD800 ≤ ((0 * 16 + 0) * 16 + c.toNat / 16) * 16 + c.toNat % 16 ∧
      ((0 * 16 + 0) * 16 + c.toNat / 16) * 16 + c.toNat % 16 < 0xE000) := by omega
  rw [if_neg hns, hu]

theorem dec_escapeIdx (v : Bytes) : Dec (escapeIdx v) v := by
  induction v with
  | nil => exact dec_nil
  | cons c cs ih =>
    unfold escapeIdx
    split
    · rename_i h
      exact dec_append (dec_esc2 c h) ih
    · split
      · rename_i h32
        exact dec_append (dec_escU c h32) ih
      · rename_i h1 h2
        have hs : SafeByte c :=
          ⟨by simpa [UInt8.not_lt] using h2, fun h => h1 (Or.inl h), fun h => h1 (Or.inr h)⟩
        exact dec_append (dec_single c hs) ih


theorem indexValue_dec (c : EsCfg) (e : Ev) (i : Nat) (s : Bytes)
    (ht : ∀ b ∈ c.time, SafeByte b) (h : indexValue true c e i = some s) :
    ∃ v, indexValue false c e i = some v ∧ Dec s v := by
  unfold indexValue at h ⊢
  split at h
  · simp at h
  · rename_i val hv
    simp only [hv]
    split at h
    · rename_i htime
      simp at h; subst h
      exact ⟨c.time, by simp [htime], dec_of_safe _ ht⟩
    · rename_i htime
      simp only [htime, if_false]
      split at h
      · rename_i raw hr
        simp at h; subst h
        exact ⟨_, by simp [hr], dec_escapeIdx _⟩
      · simp at h

theorem expandFormat_dec (c : EsCfg) (e : Ev) (ht : ∀ b ∈ c.time, SafeByte b) :
    ∀ (fmt : Bytes) (i : Nat) (out out' res : Bytes), (∀ b ∈ fmt, SafeByte b) →
      expandFormat true c e fmt i out = some res →
      ∃ x v, res = out ++ x ∧ Dec x v ∧ expandFormat false c e fmt i out' = some (out' ++ v) := by
  intro fmt
  induction fmt with
  | nil =>
    intro i out out' res _ h
    simp [expandFormat] at h
    exact ⟨[], [], by simp [h], dec_nil, by simp [expandFormat]⟩
  | cons ch rest ih =>
    intro i out out' res hf h
    have hrest : ∀ b ∈ rest, SafeByte b := fun b hb => hf b (by simp [hb])
    unfold expandFormat at h ⊢
    split at h
    · rename_i hne
      obtain ⟨x, v, hx, hd, hv⟩ := ih i (out ++ [ch]) (out' ++ [ch]) res hrest h
      refine ⟨[ch] ++ x, [ch] ++ v, by simp [hx], dec_append (dec_single ch (hf ch (by simp))) hd, ?_⟩
      simp [hne, hv]
    · rename_i heq
      split at h
      · simp at h
      · rename_i s hs
        obtain ⟨w, hw, hdw⟩ := indexValue_dec c e i s ht hs
        obtain ⟨x, v, hx, hd, hv⟩ := ih (i + 1) (out ++ s) (out' ++ w) res hrest h
        refine ⟨s ++ x, w ++ v, by simp [hx], dec_append hdw hd, ?_⟩
        simp [heq, hw, hv]

end FileD.Payload
