/-
  Helper lemmas for C03, part 7: sequence numbers in a pipeline with a single stream name. In every
  reachable state (truncations and crashes included) `job.lastEventSeq` is the counter of the job's
  pipeline stream, so every in-flight event of the source has a SeqID ≤ it: a truncation detected now
  makes every one of them stale (`SeqID ≤ ignoreEventsLE`).
-/
import FileD.Lemmas.FileRestartS
namespace FileD.FileRestart
open FileD FileD.SpecC06 FileD.SpecC03

structure SeqInv (st0 : Stream) (s : State) : Prop where
  /-- every in-flight event of a source is not younger than the last event its job read -/
  infl : ∀ e ∈ s.inflight, ∀ j, s.jobs e.ino = some j → e.seq ≤ j.lastSeq
  le : ∀ i j, s.jobs i = some j → j.lastSeq ≤ s.seqs i st0
  job : ∀ e ∈ s.inflight, (s.jobs e.ino).isSome

theorem seqInv_init (st0 : Stream) : SeqInv st0 init := by
  refine ⟨?_, ?_, ?_⟩ <;> simp [init]

theorem seqInv_inOne {cfg : Cfg} {st0 : Stream} (hst : ∀ d, cfg.streamOf d = st0) {i : Nat} {s : State}
    (l : Nat × Bytes) (h : SeqInv st0 s) : SeqInv st0 (inOne cfg i s l) := by
  unfold inOne
  split
  · exact h
  · rename_i j hj
    split
    · split
      · dsimp only
        simp only [hst]
        refine ⟨?_, ?_, ?_⟩
        · intro e he jk hk
          rcases List.mem_append.1 he with he | he
          · by_cases hei : e.ino = i
            · rw [hei] at hk; simp only [upd_same] at hk; cases hk
              have h1 := h.infl e he j (by rw [hei]; exact hj)
              have h2 := h.le i j hj
              simp; omega
            · simp only [upd_other _ _ hei] at hk; exact h.infl e he jk hk
          · simp at he; subst he
            simp only [upd_same] at hk; cases hk; simp
        · intro k jk hk
          by_cases hki : k = i
          · subst hki; simp only [upd_same] at hk; cases hk; simp
          · simp only [upd_other _ _ hki] at hk; simp [hki]; exact h.le k jk hk
        · intro e he
          rcases List.mem_append.1 he with he | he
          · by_cases hei : e.ino = i
            · simp [hei]
            · simp only [upd_other _ _ hei]; exact h.job e he
          · simp at he; subst he; simp
      · exact ⟨h.infl, h.le, h.job⟩
    · exact h

theorem seqInv_fold {cfg : Cfg} {st0 : Stream} (hst : ∀ d, cfg.streamOf d = st0) {i : Nat}
    (calls : List (Nat × Bytes)) {s : State} (h : SeqInv st0 s) :
    SeqInv st0 (calls.foldl (inOne cfg i) s) := by
  induction calls generalizing s with
  | nil => exact h
  | cons c cs ih => exact ih (seqInv_inOne hst c h)

/-- replacing a job by one with the same `lastSeq` -/
theorem seqInv_upd {st0 : Stream} {s : State} {i : Nat} {j jn : JobSt} (hj : s.jobs i = some j)
    (hl : jn.lastSeq = j.lastSeq) (h : SeqInv st0 s) :
    SeqInv st0 { s with jobs := upd s.jobs i (some jn) } := by
  refine ⟨?_, ?_, ?_⟩
  · intro e he jk hk
    by_cases hei : e.ino = i
    · rw [hei] at hk; simp only [upd_same] at hk; cases hk
      rw [hl]; exact h.infl e he j (by rw [hei]; exact hj)
    · simp only [upd_other _ _ hei] at hk; exact h.infl e he jk hk
  · intro k jk hk
    by_cases hki : k = i
    · subst hki; simp only [upd_same] at hk; cases hk; rw [hl]; exact h.le k j hj
    · simp only [upd_other _ _ hki] at hk; exact h.le k jk hk
  · intro e he
    by_cases hei : e.ino = i
    · simp [hei]
    · simp only [upd_other _ _ hei]; exact h.job e he

theorem seqInv_newJob {st0 : Stream} {s : State} {i : Nat} {jn : JobSt} (hj : s.jobs i = none)
    (hl : jn.lastSeq = 0) (h : SeqInv st0 s) :
    SeqInv st0 { s with jobs := upd s.jobs i (some jn) } := by
  have hne : ∀ e ∈ s.inflight, e.ino ≠ i := by
    intro e he hei
    have := h.job e he
    rw [hei, hj] at this; cases this
  refine ⟨?_, ?_, ?_⟩
  · intro e he jk hk
    simp only [upd_other _ _ (hne e he)] at hk; exact h.infl e he jk hk
  · intro k jk hk
    by_cases hki : k = i
    · subst hki; simp only [upd_same] at hk; cases hk; rw [hl]; exact Nat.zero_le _
    · simp only [upd_other _ _ hki] at hk; exact h.le k jk hk
  · intro e he
    simp only [upd_other _ _ (hne e he)]; exact h.job e he

theorem seqInv_drop {st0 : Stream} {s : State} (e : Ev) (h : SeqInv st0 s) :
    SeqInv st0 { s with inflight := s.inflight.filter (fun x => x ≠ e) } :=
  ⟨fun x hx => h.infl x (mem_filter_ne hx).1, h.le, fun x hx => h.job x (mem_filter_ne hx).1⟩

theorem seqInv_step {cfg : Cfg} {st0 : Stream} (hst : ∀ d, cfg.streamOf d = st0) {s s' : State} {op : Op}
    (h : SeqInv st0 s) (hs : stepS? cfg s op = some s') : SeqInv st0 s' := by
  cases op with
  | readTurn i reads =>
    simp only [stepS?] at hs
    split at hs
    · split at hs
      · rename_i f j hf hj
        split at hs
        · cases hs
          unfold readTurnS
          have hfold := seqInv_fold hst (i := i) (specLines reads.flatten j.w.curOffset j.w.tail) h
          dsimp only
          split
          · exact hfold
          · rename_i j1 hj1
            refine seqInv_upd hj1 ?_ hfold
            split <;> simp [truncateJob]
        · cases hs
      · cases hs
    · cases hs
  | discover i =>
    simp only [stepS?, step?] at hs
    split at hs
    · split at hs
      · rename_i f hf hj
        cases hs
        unfold addJob
        split
        · split
          · exact seqInv_newJob hj rfl h
          · split
            · exact ⟨h.infl, h.le, h.job⟩
            · exact seqInv_newJob hj rfl h
        · exact seqInv_newJob hj rfl h
      · cases hs
    · cases hs
  | commit e =>
    simp only [stepS?, step?] at hs
    split at hs
    · cases hs
      unfold commit
      split
      · exact seqInv_drop e h
      · rename_i j hj
        split
        · exact seqInv_drop e h
        · split
          · split
            · exact ⟨h.infl, h.le, h.job⟩
            · exact seqInv_upd (s := { s with inflight := s.inflight.filter (fun x => x ≠ e) }) hj rfl (seqInv_drop e h)
          · split
            · exact ⟨h.infl, h.le, h.job⟩
            · exact seqInv_upd (s := { s with inflight := s.inflight.filter (fun x => x ≠ e) }) hj rfl (seqInv_drop e h)
    · cases hs
  | crash =>
    simp only [stepS?, step?] at hs
    split at hs
    · cases hs; refine ⟨?_, ?_, ?_⟩ <;> simp
    · cases hs
  | create i nm => simp only [stepS?, step?] at hs; split at hs <;> cases hs; exact ⟨h.infl, h.le, h.job⟩
  | append i b =>
    simp only [stepS?, step?] at hs
    split at hs
    · split at hs <;> cases hs; exact ⟨h.infl, h.le, h.job⟩
    · cases hs
  | appendPartial i b => simp only [stepS?, step?] at hs; split at hs <;> cases hs; exact ⟨h.infl, h.le, h.job⟩
  | renameRotate i nm k => simp only [stepS?, step?] at hs; split at hs <;> cases hs; exact ⟨h.infl, h.le, h.job⟩
  | truncate i => simp only [stepS?, step?] at hs; split at hs <;> cases hs; exact ⟨h.infl, h.le, h.job⟩
  | scanDone => simp only [stepS?, step?] at hs; split at hs <;> cases hs; exact ⟨h.infl, h.le, h.job⟩
  | deliver e => simp only [stepS?, step?] at hs; split at hs <;> cases hs; exact ⟨h.infl, h.le, h.job⟩
  | ack e => simp only [stepS?, step?] at hs; split at hs <;> cases hs; exact ⟨h.infl, h.le, h.job⟩
  | save i =>
    simp only [stepS?, step?] at hs
    split at hs
    · split at hs <;> cases hs; exact ⟨h.infl, h.le, h.job⟩
    · cases hs
  | saveAbsent i =>
    simp only [stepS?, step?] at hs
    split at hs
    · split at hs <;> cases hs; exact ⟨h.infl, h.le, h.job⟩
    · cases hs
  | restart => simp only [stepS?, step?] at hs; split at hs <;> cases hs; exact ⟨h.infl, h.le, h.job⟩
  | forget i =>
    simp only [stepS?, step?] at hs
    split at hs
    · split at hs
      · split at hs
        · rename_i hc
          cases hs
          refine ⟨?_, ?_, ?_⟩
          · intro e he jk hk
            simp only [upd_other _ _ (hc.2 e he)] at hk; exact h.infl e he jk hk
          · intro k jk hk
            by_cases hki : k = i
            · subst hki; simp at hk
            · simp only [upd_other _ _ hki] at hk; exact h.le k jk hk
          · intro e he
            simp only [upd_other _ _ (hc.2 e he)]; exact h.job e he
        · cases hs
      · cases hs
    · cases hs

theorem seqInv_run {cfg : Cfg} {st0 : Stream} (hst : ∀ d, cfg.streamOf d = st0) (ops : List Op) {s s' : State}
    (hk : SkipInv s) (h : SeqInv st0 s) (hr : TS.run (step? cfg) s ops = some s') : SeqInv st0 s' ∧ SkipInv s' := by
  induction ops generalizing s with
  | nil => simp [TS.run] at hr; subst hr; exact ⟨h, hk⟩
  | cons op ops ih =>
    simp only [TS.run] at hr
    rw [step_eq_S hk op] at hr
    cases hso : stepS? cfg s op with
    | none => simp [hso] at hr
    | some s1 =>
      simp [hso] at hr
      exact ih (skipInv_step hk hso) (seqInv_step hst h hso) hr

end FileD.FileRestart

namespace FileD.FileRestart
open FileD FileD.SpecC06 FileD.SpecC03

theorem skipInv_run {cfg : Cfg} (ops : List Op) {s s' : State} (hk : SkipInv s)
    (hr : TS.run (step? cfg) s ops = some s') : SkipInv s' := by
  induction ops generalizing s with
  | nil => simp [TS.run] at hr; subst hr; exact hk
  | cons op ops ih =>
    simp only [TS.run] at hr
    rw [step_eq_S hk op] at hr
    cases hso : stepS? cfg s op with
    | none => simp [hso] at hr
    | some s1 => simp [hso] at hr; exact ih (skipInv_step hk hso) hr

/-- the state after `truncateJob`: job `i` starts over at 0 with an empty tail, zeroed offsets and
    `ignoreEventsLE = lastEventSeq` -/
def afterDetection (s : State) (i : Nat) (j : JobSt) : State :=
  { s with jobs := upd s.jobs i (some ⟨⟨0, [], false⟩, j.offsets.map (fun p => (p.1, 0)), j.lastSeq, j.lastSeq⟩) }

/-- `processEOF` on a job whose offset lies beyond the end of its file -/
theorem detect_truncation {cfg : Cfg} {s : State} {i : Nat} {f : FileSt} {j : JobSt}
    (hr : running s = true) (hf : s.files i = some f) (hj : s.jobs i = some j) (hskip : j.w.skip = false)
    (htr : f.content.length < j.w.curOffset) :
    step? cfg s (.readTurn i []) = some (afterDetection s i j) := by
  have hpre : ([] : List Bytes).flatten <+: f.content.drop j.w.curOffset := by simp
  simp only [step?, hr, hf, hj, hpre, ↓reduceIte]
  unfold readTurn
  rw [turn_lit j.w hskip []]
  simp [specLines, hj, htr, truncateJob, afterDetection]

end FileD.FileRestart
