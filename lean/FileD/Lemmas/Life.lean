/- Inductive invariant of the event life-cycle model (Model/Life.lean). -/
import FileD.Model.Life
import FileD.Lemmas.Pool
namespace FileD.Life

def b2n (b : Bool) : Nat := if b then 1 else 0

/-- per-event facts: `back` was called iff the event is done; the finalize words seen so far -/
def EvOK (e : Ev) : Prop :=
  match e.pc with
  | .fresh | .got => e.backs = 0 ∧ e.fins = []
  | .streamed | .taken => e.backs = 0 ∧ e.fins = [] ∧ e.kind ≠ .decErr ∧ e.kind ≠ .refused
  | .held => e.backs = 0 ∧ e.fins = [0] ∧ e.kind = .hold
  | .resumed => e.backs = 0 ∧ ((e.kind = .hold ∧ e.fins = [0]) ∨ (e.kind = .split ∧ e.fins = []))
  | .atOutput => e.backs = 0 ∧ ((e.kind = .pass ∧ e.fins = []) ∨ (e.kind = .hold ∧ e.fins = [0])
      ∨ (e.kind = .split ∧ e.fins = []))
  | .done => e.backs = 1 ∧ e.fins = expectedFins e.kind

structure LInv (s : St) : Prop where
  ctr : s.inUse = s.evs.countP live
  capb : s.inUse ≤ s.cap
  ev : ∀ (i : Nat) (e : Ev), s.evs[i]? = some e → EvOK e
  /-- an event being worked on or held keeps a processor on the stream -/
  att : 0 < s.evs.countP needsProc → s.attached = true

theorem inv_init (cap : Nat) (kinds : List Kind) : LInv (init cap kinds) := by
  refine ⟨?_, by simp [init], ?_, fun _ => rfl⟩
  · simp only [init, List.countP_map]
    symm; rw [List.countP_eq_zero]; intro k _; simp [live, Function.comp]
  · intro i e h
    simp [init] at h
    obtain ⟨k, _, rfl⟩ := h
    simp [EvOK]

theorem inv_setEv (s : St) (i : Nat) (e e' : Ev) (iu : Nat) (h : LInv s) (hi : s.evs[i]? = some e)
    (hok : EvOK e') (hctr : iu + b2n (live e) = s.inUse + b2n (live e')) (hcap : iu ≤ s.cap)
    (hatt : needsProc e' = true → needsProc e = true ∨ s.attached = true) :
    LInv { s with inUse := iu, evs := s.evs.set i e' } := by
  have c := FileD.Pool.countP_set_of_get live s.evs i e e' hi
  have cn := FileD.Pool.countP_set_of_get needsProc s.evs i e e' hi
  have h0 := h.ctr
  refine ⟨?_, hcap, ?_, ?_⟩
  · simp only [b2n] at *; omega
  rotate_left
  · intro hpos
    simp only [] at hpos ⊢
    cases hn' : needsProc e'
    · exact h.att (by simp [hn'] at cn; omega)
    · rcases hatt hn' with hn | ha
      · exact h.att (FileD.Pool.countP_pos_of_get needsProc s.evs i e hi hn)
      · exact ha
  · intro j ej hj
    simp only [] at hj
    by_cases e1 : i = j
    · subst e1
      rw [FileD.Pool.get_set_self s.evs i e e' hi] at hj
      simp at hj; subst hj; exact hok
    · rw [List.getElem?_set_ne e1] at hj
      exact h.ev j ej hj

theorem pos_of_live (s : St) (h : LInv s) (i : Nat) (e : Ev) (hi : s.evs[i]? = some e) (hl : live e = true) :
    0 < s.inUse := by
  have := FileD.Pool.countP_pos_of_get live s.evs i e hi hl
  have := h.ctr; omega

/-- the new pc does not need the processor -/
macro "np_tac" : tactic => `(tactic| (intro hn; simp [needsProc] at hn))

theorem step_inv (s s' : St) (op : Op) (h : LInv s) (hs : step? s op = some s') : LInv s' := by
  have hcap := h.capb
  cases op with
  | finOther => simp [step?] at hs; subst hs; exact h
  | attachProc => simp [step?] at hs; subst hs; exact ⟨h.ctr, h.capb, h.ev, fun _ => rfl⟩
  | detachProc =>
    simp only [step?] at hs; split at hs <;> simp at hs; subst hs; rename_i hz
    exact ⟨h.ctr, h.capb, h.ev, fun hp => by simp only [] at hp; omega⟩
  | get i =>
    simp only [step?] at hs; split at hs
    · rename_i e hi
      split at hs <;> simp at hs; subst hs; rename_i hc
      have hok := h.ev i e hi
      exact inv_setEv s i e _ _ h hi (by simp [EvOK, hc.1] at hok ⊢; exact hok)
        (by simp [b2n, live, hc.1]) (by simp only []; omega) (by np_tac)
    · simp at hs
  | decodeErr i =>
    simp only [step?] at hs; split at hs
    · rename_i e hi
      split at hs <;> simp at hs; subst hs; rename_i hc
      have hok := h.ev i e hi
      have := pos_of_live s h i e hi (by simp [live, hc.1])
      exact inv_setEv s i e _ _ h hi (by simp [EvOK, hc.1] at hok ⊢; simp [hok, hc.2, expectedFins])
        (by simp [b2n, live, hc.1]; omega) (by simp only []; omega) (by np_tac)
    · simp at hs
  | refuse i =>
    simp only [step?] at hs; split at hs
    · rename_i e hi
      split at hs <;> simp at hs; subst hs; rename_i hc
      have hok := h.ev i e hi
      have := pos_of_live s h i e hi (by simp [live, hc.1])
      exact inv_setEv s i e _ _ h hi (by simp [EvOK, hc.1] at hok ⊢; simp [hok, hc.2, expectedFins])
        (by simp [b2n, live, hc.1]; omega) (by simp only []; omega) (by np_tac)
    · simp at hs
  | stream i =>
    simp only [step?] at hs; split at hs
    · rename_i e hi
      split at hs <;> simp at hs; subst hs; rename_i hc
      have hok := h.ev i e hi
      exact inv_setEv s i e _ _ h hi (by simp [EvOK, hc.1] at hok ⊢; simp [hok, hc.2])
        (by simp [b2n, live, hc.1]) hcap (by np_tac)
    · simp at hs
  | take i =>
    simp only [step?] at hs; split at hs
    · rename_i e hi
      split at hs <;> simp at hs; subst hs; rename_i hc
      have hok := h.ev i e hi
      exact inv_setEv s i e _ _ h hi (by simp [EvOK, hc.1] at hok ⊢; simp [hok])
        (by simp [b2n, live, hc.1]) hcap (fun _ => Or.inr hc.2)
    · simp at hs
  | discard i =>
    simp only [step?] at hs; split at hs
    · rename_i e hi
      split at hs <;> simp at hs; subst hs; rename_i hc
      have hok := h.ev i e hi
      have := pos_of_live s h i e hi (by simp [live, hc.1])
      exact inv_setEv s i e _ _ h hi (by simp [EvOK, hc.1] at hok ⊢; simp [hok, hc.2, expectedFins])
        (by simp [b2n, live, hc.1]; omega) (by simp only []; omega) (by np_tac)
    · simp at hs
  | hold i =>
    simp only [step?] at hs; split at hs
    · rename_i e hi
      split at hs <;> simp at hs; subst hs; rename_i hc
      have hok := h.ev i e hi
      exact inv_setEv s i e _ _ h hi (by simp [EvOK, hc.1] at hok ⊢; simp [hok, hc.2])
        (by simp [b2n, live, hc.1]) hcap (fun _ => Or.inl (by simp [needsProc, hc.1]))
    · simp at hs
  | propagate i =>
    simp only [step?] at hs; split at hs
    · rename_i e hi
      split at hs <;> simp at hs; subst hs; rename_i hc
      have hok := h.ev i e hi
      exact inv_setEv s i e _ _ h hi (by simp [EvOK, hc.1] at hok ⊢; simp [hok])
        (by simp [b2n, live, hc.1]) hcap (by np_tac)
    · simp at hs
  | spawn i =>
    simp only [step?] at hs; split at hs
    · rename_i e hi
      split at hs <;> simp at hs; subst hs; rename_i hc
      have hok := h.ev i e hi
      exact inv_setEv s i e _ _ h hi (by simp [EvOK, hc.1] at hok ⊢; simp [hok, hc.2])
        (by simp [b2n, live, hc.1]) hcap (by np_tac)
    · simp at hs
  | out i =>
    simp only [step?] at hs; split at hs
    · rename_i e hi
      split at hs <;> simp at hs; subst hs; rename_i hc
      have hok := h.ev i e hi
      rcases hc with hc | hc
      · exact inv_setEv s i e _ _ h hi (by simp [EvOK, hc.1] at hok ⊢; simp [hok, hc.2])
          (by simp [b2n, live, hc.1]) hcap (by np_tac)
      · exact inv_setEv s i e _ _ h hi
          (by simp [EvOK, hc] at hok ⊢; rcases hok.2 with hk | hk <;> simp [hok.1, hk.1, hk.2])
          (by simp [b2n, live, hc]) hcap (by np_tac)
    · simp at hs
  | commit i =>
    simp only [step?] at hs; split at hs
    · rename_i e hi
      split at hs <;> simp at hs; subst hs; rename_i hc
      have hok := h.ev i e hi
      have := pos_of_live s h i e hi (by simp [live, hc])
      refine inv_setEv s i e _ _ h hi ?_ (by simp [b2n, live, hc]; omega) (by simp only []; omega) (by np_tac)
      simp [EvOK, hc] at hok ⊢
      rcases hok.2 with hk | hk | hk <;> simp [hok.1, hk.1, hk.2, expectedFins]
    · simp at hs

theorem inv_reachable (cap : Nat) (kinds : List Kind) (s : St)
    (h : TS.Reachable step? (init cap kinds) s) : LInv s :=
  TS.invariant_reachable step? LInv (init cap kinds) (inv_init cap kinds)
    (fun s op s' => step_inv s s' op) s h

end FileD.Life
