/-
  Helper lemmas for the pool models (Model/Pool.lean): counting readers by program counter,
  and the inductive invariant of the low-memory pool.
-/
import FileD.Model.Pool
import FileD.Prelude.TS
namespace FileD.Pool

/-- replacing element `i` (which was `a`) by `b` moves one unit of every count from `a` to `b` -/
theorem countP_set_of_get {α} (p : α → Bool) :
    ∀ (l : List α) (i : Nat) (a b : α), l[i]? = some a →
      (l.set i b).countP p + (if p a then 1 else 0) = l.countP p + (if p b then 1 else 0)
  | [], i, a, b, h => by simp at h
  | x :: xs, 0, a, b, h => by
    simp at h; subst h
    simp only [List.set_cons_zero, List.countP_cons]
    omega
  | x :: xs, i + 1, a, b, h => by
    simp at h
    have := countP_set_of_get p xs i a b h
    simp only [List.set_cons_succ, List.countP_cons]
    omega

theorem countP_pos_of_get {α} (p : α → Bool) :
    ∀ (l : List α) (i : Nat) (a : α), l[i]? = some a → p a = true → 0 < l.countP p
  | [], i, a, h, _ => by simp at h
  | x :: xs, 0, a, h, hp => by
    simp at h; subst h; simp [hp]
  | x :: xs, i + 1, a, h, hp => by
    simp at h
    have := countP_pos_of_get p xs i a h hp
    simp only [List.countP_cons]; omega

theorem get_set_self {α} (l : List α) (i : Nat) (a b : α) (h : l[i]? = some a) :
    (l.set i b)[i]? = some b := by
  have : i < l.length := by
    rcases Nat.lt_or_ge i l.length with h' | h'
    · exact h'
    · simp [List.getElem?_eq_none h'] at h
  simp [this]

namespace LM

def isHold : Pc → Bool | .holding => true | _ => false
def isOver : Pc → Bool | .over => true | _ => false
def isSW : Pc → Bool
  | .wantLock | .locked | .willWait | .parked | .woken | .unlocking | .postUnlock => true
  | _ => false
def hasMu : Pc → Bool | .locked | .willWait | .unlocking => true | _ => false

theorem isHold_wake (pc : Pc) : isHold (wake pc) = isHold pc := by cases pc <;> rfl
theorem isOver_wake (pc : Pc) : isOver (wake pc) = isOver pc := by cases pc <;> rfl
theorem isSW_wake (pc : Pc) : isSW (wake pc) = isSW pc := by cases pc <;> rfl
theorem hasMu_wake (pc : Pc) : hasMu (wake pc) = hasMu pc := by cases pc <;> rfl

theorem cnt_broadcast (s : St) (p : Pc → Bool) (h : ∀ pc, p (wake pc) = p pc) :
    cnt (broadcast s) p = cnt s p := by
  simp only [cnt, broadcast, List.countP_map]
  congr 1; funext pc; simp [Function.comp, h]

/-- effect of one pc update on a count -/
theorem cnt_setPc (s : St) (r : Nat) (old new : Pc) (p : Pc → Bool) (h : s.pcs[r]? = some old) :
    cnt (setPc s r new) p + (if p old then 1 else 0) = cnt s p + (if p new then 1 else 0) := by
  simpa [cnt, setPc] using countP_set_of_get p s.pcs r old new h

/-- the inductive invariant of the low-memory pool -/
structure LInv (c : Cfg) (s : St) : Prop where
  ctr : s.inUse = cnt s isHold + cnt s isOver
  hist : s.gets = s.backs + cnt s isHold
  capb : cnt s isHold ≤ c.cap
  sw : s.sw = cnt s isSW
  mu1 : ∀ r pc, s.pcs[r]? = some pc → hasMu pc = true → s.mu = some r

theorem inv_init (c : Cfg) (n : Nat) : LInv c (init n) := by
  constructor <;> simp [init, cnt, isHold, isOver, isSW, hasMu, List.countP_replicate]
  intro r pc h; simp [List.getElem?_replicate] at h
  rw [← h.2]


theorem mu1_setPc (s : St) (r : Nat) (new : Pc) (m : Option Nat)
    (h : ∀ q pc, s.pcs[q]? = some pc → hasMu pc = true → m = some q ∨ q = r)
    (hn : hasMu new = true → m = some r) :
    ∀ q pc, (s.pcs.set r new)[q]? = some pc → hasMu pc = true → m = some q := by
  intro q pc hq hp
  rw [List.getElem?_set] at hq
  split at hq
  · rename_i heq; subst heq
    split at hq
    · simp at hq; subst hq; exact hn hp
    · simp at hq
  · rename_i hne
    rcases h q pc hq hp with h' | h'
    · exact h'
    · exact absurd h'.symm hne

def b2n (b : Bool) : Nat := if b then 1 else 0

/-- generic preservation: one reader moves `old → new`, counters change accordingly -/
theorem inv_upd (c : Cfg) (s : St) (r : Nat) (old new : Pc) (iu w g b : Nat) (m : Option Nat) (ha : Bool)
    (h : LInv c s) (hpc : s.pcs[r]? = some old)
    (hctr : iu + b2n (isHold old) + b2n (isOver old) = s.inUse + b2n (isHold new) + b2n (isOver new))
    (hhist : g + s.backs + b2n (isHold old) = s.gets + b + b2n (isHold new))
    (hcap : isHold new = true → isHold old = false → s.inUse + 1 ≤ c.cap)
    (hsw : w + b2n (isSW old) = s.sw + b2n (isSW new))
    (hmu : ∀ q pc, s.pcs[q]? = some pc → hasMu pc = true → m = some q ∨ q = r)
    (hmn : hasMu new = true → m = some r) :
    LInv c { inUse := iu, sw := w, mu := m, pcs := s.pcs.set r new, hbArmed := ha, gets := g, backs := b } := by
  obtain ⟨ctr, hist, capb, sw, mu1⟩ := h
  have e1 := countP_set_of_get isHold s.pcs r old new hpc
  have e2 := countP_set_of_get isOver s.pcs r old new hpc
  have e3 := countP_set_of_get isSW s.pcs r old new hpc
  simp only [cnt] at ctr hist capb sw
  refine ⟨?_, ?_, ?_, ?_, ?_⟩
  · simp only [cnt, b2n] at *; omega
  · simp only [cnt, b2n] at *; omega
  · simp only [cnt, b2n] at *
    cases hn : isHold new <;> cases ho : isHold old <;> simp [hn, ho] at e1 hcap <;> omega
  · simp only [cnt, b2n] at *; omega
  · exact mu1_setPc s r new m hmu hmn

theorem step_inv (c : Cfg) (s s' : St) (op : Op) (h : LInv c s) (hs : step? c s op = some s') :
    LInv c s' := by
  have mu1 := h.mu1
  cases op with
  | hbRead => simp [step?] at hs; subst hs; exact ⟨h.ctr, h.hist, h.capb, h.sw, h.mu1⟩
  | mark r => simp only [step?] at hs; split at hs <;> simp at hs; subst hs; exact h
  | hbFire =>
    obtain ⟨ctr, hist, capb, sw, mu1⟩ := h
    simp [step?] at hs; subst hs
    split
    · refine ⟨?_, ?_, ?_, ?_, ?_⟩
      · show s.inUse = cnt (broadcast s) isHold + cnt (broadcast s) isOver
        rw [cnt_broadcast _ _ isHold_wake, cnt_broadcast _ _ isOver_wake]; exact ctr
      · show s.gets = s.backs + cnt (broadcast s) isHold
        rw [cnt_broadcast _ _ isHold_wake]; exact hist
      · show cnt (broadcast s) isHold ≤ c.cap
        rw [cnt_broadcast _ _ isHold_wake]; exact capb
      · show s.sw = cnt (broadcast s) isSW
        rw [cnt_broadcast _ _ isSW_wake]; exact sw
      · intro r pc hr hp
        simp only [broadcast, List.getElem?_map] at hr
        cases hq : s.pcs[r]? with
        | none => simp [hq] at hr
        | some pc0 =>
          simp [hq] at hr; subst hr
          rw [hasMu_wake] at hp
          exact mu1 r pc0 hq hp
    · exact ⟨ctr, hist, capb, sw, mu1⟩
  | bBcast r =>
    obtain ⟨ctr, hist, capb, sw, mu1⟩ := h
    simp only [step?] at hs
    split at hs
    · rename_i hpc
      simp at hs; subst hs
      have e1 := cnt_setPc s r .backing .idle isHold hpc
      have e2 := cnt_setPc s r .backing .idle isOver hpc
      have e3 := cnt_setPc s r .backing .idle isSW hpc
      simp [isHold, isOver, isSW] at e1 e2 e3
      refine ⟨?_, ?_, ?_, ?_, ?_⟩
      · show s.inUse = cnt (broadcast (setPc s r .idle)) isHold + cnt (broadcast (setPc s r .idle)) isOver
        rw [cnt_broadcast _ _ isHold_wake, cnt_broadcast _ _ isOver_wake, e1, e2]; exact ctr
      · show s.gets = s.backs + cnt (broadcast (setPc s r .idle)) isHold
        rw [cnt_broadcast _ _ isHold_wake, e1]; exact hist
      · show cnt (broadcast (setPc s r .idle)) isHold ≤ c.cap
        rw [cnt_broadcast _ _ isHold_wake, e1]; exact capb
      · show s.sw = cnt (broadcast (setPc s r .idle)) isSW
        rw [cnt_broadcast _ _ isSW_wake, e3]; exact sw
      · intro q pc hr hp
        simp only [broadcast, setPc, List.getElem?_map] at hr
        cases hq : (s.pcs.set r Pc.idle)[q]? with
        | none => simp [hq] at hr
        | some pc0 =>
          simp [hq] at hr; subst hr
          rw [hasMu_wake] at hp
          exact mu1_setPc s r .idle s.mu (fun q pc a b => Or.inl (mu1 q pc a b)) (by simp [hasMu]) q pc0 hq hp
    · simp at hs
  | start r =>
    simp only [step?] at hs; split at hs <;> simp at hs; subst hs; rename_i hpc
    exact inv_upd c s r .idle .want _ _ _ _ _ _ h hpc (by simp [b2n, isHold, isOver]) (by simp [b2n, isHold])
      (by simp [isHold]) (by simp [b2n, isSW]) (fun q pc a b => Or.inl (mu1 q pc a b)) (by simp [hasMu])
  | inc r =>
    simp only [step?] at hs; split at hs
    · rename_i hpc
      split at hs <;> simp at hs <;> subst hs
      · rename_i hc
        exact inv_upd c s r .want .holding _ _ _ _ _ _ h hpc (by simp [b2n, isHold, isOver]) (by simp [b2n, isHold]; omega)
          (fun _ _ => hc) (by simp [b2n, isSW]) (fun q pc a b => Or.inl (mu1 q pc a b)) (by simp [hasMu])
      · exact inv_upd c s r .want .over _ _ _ _ _ _ h hpc (by simp [b2n, isHold, isOver]) (by simp [b2n, isHold])
          (by simp [isHold]) (by simp [b2n, isSW]) (fun q pc a b => Or.inl (mu1 q pc a b)) (by simp [hasMu])
    · simp at hs
  | dec r =>
    simp only [step?] at hs; split at hs <;> simp at hs; subst hs; rename_i hpc
    have hpos : 0 < s.inUse := by
      have := countP_pos_of_get isOver s.pcs r .over hpc rfl
      have := h.ctr; simp only [cnt] at this; omega
    exact inv_upd c s r .over .slow _ _ _ _ _ _ h hpc (by simp [b2n, isHold, isOver]; omega) (by simp [b2n, isHold])
      (by simp [isHold]) (by simp [b2n, isSW]) (fun q pc a b => Or.inl (mu1 q pc a b)) (by simp [hasMu])
  | swInc r =>
    simp only [step?] at hs; split at hs <;> simp at hs; subst hs; rename_i hpc
    exact inv_upd c s r .slow .wantLock _ _ _ _ _ _ h hpc (by simp [b2n, isHold, isOver]) (by simp [b2n, isHold])
      (by simp [isHold]) (by simp [b2n, isSW]) (fun q pc a b => Or.inl (mu1 q pc a b)) (by simp [hasMu])
  | lock r =>
    simp only [step?] at hs; split at hs <;> simp at hs; subst hs; rename_i hpc
    exact inv_upd c s r .wantLock .locked _ _ _ _ _ _ h hpc.1 (by simp [b2n, isHold, isOver]) (by simp [b2n, isHold])
      (by simp [isHold]) (by simp [b2n, isSW])
      (fun q pc a b => by have := mu1 q pc a b; rw [hpc.2] at this; simp at this) (by simp [hasMu])
  | check r =>
    simp only [step?] at hs; split at hs <;> simp at hs; subst hs; rename_i hpc
    have hm : s.mu = some r := mu1 r .locked hpc rfl
    split
    · exact inv_upd c s r .locked .unlocking _ _ _ _ _ _ h hpc (by simp [b2n, isHold, isOver]) (by simp [b2n, isHold])
        (by simp [isHold]) (by simp [b2n, isSW]) (fun q pc a b => Or.inl (mu1 q pc a b)) (fun _ => hm)
    · exact inv_upd c s r .locked .willWait _ _ _ _ _ _ h hpc (by simp [b2n, isHold, isOver]) (by simp [b2n, isHold])
        (by simp [isHold]) (by simp [b2n, isSW]) (fun q pc a b => Or.inl (mu1 q pc a b)) (fun _ => hm)
  | waitEnq r =>
    simp only [step?] at hs; split at hs <;> simp at hs; subst hs; rename_i hpc
    have hm : s.mu = some r := mu1 r .willWait hpc rfl
    exact inv_upd c s r .willWait .parked _ _ _ _ _ _ h hpc (by simp [b2n, isHold, isOver]) (by simp [b2n, isHold])
      (by simp [isHold]) (by simp [b2n, isSW])
      (fun q pc a b => by have := mu1 q pc a b; rw [hm] at this; simp at this; exact Or.inr this.symm) (by simp [hasMu])
  | relock r =>
    simp only [step?] at hs; split at hs <;> simp at hs; subst hs; rename_i hpc
    exact inv_upd c s r .woken .unlocking _ _ _ _ _ _ h hpc.1 (by simp [b2n, isHold, isOver]) (by simp [b2n, isHold])
      (by simp [isHold]) (by simp [b2n, isSW])
      (fun q pc a b => by have := mu1 q pc a b; rw [hpc.2] at this; simp at this) (by simp [hasMu])
  | unlock r =>
    simp only [step?] at hs; split at hs <;> simp at hs; subst hs; rename_i hpc
    have hm : s.mu = some r := mu1 r .unlocking hpc rfl
    exact inv_upd c s r .unlocking .postUnlock _ _ _ _ _ _ h hpc (by simp [b2n, isHold, isOver]) (by simp [b2n, isHold])
      (by simp [isHold]) (by simp [b2n, isSW])
      (fun q pc a b => by have := mu1 q pc a b; rw [hm] at this; simp at this; exact Or.inr this.symm) (by simp [hasMu])
  | swDec r =>
    simp only [step?] at hs; split at hs <;> simp at hs; subst hs; rename_i hpc
    have hpos : 0 < s.sw := by
      have := countP_pos_of_get isSW s.pcs r .postUnlock hpc rfl
      have := h.sw; simp only [cnt] at this; omega
    exact inv_upd c s r .postUnlock .want _ _ _ _ _ _ h hpc (by simp [b2n, isHold, isOver]) (by simp [b2n, isHold])
      (by simp [isHold]) (by simp [b2n, isSW]; omega) (fun q pc a b => Or.inl (mu1 q pc a b)) (by simp [hasMu])
  | bDec r =>
    simp only [step?] at hs; split at hs <;> simp at hs; subst hs; rename_i hpc
    have hpos : 0 < s.inUse := by
      have := countP_pos_of_get isHold s.pcs r .holding hpc rfl
      have := h.ctr; simp only [cnt] at this; omega
    exact inv_upd c s r .holding .backing _ _ _ _ _ _ h hpc (by simp [b2n, isHold, isOver]; omega) (by simp [b2n, isHold]; omega)
      (by simp [isHold]) (by simp [b2n, isSW]) (fun q pc a b => Or.inl (mu1 q pc a b)) (by simp [hasMu])

theorem inv_reachable (c : Cfg) (n : Nat) (s : St) (h : TS.Reachable (step? c) (init n) s) : LInv c s :=
  TS.invariant_reachable (step? c) (LInv c) (init n) (inv_init c n) (fun s op s' => step_inv c s s' op) s h

end LM
end FileD.Pool
