/-
  Helper lemmas for C20, matchrule part: the size shortcuts of `(*Rule).match` (early return on
  `minValueSize`, cut to `maxValueSize`) do not change the result — it is "some value is a
  prefix / suffix / substring of the data".
-/
import FileD.Model.MatchRule
import FileD.Model.Antispam
import FileD.Spec.C20
namespace FileD.MatchRule
open FileD

theorem infixB_iff (v d : Bytes) : infixB v d = true ↔ v <:+: d := by
  induction d with
  | nil =>
    simp only [infixB, List.isPrefixOf_iff_prefix]
    constructor
    · intro h; exact h.isInfix
    · intro h; have := List.infix_nil.mp h; subst this; exact List.prefix_refl _
  | cons x xs ih =>
    simp only [infixB, Bool.or_eq_true, List.isPrefixOf_iff_prefix, ih, List.infix_cons_iff]

theorem infixB_length {v d : Bytes} (h : infixB v d = true) : v.length ≤ d.length :=
  ((infixB_iff v d).mp h).length_le

theorem foldl_min_le (vs : List Bytes) (m : Nat) :
    vs.foldl (fun m x => if x.length < m then x.length else m) m ≤ m ∧
    ∀ v ∈ vs, vs.foldl (fun m x => if x.length < m then x.length else m) m ≤ v.length := by
  induction vs generalizing m with
  | nil => simp
  | cons a as ih =>
    simp only [List.foldl_cons, List.mem_cons, forall_eq_or_imp]
    have h := ih (if a.length < m then a.length else m)
    by_cases hc : a.length < m
    · simp only [hc, ↓reduceIte] at h ⊢
      exact ⟨by have := h.1; omega, by have := h.1; omega, h.2⟩
    · simp only [hc, ↓reduceIte] at h ⊢
      exact ⟨by have := h.1; omega, by have := h.1; omega, h.2⟩

theorem minLen_le {vs : List Bytes} {v : Bytes} (h : v ∈ vs) : minLen vs ≤ v.length := by
  cases vs with
  | nil => cases h
  | cons a as =>
    simp only [minLen]
    rcases List.mem_cons.mp h with h | h
    · subst h; exact (foldl_min_le as _).1
    · exact (foldl_min_le as _).2 v h

theorem foldl_max_ge (vs : List Bytes) (m : Nat) :
    m ≤ vs.foldl (fun m x => if x.length > m then x.length else m) m ∧
    ∀ v ∈ vs, v.length ≤ vs.foldl (fun m x => if x.length > m then x.length else m) m := by
  induction vs generalizing m with
  | nil => simp
  | cons a as ih =>
    simp only [List.foldl_cons, List.mem_cons, forall_eq_or_imp]
    have h := ih (if a.length > m then a.length else m)
    by_cases hc : a.length > m
    · simp only [hc, ↓reduceIte] at h ⊢
      exact ⟨by have := h.1; omega, by have := h.1; omega, h.2⟩
    · simp only [hc, ↓reduceIte] at h ⊢
      exact ⟨by have := h.1; omega, by have := h.1; omega, h.2⟩

theorem le_maxLen {vs : List Bytes} {v : Bytes} (h : v ∈ vs) : v.length ≤ maxLen vs := by
  cases vs with
  | nil => cases h
  | cons a as =>
    simp only [maxLen]
    rcases List.mem_cons.mp h with h | h
    · subst h; exact (foldl_max_ge as _).1
    · exact (foldl_max_ge as _).2 v h

/-- prefix test on the data cut to `M ≥ |v|` bytes = prefix test on the data -/
theorem pre_cut (v d : Bytes) (M : Nat) (hv : v.length ≤ M) :
    (!decide ((d.take M).length < v.length) && ((d.take M).take v.length == v)) = v.isPrefixOf d := by
  rw [Bool.eq_iff_iff]
  simp only [Bool.and_eq_true, Bool.not_eq_true', decide_eq_false_iff_not, beq_iff_eq,
    List.isPrefixOf_iff_prefix, List.prefix_iff_eq_take, List.take_take, List.length_take]
  have hmin : min v.length M = v.length := by omega
  rw [hmin]
  constructor
  · intro h; exact h.2.symm
  · intro h
    refine ⟨?_, h.symm⟩
    have : v.length = (d.take v.length).length := by rw [← h]
    simp only [List.length_take] at this
    omega

theorem suf_cut (v d : Bytes) (M : Nat) (hv : v.length ≤ M) :
    (!decide ((d.drop (d.length - M)).length < v.length) &&
      ((d.drop (d.length - M)).drop ((d.drop (d.length - M)).length - v.length) == v)) = v.isSuffixOf d := by
  rw [Bool.eq_iff_iff]
  simp only [Bool.and_eq_true, Bool.not_eq_true', decide_eq_false_iff_not, beq_iff_eq,
    List.isSuffixOf_iff_suffix, List.suffix_iff_eq_drop, List.drop_drop, List.length_drop]
  constructor
  · intro h
    have h1 := h.1
    have : d.length - M + (d.length - (d.length - M) - v.length) = d.length - v.length := by omega
    rw [this] at h; exact h.2.symm
  · intro h
    have hl : v.length = (d.drop (d.length - v.length)).length := by rw [← h]
    simp only [List.length_drop] at hl
    have : d.length - M + (d.length - (d.length - M) - v.length) = d.length - v.length := by omega
    rw [this]
    exact ⟨by omega, h.symm⟩

/-- what the theorems need of `lower` on this data: it keeps the length and commutes with the two
    cuts the code makes (true of `bytes.ToLower` on ASCII data) -/
def LowerNice (lower : Bytes → Bytes) (raw : Bytes) (M : Nat) : Prop :=
  (lower raw).length = raw.length ∧ lower (raw.take M) = (lower raw).take M ∧
  lower (raw.drop (raw.length - M)) = (lower raw).drop (raw.length - M)

theorem any_congr' {vs : List Bytes} {p q : Bytes → Bool} (h : ∀ v ∈ vs, p v = q v) : vs.any p = vs.any q := by
  induction vs with
  | nil => rfl
  | cons a as ih =>
    simp only [List.any_cons]
    rw [h a (by simp), ih (fun v hv => h v (List.mem_cons_of_mem _ hv))]

theorem modeHolds_length {m : Mode} {v d : Bytes} (h : modeHolds m v d = true) : v.length ≤ d.length := by
  cases m with
  | pre => exact (List.isPrefixOf_iff_prefix.mp h).length_le
  | suf => exact (List.isSuffixOf_iff_suffix.mp h).length_le
  | contains => exact infixB_length h

/-- the size shortcuts of `(*Rule).match` are sound and complete -/
theorem matchRaw_eq (lower : Bytes → Bytes) (mode : Mode) (ci : Bool) (vs : List Bytes) (raw : Bytes)
    (hn : ci = false ∨ LowerNice lower raw (maxLen vs)) :
    matchRaw lower mode ci vs raw = vs.any (fun v => modeHolds mode v (if ci then lower raw else raw)) := by
  have hlen : (if ci then lower raw else raw).length = raw.length := by
    cases ci with
    | false => rfl
    | true => rcases hn with h | h; · cases h
              · exact h.1
  unfold matchRaw
  by_cases hmin : raw.length < minLen vs
  · rw [if_pos hmin]
    symm
    rw [Bool.eq_false_iff]
    intro h
    obtain ⟨v, hv, hh⟩ := List.any_eq_true.mp h
    have := modeHolds_length hh
    have := minLen_le hv
    omega
  · rw [if_neg hmin]
    cases mode with
    | contains =>
      apply any_congr'
      intro v _
      simp only [modeHolds]
      by_cases hl : (if ci = true then lower raw else raw).length < v.length
      · simp only [hl, decide_true, Bool.not_true, Bool.false_and]
        symm; rw [Bool.eq_false_iff]; intro h; have := infixB_length h; omega
      · simp [hl]
    | pre =>
      -- the cut, after lowering, is `d.take M`
      have hcut : (if ci = true then lower (if raw.length < maxLen vs then raw else raw.take (maxLen vs))
          else (if raw.length < maxLen vs then raw else raw.take (maxLen vs)))
          = (if ci then lower raw else raw).take (maxLen vs) := by
        by_cases hlt : raw.length < maxLen vs
        · rw [if_pos hlt]
          rw [List.take_of_length_le (by omega)]
        · rw [if_neg hlt]
          cases ci with
          | false => rfl
          | true => rcases hn with h | h; · cases h
                    · exact h.2.1
      dsimp only
      rw [hcut]
      apply any_congr'
      intro v hv
      exact pre_cut v _ _ (le_maxLen hv)
    | suf =>
      have hcut : (if ci = true then lower (if raw.length < maxLen vs then raw else raw.drop (raw.length - maxLen vs))
          else (if raw.length < maxLen vs then raw else raw.drop (raw.length - maxLen vs)))
          = (if ci then lower raw else raw).drop ((if ci then lower raw else raw).length - maxLen vs) := by
        rw [hlen]
        by_cases hlt : raw.length < maxLen vs
        · rw [if_pos hlt]
          have : raw.length - maxLen vs = 0 := by omega
          rw [this, List.drop_zero]
        · rw [if_neg hlt]
          cases ci with
          | false => rfl
          | true => rcases hn with h | h; · cases h
                    · exact h.2.2
      dsimp only
      rw [hcut]
      apply any_congr'
      intro v hv
      exact suf_cut v _ _ (le_maxLen hv)

open FileD.SpecC20 in
theorem ruleMatch_eq (lower : Bytes → Bytes) (r : Rule) (raw : Bytes) (hv : r.values ≠ [])
    (hn : r.ci = false ∨ LowerNice lower raw (maxLen (prepared lower r))) :
    ruleMatch lower r raw = .ok (specRule lower r raw) := by
  unfold ruleMatch specRule
  rw [if_neg hv, matchRaw_eq lower r.mode r.ci (prepared lower r) raw hn]
  cases r.invert <;> simp

/-- what `rsMatch_eq` needs of every rule of the set -/
def RuleOK (lower : Bytes → Bytes) (raw : Bytes) (r : Rule) : Prop :=
  r.values ≠ [] ∧ (r.ci = false ∨ LowerNice lower raw (maxLen (prepared lower r)))

open FileD.SpecC20 in
theorem rsLoop_eq (lower : Bytes → Bytes) (isOr : Bool) (raw : Bytes) (rules : List Rule)
    (h : ∀ r ∈ rules, RuleOK lower raw r) :
    rsLoop lower isOr raw rules =
      .ok (if isOr then rules.any (specRule lower · raw) else rules.all (specRule lower · raw)) := by
  induction rules with
  | nil => cases isOr <;> simp [rsLoop]
  | cons r rs ih =>
    have hr := h r (by simp)
    have ih' := ih (fun r' hr' => h r' (List.mem_cons_of_mem _ hr'))
    simp only [rsLoop, ruleMatch_eq lower r raw hr.1 hr.2, ih']
    cases hs : specRule lower r raw <;> cases isOr <;> simp [hs]

open FileD.SpecC20 in
theorem rsMatch_eq (lower : Bytes → Bytes) (isOr : Bool) (rules : List Rule) (raw : Bytes)
    (h : ∀ r ∈ rules, RuleOK lower raw r) :
    rsMatch lower isOr rules raw = .ok (specRuleSet lower isOr rules raw) := by
  unfold rsMatch specRuleSet
  by_cases hr : rules = []
  · simp [hr]
  · rw [if_neg hr, if_neg hr, rsLoop_eq lower isOr raw rules h]

/-- the exceptions loop of `IsSpam` over exceptions given as (check_source_name, per-data result) -/
theorem excHit_map {α : Type} (xs : List α) (csn : α → Bool) (res : α → Bool × Bool) :
    Antispam.excHit (xs.map csn) (xs.map res) = xs.any (fun x => if csn x then (res x).2 else (res x).1) := by
  induction xs with
  | nil => rfl
  | cons x xs ih =>
    simp only [List.map_cons, List.any_cons, ← ih]
    cases h : res x with
    | mk a b => simp [Antispam.excHit]

end FileD.MatchRule
