/-
  The evaluation-order-aware model (`checkSt`, Model/DoIfSt.lean) against the stateless one:
  positions do not change what `Dig` finds, and on containers without JSON escapes the byte count
  does not depend on which strings were unescaped before.
-/
import FileD.Model.DoIfSt
import FileD.Lemmas.DoIf
namespace FileD.DoIf
open FileD FileD.SpecC14

theorem lookupFirstIdx_snd (key : Bytes) (kvs : List (Bytes × JTree)) (i : Nat) :
    (lookupFirstIdx key kvs i).map (·.2) = lookupFirst key kvs := by
  induction kvs generalizing i with
  | nil => rfl
  | cons kv kvs ih =>
    obtain ⟨k, v⟩ := kv
    simp only [lookupFirstIdx, lookupFirst]
    split
    · rfl
    · exact ih (i + 1)

theorem lookupLastIdx_snd (key : Bytes) (kvs : List (Bytes × JTree)) (i : Nat) :
    (lookupLastIdx key kvs i).map (·.2) = lookupLast key kvs := by
  induction kvs generalizing i with
  | nil => rfl
  | cons kv kvs ih =>
    obtain ⟨k, v⟩ := kv
    simp only [lookupLastIdx, lookupLast]
    have := ih (i + 1)
    cases h1 : lookupLastIdx key kvs (i + 1) with
    | some r => rw [h1] at this; simp only [Option.map] at this; rw [← this]; rfl
    | none =>
      rw [h1] at this; simp only [Option.map] at this; rw [← this]
      simp only
      split <;> rfl

theorem childPos_snd (t : JTree) (k : Bytes) : (childPos t k).map (·.2) = child t k := by
  cases t with
  | arr xs =>
    simp only [childPos, child]
    cases atoi? k with
    | none => rfl
    | some i =>
      by_cases hi : i < 0
      · simp [hi]
      · simp only [hi, if_false]; cases xs[i.toNat]? <;> rfl
  | obj kvs =>
    simp only [childPos, child]
    by_cases hl : kvs.length > mapUseThreshold
    · simp only [hl, if_true]; exact lookupLastIdx_snd k kvs 0
    · simp only [hl, if_false]; exact lookupFirstIdx_snd k kvs 0
  | _ => rfl

theorem digPos_snd (t : JTree) (p : List Bytes) (pos : Pos) : (digPos t p pos).map (·.2) = dig t p := by
  induction p generalizing t pos with
  | nil => rfl
  | cons k ks ih =>
    simp only [digPos, dig]
    have := childPos_snd t k
    cases h1 : childPos t k with
    | none => rw [h1] at this; simp only [Option.map] at this; rw [← this]; rfl
    | some ic => rw [h1] at this; simp only [Option.map] at this; rw [← this]; exact ih ic.2 _

theorem escLen_of_hasEsc_str {s : Bytes} (h : hasEsc (.str s) = false) : escLen s = s.length := by
  simpa [hasEsc] using h

mutual
  theorem bytesSizeT_eq (tch : List Pos) : ∀ (t : JTree) (pos : Pos), hasEsc t = false →
      bytesSizeT tch pos t = bytesSize t
    | .arr xs, pos, h => by
      simp only [bytesSizeT, bytesSize, sizeListT_eq tch xs pos 0 (by simpa [hasEsc] using h)]
    | .obj kvs, pos, h => by
      simp only [bytesSizeT, bytesSize, sizeFieldsT_eq tch kvs pos 0 (by simpa [hasEsc] using h)]
    | .str s, pos, h => by
      simp only [bytesSizeT, bytesSize, escLen_of_hasEsc_str h]; split <;> rfl
    | .null, _, _ => rfl
    | .bool true, _, _ => rfl
    | .bool false, _, _ => rfl
    | .num _, _, _ => rfl
  theorem sizeListT_eq (tch : List Pos) : ∀ (xs : List JTree) (pos : Pos) (i : Nat), hasEscList xs = false →
      sizeListT tch pos i xs = sizeList xs
    | [], _, _, _ => rfl
    | x :: xs, pos, i, h => by
      have h' : hasEsc x = false ∧ hasEscList xs = false := by simpa [hasEscList] using h
      simp only [sizeListT, sizeList, bytesSizeT_eq tch x _ h'.1, sizeListT_eq tch xs pos (i + 1) h'.2]
  theorem sizeFieldsT_eq (tch : List Pos) : ∀ (kvs : List (Bytes × JTree)) (pos : Pos) (i : Nat),
      hasEscFields kvs = false → sizeFieldsT tch pos i kvs = sizeFields kvs
    | [], _, _, _ => rfl
    | (k, v) :: kvs, pos, i, h => by
      have h' : (escLen k = k.length ∧ hasEsc v = false) ∧ hasEscFields kvs = false := by
        simpa [hasEscFields] using h
      simp only [sizeFieldsT, sizeFields, bytesSizeT_eq tch v _ h'.1.2, sizeFieldsT_eq tch kvs pos (i + 1) h'.2]
end

theorem lenCheckT_eq (o : Oracle) (l : LenCmp) (ev : JTree) (tch : List Pos) (hok : LenOK l ev) :
    lenCheckT o l ev tch = lenCheck o l ev := by
  unfold lenCheckT lenCheck
  cases hk : l.kind <;> simp only
  have hs := digPos_snd ev l.path []
  cases hd : digPos ev l.path [] with
  | none => rw [hd] at hs; simp only [Option.map] at hs; rw [← hs]
  | some pt =>
    rw [hd] at hs; simp only [Option.map] at hs; rw [← hs]
    simp only
    have he := hok hk pt.2 hs.symm
    rw [bytesSizeT_eq tch pt.2 pt.1 he]

mutual
  /-- under `TreeOK` the answer does not depend on which strings earlier nodes unescaped -/
  theorem checkSt_fst (o : Oracle) (now : Int) (ev : JTree) :
      ∀ (n : Node) (tch : List Pos), TreeOK o ev n → (checkSt o now ev n tch).1 = check o now ev n
    | .field _, _, _ => by simp [checkSt, check]
    | .lenCmp l, tch, h => by
      simp only [checkSt, check]; exact lenCheckT_eq o l ev tch (by simpa [TreeOK] using h)
    | .tsCmp _, _, _ => by simp [checkSt, check]
    | .checkType _, _, _ => by simp [checkSt, check]
    | .and ops, tch, h => by simp only [checkSt, check]; exact checkAllSt_fst o now ev ops tch (by simpa [TreeOK] using h)
    | .or ops, tch, h => by simp only [checkSt, check]; exact checkAnySt_fst o now ev ops tch (by simpa [TreeOK] using h)
    | .not ops, tch, h => by simp only [checkSt, check]; exact checkNotSt_fst o now ev ops tch (by simpa [TreeOK] using h)
  theorem checkAllSt_fst (o : Oracle) (now : Int) (ev : JTree) :
      ∀ (ops : List Node) (tch : List Pos), TreesOK o ev ops → (checkAllSt o now ev ops tch).1 = checkAll o now ev ops
    | [], _, _ => by simp [checkAllSt, checkAll]
    | x :: xs, tch, h => by
      have h' : TreeOK o ev x ∧ TreesOK o ev xs := by simpa [TreesOK] using h
      simp only [checkAllSt, checkAll, checkSt_fst o now ev x tch h'.1]
      split
      · rfl
      · exact checkAllSt_fst o now ev xs _ h'.2
  theorem checkAnySt_fst (o : Oracle) (now : Int) (ev : JTree) :
      ∀ (ops : List Node) (tch : List Pos), TreesOK o ev ops → (checkAnySt o now ev ops tch).1 = checkAny o now ev ops
    | [], _, _ => by simp [checkAnySt, checkAny]
    | x :: xs, tch, h => by
      have h' : TreeOK o ev x ∧ TreesOK o ev xs := by simpa [TreesOK] using h
      simp only [checkAnySt, checkAny, checkSt_fst o now ev x tch h'.1]
      split
      · rfl
      · exact checkAnySt_fst o now ev xs _ h'.2
  theorem checkNotSt_fst (o : Oracle) (now : Int) (ev : JTree) :
      ∀ (ops : List Node) (tch : List Pos), TreesOK o ev ops → (checkNotSt o now ev ops tch).1 = checkNot o now ev ops
    | [], _, _ => by simp [checkNotSt, checkNot]
    | x :: xs, tch, h => by
      have h' : TreeOK o ev x ∧ TreesOK o ev xs := by simpa [TreesOK] using h
      simp only [checkNotSt, checkNot, checkSt_fst o now ev x tch h'.1]
end

end FileD.DoIf
