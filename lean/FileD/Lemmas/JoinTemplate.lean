/- helper lemmas for C15: join_template = join on the resolved classifier bits -/
import FileD.Model.Join
import FileD.Spec.C15
namespace FileD.Join
open FileD FileD.SpecC15

/-- oracle shape: every event carries one start bit and one continue bit per template -/
def Shaped (tcfg : TCfg) (items : List TIn) : Prop :=
  ∀ e, TIn.ev e ∈ items →
    e.starts.length = tcfg.negates.length ∧ e.conts.length = tcfg.negates.length

theorem firstIdx_bound {bs : List Bool} {k i : Nat} (h : firstIdx bs k = some i) :
    k ≤ i ∧ i < k + bs.length := by
  induction bs generalizing k with
  | nil => simp [firstIdx] at h
  | cons b bs ih =>
    simp only [firstIdx] at h
    split at h
    · simp at h; subst h; simp
    · have := ih h; simp; omega

theorem ite_firstIdx_bound {c : Prop} [Decidable c] {bs : List Bool} {i : Nat}
    (h : (if c then firstIdx bs 0 else none) = some i) : i < bs.length := by
  split at h
  · have := firstIdx_bound h; omega
  · exact absurd h (by simp)

theorem idx_ok {α} (l : List α) (i : Nat) (h : i < l.length) :
    GoSlice.idx? l (i : Int) = .ok l[i] := by
  simp [GoSlice.idx?, h]

/-- classifier state is usable whenever a run is open -/
def CurOK (tcfg : TCfg) (st : TSt) : Prop :=
  st.j.isJoining = true → ∃ i : Nat, st.cur = (i : Int) ∧ i < tcfg.negates.length

theorem nextCheck_ok (tcfg : TCfg) (e : TEv) (i : Nat) (hi : i < tcfg.negates.length)
    (hc : e.conts.length = tcfg.negates.length) :
    ∃ b, nextCheck tcfg (i : Int) e = .ok b := by
  have h2 : i < e.conts.length := by omega
  simp [nextCheck, idx_ok _ _ hi, idx_ok _ _ h2]

/-- lift of a join step result to the template state -/
def liftT (cur : Int) : GoM (St × Out) → GoM (TSt × Out)
  | .error p => .error p
  | .ok (j, o) => .ok (⟨cur, j⟩, o)

theorem isNextOK_plain (tcfg : TCfg) (e : TEv) (s c : Bool) :
    isNextOK tcfg.join (e.plain s c) = c := by
  simp [isNextOK, TCfg.join, TEv.plain]

theorem resolve1_absent (tcfg : TCfg) (cur : Int) (e : TEv) (hd : JTree.dig e.root tcfg.path = none) :
    resolve1 tcfg cur (.ev e) = (.ev (e.plain false (contBit tcfg cur e)), cur) := by
  simp [resolve1, hd]

theorem resolve1_start (tcfg : TCfg) (cur : Int) (e : TEv) (node : JTree)
    (hd : JTree.dig e.root tcfg.path = some node) (hstr : node.isStr = true) (i : Nat)
    (hfi : firstIdx e.starts 0 = some i) :
    resolve1 tcfg cur (.ev e) = (.ev (e.plain true false), (i : Int)) := by
  simp [resolve1, hd, hstr, hfi]

theorem resolve1_nostart (tcfg : TCfg) (cur : Int) (e : TEv) (node : JTree)
    (hd : JTree.dig e.root tcfg.path = some node)
    (hfi : (if node.isStr = true then firstIdx e.starts 0 else none) = none) :
    resolve1 tcfg cur (.ev e) = (.ev (e.plain false (contBit tcfg cur e)), cur) := by
  simp [resolve1, hd, hfi]

theorem liftT_flushThen (cur : Int) (cfg : Cfg) (j : St) (res : Res) (self : OEv) (after : St → St) :
    (match flushThen cfg j res self after with
      | .error p => (.error p : GoM (TSt × Out))
      | .ok (j', o) => .ok (⟨cur, j'⟩, o)) = liftT cur (flushThen cfg j res self after) := by
  cases flushThen cfg j res self after with
  | error p => rfl
  | ok r => rfl

/-- one call of join_template is one call of join on the resolved event -/
theorem tstep_eq (tcfg : TCfg) (st : TSt) (x : TIn) (hcur : CurOK tcfg st)
    (hs : ∀ e, x = .ev e → e.starts.length = tcfg.negates.length ∧ e.conts.length = tcfg.negates.length) :
    tstep tcfg st x =
      liftT (resolve1 tcfg st.cur x).2 (step tcfg.join st.j (resolve1 tcfg st.cur x).1) := by
  cases x with
  | timeout t =>
    simp only [tstep, resolve1, step]
    cases doTimeout tcfg.join st.j with
    | error p => rfl
    | ok r => rfl
  | ev e =>
    obtain ⟨hsl, hcl⟩ := hs e rfl
    have hpath : tcfg.join.path = tcfg.path := rfl
    cases hd : JTree.dig e.root tcfg.path with
    | none =>
      rw [resolve1_absent tcfg st.cur e hd]
      have hd' : JTree.dig (e.plain false (contBit tcfg st.cur e)).root tcfg.path = none := hd
      simp only [tstep, tdoEvent, step, doEvent, hpath, hd, hd']
      exact liftT_flushThen _ _ _ _ _ _
    | some node =>
      cases hfi : (if node.isStr = true then firstIdx e.starts 0 else none) with
      | some i =>
        have hstr : node.isStr = true := by
          by_cases h : node.isStr = true
          · exact h
          · simp [h] at hfi
        have hfi' : firstIdx e.starts 0 = some i := by simpa [hstr] using hfi
        rw [resolve1_start tcfg st.cur e node hd hstr i hfi']
        have hd' : JTree.dig (e.plain true false).root tcfg.path = some node := hd
        simp only [tstep, tdoEvent, step, doEvent, hpath, hd, hd', hstr, hfi', TEv.plain, Ev.out,
          Bool.and_self, ↓reduceIte]
        exact liftT_flushThen _ _ _ _ _ _
      | none =>
        rw [resolve1_nostart tcfg st.cur e node hd hfi]
        have hd' : JTree.dig (e.plain false (contBit tcfg st.cur e)).root tcfg.path = some node := hd
        simp only [tstep, tdoEvent, step, doEvent, hpath, hd, hd', hfi, TEv.plain, Ev.out,
          Bool.and_false, Bool.false_eq_true, ↓reduceIte]
        cases hj : st.j.isJoining with
        | false => simp [flushThen, hj, liftT]
        | true =>
          obtain ⟨i, hi, hlt⟩ := hcur hj
          obtain ⟨b, hb⟩ := nextCheck_ok tcfg e i hlt hcl
          have hcb : contBit tcfg st.cur e = b := by simp [contBit, hi, hb]
          simp only [hi] at hb ⊢
          simp only [hb, Bool.true_and, isNextOK, TCfg.join, Bool.false_eq_true, ↓reduceIte]
          rw [← hi, hcb]
          cases b with
          | true => simp [liftT]
          | false =>
            simp only [Bool.false_eq_true, ↓reduceIte]
            exact liftT_flushThen _ _ _ _ _ _


theorem flushThen_joining {cfg : Cfg} {j j' : St} {res : Res} {self : OEv} {o : Out}
    (h : flushThen cfg j res self id = .ok (j', o)) : j'.isJoining = true → j.isJoining = true := by
  unfold flushThen at h
  cases hj : j.isJoining with
  | true => intro _; rfl
  | false =>
    simp [hj] at h
    obtain ⟨rfl, _⟩ := h
    intro h'; rw [hj] at h'; exact h'

/-- a call that does not start a run never opens one -/
theorem step_joining_mono {cfg : Cfg} {j j' : St} {o : Out} (x : In)
    (hx : ∀ e, x = .ev e → e.startOK = false)
    (h : step cfg j x = .ok (j', o)) : j'.isJoining = true → j.isJoining = true := by
  cases x with
  | timeout t =>
    simp only [step, doTimeout] at h
    cases hj : j.isJoining with
    | true => intro _; rfl
    | false => simp [hj] at h
  | ev e =>
    have hs := hx e rfl
    simp only [step, doEvent] at h
    split at h
    · exact flushThen_joining h
    · simp only [hs, Bool.and_false, Bool.false_eq_true, ↓reduceIte] at h
      split at h
      · rename_i hc
        simp at h
        obtain ⟨rfl, _⟩ := h
        simp at hc
        intro _; exact hc.1
      · exact flushThen_joining h

/-- the resolved event either starts a run and sets a valid current template, or keeps `cur`
    and carries `startOK = false` -/
theorem resolve1_cases (tcfg : TCfg) (cur : Int) (x : TIn)
    (hs : ∀ e, x = .ev e → e.starts.length = tcfg.negates.length) :
    (∃ i : Nat, (resolve1 tcfg cur x).2 = (i : Int) ∧ i < tcfg.negates.length) ∨
    ((resolve1 tcfg cur x).2 = cur ∧ ∀ e, (resolve1 tcfg cur x).1 = .ev e → e.startOK = false) := by
  cases x with
  | timeout t => right; simp [resolve1]
  | ev e =>
    have hsl := hs e rfl
    simp only [resolve1]
    split
    · rename_i i hfi
      left
      refine ⟨i, rfl, ?_⟩
      have := ite_firstIdx_bound hfi; omega
    · right
      refine ⟨rfl, ?_⟩
      intro e' he'
      simp at he'
      subst he'
      rfl

theorem trun_eq (tcfg : TCfg) (items : List TIn) (st : TSt) (hcur : CurOK tcfg st)
    (hs : Shaped tcfg items) :
    (trun tcfg st items).outs = (run tcfg.join st.j (resolve tcfg st.cur items)).outs ∧
    (match (trun tcfg st items).fin with
      | .ok s => (.ok s.j : GoM St)
      | .error p => .error p) = (run tcfg.join st.j (resolve tcfg st.cur items)).fin := by
  induction items generalizing st with
  | nil => simp [trun, run, resolve]
  | cons x r ih =>
    have hx : ∀ e, x = .ev e → e.starts.length = tcfg.negates.length ∧ e.conts.length = tcfg.negates.length :=
      fun e he => hs e (by simp [he])
    have hr : Shaped tcfg r := fun e he => hs e (by simp [he])
    have hstep := tstep_eq tcfg st x hcur hx
    simp only [trun, run, resolve]
    rw [hstep]
    cases hj : step tcfg.join st.j (resolve1 tcfg st.cur x).1 with
    | error p => simp [liftT]
    | ok res =>
      obtain ⟨j', o⟩ := res
      simp only [liftT]
      have hcur' : CurOK tcfg ⟨(resolve1 tcfg st.cur x).2, j'⟩ := by
        intro hjoin
        rcases resolve1_cases tcfg st.cur x (fun e he => (hx e he).1) with ⟨i, hi, hlt⟩ | ⟨hsame, hns⟩
        · exact ⟨i, hi, hlt⟩
        · have := step_joining_mono _ hns hj hjoin
          obtain ⟨i, hi, hlt⟩ := hcur this
          exact ⟨i, by show (resolve1 tcfg st.cur x).2 = (i : Int); rw [hsame, hi], hlt⟩
      have := ih ⟨(resolve1 tcfg st.cur x).2, j'⟩ hcur' hr
      simp only at this
      exact ⟨by rw [this.1], this.2⟩

end FileD.Join
