/-
  Path sets: `tailsOf`, `hasNil`, the covering relation under which the specs do not change, and what
  `cfg.ParseNestedFields`' second loop (`dedupe`) guarantees on a length-sorted list.
-/
import FileD.Lemmas.FieldsEqv
namespace FileD.Fields
open FileD FileD.SpecC18

theorem mem_tailsOf {k : Bytes} {p : Path} {ps : List Path} : p ∈ tailsOf k ps ↔ (k :: p) ∈ ps := by
  induction ps with
  | nil => simp [tailsOf]
  | cons q ps ih =>
    cases q with
    | nil => simp [tailsOf, ih]
    | cons h r =>
      by_cases e : h = k
      · subst e; simp [tailsOf, ih]
      · have : ¬ (k = h) := fun e' => e e'.symm
        simp [tailsOf, e, ih, this]

theorem hasNil_iff {ps : List Path} : hasNil ps = true ↔ [] ∈ ps := by
  induction ps with
  | nil => simp [hasNil]
  | cons q ps ih => cases q <;> simp [hasNil, ih]

theorem hasNil_tailsOf {k : Bytes} {ps : List Path} : hasNil (tailsOf k ps) = true ↔ [k] ∈ ps := by
  rw [hasNil_iff, mem_tailsOf]

theorem tailsOf_cons_ne {k k1 : Bytes} (r : Path) (ps : List Path) (h : k ≠ k1) :
    tailsOf k1 ((k :: r) :: ps) = tailsOf k1 ps := by
  simp [tailsOf, h]

theorem tailsOf_cons_eq (k : Bytes) (r : Path) (ps : List Path) :
    tailsOf k ((k :: r) :: ps) = r :: tailsOf k ps := by
  simp [tailsOf]

/-- the two path lists select the same subtrees: each path of one has a prefix in the other -/
def Cov (ps qs : List Path) : Prop :=
  (∀ p ∈ ps, ∃ q ∈ qs, q <+: p) ∧ (∀ q ∈ qs, ∃ p ∈ ps, p <+: q)

theorem Cov.symm {ps qs : List Path} (h : Cov ps qs) : Cov qs ps := ⟨h.2, h.1⟩

theorem Cov.hasNil_tails {ps qs : List Path} (h : Cov ps qs) (hq : [] ∉ qs) (k : Bytes)
    (hn : hasNil (tailsOf k ps) = true) : hasNil (tailsOf k qs) = true := by
  rw [hasNil_tailsOf] at *
  obtain ⟨q, hq1, t, ht⟩ := h.1 _ hn
  cases q with
  | nil => exact absurd hq1 hq
  | cons a q' =>
    simp at ht
    obtain ⟨rfl, h2⟩ := ht
    have : q' = [] := by
      cases q' with
      | nil => rfl
      | cons _ _ => simp at h2
    subst this; exact hq1

theorem Cov.tails {ps qs : List Path} (h : Cov ps qs) (hp : [] ∉ ps) (hq : [] ∉ qs) (k : Bytes) :
    Cov (tailsOf k ps) (tailsOf k qs) := by
  have one : ∀ {ps qs : List Path}, (∀ p ∈ ps, ∃ q ∈ qs, q <+: p) → [] ∉ qs →
      ∀ p ∈ tailsOf k ps, ∃ q ∈ tailsOf k qs, q <+: p := by
    intro ps qs h hq p hp
    rw [mem_tailsOf] at hp
    obtain ⟨q, hq1, t, ht⟩ := h _ hp
    cases q with
    | nil => exact absurd hq1 hq
    | cons a q' =>
      simp at ht
      obtain ⟨rfl, h2⟩ := ht
      exact ⟨q', mem_tailsOf.2 hq1, t, h2⟩
  exact ⟨one h.1 hq, one h.2 hp⟩

/-! ### the specs only depend on the covering class -/

theorem subtract_cov : ∀ (t : JTree) (ps qs : List Path), Cov ps qs → [] ∉ ps → [] ∉ qs →
    subtract ps t = subtract qs t := by
  intro t
  induction t using jtree_induct with
  | hnull => intros; rfl
  | hbool b => intros; rfl
  | hnum r => intros; rfl
  | hstr s => intros; rfl
  | harr xs _ => intros; rfl
  | hobj kvs ih =>
    intro ps qs h hp hq
    simp only [subtract]
    congr 1
    induction kvs with
    | nil => rfl
    | cons x r ihr =>
      obtain ⟨k, v⟩ := x
      have ihr' := ihr (fun kv hkv => ih kv (List.mem_cons_of_mem _ hkv))
      simp only [subtractKVs]
      by_cases hn : hasNil (tailsOf k ps) = true
      · rw [if_pos hn, if_pos (h.hasNil_tails hq k hn), ihr']
      · have hn' : ¬ hasNil (tailsOf k qs) = true := fun e => hn (h.symm.hasNil_tails hp k e)
        rw [if_neg hn, if_neg hn', ihr']
        rw [ih (k, v) List.mem_cons_self _ _ (h.tails hp hq k)
          (by rw [← hasNil_iff]; exact hn) (by rw [← hasNil_iff]; exact hn')]

theorem projectKVs_cov_aux (kvs : KVs)
    (ih : ∀ kv ∈ kvs, ∀ ps qs : List Path, Cov ps qs → [] ∉ ps → [] ∉ qs → projectV ps kv.2 = projectV qs kv.2)
    (ps qs : List Path) (h : Cov ps qs) (hp : [] ∉ ps) (hq : [] ∉ qs) :
    projectKVs ps kvs = projectKVs qs kvs := by
  induction kvs with
  | nil => rfl
  | cons x r ihr =>
    obtain ⟨k, v⟩ := x
    have ihr' := ihr (fun kv hkv => ih kv (List.mem_cons_of_mem _ hkv))
    simp only [projectKVs]
    by_cases hn : hasNil (tailsOf k ps) = true
    · rw [if_pos hn, if_pos (h.hasNil_tails hq k hn), ihr']
    · have hn' : ¬ hasNil (tailsOf k qs) = true := fun e => hn (h.symm.hasNil_tails hp k e)
      rw [if_neg hn, if_neg hn', ihr']
      rw [ih (k, v) List.mem_cons_self _ _ (h.tails hp hq k)
        (by rw [← hasNil_iff]; exact hn) (by rw [← hasNil_iff]; exact hn')]

theorem projectV_cov : ∀ (t : JTree) (ps qs : List Path), Cov ps qs → [] ∉ ps → [] ∉ qs →
    projectV ps t = projectV qs t := by
  intro t
  induction t using jtree_induct with
  | hnull => intros; rfl
  | hbool b => intros; rfl
  | hnum r => intros; rfl
  | hstr s => intros; rfl
  | harr xs _ => intros; rfl
  | hobj kvs ih =>
    intro ps qs h hp hq
    simp only [projectV, projectKVs_cov_aux kvs ih ps qs h hp hq]

theorem project_cov (t : JTree) (ps qs : List Path) (h : Cov ps qs) (hp : [] ∉ ps) (hq : [] ∉ qs) :
    project ps t = project qs t := by
  cases t with
  | obj kvs =>
    simp only [project]
    rw [projectKVs_cov_aux kvs (fun kv _ ps qs => projectV_cov kv.2 ps qs) ps qs h hp hq]
  | _ => rfl

/-! ### ParseNestedFields' second loop -/

theorem covered_iff {seen : List Path} {p : Path} : covered seen p = true ↔ ∃ s ∈ seen, s <+: p := by
  simp only [covered, List.any_eq_true, beq_iff_eq]
  constructor
  · rintro ⟨s, hs, e⟩; exact ⟨s, hs, by rw [e]; exact List.take_prefix _ _⟩
  · rintro ⟨s, hs, e⟩; exact ⟨s, hs, List.prefix_iff_eq_take.1 e⟩

theorem mem_dedupeLoop {seen rest : List Path} {p : Path} (h : p ∈ dedupeLoop seen rest) : p ∈ rest := by
  induction rest generalizing seen with
  | nil => simp [dedupeLoop] at h
  | cons p0 rest ih =>
    simp only [dedupeLoop] at h
    split at h
    · exact List.mem_cons_of_mem _ (ih h)
    · rcases List.mem_cons.1 h with h | h
      · rw [h]; exact List.mem_cons_self
      · exact List.mem_cons_of_mem _ (ih h)

theorem dedupeLoop_covers (seen rest K : List Path) (hK : ∀ s ∈ seen, ∃ q ∈ K, q <+: s) :
    ∀ p ∈ rest, ∃ q ∈ K ++ dedupeLoop seen rest, q <+: p := by
  induction rest generalizing seen K with
  | nil => intro p hp; cases hp
  | cons p0 rest ih =>
    intro p hp
    simp only [dedupeLoop]
    by_cases hc : covered seen p0 = true
    · rw [if_pos hc]
      obtain ⟨s, hs, hsp⟩ := covered_iff.1 hc
      obtain ⟨q, hq, hqs⟩ := hK s hs
      have hK' : ∀ s ∈ seen ++ [p0], ∃ q ∈ K, q <+: s := by
        intro s' hs'
        rcases List.mem_append.1 hs' with h | h
        · exact hK s' h
        · simp at h; subst h; exact ⟨q, hq, hqs.trans hsp⟩
      rcases List.mem_cons.1 hp with h | h
      · subst h; exact ⟨q, List.mem_append_left _ hq, hqs.trans hsp⟩
      · exact ih (seen ++ [p0]) K hK' p h
    · rw [if_neg hc]
      have hK' : ∀ s ∈ seen ++ [p0], ∃ q ∈ K ++ [p0], q <+: s := by
        intro s' hs'
        rcases List.mem_append.1 hs' with h | h
        · obtain ⟨q, hq, hqs⟩ := hK s' h; exact ⟨q, List.mem_append_left _ hq, hqs⟩
        · simp at h; subst h; exact ⟨s', by simp, List.prefix_refl _⟩
      have : K ++ p0 :: dedupeLoop (seen ++ [p0]) rest = (K ++ [p0]) ++ dedupeLoop (seen ++ [p0]) rest := by simp
      rw [this]
      rcases List.mem_cons.1 hp with h | h
      · subst h; exact ⟨p, by simp, List.prefix_refl _⟩
      · exact ih (seen ++ [p0]) (K ++ [p0]) hK' p h

/-- normalised paths select the same subtrees as the configured ones -/
theorem cov_dedupe (sorted : List Path) : Cov sorted (dedupe sorted) := by
  constructor
  · intro p hp
    have := dedupeLoop_covers [] sorted [] (by intro s hs; cases hs) p hp
    simpa [dedupe] using this
  · intro q hq
    exact ⟨q, mem_dedupeLoop hq, List.prefix_refl _⟩

/-- no normalised path is a prefix of another one (in particular: no duplicates) -/
def PrefixFree (ps : List Path) : Prop := ps.Pairwise (fun a b => ¬ a <+: b ∧ ¬ b <+: a)

theorem dedupeLoop_prefixFree (seen rest : List Path)
    (h1 : ∀ s ∈ seen, ∀ r ∈ rest, s.length ≤ r.length)
    (h2 : rest.Pairwise (fun a b => a.length ≤ b.length)) :
    PrefixFree (dedupeLoop seen rest) ∧ ∀ q ∈ dedupeLoop seen rest, ∀ s ∈ seen, ¬ s <+: q := by
  induction rest generalizing seen with
  | nil => simp [dedupeLoop, PrefixFree]
  | cons p0 rest ih =>
    rw [List.pairwise_cons] at h2
    have h1' : ∀ s ∈ seen ++ [p0], ∀ r ∈ rest, s.length ≤ r.length := by
      intro s hs r hr
      rcases List.mem_append.1 hs with h | h
      · exact h1 s h r (List.mem_cons_of_mem _ hr)
      · simp at h; subst h; exact h2.1 r hr
    obtain ⟨ihA, ihB⟩ := ih (seen ++ [p0]) h1' h2.2
    simp only [dedupeLoop]
    by_cases hc : covered seen p0 = true
    · rw [if_pos hc]
      exact ⟨ihA, fun q hq s hs => ihB q hq s (List.mem_append_left _ hs)⟩
    · rw [if_neg hc]
      constructor
      · unfold PrefixFree
        rw [List.pairwise_cons]
        refine ⟨?_, ihA⟩
        intro q hq
        have hq0 : ¬ p0 <+: q := ihB q hq p0 (by simp)
        refine ⟨hq0, ?_⟩
        intro hqp
        have hlen := h2.1 q (mem_dedupeLoop hq)
        have := hqp.length_le
        have e : q = p0 := hqp.eq_of_length_le hlen
        exact hq0 (by rw [e]; exact List.prefix_refl _)
      · intro q hq s hs
        rcases List.mem_cons.1 hq with h | h
        · subst h
          intro hsp
          exact hc (covered_iff.2 ⟨s, hs, hsp⟩)
        · exact ihB q h s (List.mem_append_left _ hs)

theorem prefixFree_dedupe (sorted : List Path) (h : sorted.Pairwise (fun a b => a.length ≤ b.length)) :
    PrefixFree (dedupe sorted) :=
  (dedupeLoop_prefixFree [] sorted (by intro s hs; cases hs) h).1

theorem sortedLen_pairwise : ∀ (l : List Path), sortedLen l = true → l.Pairwise (fun a b => a.length ≤ b.length)
  | [], _ => List.Pairwise.nil
  | [a], _ => by simp
  | a :: b :: r, h => by
    simp [sortedLen] at h
    have ih := sortedLen_pairwise (b :: r) h.2
    refine List.pairwise_cons.2 ⟨?_, ih⟩
    intro c hc
    rcases List.mem_cons.1 hc with e | e
    · subst e; exact h.1
    · exact Nat.le_trans h.1 ((List.pairwise_cons.1 ih).1 c e)

end FileD.Fields
