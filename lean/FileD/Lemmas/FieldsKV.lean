/-
  Lookup algebra on field lists (KVs) with unique keys: the only facts about insane-json's
  swap-remove the C18 proofs need are  "which keys are there" and "what is under each key".
-/
import FileD.Model.Fields
import FileD.Spec.C18
namespace FileD.Fields
open FileD FileD.SpecC18

theorem hasKey_eq_isSome (k : Bytes) (l : KVs) : hasKey k l = (lookup k l).isSome := by
  induction l with
  | nil => rfl
  | cons x r ih =>
    obtain ⟨k', v⟩ := x
    by_cases h : k' = k <;> simp [hasKey, lookup, h, ih]

theorem lookup_none_of_hasKey_false {k : Bytes} {l : KVs} (h : hasKey k l = false) : lookup k l = none := by
  rw [hasKey_eq_isSome] at h; simpa using h

theorem hasKey_of_lookup {k : Bytes} {l : KVs} {v : JTree} (h : lookup k l = some v) : hasKey k l = true := by
  rw [hasKey_eq_isSome, h]; rfl

/-! ### permutations of a list with unique keys -/

theorem hasKey_perm {l l' : KVs} (p : l.Perm l') (k : Bytes) : hasKey k l = hasKey k l' := by
  induction p with
  | nil => rfl
  | cons x _ ih => obtain ⟨k', v⟩ := x; simp [hasKey, ih]
  | swap x y l =>
    obtain ⟨k1, v1⟩ := x; obtain ⟨k2, v2⟩ := y
    simp [hasKey]; by_cases h1 : k1 = k <;> by_cases h2 : k2 = k <;> simp [h1, h2]
  | trans _ _ ih1 ih2 => rw [ih1, ih2]

theorem nodupKeys_perm {l l' : KVs} (p : l.Perm l') : nodupKeys l = nodupKeys l' := by
  induction p with
  | nil => rfl
  | cons x p ih => obtain ⟨k', v⟩ := x; simp [nodupKeys, ih, hasKey_perm p]
  | swap x y l =>
    obtain ⟨k1, v1⟩ := x; obtain ⟨k2, v2⟩ := y
    simp only [nodupKeys, hasKey]
    by_cases h : k1 = k2
    · subst h; simp
    · have h' : ¬ k2 = k1 := fun e => h e.symm
      simp [h, h']
      cases hasKey k1 l <;> cases hasKey k2 l <;> simp
  | trans _ _ ih1 ih2 => rw [ih1, ih2]

theorem lookup_perm {l l' : KVs} (p : l.Perm l') (hn : nodupKeys l = true) (k : Bytes) :
    lookup k l = lookup k l' := by
  induction p with
  | nil => rfl
  | cons x p ih =>
    obtain ⟨k', v⟩ := x
    simp [nodupKeys] at hn
    simp [lookup, ih hn.2]
  | swap x y l =>
    obtain ⟨k1, v1⟩ := x; obtain ⟨k2, v2⟩ := y
    simp [nodupKeys, hasKey] at hn
    simp only [lookup]
    by_cases h1 : k1 = k <;> by_cases h2 : k2 = k <;> simp [h1, h2]
    · exact absurd (h1.trans h2.symm) hn.1.1
  | trans p1 _ ih1 ih2 =>
    rw [ih1 hn, ih2 (by rw [← nodupKeys_perm p1]; exact hn)]

/-! ### eraseKey -/

theorem hasKey_eraseKey (k k' : Bytes) (l : KVs) (hn : nodupKeys l = true) :
    hasKey k' (eraseKey k l) = (decide (k' ≠ k) && hasKey k' l) := by
  induction l with
  | nil => simp [eraseKey, hasKey]
  | cons x r ih =>
    obtain ⟨k1, v1⟩ := x
    simp [nodupKeys] at hn
    by_cases h : k1 = k
    · subst h
      simp only [eraseKey, if_true, hasKey]
      by_cases h' : k' = k1
      · subst h'; simp [hn.1]
      · have : ¬ k1 = k' := fun e => h' e.symm
        simp [h', this]
    · simp only [eraseKey, h, if_false, hasKey, ih hn.2]
      by_cases h' : k1 = k'
      · subst h'; simp [h]
      · simp [h']

theorem nodupKeys_eraseKey (k : Bytes) (l : KVs) (hn : nodupKeys l = true) : nodupKeys (eraseKey k l) = true := by
  induction l with
  | nil => rfl
  | cons x r ih =>
    obtain ⟨k1, v1⟩ := x
    simp [nodupKeys] at hn
    by_cases h : k1 = k
    · simp [eraseKey, h, hn.2]
    · simp [eraseKey, h, nodupKeys, ih hn.2, hasKey_eraseKey _ _ _ hn.2, hn.1]

theorem lookup_eraseKey (k k' : Bytes) (l : KVs) (hn : nodupKeys l = true) :
    lookup k' (eraseKey k l) = if k' = k then none else lookup k' l := by
  induction l with
  | nil => simp [eraseKey, lookup]
  | cons x r ih =>
    obtain ⟨k1, v1⟩ := x
    simp [nodupKeys] at hn
    by_cases h : k1 = k
    · subst h
      simp only [eraseKey, if_true, lookup]
      by_cases h' : k' = k1
      · subst h'; simp [lookup_none_of_hasKey_false hn.1]
      · have : ¬ k1 = k' := fun e => h' e.symm
        simp [h', this]
    · simp only [eraseKey, h, if_false, lookup, ih hn.2]
      by_cases h' : k1 = k'
      · subst h'; simp [h]
      · simp [h']

/-! ### setKey -/

theorem hasKey_setKey (k k' : Bytes) (nv : JTree) (l : KVs) : hasKey k' (setKey k nv l) = hasKey k' l := by
  induction l with
  | nil => rfl
  | cons x r ih =>
    obtain ⟨k1, v1⟩ := x
    by_cases h : k1 = k <;> simp [setKey, h, hasKey, ih]

theorem nodupKeys_setKey (k : Bytes) (nv : JTree) (l : KVs) : nodupKeys (setKey k nv l) = nodupKeys l := by
  induction l with
  | nil => rfl
  | cons x r ih =>
    obtain ⟨k1, v1⟩ := x
    by_cases h : k1 = k <;> simp [setKey, h, nodupKeys, ih, hasKey_setKey]

theorem lookup_setKey (k k' : Bytes) (nv : JTree) (l : KVs) :
    lookup k' (setKey k nv l) = if k' = k then (lookup k l).map (fun _ => nv) else lookup k' l := by
  induction l with
  | nil => simp [setKey, lookup]
  | cons x r ih =>
    obtain ⟨k1, v1⟩ := x
    by_cases h : k1 = k
    · subst h
      simp only [setKey, if_true, lookup]
      by_cases h' : k1 = k'
      · subst h'; simp
      · have : ¬ k' = k1 := fun e => h' e.symm
        simp [h', this]
    · simp only [setKey, h, if_false, lookup, ih]
      by_cases h' : k1 = k'
      · subst h'; simp [h]
      · simp [h']

/-! ### swap-remove (insane-json Suicide on an object field) -/

/-- the last element moved to the front -/
def rot {α} (l : List α) : List α :=
  match l.getLast? with
  | none => []
  | some x => x :: l.dropLast

theorem rot_perm {α} (l : List α) : (rot l).Perm l := by
  unfold rot
  cases h : l.getLast? with
  | none => simp [List.getLast?_eq_none_iff] at h; simp [h]
  | some x =>
    have hne : l ≠ [] := by intro e; subst e; simp at h
    have hx : l.getLast hne = x := by
      rw [List.getLast?_eq_some_getLast hne] at h; exact Option.some.inj h
    have := List.dropLast_concat_getLast hne
    rw [hx] at this
    calc (x :: l.dropLast).Perm (l.dropLast ++ [x]) := (List.perm_append_singleton x l.dropLast).symm
      _ = l := this

theorem swapRemoveIdx_zero {α} (x : α) (xs : List α) : swapRemoveIdx 0 (x :: xs) = rot xs := by
  cases xs with
  | nil => simp [swapRemoveIdx, rot]
  | cons y ys =>
    simp [swapRemoveIdx, rot, List.getLast?_cons_cons]
    cases h : (y :: ys).getLast? with
    | none => simp at h
    | some l => simp

theorem swapRemoveIdx_succ {α} (x : α) (xs : List α) (j : Nat) (h : xs ≠ []) :
    swapRemoveIdx (j + 1) (x :: xs) = x :: swapRemoveIdx j xs := by
  cases xs with
  | nil => exact absurd rfl h
  | cons y ys =>
    simp only [swapRemoveIdx, List.getLast?_cons_cons]
    cases hl : (y :: ys).getLast? with
    | none => simp at hl
    | some l =>
      simp only [List.set_cons_succ]
      have : (y :: ys).set j l ≠ [] := by
        cases j <;> simp
      rw [List.dropLast_cons_of_ne_nil this]

theorem findKey_none_iff (k : Bytes) (l : KVs) : findKey k l = none ↔ lookup k l = none := by
  induction l with
  | nil => simp [findKey, lookup]
  | cons x r ih =>
    obtain ⟨k1, v1⟩ := x
    by_cases h : k1 = k <;> simp [findKey, lookup, h, ih]

theorem swapRemoveKey_cons (k k1 : Bytes) (v1 : JTree) (r : KVs) :
    swapRemoveKey k ((k1, v1) :: r) = if k1 = k then rot r else (k1, v1) :: swapRemoveKey k r := by
  by_cases h : k1 = k
  · simp [swapRemoveKey, findKey, h, swapRemoveIdx_zero]
  · simp only [swapRemoveKey, findKey, h, if_false]
    cases hf : findKey k r with
    | none => simp
    | some j =>
      have hr : r ≠ [] := by intro e; subst e; simp [findKey] at hf
      simp [swapRemoveIdx_succ _ _ _ hr]

theorem swapRemoveKey_perm (k : Bytes) (l : KVs) : (swapRemoveKey k l).Perm (eraseKey k l) := by
  induction l with
  | nil => simp [swapRemoveKey, findKey, eraseKey]
  | cons x r ih =>
    obtain ⟨k1, v1⟩ := x
    rw [swapRemoveKey_cons]
    by_cases h : k1 = k
    · simp [h, eraseKey, rot_perm]
    · simp [h, eraseKey, ih]

theorem nodupKeys_swapRemoveKey (k : Bytes) (l : KVs) (hn : nodupKeys l = true) :
    nodupKeys (swapRemoveKey k l) = true := by
  rw [nodupKeys_perm (swapRemoveKey_perm k l)]; exact nodupKeys_eraseKey k l hn

theorem lookup_swapRemoveKey (k k' : Bytes) (l : KVs) (hn : nodupKeys l = true) :
    lookup k' (swapRemoveKey k l) = if k' = k then none else lookup k' l := by
  rw [lookup_perm (swapRemoveKey_perm k l) (nodupKeys_swapRemoveKey k l hn), lookup_eraseKey k k' l hn]

theorem hasKey_swapRemoveKey (k k' : Bytes) (l : KVs) (hn : nodupKeys l = true) :
    hasKey k' (swapRemoveKey k l) = (decide (k' ≠ k) && hasKey k' l) := by
  rw [hasKey_perm (swapRemoveKey_perm k l), hasKey_eraseKey k k' l hn]

end FileD.Fields
