/-
  Concrete histories used by Props/C03.lean: non-vacuity instances and counterexample witnesses,
  evaluated by the kernel through the structural twin `stepS?` (`run_eq_S`).
-/
import FileD.Lemmas.FileRestartTrunc
namespace FileD.PropsC03
open FileD FileD.FileRestart FileD.SpecC03 FileD.SpecC06

def cfgAB : Cfg := ⟨fun _ => true, fun d => d.take 1⟩
def fileOK : Bytes := [97, 10, 98, 10, 97, 10, 97, 10]
def a1 : Ev := ⟨1, [97], 2, 1, [97, 10]⟩
def b2 : Ev := ⟨1, [98], 4, 1, [98, 10]⟩
def a3 : Ev := ⟨1, [97], 6, 2, [97, 10]⟩
def a4 : Ev := ⟨1, [97], 8, 3, [97, 10]⟩
def a4' : Ev := ⟨1, [97], 8, 1, [97, 10]⟩
def run1 : List Op :=
  [.create 1 0, .append 1 fileOK, .restart, .discover 1, .scanDone, .readTurn 1 [fileOK],
   .deliver a1, .deliver b2, .deliver a3, .deliver a4, .ack a1, .commit a1, .ack b2, .commit b2,
   .ack a3, .commit a3, .save 1]
def okOps : List Op :=
  run1 ++ [.crash, .restart, .discover 1, .scanDone, .readTurn 1 [[97, 10, 97, 10]], .deliver a4']

theorem ok_some : (TS.run (stepS? cfgAB) init okOps).isSome = true := by decide
def sOK : State := (TS.run (stepS? cfgAB) init okOps).get ok_some
theorem ok_run : TS.run (step? cfgAB) init okOps = some sOK := by
  rw [run_eq_S okOps skipInv_init]; simp [sOK]

theorem crash_some : (TS.run (stepS? cfgAB) init run1).isSome = true := by decide
def sCrash : State := (TS.run (stepS? cfgAB) init run1).get crash_some

theorem ok_noTruncate : NoTruncate okOps := by unfold NoTruncate; decide

theorem ok_lines {f : FileSt} (hf : sCrash.files 1 = some f) {l : Nat × Bytes} (hl : l ∈ lines f) :
    l = (2, [97, 10]) ∨ l = (4, [98, 10]) ∨ l = (6, [97, 10]) ∨ l = (8, [97, 10]) := by
  have : sCrash.files 1 = some ⟨0, fileOK⟩ := rfl
  rw [this] at hf; cases hf
  simpa [lines, fileOK, specLines, NL] using hl

theorem ok_crashCovered : CrashCovered cfgAB sCrash := by
  intro i f p l hf hp hl _ _
  have hpers : sCrash.persisted = upd (fun _ => none) 1 (some [([97], 6), ([98], 4)]) := rfl
  rw [hpers] at hp
  by_cases hi : i = 1
  · subst hi
    simp at hp; subst hp
    rcases ok_lines hf hl with rfl | rfl | rfl | rfl <;> decide
  · simp [upd, hi] at hp

theorem ok_atCrashes : AtCrashes cfgAB (CrashCovered cfgAB) init okOps := by
  refine atCrashes_of_crashStates okOps skipInv_init ?_
  intro sc hsc
  have : crashStates cfgAB init okOps = [sCrash] := rfl
  rw [this] at hsc
  simp at hsc; subst hsc
  exact ok_crashCovered

theorem ok_singleStream_fails : ¬ SingleStream cfgAB sCrash := by
  intro h
  have := h 1 ⟨0, fileOK⟩ (2, [97, 10]) (4, [98, 10]) rfl (by decide) (by decide)
  simp [cfgAB] at this

theorem ok_idle : Idle sOK := by
  refine ⟨by decide, by decide, ?_, ?_⟩
  · intro i f hf
    have hfiles : sOK.files = upd (upd (fun _ => none) 1 (some ⟨0, []⟩)) 1 (some ⟨0, fileOK⟩) := rfl
    rw [hfiles] at hf
    by_cases hi : i = 1
    · subst hi
      simp at hf; subst hf
      cases hj : sOK.jobs 1 with
      | none => have : (sOK.jobs 1).isSome = true := by decide
                rw [hj] at this; cases this
      | some j =>
        refine ⟨j, rfl, ?_⟩
        have : (sOK.jobs 1).map (·.w.curOffset) = some 8 := by decide
        rw [hj] at this; simpa [fileOK] using this
    · simp [upd, hi] at hf
  · have : sOK.inflight = [a4'] := by decide
    rw [this]
    intro e he; simp at he; subst he; decide


def fileA : Bytes := [97, 10, 97, 10]
def x1 : Ev := ⟨1, [97], 2, 1, [97, 10]⟩
def x2 : Ev := ⟨1, [97], 4, 2, [97, 10]⟩
def x2' : Ev := ⟨1, [97], 4, 1, [97, 10]⟩
def ssRun1 : List Op :=
  [.create 1 0, .append 1 fileA, .restart, .discover 1, .scanDone, .readTurn 1 [fileA],
   .deliver x1, .deliver x2, .ack x1, .commit x1, .save 1]
def ssOps : List Op := ssRun1 ++ [.crash, .restart, .discover 1, .scanDone, .readTurn 1 [[97, 10]], .deliver x2']

theorem ss_some : (TS.run (stepS? cfgAB) init ssOps).isSome = true := by decide
def sSS : State := (TS.run (stepS? cfgAB) init ssOps).get ss_some
theorem ss_crash_some : (TS.run (stepS? cfgAB) init ssRun1).isSome = true := by decide
def sSSCrash : State := (TS.run (stepS? cfgAB) init ssRun1).get ss_crash_some

theorem ss_single : SingleStream cfgAB sSSCrash := by
  intro i f l l' hf hl hl'
  have hfiles : sSSCrash.files = upd (upd (fun _ => none) 1 (some ⟨0, []⟩)) 1 (some ⟨0, fileA⟩) := rfl
  rw [hfiles] at hf
  by_cases hi : i = 1
  · subst hi
    simp at hf; subst hf
    have e : ∀ l, l ∈ lines ⟨0, fileA⟩ → l.2 = [97, 10] := by
      intro l hl
      have : l = (2, [97, 10]) ∨ l = (4, [97, 10]) := by simpa [lines, fileA, specLines, NL] using hl
      rcases this with rfl | rfl <;> rfl
    rw [e l hl, e l' hl']
  · simp [upd, hi] at hf


def fileBad : Bytes := [97, 10, 98, 10, 97, 10]
def ea1 : Ev := ⟨1, [97], 2, 1, [97, 10]⟩
def eb2 : Ev := ⟨1, [98], 4, 1, [98, 10]⟩
def ea3 : Ev := ⟨1, [97], 6, 2, [97, 10]⟩
/-- lines a1 b2 a3; a1 and a3 acked and committed, b2 in flight; the saved offsets are `{a: 6}`;
    the restarted job seeks to 6 and is idle at once -/
def badOps : List Op :=
  [.create 1 0, .append 1 fileBad, .restart, .discover 1, .scanDone, .readTurn 1 [fileBad],
   .deliver ea1, .deliver eb2, .deliver ea3, .ack ea1, .commit ea1, .ack ea3, .commit ea3, .save 1,
   .crash, .restart, .discover 1, .scanDone, .readTurn 1 []]

theorem bad_some : (TS.run (stepS? cfgAB) init badOps).isSome = true := by decide
def sBad : State := (TS.run (stepS? cfgAB) init badOps).get bad_some


theorem badCrash_some : (TS.run (stepS? cfgAB) init (badOps.take 14)).isSome = true := by decide
def sBadCrash : State := (TS.run (stepS? cfgAB) init (badOps.take 14)).get badCrash_some


def trOps : List Op :=
  [.create 1 0, .append 1 fileA, .restart, .discover 1, .scanDone, .readTurn 1 [fileA],
   .deliver x1, .deliver x2, .truncate 1]
def cfgA : Cfg := ⟨fun _ => true, fun _ => [97]⟩
theorem tr_some : (TS.run (stepS? cfgA) init trOps).isSome = true := by decide
def sTr : State := (TS.run (stepS? cfgA) init trOps).get tr_some


def fileAAB : Bytes := [97, 10, 97, 10, 98, 10]
def y1 : Ev := ⟨1, [97], 2, 1, [97, 10]⟩
def y2 : Ev := ⟨1, [97], 4, 2, [97, 10]⟩
def y3 : Ev := ⟨1, [98], 6, 1, [98, 10]⟩
def trBadOps : List Op :=
  [.create 1 0, .append 1 fileAAB, .restart, .discover 1, .scanDone, .readTurn 1 [fileAAB], .truncate 1]
theorem trBad_some : (TS.run (stepS? cfgAB) init trBadOps).isSome = true := by decide
def sTrBad : State := (TS.run (stepS? cfgAB) init trBadOps).get trBad_some


/-! after the truncation: one new line `a\n` is written, read and handed to the output -/
def trPre : List Op :=
  [.create 1 0, .append 1 fileA, .restart, .discover 1, .scanDone, .readTurn 1 [fileA],
   .deliver x1, .deliver x2]
def z1 : Ev := ⟨1, [97], 2, 3, [97, 10]⟩
def trPost : List Op := [.ack x1, .commit x1, .append 1 [97, 10], .readTurn 1 [[97, 10]], .deliver z1]
theorem trPre_some : (TS.run (stepS? cfgA) init trPre).isSome = true := by decide
def sTrPre : State := (TS.run (stepS? cfgA) init trPre).get trPre_some
theorem trAll_some :
    (TS.run (stepS? cfgA) init (trPre ++ [.truncate 1, .readTurn 1 []] ++ trPost)).isSome = true := by decide
def sTrAll : State := (TS.run (stepS? cfgA) init (trPre ++ [.truncate 1, .readTurn 1 []] ++ trPost)).get trAll_some

/-! a job that has read and committed everything (release allowed), and the same after one more append -/
def relOps : List Op :=
  [.create 1 0, .append 1 fileA, .restart, .discover 1, .scanDone, .readTurn 1 [fileA],
   .deliver x1, .deliver x2, .ack x1, .commit x1, .ack x2, .commit x2]
theorem rel_some : (TS.run (stepS? cfgAB) init relOps).isSome = true := by decide
def sRel : State := (TS.run (stepS? cfgAB) init relOps).get rel_some
theorem rel2_some : (TS.run (stepS? cfgAB) init (relOps ++ [.append 1 [97, 10]])).isSome = true := by decide
def sRel2 : State := (TS.run (stepS? cfgAB) init (relOps ++ [.append 1 [97, 10]])).get rel2_some

/-! a1 a2 read, acked, saved `{a: 4}`; kill; the file's inode gets new content (modelled as truncate + append
    while down); restart loads the stale entry; the scan ends before the file shows up -/
def lateOps : List Op :=
  relOps ++ [.save 1, .crash, .truncate 1, .append 1 [97, 10, 97, 10, 97, 10], .restart, .scanDone]
theorem late_some : (TS.run (stepS? cfgAB) init lateOps).isSome = true := by decide
def sLate : State := (TS.run (stepS? cfgAB) init lateOps).get late_some

end FileD.PropsC03
