/-
  Helper lemmas for C10: kernel-only BitVec facts about the regenerated packing functions
  (no `bv_decide`: toNat / toInt arithmetic + omega).
-/
import FileD.Gen.KafkaPack
namespace FileD.LemmasKafkaPack
open FileD.Gen.KafkaPack

theorem and_ffff (n : Nat) : n &&& 65535 = n % 65536 := by
  have := Nat.and_two_pow_sub_one_eq_mod n 16
  simpa using this

theorem msb_false_of_lt {w : Nat} (x : BitVec w) (k : Nat) (hk : k < w) (h : x.toNat < 2 ^ k) :
    x.msb = false := by
  rw [BitVec.msb_eq_decide]
  have : 2 ^ k ≤ 2 ^ (w - 1) := Nat.pow_le_pow_right (by omega) (by omega)
  simp; omega

/-- `disassembleSourceID ∘ assembleSourceID = id` on 48-bit indices and 16-bit partitions -/
theorem sourceID_roundtrip (index : BitVec 64) (partition : BitVec 32)
    (hi : index.toNat < 2 ^ 48) (hp : partition.toNat < 2 ^ 16) :
    disassembleSourceID (assembleSourceID index partition) = (index, partition) := by
  unfold disassembleSourceID assembleSourceID
  have hm : partition.msb = false := msb_false_of_lt _ 16 (by omega) hp
  simp only [Prod.mk.injEq]
  constructor
  · apply BitVec.eq_of_toNat_eq
    simp only [BitVec.toNat_ushiftRight, BitVec.toNat_add, BitVec.toNat_shiftLeft,
      BitVec.toNat_signExtend, hm, Nat.shiftLeft_eq, Nat.shiftRight_eq_div_pow, BitVec.toNat_setWidth]
    simp
    omega
  · apply BitVec.eq_of_toNat_eq
    simp only [BitVec.toNat_and, BitVec.toNat_add, BitVec.toNat_shiftLeft, BitVec.toNat_signExtend,
      hm, Nat.shiftLeft_eq, BitVec.toNat_setWidth, BitVec.toNat_ofNat]
    simp
    rw [and_ffff]
    omega

/-- `disassembleOffset ∘ assembleOffset` = (leader epoch, offset + 1) on 47-bit offsets and 16-bit epochs -/
theorem offset_roundtrip (message : Record)
    (ho : message.Offset.toNat < 2 ^ 47) (he : message.LeaderEpoch.toNat < 2 ^ 16) :
    disassembleOffset (assembleOffset message)
      = { Epoch := message.LeaderEpoch, Offset := message.Offset + 1 } := by
  unfold disassembleOffset assembleOffset
  have hm : message.LeaderEpoch.msb = false := msb_false_of_lt _ 16 (by omega) he
  have e : ((message.Offset <<< 16) + BitVec.signExtend 64 message.LeaderEpoch).toNat
      = message.Offset.toNat * 65536 + message.LeaderEpoch.toNat := by
    simp only [BitVec.toNat_add, BitVec.toNat_shiftLeft, BitVec.toNat_signExtend, hm,
      Nat.shiftLeft_eq, BitVec.toNat_setWidth]
    simp
    omega
  simp only [EpochOffset.mk.injEq]
  constructor
  · apply BitVec.eq_of_toNat_eq
    simp only [BitVec.toNat_setWidth, BitVec.toNat_and, e, BitVec.toNat_ofNat]
    simp
    rw [and_ffff]
    omega
  · congr 1
    apply BitVec.eq_of_toInt_eq
    rw [BitVec.toInt_sshiftRight]
    simp only [BitVec.toInt_eq_toNat_cond, e]
    have : 2 * (message.Offset.toNat * 65536 + message.LeaderEpoch.toNat) < 2 ^ 64 := by omega
    have : 2 * message.Offset.toNat < 2 ^ 64 := by omega
    simp [*, Int.shiftRight_eq_div_pow]
    omega

end FileD.LemmasKafkaPack
