/-
  Helper lemmas for C16 (FileD/Props/C16.lean): checked accesses succeed on well-shaped
  limiters, the bucket ring seen as a function from bucket ids to counters (`slotOf`),
  characterisations of `resetFn`, `rebuild`, `getDistrData`, `isAllowed`, the simulation
  between the model and the abstract machine of Spec/C16, and the facts about the abstract
  machine the property theorems are assembled from.
-/
import FileD.Model.Throttle
import FileD.Spec.C16
namespace FileD.ThrottleLemmas
open FileD FileD.Throttle FileD.SpecC16

/-! ### checked accesses -/

theorem idx?_ok {α} (b : List α) (i : Int) (h0 : 0 ≤ i) (h1 : i.toNat < b.length) :
    GoSlice.idx? b i = .ok (b[i.toNat]'h1) := by
  unfold GoSlice.idx?
  have : ¬ i < 0 := by omega
  simp [this, List.getElem?_eq_getElem h1]

theorem idx?_nat_ok {α} (b : List α) (i : Nat) (h1 : i < b.length) :
    GoSlice.idx? b (i : Int) = .ok (b[i]'h1) := by
  have := idx?_ok b (i : Int) (by omega) (by simpa using h1)
  simpa using this

theorem sliceFrom?_ok {α} (b : List α) (n : Int) (h0 : 0 ≤ n) (h1 : n ≤ b.length) :
    GoSlice.sliceFrom? b n = .ok (b.drop n.toNat) := by
  unfold GoSlice.sliceFrom? GoSlice.slice?
  have : 0 ≤ n ∧ n ≤ (b.length : Int) ∧ (b.length : Int) ≤ b.length := ⟨h0, h1, Int.le_refl _⟩
  simp only [this, and_self, ↓reduceIte]
  congr 1
  apply List.take_of_length_le
  simp

theorem sliceTo?_ok {α} (b : List α) (n : Int) (h0 : 0 ≤ n) (h1 : n ≤ b.length) :
    GoSlice.sliceTo? b n = .ok (b.take n.toNat) := by
  unfold GoSlice.sliceTo? GoSlice.slice?
  have : (0 : Int) ≤ 0 ∧ 0 ≤ n ∧ n ≤ (b.length : Int) := ⟨Int.le_refl _, h0, h1⟩
  simp [this]

/-! ### the ring as a function -/

/-- counter at row `j`, column `d` (0 outside the table) -/
def cell (b : Rows) (j d : Nat) : Int :=
  match b[j]? with
  | some row =>
    match row[d]? with
    | some v => v
    | none => 0
  | none => 0

/-- the counter a limiter holds for bucket id `x`, column `d`: 0 outside its window -/
def slotOf (l : Lim) (x : Int) (d : Nat) : Int :=
  if l.minID ≤ x ∧ x ≤ l.maxID then cell l.b (x - l.minID).toNat d else 0

/-- shape of a bucket table: `count` rows of width `w` -/
def Shape (count w : Nat) (b : Rows) : Prop := b.length = count ∧ ∀ row ∈ b, row.length = w

theorem cell_set_row (b : Rows) (i : Nat) (row : List Int) (j d : Nat) (hi : i < b.length) :
    cell (b.set i row) j d = if j = i then (match row[d]? with | some v => v | none => 0) else cell b j d := by
  unfold cell
  rw [List.getElem?_set]
  by_cases h : i = j
  · subst h; simp [hi]
  · have : ¬ j = i := fun e => h e.symm
    simp [h, this]

theorem shape_set (count w : Nat) (b : Rows) (i : Nat) (row : List Int) (hs : Shape count w b)
    (hr : row.length = w) : Shape count w (b.set i row) := by
  refine ⟨by simp [hs.1], ?_⟩
  intro r hr'
  rcases List.mem_or_eq_of_mem_set hr' with h | h
  · exact hs.2 r h
  · subst h; exact hr

/-! ### resetFn -/

theorem resetRow_ok (b : Rows) (i : Int) (h0 : 0 ≤ i) (h1 : i.toNat < b.length) :
    resetRow b i = .ok (b.set i.toNat ((b[i.toNat]'h1).map (fun _ => 0))) := by
  unfold resetRow
  rw [idx?_ok b i h0 h1]
  rfl

theorem zero_row_get (row : List Int) (d : Nat) :
    (match (row.map (fun _ => (0 : Int)))[d]? with | some v => v | none => 0) = 0 := by
  rw [List.getElem?_map]
  cases row[d]? <;> simp

/-- the zeroing loop of `resetFn`: after `m` iterations the last `m` rows are zero -/
theorem resetLoop_ok (count w : Nat) (b1 : Rows) (hs : Shape count w b1) (m : Nat) (hm : m ≤ count) :
    ∃ b', (List.range m).foldlM (fun acc (i : Nat) => resetRow acc ((count : Int) - 1 - (i : Int))) b1 = .ok b' ∧
      Shape count w b' ∧
      ∀ j d, cell b' j d = if count - m ≤ j ∧ j < count then 0 else cell b1 j d := by
  induction m with
  | zero =>
    refine ⟨b1, rfl, hs, ?_⟩
    intro j d
    have : ¬ (count - 0 ≤ j ∧ j < count) := by omega
    rw [if_neg this]
  | succ m ih =>
    obtain ⟨b', hrun, hs', hcell⟩ := ih (by omega)
    rw [List.range_succ, List.foldlM_append, hrun]
    have h0 : (0 : Int) ≤ (count : Int) - 1 - (m : Int) := by omega
    have h1 : ((count : Int) - 1 - (m : Int)).toNat < b'.length := by rw [hs'.1]; omega
    have hidx : ((count : Int) - 1 - (m : Int)).toNat = count - 1 - m := by omega
    refine ⟨b'.set (count - 1 - m) ((b'[count - 1 - m]'(by rw [hs'.1]; omega)).map (fun _ => 0)), ?_, ?_, ?_⟩
    · simp only [bind, Except.bind, List.foldlM_cons, List.foldlM_nil]
      rw [resetRow_ok b' _ h0 h1]
      simp [hidx, pure, Except.pure]
    · apply shape_set _ _ _ _ _ hs'
      simp
      exact hs'.2 _ (List.getElem_mem _)
    · intro j d
      rw [cell_set_row _ _ _ _ _ (by rw [hs'.1]; omega)]
      by_cases hj : j = count - 1 - m
      · have : count - (m + 1) ≤ j ∧ j < count := by omega
        rw [if_pos hj, if_pos this]
        exact zero_row_get _ _
      · rw [if_neg hj, hcell]
        by_cases h2 : count - m ≤ j ∧ j < count
        · have : count - (m + 1) ≤ j ∧ j < count := by omega
          rw [if_pos h2, if_pos this]
        · have : ¬ (count - (m + 1) ≤ j ∧ j < count) := by omega
          rw [if_neg h2, if_neg this]

theorem cell_rot (count : Nat) (b : Rows) (hl : b.length = count) (k j d : Nat) (hk : k ≤ count)
    (hj : j + k < count) : cell (b.drop k ++ b.take k) j d = cell b (j + k) d := by
  unfold cell
  rw [List.getElem?_append_left (by simp; omega), List.getElem?_drop, Nat.add_comm]

theorem shape_rot (count w : Nat) (b : Rows) (hs : Shape count w b) (k : Nat) (hk : k ≤ count) :
    Shape count w (b.drop k ++ b.take k) := by
  refine ⟨by simp [hs.1]; omega, ?_⟩
  intro r hr
  rcases List.mem_append.mp hr with h | h
  · exact hs.2 r (List.mem_of_mem_drop h)
  · exact hs.2 r (List.mem_of_mem_take h)

/-- `resetFn count n`: the ring moves by `n`, the `n` newest rows are zero -/
theorem resetFn_ok (count w : Nat) (b : Rows) (hs : Shape count w b) (n : Int) (h1 : 1 ≤ n)
    (h2 : n ≤ count) :
    ∃ b', resetFn count n b = .ok b' ∧ Shape count w b' ∧
      ∀ j d, j < count → cell b' j d = if j + n.toNat < count then cell b (j + n.toNat) d else 0 := by
  unfold resetFn
  rw [sliceFrom?_ok b n (by omega) (by rw [hs.1]; exact h2), sliceTo?_ok b n (by omega) (by rw [hs.1]; exact h2)]
  obtain ⟨b', hrun, hs', hcell⟩ := resetLoop_ok count w _ (shape_rot count w b hs n.toNat (by omega)) n.toNat (by omega)
  refine ⟨b', ?_, hs', ?_⟩
  · simpa [bind, Except.bind] using hrun
  · intro j d hj
    rw [hcell]
    by_cases h : j + n.toNat < count
    · have : ¬ (count - n.toNat ≤ j ∧ j < count) := by omega
      rw [if_neg this, if_pos h]
      exact cell_rot count b hs.1 n.toNat j d (by omega) h
    · have : count - n.toNat ≤ j ∧ j < count := by omega
      rw [if_pos this, if_neg h]

/-! ### rebuild -/

/-- ids are set (at least one `rebuild` happened) and consistent -/
def Ready (count : Nat) (l : Lim) : Prop := 1 ≤ l.minID ∧ l.maxID = l.minID + count - 1

/-- never rebuilt: what `newInMemoryLimiter` creates -/
def Fresh (l : Lim) : Prop := l.minID = 0 ∧ l.maxID = 0 ∧ ∀ j d, cell l.b j d = 0

/-- the id `rebuildBuckets` returns when the window ends at `cur` -/
def idIn (count : Nat) (cur tid : Int) : Int :=
  if tid < cur - count + 1 ∨ tid > cur then cur else tid

theorem rebuild_ok (count w : Nat) (I : Int) (l : Lim) (now ts : Int) (hc : 0 < count)
    (hs : Shape count w l.b)
    (hpre : Fresh l ∨ (Ready count l ∧ l.maxID ≤ timeToBucketID I now)) :
    ∃ l1, rebuild count I l now ts = .ok (l1, idIn count (timeToBucketID I now) (timeToBucketID I ts)) ∧
      l1.limit = l.limit ∧ l1.kind = l.kind ∧ l1.distr = l.distr ∧ Shape count w l1.b ∧
      l1.maxID = timeToBucketID I now ∧ l1.minID = timeToBucketID I now - count + 1 ∧
      ∀ x d, slotOf l1 x d = if l1.minID ≤ x ∧ x ≤ l1.maxID then slotOf l x d else 0 := by
  generalize hcur' : timeToBucketID I now = cur at *
  rcases hpre with hf | ⟨hr, hle⟩
  · -- never rebuilt: ids are initialised from the clock, nothing is shifted
    obtain ⟨hmin, hmax, hz⟩ := hf
    refine ⟨{ l with minID := cur - count + 1, maxID := cur }, ?_, rfl, rfl, rfl, hs, rfl, rfl, ?_⟩
    · unfold rebuild
      simp only [hcur', hmin, ↓reduceIte]
      have : ¬ (cur > cur - count + 1 + count - 1) := by omega
      simp only [this, ↓reduceIte, bind, Except.bind, pure, Except.pure, idIn]
    · intro x d
      have h1 : slotOf l x d = 0 := by
        unfold slotOf; split
        · exact hz _ _
        · rfl
      rw [h1]
      unfold slotOf
      simp only
      split
      · exact hz _ _
      · rfl
  · obtain ⟨hmin, hmax⟩ := hr
    have hne : ¬ l.minID = 0 := by omega
    by_cases hsh : cur > l.maxID
    · -- the clock left the window: shift by `dif`, reset the `min dif count` newest rows
      have hn1 : 1 ≤ min (cur - (l.minID + count - 1)) (count : Int) := by omega
      have hn2 : min (cur - (l.minID + count - 1)) (count : Int) ≤ count := by omega
      obtain ⟨b', hreset, hs', hcell⟩ := resetFn_ok count w l.b hs _ hn1 hn2
      refine ⟨{ l with minID := l.minID + (cur - (l.minID + count - 1)), maxID := cur, b := b' }, ?_, rfl, rfl, rfl, hs', rfl, by simp only; omega, ?_⟩
      · unfold rebuild
        simp only [hcur', hne, ↓reduceIte]
        have : cur > l.minID + count - 1 := by omega
        simp only [this, ↓reduceIte, bind, Except.bind, hreset, pure, Except.pure, idIn]
        congr 2
        have e : l.minID + (cur - (l.minID + ↑count - 1)) = cur - count + 1 := by omega
        simp only [e]
      · intro x d
        unfold slotOf
        simp only
        by_cases hw : l.minID + (cur - (l.minID + ↑count - 1)) ≤ x ∧ x ≤ cur
        · rw [if_pos hw, if_pos hw]
          have hj : (x - (l.minID + (cur - (l.minID + ↑count - 1)))).toNat < count := by omega
          rw [hcell _ _ hj]
          by_cases hx : x ≤ l.maxID
          · have h1 : (x - (l.minID + (cur - (l.minID + ↑count - 1)))).toNat
                + (min (cur - (l.minID + ↑count - 1)) (count : Int)).toNat < count := by omega
            have h2 : l.minID ≤ x ∧ x ≤ l.maxID := by omega
            rw [if_pos h1, if_pos h2]
            congr 1
            omega
          · have h1 : ¬ ((x - (l.minID + (cur - (l.minID + ↑count - 1)))).toNat
                + (min (cur - (l.minID + ↑count - 1)) (count : Int)).toNat < count) := by omega
            have h2 : ¬ (l.minID ≤ x ∧ x ≤ l.maxID) := by omega
            rw [if_neg h1, if_neg h2]
        · rw [if_neg hw, if_neg hw]
    · -- the clock is still in the newest bucket
      have hcm : cur = l.maxID := by omega
      refine ⟨l, ?_, rfl, rfl, rfl, hs, hcm.symm, by omega, ?_⟩
      · unfold rebuild
        simp only [hcur', hne, ↓reduceIte]
        have : ¬ (cur > l.minID + count - 1) := by omega
        simp only [this, ↓reduceIte, bind, Except.bind, pure, Except.pure, idIn]
        have e1 : cur - count + 1 = l.minID := by omega
        rw [e1, hcm]
      · intro x d
        unfold slotOf
        split <;> rfl

/-! ### distributions -/

/-- a row read as a function (0 outside) -/
def rget (row : List Int) (c : Nat) : Int :=
  match row[c]? with
  | some v => v
  | none => 0

theorem rget_lt (row : List Int) (c : Nat) (h : c < row.length) : rget row c = row[c] := by
  unfold rget; rw [List.getElem?_eq_getElem h]

theorem lookup_mem {β} (l : List (Bytes × β)) (k : Bytes) (v : β) (h : l.lookup k = some v) :
    ∃ kv ∈ l, kv.2 = v := by
  induction l with
  | nil => simp [List.lookup] at h
  | cons x t ih =>
    obtain ⟨k', v'⟩ := x
    simp only [List.lookup] at h
    split at h
    · exact ⟨(k', v'), List.mem_cons_self, by simpa using h⟩
    · obtain ⟨kv, hm, he⟩ := ih h
      exact ⟨kv, List.mem_cons_of_mem _ hm, he⟩

theorem stealLoop_ok (row : List Int) (val : Int) (ds : List Int) (i : Nat) (md : Int) (c : Nat)
    (lim : Int) (h : i + ds.length < row.length) :
    stealLoop row val ds i ⟨md, (c : Int), lim⟩ =
      .ok ⟨(stealA (rget row) val ds i ⟨md, c, lim⟩).maxDiff,
           ((stealA (rget row) val ds i ⟨md, c, lim⟩).col : Int),
           (stealA (rget row) val ds i ⟨md, c, lim⟩).limit⟩ := by
  induction ds generalizing i md c lim with
  | nil => rfl
  | cons dl ds ih =>
    simp only [List.length_cons] at h
    unfold stealLoop stealA
    have hi : i + 1 < row.length := by omega
    have e : GoSlice.idx? row ((i : Int) + 1) = .ok (row[i + 1]'hi) := by
      have := idx?_nat_ok row (i + 1) hi
      simpa using this
    simp only [e, bind, Except.bind, rget_lt row (i + 1) hi]
    split
    · have := ih (i + 1) (dl - (row[i + 1] + val)) (i + 1) dl (by omega)
      simpa using this
    · exact ih (i + 1) md c lim (by omega)

theorem stealA_col_le (get : Nat → Int) (val : Int) (ds : List Int) (i : Nat) (p : PickA) (bound : Nat)
    (hp : p.col ≤ bound) (hb : i + ds.length ≤ bound) : (stealA get val ds i p).col ≤ bound := by
  induction ds generalizing i p with
  | nil => exact hp
  | cons dl ds ih =>
    simp only [List.length_cons] at hb
    unfold stealA
    split
    · exact ih (i + 1) _ (by simp only; omega) (by omega)
    · exact ih (i + 1) p hp (by omega)

/-- every listed value points at an existing share -/
def IdxOK (d : Distr) : Prop := ∀ kv ∈ d.idxByKey, kv.2 < d.limits.length

theorem distrA_col_le (d : Distr) (k : Kind) (get : Nat → Int) (e : Ev) :
    (distrA d k get e).1 ≤ d.limits.length := by
  unfold distrA
  split
  · rename_i j _
    split
    · rename_i s hs
      have : j < d.limits.length := by
        rcases Nat.lt_or_ge j d.limits.length with h | h
        · exact h
        · rw [List.getElem?_eq_none h] at hs; cases hs
      simp only; omega
    · simp
  · split
    · simp
    · exact stealA_col_le _ _ _ _ _ _ (by simp) (by simp)

theorem getDistrData_ok (l : Lim) (row : List Int) (e : Ev) (hw : row.length = l.distr.limits.length + 1)
    (hidx : IdxOK l.distr) :
    getDistrData l row e =
      .ok (((distrA l.distr l.kind (rget row) e).1 : Int), (distrA l.distr l.kind (rget row) e).2) := by
  unfold getDistrData getLimit distrA listedIdx
  cases hlk : l.distr.idxByKey.lookup (fieldVal e.fields l.distr.field) with
  | some j =>
    obtain ⟨kv, hm, he⟩ := lookup_mem _ _ _ hlk
    have hj : j < l.distr.limits.length := by have := hidx kv hm; rw [he] at this; exact this
    simp only [idx?_nat_ok l.distr.limits j hj, bind, Except.bind, pure, Except.pure,
      List.getElem?_eq_getElem hj]
    have : (j : Int) + 1 > 0 := by omega
    simp only [this, ↓reduceIte]
    congr 2
  | none =>
    simp only [bind, Except.bind, pure, Except.pure]
    have h0 : ¬ ((-1 : Int) + 1 > 0) := by omega
    simp only [h0, ↓reduceIte]
    have hr0 : 0 < row.length := by omega
    have e0 : GoSlice.idx? row ((-1 : Int) + 1) = .ok (row[0]'hr0) := by
      have := idx?_nat_ok row 0 hr0
      simpa using this
    simp only [e0, rget_lt row 0 hr0]
    split
    · rfl
    · have := stealLoop_ok row (evVal l.kind e) l.distr.limits 0 (-1) 0 l.distr.defLimit (by omega)
      have e1 : ((-1 : Int) + 1) = ((0 : Nat) : Int) := by omega
      rw [e1, this]

/-! ### isAllowed -/

theorem cell_set_cell (count w : Nat) (b : Rows) (hs : Shape count w b) (i c : Nat) (hi : i < count)
    (hc : c < w) (v : Int) (j d : Nat) :
    cell (b.set i ((b[i]'(by rw [hs.1]; exact hi)).set c v)) j d
      = if j = i ∧ d = c then v else cell b j d := by
  have hil : i < b.length := by rw [hs.1]; exact hi
  rw [cell_set_row _ _ _ _ _ hil]
  have hrl : (b[i]'hil).length = w := hs.2 _ (List.getElem_mem _)
  by_cases hj : j = i
  · subst hj
    rw [if_pos rfl, List.getElem?_set]
    by_cases hd : c = d
    · subst hd
      simp [hrl, hc]
    · have hd' : ¬ d = c := fun e => hd e.symm
      simp only [hd, ↓reduceIte, hd', and_false]
      unfold cell
      rw [List.getElem?_eq_getElem hil]
  · simp [hj]

/-- the distribution a limiter created for rule `r` holds -/
def effDistr (r : Rule) : Distr := if 0 < r.distr.limits.length then r.distr else Distr.empty

theorem effDistr_enabled (r : Rule) : (effDistr r).isEnabled = r.distr.isEnabled := by
  unfold effDistr
  split
  · rfl
  · rename_i h
    simp [Distr.isEnabled, Distr.empty, h]

theorem effDistr_of_enabled (r : Rule) (h : r.distr.isEnabled = true) : effDistr r = r.distr := by
  unfold effDistr
  simp only [Distr.isEnabled, Bool.and_eq_true, decide_eq_true_eq] at h
  simp [h.2]

/-- a limiter that belongs to rule `r` -/
structure LimOf (count : Nat) (r : Rule) (l : Lim) : Prop where
  limit : l.limit = r.limit
  kind : l.kind = r.kind
  distr : l.distr = effDistr r
  shape : Shape count (r.distr.limits.length + 1) l.b

theorem newLim_limOf (cfg : Cfg) (r : Rule) : LimOf cfg.count r (newLim cfg r) := by
  refine ⟨rfl, rfl, rfl, ?_, ?_⟩
  · simp [newLim]
  · intro row hrow
    simp only [newLim] at hrow
    rw [List.eq_of_mem_replicate hrow]
    simp

theorem newLim_fresh (cfg : Cfg) (r : Rule) : Fresh (newLim cfg r) := by
  refine ⟨rfl, rfl, ?_⟩
  intro j d
  unfold cell
  simp only [newLim, List.getElem?_replicate]
  by_cases h1 : j < cfg.count
  · simp only [h1, ↓reduceIte, List.getElem?_replicate]
    by_cases h2 : d < r.distr.limits.length + 1 <;> simp [h2]
  · simp [h1]

theorem slotOf_in (l : Lim) (x : Int) (d : Nat) (hw : l.minID ≤ x ∧ x ≤ l.maxID) :
    slotOf l x d = cell l.b (x - l.minID).toNat d := by
  unfold slotOf; rw [if_pos hw]

theorem slotOf_out (l : Lim) (x : Int) (d : Nat) (hw : ¬ (l.minID ≤ x ∧ x ≤ l.maxID)) :
    slotOf l x d = 0 := by
  unfold slotOf; rw [if_neg hw]

theorem isAllowed_ok (count : Nat) (I : Int) (r : Rule) (l : Lim) (e : Ev) (hc : 0 < count)
    (hl : LimOf count r l) (h0 : 0 ≤ r.limit) (hidx : r.distr.isEnabled = true → IdxOK r.distr)
    (hpre : Fresh l ∨ (Ready count l ∧ l.maxID ≤ timeToBucketID I e.now))
    (cur id : Int) (cl : Nat × Int) (hcur : timeToBucketID I e.now = cur)
    (hid : idIn count cur (timeToBucketID I e.ts) = id) (hcl : colLim r (slotOf l id) e = cl) :
    ∃ l2, isAllowed count I l e
          = .ok (l2, decide (slotOf l id cl.1 + evVal r.kind e ≤ cl.2)) ∧
      LimOf count r l2 ∧ l2.maxID = cur ∧ l2.minID = cur - count + 1 ∧
      ∀ x d, slotOf l2 x d = (if l2.minID ≤ x ∧ x ≤ l2.maxID then slotOf l x d else 0)
        + (if x = id ∧ d = cl.1 then evVal r.kind e else 0) := by
  obtain ⟨l1, hreb, hlim1, hkind1, hdistr1, hs1, hmax1, hmin1, hslot1⟩ :=
    rebuild_ok count (r.distr.limits.length + 1) I l e.now e.ts hc hl.shape hpre
  rw [hcur] at hreb hmax1 hmin1
  rw [hid] at hreb
  -- the attributed bucket lies inside the new window
  have hidw : cur - count + 1 ≤ id ∧ id ≤ cur := by
    rw [← hid]; unfold idIn; split <;> omega
  have hw1 : l1.minID ≤ id ∧ id ≤ l1.maxID := by rw [hmin1, hmax1]; exact hidw
  have hi0 : 0 ≤ id - l1.minID := by omega
  have hi1 : (id - l1.minID).toNat < count := by omega
  have hil : (id - l1.minID).toNat < l1.b.length := by rw [hs1.1]; exact hi1
  have hrow : GoSlice.idx? l1.b (id - l1.minID) = .ok (l1.b[(id - l1.minID).toNat]'hil) :=
    idx?_ok _ _ hi0 hil
  have hrl : (l1.b[(id - l1.minID).toNat]'hil).length = r.distr.limits.length + 1 :=
    hs1.2 _ (List.getElem_mem _)
  -- the row of the attributed bucket, read as a function, is the limiter's slot function
  have hget : ∀ c, rget (l1.b[(id - l1.minID).toNat]'hil) c = slotOf l id c := by
    intro c
    have h1 := hslot1 id c
    rw [if_pos hw1] at h1
    rw [← h1, slotOf_in l1 id c hw1]
    unfold cell rget
    rw [List.getElem?_eq_getElem hil]
  have hen : l1.distr.isEnabled = r.distr.isEnabled := by rw [hdistr1, hl.distr, effDistr_enabled]
  have hclb : cl.1 < r.distr.limits.length + 1 := by
    rw [← hcl]
    unfold colLim
    split
    · have := distrA_col_le r.distr r.kind (slotOf l id) e
      omega
    · simp
  have hcurv : GoSlice.idx? (l1.b[(id - l1.minID).toNat]'hil) (cl.1 : Int)
      = .ok (slotOf l id cl.1) := by
    rw [idx?_nat_ok _ _ (by rw [hrl]; exact hclb), ← hget, rget_lt]
  have hneg : ¬ l.limit < 0 := by rw [hl.limit]; omega
  refine ⟨{ l1 with b := (l1.b.set (id - l1.minID).toNat ((l1.b[(id - l1.minID).toNat]'hil).set cl.1 (slotOf l id cl.1 + evVal r.kind e))) }, ?_, ?_, hmax1, hmin1, ?_⟩
  · unfold isAllowed
    simp only [hneg, ↓reduceIte, hreb, bind, Except.bind, hrow, hen]
    cases hE : r.distr.isEnabled with
    | false =>
      have hclv : cl = (0, r.limit) := by rw [← hcl]; unfold colLim; simp [hE]
      subst hclv
      have this : GoSlice.idx? (l1.b[(id - l1.minID).toNat]'hil) (0 : Int) = .ok (slotOf l id 0) := by
        simpa using hcurv
      simp only [Bool.false_eq_true, ↓reduceIte, pure, Except.pure, this, Int.toNat_zero, hkind1,
        hl.kind, hlim1, hl.limit]
    | true =>
      have hd : l1.distr = r.distr := by rw [hdistr1, hl.distr, effDistr_of_enabled r hE]
      have hclv : cl = distrA r.distr r.kind (slotOf l id) e := by rw [← hcl]; unfold colLim; simp [hE]
      have hfun : rget (l1.b[(id - l1.minID).toNat]'hil) = slotOf l id := funext hget
      have hdd := getDistrData_ok l1 (l1.b[(id - l1.minID).toNat]'hil) e (by rw [hrl, hd]) (by rw [hd]; exact hidx hE)
      rw [hfun, hd, hkind1, hl.kind, ← hclv] at hdd
      simp only [↓reduceIte, hdd, hcurv, pure, Except.pure, Int.toNat_natCast, hkind1, hl.kind]
  · refine ⟨by simp only; rw [hlim1, hl.limit], by simp only; rw [hkind1, hl.kind],
      by simp only; rw [hdistr1, hl.distr], ?_⟩
    exact shape_set _ _ _ _ _ hs1 (by simp [hrl])
  · intro x d
    generalize hv : slotOf l id cl.1 + evVal r.kind e = v'
    have hcs := cell_set_cell count (r.distr.limits.length + 1) l1.b hs1 (id - l1.minID).toNat cl.1 hi1 hclb v'
    have h1 := hslot1 x d
    simp only
    by_cases hw : l1.minID ≤ x ∧ x ≤ l1.maxID
    · rw [if_pos hw] at h1 ⊢
      have hL : ∀ B, slotOf { l1 with b := B } x d = cell B (x - l1.minID).toNat d :=
        fun B => slotOf_in { l1 with b := B } x d hw
      rw [hL, hcs, ← h1]
      by_cases hx : x = id ∧ d = cl.1
      · obtain ⟨hx1, hx2⟩ := hx
        subst hx1; subst hx2
        rw [if_pos ⟨rfl, rfl⟩, if_pos ⟨rfl, rfl⟩, ← hv]
        have := hslot1 x cl.1
        rw [if_pos hw] at this
        rw [this]
      · have n1 : ¬ ((x - l1.minID).toNat = (id - l1.minID).toNat ∧ d = cl.1) := by
          intro h; apply hx; refine ⟨?_, h.2⟩; have := h.1; omega
        rw [if_neg n1, if_neg hx, slotOf_in l1 x d hw]; omega
    · rw [if_neg hw]
      have hx : ¬ (x = id ∧ d = cl.1) := by
        intro h; apply hw; rw [h.1]; exact hw1
      have hL : ∀ B, slotOf { l1 with b := B } x d = 0 :=
        fun B => slotOf_out { l1 with b := B } x d hw
      rw [if_neg hx, hL]; rfl

/-! ### the limiters map -/

theorem lookup_upsert_self (k : Bytes) (v : Lim) (m : List (Bytes × Lim)) :
    (upsert k v m).lookup k = some v := by
  induction m with
  | nil => simp [upsert]
  | cons kv t ih =>
    obtain ⟨k', v'⟩ := kv
    unfold upsert
    by_cases h : k' = k
    · simp [h]
    · have : (k == k') = false := by simp; exact fun e => h e.symm
      simp only [h, ↓reduceIte, List.lookup_cons, this, ih]

theorem lookup_upsert_ne (k k2 : Bytes) (v : Lim) (m : List (Bytes × Lim)) (hne : k2 ≠ k) :
    (upsert k v m).lookup k2 = m.lookup k2 := by
  induction m with
  | nil =>
    have : (k2 == k) = false := by simp [hne]
    simp [upsert, List.lookup, this]
  | cons kv t ih =>
    obtain ⟨k', v'⟩ := kv
    unfold upsert
    by_cases h : k' = k
    · have : (k2 == k) = false := by simp [hne]
      have h2 : (k2 == k') = false := by rw [h]; exact this
      simp only [h, ↓reduceIte, List.lookup_cons, this]
    · simp only [h, ↓reduceIte, List.lookup_cons, ih]

theorem lookup_erase_self (k : Bytes) (m : List (Bytes × Lim)) : (erase k m).lookup k = none := by
  induction m with
  | nil => simp [erase]
  | cons kv t ih =>
    obtain ⟨k', v'⟩ := kv
    unfold erase
    by_cases h : k' = k
    · simp only [h, ↓reduceIte, ih]
    · have : (k == k') = false := by simp; exact fun e => h e.symm
      simp only [h, ↓reduceIte, List.lookup_cons, this, ih]

theorem lookup_erase_ne (k k2 : Bytes) (m : List (Bytes × Lim)) (hne : k2 ≠ k) :
    (erase k m).lookup k2 = m.lookup k2 := by
  induction m with
  | nil => simp [erase]
  | cons kv t ih =>
    obtain ⟨k', v'⟩ := kv
    unfold erase
    by_cases h : k' = k
    · have : (k2 == k) = false := by simp [hne]
      simp only [h, ↓reduceIte, ih, List.lookup_cons, this]
    · simp only [h, ↓reduceIte, List.lookup_cons, ih]

/-! ### rules and limiter keys -/

theorem firstMatch_some (rs : List Rule) (n : Nat) (e : Ev) (ir : Nat × Rule)
    (h : firstMatch rs n e = some ir) : n ≤ ir.1 ∧ rs[ir.1 - n]? = some ir.2 ∧ isMatch ir.2 e = true := by
  induction rs generalizing n with
  | nil => simp [firstMatch] at h
  | cons r rs ih =>
    unfold firstMatch at h
    split at h
    · rename_i hm
      cases h
      simp [hm]
    · obtain ⟨h1, h2, h3⟩ := ih (n + 1) h
      refine ⟨by omega, ?_, h3⟩
      have : ir.1 - n = (ir.1 - (n + 1)) + 1 := by omega
      rw [this, List.getElem?_cons_succ]
      exact h2

theorem ruleOf_some (cfg : Cfg) (e : Ev) (ir : Nat × Rule) (h : ruleOf cfg e = some ir) :
    cfg.rules[ir.1]? = some ir.2 := by
  have := (firstMatch_some cfg.rules 0 e ir h).2.1
  simpa using this

theorem limKey_inj (i j : Nat) (k1 k2 : Bytes) (hi : i < 256) (hj : j < 256)
    (h : limKey i k1 = limKey j k2) : i = j ∧ k1 = k2 := by
  unfold limKey at h
  simp only [List.cons.injEq, true_and] at h
  obtain ⟨h1, h2⟩ := h
  have := congrArg UInt8.toNat h1
  simp at this
  exact ⟨by omega, h2⟩

/-! ### time -/

theorem tdiv_eq_bucket (cfg : Cfg) (t : Int) (h : 0 ≤ t) : timeToBucketID cfg.interval t = bucketOf cfg t :=
  Int.tdiv_eq_ediv_of_nonneg h

theorem bucket_mono (cfg : Cfg) (hI : 0 < cfg.interval) (a b : Int) (h : a ≤ b) :
    bucketOf cfg a ≤ bucketOf cfg b := Int.ediv_le_ediv hI h

theorem count_le_bucket (cfg : Cfg) (hI : 0 < cfg.interval) (now : Int)
    (h : (cfg.count : Int) * cfg.interval ≤ now) : (cfg.count : Int) ≤ bucketOf cfg now := by
  have := Int.ediv_le_ediv hI h
  rw [Int.mul_ediv_cancel _ (by omega)] at this
  exact this

theorem tdiv_nonpos (t I : Int) (ht : t < 0) (hI : 0 < I) : Int.tdiv t I ≤ 0 := by
  have : t = -(-t) := by omega
  rw [this, Int.neg_tdiv]
  have := Int.tdiv_nonneg (a := -t) (b := I) (by omega) (by omega)
  omega

/-- Go's truncating division and the floor division attribute an event to the same bucket as
    soon as the window starts after bucket 0 -/
theorem idIn_eq_attr (cfg : Cfg) (e : Ev) (hI : 0 < cfg.interval)
    (hc : (cfg.count : Int) ≤ bucketOf cfg e.now) :
    idIn cfg.count (bucketOf cfg e.now) (timeToBucketID cfg.interval e.ts) = attr cfg e := by
  unfold idIn attr
  rcases Int.lt_or_le e.ts 0 with hneg | hpos
  · have h1 := tdiv_nonpos e.ts cfg.interval hneg hI
    have h2 : bucketOf cfg e.ts < 0 := Int.ediv_neg_of_neg_of_pos hneg hI
    unfold timeToBucketID
    have c1 : Int.tdiv e.ts cfg.interval < bucketOf cfg e.now - cfg.count + 1 ∨
        Int.tdiv e.ts cfg.interval > bucketOf cfg e.now := Or.inl (by omega)
    have c2 : bucketOf cfg e.ts < bucketOf cfg e.now - cfg.count + 1 ∨
        bucketOf cfg e.ts > bucketOf cfg e.now := Or.inl (by omega)
    rw [if_pos c1, if_pos c2]
  · rw [tdiv_eq_bucket cfg e.ts hpos]

theorem attr_window (cfg : Cfg) (e : Ev) (hc : 0 < cfg.count) :
    bucketOf cfg e.now - cfg.count + 1 ≤ attr cfg e ∧ attr cfg e ≤ bucketOf cfg e.now := by
  unfold attr; split <;> omega

/-! ### the simulation -/

theorem stealA_congr (g1 g2 : Nat → Int) (val : Int) (ds : List Int) (i : Nat) (p : PickA)
    (h : ∀ d, d ≤ i + ds.length → g1 d = g2 d) : stealA g1 val ds i p = stealA g2 val ds i p := by
  induction ds generalizing i p with
  | nil => rfl
  | cons dl ds ih =>
    simp only [List.length_cons] at h
    unfold stealA
    rw [h (i + 1) (by omega)]
    split
    · exact ih (i + 1) _ (fun d hd => h d (by omega))
    · exact ih (i + 1) _ (fun d hd => h d (by omega))

theorem colLim_congr (r : Rule) (g1 g2 : Nat → Int) (e : Ev)
    (h : ∀ d, d ≤ r.distr.limits.length → g1 d = g2 d) : colLim r g1 e = colLim r g2 e := by
  unfold colLim distrA
  rw [h 0 (by omega), stealA_congr g1 g2 _ _ 0 _ (fun d hd => h d (by omega))]

theorem colLim_col_le (r : Rule) (g : Nat → Int) (e : Ev) : (colLim r g e).1 ≤ r.distr.limits.length := by
  unfold colLim
  split
  · exact distrA_col_le _ _ _ _
  · simp

theorem fresh_slot (l : Lim) (h : Fresh l) (x : Int) (d : Nat) : slotOf l x d = 0 := by
  unfold slotOf
  split
  · exact h.2.2 _ _
  · rfl

/-- static well-formedness of a configuration (the Prop form of `cfgOK`) -/
structure CfgWF (cfg : Cfg) : Prop where
  count : 0 < cfg.count
  interval : 0 < cfg.interval
  rules : cfg.rules.length ≤ 256
  idx : ∀ r ∈ cfg.rules, r.distr.isEnabled = true → IdxOK r.distr

/-- the limiter of key `k` agrees with the counters `c` of the abstract machine -/
def Agrees (cfg : Cfg) (r : Rule) (l : Lim) (c : Cnt) (k : Bytes) (last : Int) : Prop :=
  Ready cfg.count l ∧ l.maxID ≤ bucketOf cfg last ∧
    ∀ x d, l.minID ≤ x → d ≤ r.distr.limits.length → slotOf l x d = c k x d

structure Sim (cfg : Cfg) (s : State) (c : Cnt) (last : Int) (live : List Bytes) (hist : List Ev) : Prop where
  lims : ∀ k l, s.lims.lookup k = some l →
    ∃ i r key, k = limKey i key ∧ cfg.rules[i]? = some r ∧ LimOf cfg.count r l ∧
      (r.limit < 0 ∨ Agrees cfg r l c k last)
  future : ∀ k x d, bucketOf cfg last < x → c k x d = 0
  link : ∀ k x d, c k x d ≠ 0 → ∃ e ∈ hist, limKeyOf cfg e = some k ∧ attr cfg e = x
  live : ∀ k, k ∈ live ↔ ∃ l, s.lims.lookup k = some l

theorem sim_init (cfg : Cfg) (last : Int) : Sim cfg State.init Cnt.zero last [] [] := by
  refine ⟨?_, ?_, ?_, ?_⟩
  · intro k l h; simp [State.init] at h
  · intro k x d _; rfl
  · intro k x d h; exact absurd rfl h
  · intro k; simp [State.init]

theorem rule_idx_lt (cfg : Cfg) (hw : CfgWF cfg) (i : Nat) (r : Rule) (h : cfg.rules[i]? = some r) :
    i < 256 ∧ r ∈ cfg.rules := by
  have hi : i < cfg.rules.length := by
    rcases Nat.lt_or_ge i cfg.rules.length with h1 | h1
    · exact h1
    · rw [List.getElem?_eq_none h1] at h; cases h
  refine ⟨by have := hw.rules; omega, ?_⟩
  rw [List.getElem?_eq_getElem hi] at h
  cases h
  exact List.getElem_mem _

theorem cnt_add_apply (c : Cnt) (k : Bytes) (id : Int) (col : Nat) (v : Int) (k2 : Bytes) (x : Int) (d : Nat) :
    (c.add k id col v) k2 x d = c k2 x d + (if k2 = k ∧ x = id ∧ d = col then v else 0) := by
  unfold Cnt.add
  split <;> simp

/-- one event: the model and the abstract machine give the same answer and stay related -/
theorem sim_event (cfg : Cfg) (hw : CfgWF cfg) (s : State) (c : Cnt) (last : Int) (live : List Bytes)
    (hist : List Ev) (hs : Sim cfg s c last live hist) (e : Ev) (hlast : last ≤ e.now)
    (hnow : (cfg.count : Int) * cfg.interval ≤ e.now)
    (hsafe : ∀ k, limKeyOf cfg e = some k → k ∈ live ∨
        ∀ e' ∈ hist, limKeyOf cfg e' = some k → attr cfg e' < bucketOf cfg e.now - cfg.count + 1) :
    ∃ s', doEvent cfg s e = .ok (s', (absStep cfg c e).2) ∧
      Sim cfg s' (absStep cfg c e).1 e.now
        (match limKeyOf cfg e with | some k => k :: live | none => live) (e :: hist) := by
  have hI := hw.interval
  have hbl : bucketOf cfg last ≤ bucketOf cfg e.now := bucket_mono cfg hI _ _ hlast
  have hcb : (cfg.count : Int) ≤ bucketOf cfg e.now := count_le_bucket cfg hI _ hnow
  have hnow0 : 0 ≤ e.now := by
    have : 0 ≤ (cfg.count : Int) * cfg.interval := Int.mul_nonneg (by omega) (by omega)
    omega
  -- facts that do not depend on the rule
  have hfut : ∀ k x d, bucketOf cfg e.now < x → c k x d = 0 :=
    fun k x d hx => hs.future k x d (by omega)
  have hlink : ∀ k x d, c k x d ≠ 0 → ∃ e' ∈ e :: hist, limKeyOf cfg e' = some k ∧ attr cfg e' = x := by
    intro k x d hne
    obtain ⟨e', hm, h1, h2⟩ := hs.link k x d hne
    exact ⟨e', List.mem_cons_of_mem _ hm, h1, h2⟩
  have hkeep : ∀ k l, s.lims.lookup k = some l →
      ∃ i r key, k = limKey i key ∧ cfg.rules[i]? = some r ∧ LimOf cfg.count r l ∧
        (r.limit < 0 ∨ Agrees cfg r l c k e.now) := by
    intro k l hl
    obtain ⟨i, r, key, h1, h2, h3, h4⟩ := hs.lims k l hl
    refine ⟨i, r, key, h1, h2, h3, ?_⟩
    rcases h4 with h4 | ⟨ha, hb, hc⟩
    · exact Or.inl h4
    · exact Or.inr ⟨ha, by omega, hc⟩
  unfold doEvent absStep limKeyOf ruleOf
  cases hfm : firstMatch cfg.rules 0 e with
  | none =>
    refine ⟨s, rfl, ?_⟩
    exact ⟨hkeep, hfut, hlink, hs.live⟩
  | some ir =>
    have hrule : cfg.rules[ir.1]? = some ir.2 := ruleOf_some cfg e ir hfm
    obtain ⟨hi256, hmem⟩ := rule_idx_lt cfg hw ir.1 ir.2 hrule
    simp only
    generalize hk : limKey ir.1 (throttleKey e) = k
    -- the limiter `getOrAdd` hands out belongs to the matched rule
    have hlimof : LimOf cfg.count ir.2 (getOrAdd cfg s k ir.2) := by
      unfold getOrAdd
      cases hlk : s.lims.lookup k with
      | none => exact newLim_limOf cfg ir.2
      | some l =>
        obtain ⟨i, r, key, h1, h2, h3, _⟩ := hs.lims k l hlk
        obtain ⟨hi, _⟩ := rule_idx_lt cfg hw i r h2
        rw [← hk] at h1
        obtain ⟨hii, _⟩ := limKey_inj _ _ _ _ hi256 hi h1
        rw [← hii, hrule] at h2
        cases h2
        exact h3
    have hlive' : ∀ k2, k2 ∈ k :: live ↔ ∃ l, (upsert k (getOrAdd cfg s k ir.2) s.lims).lookup k2 = some l := by
      intro k2
      by_cases h : k2 = k
      · subst h; simp [lookup_upsert_self]
      · rw [lookup_upsert_ne _ _ _ _ h, ← hs.live]
        simp [h]
    by_cases hneg : ir.2.limit < 0
    · -- unlimited rule: the limiter is created but never touched
      have hall : isAllowed cfg.count cfg.interval (getOrAdd cfg s k ir.2) e = .ok (getOrAdd cfg s k ir.2, true) := by
        unfold isAllowed
        have : (getOrAdd cfg s k ir.2).limit < 0 := by rw [hlimof.limit]; exact hneg
        simp [this, pure, Except.pure]
      refine ⟨⟨upsert k (getOrAdd cfg s k ir.2) s.lims⟩, ?_, ?_⟩
      · simp [hall, bind, Except.bind, pure, Except.pure, hneg]
      · simp only [hneg, ↓reduceIte]
        refine ⟨?_, hfut, hlink, hlive'⟩
        intro k2 l hl
        by_cases h : k2 = k
        · subst h
          rw [lookup_upsert_self] at hl
          cases hl
          exact ⟨ir.1, ir.2, throttleKey e, hk.symm, hrule, hlimof, Or.inl hneg⟩
        · rw [lookup_upsert_ne _ _ _ _ h] at hl
          exact hkeep k2 l hl
    · -- a limited rule
      have h0 : 0 ≤ ir.2.limit := by omega
      -- the limiter either agrees with the counters or is fresh and the counters of the
      -- retained window are zero
      have hpre : (Fresh (getOrAdd cfg s k ir.2) ∧
            ∀ x d, bucketOf cfg e.now - cfg.count + 1 ≤ x → c k x d = 0) ∨
          Agrees cfg ir.2 (getOrAdd cfg s k ir.2) c k e.now := by
        unfold getOrAdd
        cases hlk : s.lims.lookup k with
        | none =>
          left
          refine ⟨newLim_fresh cfg ir.2, ?_⟩
          intro x d hx
          have hnl : ¬ k ∈ live := by
            rw [hs.live]; intro ⟨l, hl⟩; rw [hlk] at hl; cases hl
          have hsf := hsafe k (by unfold limKeyOf ruleOf; rw [hfm]; simp only [hk])
          rcases hsf with hsf | hsf
          · exact absurd hsf hnl
          · apply Classical.byContradiction
            intro hne
            obtain ⟨e', hm, h1, h2⟩ := hs.link k x d hne
            have := hsf e' hm h1
            omega
        | some l =>
          right
          obtain ⟨i, r, key, h1, h2, h3, h4⟩ := hkeep k l hlk
          obtain ⟨hi, _⟩ := rule_idx_lt cfg hw i r h2
          rw [← hk] at h1
          obtain ⟨hii, _⟩ := limKey_inj _ _ _ _ hi256 hi h1
          rw [← hii, hrule] at h2
          cases h2
          rcases h4 with h4 | h4
          · exact absurd h4 hneg
          · exact h4
      generalize hl0 : getOrAdd cfg s k ir.2 = l0 at *
      have hpre' : Fresh l0 ∨ (Ready cfg.count l0 ∧ l0.maxID ≤ timeToBucketID cfg.interval e.now) := by
        rw [tdiv_eq_bucket cfg e.now hnow0]
        rcases hpre with h | h
        · exact Or.inl h.1
        · exact Or.inr ⟨h.1, h.2.1⟩
      -- the slots the event looks at agree with the counters
      have hagree : ∀ x d, bucketOf cfg e.now - cfg.count + 1 ≤ x → d ≤ ir.2.distr.limits.length →
          (if x ≤ bucketOf cfg e.now then slotOf l0 x d else 0) = c k x d := by
        intro x d hx hd
        rcases hpre with ⟨hf, hz⟩ | ⟨hr, hm, ha⟩
        · rw [fresh_slot l0 hf, hz x d hx]; simp
        · have hmin : l0.minID ≤ x := by have := hr.2; omega
          split
          · exact ha x d hmin hd
          · rename_i hgt
            have := ha x d hmin hd
            rw [← this]
            exact (slotOf_out l0 x d (by omega)).symm
      have hid : idIn cfg.count (bucketOf cfg e.now) (timeToBucketID cfg.interval e.ts) = attr cfg e :=
        idIn_eq_attr cfg e hI hcb
      have hwin := attr_window cfg e hw.count
      have hslotc : ∀ d, d ≤ ir.2.distr.limits.length → slotOf l0 (attr cfg e) d = c k (attr cfg e) d := by
        intro d hd
        have := hagree (attr cfg e) d hwin.1 hd
        rw [if_pos hwin.2] at this
        exact this
      have hcl : colLim ir.2 (slotOf l0 (attr cfg e)) e = colLim ir.2 (c k (attr cfg e)) e :=
        colLim_congr _ _ _ _ hslotc
      obtain ⟨l2, hall, hlimof2, hmax2, hmin2, hslot2⟩ :=
        isAllowed_ok cfg.count cfg.interval ir.2 l0 e hw.count hlimof h0 (hw.idx ir.2 hmem) hpre'
          (bucketOf cfg e.now) (attr cfg e) (colLim ir.2 (c k (attr cfg e)) e)
          (tdiv_eq_bucket cfg e.now hnow0) hid hcl
      have hcol := colLim_col_le ir.2 (c k (attr cfg e)) e
      refine ⟨⟨upsert k l2 s.lims⟩, ?_, ?_⟩
      · simp only [hall, bind, Except.bind, pure, Except.pure, hneg, ↓reduceIte]
        rw [cnt_add_apply, hslotc _ hcol]
        simp
      · simp only [hneg, ↓reduceIte]
        refine ⟨?_, ?_, ?_, ?_⟩
        · intro k2 l hl
          by_cases h : k2 = k
          · subst h
            rw [lookup_upsert_self] at hl
            cases hl
            refine ⟨ir.1, ir.2, throttleKey e, hk.symm, hrule, hlimof2, Or.inr ⟨⟨by omega, by omega⟩, by omega, ?_⟩⟩
            intro x d hx hd
            rw [hslot2, cnt_add_apply]
            have hx' : bucketOf cfg e.now - cfg.count + 1 ≤ x := by omega
            have := hagree x d hx' hd
            have e1 : (l2.minID ≤ x ∧ x ≤ l2.maxID) ↔ x ≤ bucketOf cfg e.now := by
              rw [hmax2]; constructor
              · exact fun h => h.2
              · exact fun h => ⟨hx, h⟩
            simp only [e1, this, true_and]
          · rw [lookup_upsert_ne _ _ _ _ h] at hl
            obtain ⟨i, r, key, h1, h2, h3, h4⟩ := hkeep k2 l hl
            refine ⟨i, r, key, h1, h2, h3, ?_⟩
            rcases h4 with h4 | ⟨ha, hb, hc⟩
            · exact Or.inl h4
            · refine Or.inr ⟨ha, hb, ?_⟩
              intro x d hx hd
              rw [cnt_add_apply, hc x d hx hd]
              simp [h]
        · intro k2 x d hx
          rw [cnt_add_apply, hfut k2 x d hx]
          have : ¬ (k2 = k ∧ x = attr cfg e ∧ d = (colLim ir.2 (c k (attr cfg e)) e).1) := by
            intro h; have := h.2.1; omega
          simp [this]
        · intro k2 x d hne
          rw [cnt_add_apply] at hne
          by_cases hh : k2 = k ∧ x = attr cfg e ∧ d = (colLim ir.2 (c k (attr cfg e)) e).1
          · refine ⟨e, List.mem_cons_self, ?_, hh.2.1.symm⟩
            unfold limKeyOf ruleOf; rw [hfm]; simp only [hk, hh.1]
          · rw [if_neg hh] at hne
            exact hlink k2 x d (by simpa using hne)
        · intro k2
          by_cases h : k2 = k
          · subst h; simp [lookup_upsert_self]
          · rw [lookup_upsert_ne _ _ _ _ h, ← hs.live]
            simp [h]

theorem sim_expire (cfg : Cfg) (s : State) (c : Cnt) (last : Int) (live : List Bytes) (hist : List Ev)
    (hs : Sim cfg s c last live hist) (k : Bytes) :
    Sim cfg ⟨erase k s.lims⟩ c last (live.filter (fun k' => k' != k)) hist := by
  refine ⟨?_, hs.future, hs.link, ?_⟩
  · intro k2 l hl
    by_cases h : k2 = k
    · subst h; simp only [lookup_erase_self] at hl; cases hl
    · simp only [lookup_erase_ne _ _ _ h] at hl
      exact hs.lims k2 l hl
  · intro k2
    by_cases h : k2 = k
    · subst h; simp [lookup_erase_self]
    · simp only [lookup_erase_ne _ _ _ h, ← hs.live]
      simp [h]

/-- **refinement**: under the clock and expiry hypotheses the model answers every op sequence
    exactly like the abstract machine (in particular it never panics) -/
theorem sim_results (cfg : Cfg) (hw : CfgWF cfg) (ops : List Op) :
    ∀ (s : State) (c : Cnt) (last : Int) (live : List Bytes) (hist : List Ev),
      Sim cfg s c last live hist → nowOK cfg last (evs ops) = true → SafeExpiry cfg live hist ops →
      results cfg s ops = absResults cfg c ops := by
  induction ops with
  | nil => intros; rfl
  | cons op ops ih =>
    intro s c last live hist hs hn hsafe
    cases op with
    | expire k =>
      unfold results absResults
      simp only [step, pure, Except.pure]
      congr 1
      exact ih _ c last _ hist (sim_expire cfg s c last live hist hs k) (by simpa [evs] using hn)
        (by simpa [SafeExpiry] using hsafe)
    | ev e =>
      simp only [evs, nowOK, Bool.and_eq_true, decide_eq_true_eq] at hn
      obtain ⟨⟨hlast, hnow⟩, hn'⟩ := hn
      simp only [SafeExpiry] at hsafe
      obtain ⟨hsf, hsafe'⟩ := hsafe
      obtain ⟨s', hdo, hs'⟩ := sim_event cfg hw s c last live hist hs e hlast hnow hsf
      unfold results absResults
      simp only [step, hdo, bind, Except.bind, pure, Except.pure]
      congr 1
      exact ih s' _ e.now _ _ hs' hn' hsafe'

end FileD.ThrottleLemmas
