/-
  Helper lemmas for C16 (FileD/Props/C16.lean): checked accesses succeed on well-shaped
  limiters, the bucket ring seen as a function from bucket ids to counters (`slotOf`),
  characterisations of `resetFn`, `rebuild`, `getDistrData`, `isAllowed`, the simulation
  between the model and the abstract machine of Spec/C16, and the facts about the abstract
  machine the property theorems are assembled from.
-/
import FileD.Model.Throttle
import FileD.Spec.C16
namespace FileD.ThrottleLemmas
open FileD FileD.Throttle FileD.SpecC16

/-! ### checked accesses -/

theorem idx?_ok {α} (b : List α) (i : Int) (h0 : 0 ≤ i) (h1 : i.toNat < b.length) :
    GoSlice.idx? b i = .ok (b[i.toNat]'h1) := by
  unfold GoSlice.idx?
  have : ¬ i < 0 := by omega
  simp [this, List.getElem?_eq_getElem h1]

theorem idx?_nat_ok {α} (b : List α) (i : Nat) (h1 : i < b.length) :
    GoSlice.idx? b (i : Int) = .ok (b[i]'h1) := by
  have := idx?_ok b (i : Int) (by omega) (by simpa using h1)
  simpa using this

theorem sliceFrom?_ok {α} (b : List α) (n : Int) (h0 : 0 ≤ n) (h1 : n ≤ b.length) :
    GoSlice.sliceFrom? b n = .ok (b.drop n.toNat) := by
  unfold GoSlice.sliceFrom? GoSlice.slice?
  have : 0 ≤ n ∧ n ≤ (b.length : Int) ∧ (b.length : Int) ≤ b.length := ⟨h0, h1, Int.le_refl _⟩
  simp only [this, and_self, ↓reduceIte]
  congr 1
  apply List.take_of_length_le
  simp

theorem sliceTo?_ok {α} (b : List α) (n : Int) (h0 : 0 ≤ n) (h1 : n ≤ b.length) :
    GoSlice.sliceTo? b n = .ok (b.take n.toNat) := by
  unfold GoSlice.sliceTo? GoSlice.slice?
  have : (0 : Int) ≤ 0 ∧ 0 ≤ n ∧ n ≤ (b.length : Int) := ⟨Int.le_refl _, h0, h1⟩
  simp [this]

/-! ### the ring as a function -/

/-- counter at row `j`, column `d` (0 outside the table) -/
def cell (b : Rows) (j d : Nat) : Int :=
  match b[j]? with
  | some row =>
    match row[d]? with
    | some v => v
    | none => 0
  | none => 0

/-- the counter a limiter holds for bucket id `x`, column `d`: 0 outside its window -/
def slotOf (l : Lim) (x : Int) (d : Nat) : Int :=
  if l.minID ≤ x ∧ x ≤ l.maxID then cell l.b (x - l.minID).toNat d else 0

/-- shape of a bucket table: `count` rows of width `w` -/
def Shape (count w : Nat) (b : Rows) : Prop := b.length = count ∧ ∀ row ∈ b, row.length = w

theorem cell_set_row (b : Rows) (i : Nat) (row : List Int) (j d : Nat) (hi : i < b.length) :
    cell (b.set i row) j d = if j = i then (match row[d]? with | some v => v | none => 0) else cell b j d := by
  unfold cell
  rw [List.getElem?_set]
  by_cases h : i = j
  · subst h; simp [hi]
  · have : ¬ j = i := fun e => h e.symm
    simp [h, this]

theorem shape_set (count w : Nat) (b : Rows) (i : Nat) (row : List Int) (hs : Shape count w b)
    (hr : row.length = w) : Shape count w (b.set i row) := by
  refine ⟨by simp [hs.1], ?_⟩
  intro r hr'
  rcases List.mem_or_eq_of_mem_set hr' with h | h
  · exact hs.2 r h
  · subst h; exact hr

/-! ### resetFn -/

theorem resetRow_ok (b : Rows) (i : Int) (h0 : 0 ≤ i) (h1 : i.toNat < b.length) :
    resetRow b i = .ok (b.set i.toNat ((b[i.toNat]'h1).map (fun _ => 0))) := by
  unfold resetRow
  rw [idx?_ok b i h0 h1]
  rfl

theorem zero_row_get (row : List Int) (d : Nat) :
    (match (row.map (fun _ => (0 : Int)))[d]? with | some v => v | none => 0) = 0 := by
  rw [List.getElem?_map]
  cases row[d]? <;> simp

/-- the zeroing loop of `resetFn`: after `m` iterations the last `m` rows are zero -/
theorem resetLoop_ok (count w : Nat) (b1 : Rows) (hs : Shape count w b1) (m : Nat) (hm : m ≤ count) :
    ∃ b', (List.range m).foldlM (fun acc (i : Nat) => resetRow acc ((count : Int) - 1 - (i : Int))) b1 = .ok b' ∧
      Shape count w b' ∧
      ∀ j d, cell b' j d = if count - m ≤ j ∧ j < count then 0 else cell b1 j d := by
  induction m with
  | zero =>
    refine ⟨b1, rfl, hs, ?_⟩
    intro j d
    have : ¬ (count - 0 ≤ j ∧ j < count) := by omega
    rw [if_neg this]
  | succ m ih =>
    obtain ⟨b', hrun, hs', hcell⟩ := ih (by omega)
    rw [List.range_succ, List.foldlM_append, hrun]
    have h0 : (0 : Int) ≤ (count : Int) - 1 - (m : Int) := by omega
    have h1 : ((count : Int) - 1 - (m : Int)).toNat < b'.length := by rw [hs'.1]; omega
    have hidx : ((count : Int) - 1 - (m : Int)).toNat = count - 1 - m := by omega
    refine ⟨b'.set (count - 1 - m) ((b'[count - 1 - m]'(by rw [hs'.1]; omega)).map (fun _ => 0)), ?_, ?_, ?_⟩
    · simp only [bind, Except.bind, List.foldlM_cons, List.foldlM_nil]
      rw [resetRow_ok b' _ h0 h1]
      simp [hidx, pure, Except.pure]
    · apply shape_set _ _ _ _ _ hs'
      simp
      exact hs'.2 _ (List.getElem_mem _)
    · intro j d
      rw [cell_set_row _ _ _ _ _ (by rw [hs'.1]; omega)]
      by_cases hj : j = count - 1 - m
      · have : count - (m + 1) ≤ j ∧ j < count := by omega
        rw [if_pos hj, if_pos this]
        exact zero_row_get _ _
      · rw [if_neg hj, hcell]
        by_cases h2 : count - m ≤ j ∧ j < count
        · have : count - (m + 1) ≤ j ∧ j < count := by omega
          rw [if_pos h2, if_pos this]
        · have : ¬ (count - (m + 1) ≤ j ∧ j < count) := by omega
          rw [if_neg h2, if_neg this]

theorem cell_rot (count : Nat) (b : Rows) (hl : b.length = count) (k j d : Nat) (hk : k ≤ count)
    (hj : j + k < count) : cell (b.drop k ++ b.take k) j d = cell b (j + k) d := by
  unfold cell
  rw [List.getElem?_append_left (by simp; omega), List.getElem?_drop, Nat.add_comm]

theorem shape_rot (count w : Nat) (b : Rows) (hs : Shape count w b) (k : Nat) (hk : k ≤ count) :
    Shape count w (b.drop k ++ b.take k) := by
  refine ⟨by simp [hs.1]; omega, ?_⟩
  intro r hr
  rcases List.mem_append.mp hr with h | h
  · exact hs.2 r (List.mem_of_mem_drop h)
  · exact hs.2 r (List.mem_of_mem_take h)

/-- `resetFn count n`: the ring moves by `n`, the `n` newest rows are zero -/
theorem resetFn_ok (count w : Nat) (b : Rows) (hs : Shape count w b) (n : Int) (h1 : 1 ≤ n)
    (h2 : n ≤ count) :
    ∃ b', resetFn count n b = .ok b' ∧ Shape count w b' ∧
      ∀ j d, j < count → cell b' j d = if j + n.toNat < count then cell b (j + n.toNat) d else 0 := by
  unfold resetFn
  rw [sliceFrom?_ok b n (by omega) (by rw [hs.1]; exact h2), sliceTo?_ok b n (by omega) (by rw [hs.1]; exact h2)]
  obtain ⟨b', hrun, hs', hcell⟩ := resetLoop_ok count w _ (shape_rot count w b hs n.toNat (by omega)) n.toNat (by omega)
  refine ⟨b', ?_, hs', ?_⟩
  · simpa [bind, Except.bind] using hrun
  · intro j d hj
    rw [hcell]
    by_cases h : j + n.toNat < count
    · have : ¬ (count - n.toNat ≤ j ∧ j < count) := by omega
      rw [if_neg this, if_pos h]
      exact cell_rot count b hs.1 n.toNat j d (by omega) h
    · have : count - n.toNat ≤ j ∧ j < count := by omega
      rw [if_pos this, if_neg h]

/-! ### rebuild -/

/-- ids are set (at least one `rebuild` happened) and consistent -/
def Ready (count : Nat) (l : Lim) : Prop := 1 ≤ l.minID ∧ l.maxID = l.minID + count - 1

/-- never rebuilt: what `newInMemoryLimiter` creates -/
def Fresh (l : Lim) : Prop := l.minID = 0 ∧ l.maxID = 0 ∧ ∀ j d, cell l.b j d = 0

/-- the id `rebuildBuckets` returns when the window ends at `cur` -/
def idIn (count : Nat) (cur tid : Int) : Int :=
  if tid < cur - count + 1 ∨ tid > cur then cur else tid

theorem rebuild_ok (count w : Nat) (I : Int) (l : Lim) (now ts : Int) (hc : 0 < count)
    (hs : Shape count w l.b)
    (hpre : Fresh l ∨ (Ready count l ∧ l.maxID ≤ timeToBucketID I now)) :
    ∃ l1, rebuild count I l now ts = .ok (l1, idIn count (timeToBucketID I now) (timeToBucketID I ts)) ∧
      l1.limit = l.limit ∧ l1.kind = l.kind ∧ l1.distr = l.distr ∧ Shape count w l1.b ∧
      l1.maxID = timeToBucketID I now ∧ l1.minID = timeToBucketID I now - count + 1 ∧
      ∀ x d, slotOf l1 x d = if l1.minID ≤ x ∧ x ≤ l1.maxID then slotOf l x d else 0 := by
  generalize hcur' : timeToBucketID I now = cur at *
  rcases hpre with hf | ⟨hr, hle⟩
  · -- never rebuilt: ids are initialised from the clock, nothing is shifted
    obtain ⟨hmin, hmax, hz⟩ := hf
    refine ⟨{ l with minID := cur - count + 1, maxID := cur }, ?_, rfl, rfl, rfl, hs, rfl, rfl, ?_⟩
    · unfold rebuild
      simp only [hcur', hmin, ↓reduceIte]
      have : ¬ (cur > cur - count + 1 + count - 1) := by omega
      simp only [this, ↓reduceIte, bind, Except.bind, pure, Except.pure, idIn]
    · intro x d
      have h1 : slotOf l x d = 0 := by
        unfold slotOf; split
        · exact hz _ _
        · rfl
      rw [h1]
      unfold slotOf
      simp only
      split
      · exact hz _ _
      · rfl
  · obtain ⟨hmin, hmax⟩ := hr
    have hne : ¬ l.minID = 0 := by omega
    by_cases hsh : cur > l.maxID
    · -- the clock left the window: shift by `dif`, reset the `min dif count` newest rows
      have hn1 : 1 ≤ min (cur - (l.minID + count - 1)) (count : Int) := by omega
      have hn2 : min (cur - (l.minID + count - 1)) (count : Int) ≤ count := by omega
      obtain ⟨b', hreset, hs', hcell⟩ := resetFn_ok count w l.b hs _ hn1 hn2
      refine ⟨{ l with minID := l.minID + (cur - (l.minID + count - 1)), maxID := cur, b := b' }, ?_, rfl, rfl, rfl, hs', rfl, by simp only; omega, ?_⟩
      · unfold rebuild
        simp only [hcur', hne, ↓reduceIte]
        have : cur > l.minID + count - 1 := by omega
        simp only [this, ↓reduceIte, bind, Except.bind, hreset, pure, Except.pure, idIn]
        congr 2
        have e : l.minID + (cur - (l.minID + ↑count - 1)) = cur - count + 1 := by omega
        simp only [e]
      · intro x d
        unfold slotOf
        simp only
        by_cases hw : l.minID + (cur - (l.minID + ↑count - 1)) ≤ x ∧ x ≤ cur
        · rw [if_pos hw, if_pos hw]
          have hj : (x - (l.minID + (cur - (l.minID + ↑count - 1)))).toNat < count := by omega
          rw [hcell _ _ hj]
          by_cases hx : x ≤ l.maxID
          · have h1 : (x - (l.minID + (cur - (l.minID + ↑count - 1)))).toNat
                + (min (cur - (l.minID + ↑count - 1)) (count : Int)).toNat < count := by omega
            have h2 : l.minID ≤ x ∧ x ≤ l.maxID := by omega
            rw [if_pos h1, if_pos h2]
            congr 1
            omega
          · have h1 : ¬ ((x - (l.minID + (cur - (l.minID + ↑count - 1)))).toNat
                + (min (cur - (l.minID + ↑count - 1)) (count : Int)).toNat < count) := by omega
            have h2 : ¬ (l.minID ≤ x ∧ x ≤ l.maxID) := by omega
            rw [if_neg h1, if_neg h2]
        · rw [if_neg hw, if_neg hw]
    · -- the clock is still in the newest bucket
      have hcm : cur = l.maxID := by omega
      refine ⟨l, ?_, rfl, rfl, rfl, hs, hcm.symm, by omega, ?_⟩
      · unfold rebuild
        simp only [hcur', hne, ↓reduceIte]
        have : ¬ (cur > l.minID + count - 1) := by omega
        simp only [this, ↓reduceIte, bind, Except.bind, pure, Except.pure, idIn]
        have e1 : cur - count + 1 = l.minID := by omega
        rw [e1, hcm]
      · intro x d
        unfold slotOf
        split <;> rfl

/-! ### distributions -/

/-- a row read as a function (0 outside) -/
def rget (row : List Int) (c : Nat) : Int :=
  match row[c]? with
  | some v => v
  | none => 0

theorem rget_lt (row : List Int) (c : Nat) (h : c < row.length) : rget row c = row[c] := by
  unfold rget; rw [List.getElem?_eq_getElem h]

theorem lookup_mem {β} (l : List (Bytes × β)) (k : Bytes) (v : β) (h : l.lookup k = some v) :
    ∃ kv ∈ l, kv.2 = v := by
  induction l with
  | nil => simp [List.lookup] at h
  | cons x t ih =>
    obtain ⟨k', v'⟩ := x
    simp only [List.lookup] at h
    split at h
    · exact ⟨(k', v'), List.mem_cons_self, by simpa using h⟩
    · obtain ⟨kv, hm, he⟩ := ih h
      exact ⟨kv, List.mem_cons_of_mem _ hm, he⟩

theorem stealLoop_ok (row : List Int) (val : Int) (ds : List Int) (i : Nat) (md : Int) (c : Nat)
    (lim : Int) (h : i + ds.length < row.length) :
    stealLoop row val ds i ⟨md, (c : Int), lim⟩ =
      .ok ⟨(stealA (rget row) val ds i ⟨md, c, lim⟩).maxDiff,
           ((stealA (rget row) val ds i ⟨md, c, lim⟩).col : Int),
           (stealA (rget row) val ds i ⟨md, c, lim⟩).limit⟩ := by
  induction ds generalizing i md c lim with
  | nil => rfl
  | cons dl ds ih =>
    simp only [List.length_cons] at h
    unfold stealLoop stealA
    have hi : i + 1 < row.length := by omega
    have e : GoSlice.idx? row ((i : Int) + 1) = .ok (row[i + 1]'hi) := by
      have := idx?_nat_ok row (i + 1) hi
      simpa using this
    simp only [e, bind, Except.bind, rget_lt row (i + 1) hi]
    split
    · have := ih (i + 1) (dl - (row[i + 1] + val)) (i + 1) dl (by omega)
      simpa using this
    · exact ih (i + 1) md c lim (by omega)

theorem stealA_col_le (get : Nat → Int) (val : Int) (ds : List Int) (i : Nat) (p : PickA) (bound : Nat)
    (hp : p.col ≤ bound) (hb : i + ds.length ≤ bound) : (stealA get val ds i p).col ≤ bound := by
  induction ds generalizing i p with
  | nil => exact hp
  | cons dl ds ih =>
    simp only [List.length_cons] at hb
    unfold stealA
    split
    · exact ih (i + 1) _ (by simp only; omega) (by omega)
    · exact ih (i + 1) p hp (by omega)

/-- every listed value points at an existing share -/
def IdxOK (d : Distr) : Prop := ∀ kv ∈ d.idxByKey, kv.2 < d.limits.length

theorem distrA_col_le (d : Distr) (k : Kind) (get : Nat → Int) (e : Ev) :
    (distrA d k get e).1 ≤ d.limits.length := by
  unfold distrA
  split
  · rename_i j _
    split
    · rename_i s hs
      have : j < d.limits.length := by
        rcases Nat.lt_or_ge j d.limits.length with h | h
        · exact h
        · rw [List.getElem?_eq_none h] at hs; cases hs
      simp only; omega
    · simp
  · split
    · simp
    · exact stealA_col_le _ _ _ _ _ _ (by simp) (by simp)

theorem getDistrData_ok (l : Lim) (row : List Int) (e : Ev) (hw : row.length = l.distr.limits.length + 1)
    (hidx : IdxOK l.distr) :
    getDistrData l row e =
      .ok (((distrA l.distr l.kind (rget row) e).1 : Int), (distrA l.distr l.kind (rget row) e).2) := by
  unfold getDistrData getLimit distrA listedIdx
  cases hlk : l.distr.idxByKey.lookup (fieldVal e.fields l.distr.field) with
  | some j =>
    obtain ⟨kv, hm, he⟩ := lookup_mem _ _ _ hlk
    have hj : j < l.distr.limits.length := by have := hidx kv hm; rw [he] at this; exact this
    simp only [idx?_nat_ok l.distr.limits j hj, bind, Except.bind, pure, Except.pure,
      List.getElem?_eq_getElem hj]
    have : (j : Int) + 1 > 0 := by omega
    simp only [this, ↓reduceIte]
    congr 2
  | none =>
    simp only [bind, Except.bind, pure, Except.pure]
    have h0 : ¬ ((-1 : Int) + 1 > 0) := by omega
    simp only [h0, ↓reduceIte]
    have hr0 : 0 < row.length := by omega
    have e0 : GoSlice.idx? row ((-1 : Int) + 1) = .ok (row[0]'hr0) := by
      have := idx?_nat_ok row 0 hr0
      simpa using this
    simp only [e0, rget_lt row 0 hr0]
    split
    · rfl
    · have := stealLoop_ok row (evVal l.kind e) l.distr.limits 0 (-1) 0 l.distr.defLimit (by omega)
      have e1 : ((-1 : Int) + 1) = ((0 : Nat) : Int) := by omega
      rw [e1, this]

/-! ### isAllowed -/

theorem cell_set_cell (count w : Nat) (b : Rows) (hs : Shape count w b) (i c : Nat) (hi : i < count)
    (hc : c < w) (v : Int) (j d : Nat) :
    cell (b.set i ((b[i]'(by rw [hs.1]; exact hi)).set c v)) j d
      = if j = i ∧ d = c then v else cell b j d := by
  have hil : i < b.length := by rw [hs.1]; exact hi
  rw [cell_set_row _ _ _ _ _ hil]
  have hrl : (b[i]'hil).length = w := hs.2 _ (List.getElem_mem _)
  by_cases hj : j = i
  · subst hj
    rw [if_pos rfl, List.getElem?_set]
    by_cases hd : c = d
    · subst hd
      simp [hrl, hc]
    · have hd' : ¬ d = c := fun e => hd e.symm
      simp only [hd, ↓reduceIte, hd', and_false]
      unfold cell
      rw [List.getElem?_eq_getElem hil]
  · simp [hj]

/-- the distribution a limiter created for rule `r` holds -/
def effDistr (r : Rule) : Distr := if 0 < r.distr.limits.length then r.distr else Distr.empty

theorem effDistr_enabled (r : Rule) : (effDistr r).isEnabled = r.distr.isEnabled := by
  unfold effDistr
  split
  · rfl
  · rename_i h
    simp [Distr.isEnabled, Distr.empty, h]

theorem effDistr_of_enabled (r : Rule) (h : r.distr.isEnabled = true) : effDistr r = r.distr := by
  unfold effDistr
  simp only [Distr.isEnabled, Bool.and_eq_true, decide_eq_true_eq] at h
  simp [h.2]

/-- a limiter that belongs to rule `r` -/
structure LimOf (count : Nat) (r : Rule) (l : Lim) : Prop where
  limit : l.limit = r.limit
  kind : l.kind = r.kind
  distr : l.distr = effDistr r
  shape : Shape count (r.distr.limits.length + 1) l.b

theorem newLim_limOf (cfg : Cfg) (r : Rule) : LimOf cfg.count r (newLim cfg r) := by
  refine ⟨rfl, rfl, rfl, ?_, ?_⟩
  · simp [newLim]
  · intro row hrow
    simp only [newLim] at hrow
    rw [List.eq_of_mem_replicate hrow]
    simp

theorem newLim_fresh (cfg : Cfg) (r : Rule) : Fresh (newLim cfg r) := by
  refine ⟨rfl, rfl, ?_⟩
  intro j d
  unfold cell
  simp only [newLim, List.getElem?_replicate]
  by_cases h1 : j < cfg.count
  · simp only [h1, ↓reduceIte, List.getElem?_replicate]
    by_cases h2 : d < r.distr.limits.length + 1 <;> simp [h2]
  · simp [h1]

theorem slotOf_in (l : Lim) (x : Int) (d : Nat) (hw : l.minID ≤ x ∧ x ≤ l.maxID) :
    slotOf l x d = cell l.b (x - l.minID).toNat d := by
  unfold slotOf; rw [if_pos hw]

theorem slotOf_out (l : Lim) (x : Int) (d : Nat) (hw : ¬ (l.minID ≤ x ∧ x ≤ l.maxID)) :
    slotOf l x d = 0 := by
  unfold slotOf; rw [if_neg hw]

theorem isAllowed_ok (count : Nat) (I : Int) (r : Rule) (l : Lim) (e : Ev) (hc : 0 < count)
    (hl : LimOf count r l) (h0 : 0 ≤ r.limit) (hidx : r.distr.isEnabled = true → IdxOK r.distr)
    (hpre : Fresh l ∨ (Ready count l ∧ l.maxID ≤ timeToBucketID I e.now))
    (cur id : Int) (cl : Nat × Int) (hcur : timeToBucketID I e.now = cur)
    (hid : idIn count cur (timeToBucketID I e.ts) = id) (hcl : colLim r (slotOf l id) e = cl) :
    ∃ l2, isAllowed count I l e
          = .ok (l2, decide (slotOf l id cl.1 + evVal r.kind e ≤ cl.2)) ∧
      LimOf count r l2 ∧ l2.maxID = cur ∧ l2.minID = cur - count + 1 ∧
      ∀ x d, slotOf l2 x d = (if l2.minID ≤ x ∧ x ≤ l2.maxID then slotOf l x d else 0)
        + (if x = id ∧ d = cl.1 then evVal r.kind e else 0) := by
  obtain ⟨l1, hreb, hlim1, hkind1, hdistr1, hs1, hmax1, hmin1, hslot1⟩ :=
    rebuild_ok count (r.distr.limits.length + 1) I l e.now e.ts hc hl.shape hpre
  rw [hcur] at hreb hmax1 hmin1
  rw [hid] at hreb
  -- the attributed bucket lies inside the new window
  have hidw : cur - count + 1 ≤ id ∧ id ≤ cur := by
    rw [← hid]; unfold idIn; split <;> omega
  have hw1 : l1.minID ≤ id ∧ id ≤ l1.maxID := by rw [hmin1, hmax1]; exact hidw
  have hi0 : 0 ≤ id - l1.minID := by omega
  have hi1 : (id - l1.minID).toNat < count := by omega
  have hil : (id - l1.minID).toNat < l1.b.length := by rw [hs1.1]; exact hi1
  have hrow : GoSlice.idx? l1.b (id - l1.minID) = .ok (l1.b[(id - l1.minID).toNat]'hil) :=
    idx?_ok _ _ hi0 hil
  have hrl : (l1.b[(id - l1.minID).toNat]'hil).length = r.distr.limits.length + 1 :=
    hs1.2 _ (List.getElem_mem _)
  -- the row of the attributed bucket, read as a function, is the limiter's slot function
  have hget : ∀ c, rget (l1.b[(id - l1.minID).toNat]'hil) c = slotOf l id c := by
    intro c
    have h1 := hslot1 id c
    rw [if_pos hw1] at h1
    rw [← h1, slotOf_in l1 id c hw1]
    unfold cell rget
    rw [List.getElem?_eq_getElem hil]
  have hen : l1.distr.isEnabled = r.distr.isEnabled := by rw [hdistr1, hl.distr, effDistr_enabled]
  have hclb : cl.1 < r.distr.limits.length + 1 := by
    rw [← hcl]
    unfold colLim
    split
    · have := distrA_col_le r.distr r.kind (slotOf l id) e
      omega
    · simp
  have hcurv : GoSlice.idx? (l1.b[(id - l1.minID).toNat]'hil) (cl.1 : Int)
      = .ok (slotOf l id cl.1) := by
    rw [idx?_nat_ok _ _ (by rw [hrl]; exact hclb), ← hget, rget_lt]
  have hneg : ¬ l.limit < 0 := by rw [hl.limit]; omega
  refine ⟨{ l1 with b := (l1.b.set (id - l1.minID).toNat ((l1.b[(id - l1.minID).toNat]'hil).set cl.1 (slotOf l id cl.1 + evVal r.kind e))) }, ?_, ?_, hmax1, hmin1, ?_⟩
  · unfold isAllowed
    simp only [hneg, ↓reduceIte, hreb, bind, Except.bind, hrow, hen]
    cases hE : r.distr.isEnabled with
    | false =>
      have hclv : cl = (0, r.limit) := by rw [← hcl]; unfold colLim; simp [hE]
      subst hclv
      have this : GoSlice.idx? (l1.b[(id - l1.minID).toNat]'hil) (0 : Int) = .ok (slotOf l id 0) := by
        simpa using hcurv
      simp only [Bool.false_eq_true, ↓reduceIte, pure, Except.pure, this, Int.toNat_zero, hkind1,
        hl.kind, hlim1, hl.limit]
    | true =>
      have hd : l1.distr = r.distr := by rw [hdistr1, hl.distr, effDistr_of_enabled r hE]
      have hclv : cl = distrA r.distr r.kind (slotOf l id) e := by rw [← hcl]; unfold colLim; simp [hE]
      have hfun : rget (l1.b[(id - l1.minID).toNat]'hil) = slotOf l id := funext hget
      have hdd := getDistrData_ok l1 (l1.b[(id - l1.minID).toNat]'hil) e (by rw [hrl, hd]) (by rw [hd]; exact hidx hE)
      rw [hfun, hd, hkind1, hl.kind, ← hclv] at hdd
      simp only [↓reduceIte, hdd, hcurv, pure, Except.pure, Int.toNat_natCast, hkind1, hl.kind]
  · refine ⟨by simp only; rw [hlim1, hl.limit], by simp only; rw [hkind1, hl.kind],
      by simp only; rw [hdistr1, hl.distr], ?_⟩
    exact shape_set _ _ _ _ _ hs1 (by simp [hrl])
  · intro x d
    generalize hv : slotOf l id cl.1 + evVal r.kind e = v'
    have hcs := cell_set_cell count (r.distr.limits.length + 1) l1.b hs1 (id - l1.minID).toNat cl.1 hi1 hclb v'
    have h1 := hslot1 x d
    simp only
    by_cases hw : l1.minID ≤ x ∧ x ≤ l1.maxID
    · rw [if_pos hw] at h1 ⊢
      have hL : ∀ B, slotOf { l1 with b := B } x d = cell B (x - l1.minID).toNat d :=
        fun B => slotOf_in { l1 with b := B } x d hw
      rw [hL, hcs, ← h1]
      by_cases hx : x = id ∧ d = cl.1
      · obtain ⟨hx1, hx2⟩ := hx
        subst hx1; subst hx2
        rw [if_pos ⟨rfl, rfl⟩, if_pos ⟨rfl, rfl⟩, ← hv]
        have := hslot1 x cl.1
        rw [if_pos hw] at this
        rw [this]
      · have n1 : ¬ ((x - l1.minID).toNat = (id - l1.minID).toNat ∧ d = cl.1) := by
          intro h; apply hx; refine ⟨?_, h.2⟩; have := h.1; omega
        rw [if_neg n1, if_neg hx, slotOf_in l1 x d hw]; omega
    · rw [if_neg hw]
      have hx : ¬ (x = id ∧ d = cl.1) := by
        intro h; apply hw; rw [h.1]; exact hw1
      have hL : ∀ B, slotOf { l1 with b := B } x d = 0 :=
        fun B => slotOf_out { l1 with b := B } x d hw
      rw [if_neg hx, hL]; rfl

end FileD.ThrottleLemmas
