/-
  Helper lemmas for C16 (FileD/Props/C16.lean): checked accesses succeed on well-shaped
  limiters, the bucket ring seen as a function from bucket ids to counters (`slotOf`),
  characterisations of `resetFn`, `rebuild`, `getDistrData`, `isAllowed`, the simulation
  between the model and the abstract machine of Spec/C16, and the facts about the abstract
  machine the property theorems are assembled from.
-/
import FileD.Model.Throttle
import FileD.Spec.C16
namespace FileD.ThrottleLemmas
open FileD FileD.Throttle FileD.SpecC16

/-! ### checked accesses -/

theorem idx?_ok {α} (b : List α) (i : Int) (h0 : 0 ≤ i) (h1 : i.toNat < b.length) :
    GoSlice.idx? b i = .ok (b[i.toNat]'h1) := by
  unfold GoSlice.idx?
  have : ¬ i < 0 := by omega
  simp [this, List.getElem?_eq_getElem h1]

theorem idx?_nat_ok {α} (b : List α) (i : Nat) (h1 : i < b.length) :
    GoSlice.idx? b (i : Int) = .ok (b[i]'h1) := by
  have := idx?_ok b (i : Int) (by omega) (by simpa using h1)
  simpa using this

theorem sliceFrom?_ok {α} (b : List α) (n : Int) (h0 : 0 ≤ n) (h1 : n ≤ b.length) :
    GoSlice.sliceFrom? b n = .ok (b.drop n.toNat) := by
  unfold GoSlice.sliceFrom? GoSlice.slice?
  have : 0 ≤ n ∧ n ≤ (b.length : Int) ∧ (b.length : Int) ≤ b.length := ⟨h0, h1, Int.le_refl _⟩
  simp only [this, and_self, ↓reduceIte]
  congr 1
  apply List.take_of_length_le
  simp

theorem sliceTo?_ok {α} (b : List α) (n : Int) (h0 : 0 ≤ n) (h1 : n ≤ b.length) :
    GoSlice.sliceTo? b n = .ok (b.take n.toNat) := by
  unfold GoSlice.sliceTo? GoSlice.slice?
  have : (0 : Int) ≤ 0 ∧ 0 ≤ n ∧ n ≤ (b.length : Int) := ⟨Int.le_refl _, h0, h1⟩
  simp [this]

/-! ### the ring as a function -/

/-- counter at row `j`, column `d` (0 outside the table) -/
def cell (b : Rows) (j d : Nat) : Int :=
  match b[j]? with
  | some row =>
    match row[d]? with
    | some v => v
    | none => 0
  | none => 0

/-- the counter a limiter holds for bucket id `x`, column `d`: 0 outside its window -/
def slotOf (l : Lim) (x : Int) (d : Nat) : Int :=
  if l.minID ≤ x ∧ x ≤ l.maxID then cell l.b (x - l.minID).toNat d else 0

/-- shape of a bucket table: `count` rows of width `w` -/
def Shape (count w : Nat) (b : Rows) : Prop := b.length = count ∧ ∀ row ∈ b, row.length = w

theorem cell_set_row (b : Rows) (i : Nat) (row : List Int) (j d : Nat) (hi : i < b.length) :
    cell (b.set i row) j d = if j = i then (match row[d]? with | some v => v | none => 0) else cell b j d := by
  unfold cell
  rw [List.getElem?_set]
  by_cases h : i = j
  · subst h; simp [hi]
  · have : ¬ j = i := fun e => h e.symm
    simp [h, this]

theorem shape_set (count w : Nat) (b : Rows) (i : Nat) (row : List Int) (hs : Shape count w b)
    (hr : row.length = w) : Shape count w (b.set i row) := by
  refine ⟨by simp [hs.1], ?_⟩
  intro r hr'
  rcases List.mem_or_eq_of_mem_set hr' with h | h
  · exact hs.2 r h
  · subst h; exact hr

/-! ### resetFn -/

theorem resetRow_ok (b : Rows) (i : Int) (h0 : 0 ≤ i) (h1 : i.toNat < b.length) :
    resetRow b i = .ok (b.set i.toNat ((b[i.toNat]'h1).map (fun _ => 0))) := by
  unfold resetRow
  rw [idx?_ok b i h0 h1]
  rfl

theorem zero_row_get (row : List Int) (d : Nat) :
    (match (row.map (fun _ => (0 : Int)))[d]? with | some v => v | none => 0) = 0 := by
  rw [List.getElem?_map]
  cases row[d]? <;> simp

/-- the zeroing loop of `resetFn`: after `m` iterations the last `m` rows are zero -/
theorem resetLoop_ok (count w : Nat) (b1 : Rows) (hs : Shape count w b1) (m : Nat) (hm : m ≤ count) :
    ∃ b', (List.range m).foldlM (fun acc (i : Nat) => resetRow acc ((count : Int) - 1 - (i : Int))) b1 = .ok b' ∧
      Shape count w b' ∧
      ∀ j d, cell b' j d = if count - m ≤ j ∧ j < count then 0 else cell b1 j d := by
  induction m with
  | zero =>
    refine ⟨b1, rfl, hs, ?_⟩
    intro j d
    have : ¬ (count - 0 ≤ j ∧ j < count) := by omega
    rw [if_neg this]
  | succ m ih =>
    obtain ⟨b', hrun, hs', hcell⟩ := ih (by omega)
    rw [List.range_succ, List.foldlM_append, hrun]
    have h0 : (0 : Int) ≤ (count : Int) - 1 - (m : Int) := by omega
    have h1 : ((count : Int) - 1 - (m : Int)).toNat < b'.length := by rw [hs'.1]; omega
    have hidx : ((count : Int) - 1 - (m : Int)).toNat = count - 1 - m := by omega
    refine ⟨b'.set (count - 1 - m) ((b'[count - 1 - m]'(by rw [hs'.1]; omega)).map (fun _ => 0)), ?_, ?_, ?_⟩
    · simp only [bind, Except.bind, List.foldlM_cons, List.foldlM_nil]
      rw [resetRow_ok b' _ h0 h1]
      simp [hidx, pure, Except.pure]
    · apply shape_set _ _ _ _ _ hs'
      simp
      exact hs'.2 _ (List.getElem_mem _)
    · intro j d
      rw [cell_set_row _ _ _ _ _ (by rw [hs'.1]; omega)]
      by_cases hj : j = count - 1 - m
      · have : count - (m + 1) ≤ j ∧ j < count := by omega
        rw [if_pos hj, if_pos this]
        exact zero_row_get _ _
      · rw [if_neg hj, hcell]
        by_cases h2 : count - m ≤ j ∧ j < count
        · have : count - (m + 1) ≤ j ∧ j < count := by omega
          rw [if_pos h2, if_pos this]
        · have : ¬ (count - (m + 1) ≤ j ∧ j < count) := by omega
          rw [if_neg h2, if_neg this]

theorem cell_rot (count : Nat) (b : Rows) (hl : b.length = count) (k j d : Nat) (hk : k ≤ count)
    (hj : j + k < count) : cell (b.drop k ++ b.take k) j d = cell b (j + k) d := by
  unfold cell
  rw [List.getElem?_append_left (by simp; omega), List.getElem?_drop, Nat.add_comm]

theorem shape_rot (count w : Nat) (b : Rows) (hs : Shape count w b) (k : Nat) (hk : k ≤ count) :
    Shape count w (b.drop k ++ b.take k) := by
  refine ⟨by simp [hs.1]; omega, ?_⟩
  intro r hr
  rcases List.mem_append.mp hr with h | h
  · exact hs.2 r (List.mem_of_mem_drop h)
  · exact hs.2 r (List.mem_of_mem_take h)

/-- `resetFn count n`: the ring moves by `n`, the `n` newest rows are zero -/
theorem resetFn_ok (count w : Nat) (b : Rows) (hs : Shape count w b) (n : Int) (h1 : 1 ≤ n)
    (h2 : n ≤ count) :
    ∃ b', resetFn count n b = .ok b' ∧ Shape count w b' ∧
      ∀ j d, j < count → cell b' j d = if j + n.toNat < count then cell b (j + n.toNat) d else 0 := by
  unfold resetFn
  rw [sliceFrom?_ok b n (by omega) (by rw [hs.1]; exact h2), sliceTo?_ok b n (by omega) (by rw [hs.1]; exact h2)]
  obtain ⟨b', hrun, hs', hcell⟩ := resetLoop_ok count w _ (shape_rot count w b hs n.toNat (by omega)) n.toNat (by omega)
  refine ⟨b', ?_, hs', ?_⟩
  · simpa [bind, Except.bind] using hrun
  · intro j d hj
    rw [hcell]
    by_cases h : j + n.toNat < count
    · have : ¬ (count - n.toNat ≤ j ∧ j < count) := by omega
      rw [if_neg this, if_pos h]
      exact cell_rot count b hs.1 n.toNat j d (by omega) h
    · have : count - n.toNat ≤ j ∧ j < count := by omega
      rw [if_pos this, if_neg h]

/-! ### rebuild -/

/-- ids are set (at least one `rebuild` happened) and consistent -/
def Ready (count : Nat) (l : Lim) : Prop := 1 ≤ l.minID ∧ l.maxID = l.minID + count - 1

/-- never rebuilt: what `newInMemoryLimiter` creates -/
def Fresh (l : Lim) : Prop := l.minID = 0 ∧ l.maxID = 0 ∧ ∀ j d, cell l.b j d = 0

/-- the id `rebuildBuckets` returns when the window ends at `cur` -/
def idIn (count : Nat) (cur tid : Int) : Int :=
  if tid < cur - count + 1 ∨ tid > cur then cur else tid

theorem rebuild_ok (count w : Nat) (I : Int) (l : Lim) (now ts : Int) (hc : 0 < count)
    (hs : Shape count w l.b)
    (hpre : Fresh l ∨ (Ready count l ∧ l.maxID ≤ timeToBucketID I now)) :
    ∃ l1, rebuild count I l now ts = .ok (l1, idIn count (timeToBucketID I now) (timeToBucketID I ts)) ∧
      l1.limit = l.limit ∧ l1.kind = l.kind ∧ l1.distr = l.distr ∧ Shape count w l1.b ∧
      l1.maxID = timeToBucketID I now ∧ l1.minID = timeToBucketID I now - count + 1 ∧
      ∀ x d, slotOf l1 x d = if l1.minID ≤ x ∧ x ≤ l1.maxID then slotOf l x d else 0 := by
  generalize hcur' : timeToBucketID I now = cur at *
  rcases hpre with hf | ⟨hr, hle⟩
  · -- never rebuilt: ids are initialised from the clock, nothing is shifted
    obtain ⟨hmin, hmax, hz⟩ := hf
    refine ⟨{ l with minID := cur - count + 1, maxID := cur }, ?_, rfl, rfl, rfl, hs, rfl, rfl, ?_⟩
    · unfold rebuild
      simp only [hcur', hmin, ↓reduceIte]
      have : ¬ (cur > cur - count + 1 + count - 1) := by omega
      simp only [this, ↓reduceIte, bind, Except.bind, pure, Except.pure, idIn]
    · intro x d
      have h1 : slotOf l x d = 0 := by
        unfold slotOf; split
        · exact hz _ _
        · rfl
      rw [h1]
      unfold slotOf
      simp only
      split
      · exact hz _ _
      · rfl
  · obtain ⟨hmin, hmax⟩ := hr
    have hne : ¬ l.minID = 0 := by omega
    by_cases hsh : cur > l.maxID
    · -- the clock left the window: shift by `dif`, reset the `min dif count` newest rows
      have hn1 : 1 ≤ min (cur - (l.minID + count - 1)) (count : Int) := by omega
      have hn2 : min (cur - (l.minID + count - 1)) (count : Int) ≤ count := by omega
      obtain ⟨b', hreset, hs', hcell⟩ := resetFn_ok count w l.b hs _ hn1 hn2
      refine ⟨{ l with minID := l.minID + (cur - (l.minID + count - 1)), maxID := cur, b := b' }, ?_, rfl, rfl, rfl, hs', rfl, by simp only; omega, ?_⟩
      · unfold rebuild
        simp only [hcur', hne, ↓reduceIte]
        have : cur > l.minID + count - 1 := by omega
        simp only [this, ↓reduceIte, bind, Except.bind, hreset, pure, Except.pure, idIn]
        congr 2
        have e : l.minID + (cur - (l.minID + ↑count - 1)) = cur - count + 1 := by omega
        simp only [e]
      · intro x d
        unfold slotOf
        simp only
        by_cases hw : l.minID + (cur - (l.minID + ↑count - 1)) ≤ x ∧ x ≤ cur
        · rw [if_pos hw, if_pos hw]
          have hj : (x - (l.minID + (cur - (l.minID + ↑count - 1)))).toNat < count := by omega
          rw [hcell _ _ hj]
          by_cases hx : x ≤ l.maxID
          · have h1 : (x - (l.minID + (cur - (l.minID + ↑count - 1)))).toNat
                + (min (cur - (l.minID + ↑count - 1)) (count : Int)).toNat < count := by omega
            have h2 : l.minID ≤ x ∧ x ≤ l.maxID := by omega
            rw [if_pos h1, if_pos h2]
            congr 1
            omega
          · have h1 : ¬ ((x - (l.minID + (cur - (l.minID + ↑count - 1)))).toNat
                + (min (cur - (l.minID + ↑count - 1)) (count : Int)).toNat < count) := by omega
            have h2 : ¬ (l.minID ≤ x ∧ x ≤ l.maxID) := by omega
            rw [if_neg h1, if_neg h2]
        · rw [if_neg hw, if_neg hw]
    · -- the clock is still in the newest bucket
      have hcm : cur = l.maxID := by omega
      refine ⟨l, ?_, rfl, rfl, rfl, hs, hcm.symm, by omega, ?_⟩
      · unfold rebuild
        simp only [hcur', hne, ↓reduceIte]
        have : ¬ (cur > l.minID + count - 1) := by omega
        simp only [this, ↓reduceIte, bind, Except.bind, pure, Except.pure, idIn]
        have e1 : cur - count + 1 = l.minID := by omega
        rw [e1, hcm]
      · intro x d
        unfold slotOf
        split <;> rfl

/-! ### distributions -/

/-- a row read as a function (0 outside) -/
def rget (row : List Int) (c : Nat) : Int :=
  match row[c]? with
  | some v => v
  | none => 0

theorem rget_lt (row : List Int) (c : Nat) (h : c < row.length) : rget row c = row[c] := by
  unfold rget; rw [List.getElem?_eq_getElem h]

theorem lookup_mem {β} (l : List (Bytes × β)) (k : Bytes) (v : β) (h : l.lookup k = some v) :
    ∃ kv ∈ l, kv.2 = v := by
  induction l with
  | nil => simp [List.lookup] at h
  | cons x t ih =>
    obtain ⟨k', v'⟩ := x
    simp only [List.lookup] at h
    split at h
    · exact ⟨(k', v'), List.mem_cons_self, by simpa using h⟩
    · obtain ⟨kv, hm, he⟩ := ih h
      exact ⟨kv, List.mem_cons_of_mem _ hm, he⟩

theorem stealLoop_ok (row : List Int) (val : Int) (ds : List Int) (i : Nat) (md : Int) (c : Nat)
    (lim : Int) (h : i + ds.length < row.length) :
    stealLoop row val ds i ⟨md, (c : Int), lim⟩ =
      .ok ⟨(stealA (rget row) val ds i ⟨md, c, lim⟩).maxDiff,
           ((stealA (rget row) val ds i ⟨md, c, lim⟩).col : Int),
           (stealA (rget row) val ds i ⟨md, c, lim⟩).limit⟩ := by
  induction ds generalizing i md c lim with
  | nil => rfl
  | cons dl ds ih =>
    simp only [List.length_cons] at h
    unfold stealLoop stealA
    have hi : i + 1 < row.length := by omega
    have e : GoSlice.idx? row ((i : Int) + 1) = .ok (row[i + 1]'hi) := by
      have := idx?_nat_ok row (i + 1) hi
      simpa using this
    simp only [e, bind, Except.bind, rget_lt row (i + 1) hi]
    split
    · have := ih (i + 1) (dl - (row[i + 1] + val)) (i + 1) dl (by omega)
      simpa using this
    · exact ih (i + 1) md c lim (by omega)

theorem stealA_col_le (get : Nat → Int) (val : Int) (ds : List Int) (i : Nat) (p : PickA) (bound : Nat)
    (hp : p.col ≤ bound) (hb : i + ds.length ≤ bound) : (stealA get val ds i p).col ≤ bound := by
  induction ds generalizing i p with
  | nil => exact hp
  | cons dl ds ih =>
    simp only [List.length_cons] at hb
    unfold stealA
    split
    · exact ih (i + 1) _ (by simp only; omega) (by omega)
    · exact ih (i + 1) p hp (by omega)

/-- every listed value points at an existing share -/
def IdxOK (d : Distr) : Prop := ∀ kv ∈ d.idxByKey, kv.2 < d.limits.length

theorem distrA_col_le (d : Distr) (k : Kind) (get : Nat → Int) (e : Ev) :
    (distrA d k get e).1 ≤ d.limits.length := by
  unfold distrA
  split
  · rename_i j _
    split
    · rename_i s hs
      have : j < d.limits.length := by
        rcases Nat.lt_or_ge j d.limits.length with h | h
        · exact h
        · rw [List.getElem?_eq_none h] at hs; cases hs
      simp only; omega
    · simp
  · split
    · simp
    · exact stealA_col_le _ _ _ _ _ _ (by simp) (by simp)

theorem getDistrData_ok (l : Lim) (row : List Int) (e : Ev) (hw : row.length = l.distr.limits.length + 1)
    (hidx : IdxOK l.distr) :
    getDistrData l row e =
      .ok (((distrA l.distr l.kind (rget row) e).1 : Int), (distrA l.distr l.kind (rget row) e).2) := by
  unfold getDistrData getLimit distrA listedIdx
  cases hlk : l.distr.idxByKey.lookup (fieldVal e.fields l.distr.field) with
  | some j =>
    obtain ⟨kv, hm, he⟩ := lookup_mem _ _ _ hlk
    have hj : j < l.distr.limits.length := by have := hidx kv hm; rw [he] at this; exact this
    simp only [idx?_nat_ok l.distr.limits j hj, bind, Except.bind, pure, Except.pure,
      List.getElem?_eq_getElem hj]
    have : (j : Int) + 1 > 0 := by omega
    simp only [this, ↓reduceIte]
    congr 2
  | none =>
    simp only [bind, Except.bind, pure, Except.pure]
    have h0 : ¬ ((-1 : Int) + 1 > 0) := by omega
    simp only [h0, ↓reduceIte]
    have hr0 : 0 < row.length := by omega
    have e0 : GoSlice.idx? row ((-1 : Int) + 1) = .ok (row[0]'hr0) := by
      have := idx?_nat_ok row 0 hr0
      simpa using this
    simp only [e0, rget_lt row 0 hr0]
    split
    · rfl
    · have := stealLoop_ok row (evVal l.kind e) l.distr.limits 0 (-1) 0 l.distr.defLimit (by omega)
      have e1 : ((-1 : Int) + 1) = ((0 : Nat) : Int) := by omega
      rw [e1, this]

/-! ### isAllowed -/

theorem cell_set_cell (count w : Nat) (b : Rows) (hs : Shape count w b) (i c : Nat) (hi : i < count)
    (hc : c < w) (v : Int) (j d : Nat) :
    cell (b.set i ((b[i]'(by rw [hs.1]; exact hi)).set c v)) j d
      = if j = i ∧ d = c then v else cell b j d := by
  have hil : i < b.length := by rw [hs.1]; exact hi
  rw [cell_set_row _ _ _ _ _ hil]
  have hrl : (b[i]'hil).length = w := hs.2 _ (List.getElem_mem _)
  by_cases hj : j = i
  · subst hj
    rw [if_pos rfl, List.getElem?_set]
    by_cases hd : c = d
    · subst hd
      simp [hrl, hc]
    · have hd' : ¬ d = c := fun e => hd e.symm
      simp only [hd, ↓reduceIte, hd', and_false]
      unfold cell
      rw [List.getElem?_eq_getElem hil]
  · simp [hj]

/-- the distribution a limiter created for rule `r` holds -/
def effDistr (r : Rule) : Distr := if 0 < r.distr.limits.length then r.distr else Distr.empty

theorem effDistr_enabled (r : Rule) : (effDistr r).isEnabled = r.distr.isEnabled := by
  unfold effDistr
  split
  · rfl
  · rename_i h
    simp [Distr.isEnabled, Distr.empty, h]

theorem effDistr_of_enabled (r : Rule) (h : r.distr.isEnabled = true) : effDistr r = r.distr := by
  unfold effDistr
  simp only [Distr.isEnabled, Bool.and_eq_true, decide_eq_true_eq] at h
  simp [h.2]

/-- a limiter that belongs to rule `r` -/
structure LimOf (count : Nat) (r : Rule) (l : Lim) : Prop where
  limit : l.limit = r.limit
  kind : l.kind = r.kind
  distr : l.distr = effDistr r
  shape : Shape count (r.distr.limits.length + 1) l.b

theorem newLim_limOf (cfg : Cfg) (r : Rule) : LimOf cfg.count r (newLim cfg r) := by
  refine ⟨rfl, rfl, rfl, ?_, ?_⟩
  · simp [newLim]
  · intro row hrow
    simp only [newLim] at hrow
    rw [List.eq_of_mem_replicate hrow]
    simp

theorem newLim_fresh (cfg : Cfg) (r : Rule) : Fresh (newLim cfg r) := by
  refine ⟨rfl, rfl, ?_⟩
  intro j d
  unfold cell
  simp only [newLim, List.getElem?_replicate]
  by_cases h1 : j < cfg.count
  · simp only [h1, ↓reduceIte, List.getElem?_replicate]
    by_cases h2 : d < r.distr.limits.length + 1 <;> simp [h2]
  · simp [h1]

theorem slotOf_in (l : Lim) (x : Int) (d : Nat) (hw : l.minID ≤ x ∧ x ≤ l.maxID) :
    slotOf l x d = cell l.b (x - l.minID).toNat d := by
  unfold slotOf; rw [if_pos hw]

theorem slotOf_out (l : Lim) (x : Int) (d : Nat) (hw : ¬ (l.minID ≤ x ∧ x ≤ l.maxID)) :
    slotOf l x d = 0 := by
  unfold slotOf; rw [if_neg hw]

theorem isAllowed_ok (count : Nat) (I : Int) (r : Rule) (l : Lim) (e : Ev) (hc : 0 < count)
    (hl : LimOf count r l) (h0 : 0 ≤ r.limit) (hidx : r.distr.isEnabled = true → IdxOK r.distr)
    (hpre : Fresh l ∨ (Ready count l ∧ l.maxID ≤ timeToBucketID I e.now))
    (cur id : Int) (cl : Nat × Int) (hcur : timeToBucketID I e.now = cur)
    (hid : idIn count cur (timeToBucketID I e.ts) = id) (hcl : colLim r (slotOf l id) e = cl) :
    ∃ l2, isAllowed count I l e
          = .ok (l2, decide (slotOf l id cl.1 + evVal r.kind e ≤ cl.2)) ∧
      LimOf count r l2 ∧ l2.maxID = cur ∧ l2.minID = cur - count + 1 ∧
      ∀ x d, slotOf l2 x d = (if l2.minID ≤ x ∧ x ≤ l2.maxID then slotOf l x d else 0)
        + (if x = id ∧ d = cl.1 then evVal r.kind e else 0) := by
  obtain ⟨l1, hreb, hlim1, hkind1, hdistr1, hs1, hmax1, hmin1, hslot1⟩ :=
    rebuild_ok count (r.distr.limits.length + 1) I l e.now e.ts hc hl.shape hpre
  rw [hcur] at hreb hmax1 hmin1
  rw [hid] at hreb
  -- the attributed bucket lies inside the new window
  have hidw : cur - count + 1 ≤ id ∧ id ≤ cur := by
    rw [← hid]; unfold idIn; split <;> omega
  have hw1 : l1.minID ≤ id ∧ id ≤ l1.maxID := by rw [hmin1, hmax1]; exact hidw
  have hi0 : 0 ≤ id - l1.minID := by omega
  have hi1 : (id - l1.minID).toNat < count := by omega
  have hil : (id - l1.minID).toNat < l1.b.length := by rw [hs1.1]; exact hi1
  have hrow : GoSlice.idx? l1.b (id - l1.minID) = .ok (l1.b[(id - l1.minID).toNat]'hil) :=
    idx?_ok _ _ hi0 hil
  have hrl : (l1.b[(id - l1.minID).toNat]'hil).length = r.distr.limits.length + 1 :=
    hs1.2 _ (List.getElem_mem _)
  -- the row of the attributed bucket, read as a function, is the limiter's slot function
  have hget : ∀ c, rget (l1.b[(id - l1.minID).toNat]'hil) c = slotOf l id c := by
    intro c
    have h1 := hslot1 id c
    rw [if_pos hw1] at h1
    rw [← h1, slotOf_in l1 id c hw1]
    unfold cell rget
    rw [List.getElem?_eq_getElem hil]
  have hen : l1.distr.isEnabled = r.distr.isEnabled := by rw [hdistr1, hl.distr, effDistr_enabled]
  have hclb : cl.1 < r.distr.limits.length + 1 := by
    rw [← hcl]
    unfold colLim
    split
    · have := distrA_col_le r.distr r.kind (slotOf l id) e
      omega
    · simp
  have hcurv : GoSlice.idx? (l1.b[(id - l1.minID).toNat]'hil) (cl.1 : Int)
      = .ok (slotOf l id cl.1) := by
    rw [idx?_nat_ok _ _ (by rw [hrl]; exact hclb), ← hget, rget_lt]
  have hneg : ¬ l.limit < 0 := by rw [hl.limit]; omega
  refine ⟨{ l1 with b := (l1.b.set (id - l1.minID).toNat ((l1.b[(id - l1.minID).toNat]'hil).set cl.1 (slotOf l id cl.1 + evVal r.kind e))) }, ?_, ?_, hmax1, hmin1, ?_⟩
  · unfold isAllowed
    simp only [hneg, ↓reduceIte, hreb, bind, Except.bind, hrow, hen]
    cases hE : r.distr.isEnabled with
    | false =>
      have hclv : cl = (0, r.limit) := by rw [← hcl]; unfold colLim; simp [hE]
      subst hclv
      have this : GoSlice.idx? (l1.b[(id - l1.minID).toNat]'hil) (0 : Int) = .ok (slotOf l id 0) := by
        simpa using hcurv
      simp only [Bool.false_eq_true, ↓reduceIte, pure, Except.pure, this, Int.toNat_zero, hkind1,
        hl.kind, hlim1, hl.limit]
    | true =>
      have hd : l1.distr = r.distr := by rw [hdistr1, hl.distr, effDistr_of_enabled r hE]
      have hclv : cl = distrA r.distr r.kind (slotOf l id) e := by rw [← hcl]; unfold colLim; simp [hE]
      have hfun : rget (l1.b[(id - l1.minID).toNat]'hil) = slotOf l id := funext hget
      have hdd := getDistrData_ok l1 (l1.b[(id - l1.minID).toNat]'hil) e (by rw [hrl, hd]) (by rw [hd]; exact hidx hE)
      rw [hfun, hd, hkind1, hl.kind, ← hclv] at hdd
      simp only [↓reduceIte, hdd, hcurv, pure, Except.pure, Int.toNat_natCast, hkind1, hl.kind]
  · refine ⟨by simp only; rw [hlim1, hl.limit], by simp only; rw [hkind1, hl.kind],
      by simp only; rw [hdistr1, hl.distr], ?_⟩
    exact shape_set _ _ _ _ _ hs1 (by simp [hrl])
  · intro x d
    generalize hv : slotOf l id cl.1 + evVal r.kind e = v'
    have hcs := cell_set_cell count (r.distr.limits.length + 1) l1.b hs1 (id - l1.minID).toNat cl.1 hi1 hclb v'
    have h1 := hslot1 x d
    simp only
    by_cases hw : l1.minID ≤ x ∧ x ≤ l1.maxID
    · rw [if_pos hw] at h1 ⊢
      have hL : ∀ B, slotOf { l1 with b := B } x d = cell B (x - l1.minID).toNat d :=
        fun B => slotOf_in { l1 with b := B } x d hw
      rw [hL, hcs, ← h1]
      by_cases hx : x = id ∧ d = cl.1
      · obtain ⟨hx1, hx2⟩ := hx
        subst hx1; subst hx2
        rw [if_pos ⟨rfl, rfl⟩, if_pos ⟨rfl, rfl⟩, ← hv]
        have := hslot1 x cl.1
        rw [if_pos hw] at this
        rw [this]
      · have n1 : ¬ ((x - l1.minID).toNat = (id - l1.minID).toNat ∧ d = cl.1) := by
          intro h; apply hx; refine ⟨?_, h.2⟩; have := h.1; omega
        rw [if_neg n1, if_neg hx, slotOf_in l1 x d hw]; omega
    · rw [if_neg hw]
      have hx : ¬ (x = id ∧ d = cl.1) := by
        intro h; apply hw; rw [h.1]; exact hw1
      have hL : ∀ B, slotOf { l1 with b := B } x d = 0 :=
        fun B => slotOf_out { l1 with b := B } x d hw
      rw [if_neg hx, hL]; rfl

/-! ### the limiters map -/

theorem lookup_upsert_self (k : Bytes) (v : Lim) (m : List (Bytes × Lim)) :
    (upsert k v m).lookup k = some v := by
  induction m with
  | nil => simp [upsert]
  | cons kv t ih =>
    obtain ⟨k', v'⟩ := kv
    unfold upsert
    by_cases h : k' = k
    · simp [h]
    · have : (k == k') = false := by simp; exact fun e => h e.symm
      simp only [h, ↓reduceIte, List.lookup_cons, this, ih]

theorem lookup_upsert_ne (k k2 : Bytes) (v : Lim) (m : List (Bytes × Lim)) (hne : k2 ≠ k) :
    (upsert k v m).lookup k2 = m.lookup k2 := by
  induction m with
  | nil =>
    have : (k2 == k) = false := by simp [hne]
    simp [upsert, List.lookup, this]
  | cons kv t ih =>
    obtain ⟨k', v'⟩ := kv
    unfold upsert
    by_cases h : k' = k
    · have : (k2 == k) = false := by simp [hne]
      have h2 : (k2 == k') = false := by rw [h]; exact this
      simp only [h, ↓reduceIte, List.lookup_cons, this]
    · simp only [h, ↓reduceIte, List.lookup_cons, ih]

theorem lookup_erase_self (k : Bytes) (m : List (Bytes × Lim)) : (erase k m).lookup k = none := by
  induction m with
  | nil => simp [erase]
  | cons kv t ih =>
    obtain ⟨k', v'⟩ := kv
    unfold erase
    by_cases h : k' = k
    · simp only [h, ↓reduceIte, ih]
    · have : (k == k') = false := by simp; exact fun e => h e.symm
      simp only [h, ↓reduceIte, List.lookup_cons, this, ih]

theorem lookup_erase_ne (k k2 : Bytes) (m : List (Bytes × Lim)) (hne : k2 ≠ k) :
    (erase k m).lookup k2 = m.lookup k2 := by
  induction m with
  | nil => simp [erase]
  | cons kv t ih =>
    obtain ⟨k', v'⟩ := kv
    unfold erase
    by_cases h : k' = k
    · have : (k2 == k) = false := by simp [hne]
      simp only [h, ↓reduceIte, ih, List.lookup_cons, this]
    · simp only [h, ↓reduceIte, List.lookup_cons, ih]

/-! ### rules and limiter keys -/

theorem firstMatch_some (rs : List Rule) (n : Nat) (e : Ev) (ir : Nat × Rule)
    (h : firstMatch rs n e = some ir) : n ≤ ir.1 ∧ rs[ir.1 - n]? = some ir.2 ∧ isMatch ir.2 e = true := by
  induction rs generalizing n with
  | nil => simp [firstMatch] at h
  | cons r rs ih =>
    unfold firstMatch at h
    split at h
    · rename_i hm
      cases h
      simp [hm]
    · obtain ⟨h1, h2, h3⟩ := ih (n + 1) h
      refine ⟨by omega, ?_, h3⟩
      have : ir.1 - n = (ir.1 - (n + 1)) + 1 := by omega
      rw [this, List.getElem?_cons_succ]
      exact h2

theorem ruleOf_some (cfg : Cfg) (e : Ev) (ir : Nat × Rule) (h : ruleOf cfg e = some ir) :
    cfg.rules[ir.1]? = some ir.2 := by
  have := (firstMatch_some cfg.rules 0 e ir h).2.1
  simpa using this

theorem limKey_inj (i j : Nat) (k1 k2 : Bytes) (hi : i < 256) (hj : j < 256)
    (h : limKey i k1 = limKey j k2) : i = j ∧ k1 = k2 := by
  unfold limKey at h
  simp only [List.cons.injEq, true_and] at h
  obtain ⟨h1, h2⟩ := h
  have := congrArg UInt8.toNat h1
  simp at this
  exact ⟨by omega, h2⟩

/-! ### time -/

theorem tdiv_eq_bucket (cfg : Cfg) (t : Int) (h : 0 ≤ t) : timeToBucketID cfg.interval t = bucketOf cfg t :=
  Int.tdiv_eq_ediv_of_nonneg h

theorem bucket_mono (cfg : Cfg) (hI : 0 < cfg.interval) (a b : Int) (h : a ≤ b) :
    bucketOf cfg a ≤ bucketOf cfg b := Int.ediv_le_ediv hI h

theorem count_le_bucket (cfg : Cfg) (hI : 0 < cfg.interval) (now : Int)
    (h : (cfg.count : Int) * cfg.interval ≤ now) : (cfg.count : Int) ≤ bucketOf cfg now := by
  have := Int.ediv_le_ediv hI h
  rw [Int.mul_ediv_cancel _ (by omega)] at this
  exact this

theorem tdiv_nonpos (t I : Int) (ht : t < 0) (hI : 0 < I) : Int.tdiv t I ≤ 0 := by
  have : t = -(-t) := by omega
  rw [this, Int.neg_tdiv]
  have := Int.tdiv_nonneg (a := -t) (b := I) (by omega) (by omega)
  omega

/-- Go's truncating division and the floor division attribute an event to the same bucket as
    soon as the window starts after bucket 0 -/
theorem idIn_eq_attr (cfg : Cfg) (e : Ev) (hI : 0 < cfg.interval)
    (hc : (cfg.count : Int) ≤ bucketOf cfg e.now) :
    idIn cfg.count (bucketOf cfg e.now) (timeToBucketID cfg.interval e.ts) = attr cfg e := by
  unfold idIn attr
  rcases Int.lt_or_le e.ts 0 with hneg | hpos
  · have h1 := tdiv_nonpos e.ts cfg.interval hneg hI
    have h2 : bucketOf cfg e.ts < 0 := Int.ediv_neg_of_neg_of_pos hneg hI
    unfold timeToBucketID
    have c1 : Int.tdiv e.ts cfg.interval < bucketOf cfg e.now - cfg.count + 1 ∨
        Int.tdiv e.ts cfg.interval > bucketOf cfg e.now := Or.inl (by omega)
    have c2 : bucketOf cfg e.ts < bucketOf cfg e.now - cfg.count + 1 ∨
        bucketOf cfg e.ts > bucketOf cfg e.now := Or.inl (by omega)
    rw [if_pos c1, if_pos c2]
  · rw [tdiv_eq_bucket cfg e.ts hpos]

theorem attr_window (cfg : Cfg) (e : Ev) (hc : 0 < cfg.count) :
    bucketOf cfg e.now - cfg.count + 1 ≤ attr cfg e ∧ attr cfg e ≤ bucketOf cfg e.now := by
  unfold attr; split <;> omega

/-! ### the simulation -/

theorem stealA_congr (g1 g2 : Nat → Int) (val : Int) (ds : List Int) (i : Nat) (p : PickA)
    (h : ∀ d, d ≤ i + ds.length → g1 d = g2 d) : stealA g1 val ds i p = stealA g2 val ds i p := by
  induction ds generalizing i p with
  | nil => rfl
  | cons dl ds ih =>
    simp only [List.length_cons] at h
    unfold stealA
    rw [h (i + 1) (by omega)]
    split
    · exact ih (i + 1) _ (fun d hd => h d (by omega))
    · exact ih (i + 1) _ (fun d hd => h d (by omega))

theorem colLim_congr (r : Rule) (g1 g2 : Nat → Int) (e : Ev)
    (h : ∀ d, d ≤ r.distr.limits.length → g1 d = g2 d) : colLim r g1 e = colLim r g2 e := by
  unfold colLim distrA
  rw [h 0 (by omega), stealA_congr g1 g2 _ _ 0 _ (fun d hd => h d (by omega))]

theorem colLim_col_le (r : Rule) (g : Nat → Int) (e : Ev) : (colLim r g e).1 ≤ r.distr.limits.length := by
  unfold colLim
  split
  · exact distrA_col_le _ _ _ _
  · simp

theorem fresh_slot (l : Lim) (h : Fresh l) (x : Int) (d : Nat) : slotOf l x d = 0 := by
  unfold slotOf
  split
  · exact h.2.2 _ _
  · rfl

/-- static well-formedness of a configuration (the Prop form of `cfgOK`) -/
structure CfgWF (cfg : Cfg) : Prop where
  count : 0 < cfg.count
  interval : 0 < cfg.interval
  rules : cfg.rules.length ≤ 256
  idx : ∀ r ∈ cfg.rules, r.distr.isEnabled = true → IdxOK r.distr

/-- the limiter of key `k` agrees with the counters `c` of the abstract machine -/
def Agrees (cfg : Cfg) (r : Rule) (l : Lim) (c : Cnt) (k : Bytes) (last : Int) : Prop :=
  Ready cfg.count l ∧ l.maxID ≤ bucketOf cfg last ∧
    ∀ x d, l.minID ≤ x → d ≤ r.distr.limits.length → slotOf l x d = c k x d

structure Sim (cfg : Cfg) (s : State) (c : Cnt) (last : Int) (live : List Bytes) (hist : List Ev) : Prop where
  lims : ∀ k l, s.lims.lookup k = some l →
    ∃ i r key, k = limKey i key ∧ cfg.rules[i]? = some r ∧ LimOf cfg.count r l ∧
      (r.limit < 0 ∨ Agrees cfg r l c k last)
  future : ∀ k x d, bucketOf cfg last < x → c k x d = 0
  link : ∀ k x d, c k x d ≠ 0 → ∃ e ∈ hist, limKeyOf cfg e = some k ∧ attr cfg e = x
  live : ∀ k, k ∈ live ↔ ∃ l, s.lims.lookup k = some l

theorem sim_init (cfg : Cfg) (last : Int) : Sim cfg State.init Cnt.zero last [] [] := by
  refine ⟨?_, ?_, ?_, ?_⟩
  · intro k l h; simp [State.init] at h
  · intro k x d _; rfl
  · intro k x d h; exact absurd rfl h
  · intro k; simp [State.init]

theorem rule_idx_lt (cfg : Cfg) (hw : CfgWF cfg) (i : Nat) (r : Rule) (h : cfg.rules[i]? = some r) :
    i < 256 ∧ r ∈ cfg.rules := by
  have hi : i < cfg.rules.length := by
    rcases Nat.lt_or_ge i cfg.rules.length with h1 | h1
    · exact h1
    · rw [List.getElem?_eq_none h1] at h; cases h
  refine ⟨by have := hw.rules; omega, ?_⟩
  rw [List.getElem?_eq_getElem hi] at h
  cases h
  exact List.getElem_mem _

theorem cnt_add_apply (c : Cnt) (k : Bytes) (id : Int) (col : Nat) (v : Int) (k2 : Bytes) (x : Int) (d : Nat) :
    (c.add k id col v) k2 x d = c k2 x d + (if k2 = k ∧ x = id ∧ d = col then v else 0) := by
  unfold Cnt.add
  split <;> simp

/-- one event: the model and the abstract machine give the same answer and stay related -/
theorem sim_event (cfg : Cfg) (hw : CfgWF cfg) (s : State) (c : Cnt) (last : Int) (live : List Bytes)
    (hist : List Ev) (hs : Sim cfg s c last live hist) (e : Ev) (hlast : last ≤ e.now)
    (hnow : (cfg.count : Int) * cfg.interval ≤ e.now)
    (hsafe : ∀ k, limKeyOf cfg e = some k → k ∈ live ∨
        ∀ e' ∈ hist, limKeyOf cfg e' = some k → attr cfg e' < bucketOf cfg e.now - cfg.count + 1) :
    ∃ s', doEvent cfg s e = .ok (s', (absStep cfg c e).2) ∧
      Sim cfg s' (absStep cfg c e).1 e.now
        (match limKeyOf cfg e with | some k => k :: live | none => live) (e :: hist) := by
  have hI := hw.interval
  have hbl : bucketOf cfg last ≤ bucketOf cfg e.now := bucket_mono cfg hI _ _ hlast
  have hcb : (cfg.count : Int) ≤ bucketOf cfg e.now := count_le_bucket cfg hI _ hnow
  have hnow0 : 0 ≤ e.now := by
    have : 0 ≤ (cfg.count : Int) * cfg.interval := Int.mul_nonneg (by omega) (by omega)
    omega
  -- facts that do not depend on the rule
  have hfut : ∀ k x d, bucketOf cfg e.now < x → c k x d = 0 :=
    fun k x d hx => hs.future k x d (by omega)
  have hlink : ∀ k x d, c k x d ≠ 0 → ∃ e' ∈ e :: hist, limKeyOf cfg e' = some k ∧ attr cfg e' = x := by
    intro k x d hne
    obtain ⟨e', hm, h1, h2⟩ := hs.link k x d hne
    exact ⟨e', List.mem_cons_of_mem _ hm, h1, h2⟩
  have hkeep : ∀ k l, s.lims.lookup k = some l →
      ∃ i r key, k = limKey i key ∧ cfg.rules[i]? = some r ∧ LimOf cfg.count r l ∧
        (r.limit < 0 ∨ Agrees cfg r l c k e.now) := by
    intro k l hl
    obtain ⟨i, r, key, h1, h2, h3, h4⟩ := hs.lims k l hl
    refine ⟨i, r, key, h1, h2, h3, ?_⟩
    rcases h4 with h4 | ⟨ha, hb, hc⟩
    · exact Or.inl h4
    · exact Or.inr ⟨ha, by omega, hc⟩
  unfold doEvent absStep limKeyOf ruleOf
  cases hfm : firstMatch cfg.rules 0 e with
  | none =>
    refine ⟨s, rfl, ?_⟩
    exact ⟨hkeep, hfut, hlink, hs.live⟩
  | some ir =>
    have hrule : cfg.rules[ir.1]? = some ir.2 := ruleOf_some cfg e ir hfm
    obtain ⟨hi256, hmem⟩ := rule_idx_lt cfg hw ir.1 ir.2 hrule
    simp only
    generalize hk : limKey ir.1 (throttleKey e) = k
    -- the limiter `getOrAdd` hands out belongs to the matched rule
    have hlimof : LimOf cfg.count ir.2 (getOrAdd cfg s k ir.2) := by
      unfold getOrAdd
      cases hlk : s.lims.lookup k with
      | none => exact newLim_limOf cfg ir.2
      | some l =>
        obtain ⟨i, r, key, h1, h2, h3, _⟩ := hs.lims k l hlk
        obtain ⟨hi, _⟩ := rule_idx_lt cfg hw i r h2
        rw [← hk] at h1
        obtain ⟨hii, _⟩ := limKey_inj _ _ _ _ hi256 hi h1
        rw [← hii, hrule] at h2
        cases h2
        exact h3
    have hlive' : ∀ k2, k2 ∈ k :: live ↔ ∃ l, (upsert k (getOrAdd cfg s k ir.2) s.lims).lookup k2 = some l := by
      intro k2
      by_cases h : k2 = k
      · subst h; simp [lookup_upsert_self]
      · rw [lookup_upsert_ne _ _ _ _ h, ← hs.live]
        simp [h]
    by_cases hneg : ir.2.limit < 0
    · -- unlimited rule: the limiter is created but never touched
      have hall : isAllowed cfg.count cfg.interval (getOrAdd cfg s k ir.2) e = .ok (getOrAdd cfg s k ir.2, true) := by
        unfold isAllowed
        have : (getOrAdd cfg s k ir.2).limit < 0 := by rw [hlimof.limit]; exact hneg
        simp [this, pure, Except.pure]
      refine ⟨⟨upsert k (getOrAdd cfg s k ir.2) s.lims⟩, ?_, ?_⟩
      · simp [hall, bind, Except.bind, pure, Except.pure, hneg]
      · simp only [hneg, ↓reduceIte]
        refine ⟨?_, hfut, hlink, hlive'⟩
        intro k2 l hl
        by_cases h : k2 = k
        · subst h
          rw [lookup_upsert_self] at hl
          cases hl
          exact ⟨ir.1, ir.2, throttleKey e, hk.symm, hrule, hlimof, Or.inl hneg⟩
        · rw [lookup_upsert_ne _ _ _ _ h] at hl
          exact hkeep k2 l hl
    · -- a limited rule
      have h0 : 0 ≤ ir.2.limit := by omega
      -- the limiter either agrees with the counters or is fresh and the counters of the
      -- retained window are zero
      have hpre : (Fresh (getOrAdd cfg s k ir.2) ∧
            ∀ x d, bucketOf cfg e.now - cfg.count + 1 ≤ x → c k x d = 0) ∨
          Agrees cfg ir.2 (getOrAdd cfg s k ir.2) c k e.now := by
        unfold getOrAdd
        cases hlk : s.lims.lookup k with
        | none =>
          left
          refine ⟨newLim_fresh cfg ir.2, ?_⟩
          intro x d hx
          have hnl : ¬ k ∈ live := by
            rw [hs.live]; intro ⟨l, hl⟩; rw [hlk] at hl; cases hl
          have hsf := hsafe k (by unfold limKeyOf ruleOf; rw [hfm]; simp only [hk])
          rcases hsf with hsf | hsf
          · exact absurd hsf hnl
          · apply Classical.byContradiction
            intro hne
            obtain ⟨e', hm, h1, h2⟩ := hs.link k x d hne
            have := hsf e' hm h1
            omega
        | some l =>
          right
          obtain ⟨i, r, key, h1, h2, h3, h4⟩ := hkeep k l hlk
          obtain ⟨hi, _⟩ := rule_idx_lt cfg hw i r h2
          rw [← hk] at h1
          obtain ⟨hii, _⟩ := limKey_inj _ _ _ _ hi256 hi h1
          rw [← hii, hrule] at h2
          cases h2
          rcases h4 with h4 | h4
          · exact absurd h4 hneg
          · exact h4
      generalize hl0 : getOrAdd cfg s k ir.2 = l0 at *
      have hpre' : Fresh l0 ∨ (Ready cfg.count l0 ∧ l0.maxID ≤ timeToBucketID cfg.interval e.now) := by
        rw [tdiv_eq_bucket cfg e.now hnow0]
        rcases hpre with h | h
        · exact Or.inl h.1
        · exact Or.inr ⟨h.1, h.2.1⟩
      -- the slots the event looks at agree with the counters
      have hagree : ∀ x d, bucketOf cfg e.now - cfg.count + 1 ≤ x → d ≤ ir.2.distr.limits.length →
          (if x ≤ bucketOf cfg e.now then slotOf l0 x d else 0) = c k x d := by
        intro x d hx hd
        rcases hpre with ⟨hf, hz⟩ | ⟨hr, hm, ha⟩
        · rw [fresh_slot l0 hf, hz x d hx]; simp
        · have hmin : l0.minID ≤ x := by have := hr.2; omega
          split
          · exact ha x d hmin hd
          · rename_i hgt
            have := ha x d hmin hd
            rw [← this]
            exact (slotOf_out l0 x d (by omega)).symm
      have hid : idIn cfg.count (bucketOf cfg e.now) (timeToBucketID cfg.interval e.ts) = attr cfg e :=
        idIn_eq_attr cfg e hI hcb
      have hwin := attr_window cfg e hw.count
      have hslotc : ∀ d, d ≤ ir.2.distr.limits.length → slotOf l0 (attr cfg e) d = c k (attr cfg e) d := by
        intro d hd
        have := hagree (attr cfg e) d hwin.1 hd
        rw [if_pos hwin.2] at this
        exact this
      have hcl : colLim ir.2 (slotOf l0 (attr cfg e)) e = colLim ir.2 (c k (attr cfg e)) e :=
        colLim_congr _ _ _ _ hslotc
      obtain ⟨l2, hall, hlimof2, hmax2, hmin2, hslot2⟩ :=
        isAllowed_ok cfg.count cfg.interval ir.2 l0 e hw.count hlimof h0 (hw.idx ir.2 hmem) hpre'
          (bucketOf cfg e.now) (attr cfg e) (colLim ir.2 (c k (attr cfg e)) e)
          (tdiv_eq_bucket cfg e.now hnow0) hid hcl
      have hcol := colLim_col_le ir.2 (c k (attr cfg e)) e
      refine ⟨⟨upsert k l2 s.lims⟩, ?_, ?_⟩
      · simp only [hall, bind, Except.bind, pure, Except.pure, hneg, ↓reduceIte]
        rw [cnt_add_apply, hslotc _ hcol]
        simp
      · simp only [hneg, ↓reduceIte]
        refine ⟨?_, ?_, ?_, ?_⟩
        · intro k2 l hl
          by_cases h : k2 = k
          · subst h
            rw [lookup_upsert_self] at hl
            cases hl
            refine ⟨ir.1, ir.2, throttleKey e, hk.symm, hrule, hlimof2, Or.inr ⟨⟨by omega, by omega⟩, by omega, ?_⟩⟩
            intro x d hx hd
            rw [hslot2, cnt_add_apply]
            have hx' : bucketOf cfg e.now - cfg.count + 1 ≤ x := by omega
            have := hagree x d hx' hd
            have e1 : (l2.minID ≤ x ∧ x ≤ l2.maxID) ↔ x ≤ bucketOf cfg e.now := by
              rw [hmax2]; constructor
              · exact fun h => h.2
              · exact fun h => ⟨hx, h⟩
            simp only [e1, this, true_and]
          · rw [lookup_upsert_ne _ _ _ _ h] at hl
            obtain ⟨i, r, key, h1, h2, h3, h4⟩ := hkeep k2 l hl
            refine ⟨i, r, key, h1, h2, h3, ?_⟩
            rcases h4 with h4 | ⟨ha, hb, hc⟩
            · exact Or.inl h4
            · refine Or.inr ⟨ha, hb, ?_⟩
              intro x d hx hd
              rw [cnt_add_apply, hc x d hx hd]
              simp [h]
        · intro k2 x d hx
          rw [cnt_add_apply, hfut k2 x d hx]
          have : ¬ (k2 = k ∧ x = attr cfg e ∧ d = (colLim ir.2 (c k (attr cfg e)) e).1) := by
            intro h; have := h.2.1; omega
          simp [this]
        · intro k2 x d hne
          rw [cnt_add_apply] at hne
          by_cases hh : k2 = k ∧ x = attr cfg e ∧ d = (colLim ir.2 (c k (attr cfg e)) e).1
          · refine ⟨e, List.mem_cons_self, ?_, hh.2.1.symm⟩
            unfold limKeyOf ruleOf; rw [hfm]; simp only [hk, hh.1]
          · rw [if_neg hh] at hne
            exact hlink k2 x d (by simpa using hne)
        · intro k2
          by_cases h : k2 = k
          · subst h; simp [lookup_upsert_self]
          · rw [lookup_upsert_ne _ _ _ _ h, ← hs.live]
            simp [h]

theorem sim_expire (cfg : Cfg) (s : State) (c : Cnt) (last : Int) (live : List Bytes) (hist : List Ev)
    (hs : Sim cfg s c last live hist) (k : Bytes) :
    Sim cfg ⟨erase k s.lims⟩ c last (live.filter (fun k' => k' != k)) hist := by
  refine ⟨?_, hs.future, hs.link, ?_⟩
  · intro k2 l hl
    by_cases h : k2 = k
    · subst h; simp only [lookup_erase_self] at hl; cases hl
    · simp only [lookup_erase_ne _ _ _ h] at hl
      exact hs.lims k2 l hl
  · intro k2
    by_cases h : k2 = k
    · subst h; simp [lookup_erase_self]
    · simp only [lookup_erase_ne _ _ _ h, ← hs.live]
      simp [h]

/-- **refinement**: under the clock and expiry hypotheses the model answers every op sequence
    exactly like the abstract machine (in particular it never panics) -/
theorem sim_results (cfg : Cfg) (hw : CfgWF cfg) (ops : List Op) :
    ∀ (s : State) (c : Cnt) (last : Int) (live : List Bytes) (hist : List Ev),
      Sim cfg s c last live hist → nowOK cfg last (evs ops) = true → SafeExpiry cfg live hist ops →
      results cfg s ops = absResults cfg c ops := by
  induction ops with
  | nil => intros; rfl
  | cons op ops ih =>
    intro s c last live hist hs hn hsafe
    cases op with
    | expire k =>
      unfold results absResults
      simp only [step, pure, Except.pure]
      congr 1
      exact ih _ c last _ hist (sim_expire cfg s c last live hist hs k) (by simpa [evs] using hn)
        (by simpa [SafeExpiry] using hsafe)
    | ev e =>
      simp only [evs, nowOK, Bool.and_eq_true, decide_eq_true_eq] at hn
      obtain ⟨⟨hlast, hnow⟩, hn'⟩ := hn
      simp only [SafeExpiry] at hsafe
      obtain ⟨hsf, hsafe'⟩ := hsafe
      obtain ⟨s', hdo, hs'⟩ := sim_event cfg hw s c last live hist hs e hlast hnow hsf
      unfold results absResults
      simp only [step, hdo, bind, Except.bind, pure, Except.pure]
      congr 1
      exact ih s' _ e.now _ _ hs' hn' hsafe'

/-! ### facts about the abstract machine -/

/-- answers of the abstract machine paired with the events -/
def absObs (cfg : Cfg) : Cnt → List Ev → List (Ev × Bool)
  | _, [] => []
  | c, e :: t => (e, (absStep cfg c e).2) :: absObs cfg (absStep cfg c e).1 t

theorem observe_abs (cfg : Cfg) (ops : List Op) (c : Cnt) :
    observe ops (absResults cfg c ops) = absObs cfg c (evs ops) := by
  induction ops generalizing c with
  | nil => rfl
  | cons op ops ih =>
    cases op with
    | expire k => simp only [absResults, observe, evs]; exact ih c
    | ev e =>
      simp only [absResults, observe, evs, absObs]
      congr 1
      · congr 1
        cases (absStep cfg c e).2 <;> simp
      · exact ih _

theorem hits_iff (cfg : Cfg) (lk : Bytes) (id : Int) (e : Ev) :
    hits cfg lk id e = true ↔ limKeyOf cfg e = some lk ∧ attr cfg e = id := by
  unfold hits; simp

/-- an event that does not hit (lk, id) leaves every counter of (lk, id) alone -/
theorem absStep_frame (cfg : Cfg) (c : Cnt) (e : Ev) (lk : Bytes) (id : Int)
    (h : hits cfg lk id e = false) (d : Nat) : (absStep cfg c e).1 lk id d = c lk id d := by
  unfold absStep
  cases hr : ruleOf cfg e with
  | none => rfl
  | some ir =>
    simp only
    split
    · rfl
    · simp only [cnt_add_apply]
      have : ¬ (lk = limKey ir.1 (throttleKey e) ∧ id = attr cfg e ∧
          d = (colLim ir.2 (c (limKey ir.1 (throttleKey e)) (attr cfg e)) e).1) := by
        intro hh
        have : hits cfg lk id e = true := by
          rw [hits_iff]; unfold limKeyOf; rw [hr]; exact ⟨by rw [hh.1], hh.2.1.symm⟩
        rw [h] at this; cases this
      simp [this]

/-- what an event of rule `(i, r)` with a non-negative limit does to the machine -/
theorem absStep_rule (cfg : Cfg) (c : Cnt) (e : Ev) (ir : Nat × Rule) (hr : ruleOf cfg e = some ir)
    (h0 : 0 ≤ ir.2.limit) :
    absStep cfg c e =
      ((c.add (limKey ir.1 (throttleKey e)) (attr cfg e)
          (colLim ir.2 (c (limKey ir.1 (throttleKey e)) (attr cfg e)) e).1 (evVal ir.2.kind e)),
       decide (c (limKey ir.1 (throttleKey e)) (attr cfg e)
          (colLim ir.2 (c (limKey ir.1 (throttleKey e)) (attr cfg e)) e).1 + evVal ir.2.kind e
            ≤ (colLim ir.2 (c (limKey ir.1 (throttleKey e)) (attr cfg e)) e).2)) := by
  unfold absStep
  rw [hr]
  have : ¬ ir.2.limit < 0 := by omega
  simp only [this, ↓reduceIte, cnt_add_apply]
  simp

theorem evVal_nonneg (k : Kind) (e : Ev) (h : 0 ≤ e.size) : 0 ≤ evVal k e := by
  cases k <;> simp [evVal, h]

/-- counters never decrease when sizes are non-negative -/
theorem absStep_mono (cfg : Cfg) (c : Cnt) (e : Ev) (hsz : 0 ≤ e.size) (k : Bytes) (x : Int) (d : Nat) :
    c k x d ≤ (absStep cfg c e).1 k x d := by
  unfold absStep
  cases hr : ruleOf cfg e with
  | none => exact Int.le_refl _
  | some ir =>
    simp only
    split
    · exact Int.le_refl _
    · simp only [cnt_add_apply]
      have := evVal_nonneg ir.2.kind e hsz
      split <;> omega

/-- an event that hits `(limKey i key, id)` is an event of rule `i` -/
theorem hit_rule (cfg : Cfg) (hw : CfgWF cfg) (i : Nat) (r : Rule) (key : Bytes) (id : Int) (e : Ev)
    (hr : cfg.rules[i]? = some r) (h : hits cfg (limKey i key) id e = true) :
    ∃ ir, ruleOf cfg e = some ir ∧ ir.2 = r ∧ limKey ir.1 (throttleKey e) = limKey i key ∧ attr cfg e = id := by
  rw [hits_iff] at h
  obtain ⟨h1, h2⟩ := h
  unfold limKeyOf at h1
  cases hro : ruleOf cfg e with
  | none => rw [hro] at h1; cases h1
  | some ir =>
    rw [hro] at h1
    simp only [Option.some.injEq] at h1
    have hrule := ruleOf_some cfg e ir hro
    obtain ⟨hi, _⟩ := rule_idx_lt cfg hw i r hr
    obtain ⟨hj, _⟩ := rule_idx_lt cfg hw ir.1 ir.2 hrule
    obtain ⟨hij, _⟩ := limKey_inj _ _ _ _ hj hi h1
    rw [hij, hr] at hrule
    cases hrule
    exact ⟨ir, rfl, rfl, h1, h2⟩

theorem valOf_rule (cfg : Cfg) (e : Ev) (ir : Nat × Rule) (h : ruleOf cfg e = some ir) :
    valOf cfg e = evVal ir.2.kind e := by
  unfold valOf; rw [h]

theorem sizesOK_cons (e : Ev) (t : List Ev) (h : sizesOK (e :: t) = true) : 0 ≤ e.size ∧ sizesOK t = true := by
  simpa [sizesOK] using h

/-- **per-bucket limit on the abstract machine** (rule without distribution): whatever was
    already counted (`base`), the passed amount never takes the bucket over the rule's limit -/
theorem abs_passed_le (cfg : Cfg) (hw : CfgWF cfg) (i : Nat) (r : Rule) (key : Bytes) (id : Int)
    (hr : cfg.rules[i]? = some r) (h0 : 0 ≤ r.limit) (hd : r.distr.isEnabled = false) :
    ∀ (es : List Ev) (c : Cnt) (base : Int), sizesOK es = true →
      base ≤ c (limKey i key) id 0 → base ≤ r.limit →
      base + passed cfg (limKey i key) id (absObs cfg c es) ≤ r.limit := by
  intro es
  induction es with
  | nil => intro c base _ _ hb; simpa [absObs, passed] using hb
  | cons e t ih =>
    intro c base hsz hbc hbl
    obtain ⟨hs0, hst⟩ := sizesOK_cons e t hsz
    simp only [absObs, passed]
    cases hh : hits cfg (limKey i key) id e with
    | false =>
      simp only [Bool.and_false, Bool.false_eq_true, ↓reduceIte, Int.zero_add]
      exact ih _ base hst (by rw [absStep_frame cfg c e _ _ hh]; exact hbc) hbl
    | true =>
      obtain ⟨ir, hro, hir, hlk, hat⟩ := hit_rule cfg hw i r key id e hr hh
      have hstep := absStep_rule cfg c e ir hro (by rw [hir]; exact h0)
      have hcl : ∀ g, colLim ir.2 g e = (0, r.limit) := by
        intro g; unfold colLim; rw [hir, hd]; simp
      rw [hcl, hlk, hat, hir] at hstep
      simp only at hstep
      have hv := evVal_nonneg r.kind e hs0
      rw [valOf_rule cfg e ir hro, hir]
      cases ha : (absStep cfg c e).2 with
      | false =>
        simp only [Bool.false_and, Bool.false_eq_true, ↓reduceIte, Int.zero_add]
        refine ih _ base hst ?_ hbl
        have := absStep_mono cfg c e hs0 (limKey i key) id 0
        omega
      | true =>
        simp only [Bool.and_self, ↓reduceIte]
        rw [hstep] at ha
        simp only [decide_eq_true_eq] at ha
        have hc' : (absStep cfg c e).1 (limKey i key) id 0 = c (limKey i key) id 0 + evVal r.kind e := by
          rw [hstep]; simp [cnt_add_apply]
        have := ih (absStep cfg c e).1 (base + evVal r.kind e) hst (by rw [hc']; omega) (by omega)
        omega

/-! ### distribution shares on the abstract machine -/

/-- share of a distribution column: column 0 is the default distribution -/
def shareOf (d : Distr) : Nat → Int
  | 0 => d.defLimit
  | j + 1 =>
    match d.limits[j]? with
    | some s => s
    | none => 0

theorem drop_cons_facts (l : List Int) (i : Nat) (a : Int) (t : List Int) (h : a :: t = l.drop i) :
    l[i]? = some a ∧ t = l.drop (i + 1) := by
  have h1 : (l.drop i)[0]? = some a := by rw [← h]; rfl
  rw [List.getElem?_drop] at h1
  refine ⟨by simpa using h1, ?_⟩
  have : (l.drop i).tail = t := by rw [← h]; rfl
  rw [← this, List.tail_drop]

theorem stealA_share (d : Distr) (get : Nat → Int) (val : Int) (ds : List Int) (i : Nat) (p : PickA)
    (hds : ds = d.limits.drop i) (hp : p.limit = shareOf d p.col) :
    (stealA get val ds i p).limit = shareOf d (stealA get val ds i p).col := by
  induction ds generalizing i p with
  | nil => exact hp
  | cons dl ds ih =>
    obtain ⟨h1, h2⟩ := drop_cons_facts d.limits i dl ds hds
    unfold stealA
    split
    · apply ih (i + 1) _ h2
      simp only [shareOf, h1]
    · exact ih (i + 1) p h2 hp

theorem colLim_share (r : Rule) (g : Nat → Int) (e : Ev) (he : r.distr.isEnabled = true) :
    (colLim r g e).2 = shareOf r.distr (colLim r g e).1 := by
  unfold colLim
  rw [he]
  simp only [↓reduceIte]
  unfold distrA
  split
  · split
    · rename_i s hs
      simp only [shareOf, hs]
    · rfl
  · split
    · rfl
    · exact stealA_share r.distr g _ _ 0 _ (by simp) rfl

theorem colLim_listed (r : Rule) (g : Nat → Int) (e : Ev) (he : r.distr.isEnabled = true) (j : Nat)
    (sj : Int) (hl : listedIdx r.distr e = some j) (hs : r.distr.limits[j]? = some sj) :
    colLim r g e = (j + 1, sj) := by
  unfold colLim
  rw [he]
  simp only [↓reduceIte]
  unfold distrA
  rw [hl]
  simp only [hs]

/-- `Σ_{κ < n} f κ` -/
def sumF : Nat → (Nat → Int) → Int
  | 0, _ => 0
  | n + 1, f => sumF n f + f n

theorem sumF_le (n : Nat) (f g : Nat → Int) (h : ∀ κ, κ < n → f κ ≤ g κ) : sumF n f ≤ sumF n g := by
  induction n with
  | zero => exact Int.le_refl _
  | succ n ih =>
    have := ih (fun κ hk => h κ (by omega))
    have := h n (by omega)
    simp only [sumF]; omega

theorem sumF_congr (n : Nat) (f g : Nat → Int) (h : ∀ κ, κ < n → f κ = g κ) : sumF n f = sumF n g := by
  induction n with
  | zero => rfl
  | succ n ih =>
    simp only [sumF]
    rw [ih (fun κ hk => h κ (by omega)), h n (by omega)]

theorem sumF_upd (n : Nat) (f : Nat → Int) (κ : Nat) (v : Int) (hk : κ < n) :
    sumF n (fun x => if x = κ then f x + v else f x) = sumF n f + v := by
  induction n with
  | zero => omega
  | succ n ih =>
    simp only [sumF]
    by_cases h : κ = n
    · subst h
      have : sumF κ (fun x => if x = κ then f x + v else f x) = sumF κ f :=
        sumF_congr κ _ _ (fun x hx => by have : ¬ x = κ := by omega
                                         simp [this])
      rw [this]; simp; omega
    · have h1 := ih (by omega)
      have h2 : ¬ n = κ := fun e => h e.symm
      rw [h1]; simp only [h2, ↓reduceIte]; omega

theorem sumF_succ' (n : Nat) (f : Nat → Int) : sumF (n + 1) f = f 0 + sumF n (fun x => f (x + 1)) := by
  induction n with
  | zero => simp [sumF]
  | succ n ih =>
    have : sumF (n + 1 + 1) f = sumF (n + 1) f + f (n + 1) := rfl
    rw [this, ih]
    simp only [sumF]; omega

theorem sumF_list (l : List Int) (g : Nat → Int)
    (h : ∀ j, g j = match l[j]? with | some s => s | none => 0) : sumF l.length g = sumInts l := by
  induction l generalizing g with
  | nil => rfl
  | cons a t ih =>
    simp only [List.length_cons, sumInts]
    rw [sumF_succ', ih (fun x => g (x + 1)) (fun j => by rw [h (j + 1)]; simp)]
    have := h 0
    simp at this
    rw [this]

theorem sumF_shares (d : Distr) : sumF (d.limits.length + 1) (shareOf d) = sumShares d := by
  rw [sumF_succ', sumF_list d.limits (fun x => shareOf d (x + 1)) (fun j => rfl)]
  rfl

/-- **share of a listed value on the abstract machine** -/
theorem abs_listed_le (cfg : Cfg) (hw : CfgWF cfg) (i : Nat) (r : Rule) (key : Bytes) (id : Int)
    (hr : cfg.rules[i]? = some r) (h0 : 0 ≤ r.limit) (he : r.distr.isEnabled = true)
    (j : Nat) (sj : Int) (hsj : r.distr.limits[j]? = some sj) :
    ∀ (es : List Ev) (c : Cnt) (base : Int), sizesOK es = true →
      base ≤ c (limKey i key) id (j + 1) → base ≤ sj →
      base + passedListed cfg r.distr (limKey i key) id j (absObs cfg c es) ≤ sj := by
  intro es
  induction es with
  | nil => intro c base _ _ hb; simpa [absObs, passedListed] using hb
  | cons e t ih =>
    intro c base hsz hbc hbl
    obtain ⟨hs0, hst⟩ := sizesOK_cons e t hsz
    simp only [absObs, passedListed]
    have hmono := absStep_mono cfg c e hs0 (limKey i key) id (j + 1)
    by_cases hcon : ((absStep cfg c e).2 && hits cfg (limKey i key) id e &&
        (listedIdx r.distr e == some j)) = true
    · rw [if_pos hcon]
      simp only [Bool.and_eq_true, beq_iff_eq] at hcon
      obtain ⟨⟨ha, hh⟩, hlj⟩ := hcon
      obtain ⟨ir, hro, hir, hlk, hat⟩ := hit_rule cfg hw i r key id e hr hh
      have hstep := absStep_rule cfg c e ir hro (by rw [hir]; exact h0)
      rw [hir, colLim_listed r _ e he j sj hlj hsj, hlk, hat] at hstep
      simp only at hstep
      rw [valOf_rule cfg e ir hro, hir]
      rw [hstep] at ha
      simp only [decide_eq_true_eq] at ha
      have hc' : (absStep cfg c e).1 (limKey i key) id (j + 1)
          = c (limKey i key) id (j + 1) + evVal r.kind e := by
        rw [hstep]; simp [cnt_add_apply]
      have := ih (absStep cfg c e).1 (base + evVal r.kind e) hst (by rw [hc']; omega) (by omega)
      omega
    · rw [if_neg hcon]
      have := ih (absStep cfg c e).1 base hst (by omega) hbl
      omega

/-- **total of a distributed bucket on the abstract machine**: with `bases κ` already passed in
    column `κ`, the passed total stays within the sum of the shares -/
theorem abs_total_le (cfg : Cfg) (hw : CfgWF cfg) (i : Nat) (r : Rule) (key : Bytes) (id : Int)
    (hr : cfg.rules[i]? = some r) (h0 : 0 ≤ r.limit) (he : r.distr.isEnabled = true) :
    ∀ (es : List Ev) (c : Cnt) (bases : Nat → Int), sizesOK es = true →
      (∀ κ, κ ≤ r.distr.limits.length →
        bases κ ≤ c (limKey i key) id κ ∧ bases κ ≤ shareOf r.distr κ) →
      sumF (r.distr.limits.length + 1) bases + passed cfg (limKey i key) id (absObs cfg c es)
        ≤ sumF (r.distr.limits.length + 1) (shareOf r.distr) := by
  intro es
  induction es with
  | nil =>
    intro c bases _ hb
    simp only [absObs, passed, Int.add_zero]
    exact sumF_le _ _ _ (fun κ hk => (hb κ (by omega)).2)
  | cons e t ih =>
    intro c bases hsz hb
    obtain ⟨hs0, hst⟩ := sizesOK_cons e t hsz
    simp only [absObs, passed]
    have hmono := fun κ => absStep_mono cfg c e hs0 (limKey i key) id κ
    by_cases hcon : ((absStep cfg c e).2 && hits cfg (limKey i key) id e) = true
    · rw [if_pos hcon]
      simp only [Bool.and_eq_true] at hcon
      obtain ⟨ha, hh⟩ := hcon
      obtain ⟨ir, hro, hir, hlk, hat⟩ := hit_rule cfg hw i r key id e hr hh
      have hstep := absStep_rule cfg c e ir hro (by rw [hir]; exact h0)
      rw [hir, hlk, hat] at hstep
      generalize hcl : colLim r (c (limKey i key) id) e = cl at hstep
      have hcol : cl.1 ≤ r.distr.limits.length := by rw [← hcl]; exact colLim_col_le _ _ _
      have hshare : cl.2 = shareOf r.distr cl.1 := by rw [← hcl]; exact colLim_share r _ e he
      rw [valOf_rule cfg e ir hro, hir]
      rw [hstep] at ha
      simp only [decide_eq_true_eq] at ha
      have hc' : ∀ κ, (absStep cfg c e).1 (limKey i key) id κ
          = c (limKey i key) id κ + (if κ = cl.1 then evVal r.kind e else 0) := by
        intro κ; rw [hstep]; simp [cnt_add_apply]
      have := ih (absStep cfg c e).1 (fun x => if x = cl.1 then bases x + evVal r.kind e else bases x) hst
        (by
          intro κ hκ
          obtain ⟨b1, b2⟩ := hb κ hκ
          rw [hc' κ]
          by_cases hk : κ = cl.1
          · subst hk
            simp only [↓reduceIte]
            exact ⟨by omega, by rw [← hshare]; omega⟩
          · simp only [hk, ↓reduceIte]
            exact ⟨by omega, b2⟩)
      rw [sumF_upd _ _ _ _ (by omega)] at this
      omega
    · rw [if_neg hcon]
      have := ih (absStep cfg c e).1 bases hst
        (fun κ hκ => ⟨by have := (hb κ hκ).1; have := hmono κ; omega, (hb κ hκ).2⟩)
      omega

/-! ### rejected only over the limit, on the abstract machine -/

theorem arrived_append (cfg : Cfg) (lk : Bytes) (id : Int) (pre : List Ev) (e : Ev) :
    arrived cfg lk id (pre ++ [e]) = arrived cfg lk id pre + (if hits cfg lk id e then valOf cfg e else 0) := by
  induction pre with
  | nil => simp [arrived]
  | cons a t ih => simp only [List.cons_append, arrived, ih]; omega

/-- counters of rules without distribution are exactly the arrivals -/
def CountsArrivals (cfg : Cfg) (c : Cnt) (pre : List Ev) : Prop :=
  ∀ i r key id, cfg.rules[i]? = some r → 0 ≤ r.limit → r.distr.isEnabled = false →
    c (limKey i key) id 0 = arrived cfg (limKey i key) id pre

theorem countsArrivals_step (cfg : Cfg) (hw : CfgWF cfg) (c : Cnt) (pre : List Ev) (e : Ev)
    (h : CountsArrivals cfg c pre) : CountsArrivals cfg (absStep cfg c e).1 (pre ++ [e]) := by
  intro i r key id hr h0 hd
  rw [arrived_append, ← h i r key id hr h0 hd]
  cases hh : hits cfg (limKey i key) id e with
  | false => rw [absStep_frame cfg c e _ _ hh]; simp
  | true =>
    obtain ⟨ir, hro, hir, hlk, hat⟩ := hit_rule cfg hw i r key id e hr hh
    have hstep := absStep_rule cfg c e ir hro (by rw [hir]; exact h0)
    have hcl : ∀ g, colLim ir.2 g e = (0, r.limit) := by
      intro g; unfold colLim; rw [hir, hd]; simp
    rw [hcl, hlk, hat, hir] at hstep
    rw [hstep, valOf_rule cfg e ir hro, hir]
    simp [cnt_add_apply]

theorem abs_rejectOK (cfg : Cfg) (hw : CfgWF cfg) :
    ∀ (es : List Ev) (c : Cnt) (pre : List Ev), CountsArrivals cfg c pre →
      rejectOK cfg pre (absObs cfg c es) = true := by
  intro es
  induction es with
  | nil => intros; rfl
  | cons e t ih =>
    intro c pre hinv
    have hinv' := countsArrivals_step cfg hw c pre e hinv
    simp only [absObs, rejectOK, Bool.and_eq_true]
    refine ⟨?_, ih _ _ hinv'⟩
    cases hro : ruleOf cfg e with
    | none => rfl
    | some ir =>
      simp only
      split
      · rfl
      · rename_i hcond
        simp only [Bool.or_eq_true, decide_eq_true_eq, not_or, Bool.not_eq_true, Int.not_lt] at hcond
        obtain ⟨⟨ha, hd⟩, h0⟩ := hcond
        have hrule := ruleOf_some cfg e ir hro
        rw [← hinv' ir.1 ir.2 (throttleKey e) (attr cfg e) hrule h0 hd]
        have hstep := absStep_rule cfg c e ir hro h0
        have hcl : ∀ g, colLim ir.2 g e = (0, ir.2.limit) := by
          intro g; unfold colLim; rw [hd]; simp
        rw [hcl] at hstep
        rw [hstep] at ha ⊢
        simp only [decide_eq_false_iff_not, Int.not_le] at ha
        simp only [cnt_add_apply, and_self, ↓reduceIte, decide_eq_true_eq]
        exact ha

/-! ### unlimited rules, on the abstract machine -/

theorem abs_mustPass (cfg : Cfg) : ∀ (es : List Ev) (c : Cnt), ∀ x ∈ absObs cfg c es, mustPassOK cfg x = true := by
  intro es
  induction es with
  | nil => intro c x hx; simp [absObs] at hx
  | cons e t ih =>
    intro c x hx
    simp only [absObs, List.mem_cons] at hx
    rcases hx with hx | hx
    · subst hx
      unfold mustPassOK absStep
      cases hro : ruleOf cfg e with
      | none => rfl
      | some ir =>
        simp only
        split
        · rfl
        · simp
    · exact ih _ x hx

/-! ### keys are independent, on the abstract machine -/

theorem absStep_other (cfg : Cfg) (c : Cnt) (e : Ev) (k : Bytes) (h : limKeyOf cfg e ≠ some k)
    (x : Int) (d : Nat) : (absStep cfg c e).1 k x d = c k x d := by
  apply absStep_frame
  cases hh : hits cfg k x e with
  | false => rfl
  | true => rw [hits_iff] at hh; exact absurd hh.1 h

theorem absStep_local (cfg : Cfg) (c1 c2 : Cnt) (e : Ev) (k : Bytes) (h : limKeyOf cfg e = some k)
    (hag : ∀ x d, c1 k x d = c2 k x d) :
    (absStep cfg c1 e).2 = (absStep cfg c2 e).2 ∧
      ∀ x d, (absStep cfg c1 e).1 k x d = (absStep cfg c2 e).1 k x d := by
  unfold limKeyOf at h
  unfold absStep
  cases hro : ruleOf cfg e with
  | none => rw [hro] at h; cases h
  | some ir =>
    rw [hro] at h
    simp only [Option.some.injEq] at h
    simp only
    split
    · exact ⟨rfl, hag⟩
    · rw [h]
      have hf : c1 k (attr cfg e) = c2 k (attr cfg e) := funext (hag _)
      rw [hf]
      refine ⟨by simp only [cnt_add_apply, hag], ?_⟩
      intro x d
      simp only [cnt_add_apply, hag]

theorem abs_keys_independent (cfg : Cfg) (k : Bytes) :
    ∀ (ops : List Op) (c1 c2 : Cnt), (∀ x d, c1 k x d = c2 k x d) →
      answersFor cfg k ops (absResults cfg c1 ops)
        = answersFor cfg k (onKey cfg k ops) (absResults cfg c2 (onKey cfg k ops)) := by
  intro ops
  induction ops with
  | nil => intros; rfl
  | cons op ops ih =>
    intro c1 c2 hag
    cases op with
    | expire k' =>
      simp only [absResults, answersFor, onKey]
      split
      · simp only [absResults, answersFor]; exact ih c1 c2 hag
      · exact ih c1 c2 hag
    | ev e =>
      simp only [absResults, answersFor, onKey]
      by_cases h : limKeyOf cfg e = some k
      · obtain ⟨h1, h2⟩ := absStep_local cfg c1 c2 e k h hag
        simp only [h, ↓reduceIte, absResults, answersFor, h1]
        congr 1
        exact ih _ _ h2
      · simp only [h, ↓reduceIte]
        exact ih _ c2 (fun x d => by rw [absStep_other cfg c1 e k h]; exact hag x d)

/-! ### the hypotheses survive the restriction to one key -/

theorem nowOK_mono (cfg : Cfg) (es : List Ev) (l1 l2 : Int) (h : l2 ≤ l1) (hn : nowOK cfg l1 es = true) :
    nowOK cfg l2 es = true := by
  cases es with
  | nil => rfl
  | cons e t =>
    simp only [nowOK, Bool.and_eq_true, decide_eq_true_eq] at hn ⊢
    exact ⟨⟨by omega, hn.1.2⟩, hn.2⟩

theorem nowOK_onKey (cfg : Cfg) (k : Bytes) : ∀ (ops : List Op) (last : Int),
    nowOK cfg last (evs ops) = true → nowOK cfg last (evs (onKey cfg k ops)) = true := by
  intro ops
  induction ops with
  | nil => intros; rfl
  | cons op ops ih =>
    intro last hn
    cases op with
    | expire k' =>
      simp only [onKey, evs] at hn ⊢
      split
      · simp only [evs]; exact ih last hn
      · exact ih last hn
    | ev e =>
      simp only [onKey, evs] at hn ⊢
      simp only [nowOK, Bool.and_eq_true, decide_eq_true_eq] at hn
      split
      · simp only [evs, nowOK, Bool.and_eq_true, decide_eq_true_eq]
        exact ⟨hn.1, ih _ hn.2⟩
      · exact nowOK_mono cfg _ _ _ hn.1.1 (ih _ hn.2)

theorem safe_onKey (cfg : Cfg) (k : Bytes) : ∀ (ops : List Op) (live live' : List Bytes) (hist hist' : List Ev),
    (k ∈ live → k ∈ live') → (∀ e' ∈ hist', e' ∈ hist) → SafeExpiry cfg live hist ops →
    SafeExpiry cfg live' hist' (onKey cfg k ops) := by
  intro ops
  induction ops with
  | nil => intros; trivial
  | cons op ops ih =>
    intro live live' hist hist' hl hh hs
    cases op with
    | expire k' =>
      simp only [SafeExpiry] at hs
      simp only [onKey]
      split
      · rename_i hk
        simp only [SafeExpiry]
        apply ih _ _ _ _ _ hh hs
        intro hmem
        simp [hk] at hmem
      · rename_i hk
        apply ih _ _ _ _ _ hh hs
        intro hmem
        simp only [List.mem_filter] at hmem
        exact hl hmem.1
    | ev e =>
      simp only [SafeExpiry] at hs
      obtain ⟨hhead, htail⟩ := hs
      simp only [onKey]
      split
      · rename_i hk
        simp only [SafeExpiry, hk]
        refine ⟨?_, ?_⟩
        · intro k0 hk0
          cases hk0
          rcases hhead k hk with h | h
          · exact Or.inl (hl h)
          · exact Or.inr (fun e' he' => h e' (hh e' he'))
        · rw [hk] at htail
          apply ih _ _ _ _ _ _ htail
          · intro hmem
            simp only [List.mem_cons] at hmem ⊢
            rcases hmem with h | h
            · exact Or.inl h
            · exact Or.inr (hl h)
          · intro e' he'
            simp only [List.mem_cons] at he' ⊢
            rcases he' with h | h
            · exact Or.inl h
            · exact Or.inr (hh e' h)
      · rename_i hk
        apply ih _ _ _ _ _ _ htail
        · intro hmem
          cases hlk : limKeyOf cfg e with
          | none => rw [hlk] at hmem; exact hl hmem
          | some k0 =>
            rw [hlk] at hmem
            simp only [List.mem_cons] at hmem
            rcases hmem with h | h
            · rw [← h] at hlk; exact absurd hlk hk
            · exact hl h
        · intro e' he'
          exact List.mem_cons_of_mem _ (hh e' he')

theorem safe_of_noExpire (cfg : Cfg) : ∀ (ops : List Op) (live : List Bytes) (hist : List Ev),
    (∀ e' ∈ hist, ∀ k, limKeyOf cfg e' = some k → k ∈ live) → noExpire ops = true →
    SafeExpiry cfg live hist ops := by
  intro ops
  induction ops with
  | nil => intros; trivial
  | cons op ops ih =>
    intro live hist hinv hne
    cases op with
    | expire k => simp [noExpire] at hne
    | ev e =>
      simp only [noExpire] at hne
      simp only [SafeExpiry]
      refine ⟨?_, ?_⟩
      · intro k hk
        by_cases hm : k ∈ live
        · exact Or.inl hm
        · right
          intro e' he' hk'
          exact absurd (hinv e' he' k hk') hm
      · apply ih _ _ _ hne
        intro e' he' k hk
        simp only [List.mem_cons] at he'
        rcases he' with h | h
        · subst h; rw [hk]; exact List.mem_cons_self
        · have := hinv e' h k hk
          cases limKeyOf cfg e with
          | none => exact this
          | some k0 => exact List.mem_cons_of_mem _ this

/-! ### the executable hypotheses and the oracle -/

theorem cfgOK_scope (cfg : Cfg) (h : cfgOK cfg = true) : cfgScope cfg = true := by
  simp only [cfgOK, Bool.and_eq_true] at h; exact h.1

theorem cfgOK_wf (cfg : Cfg) (h : cfgOK cfg = true) : CfgWF cfg := by
  simp only [cfgOK, cfgScope, Bool.and_eq_true, decide_eq_true_eq, List.all_eq_true, Bool.or_eq_true,
    Bool.not_eq_true'] at h
  obtain ⟨⟨⟨h1, h2⟩, h4⟩, h3⟩ := h
  refine ⟨h1, h2, h3, ?_⟩
  intro r hr he
  rcases h4 r hr with h | h
  · rw [he] at h; cases h
  · simp only [distrOK, Bool.and_eq_true, List.all_eq_true, decide_eq_true_eq] at h
    exact h.1.1

theorem cfgOK_shares (cfg : Cfg) (h : cfgOK cfg = true) (r : Rule) (hr : r ∈ cfg.rules)
    (he : r.distr.isEnabled = true) : (∀ x ∈ r.distr.limits, 0 ≤ x) ∧ 0 ≤ r.distr.defLimit := by
  simp only [cfgOK, cfgScope, Bool.and_eq_true, decide_eq_true_eq, List.all_eq_true, Bool.or_eq_true,
    Bool.not_eq_true'] at h
  rcases h.1.2 r hr with h4 | h4
  · rw [he] at h4; cases h4
  · simp only [distrOK, Bool.and_eq_true, List.all_eq_true, decide_eq_true_eq] at h4
    exact ⟨h4.1.2, h4.2⟩

theorem shareOf_nonneg (d : Distr) (h1 : ∀ x ∈ d.limits, 0 ≤ x) (h2 : 0 ≤ d.defLimit) (κ : Nat) :
    0 ≤ shareOf d κ := by
  cases κ with
  | zero => exact h2
  | succ j =>
    simp only [shareOf]
    split
    · rename_i s hs
      exact h1 s (List.mem_of_getElem? hs)
    · exact Int.le_refl _

theorem sumF_zero (n : Nat) : sumF n (fun _ => 0) = 0 := by
  induction n with
  | zero => rfl
  | succ n ih => simp [sumF, ih]

theorem reps_subset (cfg : Cfg) : ∀ (obs : List (Ev × Bool)) (seen : List (Option Nat × Option Bytes × Int)),
    ∀ x ∈ reps cfg obs seen, x ∈ obs := by
  intro obs
  induction obs with
  | nil => intro seen x hx; simp [reps] at hx
  | cons a t ih =>
    intro seen x hx
    unfold reps at hx
    split at hx
    · exact List.mem_cons_of_mem _ (ih _ x hx)
    · simp only [List.mem_cons] at hx ⊢
      rcases hx with h | h
      · exact Or.inl h
      · exact Or.inr (ih _ x h)

/-- the three safety facts about the answers of the abstract machine started empty -/
theorem abs_pairOK (cfg : Cfg) (hc : cfgOK cfg = true) (es : List Ev) (hsz : sizesOK es = true)
    (x : Ev × Bool) : pairOK cfg (absObs cfg Cnt.zero es) x = true := by
  have hw := cfgOK_wf cfg hc
  unfold pairOK
  cases hro : ruleOf cfg x.1 with
  | none => rfl
  | some ir =>
    have hrule := ruleOf_some cfg x.1 ir hro
    obtain ⟨_, hmem⟩ := rule_idx_lt cfg hw ir.1 ir.2 hrule
    simp only
    split
    · rfl
    · rename_i hneg
      have h0 : 0 ≤ ir.2.limit := by omega
      cases he : ir.2.distr.isEnabled with
      | false =>
        simp only [Bool.false_eq_true, ↓reduceIte, decide_eq_true_eq]
        have := abs_passed_le cfg hw ir.1 ir.2 (throttleKey x.1) (attr cfg x.1) hrule h0 he es Cnt.zero 0 hsz
          (Int.le_refl _) h0
        omega
      | true =>
        obtain ⟨hsh1, hsh2⟩ := cfgOK_shares cfg hc ir.2 hmem he
        simp only [↓reduceIte, Bool.and_eq_true, decide_eq_true_eq]
        refine ⟨?_, ?_⟩
        · unfold allIdx
          rw [List.all_eq_true]
          intro j _
          split
          · rename_i s hs
            have := abs_listed_le cfg hw ir.1 ir.2 (throttleKey x.1) (attr cfg x.1) hrule h0 he j s hs es
              Cnt.zero 0 hsz (Int.le_refl _) (hsh1 s (List.mem_of_getElem? hs))
            simp only [decide_eq_true_eq]; omega
          · rfl
        · have := abs_total_le cfg hw ir.1 ir.2 (throttleKey x.1) (attr cfg x.1) hrule h0 he es Cnt.zero
            (fun _ => 0) hsz (fun κ _ => ⟨Int.le_refl _, shareOf_nonneg _ hsh1 hsh2 κ⟩)
          rw [sumF_zero, sumF_shares] at this
          omega

theorem abs_verdict (cfg : Cfg) (hc : cfgOK cfg = true) (es : List Ev)
    (hn : nowOK cfg ((cfg.count : Int) * cfg.interval) es = true) (hsz : sizesOK es = true) (b : Bool) :
    verdict cfg (absObs cfg Cnt.zero es) b = Verdict.ok := by
  have hw := cfgOK_wf cfg hc
  have hmap : ∀ (c : Cnt) (l : List Ev), (absObs cfg c l).map (·.1) = l := by
    intro c l
    induction l generalizing c with
    | nil => rfl
    | cons a t ih => simp only [absObs, List.map_cons, ih]
  unfold verdict
  rw [hmap, cfgOK_scope cfg hc, hn, hsz]
  have hsafe : safeHolds cfg (absObs cfg Cnt.zero es) = true := by
    unfold safeHolds
    rw [Bool.and_eq_true, List.all_eq_true, List.all_eq_true]
    exact ⟨abs_mustPass cfg es Cnt.zero, fun x _ => abs_pairOK cfg hc es hsz x⟩
  have hrej : rejectOK cfg [] (absObs cfg Cnt.zero es) = true :=
    abs_rejectOK cfg hw es Cnt.zero [] (fun _ _ _ _ _ _ _ => rfl)
  simp [hsafe, hrej]

theorem absResults_no_panic (cfg : Cfg) : ∀ (ops : List Op) (c : Cnt) (p : Panic),
    Res.panic p ∉ absResults cfg c ops := by
  intro ops
  induction ops with
  | nil => intro c p h; simp [absResults] at h
  | cons op ops ih =>
    intro c p h
    cases op with
    | expire k =>
      simp only [absResults, List.mem_cons] at h
      rcases h with h | h
      · cases h
      · exact ih c p h
    | ev e =>
      simp only [absResults, List.mem_cons] at h
      rcases h with h | h
      · split at h <;> cases h
      · exact ih _ p h

theorem hyp_results (cfg : Cfg) (ops : List Op) (h : Hyp cfg ops) :
    results cfg State.init ops = absResults cfg Cnt.zero ops :=
  sim_results cfg (cfgOK_wf cfg h.hcfg) ops State.init Cnt.zero ((cfg.count : Int) * cfg.interval) [] []
    (sim_init cfg _) h.hnow h.hsafe

theorem observed_eq (cfg : Cfg) (ops : List Op) (h : Hyp cfg ops) :
    observe ops (results cfg State.init ops) = absObs cfg Cnt.zero (evs ops) := by
  rw [hyp_results cfg ops h, observe_abs]

/-- what `rejectOK` says, as a proposition: every discarded event of a rule with limit ≥ 0 and
    no distribution saw arrivals (itself included) above the limit in its bucket -/
theorem rejectOK_spec (cfg : Cfg) : ∀ (obs : List (Ev × Bool)) (pre : List Ev),
    rejectOK cfg pre obs = true →
    ∀ (a : List (Ev × Bool)) (x : Ev × Bool) (b : List (Ev × Bool)), obs = a ++ x :: b → x.2 = false →
    ∀ ir, ruleOf cfg x.1 = some ir → ir.2.distr.isEnabled = false → 0 ≤ ir.2.limit →
      ir.2.limit < arrived cfg (limKey ir.1 (throttleKey x.1)) (attr cfg x.1) (pre ++ a.map (·.1) ++ [x.1]) := by
  intro obs
  induction obs with
  | nil => intro pre _ a x b h; simp at h
  | cons y t ih =>
    intro pre hrej a x b hsplit hx ir hro hd h0
    simp only [rejectOK, Bool.and_eq_true] at hrej
    cases a with
    | nil =>
      simp only [List.nil_append, List.cons.injEq] at hsplit
      obtain ⟨hy, _⟩ := hsplit
      subst hy
      have h1 := hrej.1
      rw [hro] at h1
      have hnot : ¬ ((y.2 || ir.2.distr.isEnabled || decide (ir.2.limit < 0)) = true) := by
        rw [hx, hd]; simp; omega
      simpa [hnot] using h1
    | cons a0 a' =>
      simp only [List.cons_append, List.cons.injEq] at hsplit
      obtain ⟨hy, ht⟩ := hsplit
      subst hy
      have := ih (pre ++ [y.1]) hrej.2 a' x b ht hx ir hro hd h0
      simpa [List.append_assoc] using this

/-! ### concrete instances used by the non-vacuity examples of Props/C16.lean -/

def ka : Bytes := [97]
def kb : Bytes := [98]
/-- buckets_count 2, bucket_interval 10, one (default) rule: limit 1, count kind -/
def cfg1 : Cfg := ⟨2, 10, [⟨[], 1, .count, Distr.empty⟩]⟩
def ev1 (key : Bytes) (ts now : Int) : Op := .ev ⟨key, ts, now, 1, []⟩
/-- two events of key a in bucket 10, one of key b, a jump of three windows, key a again -/
def ops1 : List Op := [ev1 ka 100 100, ev1 ka 105 105, ev1 kb 103 106, ev1 ka 165 165, ev1 ka 100 166]

theorem hyp1 : Hyp cfg1 ops1 :=
  ⟨by decide, by decide, safe_of_noExpire cfg1 ops1 [] [] (fun _ h => by cases h) (by decide)⟩

/-- the same with the limiter of key a expiring during the jump: allowed, nothing of a's history
    is inside the window when a comes back -/
def ops2 : List Op := [ev1 ka 100 100, ev1 ka 105 105, .expire (limKey 0 ka), ev1 ka 165 165]

theorem hyp2 : Hyp cfg1 ops2 := by
  refine ⟨by decide, by decide, ?_⟩
  simp only [ops2, ev1, SafeExpiry, List.mem_cons, List.not_mem_nil, or_false, false_or,
    true_and, and_true, forall_eq, forall_eq_or_imp, false_implies, implies_true]
  decide

def fd : Bytes := [100]
def ve : Bytes := [101]
def vq : Bytes := [113]
/-- limit 4 distributed on field d: value e gets share 2, the default distribution share 1 -/
def cfgD : Cfg := ⟨2, 10, [⟨[], 4, .count, ⟨fd, [(ve, 0)], [2], 1, true⟩⟩]⟩
def evD (v : Bytes) (now : Int) : Op := .ev ⟨ka, now, now, 1, [(fd, v)]⟩
/-- three e events (third over its share), three other events (one in the default share, one
    stealing the free unit of e's share - none left - so: q passes once, steals nothing) -/
def opsD : List Op := [evD ve 100, evD vq 101, evD ve 102, evD ve 103, evD vq 104, evD vq 105]

theorem hypD : Hyp cfgD opsD :=
  ⟨by decide, by decide, safe_of_noExpire cfgD opsD [] [] (fun _ h => by cases h) (by decide)⟩


/-- witness: limit 1; the bucket is exhausted, the limiter expires although its bucket is still
    retained, the next event of the same bucket passes through a fresh limiter (corpus/C16/expiry.case
    replays it on the implementation: it was reachable with limiter_expiration < bucket_interval ×
    buckets_count before the fix) -/
def opsBad : List Op := [ev1 ka 100 100, ev1 ka 101 101, .expire (limKey 0 ka), ev1 ka 102 102]


def cfgU : Cfg := ⟨2, 10, [⟨[], -1, .count, Distr.empty⟩]⟩

/-- a limiter that expires only after its key was silent for a whole retained window expires safely -/
theorem safe_of_silent (cfg : Cfg) (hc : 0 < cfg.count) : ∀ (ops : List Op) (live : List Bytes) (hist : List Ev),
    SilentExpiry cfg live hist ops → SafeExpiry cfg live hist ops := by
  intro ops
  induction ops with
  | nil => intros; trivial
  | cons op ops ih =>
    intro live hist hs
    cases op with
    | expire k => simp only [SilentExpiry] at hs; simp only [SafeExpiry]; exact ih _ _ hs
    | ev e =>
      simp only [SilentExpiry] at hs
      simp only [SafeExpiry]
      refine ⟨?_, ih _ _ hs.2⟩
      intro k hk
      rcases hs.1 k hk with h | h
      · exact Or.inl h
      · right
        intro e' he' hk'
        have := h e' he' hk'
        have := (attr_window cfg e' hc).2
        omega

/-! ### the limiters map: generations and maintenance -/

theorem evLimKey_eq (cfg : Cfg) (e : Ev) : evLimKey cfg e = limKeyOf cfg e := rfl

theorem evs_append (a b : List Op) : evs (a ++ b) = evs a ++ evs b := by
  induction a with
  | nil => rfl
  | cons op t ih => cases op <;> simp [evs, ih]

theorem evs_expires (ks : List Bytes) : evs (ks.map Op.expire) = [] := by
  induction ks with
  | nil => rfl
  | cons k t ih => simp [evs, ih]

theorem evs_expand (cfg : Cfg) (exp : Int) (r : Bool) : ∀ (ops : List MOp) (g : Gens),
    evs (expand cfg exp r g ops) = mevs ops := by
  intro ops
  induction ops with
  | nil => intro g; rfl
  | cons op ops ih =>
    intro g
    cases op with
    | ev e => simp [expand, expandStep, evs, mevs, ih]
    | tick t => simp [expand, expandStep, evs_append, evs_expires, mevs, ih]

theorem nowOK_of_clock (cfg : Cfg) (δ : Int) : ∀ (ops : List MOp) (cur last : Int),
    ClockOK cfg δ cur last ops → nowOK cfg last (mevs ops) = true := by
  intro ops
  induction ops with
  | nil => intros; rfl
  | cons op ops ih =>
    intro cur last h
    cases op with
    | ev e =>
      simp only [ClockOK] at h
      simp only [mevs, nowOK, Bool.and_eq_true, decide_eq_true_eq]
      exact ⟨⟨h.1, h.2.2.2.1⟩, ih _ _ h.2.2.2.2⟩
    | tick t =>
      simp only [ClockOK] at h
      simp only [mevs]
      exact ih _ _ h.2.2

theorem mem_setStamp (k : Bytes) (c : Int) (l : List (Bytes × Int)) (k2 : Bytes) (s2 : Int) :
    (k2, s2) ∈ setStamp k c l ↔ ((k2, s2) ∈ l ∧ k2 ≠ k) ∨ (k2 = k ∧ s2 = c) := by
  unfold setStamp
  simp only [List.mem_append, List.mem_filter, bne_iff_ne, ne_eq, List.mem_singleton, Prod.mk.injEq]

theorem touch_true (g : Gens) (k : Bytes) : touch true g k = { g with stamps := setStamp k g.cur g.stamps } := by
  unfold touch
  cases g.stamps.lookup k <;> simp

theorem mem_expiredKeys (exp : Int) (g : Gens) (t : Int) (k : Bytes) :
    k ∈ expiredKeys exp g t ↔ ∃ s, (k, s) ∈ g.stamps ∧ ¬ (t - s < exp) := by
  unfold expiredKeys
  simp only [List.mem_map, List.mem_filter, Bool.not_eq_eq_eq_not, Bool.not_true, decide_eq_false_iff_not]
  constructor
  · rintro ⟨⟨k', s⟩, ⟨hm, hn⟩, rfl⟩
    exact ⟨s, hm, hn⟩
  · rintro ⟨s, hm, hn⟩
    exact ⟨(k, s), ⟨hm, hn⟩, rfl⟩

theorem mem_tickGens (exp : Int) (g : Gens) (t : Int) (k : Bytes) (s : Int) :
    (k, s) ∈ (tickGens exp g t).stamps ↔ (k, s) ∈ g.stamps ∧ t - s < exp := by
  unfold tickGens
  simp only [List.mem_filter, decide_eq_true_eq]

/-- the `live` list after the `expire` ops of one maintenance iteration -/
def dropKeys (live : List Bytes) (ks : List Bytes) : List Bytes :=
  ks.foldl (fun l k => l.filter (fun k' => k' != k)) live

theorem mem_dropKeys (ks : List Bytes) : ∀ (live : List Bytes) (x : Bytes),
    x ∈ dropKeys live ks ↔ x ∈ live ∧ x ∉ ks := by
  induction ks with
  | nil => intro live x; simp [dropKeys]
  | cons k t ih =>
    intro live x
    have := ih (live.filter (fun k' => k' != k)) x
    simp only [dropKeys, List.foldl_cons] at this ⊢
    rw [this]
    simp only [List.mem_filter, bne_iff_ne, ne_eq, List.mem_cons, not_or]
    constructor
    · rintro ⟨⟨h1, h2⟩, h3⟩; exact ⟨h1, h2, h3⟩
    · rintro ⟨h1, h2, h3⟩; exact ⟨⟨h1, h2⟩, h3⟩

theorem silent_expires (cfg : Cfg) (hist : List Ev) (rest : List Op) : ∀ (ks : List Bytes) (live : List Bytes),
    SilentExpiry cfg (dropKeys live ks) hist rest → SilentExpiry cfg live hist (ks.map Op.expire ++ rest) := by
  intro ks
  induction ks with
  | nil => intro live h; simpa [dropKeys] using h
  | cons k t ih =>
    intro live h
    simp only [List.map_cons, List.cons_append, SilentExpiry]
    apply ih
    simpa [dropKeys] using h

theorem bucket_add_window (cfg : Cfg) (hI : 0 < cfg.interval) (a b : Int)
    (h : a + (cfg.count : Int) * cfg.interval ≤ b) : bucketOf cfg a + cfg.count ≤ bucketOf cfg b := by
  have := Int.ediv_le_ediv hI h
  rw [Int.add_mul_ediv_right _ _ (by omega)] at this
  exact this

/-- what the generations know about the history, when every generation stamp is at most `δ` old -/
structure GInv (cfg : Cfg) (δ : Int) (g : Gens) (last : Int) (live : List Bytes) (hist : List Ev) : Prop where
  uniq : ∀ k s1 s2, (k, s1) ∈ g.stamps → (k, s2) ∈ g.stamps → s1 = s2
  live : ∀ k s, (k, s) ∈ g.stamps → k ∈ live
  fresh : ∀ k s, (k, s) ∈ g.stamps → ∀ e' ∈ hist, limKeyOf cfg e' = some k → e'.now ≤ s * 1000 + δ
  dead : ∀ k, (∀ s, (k, s) ∉ g.stamps) → ∀ e' ∈ hist, limKeyOf cfg e' = some k →
    e'.now + (cfg.count : Int) * cfg.interval ≤ g.cur * 1000
  hist : ∀ e' ∈ hist, e'.now ≤ last

/-- **maintenance is safe when the expiration covers the window plus the staleness of a stamp**:
    the `expire` ops that the map's maintenance produces satisfy `SilentExpiry` -/
theorem silent_of_clock (cfg : Cfg) (exp δ : Int) (hI : 0 < cfg.interval)
    (hexp : (cfg.count : Int) * cfg.interval + δ ≤ exp * 1000) :
    ∀ (ops : List MOp) (g : Gens) (last : Int) (live : List Bytes) (hist : List Ev),
      GInv cfg δ g last live hist → ClockOK cfg δ g.cur last ops →
      SilentExpiry cfg live hist (expand cfg exp true g ops) := by
  intro ops
  induction ops with
  | nil => intros; trivial
  | cons op ops ih =>
    intro g last live hist hinv hclk
    cases op with
    | tick t =>
      simp only [ClockOK] at hclk
      obtain ⟨hct, hlt, hrest⟩ := hclk
      simp only [expand, expandStep]
      apply silent_expires
      apply ih (tickGens exp g t) last _ hist _ hrest
      refine ⟨?_, ?_, ?_, ?_, hinv.hist⟩
      · intro k s1 s2 h1 h2
        rw [mem_tickGens] at h1 h2
        exact hinv.uniq k s1 s2 h1.1 h2.1
      · intro k s h
        rw [mem_tickGens] at h
        rw [mem_dropKeys]
        refine ⟨hinv.live k s h.1, ?_⟩
        rw [mem_expiredKeys]
        rintro ⟨s', hm, hn⟩
        rw [hinv.uniq k s' s hm h.1] at hn
        exact hn h.2
      · intro k s h e' he' hk
        rw [mem_tickGens] at h
        exact hinv.fresh k s h.1 e' he' hk
      · intro k hno e' he' hk
        show e'.now + (cfg.count : Int) * cfg.interval ≤ t * 1000
        by_cases hex : ∃ s, (k, s) ∈ g.stamps
        · obtain ⟨s, hs⟩ := hex
          have hnot : ¬ (t - s < exp) := by
            intro hlt'
            exact hno s ((mem_tickGens exp g t k s).mpr ⟨hs, hlt'⟩)
          have := hinv.fresh k s hs e' he' hk
          omega
        · have := hinv.dead k (fun s hs => hex ⟨s, hs⟩) e' he' hk
          omega
    | ev e =>
      simp only [ClockOK] at hclk
      obtain ⟨hlast, hcur, hδ, hnow, hrest⟩ := hclk
      simp only [expand, expandStep, List.singleton_append, SilentExpiry, evLimKey_eq]
      refine ⟨?_, ?_⟩
      · intro k hk
        by_cases hex : ∃ s, (k, s) ∈ g.stamps
        · obtain ⟨s, hs⟩ := hex
          exact Or.inl (hinv.live k s hs)
        · right
          intro e' he' hk'
          have := hinv.dead k (fun s hs => hex ⟨s, hs⟩) e' he' hk'
          exact bucket_add_window cfg hI _ _ (by omega)
      · cases hlk : limKeyOf cfg e with
        | none =>
          simp only
          apply ih g e.now live (e :: hist) _ hrest
          refine ⟨hinv.uniq, hinv.live, ?_, ?_, ?_⟩
          · intro k s h e' he' hk
            simp only [List.mem_cons] at he'
            rcases he' with rfl | he'
            · rw [hlk] at hk; cases hk
            · exact hinv.fresh k s h e' he' hk
          · intro k hno e' he' hk
            simp only [List.mem_cons] at he'
            rcases he' with rfl | he'
            · rw [hlk] at hk; cases hk
            · exact hinv.dead k hno e' he' hk
          · intro e' he'
            simp only [List.mem_cons] at he'
            rcases he' with rfl | he'
            · exact Int.le_refl _
            · have := hinv.hist e' he'; omega
        | some k =>
          simp only [touch_true]
          apply ih ⟨g.cur, setStamp k g.cur g.stamps⟩ e.now (k :: live) (e :: hist) _ hrest
          refine ⟨?_, ?_, ?_, ?_, ?_⟩
          · intro k2 s1 s2 h1 h2
            simp only [mem_setStamp] at h1 h2
            rcases h1 with ⟨h1, n1⟩ | ⟨e1, v1⟩ <;> rcases h2 with ⟨h2, n2⟩ | ⟨e2, v2⟩
            · exact hinv.uniq k2 s1 s2 h1 h2
            · exact absurd e2 n1
            · exact absurd e1 n2
            · rw [v1, v2]
          · intro k2 s h
            simp only [mem_setStamp] at h
            rcases h with ⟨h, _⟩ | ⟨e1, _⟩
            · exact List.mem_cons_of_mem _ (hinv.live k2 s h)
            · rw [e1]; exact List.mem_cons_self
          · intro k2 s h e' he' hk
            simp only [mem_setStamp] at h
            simp only [List.mem_cons] at he'
            rcases h with ⟨h, n⟩ | ⟨e1, v1⟩
            · rcases he' with rfl | he'
              · rw [hlk] at hk; simp only [Option.some.injEq] at hk; exact absurd hk.symm n
              · exact hinv.fresh k2 s h e' he' hk
            · rw [v1]
              rcases he' with rfl | he'
              · exact hδ
              · have := hinv.hist e' he'; omega
          · intro k2 hno e' he' hk
            have hne : k2 ≠ k := by
              intro e1
              exact hno g.cur ((mem_setStamp k g.cur g.stamps k2 g.cur).mpr (Or.inr ⟨e1, rfl⟩))
            simp only [List.mem_cons] at he'
            rcases he' with rfl | he'
            · rw [hlk] at hk; simp only [Option.some.injEq] at hk; exact absurd hk.symm hne
            · exact hinv.dead k2 (fun s hs => hno s ((mem_setStamp k g.cur g.stamps k2 s).mpr (Or.inl ⟨hs, hne⟩))) e' he' hk
          · intro e' he'
            simp only [List.mem_cons] at he'
            rcases he' with rfl | he'
            · exact Int.le_refl _
            · have := hinv.hist e' he'; omega

/-- the hypotheses of the bucket-level theorems hold for the ops a clock-driven map produces -/
theorem hyp_of_clock (cfg : Cfg) (exp δ g0 : Int) (ops : List MOp) (hc : cfgOK cfg = true)
    (hclk : ClockOK cfg δ g0 ((cfg.count : Int) * cfg.interval) ops)
    (hexp : (cfg.count : Int) * cfg.interval + δ ≤ exp * 1000) :
    Hyp cfg (expand cfg exp true ⟨g0, []⟩ ops) := by
  have hw := cfgOK_wf cfg hc
  refine ⟨hc, ?_, ?_⟩
  · rw [evs_expand]; exact nowOK_of_clock cfg δ ops g0 _ hclk
  · apply safe_of_silent cfg hw.count
    apply silent_of_clock cfg exp δ hw.interval hexp ops ⟨g0, []⟩ _ [] [] _ hclk
    refine ⟨?_, ?_, ?_, ?_, ?_⟩ <;> intros <;> simp_all

/-- a key that is accessed at least once per expiration never loses its limiter -/
theorem busy_never_expired (cfg : Cfg) (exp : Int) (k : Bytes) : ∀ (ops : List MOp) (g : Gens) (s : Option Int),
    (∀ s', (k, s') ∈ g.stamps → s = some s') → BusyKey cfg exp k g.cur s ops →
    Op.expire k ∉ expand cfg exp true g ops := by
  intro ops
  induction ops with
  | nil => intro g s _ _ h; simp [expand] at h
  | cons op ops ih =>
    intro g s hs hb hmem
    cases op with
    | tick t =>
      simp only [BusyKey] at hb
      simp only [expand, expandStep, List.mem_append, List.mem_map, Op.expire.injEq] at hmem
      rcases hmem with ⟨k', hk', rfl⟩ | hmem
      · rw [mem_expiredKeys] at hk'
        obtain ⟨s', hm, hn⟩ := hk'
        exact hn (hb.1 s' (hs s' hm))
      · refine ih (tickGens exp g t) s ?_ hb.2 hmem
        intro s' h'
        rw [mem_tickGens] at h'
        exact hs s' h'.1
    | ev e =>
      simp only [BusyKey] at hb
      simp only [expand, expandStep, List.singleton_append, List.mem_cons, reduceCtorEq, false_or,
        evLimKey_eq] at hmem
      cases hlk : limKeyOf cfg e with
      | none =>
        rw [hlk] at hmem hb
        simp only [reduceCtorEq, ↓reduceIte] at hb
        exact ih g s hs hb hmem
      | some k' =>
        rw [hlk] at hmem hb
        simp only [touch_true] at hmem
        by_cases hkk : k' = k
        · subst hkk
          simp only [↓reduceIte] at hb
          refine ih ⟨g.cur, setStamp k' g.cur g.stamps⟩ (some g.cur) ?_ hb hmem
          intro s' h'
          simp only [mem_setStamp] at h'
          rcases h' with ⟨_, n⟩ | ⟨_, v⟩
          · exact absurd rfl n
          · rw [v]
        · have : ¬ (some k' = some k) := by intro h; exact hkk (Option.some.inj h)
          simp only [this, ↓reduceIte] at hb
          refine ih ⟨g.cur, setStamp k' g.cur g.stamps⟩ s ?_ hb hmem
          intro s' h'
          simp only [mem_setStamp] at h'
          rcases h' with ⟨h', _⟩ | ⟨e1, _⟩
          · exact hs s' h'
          · exact absurd e1.symm hkk

/-! instances for the map life cycle examples of Props/C16.lean: one bucket of 10 µs, limit 1,
    maintenance every 4 µs, expiration 14 µs (window 10 µs + stamp staleness 4 µs) -/
def cfgT : Cfg := ⟨1, 10000, [⟨[], 1, .count, Distr.empty⟩]⟩
def evT (now : Int) : MOp := .ev ⟨ka, now, now, 1, []⟩
/-- key a is used between all maintenance iterations; bucket 11 is exhausted at 112.5 µs -/
def opsBusy : List MOp :=
  [evT 100000, evT 100001, .tick 104, evT 104500, .tick 108, evT 108500, .tick 112, evT 112500, .tick 116, evT 116500]

theorem clockBusy : ClockOK cfgT 4000 100 ((cfgT.count : Int) * cfgT.interval) opsBusy := by
  simp only [opsBusy, evT, ClockOK, cfgT]
  decide

end FileD.ThrottleLemmas
