/-
  Helper lemmas for C17 (Model/Mask.lean vs Spec/C17.lean).
-/
import FileD.Model.Mask
import FileD.Spec.C17
namespace FileD.MaskLemmas
open FileD FileD.GoSlice FileD.Mask FileD.SpecC17

/-! ### checked slices that are in range -/

theorem slice_ok {b : Bytes} {lo hi : Int} (h0 : 0 ≤ lo) (h1 : lo ≤ hi) (h2 : hi ≤ b.length) :
    slice? b lo hi = .ok (segment b lo hi) := by
  simp [slice?, h0, h1, h2, segment]

theorem sliceFrom_ok {b : Bytes} {lo : Int} (h0 : 0 ≤ lo) (h1 : lo ≤ b.length) :
    sliceFrom? b lo = .ok (b.drop lo.toNat) := by
  have : (List.drop lo.toNat b).length ≤ b.length - lo.toNat := by simp
  simp [sliceFrom?, slice?, h0, h1]
  exact List.take_of_length_le this

theorem maskSection_ok (m : MaskCfg) (dst value : Bytes) {s e : Int}
    (h0 : 0 ≤ s) (h1 : s ≤ e) (h2 : e ≤ value.length) :
    maskSection m dst value s e = .ok (dst ++ replacement m (segment value s e)) := by
  unfold maskSection replacement
  cases m.mode <;> simp [slice_ok h0 h1 h2, bind, Except.bind, pure, Except.pure]

/-- ordered, disjoint ranges between `lo` and `hi` -/
def Chain (lo : Int) : List Range → Int → Prop
  | [], hi => lo ≤ hi
  | sec :: rest, hi => lo ≤ sec.1 ∧ sec.1 ≤ sec.2 ∧ Chain sec.2 rest hi

theorem Chain.le {lo hi : Int} : ∀ {l : List Range}, Chain lo l hi → lo ≤ hi
  | [], h => h
  | _ :: _, ⟨h1, h2, h3⟩ => Int.le_trans h1 (Int.le_trans h2 (Chain.le h3))

theorem Chain.mono_lo {lo lo' hi : Int} (h : lo' ≤ lo) : ∀ {l : List Range}, Chain lo l hi → Chain lo' l hi
  | [], c => Int.le_trans h c
  | _ :: _, ⟨h1, h2, h3⟩ => ⟨Int.le_trans h h1, h2, h3⟩

theorem Chain.mono_hi {hi hi' : Int} (h : hi ≤ hi') : ∀ {lo : Int} {l : List Range}, Chain lo l hi → Chain lo l hi'
  | _, [], c => Int.le_trans c h
  | _, _ :: _, ⟨h1, h2, h3⟩ => ⟨h1, h2, Chain.mono_hi h h3⟩

theorem Chain.append {mid hi : Int} : ∀ {lo : Int} {l1 l2 : List Range},
    Chain lo l1 mid → Chain mid l2 hi → Chain lo (l1 ++ l2) hi
  | _, [], _, c1, c2 => Chain.mono_lo c1 c2
  | _, _ :: _, _, ⟨h1, h2, h3⟩, c2 => ⟨h1, h2, Chain.append h3 c2⟩

/-- the inner loop of the repaired `maskValue` over an ordered, disjoint, in-range list of
    sections never panics and writes exactly the spec's replacement -/
theorem emit_inv (m : MaskCfg) (value : Bytes) (hi : Int) (hhi : hi ≤ value.length) :
    ∀ (secs : List Range) (prev : Int) (buf : Bytes), 0 ≤ prev → Chain prev secs hi →
    ∃ p' buf', emitSecs m value secs (prev, buf) = .ok (p', buf') ∧ prev ≤ p' ∧ p' ≤ hi ∧
      ∀ rest, buf' ++ replaceFrom m value p' rest = buf ++ replaceFrom m value prev (secs ++ rest)
  | [], prev, buf, _, c => ⟨prev, buf, rfl, Int.le_refl _, c, fun _ => rfl⟩
  | sec :: secs, prev, buf, h0, ⟨h1, h2, h3⟩ => by
    have hs0 : 0 ≤ sec.1 := Int.le_trans h0 h1
    have he : sec.2 ≤ value.length := Int.le_trans (Chain.le h3) hhi
    have hse : sec.1 ≤ value.length := Int.le_trans h2 he
    obtain ⟨p', buf', e1, e2, e3, e4⟩ := emit_inv m value hi hhi secs sec.2
      (buf ++ segment value prev sec.1 ++ replacement m (segment value sec.1 sec.2)) (Int.le_trans hs0 h2) h3
    refine ⟨p', buf', ?_, Int.le_trans (Int.le_trans h1 h2) e2, e3, ?_⟩
    · simp [emitSecs, slice_ok h0 h1 hse, maskSection_ok m _ value hs0 h2 he, bind, Except.bind]
      rw [← List.append_assoc]; exact e1
    · intro rest
      rw [e4 rest]
      simp [replaceFrom, List.append_assoc]

/-! ### selectedSections = Spec.sections -/

theorem secGt_eq (a b : Range) : secGt a b = !rangeLe a b := by
  rw [Bool.eq_iff_iff]
  simp [secGt, rangeLe]
  omega

theorem rangeLe_trans (a b c : Range) : rangeLe a b = true → rangeLe b c = true → rangeLe a c = true := by
  unfold rangeLe; simp; omega

theorem rangeLe_total (a b : Range) : (rangeLe a b || rangeLe b a) = true := by
  unfold rangeLe; simp; omega

theorem rangeLe_antisymm (a b : Range) : rangeLe a b = true → rangeLe b a = true → a = b := by
  unfold rangeLe; simp
  intro h1 h2
  have : a.1 = b.1 ∧ a.2 = b.2 := by omega
  exact Prod.ext this.1 this.2

def Sorted (l : List Range) : Prop := l.Pairwise (fun a b => rangeLe a b = true)

theorem insertSec_perm (x : Range) : ∀ l : List Range, (insertSec x l).Perm (x :: l)
  | [] => List.Perm.refl _
  | y :: ys => by
    unfold insertSec
    split
    · exact List.Perm.refl _
    · exact ((insertSec_perm x ys).cons y).trans (List.Perm.swap x y ys)

theorem insertSec_sorted (x : Range) : ∀ l : List Range, Sorted l → Sorted (insertSec x l)
  | [], _ => by simp [insertSec, Sorted]
  | y :: ys, h => by
    unfold insertSec
    have hy : ∀ z ∈ ys, rangeLe y z = true := (List.pairwise_cons.mp h).1
    have hys : Sorted ys := (List.pairwise_cons.mp h).2
    split
    · rename_i hg
      have hxy : rangeLe x y = true := by
        have := rangeLe_total x y
        rw [secGt_eq] at hg
        simp at hg; simp [hg] at this; exact this
      refine List.pairwise_cons.mpr ⟨?_, h⟩
      intro z hz
      rcases List.mem_cons.mp hz with rfl | hz
      · exact hxy
      · exact rangeLe_trans _ _ _ hxy (hy z hz)
    · rename_i hg
      have hyx : rangeLe y x = true := by
        rw [secGt_eq] at hg; simpa using hg
      refine List.pairwise_cons.mpr ⟨?_, insertSec_sorted x ys hys⟩
      intro z hz
      rcases List.mem_cons.mp ((insertSec_perm x ys).subset hz) with rfl | hz
      · exact hyx
      · exact hy z hz

/-- the ranges inserted one by one (what the first loop of `selectedSections` builds) -/
def insertAll : List Range → List Range → List Range
  | [], acc => acc
  | r :: rs, acc => insertAll rs (insertSec r acc)

theorem insertAll_perm : ∀ (rs acc : List Range), (insertAll rs acc).Perm (rs ++ acc)
  | [], _ => List.Perm.refl _
  | r :: rs, acc => by
    refine (insertAll_perm rs (insertSec r acc)).trans ?_
    refine (List.Perm.append_left rs (insertSec_perm r acc)).trans ?_
    exact List.perm_middle

theorem insertAll_sorted : ∀ (rs acc : List Range), Sorted acc → Sorted (insertAll rs acc)
  | [], _, h => h
  | r :: rs, acc, h => insertAll_sorted rs _ (insertSec_sorted r acc h)

theorem insertAll_eq_mergeSort (rs : List Range) : insertAll rs [] = rs.mergeSort rangeLe := by
  apply List.Perm.eq_of_pairwise (le := fun a b => rangeLe a b = true)
  · intro a b _ _; exact rangeLe_antisymm a b
  · exact insertAll_sorted rs [] List.Pairwise.nil
  · exact List.pairwise_mergeSort rangeLe_trans rangeLe_total rs
  · have h1 := insertAll_perm rs []
    simp at h1
    exact h1.trans (List.mergeSort_perm rs rangeLe).symm

theorem idx_nat {index : Match} {n : Nat} {x : Int} (h : index[n]? = some x) :
    idx? index ((n : Nat) : Int) = .ok x := by
  simp [idx?, h]

theorem selRanges_cons (g : Nat) (gs : List Nat) (index : Match) :
    selRanges (g :: gs) index =
      match groupOf index g with
      | some (s, e) => if s < 0 ∨ e < 0 then selRanges gs index else (s, e) :: selRanges gs index
      | none => selRanges gs index := by
  unfold selRanges
  rw [List.filterMap_cons]
  cases groupOf index g with
  | none => rfl
  | some r =>
    obtain ⟨s, e⟩ := r
    by_cases h : s < 0 ∨ e < 0 <;> simp [h]

/-- the first loop of `selectedSections` -/
theorem collect_eq (index : Match) : ∀ (gs : List Nat) (acc : List Range),
    (∀ g ∈ gs, (groupOf index g).isSome) →
    collectSecs index gs acc = .ok (insertAll (selRanges gs index) acc)
  | [], _, _ => rfl
  | g :: gs, acc, h => by
    have hg := h g List.mem_cons_self
    have ih := fun acc' => collect_eq index gs acc' (fun g' hg' => h g' (List.mem_cons_of_mem _ hg'))
    rw [selRanges_cons]
    unfold groupOf at hg ⊢
    cases h1 : index[2 * g]? with
    | none => simp [h1] at hg
    | some s =>
      cases h2 : index[2 * g + 1]? with
      | none => simp [h1, h2] at hg
      | some e =>
        have e1 : idx? index ((g * 2 : Nat) : Int) = .ok s := idx_nat (by rw [Nat.mul_comm]; exact h1)
        have e2 : idx? index ((g * 2 + 1 : Nat) : Int) = .ok e := idx_nat (by rw [Nat.mul_comm]; exact h2)
        unfold collectSecs
        simp only [e1, e2, bind, Except.bind]
        by_cases hneg : s < 0 ∨ e < 0
        · have : (decide (s < 0) || decide (e < 0)) = true := by simpa using hneg
          simp only [this, ↓reduceIte, hneg]
          exact ih acc
        · have : (decide (s < 0) || decide (e < 0)) = false := by simpa using hneg
          simp only [this, hneg, ↓reduceIte, Bool.false_eq_true]
          exact ih _

theorem mergeGo_eq_unite : ∀ (rest : List Range) (cur : Range), mergeGo cur rest = unite (cur :: rest)
  | [], cur => by simp [mergeGo, unite]
  | s :: rest, cur => by
    rw [mergeGo, unite]
    split
    · rw [mergeGo_eq_unite rest]
      congr 2
      simp only [Int.max_def]
      split <;> split <;> first | rfl | (exfalso; omega) | (apply Prod.ext <;> simp <;> omega)
    · rw [mergeGo_eq_unite rest]

theorem mergeSecs_eq_unite (l : List Range) : mergeSecs l = unite l := by
  cases l with
  | nil => simp [mergeSecs, unite]
  | cons s rest => exact mergeGo_eq_unite rest s

/-- `selectedSections` computes the spec's sections whenever the selected groups exist in the
    index slice -/
theorem selectedSections_eq (groups : List Nat) (index : Match)
    (h : ∀ g ∈ groups, (groupOf index g).isSome) :
    selectedSections groups index = .ok (sections groups index) := by
  simp [selectedSections, collect_eq index groups [] h, bind, Except.bind, pure, Except.pure,
    mergeSecs_eq_unite, insertAll_eq_mergeSort, sections]


/-! ### the sections of a well-shaped match are ordered, disjoint and inside group 0 -/

theorem mem_selRanges {index : Match} {r : Range} : ∀ {gs : List Nat}, r ∈ selRanges gs index →
    ∃ g ∈ gs, groupOf index g = some r ∧ ¬ (r.1 < 0 ∨ r.2 < 0)
  | [], h => by simp [selRanges] at h
  | g :: gs, h => by
    rw [selRanges_cons] at h
    cases hg : groupOf index g with
    | none =>
      rw [hg] at h
      obtain ⟨g', m', e'⟩ := mem_selRanges (gs := gs) h
      exact ⟨g', List.mem_cons_of_mem _ m', e'⟩
    | some se =>
      obtain ⟨s, e⟩ := se
      rw [hg] at h
      by_cases hneg : s < 0 ∨ e < 0
      · simp only [hneg, ↓reduceIte] at h
        obtain ⟨g', m', e'⟩ := mem_selRanges (gs := gs) h
        exact ⟨g', List.mem_cons_of_mem _ m', e'⟩
      · simp only [hneg, ↓reduceIte] at h
        rcases List.mem_cons.mp h with rfl | h
        · exact ⟨g, List.mem_cons_self, hg, hneg⟩
        · obtain ⟨g', m', e'⟩ := mem_selRanges (gs := gs) h
          exact ⟨g', List.mem_cons_of_mem _ m', e'⟩

theorem mergeGo_chain (hi : Int) : ∀ (rest : List Range) (cur : Range) (lo : Int),
    lo ≤ cur.1 → cur.1 ≤ cur.2 → cur.2 ≤ hi →
    (∀ r ∈ rest, cur.1 ≤ r.1 ∧ r.1 ≤ r.2 ∧ r.2 ≤ hi) →
    rest.Pairwise (fun a b => a.1 ≤ b.1) →
    Chain lo (mergeGo cur rest) hi
  | [], cur, lo, h1, h2, h3, _, _ => ⟨h1, h2, h3⟩
  | s :: rest, cur, lo, h1, h2, h3, hr, hp => by
    have hs := hr s List.mem_cons_self
    have hrest : ∀ r ∈ rest, r.1 ≤ r.2 ∧ r.2 ≤ hi := fun r m => (hr r (List.mem_cons_of_mem _ m)).2
    have hps := List.pairwise_cons.mp hp
    unfold mergeGo
    split
    · apply mergeGo_chain hi rest (cur.1, if s.2 > cur.2 then s.2 else cur.2) lo h1
      · show cur.1 ≤ (if s.2 > cur.2 then s.2 else cur.2); split <;> omega
      · show (if s.2 > cur.2 then s.2 else cur.2) ≤ hi; split <;> omega
      · intro r m
        exact ⟨(hr r (List.mem_cons_of_mem _ m)).1, hrest r m⟩
      · exact hps.2
    · rename_i hlt
      refine ⟨h1, h2, ?_⟩
      apply mergeGo_chain hi rest s cur.2 (by omega) hs.2.1 hs.2.2
      · intro r m
        exact ⟨hps.1 r m, hrest r m⟩
      · exact hps.2

theorem unite_chain {lo hi : Int} {l : List Range} (hs : Sorted l)
    (hb : ∀ r ∈ l, lo ≤ r.1 ∧ r.1 ≤ r.2 ∧ r.2 ≤ hi) (hlh : lo ≤ hi) : Chain lo (unite l) hi := by
  rw [← mergeSecs_eq_unite]
  cases l with
  | nil => exact hlh
  | cons s rest =>
    have hp := List.pairwise_cons.mp hs
    have hle : ∀ a b : Range, rangeLe a b = true → a.1 ≤ b.1 := by
      intro a b; unfold rangeLe; simp; omega
    have hs' := hb s List.mem_cons_self
    apply mergeGo_chain hi rest s lo hs'.1 hs'.2.1 hs'.2.2
    · intro r m
      exact ⟨hle _ _ (hp.1 r m), (hb r (List.mem_cons_of_mem _ m)).2⟩
    · exact hp.2.imp (fun {a b} h => hle a b h)

theorem groupOk_of_shape {nsub : Nat} {lo hi s0 e0 : Int} {index : Match}
    (h0 : groupOf index 0 = some (s0, e0)) (hm : matchShape nsub lo hi index = true) :
    lo ≤ s0 ∧ s0 ≤ e0 ∧ e0 ≤ hi ∧ ∀ g, g ≤ nsub → groupOk s0 e0 index g = true := by
  unfold matchShape at hm
  rw [h0] at hm
  simp only [Bool.and_eq_true, decide_eq_true_eq, List.all_eq_true, List.mem_range] at hm
  exact ⟨hm.1.1.1, hm.1.1.2, hm.1.2, fun g hg => hm.2 g (by omega)⟩

/-- the sections of one match form a chain inside group 0 -/
theorem sections_chain {nsub : Nat} {lo hi s0 e0 : Int} {index : Match} {groups : List Nat}
    (h0 : groupOf index 0 = some (s0, e0)) (hm : matchShape nsub lo hi index = true)
    (hg : groupsOk groups nsub = true) :
    (∀ g ∈ groups, (groupOf index g).isSome) ∧ Chain s0 (sections groups index) e0 := by
  obtain ⟨_, h2, _, h4⟩ := groupOk_of_shape h0 hm
  have hgs : ∀ g ∈ groups, g ≤ nsub := by
    intro g m
    have := List.all_eq_true.mp hg g m
    simpa using this
  constructor
  · intro g m
    have := h4 g (hgs g m)
    unfold groupOk at this
    cases hgo : groupOf index g with
    | none => rw [hgo] at this; simp at this
    | some _ => rfl
  · unfold sections
    apply unite_chain (List.pairwise_mergeSort rangeLe_trans rangeLe_total _) _ h2
    intro r m
    have m' : r ∈ selRanges groups index := (List.mergeSort_perm _ rangeLe).subset m
    obtain ⟨g, mg, eg, hpos⟩ := mem_selRanges m'
    have := h4 g (hgs g mg)
    unfold groupOk at this
    rw [eg] at this
    simp only [Bool.or_eq_true, decide_eq_true_eq, Bool.and_eq_true] at this
    omega

theorem re2Shape_mono {nsub : Nat} {len lo lo' : Int} (h : lo' ≤ lo) :
    ∀ {idx : Matches}, re2Shape nsub len lo idx = true → re2Shape nsub len lo' idx = true
  | [], _ => rfl
  | index :: idx, hs => by
    unfold re2Shape matchShape at hs ⊢
    cases hg0 : groupOf index 0 with
    | none => rw [hg0] at hs; simp at hs
    | some se =>
      obtain ⟨s0, e0⟩ := se
      simp only [hg0, Bool.and_eq_true, decide_eq_true_eq] at hs ⊢
      exact ⟨⟨⟨⟨Int.le_trans h hs.1.1.1.1, hs.1.1.1.2⟩, hs.1.1.2⟩, hs.1.2⟩, hs.2⟩

/-- the outer loop of the repaired `maskValue` on well-shaped matches -/
theorem maskMatches_inv (m : MaskCfg) (value : Bytes) (nsub : Nat) (hg : groupsOk m.groups nsub = true) :
    ∀ (idx : Matches) (prev : Int) (buf : Bytes), 0 ≤ prev → prev ≤ value.length →
    re2Shape nsub value.length prev idx = true →
    ∃ p' buf', maskMatches m value idx (prev, buf) = .ok (p', buf') ∧ prev ≤ p' ∧ p' ≤ value.length ∧
      ∀ rest, buf' ++ replaceFrom m value p' rest
        = buf ++ replaceFrom m value prev (allSections m.groups idx ++ rest)
  | [], prev, buf, _, hl, _ => ⟨prev, buf, rfl, Int.le_refl _, hl, fun _ => rfl⟩
  | index :: idx, prev, buf, h0, hl, hs => by
    unfold re2Shape at hs
    cases hg0 : groupOf index 0 with
    | none => rw [hg0] at hs; simp at hs
    | some se =>
      obtain ⟨s0, e0⟩ := se
      rw [hg0] at hs
      simp only [Bool.and_eq_true] at hs
      obtain ⟨b1, _, b3, _⟩ := groupOk_of_shape hg0 hs.1
      obtain ⟨hsome, hchain⟩ := sections_chain hg0 hs.1 hg
      obtain ⟨p1, buf1, e1, l1, u1, r1⟩ :=
        emit_inv m value e0 b3 (sections m.groups index) prev buf h0 (Chain.mono_lo b1 hchain)
      obtain ⟨p2, buf2, e2, l2, u2, r2⟩ := maskMatches_inv m value nsub hg idx p1 buf1
        (Int.le_trans h0 l1) (Int.le_trans u1 b3) (re2Shape_mono u1 hs.2)
      refine ⟨p2, buf2, ?_, Int.le_trans l1 l2, u2, ?_⟩
      · simp [maskMatches, selectedSections_eq m.groups index hsome, bind, Except.bind, e1, e2]
      · intro rest
        rw [r2 rest, r1]
        simp [allSections, List.append_assoc]

/-- **the repaired `maskValue` on any well-shaped oracle answer**: no panic, and the result is
    the spec's masked value -/
theorem maskValue_eq (m : MaskCfg) (value buf : Bytes) (nsub : Nat) (idx : Matches)
    (hg : groupsOk m.groups nsub = true) (hs : re2Shape nsub value.length 0 idx = true) :
    maskValue m idx value buf =
      .ok (if idx.isEmpty then (buf, false) else (maskedValue m idx value, true)) := by
  unfold maskValue
  by_cases he : idx.isEmpty
  · simp [he]
  · obtain ⟨p', buf', e1, l1, u1, r1⟩ := maskMatches_inv m value nsub hg idx 0 [] (Int.le_refl _)
      (by omega) hs
    have := r1 []
    simp only [List.append_nil, List.nil_append, replaceFrom] at this
    simp [he, e1, bind, Except.bind, sliceFrom_ok l1 u1, pure, Except.pure, maskedValue, this]

end FileD.MaskLemmas
