/-
  Helper lemmas for C17 (Model/Mask.lean vs Spec/C17.lean).
-/
import FileD.Model.Mask
import FileD.Spec.C17
namespace FileD.MaskLemmas
open FileD FileD.GoSlice FileD.Mask FileD.SpecC17

/-! ### checked slices that are in range -/

theorem slice_ok {b : Bytes} {lo hi : Int} (h0 : 0 ≤ lo) (h1 : lo ≤ hi) (h2 : hi ≤ b.length) :
    slice? b lo hi = .ok (segment b lo hi) := by
  simp [slice?, h0, h1, h2, segment]

theorem sliceFrom_ok {b : Bytes} {lo : Int} (h0 : 0 ≤ lo) (h1 : lo ≤ b.length) :
    sliceFrom? b lo = .ok (b.drop lo.toNat) := by
  have : (List.drop lo.toNat b).length ≤ b.length - lo.toNat := by simp
  simp [sliceFrom?, slice?, h0, h1]
  exact List.take_of_length_le this

theorem maskSection_ok (m : MaskCfg) (dst value : Bytes) {s e : Int}
    (h0 : 0 ≤ s) (h1 : s ≤ e) (h2 : e ≤ value.length) :
    maskSection m dst value s e = .ok (dst ++ replacement m (segment value s e)) := by
  unfold maskSection replacement
  cases m.mode <;> simp [slice_ok h0 h1 h2, bind, Except.bind, pure, Except.pure]

/-- ordered, disjoint ranges between `lo` and `hi` -/
def Chain (lo : Int) : List Range → Int → Prop
  | [], hi => lo ≤ hi
  | sec :: rest, hi => lo ≤ sec.1 ∧ sec.1 ≤ sec.2 ∧ Chain sec.2 rest hi

theorem Chain.le {lo hi : Int} : ∀ {l : List Range}, Chain lo l hi → lo ≤ hi
  | [], h => h
  | _ :: _, ⟨h1, h2, h3⟩ => Int.le_trans h1 (Int.le_trans h2 (Chain.le h3))

theorem Chain.mono_lo {lo lo' hi : Int} (h : lo' ≤ lo) : ∀ {l : List Range}, Chain lo l hi → Chain lo' l hi
  | [], c => Int.le_trans h c
  | _ :: _, ⟨h1, h2, h3⟩ => ⟨Int.le_trans h h1, h2, h3⟩

theorem Chain.mono_hi {hi hi' : Int} (h : hi ≤ hi') : ∀ {lo : Int} {l : List Range}, Chain lo l hi → Chain lo l hi'
  | _, [], c => Int.le_trans c h
  | _, _ :: _, ⟨h1, h2, h3⟩ => ⟨h1, h2, Chain.mono_hi h h3⟩

theorem Chain.append {mid hi : Int} : ∀ {lo : Int} {l1 l2 : List Range},
    Chain lo l1 mid → Chain mid l2 hi → Chain lo (l1 ++ l2) hi
  | _, [], _, c1, c2 => Chain.mono_lo c1 c2
  | _, _ :: _, _, ⟨h1, h2, h3⟩, c2 => ⟨h1, h2, Chain.append h3 c2⟩

/-- the inner loop of the repaired `maskValue` over an ordered, disjoint, in-range list of
    sections never panics and writes exactly the spec's replacement -/
theorem emit_inv (m : MaskCfg) (value : Bytes) (hi : Int) (hhi : hi ≤ value.length) :
    ∀ (secs : List Range) (prev : Int) (buf : Bytes), 0 ≤ prev → Chain prev secs hi →
    ∃ p' buf', emitSecs m value secs (prev, buf) = .ok (p', buf') ∧ prev ≤ p' ∧ p' ≤ hi ∧
      ∀ rest, buf' ++ replaceFrom m value p' rest = buf ++ replaceFrom m value prev (secs ++ rest)
  | [], prev, buf, _, c => ⟨prev, buf, rfl, Int.le_refl _, c, fun _ => rfl⟩
  | sec :: secs, prev, buf, h0, ⟨h1, h2, h3⟩ => by
    have hs0 : 0 ≤ sec.1 := Int.le_trans h0 h1
    have he : sec.2 ≤ value.length := Int.le_trans (Chain.le h3) hhi
    have hse : sec.1 ≤ value.length := Int.le_trans h2 he
    obtain ⟨p', buf', e1, e2, e3, e4⟩ := emit_inv m value hi hhi secs sec.2
      (buf ++ segment value prev sec.1 ++ replacement m (segment value sec.1 sec.2)) (Int.le_trans hs0 h2) h3
    refine ⟨p', buf', ?_, Int.le_trans (Int.le_trans h1 h2) e2, e3, ?_⟩
    · simp [emitSecs, slice_ok h0 h1 hse, maskSection_ok m _ value hs0 h2 he, bind, Except.bind]
      rw [← List.append_assoc]; exact e1
    · intro rest
      rw [e4 rest]
      simp [replaceFrom, List.append_assoc]

/-! ### selectedSections = Spec.sections -/

theorem secGt_eq (a b : Range) : secGt a b = !rangeLe a b := by
  rw [Bool.eq_iff_iff]
  simp [secGt, rangeLe]
  omega

theorem rangeLe_trans (a b c : Range) : rangeLe a b = true → rangeLe b c = true → rangeLe a c = true := by
  unfold rangeLe; simp; omega

theorem rangeLe_total (a b : Range) : (rangeLe a b || rangeLe b a) = true := by
  unfold rangeLe; simp; omega

theorem rangeLe_antisymm (a b : Range) : rangeLe a b = true → rangeLe b a = true → a = b := by
  unfold rangeLe; simp
  intro h1 h2
  have : a.1 = b.1 ∧ a.2 = b.2 := by omega
  exact Prod.ext this.1 this.2

def Sorted (l : List Range) : Prop := l.Pairwise (fun a b => rangeLe a b = true)

theorem insertSec_perm (x : Range) : ∀ l : List Range, (insertSec x l).Perm (x :: l)
  | [] => List.Perm.refl _
  | y :: ys => by
    unfold insertSec
    split
    · exact List.Perm.refl _
    · exact ((insertSec_perm x ys).cons y).trans (List.Perm.swap x y ys)

theorem insertSec_sorted (x : Range) : ∀ l : List Range, Sorted l → Sorted (insertSec x l)
  | [], _ => by simp [insertSec, Sorted]
  | y :: ys, h => by
    unfold insertSec
    have hy : ∀ z ∈ ys, rangeLe y z = true := (List.pairwise_cons.mp h).1
    have hys : Sorted ys := (List.pairwise_cons.mp h).2
    split
    · rename_i hg
      have hxy : rangeLe x y = true := by
        have := rangeLe_total x y
        rw [secGt_eq] at hg
        simp at hg; simp [hg] at this; exact this
      refine List.pairwise_cons.mpr ⟨?_, h⟩
      intro z hz
      rcases List.mem_cons.mp hz with rfl | hz
      · exact hxy
      · exact rangeLe_trans _ _ _ hxy (hy z hz)
    · rename_i hg
      have hyx : rangeLe y x = true := by
        rw [secGt_eq] at hg; simpa using hg
      refine List.pairwise_cons.mpr ⟨?_, insertSec_sorted x ys hys⟩
      intro z hz
      rcases List.mem_cons.mp ((insertSec_perm x ys).subset hz) with rfl | hz
      · exact hyx
      · exact hy z hz

/-- the ranges inserted one by one (what the first loop of `selectedSections` builds) -/
def insertAll : List Range → List Range → List Range
  | [], acc => acc
  | r :: rs, acc => insertAll rs (insertSec r acc)

theorem insertAll_perm : ∀ (rs acc : List Range), (insertAll rs acc).Perm (rs ++ acc)
  | [], _ => List.Perm.refl _
  | r :: rs, acc => by
    refine (insertAll_perm rs (insertSec r acc)).trans ?_
    refine (List.Perm.append_left rs (insertSec_perm r acc)).trans ?_
    exact List.perm_middle

theorem insertAll_sorted : ∀ (rs acc : List Range), Sorted acc → Sorted (insertAll rs acc)
  | [], _, h => h
  | r :: rs, acc, h => insertAll_sorted rs _ (insertSec_sorted r acc h)

theorem insertAll_eq_mergeSort (rs : List Range) : insertAll rs [] = rs.mergeSort rangeLe := by
  apply List.Perm.eq_of_pairwise (le := fun a b => rangeLe a b = true)
  · intro a b _ _; exact rangeLe_antisymm a b
  · exact insertAll_sorted rs [] List.Pairwise.nil
  · exact List.pairwise_mergeSort rangeLe_trans rangeLe_total rs
  · have h1 := insertAll_perm rs []
    simp at h1
    exact h1.trans (List.mergeSort_perm rs rangeLe).symm

theorem idx_nat {index : Match} {n : Nat} {x : Int} (h : index[n]? = some x) :
    idx? index ((n : Nat) : Int) = .ok x := by
  simp [idx?, h]

theorem selRanges_cons (g : Nat) (gs : List Nat) (index : Match) :
    selRanges (g :: gs) index =
      match groupOf index g with
      | some (s, e) => if s < 0 ∨ e < 0 then selRanges gs index else (s, e) :: selRanges gs index
      | none => selRanges gs index := by
  unfold selRanges
  rw [List.filterMap_cons]
  cases groupOf index g with
  | none => rfl
  | some r =>
    obtain ⟨s, e⟩ := r
    by_cases h : s < 0 ∨ e < 0 <;> simp [h]

/-- the first loop of `selectedSections` -/
theorem collect_eq (index : Match) : ∀ (gs : List Nat) (acc : List Range),
    (∀ g ∈ gs, (groupOf index g).isSome) →
    collectSecs index gs acc = .ok (insertAll (selRanges gs index) acc)
  | [], _, _ => rfl
  | g :: gs, acc, h => by
    have hg := h g List.mem_cons_self
    have ih := fun acc' => collect_eq index gs acc' (fun g' hg' => h g' (List.mem_cons_of_mem _ hg'))
    rw [selRanges_cons]
    unfold groupOf at hg ⊢
    cases h1 : index[2 * g]? with
    | none => simp [h1] at hg
    | some s =>
      cases h2 : index[2 * g + 1]? with
      | none => simp [h1, h2] at hg
      | some e =>
        have e1 : idx? index ((g * 2 : Nat) : Int) = .ok s := idx_nat (by rw [Nat.mul_comm]; exact h1)
        have e2 : idx? index ((g * 2 + 1 : Nat) : Int) = .ok e := idx_nat (by rw [Nat.mul_comm]; exact h2)
        unfold collectSecs
        simp only [e1, e2, bind, Except.bind]
        by_cases hneg : s < 0 ∨ e < 0
        · have : (decide (s < 0) || decide (e < 0)) = true := by simpa using hneg
          simp only [this, ↓reduceIte, hneg]
          exact ih acc
        · have : (decide (s < 0) || decide (e < 0)) = false := by simpa using hneg
          simp only [this, hneg, ↓reduceIte, Bool.false_eq_true]
          exact ih _

theorem mergeGo_eq_unite : ∀ (rest : List Range) (cur : Range), mergeGo cur rest = unite (cur :: rest)
  | [], cur => by simp [mergeGo, unite]
  | s :: rest, cur => by
    rw [mergeGo, unite]
    split
    · rw [mergeGo_eq_unite rest]
      congr 2
      simp only [Int.max_def]
      split <;> split <;> first | rfl | (exfalso; omega) | (apply Prod.ext <;> simp <;> omega)
    · rw [mergeGo_eq_unite rest]

theorem mergeSecs_eq_unite (l : List Range) : mergeSecs l = unite l := by
  cases l with
  | nil => simp [mergeSecs, unite]
  | cons s rest => exact mergeGo_eq_unite rest s

/-- `selectedSections` computes the spec's sections whenever the selected groups exist in the
    index slice -/
theorem selectedSections_eq (groups : List Nat) (index : Match)
    (h : ∀ g ∈ groups, (groupOf index g).isSome) :
    selectedSections groups index = .ok (sections groups index) := by
  simp [selectedSections, collect_eq index groups [] h, bind, Except.bind, pure, Except.pure,
    mergeSecs_eq_unite, insertAll_eq_mergeSort, sections]


/-! ### the sections of a well-shaped match are ordered, disjoint and inside group 0 -/

theorem mem_selRanges {index : Match} {r : Range} : ∀ {gs : List Nat}, r ∈ selRanges gs index →
    ∃ g ∈ gs, groupOf index g = some r ∧ ¬ (r.1 < 0 ∨ r.2 < 0)
  | [], h => by simp [selRanges] at h
  | g :: gs, h => by
    rw [selRanges_cons] at h
    cases hg : groupOf index g with
    | none =>
      rw [hg] at h
      obtain ⟨g', m', e'⟩ := mem_selRanges (gs := gs) h
      exact ⟨g', List.mem_cons_of_mem _ m', e'⟩
    | some se =>
      obtain ⟨s, e⟩ := se
      rw [hg] at h
      by_cases hneg : s < 0 ∨ e < 0
      · simp only [hneg, ↓reduceIte] at h
        obtain ⟨g', m', e'⟩ := mem_selRanges (gs := gs) h
        exact ⟨g', List.mem_cons_of_mem _ m', e'⟩
      · simp only [hneg, ↓reduceIte] at h
        rcases List.mem_cons.mp h with rfl | h
        · exact ⟨g, List.mem_cons_self, hg, hneg⟩
        · obtain ⟨g', m', e'⟩ := mem_selRanges (gs := gs) h
          exact ⟨g', List.mem_cons_of_mem _ m', e'⟩

theorem mergeGo_chain (hi : Int) : ∀ (rest : List Range) (cur : Range) (lo : Int),
    lo ≤ cur.1 → cur.1 ≤ cur.2 → cur.2 ≤ hi →
    (∀ r ∈ rest, cur.1 ≤ r.1 ∧ r.1 ≤ r.2 ∧ r.2 ≤ hi) →
    rest.Pairwise (fun a b => a.1 ≤ b.1) →
    Chain lo (mergeGo cur rest) hi
  | [], cur, lo, h1, h2, h3, _, _ => ⟨h1, h2, h3⟩
  | s :: rest, cur, lo, h1, h2, h3, hr, hp => by
    have hs := hr s List.mem_cons_self
    have hrest : ∀ r ∈ rest, r.1 ≤ r.2 ∧ r.2 ≤ hi := fun r m => (hr r (List.mem_cons_of_mem _ m)).2
    have hps := List.pairwise_cons.mp hp
    unfold mergeGo
    split
    · apply mergeGo_chain hi rest (cur.1, if s.2 > cur.2 then s.2 else cur.2) lo h1
      · show cur.1 ≤ (if s.2 > cur.2 then s.2 else cur.2); split <;> omega
      · show (if s.2 > cur.2 then s.2 else cur.2) ≤ hi; split <;> omega
      · intro r m
        exact ⟨(hr r (List.mem_cons_of_mem _ m)).1, hrest r m⟩
      · exact hps.2
    · rename_i hlt
      refine ⟨h1, h2, ?_⟩
      apply mergeGo_chain hi rest s cur.2 (by omega) hs.2.1 hs.2.2
      · intro r m
        exact ⟨hps.1 r m, hrest r m⟩
      · exact hps.2

theorem unite_chain {lo hi : Int} {l : List Range} (hs : Sorted l)
    (hb : ∀ r ∈ l, lo ≤ r.1 ∧ r.1 ≤ r.2 ∧ r.2 ≤ hi) (hlh : lo ≤ hi) : Chain lo (unite l) hi := by
  rw [← mergeSecs_eq_unite]
  cases l with
  | nil => exact hlh
  | cons s rest =>
    have hp := List.pairwise_cons.mp hs
    have hle : ∀ a b : Range, rangeLe a b = true → a.1 ≤ b.1 := by
      intro a b; unfold rangeLe; simp; omega
    have hs' := hb s List.mem_cons_self
    apply mergeGo_chain hi rest s lo hs'.1 hs'.2.1 hs'.2.2
    · intro r m
      exact ⟨hle _ _ (hp.1 r m), (hb r (List.mem_cons_of_mem _ m)).2⟩
    · exact hp.2.imp (fun {a b} h => hle a b h)

theorem groupOk_of_shape {nsub : Nat} {lo hi s0 e0 : Int} {index : Match}
    (h0 : groupOf index 0 = some (s0, e0)) (hm : matchShape nsub lo hi index = true) :
    lo ≤ s0 ∧ s0 ≤ e0 ∧ e0 ≤ hi ∧ ∀ g, g ≤ nsub → groupOk s0 e0 index g = true := by
  unfold matchShape at hm
  rw [h0] at hm
  simp only [Bool.and_eq_true, decide_eq_true_eq, List.all_eq_true, List.mem_range] at hm
  exact ⟨hm.1.1.1, hm.1.1.2, hm.1.2, fun g hg => hm.2 g (by omega)⟩

/-- the sections of one match form a chain inside group 0 -/
theorem sections_chain {nsub : Nat} {lo hi s0 e0 : Int} {index : Match} {groups : List Nat}
    (h0 : groupOf index 0 = some (s0, e0)) (hm : matchShape nsub lo hi index = true)
    (hg : groupsOk groups nsub = true) :
    (∀ g ∈ groups, (groupOf index g).isSome) ∧ Chain s0 (sections groups index) e0 := by
  obtain ⟨_, h2, _, h4⟩ := groupOk_of_shape h0 hm
  have hgs : ∀ g ∈ groups, g ≤ nsub := by
    intro g m
    have := List.all_eq_true.mp hg g m
    simpa using this
  constructor
  · intro g m
    have := h4 g (hgs g m)
    unfold groupOk at this
    cases hgo : groupOf index g with
    | none => rw [hgo] at this; simp at this
    | some _ => rfl
  · unfold sections
    apply unite_chain (List.pairwise_mergeSort rangeLe_trans rangeLe_total _) _ h2
    intro r m
    have m' : r ∈ selRanges groups index := (List.mergeSort_perm _ rangeLe).subset m
    obtain ⟨g, mg, eg, hpos⟩ := mem_selRanges m'
    have := h4 g (hgs g mg)
    unfold groupOk at this
    rw [eg] at this
    simp only [Bool.or_eq_true, decide_eq_true_eq, Bool.and_eq_true] at this
    omega

theorem re2Shape_mono {nsub : Nat} {len lo lo' : Int} (h : lo' ≤ lo) :
    ∀ {idx : Matches}, re2Shape nsub len lo idx = true → re2Shape nsub len lo' idx = true
  | [], _ => rfl
  | index :: idx, hs => by
    unfold re2Shape matchShape at hs ⊢
    cases hg0 : groupOf index 0 with
    | none => rw [hg0] at hs; simp at hs
    | some se =>
      obtain ⟨s0, e0⟩ := se
      simp only [hg0, Bool.and_eq_true, decide_eq_true_eq] at hs ⊢
      exact ⟨⟨⟨⟨Int.le_trans h hs.1.1.1.1, hs.1.1.1.2⟩, hs.1.1.2⟩, hs.1.2⟩, hs.2⟩

/-- the outer loop of the repaired `maskValue` on well-shaped matches -/
theorem maskMatches_inv (m : MaskCfg) (value : Bytes) (nsub : Nat) (hg : groupsOk m.groups nsub = true) :
    ∀ (idx : Matches) (prev : Int) (buf : Bytes), 0 ≤ prev → prev ≤ value.length →
    re2Shape nsub value.length prev idx = true →
    ∃ p' buf', maskMatches m value idx (prev, buf) = .ok (p', buf') ∧ prev ≤ p' ∧ p' ≤ value.length ∧
      ∀ rest, buf' ++ replaceFrom m value p' rest
        = buf ++ replaceFrom m value prev (allSections m.groups idx ++ rest)
  | [], prev, buf, _, hl, _ => ⟨prev, buf, rfl, Int.le_refl _, hl, fun _ => rfl⟩
  | index :: idx, prev, buf, h0, hl, hs => by
    unfold re2Shape at hs
    cases hg0 : groupOf index 0 with
    | none => rw [hg0] at hs; simp at hs
    | some se =>
      obtain ⟨s0, e0⟩ := se
      rw [hg0] at hs
      simp only [Bool.and_eq_true] at hs
      obtain ⟨b1, _, b3, _⟩ := groupOk_of_shape hg0 hs.1
      obtain ⟨hsome, hchain⟩ := sections_chain hg0 hs.1 hg
      obtain ⟨p1, buf1, e1, l1, u1, r1⟩ :=
        emit_inv m value e0 b3 (sections m.groups index) prev buf h0 (Chain.mono_lo b1 hchain)
      obtain ⟨p2, buf2, e2, l2, u2, r2⟩ := maskMatches_inv m value nsub hg idx p1 buf1
        (Int.le_trans h0 l1) (Int.le_trans u1 b3) (re2Shape_mono u1 hs.2)
      refine ⟨p2, buf2, ?_, Int.le_trans l1 l2, u2, ?_⟩
      · simp [maskMatches, selectedSections_eq m.groups index hsome, bind, Except.bind, e1, e2]
      · intro rest
        rw [r2 rest, r1]
        simp [allSections, List.append_assoc]

/-- **the repaired `maskValue` on any well-shaped oracle answer**: no panic, and the result is
    the spec's masked value -/
theorem maskValue_eq (m : MaskCfg) (value buf : Bytes) (nsub : Nat) (idx : Matches)
    (hg : groupsOk m.groups nsub = true) (hs : re2Shape nsub value.length 0 idx = true) :
    maskValue m idx value buf =
      .ok (if idx.isEmpty then (buf, false) else (maskedValue m idx value, true)) := by
  unfold maskValue
  by_cases he : idx.isEmpty
  · simp [he]
  · obtain ⟨p', buf', e1, l1, u1, r1⟩ := maskMatches_inv m value nsub hg idx 0 [] (Int.le_refl _)
      (by omega) hs
    have := r1 []
    simp only [List.append_nil, List.nil_append, replaceFrom] at this
    simp [he, e1, bind, Except.bind, sliceFrom_ok l1 u1, pure, Except.pure, maskedValue, this]


/-! ### what the sections are, said without the algorithm -/

/-- `r` lies inside `sec` -/
def Within (r sec : Range) : Prop := sec.1 ≤ r.1 ∧ r.2 ≤ sec.2

/-- `sec` is a union of ranges of `S`: it starts where one starts, ends where one ends, and every
    position in it belongs to one -/
def Tight (S : List Range) (sec : Range) : Prop :=
  (∃ r ∈ S, r.1 = sec.1) ∧ (∃ r ∈ S, r.2 = sec.2) ∧ ∀ i : Int, sec.1 ≤ i → i < sec.2 → ∃ r ∈ S, r.1 ≤ i ∧ i < r.2

theorem mergeGo_cover : ∀ (rest : List Range) (cur : Range),
    (∀ r ∈ rest, cur.1 ≤ r.1) → rest.Pairwise (fun a b => a.1 ≤ b.1) →
    ∀ r, (Within r cur ∨ r ∈ rest) → ∃ sec ∈ mergeGo cur rest, Within r sec
  | [], cur, _, _, r, h => by
    rcases h with h | h
    · exact ⟨cur, by simp [mergeGo], h⟩
    · simp at h
  | s :: rest, cur, hc, hp, r, h => by
    have hps := List.pairwise_cons.mp hp
    have hs := hc s List.mem_cons_self
    unfold mergeGo
    split
    · rename_i hlt
      apply mergeGo_cover rest (cur.1, if s.2 > cur.2 then s.2 else cur.2)
        (fun r' m => hc r' (List.mem_cons_of_mem _ m)) hps.2 r
      rcases h with h | h
      · left; refine ⟨h.1, ?_⟩; show r.2 ≤ (if s.2 > cur.2 then s.2 else cur.2); have := h.2; split <;> omega
      · rcases List.mem_cons.mp h with rfl | h
        · left; refine ⟨hs, ?_⟩; show r.2 ≤ (if r.2 > cur.2 then r.2 else cur.2); split <;> omega
        · right; exact h
    · rcases h with h | h
      · exact ⟨cur, List.mem_cons_self, h⟩
      · obtain ⟨sec, m, w⟩ := mergeGo_cover rest s hps.1 hps.2 r (by
          rcases List.mem_cons.mp h with rfl | h
          · left; exact ⟨Int.le_refl _, Int.le_refl _⟩
          · right; exact h)
        exact ⟨sec, List.mem_cons_of_mem _ m, w⟩

theorem tight_self {S : List Range} {r : Range} (h : r ∈ S) : Tight S r :=
  ⟨⟨r, h, rfl⟩, ⟨r, h, rfl⟩, fun i h1 h2 => ⟨r, h, h1, h2⟩⟩

theorem mergeGo_tight (S : List Range) : ∀ (rest : List Range) (cur : Range),
    Tight S cur → (∀ r ∈ rest, r ∈ S) →
    ∀ sec ∈ mergeGo cur rest, Tight S sec
  | [], cur, ht, _, sec, m => by
    simp [mergeGo] at m; subst m; exact ht
  | s :: rest, cur, ht, hr, sec, m => by
    have hs := hr s List.mem_cons_self
    unfold mergeGo at m
    split at m
    · rename_i hlt
      refine mergeGo_tight S rest (cur.1, if s.2 > cur.2 then s.2 else cur.2) ?_
        (fun r' m' => hr r' (List.mem_cons_of_mem _ m')) sec m
      obtain ⟨t1, t2, t3⟩ := ht
      refine ⟨t1, ?_, ?_⟩
      · show ∃ r ∈ S, r.2 = (if s.2 > cur.2 then s.2 else cur.2)
        split
        · exact ⟨s, hs, rfl⟩
        · exact t2
      · intro i h1 h2
        have h2' : i < (if s.2 > cur.2 then s.2 else cur.2) := h2
        by_cases hi : i < cur.2
        · exact t3 i h1 hi
        · refine ⟨s, hs, by omega, ?_⟩
          split at h2' <;> omega
    · rcases List.mem_cons.mp m with rfl | m
      · exact ht
      · exact mergeGo_tight S rest s (tight_self hs)
          (fun r' m' => hr r' (List.mem_cons_of_mem _ m')) sec m

/-- every selected range that took part lies inside one section of its match -/
theorem sections_cover (groups : List Nat) (index : Match) (r : Range)
    (h : r ∈ selRanges groups index) : ∃ sec ∈ sections groups index, Within r sec := by
  unfold sections
  rw [← mergeSecs_eq_unite]
  have hp : r ∈ (selRanges groups index).mergeSort rangeLe := (List.mergeSort_perm _ rangeLe).symm.subset h
  have hsorted : Sorted ((selRanges groups index).mergeSort rangeLe) :=
    List.pairwise_mergeSort rangeLe_trans rangeLe_total _
  have hle : ∀ a b : Range, rangeLe a b = true → a.1 ≤ b.1 := by
    intro a b; unfold rangeLe; simp; omega
  cases hl : (selRanges groups index).mergeSort rangeLe with
  | nil => rw [hl] at hp; simp at hp
  | cons s rest =>
    rw [hl] at hp hsorted
    have hps := List.pairwise_cons.mp hsorted
    apply mergeGo_cover rest s (fun r' m => hle _ _ (hps.1 r' m)) (hps.2.imp (fun {a b} h => hle a b h)) r
    rcases List.mem_cons.mp hp with rfl | hp
    · left; exact ⟨Int.le_refl _, Int.le_refl _⟩
    · right; exact hp

/-- every section is a union of selected ranges: nothing else is replaced -/
theorem sections_tight (groups : List Nat) (index : Match) (sec : Range)
    (h : sec ∈ sections groups index) : Tight (selRanges groups index) sec := by
  unfold sections at h
  rw [← mergeSecs_eq_unite] at h
  have hmem : ∀ r ∈ (selRanges groups index).mergeSort rangeLe, r ∈ selRanges groups index :=
    fun r m => (List.mergeSort_perm _ rangeLe).subset m
  cases hl : (selRanges groups index).mergeSort rangeLe with
  | nil => rw [hl] at h; simp [mergeSecs] at h
  | cons s rest =>
    rw [hl] at h hmem
    exact mergeGo_tight _ rest s (tight_self (hmem s List.mem_cons_self))
      (fun r' m' => hmem r' (List.mem_cons_of_mem _ m')) sec h


/-! ### the masked value does not depend on the bytes inside the sections -/

theorem segment_congr {v1 v2 : Bytes} {lo hi : Int} (h0 : 0 ≤ lo)
    (h : ∀ i : Nat, lo ≤ (i : Int) → (i : Int) < hi → v1[i]? = v2[i]?) :
    segment v1 lo hi = segment v2 lo hi := by
  unfold segment
  apply List.ext_getElem?
  intro n
  simp only [List.getElem?_take, List.getElem?_drop]
  split
  · apply h <;> omega
  · rfl

theorem drop_congr {v1 v2 : Bytes} {lo : Int} (h0 : 0 ≤ lo)
    (h : ∀ i : Nat, lo ≤ (i : Int) → v1[i]? = v2[i]?) :
    v1.drop lo.toNat = v2.drop lo.toNat := by
  apply List.ext_getElem?
  intro n
  simp only [List.getElem?_drop]
  apply h; omega

theorem Chain.bounds {hi : Int} : ∀ {lo : Int} {l : List Range}, Chain lo l hi →
    ∀ r ∈ l, lo ≤ r.1 ∧ r.1 ≤ r.2 ∧ r.2 ≤ hi
  | _, [], _, r, m => by simp at m
  | _, sec :: rest, ⟨h1, h2, h3⟩, r, m => by
    rcases List.mem_cons.mp m with rfl | m
    · exact ⟨h1, h2, Chain.le h3⟩
    · have := Chain.bounds h3 r m
      exact ⟨by omega, this.2.1, this.2.2⟩

theorem replaceFrom_congr (m : MaskCfg) (v1 v2 : Bytes) (hi : Int) :
    ∀ (secs : List Range) (lo : Int), 0 ≤ lo → Chain lo secs hi →
    (∀ i : Nat, lo ≤ (i : Int) → (∀ sec ∈ secs, ¬ (sec.1 ≤ (i : Int) ∧ (i : Int) < sec.2)) → v1[i]? = v2[i]?) →
    (∀ sec ∈ secs, replacement m (segment v1 sec.1 sec.2) = replacement m (segment v2 sec.1 sec.2)) →
    replaceFrom m v1 lo secs = replaceFrom m v2 lo secs
  | [], lo, h0, _, hout, _ => by
    simp only [replaceFrom]
    exact drop_congr h0 (fun i hi' => hout i hi' (by simp))
  | sec :: rest, lo, h0, ⟨c1, c2, c3⟩, hout, hrep => by
    simp only [replaceFrom]
    have hb := Chain.bounds c3
    congr 1
    · congr 1
      · apply segment_congr h0
        intro i h1 h2
        apply hout i h1
        intro sec' m'
        rcases List.mem_cons.mp m' with rfl | m'
        · omega
        · have := hb sec' m'; omega
      · exact hrep sec List.mem_cons_self
    · apply replaceFrom_congr m v1 v2 hi rest sec.2 (by omega) c3
      · intro i h1 hn
        apply hout i (by omega)
        intro sec' m'
        rcases List.mem_cons.mp m' with rfl | m'
        · omega
        · exact hn sec' m'
      · intro sec' m'; exact hrep sec' (List.mem_cons_of_mem _ m')

/-- all sections of a well-shaped answer, in order -/
theorem allSections_chain {nsub : Nat} {len : Int} {groups : List Nat} (hg : groupsOk groups nsub = true) :
    ∀ {idx : Matches} {lo : Int}, re2Shape nsub len lo idx = true → lo ≤ len → Chain lo (allSections groups idx) len
  | [], _, _, hl => hl
  | index :: idx, lo, hs, _ => by
    unfold re2Shape at hs
    cases hg0 : groupOf index 0 with
    | none => rw [hg0] at hs; simp at hs
    | some se =>
      obtain ⟨s0, e0⟩ := se
      rw [hg0] at hs
      simp only [Bool.and_eq_true] at hs
      obtain ⟨b1, _, b3, _⟩ := groupOk_of_shape hg0 hs.1
      obtain ⟨_, hchain⟩ := sections_chain hg0 hs.1 hg
      simp only [allSections, List.flatMap_cons]
      exact Chain.append (Chain.mono_lo b1 hchain) (allSections_chain hg hs.2 b3)


/-! ### the original loops, under the hypothesis the existing tests live in -/

/-- group `g` took part in the match -/
def Present (index : Match) (g : Nat) : Prop :=
  ∃ s e, groupOf index g = some (s, e) ∧ ¬ (s < 0 ∨ e < 0)

/-- the last listed group took part -/
def LastPresent (gs : List Nat) (index : Match) : Prop :=
  ∀ g, gs.getLast? = some g → Present index g

theorem orig_groupLoop_inv (m : MaskCfg) (value : Bytes) (index : Match) (hi : Int) (hhi : hi ≤ value.length) :
    ∀ (gs : List Nat) (st : Orig.LSt), (∀ g ∈ gs, (groupOf index g).isSome) → 0 ≤ st.prev →
    Chain st.prev (selRanges gs index) hi →
    ∃ st', Orig.groupLoop m value index gs st = .ok st' ∧ st.prev ≤ st'.prev ∧ st'.prev ≤ hi ∧
      (∀ rest, st'.buf ++ replaceFrom m value st'.prev rest
        = st.buf ++ replaceFrom m value st.prev (selRanges gs index ++ rest)) ∧
      (gs = [] → st' = st) ∧ (gs ≠ [] → LastPresent gs index → st'.curFinish = st'.prev)
  | [], st, _, _, c => ⟨st, rfl, Int.le_refl _, c, fun _ => rfl, fun _ => rfl, fun h => absurd rfl h⟩
  | g :: gs, st, hsome, h0, c => by
    have hg := hsome g List.mem_cons_self
    have hsome' : ∀ g' ∈ gs, (groupOf index g').isSome := fun g' m' => hsome g' (List.mem_cons_of_mem _ m')
    rw [selRanges_cons] at c
    cases hgo : groupOf index g with
    | none => rw [hgo] at hg; simp at hg
    | some se =>
      obtain ⟨s, e⟩ := se
      have hgo' := hgo
      unfold groupOf at hgo'
      cases h1 : index[2 * g]? with
      | none => simp [h1] at hgo'
      | some s' =>
        cases h2 : index[2 * g + 1]? with
        | none => simp [h1, h2] at hgo'
        | some e' =>
          simp [h1, h2] at hgo'
          obtain ⟨rfl, rfl⟩ := hgo'
          have e1 : idx? index ((g * 2 : Nat) : Int) = .ok s' := idx_nat (by rw [Nat.mul_comm]; exact h1)
          have e2 : idx? index ((g * 2 + 1 : Nat) : Int) = .ok e' := idx_nat (by rw [Nat.mul_comm]; exact h2)
          rw [hgo] at c
          by_cases hneg : s' < 0 ∨ e' < 0
          · simp only [hneg, ↓reduceIte] at c
            obtain ⟨st', r1, r2, r3, r4, r5, r6⟩ :=
              orig_groupLoop_inv m value index hi hhi gs { st with curFinish := e' } hsome' h0 c
            refine ⟨st', ?_, r2, r3, ?_, fun h => by simp at h, ?_⟩
            · have : (decide (s' < 0) || decide (e' < 0)) = true := by simpa using hneg
              unfold Orig.groupLoop
              simp only [e1, e2, bind, Except.bind, this, ↓reduceIte]
              exact r1
            · intro rest
              rw [selRanges_cons, hgo]
              simp only [hneg, ↓reduceIte]
              exact r4 rest
            · intro _ hl
              cases gs with
              | nil =>
                exfalso
                obtain ⟨s2, e2', hp, hn⟩ := hl g (by simp)
                rw [hgo] at hp
                simp at hp
                exact hn (by rw [← hp.1, ← hp.2]; exact hneg)
              | cons g2 gs2 =>
                apply r6 (by simp)
                intro g' hg'
                exact hl g' (by simpa [List.getLast?_cons_cons] using hg')
          · simp only [hneg, ↓reduceIte] at c
            obtain ⟨c1, c2, c3⟩ := c
            have hs0 : 0 ≤ s' := Int.le_trans h0 c1
            have he : e' ≤ value.length := Int.le_trans (Chain.le c3) hhi
            have hse : s' ≤ value.length := Int.le_trans c2 he
            obtain ⟨st', r1, r2, r3, r4, r5, r6⟩ :=
              orig_groupLoop_inv m value index hi hhi gs
                ⟨e', e', st.buf ++ segment value st.prev s' ++ replacement m (segment value s' e')⟩
                hsome' (Int.le_trans hs0 c2) c3
            refine ⟨st', ?_, ?_, r3, ?_, fun h => by simp at h, ?_⟩
            · have : (decide (s' < 0) || decide (e' < 0)) = false := by simpa using hneg
              unfold Orig.groupLoop
              simp only [e1, e2, bind, Except.bind, this, Bool.false_eq_true, ↓reduceIte,
                slice_ok h0 c1 hse, maskSection_ok m _ value hs0 c2 he]
              exact r1
            · exact Int.le_trans (Int.le_trans c1 c2) r2
            · intro rest
              rw [selRanges_cons, hgo]
              simp only [hneg, ↓reduceIte]
              rw [r4 rest]
              simp [replaceFrom, List.append_assoc]
            · intro _ hl
              cases gs with
              | nil => rw [r5 rfl]
              | cons g2 gs2 =>
                apply r6 (by simp)
                intro g' hg'
                exact hl g' (by simpa [List.getLast?_cons_cons] using hg')


/-- the selected groups that took part, in the order they are listed, match after match, are
    ascending and do not overlap -/
def AscFrom (groups : List Nat) (len : Int) : Int → Matches → Prop
  | lo, [] => lo ≤ len
  | lo, index :: rest => ∃ mid, Chain lo (selRanges groups index) mid ∧ AscFrom groups len mid rest

theorem AscFrom.le {groups : List Nat} {len : Int} : ∀ {idx : Matches} {lo : Int}, AscFrom groups len lo idx → lo ≤ len
  | [], _, h => h
  | _ :: _, _, ⟨_, c, h⟩ => Int.le_trans (Chain.le c) (AscFrom.le h)

theorem orig_matchLoop_inv (m : MaskCfg) (value : Bytes) (hne : m.groups ≠ []) :
    ∀ (idx : Matches) (st : Orig.LSt), (∀ index ∈ idx, ∀ g ∈ m.groups, (groupOf index g).isSome) →
    0 ≤ st.prev → AscFrom m.groups value.length st.prev idx →
    ∃ st', Orig.matchLoop m value idx st = .ok st' ∧ st.prev ≤ st'.prev ∧ st'.prev ≤ value.length ∧
      (∀ rest, st'.buf ++ replaceFrom m value st'.prev rest
        = st.buf ++ replaceFrom m value st.prev (idx.flatMap (selRanges m.groups) ++ rest)) ∧
      (idx = [] → st' = st) ∧
      (idx ≠ [] → (∀ index, idx.getLast? = some index → LastPresent m.groups index) → st'.curFinish = st'.prev)
  | [], st, _, _, a => ⟨st, rfl, Int.le_refl _, a, fun _ => rfl, fun _ => rfl, fun h => absurd rfl h⟩
  | index :: idx, st, hsome, h0, ⟨mid, c, a⟩ => by
    have hmid : mid ≤ value.length := AscFrom.le a
    obtain ⟨st1, r1, r2, r3, r4, _, r6⟩ := orig_groupLoop_inv m value index mid hmid m.groups st
      (hsome index List.mem_cons_self) h0 c
    have a' : AscFrom m.groups value.length st1.prev idx := by
      cases idx with
      | nil => exact Int.le_trans r3 hmid
      | cons i2 idx2 =>
        obtain ⟨mid2, c2, a2⟩ := a
        exact ⟨mid2, Chain.mono_lo r3 c2, a2⟩
    obtain ⟨st2, q1, q2, q3, q4, q5, q6⟩ := orig_matchLoop_inv m value hne idx st1
      (fun i mi => hsome i (List.mem_cons_of_mem _ mi)) (Int.le_trans h0 r2) a'
    refine ⟨st2, ?_, Int.le_trans r2 q2, q3, ?_, fun h => by simp at h, ?_⟩
    · simp [Orig.matchLoop, r1, bind, Except.bind, q1]
    · intro rest
      rw [q4 rest, r4]
      simp [List.append_assoc]
    · intro _ hl
      cases idx with
      | nil =>
        rw [q5 rfl]
        exact r6 hne (hl index (by simp))
      | cons i2 idx2 =>
        apply q6 (by simp)
        intro i' hi'
        exact hl i' (by simpa [List.getLast?_cons_cons] using hi')

theorem Chain.sorted {hi : Int} : ∀ {lo : Int} {l : List Range}, Chain lo l hi → Sorted l
  | _, [], _ => List.Pairwise.nil
  | _, sec :: rest, ⟨_, h2, h3⟩ => by
    refine List.pairwise_cons.mpr ⟨?_, Chain.sorted h3⟩
    intro r m
    have := Chain.bounds h3 r m
    unfold rangeLe; simp; omega

theorem mergeGo_of_chain {hi : Int} : ∀ (rest : List Range) (cur : Range), Chain cur.2 rest hi →
    mergeGo cur rest = cur :: rest
  | [], _, _ => rfl
  | s :: rest, cur, ⟨h1, _, h3⟩ => by
    unfold mergeGo
    have : ¬ s.1 < cur.2 := by omega
    simp only [this, ↓reduceIte]
    rw [mergeGo_of_chain rest s h3]

/-- on ascending, non-overlapping ranges the sections are the ranges themselves -/
theorem sections_of_chain {groups : List Nat} {index : Match} {lo hi : Int}
    (c : Chain lo (selRanges groups index) hi) : sections groups index = selRanges groups index := by
  unfold sections
  rw [List.mergeSort_of_pairwise (Chain.sorted c), ← mergeSecs_eq_unite]
  cases hl : selRanges groups index with
  | nil => rfl
  | cons s rest =>
    rw [hl] at c
    exact mergeGo_of_chain rest s c.2.2

theorem allSections_of_asc {groups : List Nat} {len : Int} : ∀ {idx : Matches} {lo : Int},
    AscFrom groups len lo idx → allSections groups idx = idx.flatMap (selRanges groups)
  | [], _, _ => rfl
  | index :: idx, _, ⟨_, c, a⟩ => by
    simp only [allSections, List.flatMap_cons, sections_of_chain c]
    congr 1
    exact allSections_of_asc a

/-- **the original `maskValue`** agrees with the spec when the selected groups are ascending and
    non-overlapping in listing order and the last listed group of the last match took part -/
theorem orig_maskValue_eq (m : MaskCfg) (value buf : Bytes) (idx : Matches)
    (hne : m.groups ≠ []) (hidx : idx ≠ [])
    (hsome : ∀ index ∈ idx, ∀ g ∈ m.groups, (groupOf index g).isSome)
    (hasc : AscFrom m.groups value.length 0 idx)
    (hlast : ∀ index, idx.getLast? = some index → LastPresent m.groups index) :
    Orig.maskValue m idx value buf = .ok (maskedValue m idx value, true) := by
  obtain ⟨st', r1, r2, r3, r4, _, r6⟩ := orig_matchLoop_inv m value hne idx ⟨0, 0, []⟩ hsome (Int.le_refl _) hasc
  have hcf := r6 hidx hlast
  have he : idx.isEmpty = false := by cases idx <;> simp_all
  have := r4 []
  simp only [List.append_nil, List.nil_append, replaceFrom] at this
  unfold Orig.maskValue
  simp [he, r1, bind, Except.bind, hcf, sliceFrom_ok r2 r3, pure, Except.pure, maskedValue,
    allSections_of_asc hasc, this]


/-! ### processMask (repaired) = the spec's leaf loop -/

/-- what is assumed of the oracle for mask `i`: every answer is well shaped for an expression
    that has all the selected groups -/
def MaskOracleOk (re : Oracle) (i : Nat) (m : MaskCfg) : Prop :=
  ∀ v idx, re i v = some idx → ∃ nsub, groupsOk m.groups nsub = true ∧ re2Shape nsub v.length 0 idx = true

def LoopOk (re : Oracle) : Nat → List MaskCfg → Prop
  | _, [] => True
  | i, m :: ms => MaskOracleOk re i m ∧ LoopOk re (i + 1) ms

/-- model loop state vs spec leaf state -/
structure Rel (value : Bytes) (effs0 : List (Bytes × Bytes)) (counts0 : List Nat) (a0 : Bool)
    (s : PM) (ls : LeafSt) : Prop where
  cur : ls.cur = if s.copied then s.src else value
  upd : s.updated = ls.changed
  updc : s.updated = true → s.copied = true
  effs : s.effs = effs0 ++ marks ls.applied
  counts : s.counts = bumps counts0 ls.applied
  app : s.applied = (a0 || !ls.applied.isEmpty)

theorem marks_snoc (ap : List (Nat × MaskCfg)) (i : Nat) (m : MaskCfg) :
    marks (ap ++ [(i, m)]) = marks ap ++ (if m.appliedField.isEmpty then [] else [(m.appliedField, m.appliedValue)]) := by
  unfold marks
  rw [List.filterMap_append]
  congr 1
  by_cases h : m.appliedField.isEmpty
  · simp only [List.filterMap_cons, h, ↓reduceIte, List.filterMap_nil]
  · simp only [List.filterMap_cons, h, Bool.false_eq_true, ↓reduceIte, List.filterMap_nil]

theorem bumps_snoc (cs : List Nat) (ap : List (Nat × MaskCfg)) (i : Nat) (m : MaskCfg) :
    bumps cs (ap ++ [(i, m)]) = if m.metric then bump (bumps cs ap) i else bumps cs ap := by
  unfold bumps
  rw [List.foldl_append]
  rfl

theorem maskStep_rel (c : Cfg) (re : Oracle) (value : Bytes) (fm : Option FMNode) (i : Nat) (m : MaskCfg)
    (hok : MaskOracleOk re i m) {effs0 : List (Bytes × Bytes)} {counts0 : List Nat} {a0 : Bool}
    {s : PM} {ls : LeafSt} (r : Rel value effs0 counts0 a0 s ls) :
    match leafStep (eligible c fm) re value i m ls with
    | none => maskStep fixedImpl c re value fm i m s = .error .oracleMiss
    | some ls' => ∃ s', maskStep fixedImpl c re value fm i m s = .ok s' ∧ Rel value effs0 counts0 a0 s' ls' := by
  unfold leafStep maskStep
  by_cases h1 : eligible c fm i m
  · by_cases h2 : (m.use && checkMatchRules m value)
    · simp only [h1, h2, Bool.not_true, Bool.false_eq_true, ↓reduceIte]
      by_cases h3 : (m.hasRe && !m.groups.isEmpty)
      · simp only [h3, ↓reduceIte]
        have hsrc : (if fixedImpl.needCopy s.src s.copied = true then value else s.src) = ls.cur := by
          rw [r.cur]; simp only [fixedImpl]; cases s.copied <;> simp
        rw [hsrc]
        cases hre : re i ls.cur with
        | none => simp
        | some idx =>
          obtain ⟨nsub, hg, hs⟩ := hok ls.cur idx hre
          have hmv := maskValue_eq m ls.cur s.maskBuf nsub idx hg hs
          have hmv' : fixedImpl.maskValue m idx ls.cur s.maskBuf =
              .ok (if idx.isEmpty then (s.maskBuf, false) else (maskedValue m idx ls.cur, true)) := hmv
          by_cases he : idx.isEmpty
          · simp only [hmv', he, ↓reduceIte, liftGo, bind, Except.bind, Bool.not_false, pure, Except.pure]
            refine ⟨_, rfl, ?_⟩
            exact { cur := by simp, upd := r.upd, updc := fun _ => rfl, effs := r.effs, counts := r.counts, app := r.app }
          · simp only [hmv', he, Bool.false_eq_true, ↓reduceIte, liftGo, bind, Except.bind, Bool.not_true, pure, Except.pure]
            refine ⟨_, rfl, ?_⟩
            exact { cur := by simp, upd := rfl, updc := fun _ => rfl,
                    effs := by
                      simp only [marks_snoc, r.effs]
                      by_cases hf : m.appliedField.isEmpty <;> simp [hf],
                    counts := by simp only [bumps_snoc, r.counts],
                    app := by simp }
      · simp only [h3, Bool.false_eq_true, ↓reduceIte, pure, Except.pure]
        refine ⟨_, rfl, ?_⟩
        exact { cur := r.cur, upd := r.upd, updc := r.updc,
                effs := by
                  simp only [marks_snoc, r.effs]
                  by_cases hf : m.appliedField.isEmpty <;> simp [hf],
                counts := by simp only [bumps_snoc, r.counts],
                app := by simp }
    · simp only [h1, h2, Bool.not_true, Bool.not_false, Bool.false_eq_true, ↓reduceIte, pure, Except.pure]
      exact ⟨s, rfl, r⟩
  · simp only [h1, Bool.not_false, ↓reduceIte, pure, Except.pure]
    exact ⟨s, rfl, r⟩

theorem maskLoop_rel (c : Cfg) (re : Oracle) (value : Bytes) (fm : Option FMNode)
    {effs0 : List (Bytes × Bytes)} {counts0 : List Nat} {a0 : Bool} :
    ∀ (ms : List MaskCfg) (i : Nat) (s : PM) (ls : LeafSt), LoopOk re i ms → Rel value effs0 counts0 a0 s ls →
    match leafLoop (eligible c fm) re value i ms ls with
    | none => maskLoop fixedImpl c re value fm i ms s = .error .oracleMiss
    | some ls' => ∃ s', maskLoop fixedImpl c re value fm i ms s = .ok s' ∧ Rel value effs0 counts0 a0 s' ls'
  | [], _, s, ls, _, r => ⟨s, rfl, r⟩
  | m :: ms, i, s, ls, ⟨hok, hrest⟩, r => by
    have hstep := maskStep_rel c re value fm i m hok r
    unfold leafLoop maskLoop
    cases hl : leafStep (eligible c fm) re value i m ls with
    | none =>
      rw [hl] at hstep
      simp [hstep, bind, Except.bind]
    | some ls1 =>
      rw [hl] at hstep
      obtain ⟨s1, e1, r1⟩ := hstep
      have ih := maskLoop_rel c re value fm ms (i + 1) s1 ls1 hrest r1
      simp only [e1, bind, Except.bind]
      exact ih

/-- **processMask (repaired) is the spec's leaf loop** for the masks the field-masks node leaves:
    same new value, same marks, same counters, fails only where the oracle table has no row -/
theorem processMask_eq (c : Cfg) (re : Oracle) (value : Bytes) (fm : Option FMNode) (st : St)
    (hok : LoopOk re 0 c.masks) :
    processMask fixedImpl c re value fm st =
      match specLeaf (eligible c fm) c.masks re value with
      | none => .error .oracleMiss
      | some (nv, ap) => .ok (nv, { effs := st.effs ++ marks ap, counts := bumps st.counts ap,
                                    applied := st.applied || !ap.isEmpty }) := by
  unfold processMask specLeaf
  by_cases hv : value.isEmpty
  · simp [hv, pure, Except.pure, marks, bumps]
  · simp only [hv, Bool.false_eq_true, ↓reduceIte]
    have r0 : Rel value st.effs st.counts false { effs := st.effs, counts := st.counts } { cur := value } :=
      { cur := by simp, upd := rfl, updc := fun h => by simp at h, effs := by simp [marks],
        counts := by simp [bumps], app := by simp }
    have h := maskLoop_rel c re value fm c.masks 0 _ _ hok r0
    cases hl : leafLoop (eligible c fm) re value 0 c.masks { cur := value } with
    | none =>
      rw [hl] at h
      simp [h, bind, Except.bind]
    | some ls' =>
      rw [hl] at h
      obtain ⟨s', e1, r1⟩ := h
      simp only [e1, bind, Except.bind, pure, Except.pure]
      congr 2
      · rw [r1.upd]
        cases hc : ls'.changed
        · simp
        · have := r1.updc (by rw [r1.upd, hc])
          simp [r1.cur, this]
      · simp [r1.effs, r1.counts, r1.app]


/-! ### the (repaired) field-masks tree means "a listed path covers its subtree" -/

/-- the node for a child `k` of a node that has `n` (repaired code) -/
def fmStep (n : FMNode) (k : Bytes) : FMNode := if !n.hasChildren then n else n.residual true k

/-- the node traverseTree holds when it stands at `path` -/
def fmAt (c : Cfg) (path : List Bytes) : Option FMNode := c.fmRoot.map (fun n => path.foldl fmStep n)

theorem residual_any (t : Tag) (k : Bytes) (q : List Bytes) : ∀ n : FMNode,
    (n.residual true k).any (fun e => e.2 == t && e.1.isPrefixOf q)
      = n.any (fun e => e.2 == t && e.1.isPrefixOf (k :: q))
  | [] => rfl
  | (k' :: rest, t') :: es => by
    unfold FMNode.residual
    by_cases h : k' = k
    · subst h
      simp [residual_any t k' q es, List.isPrefixOf]
    · have : (k' == k) = false := by simpa using h
      simp [h, residual_any t k q es, List.isPrefixOf, this]
  | ([], t') :: es => by
    unfold FMNode.residual
    simp [residual_any t k q es, List.isPrefixOf]

theorem noChildren_any (t : Tag) (q : List Bytes) : ∀ n : FMNode, n.hasChildren = false →
    n.any (fun e => e.2 == t && e.1.isPrefixOf q) = n.has t
  | [], _ => rfl
  | (p, t') :: es, h => by
    unfold FMNode.hasChildren at h
    simp only [List.any_cons, Bool.or_eq_false_iff] at h
    have hp : p = [] := by
      cases p with
      | nil => rfl
      | cons _ _ => simp at h
    subst hp
    have ih := noChildren_any t q es (by unfold FMNode.hasChildren; exact h.2)
    unfold FMNode.has at ih ⊢
    simp only [List.any_cons, ih, List.isPrefixOf, List.isEmpty_nil, Bool.and_true, Bool.true_and]

theorem has_nil (t : Tag) (n : FMNode) : n.has t = n.any (fun e => e.2 == t && e.1.isPrefixOf []) := by
  unfold FMNode.has
  congr 1
  funext e
  cases e.1 <;> simp [List.isPrefixOf, Bool.and_comm]

/-- a flag is set on the node reached along `q` iff a list entry with that flag is a prefix of `q` -/
theorem has_walk (t : Tag) : ∀ (q : List Bytes) (n : FMNode),
    (q.foldl fmStep n).has t = n.any (fun e => e.2 == t && e.1.isPrefixOf q)
  | [], n => has_nil t n
  | k :: q, n => by
    simp only [List.foldl_cons]
    by_cases hc : n.hasChildren
    · have e1 : fmStep n k = n.residual true k := by simp [fmStep, hc]
      rw [e1, has_walk t q, residual_any]
    · have hc' : n.hasChildren = false := by simpa using hc
      have e1 : ∀ k', fmStep n k' = n := by intro k'; simp [fmStep, hc']
      have : ∀ q' : List Bytes, (q'.foldl fmStep n) = n := by
        intro q'
        induction q' with
        | nil => rfl
        | cons k' q' ih => simp only [List.foldl_cons, e1, ih]
      rw [e1, this q, noChildren_any t _ n hc']


/-- "an entry with flag `t` is a prefix of `q`" -/
def hit (t : Tag) (q : List Bytes) (e : List Bytes × Tag) : Bool := e.2 == t && e.1.isPrefixOf q

theorem any_map_tag (t t' : Tag) (q : List Bytes) (ps : List (List Bytes)) :
    (ps.map (fun p => (p, t'))).any (hit t q) = ((t' == t) && covers ps q) := by
  unfold covers hit
  rw [List.any_map]
  induction ps with
  | nil => simp
  | cons p ps ih =>
    simp only [List.any_cons, Function.comp] at ih ⊢
    rw [ih]
    cases (t' == t) <;> simp

def pick (ms : List MaskCfg) (k i : Nat) : Option MaskCfg := if k ≤ i then ms[i - k]? else none

theorem pick_cons (m : MaskCfg) (ms : List MaskCfg) (k i : Nat) :
    pick (m :: ms) k i = if k = i then some m else pick ms (k + 1) i := by
  unfold pick
  by_cases h1 : k = i
  · subst h1; simp
  · by_cases h2 : k ≤ i
    · have h3 : k + 1 ≤ i := by omega
      have : i - k = (i - (k + 1)) + 1 := by omega
      simp [h1, h2, h3, this]
    · have h3 : ¬ k + 1 ≤ i := by omega
      simp [h1, h2, h3]

theorem pick_succ_self (ms : List MaskCfg) (k : Nat) : pick ms (k + 1) k = none := by
  have : ¬ k + 1 ≤ k := by omega
  simp [pick, this]

theorem head_any (t : Tag) (q : List Bytes) (m : MaskCfg) (k : Nat) :
    (if m.fkind == 1 then m.paths.map (fun p => (p, Tag.ignoreMask k))
     else if m.fkind == 2 then m.paths.map (fun p => (p, Tag.processMask k))
     else []).any (hit t q)
    = ((m.fkind == 1 && (Tag.ignoreMask k == t) && covers m.paths q) ||
       (m.fkind == 2 && (Tag.processMask k == t) && covers m.paths q)) := by
  by_cases h1 : m.fkind == 1
  · have h2 : (m.fkind == 2) = false := by
      have : m.fkind = 1 := by simpa using h1
      simp [this]
    rw [if_pos h1, any_map_tag, h1, h2]; simp
  · have h1' : (m.fkind == 1) = false := by simpa using h1
    by_cases h2 : m.fkind == 2
    · rw [if_neg h1, if_pos h2, any_map_tag, h1', h2]; simp
    · have h2' : (m.fkind == 2) = false := by simpa using h2
      rw [if_neg h1, if_neg h2, h1', h2']; simp

theorem any_ignore (i : Nat) (q : List Bytes) : ∀ (ms : List MaskCfg) (k : Nat),
    (Cfg.maskEntries k ms).any (hit (.ignoreMask i) q)
      = match pick ms k i with
        | some m => m.fkind == 1 && covers m.paths q
        | none => false
  | [], k => by simp [Cfg.maskEntries, pick]
  | m :: ms, k => by
    rw [Cfg.maskEntries, List.any_append, any_ignore i q ms (k + 1), pick_cons, head_any]
    have e2 : (Tag.processMask k == Tag.ignoreMask i) = false := by rfl
    by_cases hk : k = i
    · subst hk
      have e1 : (Tag.ignoreMask k == Tag.ignoreMask k) = true := by simp
      simp [pick_succ_self, e1, e2]
    · have e1 : (Tag.ignoreMask k == Tag.ignoreMask i) = false := by simp [hk]
      simp [hk, e1, e2]

theorem any_process (i : Nat) (q : List Bytes) : ∀ (ms : List MaskCfg) (k : Nat),
    (Cfg.maskEntries k ms).any (hit (.processMask i) q)
      = match pick ms k i with
        | some m => m.fkind == 2 && covers m.paths q
        | none => false
  | [], k => by simp [Cfg.maskEntries, pick]
  | m :: ms, k => by
    rw [Cfg.maskEntries, List.any_append, any_process i q ms (k + 1), pick_cons, head_any]
    have e2 : (Tag.ignoreMask k == Tag.processMask i) = false := by rfl
    by_cases hk : k = i
    · subst hk
      have e1 : (Tag.processMask k == Tag.processMask k) = true := by simp
      simp [pick_succ_self, e1, e2]
    · have e1 : (Tag.processMask k == Tag.processMask i) = false := by simp [hk]
      simp [hk, e1, e2]

theorem any_global (t : Tag) (ht : t = .globalIgnore ∨ t = .globalProcess) (q : List Bytes) :
    ∀ (ms : List MaskCfg) (k : Nat), (Cfg.maskEntries k ms).any (hit t q) = false
  | [], k => by simp [Cfg.maskEntries]
  | m :: ms, k => by
    rw [Cfg.maskEntries, List.any_append, any_global t ht q ms (k + 1), head_any]
    have e1 : (Tag.ignoreMask k == t) = false := by rcases ht with rfl | rfl <;> rfl
    have e2 : (Tag.processMask k == t) = false := by rcases ht with rfl | rfl <;> rfl
    simp [e1, e2]


@[simp] theorem tag_gi_im (i : Nat) : (Tag.globalIgnore == Tag.ignoreMask i) = false := rfl
@[simp] theorem tag_gp_im (i : Nat) : (Tag.globalProcess == Tag.ignoreMask i) = false := rfl
@[simp] theorem tag_gi_pm (i : Nat) : (Tag.globalIgnore == Tag.processMask i) = false := rfl
@[simp] theorem tag_gp_pm (i : Nat) : (Tag.globalProcess == Tag.processMask i) = false := rfl
@[simp] theorem tag_gi_gp : (Tag.globalIgnore == Tag.globalProcess) = false := rfl
@[simp] theorem tag_gp_gi : (Tag.globalProcess == Tag.globalIgnore) = false := rfl

theorem cond_any (b : Bool) (t t' : Tag) (q : List Bytes) (ps : List (List Bytes)) :
    (if b then ps.map (fun p => (p, t')) else []).any (hit t q) = (b && (t' == t) && covers ps q) := by
  cases b
  · simp
  · simp only [↓reduceIte, any_map_tag, Bool.true_and]

theorem pick_zero (ms : List MaskCfg) (i : Nat) : pick ms 0 i = ms[i]? := by simp [pick]

/-- the flags of the node traverseTree holds at `path`, read off the configured lists -/
theorem has_fmAt (c : Cfg) (path : List Bytes) (n : FMNode) (h : fmAt c path = some n) (t : Tag) :
    n.has t =
      ((Cfg.maskEntries 0 c.masks).any (hit t path) ||
        (c.hasGlobalIgnore && (Tag.globalIgnore == t) && covers c.gpaths path) ||
        (c.hasGlobalProcess && (Tag.globalProcess == t) && covers c.gpaths path)) := by
  unfold fmAt Cfg.fmRoot at h
  by_cases hp : c.hasProcessOrIgnore
  · simp only [hp, Bool.not_true, Bool.false_eq_true, ↓reduceIte, Option.map_some, Option.some.injEq] at h
    subst h
    rw [has_walk]
    show List.any _ (hit t path) = _
    rw [List.any_append, List.any_append, cond_any, cond_any]
  · simp [hp] at h

theorem globalsUsed_of (c : Cfg) (m : MaskCfg) (hm : m ∈ c.masks)
    (h1 : (m.fkind == 1) = false) (h2 : (m.fkind == 2) = false) : c.globalsUsed = true := by
  unfold Cfg.globalsUsed
  simp only [Bool.not_eq_true', List.all_eq_false]
  exact ⟨m, hm, by simp [h1, h2]⟩

/-- **the repaired field-masks tree implements the documented meaning of the lists**: at the
    node for `path`, mask `i` is left exactly when the spec's prefix semantics leaves it -/
theorem eligible_eq (c : Cfg) (path : List Bytes) (i : Nat) (m : MaskCfg) (hm : c.masks[i]? = some m) :
    eligible c (fmAt c path) i m = pathEligible c m path := by
  have hmem : m ∈ c.masks := List.mem_of_getElem? hm
  unfold eligible pathEligible
  by_cases hp : c.hasProcessOrIgnore
  · have hsome : ∃ n, fmAt c path = some n := by
      unfold fmAt Cfg.fmRoot; simp [hp]
    obtain ⟨n, hn⟩ := hsome
    have hh := has_fmAt c path n hn
    rw [hn]
    simp only [hp, Bool.not_true, Bool.false_eq_true, ↓reduceIte]
    by_cases h1 : m.fkind == 1
    · simp only [h1, ↓reduceIte]
      rw [hh, any_ignore, pick_zero, hm]
      simp [h1]
    · have h1' : (m.fkind == 1) = false := by simpa using h1
      by_cases h2 : m.fkind == 2
      · simp only [h1', h2, Bool.false_eq_true, ↓reduceIte]
        rw [hh, any_process, pick_zero, hm]
        simp [h2]
      · have h2' : (m.fkind == 2) = false := by simpa using h2
        have hg := globalsUsed_of c m hmem h1' h2'
        simp only [h1', h2', Bool.false_eq_true, ↓reduceIte, Cfg.hasGlobalIgnore, Cfg.hasGlobalProcess, hg,
          Bool.true_and]
        by_cases g1 : c.gkind == 1
        · simp only [g1, ↓reduceIte]
          rw [hh, any_global _ (Or.inl rfl)]
          simp [Cfg.hasGlobalIgnore, hg, g1]
        · have g1' : (c.gkind == 1) = false := by simpa using g1
          by_cases g2 : c.gkind == 2
          · simp only [g1', g2, Bool.false_eq_true, ↓reduceIte]
            rw [hh, any_global _ (Or.inr rfl)]
            simp [Cfg.hasGlobalProcess, hg, g2]
          · simp [g1', g2]
  · have hp' : c.hasProcessOrIgnore = false := by simpa using hp
    simp only [hp', Bool.not_false, ↓reduceIte]
    unfold Cfg.hasProcessOrIgnore at hp'
    simp only [Bool.or_eq_false_iff] at hp'
    obtain ⟨⟨hs, hgi⟩, hgp⟩ := hp'
    unfold Cfg.hasMaskSpecific at hs
    have hm0 := (List.any_eq_false.mp hs) m hmem
    simp only [Bool.or_eq_true, not_or, Bool.not_eq_true] at hm0
    have hg := globalsUsed_of c m hmem hm0.1 hm0.2
    simp only [Cfg.hasGlobalIgnore, hg, Bool.true_and] at hgi
    simp only [Cfg.hasGlobalProcess, hg, Bool.true_and] at hgp
    simp [hm0.1, hm0.2, hgi, hgp]


/-! ### traverseTree (repaired) = the spec's walk over the event -/

/-- traversal state after the masks `ap` applied -/
def addAp (st : St) (ap : List (Nat × MaskCfg)) : St :=
  { effs := st.effs ++ marks ap, counts := bumps st.counts ap, applied := st.applied || !ap.isEmpty }

theorem addAp_nil (st : St) : addAp st [] = st := by
  cases st; simp [addAp, marks, bumps]

theorem addAp_append (st : St) (a b : List (Nat × MaskCfg)) : addAp (addAp st a) b = addAp st (a ++ b) := by
  have : (!(a ++ b).isEmpty) = (!a.isEmpty || !b.isEmpty) := by
    cases a <;> cases b <;> rfl
  simp only [addAp, marks, bumps, List.filterMap_append, List.foldl_append, List.append_assoc, this,
    Bool.or_assoc]

theorem leafStep_congr {el1 el2 : Nat → MaskCfg → Bool} (re : Oracle) (value : Bytes) (i : Nat) (m : MaskCfg)
    (s : LeafSt) (h : el1 i m = el2 i m) : leafStep el1 re value i m s = leafStep el2 re value i m s := by
  unfold leafStep; rw [h]

theorem leafLoop_congr {el1 el2 : Nat → MaskCfg → Bool} (re : Oracle) (value : Bytes) :
    ∀ (ms : List MaskCfg) (i : Nat) (s : LeafSt), (∀ j m, ms[j]? = some m → el1 (i + j) m = el2 (i + j) m) →
    leafLoop el1 re value i ms s = leafLoop el2 re value i ms s
  | [], _, _, _ => rfl
  | m :: ms, i, s, h => by
    unfold leafLoop
    rw [leafStep_congr re value i m s (by simpa using h 0 m rfl)]
    cases leafStep el2 re value i m s with
    | none => rfl
    | some s' =>
      exact leafLoop_congr re value ms (i + 1) s' (fun j m' hj => by
        have := h (j + 1) m' (by simpa using hj)
        rw [show i + (j + 1) = i + 1 + j by omega] at this
        exact this)

/-- processMask at the node for `path` = the spec's leaf with the documented list semantics -/
theorem processMask_at (c : Cfg) (re : Oracle) (hok : LoopOk re 0 c.masks) (v : Bytes) (path : List Bytes) (st : St) :
    processMask fixedImpl c re v (fmAt c path) st =
      match specLeaf (fun _ m => pathEligible c m path) c.masks re v with
      | none => .error .oracleMiss
      | some (nv, ap) => .ok (nv, addAp st ap) := by
  rw [processMask_eq c re v (fmAt c path) st hok]
  have : specLeaf (eligible c (fmAt c path)) c.masks re v = specLeaf (fun _ m => pathEligible c m path) c.masks re v := by
    unfold specLeaf
    rw [leafLoop_congr re v c.masks 0 _ (fun j m hj => by simpa using eligible_eq c path j m hj)]
  rw [this]
  rfl

/-- below `path` no mask is left by the lists -/
def Dead (c : Cfg) (path : List Bytes) : Prop :=
  ∀ q m, m ∈ c.masks → path.isPrefixOf q = true → pathEligible c m q = false

theorem isPrefixOf_snoc_trans {p q : List Bytes} {k : Bytes} (h : (p ++ [k]).isPrefixOf q = true) :
    p.isPrefixOf q = true := by
  rw [List.isPrefixOf_iff_prefix] at h ⊢
  exact (List.prefix_append p [k]).trans h

theorem Dead.snoc {c : Cfg} {path : List Bytes} (h : Dead c path) (k : Bytes) : Dead c (path ++ [k]) :=
  fun q m hm hp => h q m hm (isPrefixOf_snoc_trans hp)

theorem leafLoop_dead {el : Nat → MaskCfg → Bool} (re : Oracle) (value : Bytes) :
    ∀ (ms : List MaskCfg) (i : Nat) (s : LeafSt), (∀ j m, ms[j]? = some m → el (i + j) m = false) →
    leafLoop el re value i ms s = some s
  | [], _, _, _ => rfl
  | m :: ms, i, s, h => by
    have h0 : el i m = false := by simpa using h 0 m rfl
    unfold leafLoop leafStep
    simp only [h0, Bool.not_false, ↓reduceIte]
    exact leafLoop_dead re value ms (i + 1) s (fun j m' hj => by
      have := h (j + 1) m' (by simpa using hj)
      rw [show i + (j + 1) = i + 1 + j by omega] at this
      exact this)

theorem specLeaf_dead (c : Cfg) (re : Oracle) (path : List Bytes) (v : Bytes) (h : Dead c path) :
    specLeaf (fun _ m => pathEligible c m path) c.masks re v = some (none, []) := by
  unfold specLeaf
  by_cases hv : v.isEmpty
  · simp [hv]
  · simp only [hv, Bool.false_eq_true, ↓reduceIte]
    rw [leafLoop_dead re v c.masks 0 _ (fun j m hj => h path m (List.mem_of_getElem? hj) (by simp))]
    rfl

mutual
  theorem specTree_dead (c : Cfg) (re : Oracle) : ∀ (t : JTree) (path : List Bytes), Dead c path →
      specTree c re path t = some (t, [])
    | .str s, path, h => by simp [specTree, specLeaf_dead c re path s h]
    | .num s, path, h => by simp [specTree, specLeaf_dead c re path s h]
    | .obj kvs, path, h => by simp [specTree, specKVs_dead c re kvs path h]
    | .arr xs, path, h => by simp [specTree, specArr_dead c re xs 0 path h]
    | .null, _, _ => by simp [specTree]
    | .bool _, _, _ => by simp [specTree]
  theorem specKVs_dead (c : Cfg) (re : Oracle) : ∀ (kvs : List (Bytes × JTree)) (path : List Bytes), Dead c path →
      specKVs c re path kvs = some (kvs, [])
    | [], _, _ => by simp [specKVs]
    | (k, v) :: rest, path, h => by
      simp [specKVs, specTree_dead c re v (path ++ [k]) (h.snoc k), specKVs_dead c re rest path h]
  theorem specArr_dead (c : Cfg) (re : Oracle) : ∀ (xs : List JTree) (i : Nat) (path : List Bytes), Dead c path →
      specArr c re path i xs = some (xs, [])
    | [], _, _, _ => by simp [specArr]
    | x :: rest, i, path, h => by
      simp [specArr, specTree_dead c re x (path ++ [itoa i]) (h.snoc _), specArr_dead c re rest (i + 1) path h]
end


theorem fmAt_snoc (c : Cfg) (path : List Bytes) (k : Bytes) :
    fmAt c (path ++ [k]) = (fmAt c path).map (fun n => fmStep n k) := by
  unfold fmAt
  cases c.fmRoot <;> simp [List.foldl_append]

theorem elemNext_eq (c : Cfg) (path : List Bytes) (i : Nat) :
    elemNext fixedImpl (fmAt c path) i = fmAt c (path ++ [itoa i]) := by
  rw [fmAt_snoc]
  unfold elemNext fmStep
  cases fmAt c path with
  | none => rfl
  | some n =>
    by_cases h : n.hasChildren <;> simp [h, fixedImpl]

theorem isPrefixOf_trans {a b q : List Bytes} (h1 : a.isPrefixOf b = true) (h2 : b.isPrefixOf q = true) :
    a.isPrefixOf q = true := by
  rw [List.isPrefixOf_iff_prefix] at h1 h2 ⊢
  exact h1.trans h2

theorem covers_mono {ps : List (List Bytes)} {p q : List Bytes} (h : covers ps p = true)
    (hpq : p.isPrefixOf q = true) : covers ps q = true := by
  unfold covers at h ⊢
  rw [List.any_eq_true] at h ⊢
  obtain ⟨l, ml, hl⟩ := h
  exact ⟨l, ml, isPrefixOf_trans hl hpq⟩

/-- the `IsField` case at the node for `path`: either the walk goes on to the child's node, or
    the field is skipped and then nothing below it is left to any mask -/
theorem fieldNext_cases (c : Cfg) (path : List Bytes) (k : Bytes) :
    fieldNext fixedImpl c (fmAt c path) k = some (fmAt c (path ++ [k])) ∨
    (fieldNext fixedImpl c (fmAt c path) k = none ∧ Dead c (path ++ [k])) := by
  rw [fmAt_snoc]
  cases hfm : fmAt c path with
  | none => left; rfl
  | some n =>
    unfold fieldNext fmStep
    by_cases hc : n.hasChildren
    · simp only [hc, Bool.not_true, Bool.false_eq_true, ↓reduceIte, fixedImpl, Option.map_some]
      by_cases hskip : (n.childExists k && (FMNode.residual true k n).has Tag.globalIgnore && !c.hasMaskSpecific)
      · right
        simp only [hskip, ↓reduceIte, true_and]
        simp only [Bool.and_eq_true, Bool.not_eq_true'] at hskip
        obtain ⟨⟨_, hgi⟩, hms⟩ := hskip
        have hn' : fmAt c (path ++ [k]) = some (FMNode.residual true k n) := by
          rw [fmAt_snoc, hfm]; simp [fmStep, hc]
        rw [has_fmAt c _ _ hn' .globalIgnore, any_global _ (Or.inl rfl)] at hgi
        simp only [BEq.rfl, Bool.and_true, Bool.false_or, tag_gp_gi, Bool.and_false, Bool.false_and, Bool.or_false,
          Bool.and_eq_true] at hgi
        intro q m hm hp
        unfold Cfg.hasMaskSpecific at hms
        have hm0 := (List.any_eq_false.mp hms) m hm
        simp only [Bool.or_eq_true, not_or, Bool.not_eq_true] at hm0
        have hg1 : (c.gkind == 1) = true := by
          have := hgi.1; unfold Cfg.hasGlobalIgnore at this; simp only [Bool.and_eq_true] at this; exact this.2
        unfold pathEligible
        simp [hm0.1, hm0.2, hg1, covers_mono hgi.2 hp]
      · left
        simp only [hskip, Bool.false_eq_true, ↓reduceIte]
    · left
      have hc' : n.hasChildren = false := by simpa using hc
      simp [hc']


/-- result of the model's traversal expected from the spec's -/
def expect {α} (st : St) : Option (α × List (Nat × MaskCfg)) → M (α × St)
  | none => .error .oracleMiss
  | some (a, ap) => .ok (a, addAp st ap)

mutual
  /-- **traverseTree (repaired) = the spec's walk**, node by node: same new leaves, same marks and
      counters, the process / ignore lists meaning "a listed path covers its subtree" -/
  theorem trav_eq (c : Cfg) (re : Oracle) (hok : LoopOk re 0 c.masks) :
      ∀ (t : JTree) (path : List Bytes) (st : St),
      trav fixedImpl c re t (fmAt c path) st = expect st (specTree c re path t)
    | .str s, path, st => by
      simp only [trav, specTree, processMask_at c re hok s path st, bind, Except.bind]
      cases specLeaf (fun _ m => pathEligible c m path) c.masks re s with
      | none => rfl
      | some r => obtain ⟨nv, ap⟩ := r; cases nv <;> rfl
    | .num s, path, st => by
      simp only [trav, specTree, processMask_at c re hok s path st, bind, Except.bind]
      cases specLeaf (fun _ m => pathEligible c m path) c.masks re s with
      | none => rfl
      | some r => obtain ⟨nv, ap⟩ := r; cases nv <;> rfl
    | .obj kvs, path, st => by
      simp only [trav, specTree, travKVs_eq c re hok kvs path st, bind, Except.bind]
      cases specKVs c re path kvs with
      | none => rfl
      | some r => rfl
    | .arr xs, path, st => by
      simp only [trav, specTree, travArr_eq c re hok xs 0 path st, bind, Except.bind]
      cases specArr c re path 0 xs with
      | none => rfl
      | some r => rfl
    | .null, _, st => by simp [trav, specTree, expect, addAp_nil, pure, Except.pure]
    | .bool _, _, st => by simp [trav, specTree, expect, addAp_nil, pure, Except.pure]
  theorem travKVs_eq (c : Cfg) (re : Oracle) (hok : LoopOk re 0 c.masks) :
      ∀ (kvs : List (Bytes × JTree)) (path : List Bytes) (st : St),
      travKVs fixedImpl c re kvs (fmAt c path) st = expect st (specKVs c re path kvs)
    | [], _, st => by simp [travKVs, specKVs, expect, addAp_nil, pure, Except.pure]
    | (k, v) :: rest, path, st => by
      rcases fieldNext_cases c path k with hn | ⟨hn, hdead⟩
      · simp only [travKVs, hn, trav_eq c re hok v (path ++ [k]) st, specKVs, bind, Except.bind]
        cases specTree c re (path ++ [k]) v with
        | none => simp [expect]
        | some r1 =>
          obtain ⟨v', a1⟩ := r1
          simp only [expect, travKVs_eq c re hok rest path (addAp st a1)]
          cases specKVs c re path rest with
          | none => rfl
          | some r2 =>
            obtain ⟨rest', a2⟩ := r2
            simp [expect, addAp_append, pure, Except.pure]
      · simp only [travKVs, hn, specKVs, specTree_dead c re v (path ++ [k]) hdead, bind, Except.bind,
          travKVs_eq c re hok rest path st]
        cases specKVs c re path rest with
        | none => rfl
        | some r2 =>
          obtain ⟨rest', a2⟩ := r2
          simp [expect, pure, Except.pure]
  theorem travArr_eq (c : Cfg) (re : Oracle) (hok : LoopOk re 0 c.masks) :
      ∀ (xs : List JTree) (i : Nat) (path : List Bytes) (st : St),
      travArr fixedImpl c re xs i (fmAt c path) st = expect st (specArr c re path i xs)
    | [], _, _, st => by simp [travArr, specArr, expect, addAp_nil, pure, Except.pure]
    | x :: rest, i, path, st => by
      simp only [travArr, elemNext_eq, trav_eq c re hok x (path ++ [itoa i]) st, specArr, bind, Except.bind]
      cases specTree c re (path ++ [itoa i]) x with
      | none => simp [expect]
      | some r1 =>
        obtain ⟨x', a1⟩ := r1
        simp only [expect, travArr_eq c re hok rest (i + 1) path (addAp st a1)]
        cases specArr c re path (i + 1) rest with
        | none => rfl
        | some r2 =>
          obtain ⟨rest', a2⟩ := r2
          simp [expect, addAp_append, pure, Except.pure]
end


/-! ### structure and keys are never touched -/

mutual
  theorem specTree_shape (c : Cfg) (re : Oracle) : ∀ (t : JTree) (path : List Bytes) (t' : JTree)
      (ap : List (Nat × MaskCfg)), specTree c re path t = some (t', ap) → sameShape t t' = true
    | .str s, path, t', ap, h => by
      simp only [specTree] at h
      split at h <;> simp at h <;> (obtain ⟨rfl, _⟩ := h; simp [sameShape])
    | .num s, path, t', ap, h => by
      simp only [specTree] at h
      split at h <;> simp at h <;> (obtain ⟨rfl, _⟩ := h; simp [sameShape])
    | .obj kvs, path, t', ap, h => by
      simp only [specTree] at h
      split at h
      · simp at h
      · rename_i kvs' ap' hk
        simp at h; obtain ⟨rfl, _⟩ := h
        simp [sameShape, specKVs_shape c re kvs path kvs' ap' hk]
    | .arr xs, path, t', ap, h => by
      simp only [specTree] at h
      split at h
      · simp at h
      · rename_i xs' ap' hk
        simp at h; obtain ⟨rfl, _⟩ := h
        simp [sameShape, specArr_shape c re xs 0 path xs' ap' hk]
    | .null, _, t', ap, h => by simp [specTree] at h; obtain ⟨rfl, _⟩ := h; simp [sameShape]
    | .bool b, _, t', ap, h => by simp [specTree] at h; obtain ⟨rfl, _⟩ := h; simp [sameShape]
  theorem specKVs_shape (c : Cfg) (re : Oracle) : ∀ (kvs : List (Bytes × JTree)) (path : List Bytes)
      (kvs' : List (Bytes × JTree)) (ap : List (Nat × MaskCfg)),
      specKVs c re path kvs = some (kvs', ap) → sameShapeKVs kvs kvs' = true
    | [], _, kvs', ap, h => by simp [specKVs] at h; obtain ⟨rfl, _⟩ := h; simp [sameShapeKVs]
    | (k, v) :: rest, path, kvs', ap, h => by
      simp only [specKVs] at h
      split at h
      · rename_i v' a1 rest' a2 h1 h2
        simp at h; obtain ⟨rfl, _⟩ := h
        simp [sameShapeKVs, specTree_shape c re v _ v' a1 h1, specKVs_shape c re rest path rest' a2 h2]
      · simp at h
  theorem specArr_shape (c : Cfg) (re : Oracle) : ∀ (xs : List JTree) (i : Nat) (path : List Bytes)
      (xs' : List JTree) (ap : List (Nat × MaskCfg)),
      specArr c re path i xs = some (xs', ap) → sameShapeList xs xs' = true
    | [], _, _, xs', ap, h => by simp [specArr] at h; obtain ⟨rfl, _⟩ := h; simp [sameShapeList]
    | x :: rest, i, path, xs', ap, h => by
      simp only [specArr] at h
      split at h
      · rename_i x' a1 rest' a2 h1 h2
        simp at h; obtain ⟨rfl, _⟩ := h
        simp [sameShapeList, specTree_shape c re x _ x' a1 h1, specArr_shape c re rest (i + 1) path rest' a2 h2]
      · simp at h
end


/-! ### no event content can make the (repaired) action panic -/

/-- the computation does not end in a Go panic (it may only miss an oracle row) -/
def NoPanic {α} (x : M α) : Prop := ∀ p, x ≠ .error (.panic p)

theorem NoPanic.pure {α} (a : α) : NoPanic (pure a : M α) := by intro p h; cases h

theorem NoPanic.ok {α} (a : α) : NoPanic (.ok a : M α) := by intro p h; cases h

theorem NoPanic.bind {α β} {x : M α} {f : α → M β} (hx : NoPanic x) (hf : ∀ a, NoPanic (f a)) :
    NoPanic (x >>= f) := by
  intro p h
  cases x with
  | error e =>
    have h' : (Except.error e : M β) = .error (.panic p) := h
    cases h'
    exact hx p rfl
  | ok a => exact hf a p h

theorem processMask_noPanic (c : Cfg) (re : Oracle) (hok : LoopOk re 0 c.masks) (v : Bytes)
    (fm : Option FMNode) (st : St) : NoPanic (processMask fixedImpl c re v fm st) := by
  rw [processMask_eq c re v fm st hok]
  intro p h
  split at h <;> cases h

mutual
  theorem trav_noPanic (c : Cfg) (re : Oracle) (hok : LoopOk re 0 c.masks) :
      ∀ (t : JTree) (fm : Option FMNode) (st : St), NoPanic (trav fixedImpl c re t fm st)
    | .str s, fm, st => by
      simp only [trav]
      exact (processMask_noPanic c re hok s fm st).bind (fun _ => NoPanic.pure _)
    | .num s, fm, st => by
      simp only [trav]
      exact (processMask_noPanic c re hok s fm st).bind (fun _ => NoPanic.pure _)
    | .obj kvs, fm, st => by
      simp only [trav]
      exact (travKVs_noPanic c re hok kvs fm st).bind (fun _ => NoPanic.pure _)
    | .arr xs, fm, st => by
      simp only [trav]
      exact (travArr_noPanic c re hok xs 0 fm st).bind (fun _ => NoPanic.pure _)
    | .null, _, _ => by intro p h; simp [trav, pure, Except.pure] at h
    | .bool _, _, _ => by intro p h; simp [trav, pure, Except.pure] at h
  theorem travKVs_noPanic (c : Cfg) (re : Oracle) (hok : LoopOk re 0 c.masks) :
      ∀ (kvs : List (Bytes × JTree)) (fm : Option FMNode) (st : St), NoPanic (travKVs fixedImpl c re kvs fm st)
    | [], _, _ => by simp only [travKVs]; exact NoPanic.pure _
    | (k, v) :: rest, fm, st => by
      simp only [travKVs]
      split
      · exact (travKVs_noPanic c re hok rest fm st).bind (fun _ => NoPanic.pure _)
      · exact (trav_noPanic c re hok v _ st).bind (fun rv =>
          (travKVs_noPanic c re hok rest fm rv.2).bind (fun _ => NoPanic.pure _))
  theorem travArr_noPanic (c : Cfg) (re : Oracle) (hok : LoopOk re 0 c.masks) :
      ∀ (xs : List JTree) (i : Nat) (fm : Option FMNode) (st : St), NoPanic (travArr fixedImpl c re xs i fm st)
    | [], _, _, _ => by simp only [travArr]; exact NoPanic.pure _
    | x :: rest, i, fm, st => by
      simp only [travArr]
      exact (trav_noPanic c re hok x _ st).bind (fun rv =>
        (travArr_noPanic c re hok rest (i + 1) fm rv.2).bind (fun _ => NoPanic.pure _))
end

theorem doNode_noPanic (c : Cfg) (re : Oracle) (hok : LoopOk re 0 c.masks) (root v : JTree)
    (fm : Option FMNode) (wr : JTree → JTree → JTree) (st : St) :
    NoPanic (doNode fixedImpl c re root v fm wr st) := by
  unfold doNode
  split
  · exact (processMask_noPanic c re hok _ fm _).bind (fun _ => NoPanic.pure _)
  · exact (processMask_noPanic c re hok _ fm _).bind (fun _ => NoPanic.pure _)
  · exact (trav_noPanic c re hok _ fm _).bind (fun _ => NoPanic.pure _)

theorem rootLoop_noPanic (c : Cfg) (re : Oracle) (hok : LoopOk re 0 c.masks) (fm : Option FMNode) :
    ∀ (n i : Nat) (root : JTree) (st : St), NoPanic (rootLoop fixedImpl c re fm n i root st)
  | 0, _, _, _ => by simp only [rootLoop]; exact NoPanic.pure _
  | n + 1, i, root, st => by
    simp only [rootLoop]
    split
    · split
      · exact NoPanic.pure _
      · split
        · exact rootLoop_noPanic c re hok fm n (i + 1) _ st
        · exact (doNode_noPanic c re hok _ _ _ _ _).bind (fun r => rootLoop_noPanic c re hok fm n (i + 1) r.1 r.2)
    · exact NoPanic.pure _

theorem pathLoop_noPanic (c : Cfg) (re : Oracle) (hok : LoopOk re 0 c.masks) :
    ∀ (ps : List (List Bytes)) (root : JTree) (st : St), NoPanic (pathLoop fixedImpl c re ps root st)
  | [], _, _ => by simp only [pathLoop]; exact NoPanic.pure _
  | p :: ps, root, st => by
    simp only [pathLoop]
    split
    · exact pathLoop_noPanic c re hok ps root st
    · exact (doNode_noPanic c re hok _ _ _ _ _).bind (fun r => pathLoop_noPanic c re hok ps r.1 r.2)

/-- `Do` of the repaired plugin never panics, whatever the event and whatever well-shaped
    answers the regexp library gives -/
theorem doEvent_noPanic (c : Cfg) (re : Oracle) (hok : LoopOk re 0 c.masks) (root : JTree) :
    NoPanic (doEvent fixedImpl c re root) := by
  unfold doEvent
  refine NoPanic.bind ?_ (fun _ => NoPanic.pure _)
  unfold traverseRoot
  split
  · exact pathLoop_noPanic c re hok _ _ _
  · split
    · exact rootLoop_noPanic c re hok _ _ _ _ _
    · exact doNode_noPanic c re hok _ _ _ _ _


/-! ### witnesses used by the counterexample theorems of Props/C17.lean -/

def wSecret : Bytes := [115, 101, 99, 114, 101, 116]

/-- masks [`(secret)` cut, `(z)`] and the library's answers on the values they can see -/
def wCutCfg : Cfg := { masks := [{ groups := [1], mode := .cut }, { groups := [1] }] }
def wCutRe : Oracle := fun i v => if i = 0 ∧ v = wSecret then some [[0, 6, 0, 6]] else some []

theorem wCutRe_ok : LoopOk wCutRe 0 wCutCfg.masks := by
  refine ⟨?_, ?_, trivial⟩ <;> intro v idx h <;> refine ⟨1, by decide, ?_⟩
  · unfold wCutRe at h
    split at h
    · rename_i hc; cases h; rw [hc.2]; decide
    · cases h; rfl
  · unfold wCutRe at h
    simp at h
    subst h; rfl

theorem fmAt_nil (c : Cfg) : fmAt c [] = c.fmRoot := by
  unfold fmAt; cases c.fmRoot <;> rfl

def ka : Bytes := [97]
def kb : Bytes := [98]
def kc : Bytes := [99]

/-- mask 0 `(secret)` with process_fields [a], mask 1 `(z)` with process_fields [a.b];
    event {"a":{"b":"k","c":"secret"}} -/
def wListCfg : Cfg :=
  { masks := [{ groups := [1], fkind := 2, paths := [[ka]] }, { groups := [1], fkind := 2, paths := [[ka, kb]] }] }
def wListEvent : JTree := .obj [(ka, .obj [(kb, .str [107]), (kc, .str wSecret)])]

theorem wList_ok : LoopOk wCutRe 0 wListCfg.masks := wCutRe_ok



/-! ### `Do` without per-mask `applied_field`s: the root loop is traverseTree on the root -/

/-- no mask writes an `applied_field` -/
def NoMarks (c : Cfg) : Prop := ∀ m ∈ c.masks, m.appliedField = []

theorem maskStep_effs (impl : Impl) (c : Cfg) (re : Oracle) (value : Bytes) (fm : Option FMNode) (i : Nat)
    (m : MaskCfg) (hm : m.appliedField = []) (s s' : PM) (h : maskStep impl c re value fm i m s = .ok s') :
    s'.effs = s.effs := by
  unfold maskStep at h
  simp only [hm, List.isEmpty_nil, ↓reduceIte] at h
  split at h
  · cases h; rfl
  · split at h
    · cases h; rfl
    · split at h
      · split at h
        · cases h
        · rename_i idx _
          cases hr : liftGo (impl.maskValue m idx (if impl.needCopy s.src s.copied = true then value else s.src) s.maskBuf) with
          | error e => rw [hr] at h; cases h
          | ok r =>
            rw [hr] at h
            simp only [bind, Except.bind] at h
            split at h <;> (cases h; rfl)
      · cases h; rfl

theorem maskLoop_effs (impl : Impl) (c : Cfg) (re : Oracle) (value : Bytes) (fm : Option FMNode) :
    ∀ (ms : List MaskCfg) (i : Nat) (s s' : PM), (∀ m ∈ ms, m.appliedField = []) →
    maskLoop impl c re value fm i ms s = .ok s' → s'.effs = s.effs
  | [], _, s, s', _, h => by cases h; rfl
  | m :: ms, i, s, s', hm, h => by
    unfold maskLoop at h
    cases h1 : maskStep impl c re value fm i m s with
    | error e => rw [h1] at h; cases h
    | ok s1 =>
      rw [h1] at h
      have e1 := maskStep_effs impl c re value fm i m (hm m List.mem_cons_self) s s1 h1
      have e2 := maskLoop_effs impl c re value fm ms (i + 1) s1 s' (fun m' h' => hm m' (List.mem_cons_of_mem _ h')) h
      rw [e2, e1]

theorem processMask_effs (impl : Impl) (c : Cfg) (re : Oracle) (hn : NoMarks c) (v : Bytes) (fm : Option FMNode)
    (st : St) (r : Option Bytes × St) (h : processMask impl c re v fm st = .ok r) : r.2.effs = st.effs := by
  unfold processMask at h
  split at h
  · cases h; rfl
  · cases h1 : maskLoop impl c re v fm 0 c.masks { effs := st.effs, counts := st.counts } with
    | error e => rw [h1] at h; cases h
    | ok s =>
      rw [h1] at h
      cases h
      exact maskLoop_effs impl c re v fm c.masks 0 _ s hn h1



mutual
  theorem trav_effs (impl : Impl) (c : Cfg) (re : Oracle) (hn : NoMarks c) :
      ∀ (t : JTree) (fm : Option FMNode) (st : St) (r : JTree × St),
      trav impl c re t fm st = .ok r → r.2.effs = st.effs
    | .str s, fm, st, r, h => by
      simp only [trav, bind, Except.bind] at h
      cases h1 : processMask impl c re s fm st with
      | error e => rw [h1] at h; cases h
      | ok r1 => rw [h1] at h; cases h; exact processMask_effs impl c re hn s fm st r1 h1
    | .num s, fm, st, r, h => by
      simp only [trav, bind, Except.bind] at h
      cases h1 : processMask impl c re s fm st with
      | error e => rw [h1] at h; cases h
      | ok r1 => rw [h1] at h; cases h; exact processMask_effs impl c re hn s fm st r1 h1
    | .obj kvs, fm, st, r, h => by
      simp only [trav, bind, Except.bind] at h
      cases h1 : travKVs impl c re kvs fm st with
      | error e => rw [h1] at h; cases h
      | ok r1 => rw [h1] at h; cases h; exact travKVs_effs impl c re hn kvs fm st r1 h1
    | .arr xs, fm, st, r, h => by
      simp only [trav, bind, Except.bind] at h
      cases h1 : travArr impl c re xs 0 fm st with
      | error e => rw [h1] at h; cases h
      | ok r1 => rw [h1] at h; cases h; exact travArr_effs impl c re hn xs 0 fm st r1 h1
    | .null, _, st, r, h => by simp [trav, pure, Except.pure] at h; rw [← h]
    | .bool _, _, st, r, h => by simp [trav, pure, Except.pure] at h; rw [← h]
  theorem travKVs_effs (impl : Impl) (c : Cfg) (re : Oracle) (hn : NoMarks c) :
      ∀ (kvs : List (Bytes × JTree)) (fm : Option FMNode) (st : St) (r : List (Bytes × JTree) × St),
      travKVs impl c re kvs fm st = .ok r → r.2.effs = st.effs
    | [], _, st, r, h => by simp [travKVs, pure, Except.pure] at h; rw [← h]
    | (k, v) :: rest, fm, st, r, h => by
      simp only [travKVs] at h
      split at h
      · simp only [bind, Except.bind] at h
        cases h1 : travKVs impl c re rest fm st with
        | error e => rw [h1] at h; cases h
        | ok r1 => rw [h1] at h; cases h; exact travKVs_effs impl c re hn rest fm st r1 h1
      · simp only [bind, Except.bind] at h
        rename_i next _
        cases h1 : trav impl c re v next st with
        | error e => rw [h1] at h; cases h
        | ok rv =>
          rw [h1] at h
          simp only at h
          cases h2 : travKVs impl c re rest fm rv.2 with
          | error e => rw [h2] at h; cases h
          | ok r1 =>
            rw [h2] at h; cases h
            rw [travKVs_effs impl c re hn rest fm rv.2 r1 h2, trav_effs impl c re hn v next st rv h1]
  theorem travArr_effs (impl : Impl) (c : Cfg) (re : Oracle) (hn : NoMarks c) :
      ∀ (xs : List JTree) (i : Nat) (fm : Option FMNode) (st : St) (r : List JTree × St),
      travArr impl c re xs i fm st = .ok r → r.2.effs = st.effs
    | [], _, _, st, r, h => by simp [travArr, pure, Except.pure] at h; rw [← h]
    | x :: rest, i, fm, st, r, h => by
      simp only [travArr, bind, Except.bind] at h
      cases h1 : trav impl c re x (elemNext impl fm i) st with
      | error e => rw [h1] at h; cases h
      | ok rv =>
        rw [h1] at h
        simp only at h
        cases h2 : travArr impl c re rest (i + 1) fm rv.2 with
        | error e => rw [h2] at h; cases h
        | ok r1 =>
          rw [h2] at h; cases h
          rw [travArr_effs impl c re hn rest (i + 1) fm rv.2 r1 h2, trav_effs impl c re hn x _ st rv h1]
end



/-- map over the ok value -/
def mapOk {α β} (f : α → β) : M α → M β
  | .ok a => .ok (f a)
  | .error e => .error e

theorem st_eta (st : St) (h : st.effs = []) : { st with effs := [] } = st := by
  cases st; simp_all

/-- without marks, handling one node of the root is traverseTree on it plus the write-back -/
theorem doNode_eq (impl : Impl) (c : Cfg) (re : Oracle) (hn : NoMarks c) (root v : JTree)
    (fm : Option FMNode) (wr : JTree → JTree → JTree) (st : St) (he : st.effs = []) (hw : wr root v = root) :
    doNode impl c re root v fm wr st = mapOk (fun r => (wr root r.1, r.2)) (trav impl c re v fm st) := by
  cases v with
  | str s =>
    simp only [doNode, trav, st_eta st he, bind, Except.bind]
    cases h1 : processMask impl c re s fm st with
    | error e => rfl
    | ok r =>
      have e1 := processMask_effs impl c re hn s fm st r h1
      rw [he] at e1
      simp only [mapOk, e1, applyEffs, pure, Except.pure, st_eta r.2 e1]
      cases r.1 <;> simp [hw]
  | num s =>
    simp only [doNode, trav, st_eta st he, bind, Except.bind]
    cases h1 : processMask impl c re s fm st with
    | error e => rfl
    | ok r =>
      have e1 := processMask_effs impl c re hn s fm st r h1
      rw [he] at e1
      simp only [mapOk, e1, applyEffs, pure, Except.pure, st_eta r.2 e1]
      cases r.1 <;> simp [hw]
  | obj kvs =>
    simp only [doNode, st_eta st he, bind, Except.bind]
    cases h1 : trav impl c re (.obj kvs) fm st with
    | error e => rfl
    | ok r =>
      have e1 := trav_effs impl c re hn _ fm st r h1
      rw [he] at e1
      simp only [mapOk, e1, applyEffs, pure, Except.pure, st_eta r.2 e1]
  | arr xs =>
    simp only [doNode, st_eta st he, bind, Except.bind]
    cases h1 : trav impl c re (.arr xs) fm st with
    | error e => rfl
    | ok r =>
      have e1 := trav_effs impl c re hn _ fm st r h1
      rw [he] at e1
      simp only [mapOk, e1, applyEffs, pure, Except.pure, st_eta r.2 e1]
  | null =>
    simp only [doNode, st_eta st he, bind, Except.bind]
    cases h1 : trav impl c re .null fm st with
    | error e => rfl
    | ok r =>
      have e1 := trav_effs impl c re hn _ fm st r h1
      rw [he] at e1
      simp only [mapOk, e1, applyEffs, pure, Except.pure, st_eta r.2 e1]
  | bool b =>
    simp only [doNode, st_eta st he, bind, Except.bind]
    cases h1 : trav impl c re (.bool b) fm st with
    | error e => rfl
    | ok r =>
      have e1 := trav_effs impl c re hn _ fm st r h1
      rw [he] at e1
      simp only [mapOk, e1, applyEffs, pure, Except.pure, st_eta r.2 e1]

theorem setIdxKV_append (done : List (Bytes × JTree)) (k : Bytes) (v v' : JTree) (rest : List (Bytes × JTree)) :
    setIdxKV done.length v' (done ++ (k, v) :: rest) = done ++ (k, v') :: rest := by
  induction done with
  | nil => rfl
  | cons d ds ih => obtain ⟨dk, dv⟩ := d; simp [setIdxKV, ih]

/-- without marks the loop over the root's fields is `travKVs` on them -/
theorem rootLoop_eq (impl : Impl) (c : Cfg) (re : Oracle) (hn : NoMarks c) (fm : Option FMNode) :
    ∀ (todo done : List (Bytes × JTree)) (st : St), st.effs = [] →
    rootLoop impl c re fm todo.length done.length (.obj (done ++ todo)) st
      = mapOk (fun r => (JTree.obj (done ++ r.1), r.2)) (travKVs impl c re todo fm st)
  | [], done, st, _ => by simp [rootLoop, travKVs, mapOk, pure, Except.pure]
  | (k, v) :: rest, done, st, he => by
    have hget : (done ++ (k, v) :: rest)[done.length]? = some (k, v) := by simp
    simp only [List.length_cons, rootLoop, hget, travKVs]
    cases hf : fieldNext impl c fm k with
    | none =>
      simp only
      have ih := rootLoop_eq impl c re hn fm rest (done ++ [(k, v)]) st he
      simp only [List.length_append, List.length_cons, List.length_nil, List.append_assoc, List.cons_append,
        List.nil_append, Nat.zero_add] at ih
      rw [ih]
      cases travKVs impl c re rest fm st with
      | error e => rfl
      | ok r => simp [mapOk, bind, Except.bind, pure, Except.pure]
    | some next =>
      simp only
      have hw : setRootIdx done.length (.obj (done ++ (k, v) :: rest)) v = .obj (done ++ (k, v) :: rest) := by
        simp [setRootIdx, setIdxKV_append]
      rw [doNode_eq impl c re hn _ v next _ st he hw]
      cases h1 : trav impl c re v next st with
      | error e => simp [mapOk, bind, Except.bind]
      | ok rv =>
        have e1 := trav_effs impl c re hn v next st rv h1
        rw [he] at e1
        simp only [mapOk, bind, Except.bind, setRootIdx, setIdxKV_append]
        have ih := rootLoop_eq impl c re hn fm rest (done ++ [(k, rv.1)]) rv.2 e1
        simp only [List.length_append, List.length_cons, List.length_nil, List.append_assoc, List.cons_append,
          List.nil_append, Nat.zero_add] at ih
        rw [ih]
        cases travKVs impl c re rest fm rv.2 with
        | error e => rfl
        | ok r => simp [mapOk, pure, Except.pure]

/-- **`Do` (repaired) on an object event, general path, no per-mask `applied_field`**: the spec's
    event, then the plugin's mark and the metrics -/
theorem doEvent_eq (c : Cfg) (re : Oracle) (hok : LoopOk re 0 c.masks) (hn : NoMarks c)
    (hfast : (c.hasGlobalProcess && !c.hasMaskSpecific) = false) (kvs : List (Bytes × JTree)) :
    doEvent fixedImpl c re (.obj kvs) =
      match specTree c re [] (.obj kvs) with
      | none => .error .oracleMiss
      | some (t', ap) => .ok (finish c (t', addAp { counts := c.masks.map (fun _ => 0) } ap)) := by
  have h1 := rootLoop_eq fixedImpl c re hn c.fmRoot kvs [] { counts := c.masks.map (fun _ => 0) } rfl
  simp only [List.length_nil, List.nil_append] at h1
  have h2 := travKVs_eq c re hok kvs [] { counts := c.masks.map (fun _ => 0) }
  rw [fmAt_nil] at h2
  unfold doEvent traverseRoot
  simp only [hfast, Bool.false_eq_true, ↓reduceIte, h1, h2, specTree]
  cases specKVs c re [] kvs with
  | none => rfl
  | some r => rfl


end FileD.MaskLemmas
