/-
  Helper lemmas for C14 (do_if): byte-string primitives, the minValLen / maxValLen / bucket
  short-cuts of the field op node, the per-leaf equalities with the naive evaluator.
-/
import FileD.Model.DoIf
import FileD.Spec.C14
namespace FileD.DoIf
open FileD FileD.SpecC14

/-! ## byte strings -/

theorem bytesOf_length (x : Option Bytes) : (bytesOf x).length = blen x := by
  cases x <;> rfl

theorem blen_map (g : Bytes → Bytes) (x : Option Bytes) :
    blen (x.map g) = (g (bytesOf x)).length ∨ x = none := by
  cases x <;> simp [blen, bytesOf]

theorem hasPrefix_iff {d v : Bytes} : hasPrefix d v = true ↔ v <+: d := by
  simp [hasPrefix, List.isPrefixOf_iff_prefix]

theorem hasSuffix_iff {d v : Bytes} : hasSuffix d v = true ↔ v <:+ d := by
  simp [hasSuffix, List.isSuffixOf_iff_suffix]

theorem hasPrefix_length {d v : Bytes} (h : hasPrefix d v = true) : v.length ≤ d.length :=
  (hasPrefix_iff.1 h).length_le

theorem hasSuffix_length {d v : Bytes} (h : hasSuffix d v = true) : v.length ≤ d.length :=
  (hasSuffix_iff.1 h).length_le

theorem containsB_length {d v : Bytes} (h : containsB d v = true) : v.length ≤ d.length := by
  induction d with
  | nil =>
    simp only [containsB] at h
    have := (List.isPrefixOf_iff_prefix.1 h).length_le
    simpa using this
  | cons x xs ih =>
    simp only [containsB, Bool.or_eq_true] at h
    cases h with
    | inl h => exact (List.isPrefixOf_iff_prefix.1 h).length_le
    | inr h => have := ih h; simp; omega

/-- comparing with the first `m` bytes is enough for a prefix of at most `m` bytes -/
theorem hasPrefix_take {d v : Bytes} {m : Nat} (h : v.length ≤ m) :
    hasPrefix (d.take m) v = hasPrefix d v := by
  rw [Bool.eq_iff_iff, hasPrefix_iff, hasPrefix_iff, List.prefix_take_iff]
  exact ⟨fun h' => h'.1, fun h' => ⟨h', h⟩⟩

/-- comparing with the last `m` bytes is enough for a suffix of at most `m` bytes -/
theorem hasSuffix_drop {d v : Bytes} {m : Nat} (h : v.length ≤ m) :
    hasSuffix (d.drop (d.length - m)) v = hasSuffix d v := by
  rw [Bool.eq_iff_iff, hasSuffix_iff, hasSuffix_iff]
  constructor
  · intro h'; exact h'.trans (List.drop_suffix _ _)
  · intro ⟨t, ht⟩
    subst ht
    have hk : (t ++ v).length - m ≤ t.length := by simp; omega
    rw [List.drop_append_of_le_length hk]
    exact ⟨_, rfl⟩

theorem eqStep_eq (a b : Option Bytes) : eqStep a b = decide (b = a) := by
  cases a <;> cases b <;> simp [eqStep, eq_comm]
  rename_i x y
  by_cases h : x = y <;> simp [h]

/-! ## minValLen / maxValLen -/

theorem foldl_min_le (vs : List (Option Bytes)) (init : Nat) :
    vs.foldl (fun m x => if blen x < m then blen x else m) init ≤ init ∧
    ∀ x ∈ vs, vs.foldl (fun m x => if blen x < m then blen x else m) init ≤ blen x := by
  induction vs generalizing init with
  | nil => simp
  | cons v vs ih =>
    simp only [List.foldl_cons, List.mem_cons]
    have hq : (if blen v < init then blen v else init) ≤ init ∧
        (if blen v < init then blen v else init) ≤ blen v := by split <;> omega
    generalize (if blen v < init then blen v else init) = q at hq ⊢
    have h := ih q
    refine ⟨by omega, ?_⟩
    intro x hx
    cases hx with
    | inl hx => subst hx; omega
    | inr hx => exact h.2 x hx

theorem minValLen_le {vals : List (Option Bytes)} {x : Option Bytes} (hx : x ∈ vals) :
    minValLen vals ≤ blen x := by
  cases vals with
  | nil => simp at hx
  | cons v vs =>
    simp only [minValLen]
    have h := foldl_min_le vs (blen v)
    cases List.mem_cons.1 hx with
    | inl hx => subst hx; exact h.1
    | inr hx => exact h.2 x hx

theorem foldl_max_ge (vs : List (Option Bytes)) (init : Nat) :
    init ≤ vs.foldl (fun m x => if blen x > m then blen x else m) init ∧
    ∀ x ∈ vs, blen x ≤ vs.foldl (fun m x => if blen x > m then blen x else m) init := by
  induction vs generalizing init with
  | nil => simp
  | cons v vs ih =>
    simp only [List.foldl_cons, List.mem_cons]
    have hq : init ≤ (if blen v > init then blen v else init) ∧
        blen v ≤ (if blen v > init then blen v else init) := by split <;> omega
    generalize (if blen v > init then blen v else init) = q at hq ⊢
    have h := ih q
    refine ⟨by omega, ?_⟩
    intro x hx
    cases hx with
    | inl hx => subst hx; omega
    | inr hx => exact h.2 x hx

theorem le_maxValLen {vals : List (Option Bytes)} {x : Option Bytes} (hx : x ∈ vals) :
    blen x ≤ maxValLen vals := by
  cases vals with
  | nil => simp at hx
  | cons v vs =>
    simp only [maxValLen]
    have h := foldl_max_ge vs (blen v)
    cases List.mem_cons.1 hx with
    | inl hx => subst hx; exact h.1
    | inr hx => exact h.2 x hx

/-! ## the lower-casing oracle -/

/-- the lower-casing oracle behaves on `b` like a byte-wise map: it keeps the length and
    commutes with cutting a prefix or a suffix (true of bytes.ToLower on ASCII input) -/
structure LowerRegular (lower : Bytes → Bytes) (b : Bytes) : Prop where
  len : (lower b).length = b.length
  take : ∀ n, lower (b.take n) = (lower b).take n
  drop : ∀ n, lower (b.drop n) = (lower b).drop n

/-- a byte-wise map (what bytes.ToLower is on ASCII input) is regular on every input -/
theorem lowerRegular_of_map (g : UInt8 → UInt8) (b : Bytes) : LowerRegular (fun x => x.map g) b :=
  ⟨by simp, fun n => by simp [List.map_take], fun n => by simp [List.map_drop]⟩

/-- hypothesis of the partial theorem for one field leaf and the data `d` it looks at:
    case-sensitive, or lower-casing keeps the length of every configured value and is regular
    on the field's bytes -/
def LowerOK (o : Oracle) (f : FieldOp) (d : Option Bytes) : Prop :=
  f.cs = true ∨
  ((∀ b, some b ∈ f.values → (o.lower b).length = b.length) ∧ LowerRegular o.lower (bytesOf d))

structure LowFacts (L : Bytes → Bytes) (vals : List (Option Bytes)) (db : Bytes) : Prop where
  vlen : ∀ v ∈ vals, blen (v.map L) = blen v
  dlen : (L db).length = db.length
  take : ∀ n, L (db.take n) = (L db).take n
  drop : ∀ n, L (db.drop n) = (L db).drop n

theorem lowFacts_of_ok {o : Oracle} {f : FieldOp} {d : Option Bytes} (h : LowerOK o f d) :
    LowFacts (lowIf f.cs o.lower) f.values (bytesOf d) := by
  have htrue : f.cs = true → LowFacts (lowIf f.cs o.lower) f.values (bytesOf d) := by
    intro hcs
    have hL : lowIf f.cs o.lower = fun b => b := by funext b; simp [lowIf, hcs]
    rw [hL]
    exact ⟨fun v _ => by cases v <;> simp [blen], rfl, fun _ => rfl, fun _ => rfl⟩
  cases h with
  | inl hcs => exact htrue hcs
  | inr h =>
    cases hcs : f.cs with
    | true => rw [← hcs]; exact htrue hcs
    | false =>
      have hL : lowIf false o.lower = o.lower := by funext b; simp [lowIf]
      rw [hL]
      refine ⟨?_, h.2.len, h.2.take, h.2.drop⟩
      intro v hv
      cases v with
      | none => rfl
      | some b => simpa [blen] using h.1 b hv

theorem blen_map_data {L : Bytes → Bytes} {vals : List (Option Bytes)} {d : Option Bytes}
    (h : LowFacts L vals (bytesOf d)) : blen (d.map L) = blen d := by
  cases d with
  | none => rfl
  | some b => simpa [blen, bytesOf] using h.dlen

/-! ## field leaf: as coded = documented -/

theorem match_list_any {α} (l : List α) (q : α → Bool) :
    (match l with | [] => false | l' => l'.any q) = l.any q := by
  cases l <;> simp

theorem bucket_cases (o : Oracle) (f : FieldOp) (n : Nat) :
    (bucket o f n = none ∧ (storedVals o f).filter (fun v => blen v == n) = []) ∨
    (∃ l, bucket o f n = some l ∧ (storedVals o f).filter (fun v => blen v == n) = l) := by
  unfold bucket
  cases h : (storedVals o f).filter (fun v => blen v == n) <;> simp

theorem bucket_match_any (o : Oracle) (f : FieldOp) (n : Nat) (q : Option Bytes → Bool) :
    anyInBucket (bucket o f n) q = ((storedVals o f).filter (fun v => blen v == n)).any q := by
  rcases bucket_cases o f n with ⟨hb, hf⟩ | ⟨l, hb, hf⟩ <;> rw [hb, hf] <;> rfl

theorem any_congr_mem {α} {l : List α} {p q : α → Bool} (h : ∀ a ∈ l, p a = q a) :
    l.any p = l.any q := by
  induction l with
  | nil => rfl
  | cons x xs ih =>
    simp only [List.any_cons]
    rw [h x (by simp), ih (fun a ha => h a (by simp [ha]))]

section leaf
variable {o : Oracle} {f : FieldOp} {d : Option Bytes}

/-- early exit: no value can match data shorter than the shortest value -/
theorem short_no_match (h : LowFacts (lowIf f.cs o.lower) f.values (bytesOf d))
    (hs : blen d < minValLen f.values) (v : Option Bytes) (hv : v ∈ f.values)
    (hlen : blen (v.map (lowIf f.cs o.lower)) ≤ blen d) : False := by
  have h1 := h.vlen v hv
  have h2 := minValLen_le hv
  omega

theorem equal_eq (h : LowFacts (lowIf f.cs o.lower) f.values (bytesOf d)) (hop : f.op = .equal) :
    fieldCheck o f d = specFieldVal o f d := by
  have hd := blen_map_data h
  simp only [fieldCheck, specFieldVal, hop]
  have hspec : ∀ v ∈ f.values, decide (v.map (lowIf f.cs o.lower) = d.map (lowIf f.cs o.lower)) = true →
      blen (v.map (lowIf f.cs o.lower)) = blen d := by
    intro v _ hv
    rw [of_decide_eq_true hv, hd]
  split
  · rename_i hc
    have hs := hc.2.2
    symm
    rw [List.any_eq_false]
    intro v hv hq
    exact short_no_match h hs v hv (by rw [hspec v hv hq]; exact Nat.le_refl _)
  · have hfa : ((storedVals o f).filter (fun v => blen v == blen d)).any
          (fun v => eqStep (d.map (lowIf f.cs o.lower)) v) =
        f.values.any (fun v => decide (v.map (lowIf f.cs o.lower) = d.map (lowIf f.cs o.lower))) := by
      rw [List.any_filter, storedVals, List.any_map]
      apply any_congr_mem
      intro v hv
      simp only [Function.comp, eqStep_eq]
      cases hq : decide (v.map (lowIf f.cs o.lower) = d.map (lowIf f.cs o.lower))
      · simp
      · simp [hspec v hv hq]
    rw [bucket_match_any, hfa]

theorem contains_eq (h : LowFacts (lowIf f.cs o.lower) f.values (bytesOf d)) (hop : f.op = .contains) :
    fieldCheck o f d = specFieldVal o f d := by
  simp only [fieldCheck, specFieldVal, hop]
  split
  · rename_i hc
    have hs := hc.2.2
    symm
    rw [List.any_eq_false]
    intro v hv hq
    have := containsB_length (by simpa using hq)
    rw [bytesOf_length, h.dlen, bytesOf_length] at this
    exact short_no_match h hs v hv this
  · rw [storedVals, List.any_map]; rfl

theorem prefix_eq (h : LowFacts (lowIf f.cs o.lower) f.values (bytesOf d)) (hop : f.op = .prefix) :
    fieldCheck o f d = specFieldVal o f d := by
  simp only [fieldCheck, specFieldVal, hop]
  split
  · rename_i hc
    have hs := hc.2.2
    symm
    rw [List.any_eq_false]
    intro v hv hq
    have := hasPrefix_length (by simpa using hq)
    rw [bytesOf_length, h.dlen, bytesOf_length] at this
    exact short_no_match h hs v hv this
  · rw [storedVals, List.any_map]
    apply any_congr_mem
    intro v hv
    simp only [Function.comp]
    have hvl : (bytesOf (v.map (lowIf f.cs o.lower))).length ≤ maxValLen f.values := by
      rw [bytesOf_length, h.vlen v hv]; exact le_maxValLen hv
    split
    · rw [h.take, hasPrefix_take hvl]
    · rfl

theorem suffix_eq (h : LowFacts (lowIf f.cs o.lower) f.values (bytesOf d)) (hop : f.op = .suffix) :
    fieldCheck o f d = specFieldVal o f d := by
  simp only [fieldCheck, specFieldVal, hop]
  split
  · rename_i hc
    have hs := hc.2.2
    symm
    rw [List.any_eq_false]
    intro v hv hq
    have := hasSuffix_length (by simpa using hq)
    rw [bytesOf_length, h.dlen, bytesOf_length] at this
    exact short_no_match h hs v hv this
  · rw [storedVals, List.any_map]
    apply any_congr_mem
    intro v hv
    simp only [Function.comp]
    have hvl : (bytesOf (v.map (lowIf f.cs o.lower))).length ≤ maxValLen f.values := by
      rw [bytesOf_length, h.vlen v hv]; exact le_maxValLen hv
    split
    · rw [h.drop, ← bytesOf_length d, ← h.dlen, hasSuffix_drop hvl]
    · rfl

theorem containsAny_eq (hop : f.op = .containsAny) : fieldCheck o f d = specFieldVal o f d := by
  simp only [fieldCheck, specFieldVal, hop, storedVals]
  cases f.values <;> simp

theorem regex_eq (hop : f.op = .regex) : fieldCheck o f d = specFieldVal o f d := by
  simp [fieldCheck, specFieldVal, hop]

/-- a field leaf as coded (minimum-length exit, length buckets, truncate-then-lower) gives the
    documented answer when the lower-casing oracle is regular on what the leaf looks at -/
theorem fieldCheck_eq_specFieldVal (h : LowerOK o f d) : fieldCheck o f d = specFieldVal o f d := by
  have hf := lowFacts_of_ok h
  cases hop : f.op
  · exact equal_eq hf hop
  · exact contains_eq hf hop
  · exact containsAny_eq hop
  · exact prefix_eq hf hop
  · exact suffix_eq hf hop
  · exact regex_eq hop

end leaf

/-! ## the other leaves -/

mutual
  theorem bytesSize_eq_encLen : ∀ t : JTree, hasEsc t = false → bytesSize t = encLen t
    | .arr xs, h => by
      simp only [bytesSize, encLen, sizeList_eq xs (by simpa [hasEsc] using h), lenContainer, commas]
      split <;> split <;> omega
    | .obj kvs, h => by
      simp only [bytesSize, encLen, sizeFields_eq kvs (by simpa [hasEsc] using h), lenContainer, commas]
      split <;> split <;> omega
    | .str _, _ => by simp [bytesSize, encLen]
    | .null, _ => by simp [bytesSize, encLen]
    | .bool true, _ => by simp [bytesSize, encLen]
    | .bool false, _ => by simp [bytesSize, encLen]
    | .num _, _ => by simp [bytesSize, encLen]
  theorem sizeList_eq : ∀ xs : List JTree, hasEscList xs = false → sizeList xs = encLenList xs
    | [], _ => by simp [sizeList, encLenList]
    | x :: xs, h => by
      have h' : hasEsc x = false ∧ hasEscList xs = false := by simpa [hasEscList] using h
      simp [sizeList, encLenList, bytesSize_eq_encLen x h'.1, sizeList_eq xs h'.2]
  theorem sizeFields_eq : ∀ kvs : List (Bytes × JTree), hasEscFields kvs = false →
      sizeFields kvs = encLenFields kvs
    | [], _ => by simp [sizeFields, encLenFields]
    | (k, v) :: kvs, h => by
      have h' : (escLen k = k.length ∧ hasEsc v = false) ∧ hasEscFields kvs = false := by
        simpa [hasEscFields] using h
      simp only [sizeFields, encLenFields, bytesSize_eq_encLen v h'.1.2, sizeFields_eq kvs h'.2, h'.1.1]; omega
end

/-- hypothesis for a byte_len_cmp leaf: the measured value holds no string or key with JSON
    escapes (`getNodeBytesSize` counts field names unescaped; its own comments say so) -/
def LenOK (l : LenCmp) (ev : JTree) : Prop :=
  l.kind = .byte → ∀ t, dig ev l.path = some t → hasEsc t = false

theorem lenCheck_eq_specLen (o : Oracle) (l : LenCmp) (ev : JTree) (hok : LenOK l ev) :
    lenCheck o l ev = specLen o l ev := by
  unfold lenCheck specLen
  cases hk : l.kind <;> simp only
  · cases hd : dig ev l.path with
    | none => rfl
    | some t =>
      have he := hok hk t hd
      cases t <;> simp [JTree.isObj, JTree.isArr, bytesSize_eq_encLen _ he]
  · cases hd : dig ev l.path with
    | none => rfl
    | some t => cases t <;> rfl
  · cases hd : dig ev l.path with
    | none => rfl
    | some t =>
      cases t <;> simp [JTree.isNum, JTree.isStr, asString, specLen.intOk]
      all_goals
        rename_i r
        by_cases h0 : o.asInt r = 0 <;> by_cases h1 : r = [48] <;> simp [h0, h1]

theorem tsCheck_eq_specTs (o : Oracle) (now : Int) (t : TsCmp) (ev : JTree) :
    tsCheck o now t ev = specTs o now t ev := by
  unfold tsCheck specTs
  cases hd : dig ev t.path with
  | none => rfl
  | some n =>
    cases n <;> try rfl
    simp only
    cases o.parseTime t.format _ with
    | none => rfl
    | some lhs => cases t.mode <;> rfl

/-- de-duplicating the listed types (names and aliases) does not change which nodes are accepted -/
theorem buildFns_any (n : Option JTree) (vs : List Bytes) (used : List TKind) :
    ((buildFns vs used).any (fun k => kindFn k n) || used.any (fun k => kindFn k n)) =
    (vs.any (fun v => typeFn v n) || used.any (fun k => kindFn k n)) := by
  induction vs generalizing used with
  | nil => simp [buildFns]
  | cons v vs ih =>
    simp only [buildFns, List.any_cons]
    cases hk : kindOf? v with
    | none =>
      have hv : typeFn v n = false := by simp [typeFn, hk]
      simp only [hv, Bool.false_or]; exact ih used
    | some k =>
      have hv : typeFn v n = kindFn k n := by simp [typeFn, hk]
      simp only [hv]
      by_cases hu : used.contains k = true
      · simp only [hu, if_true]
        rw [ih used]
        cases hkn : kindFn k n
        · simp
        · have hany : used.any (fun k => kindFn k n) = true :=
            List.any_eq_true.2 ⟨k, by simpa using hu, hkn⟩
          simp [hany]
      · have hu' : used.contains k = false := by simpa using hu
        simp only [hu', Bool.false_eq_true, if_false]
        have := ih (k :: used)
        simp only [List.any_cons] at this ⊢
        cases hkn : kindFn k n
        · simpa [hkn] using this
        · simp

theorem typeCheck_eq_specType (c : TypeCheck) (ev : JTree) : typeCheck c ev = specType c ev := by
  have := buildFns_any (dig ev c.path) c.values []
  simpa [typeCheck, specType] using this

/-! ## the hypothesis of the partial theorem, over a whole tree -/

mutual
  /-- every field leaf of the tree looks at a scalar / null / absent value (not an array or an
      object) and satisfies `LowerOK` on it; every byte_len_cmp leaf measures a value without
      JSON escapes (`LenOK`); nothing is asked of the other nodes -/
  def TreeOK (o : Oracle) (ev : JTree) : Node → Prop
    | .field f => isContainer (dig ev f.path) = false ∧ LowerOK o f (get ev f.path)
    | .lenCmp l => LenOK l ev
    | .tsCmp _ => True
    | .checkType _ => True
    | .and ops => TreesOK o ev ops
    | .or ops => TreesOK o ev ops
    | .not ops => TreesOK o ev ops
  def TreesOK (o : Oracle) (ev : JTree) : List Node → Prop
    | [] => True
    | x :: xs => TreeOK o ev x ∧ TreesOK o ev xs
end

theorem field_eq_spec {o : Oracle} {ev : JTree} {f : FieldOp}
    (hc : isContainer (dig ev f.path) = false) (hl : LowerOK o f (get ev f.path)) :
    fieldCheck o f (get ev f.path) = specField o f (dig ev f.path) := by
  rw [specField, hc]
  exact fieldCheck_eq_specFieldVal hl

mutual
  theorem check_eq_spec_of_ok (o : Oracle) (now : Int) (ev : JTree) :
      ∀ n : Node, TreeOK o ev n → check o now ev n = spec o now ev n
    | .field f, h => by
      simp only [check, spec]; exact field_eq_spec (by simpa [TreeOK] using h.1) (by simpa [TreeOK] using h.2)
    | .lenCmp l, h => by simp only [check, spec]; exact lenCheck_eq_specLen o l ev (by simpa [TreeOK] using h)
    | .tsCmp t, _ => by simp only [check, spec]; exact tsCheck_eq_specTs o now t ev
    | .checkType c, _ => by simp only [check, spec]; exact typeCheck_eq_specType c ev
    | .and ops, h => by simp only [check, spec]; exact checkAll_eq_specAll o now ev ops (by simpa [TreeOK] using h)
    | .or ops, h => by simp only [check, spec]; exact checkAny_eq_specAny o now ev ops (by simpa [TreeOK] using h)
    | .not ops, h => by simp only [check, spec]; exact checkNot_eq_specNot o now ev ops (by simpa [TreeOK] using h)
  theorem checkAll_eq_specAll (o : Oracle) (now : Int) (ev : JTree) :
      ∀ ops : List Node, TreesOK o ev ops → checkAll o now ev ops = specAll o now ev ops
    | [], _ => by simp [checkAll, specAll]
    | x :: xs, h => by
      have h' : TreeOK o ev x ∧ TreesOK o ev xs := by simpa [TreesOK] using h
      simp only [checkAll, specAll, check_eq_spec_of_ok o now ev x h'.1, checkAll_eq_specAll o now ev xs h'.2]
      cases spec o now ev x <;> simp
  theorem checkAny_eq_specAny (o : Oracle) (now : Int) (ev : JTree) :
      ∀ ops : List Node, TreesOK o ev ops → checkAny o now ev ops = specAny o now ev ops
    | [], _ => by simp [checkAny, specAny]
    | x :: xs, h => by
      have h' : TreeOK o ev x ∧ TreesOK o ev xs := by simpa [TreesOK] using h
      simp only [checkAny, specAny, check_eq_spec_of_ok o now ev x h'.1, checkAny_eq_specAny o now ev xs h'.2]
      cases spec o now ev x <;> simp
  theorem checkNot_eq_specNot (o : Oracle) (now : Int) (ev : JTree) :
      ∀ ops : List Node, TreesOK o ev ops → checkNot o now ev ops = specNot o now ev ops
    | [], _ => by simp [checkNot, specNot]
    | x :: xs, h => by
      have h' : TreeOK o ev x ∧ TreesOK o ev xs := by simpa [TreesOK] using h
      simp only [checkNot, specNot, check_eq_spec_of_ok o now ev x h'.1]
end

/-! ## the order of the configured values does not matter -/

theorem foldl_min_attained (vs : List (Option Bytes)) (init : Nat) :
    vs.foldl (fun m x => if blen x < m then blen x else m) init = init ∨
    ∃ x ∈ vs, vs.foldl (fun m x => if blen x < m then blen x else m) init = blen x := by
  induction vs generalizing init with
  | nil => simp
  | cons v vs ih =>
    simp only [List.foldl_cons, List.mem_cons]
    rcases ih (if blen v < init then blen v else init) with h | ⟨x, hx, h⟩
    · rw [h]; split
      · exact Or.inr ⟨v, Or.inl rfl, rfl⟩
      · exact Or.inl rfl
    · exact Or.inr ⟨x, Or.inr hx, h⟩

theorem foldl_max_attained (vs : List (Option Bytes)) (init : Nat) :
    vs.foldl (fun m x => if blen x > m then blen x else m) init = init ∨
    ∃ x ∈ vs, vs.foldl (fun m x => if blen x > m then blen x else m) init = blen x := by
  induction vs generalizing init with
  | nil => simp
  | cons v vs ih =>
    simp only [List.foldl_cons, List.mem_cons]
    rcases ih (if blen v > init then blen v else init) with h | ⟨x, hx, h⟩
    · rw [h]; split
      · exact Or.inr ⟨v, Or.inl rfl, rfl⟩
      · exact Or.inl rfl
    · exact Or.inr ⟨x, Or.inr hx, h⟩

theorem minValLen_mem {vals : List (Option Bytes)} (h : vals ≠ []) : ∃ x ∈ vals, minValLen vals = blen x := by
  cases vals with
  | nil => exact absurd rfl h
  | cons v vs =>
    simp only [minValLen, List.mem_cons]
    rcases foldl_min_attained vs (blen v) with h | ⟨x, hx, h⟩
    · exact ⟨v, Or.inl rfl, h⟩
    · exact ⟨x, Or.inr hx, h⟩

theorem maxValLen_mem {vals : List (Option Bytes)} (h : vals ≠ []) : ∃ x ∈ vals, maxValLen vals = blen x := by
  cases vals with
  | nil => exact absurd rfl h
  | cons v vs =>
    simp only [maxValLen, List.mem_cons]
    rcases foldl_max_attained vs (blen v) with h | ⟨x, hx, h⟩
    · exact ⟨v, Or.inl rfl, h⟩
    · exact ⟨x, Or.inr hx, h⟩

theorem minValLen_perm {l₁ l₂ : List (Option Bytes)} (h : l₁.Perm l₂) : minValLen l₁ = minValLen l₂ := by
  by_cases h1 : l₁ = []
  · subst h1; rw [List.Perm.nil_eq h]
  · have h2 : l₂ ≠ [] := fun e => h1 (by subst e; exact List.Perm.eq_nil h)
    obtain ⟨x, hx, ex⟩ := minValLen_mem h1
    obtain ⟨y, hy, ey⟩ := minValLen_mem h2
    have a := minValLen_le (h.mem_iff.1 hx)
    have b := minValLen_le (h.mem_iff.2 hy)
    omega

theorem maxValLen_perm {l₁ l₂ : List (Option Bytes)} (h : l₁.Perm l₂) : maxValLen l₁ = maxValLen l₂ := by
  by_cases h1 : l₁ = []
  · subst h1; rw [List.Perm.nil_eq h]
  · have h2 : l₂ ≠ [] := fun e => h1 (by subst e; exact List.Perm.eq_nil h)
    obtain ⟨x, hx, ex⟩ := maxValLen_mem h1
    obtain ⟨y, hy, ey⟩ := maxValLen_mem h2
    have a := le_maxValLen (h.mem_iff.1 hx)
    have b := le_maxValLen (h.mem_iff.2 hy)
    omega

/-- `fieldCheck` sees the value list only through permutation-invariant quantities -/
theorem fieldCheck_perm (o : Oracle) (f : FieldOp) (vs : List (Option Bytes)) (d : Option Bytes)
    (hp : vs.Perm f.values) (hca : f.op = .containsAny → f.values.length ≤ 1) :
    fieldCheck o { f with values := vs } d = fieldCheck o f d := by
  obtain ⟨op, path, cs, values⟩ := f
  simp only at hp hca
  have hmin := minValLen_perm hp
  have hmax := maxValLen_perm hp
  have hst : (storedVals o ⟨op, path, cs, vs⟩).Perm (storedVals o ⟨op, path, cs, values⟩) := by
    simp only [storedVals]; exact hp.map _
  cases op
  · -- equal
    simp only [fieldCheck, hmin]
    split
    · rfl
    · rw [bucket_match_any, bucket_match_any]
      exact (hst.filter _).any_eq
  · simp only [fieldCheck, hmin]
    split
    · rfl
    · exact hst.any_eq
  · -- contains_any: at most one value, so the permutation is the identity
    have hl := hca rfl
    have : vs = values := by
      cases values with
      | nil => exact List.Perm.eq_nil hp
      | cons a t =>
        cases t with
        | nil => exact List.perm_singleton.1 hp
        | cons b t' => simp at hl
    rw [this]
  · simp only [fieldCheck, hmin, hmax]
    split
    · rfl
    · exact hst.any_eq
  · simp only [fieldCheck, hmin, hmax]
    split
    · rfl
    · exact hst.any_eq
  · simp only [fieldCheck]
    exact hp.any_eq

end FileD.DoIf
