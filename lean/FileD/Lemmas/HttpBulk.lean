/- helper lemmas for C11 (HTTP bulk model vs splitLines) -/
import FileD.Model.HttpBulk
import FileD.Model.HttpConc
import FileD.Spec.C11
namespace FileD.HttpBulk
open FileD FileD.SpecC11

/-! ### algebra of the spec -/

theorem completeLines_append (a b cur : Bytes) :
    completeLines (a ++ b) cur = completeLines a cur ++ completeLines b (tailOf a cur) := by
  induction a generalizing cur with
  | nil => simp [completeLines, tailOf]
  | cons x xs ih => by_cases hx : x = NL <;> simp [completeLines, tailOf, hx, ih]

theorem tailOf_append (a b cur : Bytes) : tailOf (a ++ b) cur = tailOf b (tailOf a cur) := by
  induction a generalizing cur with
  | nil => simp [tailOf]
  | cons x xs ih => by_cases hx : x = NL <;> simp [tailOf, hx, ih]

/-- the lines are the terminated lines plus the unterminated rest when it is not empty -/
theorem splitLines_eq (body cur : Bytes) :
    splitLines body cur
      = completeLines body cur ++ (if (tailOf body cur).length > 0 then [tailOf body cur] else []) := by
  induction body generalizing cur with
  | nil => simp [splitLines, completeLines, tailOf]
  | cons x xs ih => by_cases hx : x = NL <;> simp [splitLines, completeLines, tailOf, hx, ih]

theorem splitLines_append (a b cur : Bytes) :
    splitLines (a ++ b) cur = completeLines a cur ++ splitLines b (tailOf a cur) := by
  rw [splitLines_eq, splitLines_eq b, completeLines_append, tailOf_append, List.append_assoc]

theorem isPrefix_append (a b : List Bytes) : isPrefix a (a ++ b) = true := by
  induction a with
  | nil => simp [isPrefix]
  | cons x xs ih => simp [isPrefix, ih]

/-! ### `processChunk`, `processBulk` -/

/-- the scanning loop: `eventBuff ++ seg` is the current partial line -/
theorem chunkLoop_spec (buf segRev : Bytes) (s : St) :
    (chunkLoop segRev s buf).1.out = s.out ++ completeLines buf (s.eventBuff ++ segRev.reverse) ∧
    (chunkLoop segRev s buf).1.eventBuff ++ (chunkLoop segRev s buf).2.reverse
      = tailOf buf (s.eventBuff ++ segRev.reverse) := by
  induction buf generalizing segRev s with
  | nil => simp [chunkLoop, completeLines, tailOf]
  | cons b bs ih =>
    by_cases hb : b = NL
    · by_cases he : s.eventBuff.length = 0
      · have he' : s.eventBuff = [] := List.eq_nil_of_length_eq_zero he
        have := ih [] { s with out := s.out ++ [segRev.reverse] }
        simp only [chunkLoop, hb, ne_eq, not_true_eq_false, ↓reduceIte, he, completeLines, tailOf]
        simpa [he', List.append_assoc] using this
      · have := ih [] { eventBuff := [], out := s.out ++ [s.eventBuff ++ segRev.reverse] }
        simp only [chunkLoop, hb, ne_eq, not_true_eq_false, ↓reduceIte, he, not_false_eq_true, completeLines, tailOf]
        simpa [List.append_assoc] using this
    · have := ih (b :: segRev) s
      simp only [chunkLoop, ne_eq, hb, not_false_eq_true, ↓reduceIte, completeLines, tailOf]
      simpa [List.append_assoc] using this

theorem processChunk_more (s : St) (buf : Bytes) :
    (processChunk s buf false).out = s.out ++ completeLines buf s.eventBuff ∧
    (processChunk s buf false).eventBuff = tailOf buf s.eventBuff := by
  have := chunkLoop_spec buf [] s
  simpa [processChunk] using this

theorem processChunk_last (s : St) :
    (processChunk s [] true).out = s.out ++ [s.eventBuff] := by
  simp [processChunk, chunkLoop]

theorem bulkLoop_spec (reads : List Rd) (s : St) :
    (bulkLoop s reads).1.out = s.out ++ completeLines (bodyOf reads) s.eventBuff ∧
    (bulkLoop s reads).1.eventBuff = tailOf (bodyOf reads) s.eventBuff ∧
    (bulkLoop s reads).2 = !failed reads := by
  induction reads generalizing s with
  | nil => simp [bulkLoop, bodyOf, failed, completeLines, tailOf]
  | cons r rs ih =>
    cases r with
    | data b =>
      obtain ⟨h1, h2, h3⟩ := ih (processChunk s b false)
      obtain ⟨p1, p2⟩ := processChunk_more s b
      simp only [bulkLoop, bodyOf, failed]
      rw [h1, h2, h3, p1, p2, completeLines_append, tailOf_append, List.append_assoc]
      exact ⟨rfl, rfl, rfl⟩
    | dataEof b =>
      by_cases hb : b.length = 0
      · simp [bulkLoop, bodyOf, failed, hb, completeLines, tailOf]
      · obtain ⟨h1, h2, h3⟩ := ih (processChunk s b false)
        obtain ⟨p1, p2⟩ := processChunk_more s b
        simp only [bulkLoop, bodyOf, failed, hb, ↓reduceIte]
        rw [h1, h2, h3, p1, p2, completeLines_append, tailOf_append, List.append_assoc]
        exact ⟨rfl, rfl, rfl⟩
    | err b => simp [bulkLoop, bodyOf, failed, completeLines, tailOf]

/-- `processBulk`: all lines and `nil` when no read failed; the terminated lines delivered so far
    and the error otherwise -/
theorem processBulk_spec (reads : List Rd) :
    processBulk reads =
      if failed reads then (completeLines (bodyOf reads) [], false)
      else (splitLines (bodyOf reads) [], true) := by
  obtain ⟨h1, h2, h3⟩ := bulkLoop_spec reads ⟨[], []⟩
  simp only [List.nil_append] at h1 h2
  unfold processBulk
  simp only [h3, h2, h1, processChunk_last]
  cases hf : failed reads
  · simp only [Bool.not_false, ↓reduceIte, Bool.false_eq_true, splitLines_eq]
    split <;> simp
  · simp

theorem serve_spec (q : Req) :
    serve q =
      if q.hdrErr then [.resp 400]
      else if failed q.reads then (completeLines (bodyOf q.reads) []).map .inp ++ [.resp 400]
      else (splitLines (bodyOf q.reads) []).map .inp ++ [.resp 200] := by
  unfold serve
  rw [processBulk_spec]
  cases q.hdrErr <;> cases failed q.reads <;> simp

theorem bodyOf_data (chunks : List Bytes) : bodyOf (chunks.map .data) = chunks.flatten := by
  induction chunks with
  | nil => rfl
  | cons c cs ih => simp [bodyOf, ih]

theorem failed_data (chunks : List Bytes) : failed (chunks.map .data) = false := by
  induction chunks with
  | nil => rfl
  | cons c cs ih => simp [failed, ih]

theorem inputs_map_inp (l : List Bytes) (tl : List Act) : inputs (l.map .inp ++ tl) = l ++ inputs tl := by
  induction l with
  | nil => simp
  | cons x xs ih => simp [inputs, ih]

theorem codes_map_inp (l : List Bytes) (tl : List Act) : codes (l.map .inp ++ tl) = codes tl := by
  induction l with
  | nil => simp
  | cons x xs ih => simp [codes, ih]

end FileD.HttpBulk
