/-
  Invariant of M2 (Model/StreamProc.lean): the events the processor still has (re-injected,
  held, in hand) are all older than the queued ones, the queue is increasing, and every sequence
  number handed out by `put` is handed over, dropped, with the processor, or queued. `out` only
  ever takes the oldest event the processor has, hence events are handed to the output in read
  order.
-/
import FileD.Model.StreamProc
namespace FileD.StreamProc

/-- events taken from the stream and not yet disposed of -/
def procSet (s : SS) : List Nat := s.propd ++ s.held ++ s.inhand.toList

def pending (s : SS) : List Nat := procSet s ++ s.queue

/-- hand-over order of one stream (the guard of `add` in M1) -/
def Ordered (dropped outd : List Nat) : Prop :=
  ∀ pre q post, outd = pre ++ q :: post → ∀ q', 1 ≤ q' → q' < q → q' ∈ pre ∨ q' ∈ dropped

structure PInv (s : SS) : Prop where
  older   : ∀ x ∈ procSet s, ∀ y ∈ s.queue, x < y
  sorted  : s.queue.Pairwise (· < ·)
  bound   : ∀ q ∈ pending s, 1 ≤ q ∧ q ≤ s.nextSeq
  cover   : ∀ q, 1 ≤ q → q ≤ s.nextSeq → q ∈ s.outd ∨ q ∈ s.dropped ∨ q ∈ pending s
  ordered : Ordered s.dropped s.outd
  nodupP  : (procSet s).Nodup
  fresh   : ∀ q ∈ pending s, q ∉ s.outd ∧ q ∉ s.dropped
  doneB   : ∀ q, q ∈ s.outd ∨ q ∈ s.dropped → 1 ≤ q ∧ q ≤ s.nextSeq

theorem pinv_init : PInv {} := by
  refine ⟨by simp [procSet], by simp, by simp [pending, procSet], ?_, ?_, by simp [procSet],
    by simp [pending, procSet], by simp⟩
  · intro q h1 h2; simp at h2; omega
  · intro pre q post h; simp at h

theorem append_singleton_split {α} {l : List α} {e x : α} {pre post : List α}
    (h : l ++ [e] = pre ++ x :: post) :
    (∃ post', l = pre ++ x :: post' ∧ post = post' ++ [e]) ∨ (pre = l ∧ x = e ∧ post = []) := by
  induction pre generalizing l with
  | nil =>
    cases l with
    | nil => simp at h; right; simp [h.1, h.2]
    | cons y ys => simp at h; left; exact ⟨ys, by simp [h.1], by simp [h.2]⟩
  | cons p ps ih =>
    cases l with
    | nil => simp at h
    | cons y ys =>
      simp at h
      obtain ⟨rfl, h2⟩ := h
      rcases ih h2 with ⟨post', h3, h4⟩ | ⟨h3, h4, h5⟩
      · left; exact ⟨post', by simp [h3], h4⟩
      · right; exact ⟨by simp [h3], h4, h5⟩

theorem ordered_mono {dropped outd : List Nat} (h : Ordered dropped outd) (x : Nat) :
    Ordered (dropped ++ [x]) outd := by
  intro pre q post hq q' h1 hlt
  rcases h pre q post hq q' h1 hlt with h2 | h2
  · exact Or.inl h2
  · exact Or.inr (List.mem_append_left _ h2)

/-- a step that permutes the processor's events and keeps the queue, `nextSeq`, `outd`, `dropped` -/
theorem pinv_same {s s' : SS} (h : PInv s) (hp : (procSet s').Perm (procSet s))
    (hq : s'.queue = s.queue) (hn : s'.nextSeq = s.nextSeq)
    (ho : s'.outd = s.outd) (hd : s'.dropped = s.dropped) : PInv s' := by
  have hmem : ∀ x, x ∈ procSet s' ↔ x ∈ procSet s := fun x => hp.mem_iff
  have hpend : ∀ x, x ∈ pending s' ↔ x ∈ pending s := by
    intro x; simp only [pending, List.mem_append, hmem, hq]
  refine ⟨?_, by rw [hq]; exact h.sorted, ?_, ?_, by rw [ho, hd]; exact h.ordered, hp.nodup_iff.2 h.nodupP, ?_, ?_⟩
  · intro x hx y hy; rw [hq] at hy; exact h.older x ((hmem x).1 hx) y hy
  · intro q hq'; rw [hn]; exact h.bound q ((hpend q).1 hq')
  · intro q h1 h2; rw [hn] at h2; rw [ho, hd]
    rcases h.cover q h1 h2 with h3 | h3 | h3
    · exact Or.inl h3
    · exact Or.inr (Or.inl h3)
    · exact Or.inr (Or.inr ((hpend q).2 h3))
  · intro q hq'; rw [ho, hd]; exact h.fresh q ((hpend q).1 hq')
  · intro q hq'; rw [ho, hd] at hq'; rw [hn]; exact h.doneB q hq'

/-- stream.put -/
theorem pinv_put {s s' : SS} (h : PInv s) (hp : procSet s' = procSet s)
    (hq : s'.queue = s.queue ++ [s.nextSeq + 1]) (hn : s'.nextSeq = s.nextSeq + 1)
    (ho : s'.outd = s.outd) (hd : s'.dropped = s.dropped) : PInv s' := by
  refine ⟨?_, ?_, ?_, ?_, by rw [ho, hd]; exact h.ordered, by rw [hp]; exact h.nodupP, ?_, ?_⟩
  · intro x hx y hy
    rw [hp] at hx; rw [hq] at hy
    rcases List.mem_append.1 hy with hy | hy
    · exact h.older x hx y hy
    · simp at hy; subst hy
      have := (h.bound x (by simp [pending, hx])).2; omega
  · rw [hq]
    refine List.pairwise_append.2 ⟨h.sorted, by simp, ?_⟩
    intro a ha b hb; simp at hb; subst hb
    have := (h.bound a (by simp [pending, ha])).2; omega
  · intro x hx
    simp only [pending, hp, hq, List.mem_append, List.mem_singleton] at hx
    rw [hn]
    rcases hx with hx | hx | hx
    · have := h.bound x (by simp [pending, hx]); omega
    · have := h.bound x (by simp [pending, hx]); omega
    · subst hx; omega
  · intro x h1 h2
    rw [hn] at h2; rw [ho, hd]
    simp only [pending, hp, hq, List.mem_append, List.mem_singleton]
    by_cases hx : x ≤ s.nextSeq
    · rcases h.cover x h1 hx with h3 | h3 | h3
      · exact Or.inl h3
      · exact Or.inr (Or.inl h3)
      · simp only [pending, List.mem_append] at h3
        rcases h3 with h3 | h3
        · exact Or.inr (Or.inr (Or.inl h3))
        · exact Or.inr (Or.inr (Or.inr (Or.inl h3)))
    · exact Or.inr (Or.inr (Or.inr (Or.inr (by omega))))
  · intro x hx
    rw [ho, hd]
    simp only [pending, hp, hq, List.mem_append, List.mem_singleton] at hx
    rcases hx with hx | hx | hx
    · exact h.fresh x (by simp [pending, hx])
    · exact h.fresh x (by simp [pending, hx])
    · subst hx
      constructor
      · intro hc; have := (h.doneB _ (Or.inl hc)).2; omega
      · intro hc; have := (h.doneB _ (Or.inr hc)).2; omega
  · intro x hx; rw [ho, hd] at hx; rw [hn]; have := h.doneB x hx; omega

/-- stream.get: the head of the queue moves to the processor -/
theorem pinv_get {s s' : SS} (h : PInv s) (q : Nat) (t : List Nat) (hqu : s.queue = q :: t)
    (hp : procSet s' = procSet s ++ [q]) (hq : s'.queue = t) (hn : s'.nextSeq = s.nextSeq)
    (ho : s'.outd = s.outd) (hd : s'.dropped = s.dropped) : PInv s' := by
  have hsort := h.sorted; rw [hqu] at hsort
  have hmem : ∀ x, x ∈ procSet s' ↔ (x ∈ procSet s ∨ x = q) := by intro x; rw [hp]; simp
  have hpend : ∀ x, x ∈ pending s' ↔ x ∈ pending s := by
    intro x; simp only [pending, List.mem_append, hmem, hq, hqu, List.mem_cons]
    constructor
    · rintro ((h1 | h1) | h1)
      · exact Or.inl h1
      · exact Or.inr (Or.inl h1)
      · exact Or.inr (Or.inr h1)
    · rintro (h1 | h1 | h1)
      · exact Or.inl (Or.inl h1)
      · exact Or.inl (Or.inr h1)
      · exact Or.inr h1
  refine ⟨?_, by rw [hq]; exact (List.pairwise_cons.1 hsort).2, ?_, ?_, by rw [ho, hd]; exact h.ordered, ?_, ?_, ?_⟩
  · intro x hx y hy
    rw [hq] at hy
    rcases (hmem x).1 hx with hx | rfl
    · exact h.older x hx y (by rw [hqu]; exact List.mem_cons_of_mem _ hy)
    · exact (List.pairwise_cons.1 hsort).1 y hy
  · intro x hx; rw [hn]; exact h.bound x ((hpend x).1 hx)
  · intro x h1 h2; rw [hn] at h2; rw [ho, hd]
    rcases h.cover x h1 h2 with h3 | h3 | h3
    · exact Or.inl h3
    · exact Or.inr (Or.inl h3)
    · exact Or.inr (Or.inr ((hpend x).2 h3))
  · rw [hp]
    refine List.nodup_append.2 ⟨h.nodupP, by simp, ?_⟩
    intro a ha b hb; simp at hb; subst hb
    have := h.older a ha b (by rw [hqu]; simp); omega
  · intro x hx; rw [ho, hd]; exact h.fresh x ((hpend x).1 hx)
  · intro x hx; rw [ho, hd] at hx; rw [hn]; exact h.doneB x hx

/-- discard / collapse: one of the processor's events moves to `dropped` -/
theorem pinv_drop {s s' : SS} (h : PInv s) (q : Nat)
    (hperm : (procSet s).Perm (q :: procSet s')) (hq : s'.queue = s.queue) (hn : s'.nextSeq = s.nextSeq)
    (ho : s'.outd = s.outd) (hd : s'.dropped = s.dropped ++ [q]) : PInv s' := by
  have hsub : ∀ x ∈ procSet s', x ∈ procSet s := fun x hx => hperm.mem_iff.2 (List.mem_cons_of_mem _ hx)
  have hrest : ∀ x ∈ procSet s, x = q ∨ x ∈ procSet s' := fun x hx => List.mem_cons.1 (hperm.mem_iff.1 hx)
  have hnd : (q :: procSet s').Nodup := hperm.nodup_iff.1 h.nodupP
  have hqin : q ∈ procSet s := hperm.mem_iff.2 (List.mem_cons_self ..)
  refine ⟨?_, by rw [hq]; exact h.sorted, ?_, ?_, by rw [ho, hd]; exact ordered_mono h.ordered q,
    (List.nodup_cons.1 hnd).2, ?_, ?_⟩
  · intro x hx y hy; rw [hq] at hy; exact h.older x (hsub x hx) y hy
  · intro x hx; rw [hn]
    simp only [pending, List.mem_append, hq] at hx
    rcases hx with hx | hx
    · exact h.bound x (by simp [pending, hsub x hx])
    · exact h.bound x (by simp [pending, hx])
  · intro x h1 h2
    rw [hn] at h2; rw [ho, hd]
    rcases h.cover x h1 h2 with h3 | h3 | h3
    · exact Or.inl h3
    · exact Or.inr (Or.inl (List.mem_append_left _ h3))
    · simp only [pending, List.mem_append] at h3
      rcases h3 with h3 | h3
      · rcases hrest x h3 with rfl | h4
        · exact Or.inr (Or.inl (by simp))
        · exact Or.inr (Or.inr (by simp [pending, h4]))
      · exact Or.inr (Or.inr (by simp [pending, hq, h3]))
  · intro x hx
    rw [ho, hd]
    simp only [pending, List.mem_append, hq] at hx
    have hxq : x ≠ q := by
      rcases hx with hx | hx
      · intro hc; subst hc; exact (List.nodup_cons.1 hnd).1 hx
      · intro hc; subst hc; have := h.older x hqin x hx; omega
    have hf := h.fresh x (by
      rcases hx with hx | hx
      · simp [pending, hsub x hx]
      · simp [pending, hx])
    refine ⟨hf.1, ?_⟩
    simp only [List.mem_append, List.mem_singleton, not_or]
    exact ⟨hf.2, hxq⟩
  · intro x hx; rw [hn]
    rw [ho, hd] at hx
    rcases hx with hx | hx
    · exact h.doneB x (Or.inl hx)
    · simp only [List.mem_append, List.mem_singleton] at hx
      rcases hx with hx | rfl
      · exact h.doneB x (Or.inr hx)
      · exact h.bound x (by simp [pending, hqin])

/-- router.Out: the oldest of the processor's events is handed to the output -/
theorem pinv_out {s s' : SS} (h : PInv s) (q : Nat) (hmin : ∀ x ∈ procSet s, q ≤ x)
    (hperm : (procSet s).Perm (q :: procSet s')) (hq : s'.queue = s.queue) (hn : s'.nextSeq = s.nextSeq)
    (ho : s'.outd = s.outd ++ [q]) (hd : s'.dropped = s.dropped) : PInv s' := by
  have hsub : ∀ x ∈ procSet s', x ∈ procSet s := fun x hx => hperm.mem_iff.2 (List.mem_cons_of_mem _ hx)
  have hrest : ∀ x ∈ procSet s, x = q ∨ x ∈ procSet s' := fun x hx => List.mem_cons.1 (hperm.mem_iff.1 hx)
  have hnd : (q :: procSet s').Nodup := hperm.nodup_iff.1 h.nodupP
  have hin : q ∈ procSet s := hperm.mem_iff.2 (List.mem_cons_self ..)
  refine ⟨?_, by rw [hq]; exact h.sorted, ?_, ?_, ?_, (List.nodup_cons.1 hnd).2, ?_, ?_⟩
  · intro x hx y hy; rw [hq] at hy; exact h.older x (hsub x hx) y hy
  · intro x hx; rw [hn]
    simp only [pending, List.mem_append, hq] at hx
    rcases hx with hx | hx
    · exact h.bound x (by simp [pending, hsub x hx])
    · exact h.bound x (by simp [pending, hx])
  · intro x h1 h2
    rw [hn] at h2; rw [ho, hd]
    rcases h.cover x h1 h2 with h3 | h3 | h3
    · exact Or.inl (List.mem_append_left _ h3)
    · exact Or.inr (Or.inl h3)
    · simp only [pending, List.mem_append] at h3
      rcases h3 with h3 | h3
      · rcases hrest x h3 with rfl | h4
        · exact Or.inl (by simp)
        · exact Or.inr (Or.inr (by simp [pending, h4]))
      · exact Or.inr (Or.inr (by simp [pending, hq, h3]))
  · rw [ho, hd]
    intro pre x post hx q' h1 hlt
    rcases append_singleton_split hx with ⟨post', h2, _⟩ | ⟨h2, h3, _⟩
    · exact h.ordered pre x post' h2 q' h1 hlt
    · subst h2; subst h3
      have hb := (h.bound x (by simp [pending, hin])).2
      rcases h.cover q' h1 (by omega) with h4 | h4 | h4
      · exact Or.inl h4
      · exact Or.inr h4
      · simp only [pending, List.mem_append] at h4
        rcases h4 with h4 | h4
        · have := hmin q' h4; omega
        · have := h.older x hin q' h4; omega
  · intro x hx
    rw [ho, hd]
    simp only [pending, List.mem_append, hq] at hx
    have hxq : x ≠ q := by
      rcases hx with hx | hx
      · intro hc; subst hc; exact (List.nodup_cons.1 hnd).1 hx
      · intro hc; subst hc; have := h.older x hin x hx; omega
    have hf := h.fresh x (by
      rcases hx with hx | hx
      · simp [pending, hsub x hx]
      · simp [pending, hx])
    refine ⟨?_, hf.2⟩
    simp only [List.mem_append, List.mem_singleton, not_or]
    exact ⟨hf.1, hxq⟩
  · intro x hx; rw [hn]
    rw [ho, hd] at hx
    rcases hx with hx | hx
    · simp only [List.mem_append, List.mem_singleton] at hx
      rcases hx with hx | rfl
      · exact h.doneB x (Or.inl hx)
      · exact h.bound x (by simp [pending, hin])
    · exact h.doneB x (Or.inr hx)

theorem mem_erase_sub {l : List Nat} {q x : Nat} (h : x ∈ l.erase q) : x ∈ l := List.mem_of_mem_erase h

theorem mem_erase_or {l : List Nat} {q x : Nat} (h : x ∈ l) : x = q ∨ x ∈ l.erase q := by
  by_cases hx : x = q
  · exact Or.inl hx
  · exact Or.inr ((List.mem_erase_of_ne hx).2 h)

theorem pinv_step {s s' : SS} {op : Op} (h : PInv s) (hs : step? s op = some s') : PInv s' := by
  cases op with
  | put q =>
    simp only [step?] at hs
    split at hs
    · rename_i hg
      simp at hs; subst hs
      obtain ⟨_, rfl⟩ := hg
      exact pinv_put h rfl rfl rfl rfl rfl
    · simp at hs
  | charge =>
    simp only [step?] at hs
    split at hs
    · simp at hs; subst hs; exact pinv_same h (List.Perm.refl _) rfl rfl rfl rfl
    · simp at hs
  | pop =>
    simp only [step?] at hs
    split at hs
    · simp at hs; subst hs; exact pinv_same h (List.Perm.refl _) rfl rfl rfl rfl
    · simp at hs
  | attach =>
    simp only [step?] at hs
    split at hs
    · split at hs <;> (simp at hs; subst hs; exact pinv_same h (List.Perm.refl _) rfl rfl rfl rfl)
    · simp at hs
  | get q =>
    simp only [step?] at hs
    split at hs
    · rename_i hg
      simp at hs; subst hs
      obtain ⟨_, _, _, hih, hpr, _, hq⟩ := hg
      have hqueue : s.queue = q :: s.queue.tail := by
        cases hc : s.queue with
        | nil => simp [hc] at hq
        | cons a t => simp [hc] at hq; subst hq; simp
      refine pinv_get h q s.queue.tail hqueue ?_ rfl rfl rfl rfl
      simp [procSet, hih, hpr]
    · simp at hs
  | getTimeout =>
    simp only [step?] at hs
    split at hs
    · simp at hs; subst hs; exact pinv_same h (List.Perm.refl _) rfl rfl rfl rfl
    · simp at hs
  | leave =>
    simp only [step?] at hs
    split at hs
    · simp at hs; subst hs; exact pinv_same h (List.Perm.refl _) rfl rfl rfl rfl
    · simp at hs
  | detach =>
    simp only [step?] at hs
    split at hs
    · simp at hs; subst hs; exact pinv_same h (List.Perm.refl _) rfl rfl rfl rfl
    · simp at hs
  | commit q =>
    simp only [step?] at hs
    split at hs
    · simp at hs; subst hs; exact pinv_same h (List.Perm.refl _) rfl rfl rfl rfl
    · simp at hs
  | timeout =>
    simp only [step?] at hs
    split at hs
    · split at hs <;> (simp at hs; subst hs; exact pinv_same h (List.Perm.refl _) rfl rfl rfl rfl)
    · simp at hs
  | hold q =>
    simp only [step?] at hs
    split at hs
    · rename_i hg
      simp at hs; subst hs
      refine pinv_same h ?_ rfl rfl rfl rfl
      simp [procSet, hg.2, List.append_assoc]
    · split at hs
      · rename_i hg
        simp at hs; subst hs
        obtain ⟨_, hh⟩ := hg
        refine pinv_same h ?_ rfl rfl rfl rfl
        -- propd.erase q ++ (held ++ [q]) ++ inhand  ~  propd ++ held ++ inhand
        simp only [procSet]
        refine List.Perm.append_right _ ?_
        have h1 : (s.propd ++ s.held).Perm ((q :: s.propd.erase q) ++ s.held) :=
          List.Perm.append_right _ (List.perm_cons_erase hh)
        have h2 : ((q :: s.propd.erase q) ++ s.held).Perm (s.propd.erase q ++ (s.held ++ [q])) := by
          rw [List.cons_append, ← List.append_assoc]
          exact (List.perm_append_singleton q (s.propd.erase q ++ s.held)).symm
        exact (h1.trans h2).symm
      · simp at hs
  | propagate q =>
    simp only [step?] at hs
    split at hs
    · rename_i hg
      simp at hs; subst hs
      obtain ⟨_, hh⟩ := hg
      refine pinv_same h ?_ rfl rfl rfl rfl
      -- (q :: propd) ++ held.erase q ++ inhand  ~  propd ++ held ++ inhand
      simp only [procSet]
      refine List.Perm.append_right _ ?_
      have h1 : (s.propd ++ s.held).Perm (s.propd ++ (q :: s.held.erase q)) :=
        List.Perm.append_left _ (List.perm_cons_erase hh)
      have h2 : (s.propd ++ (q :: s.held.erase q)).Perm (q :: (s.propd ++ s.held.erase q)) :=
        List.perm_middle
      exact (h1.trans h2).symm
    · simp at hs
  | drop q =>
    simp only [step?] at hs
    split at hs
    · -- the event in hand is discarded / collapsed
      rename_i hg
      simp at hs; subst hs
      refine pinv_drop h q ?_ rfl rfl rfl rfl
      simp only [procSet, hg.2, Option.toList_some, Option.toList_none, List.append_nil]
      exact List.perm_append_singleton _ _ |>.trans (List.Perm.refl _)
    · split at hs
      · -- a re-injected event is discarded downstream
        rename_i hg
        simp at hs; subst hs
        refine pinv_drop h q ?_ rfl rfl rfl rfl
        simp only [procSet, List.append_assoc]
        exact (List.perm_cons_erase hg.2).append_right _
      · simp at hs
  | out q =>
    simp only [step?] at hs
    split at hs
    · rename_i hg
      obtain ⟨_, hmin⟩ := hg
      split at hs
      · -- a re-injected (held) event goes out
        rename_i hin
        simp at hs; subst hs
        refine pinv_out h q hmin ?_ rfl rfl rfl rfl
        simp only [procSet, List.append_assoc]
        exact (List.perm_cons_erase hin).append_right _
      · split at hs
        · -- the event in hand goes out
          rename_i hih
          simp at hs; subst hs
          refine pinv_out h q hmin ?_ rfl rfl rfl rfl
          simp only [procSet, hih, Option.toList_some, Option.toList_none, List.append_nil]
          exact List.perm_append_singleton _ _
        · simp at hs
    · simp at hs

theorem pinv_run {s s' : SS} {ops : List Op} (h : PInv s) (hr : run s ops = some s') : PInv s' := by
  induction ops generalizing s with
  | nil => simp [run] at hr; subst hr; exact h
  | cons op ops ih =>
    simp only [run] at hr
    cases hso : step? s op with
    | none => simp [hso] at hr
    | some s1 => simp [hso] at hr; exact ih (pinv_step h hso) hr

end FileD.StreamProc
