/- Case analysis lemmas for Model/LockOrder.lean (finite state: every statement is checked on all 252 states). -/
import FileD.Model.LockOrder
import FileD.Prelude.TS
namespace FileD.LockOrder

theorem ok_step (walk : Bool) (st : St) (t : Tid) (h : ok walk st = true) :
    (step? walk st t).all (ok walk) = true := by
  rcases st with ⟨o, hp, q, b⟩
  revert h
  cases walk <;> cases t <;> cases o <;> cases hp <;> cases q <;> cases b <;> decide

theorem ok_reachable (walk : Bool) (st : St) (h : TS.Reachable (step? walk) {} st) : ok walk st = true := by
  refine TS.invariant_reachable (step? walk) (fun s => ok walk s = true) {} (by cases walk <;> decide) ?_ st h
  intro s t s' hs hstep
  have := ok_step walk s t hs
  rw [hstep] at this
  simpa using this

theorem no_cycle_of_ok (st : St) (h : ok false st = true) : waitCycle st = false := by
  rcases st with ⟨o, hp, q, b⟩
  revert h
  cases o <;> cases hp <;> cases q <;> cases b <;> decide

theorem some_step_of_ok (st : St) (h : ok false st = true) :
    [Tid.owner, .hb, .putter].any (fun t => (step? false st t).isSome) = true := by
  rcases st with ⟨o, hp, q, b⟩
  revert h
  cases o <;> cases hp <;> cases q <;> cases b <;> decide

/-- whoever holds blockedMu can take its next step -/
theorem b_holder_moves (st : St) (t : Tid) (h : ok false st = true) (hb : holds st t .B = true) :
    (step? false st t).isSome = true := by
  rcases st with ⟨o, hp, q, b⟩
  revert h hb
  cases t <;> cases o <;> cases hp <;> cases q <;> cases b <;> decide

end FileD.LockOrder
