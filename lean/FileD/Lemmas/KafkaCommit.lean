/-
  Helper lemmas for C10: the max-keeping mark, the invariants of the spread transition system,
  the single-stream FIFO invariant, equivalence of the executable oracle with the Prop-level spec.
-/
import FileD.Model.KafkaCommit
import FileD.Spec.C10
import FileD.Lemmas.KafkaPack
namespace FileD.LemmasKafkaCommit
open FileD FileD.KafkaCommit FileD.SpecC10

/-! ### marks -/

theorem mem_mark {m : Marks} {tp : TP} {eo : EO} {x : TP × EO} (h : x ∈ mark m tp eo) :
    x = (tp, eo) ∨ x ∈ m := by
  induction m with
  | nil => simp [mark] at h; exact Or.inl h
  | cons kv rest ih =>
    obtain ⟨k, v⟩ := kv
    simp only [mark] at h
    split at h
    · rename_i hk
      rcases List.mem_cons.mp h with h | h
      · by_cases hl : less v eo = true
        · simp [hl] at h; left; rw [h, hk]
        · simp [hl] at h; right; rw [h]; exact List.mem_cons_self
      · right; exact List.mem_cons_of_mem _ h
    · rcases List.mem_cons.mp h with h | h
      · right; rw [h]; exact List.mem_cons_self
      · rcases ih h with h | h
        · exact Or.inl h
        · right; exact List.mem_cons_of_mem _ h

/-! ### getElem? on a grown list -/

theorem getElem?_append_one_of_some {α} {l : List α} {i : Nat} {a q : α} (h : l[i]? = some a) :
    (l ++ [q])[i]? = some a := by
  have hi : i < l.length := by
    rcases Nat.lt_or_ge i l.length with h' | h'
    · exact h'
    · rw [List.getElem?_eq_none h'] at h; cases h
  rw [List.getElem?_append_left hi]; exact h

theorem getElem?_append_one_cases {α} {l : List α} {i : Nat} {a q : α} (h : (l ++ [q])[i]? = some a) :
    l[i]? = some a ∨ (i = l.length ∧ a = q) := by
  rcases Nat.lt_or_ge i l.length with hi | hi
  · left; rw [List.getElem?_append_left hi] at h; exact h
  · right
    rw [List.getElem?_append_right hi] at h
    have : i - l.length = 0 := by
      rcases Nat.eq_zero_or_pos (i - l.length) with h0 | h0
      · exact h0
      · rw [List.getElem?_eq_none (by simp; omega)] at h; cases h
    rw [this] at h
    simp at h
    exact ⟨by omega, h.symm⟩

theorem mem_of_getElem?_eq_some {α} {l : List α} {i : Nat} {a : α} (h : l[i]? = some a) : a ∈ l :=
  List.mem_of_getElem? h

/-! ### invariants -/

theorem own_mono_recs {recs : List Rec} {acked : List Nat} {x : TP × EO} (q : Rec)
    (h : Own recs acked x) : Own (recs ++ [q]) acked x := by
  obtain ⟨i, r, hi, hr, h1, h2⟩ := h
  exact ⟨i, r, hi, getElem?_append_one_of_some hr, h1, h2⟩

theorem own_mono_acked {recs : List Rec} {acked : List Nat} {x : TP × EO} (k : Nat)
    (h : Own recs acked x) : Own recs (k :: acked) x := by
  obtain ⟨i, r, hi, hr, h1, h2⟩ := h
  exact ⟨i, r, List.mem_cons_of_mem _ hi, hr, h1, h2⟩

/-- every mark is an acknowledged record's own -/
def OwnInv (s : State) : Prop := ∀ x ∈ s.marks, Own s.recs s.acked x

theorem ownInv_init (c : Cfg) : OwnInv (init c) := by
  intro x hx; simp [init] at hx

theorem ownInv_step (c : Cfg) (s : State) (op : Op) (s' : State) (hI : OwnInv s)
    (hs : step? c s op = some s') : OwnInv s' := by
  cases op with
  | consume r sid =>
    simp only [step?] at hs
    split at hs
    · cases hs; intro x hx; exact own_mono_recs r (hI x hx)
    · cases hs
  | take i =>
    simp only [step?] at hs
    split at hs
    · cases hs; exact hI
    · cases hs
  | drop i =>
    simp only [step?] at hs
    split at hs
    · cases hs; exact hI
    · cases hs
  | ack i =>
    simp only [step?] at hs
    split at hs
    · split at hs
      · rename_i r hr
        cases hs
        intro x hx
        rcases mem_mark hx with h | h
        · exact ⟨i, r, List.mem_cons_self, hr, by rw [h], by rw [h]⟩
        · exact own_mono_acked i (hI x h)
      · cases hs
    · cases hs

/-- offsets of a topic/partition strictly increase in consumption order -/
def Increasing (recs : List Rec) : Prop :=
  ∀ (i j : Nat) (ri rj : Rec), i < j → recs[i]? = some ri → recs[j]? = some rj → ri.tp = rj.tp → ri.offset < rj.offset

theorem fresh_spec {recs : List Rec} {r q : Rec} (h : fresh recs r = true) (hq : q ∈ recs)
    (htp : q.tp = r.tp) : q.offset < r.offset := by
  simp only [fresh, List.all_eq_true] at h
  have := h q hq
  simpa [htp] using this

theorem increasing_append {recs : List Rec} {r : Rec} (hI : Increasing recs) (hf : fresh recs r = true) :
    Increasing (recs ++ [r]) := by
  intro i j ri rj hij hi hj htp
  rcases getElem?_append_one_cases hj with hj | ⟨hjl, hjr⟩
  · rcases getElem?_append_one_cases hi with hi | ⟨hil, _⟩
    · exact hI i j ri rj hij hi hj htp
    · have : j < recs.length := by
        rcases Nat.lt_or_ge j recs.length with h' | h'
        · exact h'
        · rw [List.getElem?_eq_none h'] at hj; cases hj
      omega
  · rcases getElem?_append_one_cases hi with hi' | ⟨hil, _⟩
    · subst hjr; exact fresh_spec hf (mem_of_getElem?_eq_some hi') htp
    · omega

/-- the safety clause: no mark passes an unfinished record -/
def NoPassInv (s : State) : Prop := ∀ x ∈ s.marks, NoPass s.recs s.finished x

structure Inv2 (s : State) : Prop where
  own : OwnInv s
  incr : Increasing s.recs
  nopass : NoPassInv s

theorem inv2_init (c : Cfg) : Inv2 (init c) :=
  ⟨ownInv_init c, by intro i j ri rj _ hi; simp [init] at hi, by intro x hx; simp [init] at hx⟩

theorem noPass_more_finished {recs : List Rec} {fin : List Nat} {x : TP × EO} (k : Nat)
    (h : NoPass recs fin x) : NoPass recs (k :: fin) x := by
  intro j r hr hj htp
  exact h j r hr (fun hm => hj (List.mem_cons_of_mem _ hm)) htp

theorem inv2_step (c : Cfg) (s : State) (op : Op) (s' : State) (hI : Inv2 s)
    (hord : AckInOrder s op) (hs : step? c s op = some s') : Inv2 s' := by
  have hown' := ownInv_step c s op s' hI.own hs
  cases op with
  | consume r sid =>
    simp only [step?] at hs
    split at hs
    · rename_i hc
      cases hs
      refine ⟨hown', increasing_append hI.incr hc.2, ?_⟩
      intro x hx j rj hj hjf htp
      rcases getElem?_append_one_cases hj with hj | ⟨_, hjr⟩
      · exact hI.nopass x hx j rj hj hjf htp
      · subst hjr
        obtain ⟨k, rk, _, hrk, h1, h2⟩ := hI.own x hx
        have := fresh_spec hc.2 (mem_of_getElem?_eq_some hrk) (by rw [h1, htp])
        rw [← h2]; simp only [Rec.eo]; omega
    · cases hs
  | take i =>
    simp only [step?] at hs
    split at hs
    · cases hs; exact ⟨hown', hI.incr, hI.nopass⟩
    · cases hs
  | drop i =>
    simp only [step?] at hs
    split at hs
    · cases hs
      exact ⟨hown', hI.incr, fun x hx => noPass_more_finished i (hI.nopass x hx)⟩
    · cases hs
  | ack i =>
    simp only [step?] at hs
    split at hs
    · split at hs
      · rename_i r hr
        cases hs
        refine ⟨hown', hI.incr, ?_⟩
        intro x hx
        rcases mem_mark hx with h | h
        · -- the new mark (r.tp, r.eo): unfinished j ≠ i of the same partition was consumed after i
          intro j rj hj hjf htp
          have hji : j ≠ i := fun e => hjf (by rw [e]; exact List.mem_cons_self)
          have hjf' : j ∉ s.finished := fun hm => hjf (List.mem_cons_of_mem _ hm)
          rw [h] at htp ⊢
          simp only [Rec.eo]
          rcases Nat.lt_or_ge j i with hlt | hge
          · exact absurd (hord j r rj hlt hj hr htp) hjf'
          · have := hI.incr i j r rj (by omega) hr hj htp.symm
            omega
        · exact noPass_more_finished i (hI.nopass x h)
      · cases hs
    · cases hs

theorem inv2_run (c : Cfg) (ops : List Op) (s s' : State) (hI : Inv2 s) (hord : OrderedRun c s ops)
    (hr : run c s ops = some s') : Inv2 s' := by
  induction ops generalizing s with
  | nil => simp [run, TS.run] at hr; subst hr; exact hI
  | cons op ops ih =>
    simp only [run, TS.run] at hr
    cases hso : step? c s op with
    | none => simp [hso] at hr
    | some s1 =>
      simp [hso] at hr
      exact ih s1 (inv2_step c s op s1 hI hord.1 hso) (hord.2 s1 hso) hr

/-! ### one processor, in-order output -/

/-- single stream `q`: `inflight ++ q` is the ascending list of everything not yet finished -/
structure Fifo1 (s : State) : Prop where
  one : ∃ q, s.streams = [q] ∧ (s.inflight ++ q).Pairwise (· < ·) ∧
        (∀ j ∈ s.inflight ++ q, j < s.recs.length) ∧
        (∀ j, j < s.recs.length → j ∉ s.inflight ++ q → j ∈ s.finished)

theorem popHead_single {q : List Nat} {i : Nat} {st : List (List Nat)} (h : popHead [q] i = some st) :
    ∃ t, q = i :: t ∧ st = [t] := by
  cases q with
  | nil => simp [popHead] at h
  | cons a t =>
    simp only [popHead] at h
    split at h
    · rename_i ha; cases h; exact ⟨t, by rw [ha], rfl⟩
    · simp at h

theorem fifo1_init (c : Cfg) (h1 : c.procs = 1) : Fifo1 (init c) := by
  refine ⟨[], ?_⟩
  simp [init, h1]

theorem fifo1_step (c : Cfg) (h1 : c.procs = 1) (hf : c.fifo = true) (s : State) (op : Op) (s' : State)
    (hK : Fifo1 s) (hs : step? c s op = some s') : Fifo1 s' := by
  obtain ⟨q, hq, hp, hb, hc⟩ := hK.one
  cases op with
  | consume r sid =>
    simp only [step?] at hs
    split at hs
    · rename_i hcnd
      cases hs
      have hsid : sid = 0 := by omega
      subst hsid
      refine ⟨q ++ [s.recs.length], by simp [hq, pushAt], ?_, ?_, ?_⟩
      · rw [← List.append_assoc]
        rw [List.pairwise_append]
        refine ⟨hp, by simp, ?_⟩
        intro a ha b hb'
        simp at hb'
        subst hb'
        exact hb a ha
      · intro j hj
        rw [← List.append_assoc] at hj
        rcases List.mem_append.mp hj with hj | hj
        · have := hb j hj; simp; omega
        · simp at hj; simp; omega
      · intro j hj hn
        rw [← List.append_assoc] at hn
        have hn1 : j ∉ s.inflight ++ q := fun h => hn (List.mem_append_left _ h)
        have hn2 : j ≠ s.recs.length := fun h => hn (List.mem_append_right _ (by simp [h]))
        simp at hj
        exact hc j (by omega) hn1
    · cases hs
  | take i =>
    simp only [step?] at hs
    split at hs
    · rename_i st hst
      cases hs
      rw [hq] at hst
      obtain ⟨t, hqt, hstt⟩ := popHead_single hst
      subst hqt
      refine ⟨t, hstt, ?_, ?_, ?_⟩
      · simp [List.append_assoc]; simpa using hp
      · intro j hj; exact hb j (by simpa [List.append_assoc] using hj)
      · intro j hj hn; exact hc j hj (by simpa [List.append_assoc] using hn)
    · cases hs
  | drop i =>
    simp only [step?] at hs
    split at hs
    · rename_i st hst
      cases hs
      rw [hq] at hst
      obtain ⟨t, hqt, hstt⟩ := popHead_single hst
      subst hqt
      have hsub : List.Sublist (s.inflight ++ t) (s.inflight ++ i :: t) :=
        List.Sublist.append_left (List.sublist_cons_self i t) _
      refine ⟨t, hstt, hp.sublist hsub, fun j hj => hb j (hsub.subset hj), ?_⟩
      intro j hj hn
      by_cases hji : j = i
      · rw [hji]; exact List.mem_cons_self
      · refine List.mem_cons_of_mem _ (hc j hj ?_)
        intro hm
        rcases List.mem_append.mp hm with hm | hm
        · exact hn (List.mem_append_left _ hm)
        · rcases List.mem_cons.mp hm with hm | hm
          · exact hji hm
          · exact hn (List.mem_append_right _ hm)
    · cases hs
  | ack i =>
    simp only [step?] at hs
    split at hs
    · rename_i hcnd
      split at hs
      · cases hs
        have hh := hcnd.2 hf
        cases hin : s.inflight with
        | nil => rw [hin] at hh; simp at hh
        | cons a t =>
          rw [hin] at hh; simp at hh; subst hh
          rw [hin] at hp hb hc
          have hsub : List.Sublist (t ++ q) (a :: t ++ q) := by
            simp
          refine ⟨q, hq, ?_, ?_, ?_⟩
          · simp only [List.erase_cons_head]; exact hp.sublist hsub
          · simp only [List.erase_cons_head]; intro j hj; exact hb j (hsub.subset hj)
          · simp only [List.erase_cons_head]
            intro j hj hn
            by_cases hja : j = a
            · rw [hja]; exact List.mem_cons_self
            · refine List.mem_cons_of_mem _ (hc j hj ?_)
              intro hm
              simp only [List.cons_append, List.mem_cons] at hm
              rcases hm with hm | hm
              · exact hja hm
              · exact hn hm
      · cases hs
    · cases hs

/-- with one stream and an in-order output every enabled acknowledgement is in consumption order -/
theorem ackInOrder_of_fifo1 (c : Cfg) (hf : c.fifo = true) (s : State) (op : Op) (s' : State)
    (hK : Fifo1 s) (hs : step? c s op = some s') : AckInOrder s op := by
  cases op with
  | consume r sid => trivial
  | take i => trivial
  | drop i => trivial
  | ack i =>
    obtain ⟨q, _, hp, _, hc⟩ := hK.one
    simp only [step?] at hs
    split at hs
    · rename_i hcnd
      have hh := hcnd.2 hf
      cases hin : s.inflight with
      | nil => rw [hin] at hh; simp at hh
      | cons a t =>
        rw [hin] at hh; simp at hh; subst hh
        rw [hin] at hp hc
        intro j ri rj hji hj _ _
        have hjl : j < s.recs.length := by
          rcases Nat.lt_or_ge j s.recs.length with h' | h'
          · exact h'
          · rw [List.getElem?_eq_none h'] at hj; cases hj
        refine hc j hjl ?_
        intro hm
        simp only [List.cons_append, List.mem_cons] at hm
        rcases hm with hm | hm
        · omega
        · have := (List.pairwise_cons.mp (by simpa using hp)).1 j hm
          omega
    · cases hs

/-! ### unpacking a packed in-range record -/

theorem unpack_in_range (r : Rec) (hr : inRange r.topic r.part r.offset r.epoch = true) :
    (Gen.KafkaPack.disassembleSourceID (packSourceID r)).1.toInt = r.topic ∧
    (Gen.KafkaPack.disassembleSourceID (packSourceID r)).2.toInt = r.part ∧
    (Gen.KafkaPack.disassembleOffset (packOffset r)).Epoch.toInt = r.epoch ∧
    (Gen.KafkaPack.disassembleOffset (packOffset r)).Offset.toInt = r.offset + 1 := by
  simp only [inRange, decide_eq_true_eq] at hr
  obtain ⟨t0, t1, p0, p1, o0, o1, e0, e1⟩ := hr
  have ht : (BitVec.ofInt 64 r.topic).toNat = r.topic.toNat := by
    rw [BitVec.toNat_ofInt]; congr 1; omega
  have hp : (BitVec.ofInt 32 r.part).toNat = r.part.toNat := by
    rw [BitVec.toNat_ofInt]; congr 1; omega
  have ho : (BitVec.ofInt 64 r.offset).toNat = r.offset.toNat := by
    rw [BitVec.toNat_ofInt]; congr 1; omega
  have he : (BitVec.ofInt 32 r.epoch).toNat = r.epoch.toNat := by
    rw [BitVec.toNat_ofInt]; congr 1; omega
  have h1 := LemmasKafkaPack.sourceID_roundtrip (BitVec.ofInt 64 r.topic) (BitVec.ofInt 32 r.part)
    (by rw [ht]; omega) (by rw [hp]; omega)
  have h2 := LemmasKafkaPack.offset_roundtrip
    { Partition := BitVec.ofInt 32 r.part, ProducerEpoch := 0, ProducerID := 0,
      LeaderEpoch := BitVec.ofInt 32 r.epoch, Offset := BitVec.ofInt 64 r.offset }
    (by show (BitVec.ofInt 64 r.offset).toNat < 2 ^ 47; rw [ho]; omega)
    (by show (BitVec.ofInt 32 r.epoch).toNat < 2 ^ 16; rw [he]; omega)
  have one : (1 : BitVec 64).toNat = 1 := rfl
  simp only [packSourceID, packOffset, h1, h2]
  refine ⟨?_, ?_, ?_, ?_⟩
  · rw [BitVec.toInt_eq_toNat_cond, ht]; split <;> omega
  · rw [BitVec.toInt_eq_toNat_cond, hp]; split <;> omega
  · rw [BitVec.toInt_eq_toNat_cond, he]; split <;> omega
  · rw [BitVec.toInt_eq_toNat_cond, BitVec.toNat_add, ho, one]; split <;> omega

/-! ### topic ids -/

/-- the id Start assigns is a position of that very name in the raw list -/
theorem topicIDFrom_spec (i : Nat) (topics : List Int) (name : Int) (j : Nat)
    (h : topicIDFrom i topics name = some j) : i ≤ j ∧ topics[j - i]? = some name := by
  induction topics generalizing i with
  | nil => simp [topicIDFrom] at h
  | cons t ts ih =>
    simp only [topicIDFrom] at h
    cases hr : topicIDFrom (i + 1) ts name with
    | some k =>
      rw [hr] at h; simp at h; subst h
      have := ih (i + 1) hr
      refine ⟨by omega, ?_⟩
      have e : k - i = (k - (i + 1)) + 1 := by omega
      rw [e]; simpa using this.2
    | none =>
      rw [hr] at h
      simp only at h
      split at h
      · rename_i ht; cases h; simp [ht]
      · cases h

theorem topicIDFrom_some_of_mem (i : Nat) (topics : List Int) (name : Int) (h : name ∈ topics) :
    ∃ j, topicIDFrom i topics name = some j := by
  induction topics generalizing i with
  | nil => cases h
  | cons t ts ih =>
    simp only [topicIDFrom]
    cases hr : topicIDFrom (i + 1) ts name with
    | some k => exact ⟨k, rfl⟩
    | none =>
      rcases List.mem_cons.mp h with h | h
      · exact ⟨i, by simp [h]⟩
      · obtain ⟨j, hj⟩ := ih (i + 1) h; rw [hj] at hr; cases hr

theorem topicID_lt_length (topics : List Int) (name : Int) (j : Nat) (h : topicID topics name = some j) :
    j < topics.length := by
  have := (topicIDFrom_spec 0 topics name j h).2
  rcases Nat.lt_or_ge j topics.length with h' | h'
  · exact h'
  · simp at this; rw [List.getElem?_eq_none h'] at this; cases this

/-! ### the executable oracle decides the Prop-level spec -/

theorem ownB_iff (recs : List Rec) (acked : List Nat) (m : TP × EO) :
    ownB recs acked m = true ↔ Own recs acked m := by
  simp only [ownB, List.any_eq_true, Own]
  constructor
  · rintro ⟨i, hi, h⟩
    cases hr : recs[i]? with
    | none => simp [hr] at h
    | some r =>
      simp [hr] at h
      exact ⟨i, r, hi, hr, h.1, h.2⟩
  · rintro ⟨i, r, hi, hr, h1, h2⟩
    exact ⟨i, hi, by simp [hr, h1, h2]⟩

theorem noPassB_iff (recs : List Rec) (finished : List Nat) (m : TP × EO) :
    noPassB recs finished m = true ↔ NoPass recs finished m := by
  simp only [noPassB, List.all_eq_true, NoPass]
  constructor
  · intro h j r hr hj htp
    have := h (r, j) (List.mem_zipIdx_iff_getElem?.mpr hr)
    simp [hj, htp] at this
    exact this
  · intro h x hx
    obtain ⟨r, j⟩ := x
    have hr := List.mem_zipIdx_iff_getElem?.mp hx
    simp at hr
    by_cases hj : j ∈ finished
    · simp [hj]
    · by_cases htp : r.tp = m.1
      · have := h j r hr hj htp
        simp [hj, htp, this]
      · simp [hj, htp]

end FileD.LemmasKafkaCommit
