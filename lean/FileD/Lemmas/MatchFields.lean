/-
  Helper lemmas for C14 (match_fields): the loops of isMatchOr / isMatchAnd / valueExists are
  `any` / `all` over the documented per-condition predicate.
-/
import FileD.Model.MatchFields
import FileD.Spec.C14
namespace FileD.MatchFields
open FileD FileD.DoIf FileD.SpecC14

/-- a condition as fd.extractConditions builds it: a regexp or a value list, never both -/
def Cond.WF (c : Cond) : Prop := c.regexp.isSome → c.values = []

theorem valueExists_eq_any (vals : List Bytes) (sv : Bytes) (byPrefix : Bool) :
    valueExists vals sv byPrefix = vals.any (fun v => if byPrefix then v.isPrefixOf sv else v == sv) := by
  induction vals with
  | nil => simp [valueExists]
  | cons v vs ih =>
    simp only [valueExists, List.any_cons, ih]
    cases (if byPrefix = true then v.isPrefixOf sv else v == sv) <;> simp

theorem isMatchOr_eq_any (re : Bytes → Bytes → Bool) (conds : List Cond) (ev : JTree) (byPrefix : Bool)
    (hwf : ∀ c ∈ conds, c.WF) :
    isMatchOr re conds ev byPrefix = conds.any (condHolds re byPrefix ev) := by
  induction conds with
  | nil => simp [isMatchOr]
  | cons c cs ih =>
    have ih' := ih (fun c' hc' => hwf c' (by simp [hc']))
    have hc := hwf c (by simp)
    simp only [isMatchOr, List.any_cons, condHolds]
    cases hd : dig ev c.path with
    | none => simpa using ih'
    | some node =>
      simp only
      cases hr : c.regexp with
      | none =>
        simp only [valueExists_eq_any, ih']
        cases (c.values.any fun v => if byPrefix = true then v.isPrefixOf (asString node) else v == asString node) <;> simp
      | some p =>
        have hv : c.values = [] := hc (by simp [hr])
        simp only [hv, valueExists, ih']
        cases re p (asString node) <;> simp

theorem isMatchAnd_eq_all (re : Bytes → Bytes → Bool) (conds : List Cond) (ev : JTree) (byPrefix : Bool) :
    isMatchAnd re conds ev byPrefix = conds.all (condHolds re byPrefix ev) := by
  induction conds with
  | nil => simp [isMatchAnd]
  | cons c cs ih =>
    simp only [isMatchAnd, List.all_cons, condHolds]
    cases hd : dig ev c.path with
    | none => simp
    | some node =>
      simp only
      cases hr : c.regexp with
      | none =>
        simp only [valueExists_eq_any, ih]
        cases (c.values.any fun v => if byPrefix = true then v.isPrefixOf (asString node) else v == asString node) <;> simp
      | some p =>
        simp only [ih]
        cases re p (asString node) <;> simp

/-- `isMatchAnd` as it was before /repo commit a4d7a7c: after a successful regexp match the loop
    fell through to `valueExists` (kept to state what the defect was) -/
def isMatchAndPreFix (re : Bytes → Bytes → Bool) (conds : List Cond) (ev : JTree) (byPrefix : Bool) : Bool :=
  match conds with
  | [] => true
  | c :: cs =>
    match dig ev c.path with
    | none => false
    | some node =>
      let value := asString node
      let miss := (match c.regexp with
        | some p => !re p value
        | none => false)
      if miss then false else
      if !valueExists c.values value byPrefix then false else
      isMatchAndPreFix re cs ev byPrefix

end FileD.MatchFields
