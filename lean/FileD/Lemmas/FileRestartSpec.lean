/-
  Helper lemmas for C03, part 1: `specLines` / `specTail` algebra (append, offsets, prefixes) and the
  characterisation of one worker turn without size limit:
      turn j reads = (⟨cur + |r|, specTail r tail, false⟩, specLines r cur tail)     (r = reads.flatten)
-/
import FileD.Lemmas.Worker
namespace FileD.FileRestart
open FileD FileD.SpecC06 FileD.Worker

theorem specLines_append (a b : Bytes) (off : Nat) (cur : Bytes) :
    specLines (a ++ b) off cur = specLines a off cur ++ specLines b (off + a.length) (specTail a cur) := by
  induction a generalizing off cur with
  | nil => simp [specLines, specTail]
  | cons x xs ih =>
    by_cases hx : x = NL
    · simp [specLines, specTail, hx, ih, Nat.add_assoc, Nat.add_comm 1]
    · simp [specLines, specTail, hx, ih, Nat.add_assoc, Nat.add_comm 1]

theorem specTail_append (a b : Bytes) (cur : Bytes) :
    specTail (a ++ b) cur = specTail b (specTail a cur) := by
  induction a generalizing cur with
  | nil => simp [specTail]
  | cons x xs ih =>
    by_cases hx : x = NL <;> simp [specTail, hx, ih]

theorem specLines_off {a : Bytes} {off : Nat} {cur : Bytes} {l : Nat × Bytes}
    (h : l ∈ specLines a off cur) : off < l.1 ∧ l.1 ≤ off + a.length := by
  induction a generalizing off cur with
  | nil => simp [specLines] at h
  | cons x xs ih =>
    by_cases hx : x = NL
    · simp [specLines, hx] at h
      rcases h with rfl | h
      · simp
      · have := ih h; simp; omega
    · simp [specLines, hx] at h
      have := ih h; simp; omega

/-- a line's end offset is a line boundary: the prefix up to it leaves no unterminated remainder -/
theorem specTail_take_of_mem {a : Bytes} {off : Nat} {cur : Bytes} {l : Nat × Bytes}
    (h : l ∈ specLines a off cur) : specTail (a.take (l.1 - off)) cur = [] := by
  induction a generalizing off cur with
  | nil => simp [specLines] at h
  | cons x xs ih =>
    by_cases hx : x = NL
    · simp [specLines, hx] at h
      rcases h with rfl | h
      · simp [specTail, hx]
      · have h1 := specLines_off h
        have := ih h
        have e : l.1 - off = (l.1 - (off + 1)) + 1 := by omega
        rw [e]; simp [List.take, specTail, hx, this]
    · simp [specLines, hx] at h
      have h1 := specLines_off h
      have := ih h
      have e : l.1 - off = (l.1 - (off + 1)) + 1 := by omega
      rw [e]; simp [List.take, specTail, hx, this]

theorem specLines_take_sub (c : Bytes) (n : Nat) {l : Nat × Bytes}
    (h : l ∈ specLines (c.take n) 0 []) : l ∈ specLines c 0 [] := by
  have := specLines_append (c.take n) (c.drop n) 0 []
  rw [List.take_append_drop] at this
  rw [this]; exact List.mem_append_left _ h

theorem specLines_mem_take {c : Bytes} {n : Nat} {l : Nat × Bytes}
    (h : l ∈ specLines c 0 []) (hl : l.1 ≤ n) (hn : n ≤ c.length) : l ∈ specLines (c.take n) 0 [] := by
  have e := specLines_append (c.take n) (c.drop n) 0 []
  rw [List.take_append_drop] at e
  rw [e] at h
  rcases List.mem_append.1 h with h | h
  · exact h
  · have := (specLines_off h).1
    simp [List.length_take] at this
    omega

theorem specLines_take_take {c : Bytes} {m n : Nat} (hmn : m ≤ n) {l : Nat × Bytes}
    (h : l ∈ specLines (c.take m) 0 []) : l ∈ specLines (c.take n) 0 [] := by
  have : c.take m = (c.take n).take m := by rw [List.take_take]; congr 1; omega
  rw [this] at h
  exact specLines_take_sub _ _ h

/-- two complete lines with the same end offset are the same line -/
theorem specLines_unique {a : Bytes} {off : Nat} {cur : Bytes} {l l' : Nat × Bytes}
    (h : l ∈ specLines a off cur) (h' : l' ∈ specLines a off cur) (e : l.1 = l'.1) : l = l' := by
  induction a generalizing off cur with
  | nil => simp [specLines] at h
  | cons x xs ih =>
    by_cases hx : x = NL
    · simp [specLines, hx] at h h'
      rcases h with rfl | h <;> rcases h' with rfl | h'
      · rfl
      · have := (specLines_off h').1; simp at e; omega
      · have := (specLines_off h).1; simp at e; omega
      · exact ih h h'
    · simp [specLines, hx] at h h'
      exact ih h h'

/-! ### one worker turn, no size limit -/

def unl : Cfg := ⟨0, false⟩

theorem over_unl (a b : Nat) : over unl a b = false := by simp [over, unl]

theorem specTail_cut {buf line rest} (h : cutLine buf = some (line, rest)) (cur : Bytes) :
    specTail buf cur = specTail rest [] := by
  induction buf generalizing line rest cur with
  | nil => simp [cutLine] at h
  | cons b bs ih =>
    simp only [cutLine] at h
    split at h
    · rename_i hb; simp at h; obtain ⟨_, rfl⟩ := h; simp [specTail, hb]
    · rename_i hb
      split at h
      · simp at h
      · rename_i l' r' h'
        simp at h; obtain ⟨_, rfl⟩ := h
        simp [specTail, hb, ih h']

theorem specTail_nocut {buf} (h : cutLine buf = none) (cur : Bytes) :
    specTail buf cur = cur ++ buf := by
  induction buf generalizing cur with
  | nil => simp [specTail]
  | cons b bs ih =>
    simp only [cutLine] at h
    split at h
    · simp at h
    · rename_i hb
      split at h
      · rename_i h'; simp [specTail, hb, ih h']
      · simp at h

/-- invariant of the parsing loop: emitted so far ++ spec of the rest is constant; accumulated
    bytes ++ unterminated remainder is the spec tail -/
theorem parseLoop_unl (base : Nat) (buf : Bytes) (w : W) (hs : w.skip = false) (more : Bytes) :
    (parseLoop unl base buf w).1.skip = false ∧
    (parseLoop unl base buf w).1.out ++
        specLines more (base + (parseLoop unl base buf w).1.scanned)
          ((parseLoop unl base buf w).1.accum ++ (parseLoop unl base buf w).2)
      = w.out ++ specLines (buf ++ more) (base + w.scanned) w.accum ∧
    (parseLoop unl base buf w).1.accum ++ (parseLoop unl base buf w).2 = specTail buf w.accum := by
  induction h : buf.length using Nat.strongRecOn generalizing buf w with
  | _ n ih =>
    unfold parseLoop
    split
    · rename_i hc
      simp [hs, specLines_nocut hc, specTail_nocut hc, Nat.add_assoc]
    · rename_i line rest hc
      have hl := cutLine_length hc
      have := ih rest.length (by omega) rest
        { accum := [], scanned := w.scanned + line.length, skip := false,
          out := w.out ++ [(base + (w.scanned + line.length), w.accum ++ line)] } rfl rfl
      simp only [hs, over_unl, Bool.false_or, Bool.false_eq_true, ↓reduceIte]
      refine ⟨this.1, ?_, ?_⟩
      · rw [this.2.1, specLines_cut (cut_append hc more)]
        simp [Nat.add_assoc]
      · rw [this.2.2, specTail_cut hc]

theorem procRead_unl (base : Nat) (buf : Bytes) (w : W) (hs : w.skip = false) (more : Bytes) :
    (procRead unl base w buf).skip = false ∧
    (procRead unl base w buf).out ++
        specLines more (base + (procRead unl base w buf).scanned) (procRead unl base w buf).accum
      = w.out ++ specLines (buf ++ more) (base + w.scanned) w.accum ∧
    (procRead unl base w buf).accum = specTail buf w.accum := by
  have := parseLoop_unl base buf w hs more
  simpa [procRead, afterRead, unl] using this

theorem procReads_unl (base : Nat) (cs : List Bytes) (w : W) (hs : w.skip = false) (more : Bytes) :
    (procReads unl base cs w).skip = false ∧
    (procReads unl base cs w).out ++
        specLines more (base + (procReads unl base cs w).scanned) (procReads unl base cs w).accum
      = w.out ++ specLines (cs.flatten ++ more) (base + w.scanned) w.accum ∧
    (procReads unl base cs w).accum = specTail cs.flatten w.accum := by
  induction cs generalizing w with
  | nil => simp [procReads, hs, specTail]
  | cons c cs ih =>
    simp only [procReads, List.flatten_cons, List.append_assoc]
    have h1 := procRead_unl base c w hs (cs.flatten ++ more)
    have h2 := ih (procRead unl base w c) h1.1
    refine ⟨h2.1, by rw [h2.2.1, h1.2.1], ?_⟩
    rw [h2.2.2, h1.2.2, specTail_append]

/-- **one turn, characterised**: without size limit a turn that starts with `shouldSkip = false`
    emits exactly the complete lines of what it read (continuing the pending partial line), keeps
    the unterminated remainder as the new tail and advances `curOffset` by the bytes read -/
theorem turn_unl (j : Job) (hs : j.skip = false) (reads : List Bytes) :
    turn unl j reads =
      (⟨j.curOffset + reads.flatten.length, specTail reads.flatten j.tail, false⟩,
       specLines reads.flatten j.curOffset j.tail) := by
  have := procReads_unl j.curOffset reads ⟨j.tail, 0, j.skip, []⟩ hs []
  simp [specLines] at this
  obtain ⟨h1, h2, h3⟩ := this
  simp [turn, h1, h2, h3]

end FileD.FileRestart
