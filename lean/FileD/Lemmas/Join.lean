/- helper lemmas for C15 (join model vs run-grouping spec) -/
import FileD.Model.Join
import FileD.Spec.C15
namespace FileD.Join
open FileD FileD.SpecC15

/-- the buffer of the plugin while the run `f :: cs` is open -/
def bufOf (cfg : Cfg) (f : Ev) (cs : List Ev) : Bytes :=
  (cs.map (value cfg)).foldl (appendBuff cfg) (value cfg f)

/-- the plugin state while the run `f :: cs` is open -/
def openSt (cfg : Cfg) (f : Ev) (cs : List Ev) : St := ⟨true, some f, bufOf cfg f cs⟩

theorem foldl_noRoom (cfg : Cfg) (b : Bytes) (vs : List Bytes)
    (h : ¬ (cfg.maxSize = 0 ∨ b.length < cfg.maxSize)) :
    vs.foldl (appendBuff cfg) b = b := by
  induction vs with
  | nil => rfl
  | cons v vs ih =>
    have : appendBuff cfg b v = b := by
      simp only [appendBuff]
      have h1 : (cfg.maxSize == 0 || decide (b.length < cfg.maxSize)) = false := by
        simp only [Bool.or_eq_false_iff, beq_eq_false_iff_ne, decide_eq_false_iff_not]
        exact ⟨fun h0 => h (Or.inl h0), fun h1 => h (Or.inr h1)⟩
      simp [h1]
    simp [List.foldl, this, ih]

theorem foldl_fits (cfg : Cfg) (b : Bytes) (vs : List Bytes) :
    vs.foldl (appendBuff cfg) b = b ++ (fits cfg.maxSize b.length vs).flatten := by
  induction vs generalizing b with
  | nil => simp [fits]
  | cons v vs ih =>
    by_cases h : cfg.maxSize = 0 ∨ b.length < cfg.maxSize
    · have h1 : appendBuff cfg b v = b ++ v := by
        simp only [appendBuff]
        have : (cfg.maxSize == 0 || decide (b.length < cfg.maxSize)) = true := by
          rcases h with h | h
          · simp [h]
          · simp [h]
        simp [this]
      simp only [List.foldl, h1, ih, fits, h, ↓reduceIte, List.flatten_cons, List.length_append,
        List.append_assoc]
    · rw [foldl_noRoom cfg b (v :: vs) h]
      simp [fits, h]

theorem bufOf_eq (cfg : Cfg) (f : Ev) (cs : List Ev) : bufOf cfg f cs = joinedValue cfg f cs := by
  simp [bufOf, joinedValue, foldl_fits]

theorem bufOf_snoc (cfg : Cfg) (f : Ev) (cs : List Ev) (e : Ev) :
    bufOf cfg f (cs ++ [e]) = appendBuff cfg (bufOf cfg f cs) (value cfg e) := by
  simp [bufOf, List.foldl_append]

theorem flush_open (cfg : Cfg) (f : Ev) (cs : List Ev) :
    flush cfg (openSt cfg f cs) = .ok (⟨false, none, bufOf cfg f cs⟩, joined cfg f cs) := by
  simp [flush, openSt, joined, bufOf_eq]

/-- the three ways an event can classify, in terms of what `doEvent` looks at -/
theorem classify_start {cfg : Cfg} {e : Ev} (h : classify cfg e = .start) :
    ∃ node, JTree.dig e.root cfg.path = some node ∧ (node.isStr && e.startOK) = true := by
  unfold classify at h
  split at h
  · simp at h
  · rename_i node hd
    refine ⟨node, hd, ?_⟩
    by_cases h1 : (node.isStr && e.startOK) = true
    · exact h1
    · have h1' : (node.isStr && e.startOK) = false := by simpa using h1
      simp only [h1', Bool.false_eq_true, ↓reduceIte] at h
      split at h <;> simp at h

theorem classify_cont {cfg : Cfg} {e : Ev} (h : classify cfg e = .cont) :
    ∃ node, JTree.dig e.root cfg.path = some node ∧ (node.isStr && e.startOK) = false ∧
      isNextOK cfg e = true := by
  unfold classify at h
  split at h
  · simp at h
  · rename_i node hd
    refine ⟨node, hd, ?_⟩
    by_cases h1 : (node.isStr && e.startOK) = true
    · simp [h1] at h
    · simp only [h1] at h
      have h1' : (node.isStr && e.startOK) = false := by simpa using h1
      refine ⟨h1', ?_⟩
      by_cases h2 : (e.contOK != cfg.negate) = true
      · unfold isNextOK
        cases hn : cfg.negate <;> cases hc : e.contOK <;> simp [hn, hc] at h2 ⊢
      · simp [h2] at h

theorem classify_other {cfg : Cfg} {e : Ev} (h : classify cfg e = .other) :
    JTree.dig e.root cfg.path = none ∨
    ∃ node, JTree.dig e.root cfg.path = some node ∧ (node.isStr && e.startOK) = false ∧
      isNextOK cfg e = false := by
  unfold classify at h
  split at h
  · left; assumption
  · rename_i node hd
    right
    refine ⟨node, hd, ?_⟩
    by_cases h1 : (node.isStr && e.startOK) = true
    · simp [h1] at h
    · simp only [h1] at h
      have h1' : (node.isStr && e.startOK) = false := by simpa using h1
      refine ⟨h1', ?_⟩
      by_cases h2 : (e.contOK != cfg.negate) = true
      · simp [h2] at h
      · unfold isNextOK
        cases hn : cfg.negate <;> cases hc : e.contOK <;> simp [hn, hc] at h2 ⊢

theorem value_of_dig {cfg : Cfg} {e : Ev} {node : JTree} (h : JTree.dig e.root cfg.path = some node) :
    value cfg e = asString node := by
  simp [value, h]


/-! ### single calls, by classification -/

theorem step_open_timeout (cfg : Cfg) (f : Ev) (cs : List Ev) (t : Nat) :
    step cfg (openSt cfg f cs) (.timeout t) =
      .ok (⟨false, none, bufOf cfg f cs⟩, ⟨.discard, [joined cfg f cs], none⟩) := by
  simp only [step, doTimeout, flush_open]
  simp [openSt]

theorem step_open_start (cfg : Cfg) (f : Ev) (cs : List Ev) (e : Ev) (h : classify cfg e = .start) :
    step cfg (openSt cfg f cs) (.ev e) =
      .ok (openSt cfg e [], ⟨.hold, [joined cfg f cs], some e.out⟩) := by
  obtain ⟨node, hd, hf⟩ := classify_start h
  simp only [step, doEvent, hd, hf, ↓reduceIte, flushThen, flush_open]
  simp [openSt, bufOf, value_of_dig hd]

theorem step_open_cont (cfg : Cfg) (f : Ev) (cs : List Ev) (e : Ev) (h : classify cfg e = .cont) :
    step cfg (openSt cfg f cs) (.ev e) =
      .ok (openSt cfg f (cs ++ [e]), ⟨.collapse, [], some e.out⟩) := by
  obtain ⟨node, hd, hf, hn⟩ := classify_cont h
  simp only [step, doEvent, hd, hf, hn]
  simp [openSt, bufOf_snoc, value_of_dig hd]

theorem step_open_other (cfg : Cfg) (f : Ev) (cs : List Ev) (e : Ev) (h : classify cfg e = .other) :
    step cfg (openSt cfg f cs) (.ev e) =
      .ok (⟨false, none, bufOf cfg f cs⟩, ⟨.pass, [joined cfg f cs], some e.out⟩) := by
  rcases classify_other h with hd | ⟨node, hd, hf, hn⟩
  · simp only [step, doEvent, hd, flushThen, flush_open]
    simp [openSt]
  · simp only [step, doEvent, hd, hf, hn, flushThen, flush_open]
    simp [openSt]

theorem step_idle_timeout (cfg : Cfg) (st : St) (hj : st.isJoining = false) (t : Nat) :
    step cfg st (.timeout t) = .error .other := by
  simp [step, doTimeout, hj]

theorem step_idle_start (cfg : Cfg) (st : St) (hj : st.isJoining = false) (e : Ev)
    (h : classify cfg e = .start) :
    step cfg st (.ev e) = .ok (openSt cfg e [], ⟨.hold, [], some e.out⟩) := by
  obtain ⟨node, hd, hf⟩ := classify_start h
  simp only [step, doEvent, hd, hf, ↓reduceIte, flushThen, hj]
  simp [openSt, bufOf, value_of_dig hd]

theorem step_idle_cont (cfg : Cfg) (st : St) (hj : st.isJoining = false) (e : Ev)
    (h : classify cfg e = .cont) :
    step cfg st (.ev e) = .ok (st, ⟨.pass, [], some e.out⟩) := by
  obtain ⟨node, hd, hf, hn⟩ := classify_cont h
  simp [step, doEvent, hd, hf, hn, flushThen, hj]

theorem step_idle_other (cfg : Cfg) (st : St) (hj : st.isJoining = false) (e : Ev)
    (h : classify cfg e = .other) :
    step cfg st (.ev e) = .ok (st, ⟨.pass, [], some e.out⟩) := by
  rcases classify_other h with hd | ⟨node, hd, hf, hn⟩
  · simp [step, doEvent, hd, flushThen, hj]
  · simp [step, doEvent, hd, hf, hn, flushThen, hj]


/-! ### grouping, one item at a time -/

theorem segs_start {cfg : Cfg} {e : Ev} (h : classify cfg e = .start) (r : List In) :
    segs cfg (.ev e :: r) = openRun e [] (segs cfg r) := by simp [segs, h]

theorem segs_cont {cfg : Cfg} {e : Ev} (h : classify cfg e = .cont) (r : List In) :
    segs cfg (.ev e :: r) = .orphan e :: segs cfg r := by simp [segs, h]

theorem segs_other {cfg : Cfg} {e : Ev} (h : classify cfg e = .other) (r : List In) :
    segs cfg (.ev e :: r) = .single e :: segs cfg r := by simp [segs, h]

theorem openRun_nil (f : Ev) (cs : List Ev) : openRun f cs [] = [.run f cs] := by
  simp [openRun, takeOrphans]

theorem openRun_tmo (f : Ev) (cs : List Ev) (t : Nat) (ss : List Seg) :
    openRun f cs (.tmo t :: ss) = .run f cs :: .tmo t :: ss := by simp [openRun, takeOrphans]

theorem openRun_single (f : Ev) (cs : List Ev) (e : Ev) (ss : List Seg) :
    openRun f cs (.single e :: ss) = .run f cs :: .single e :: ss := by simp [openRun, takeOrphans]

theorem openRun_openRun (f : Ev) (cs : List Ev) (e : Ev) (cs' : List Ev) (ss : List Seg) :
    openRun f cs (openRun e cs' ss) = .run f cs :: openRun e cs' ss := by
  simp [openRun, takeOrphans]

theorem openRun_orphan (f : Ev) (cs : List Ev) (e : Ev) (ss : List Seg) :
    openRun f cs (.orphan e :: ss) = openRun f (cs ++ [e]) ss := by
  simp [openRun, takeOrphans]

theorem emit_run_cons (cfg : Cfg) (f : Ev) (cs : List Ev) (s : Seg) (ss : List Seg) :
    emit cfg (.run f cs :: s :: ss) = joined cfg f cs :: emit cfg (s :: ss) := by
  simp [emit]

theorem run_cons_ok {cfg : Cfg} {st st1 : St} {x : In} {o : Out} (h : step cfg st x = .ok (st1, o))
    (xs : List In) :
    run cfg st (x :: xs) = ⟨o :: (run cfg st1 xs).outs, (run cfg st1 xs).fin⟩ := by
  simp [run, h]

/-- **the refinement invariant**: from the state in which the run `f :: cs` is open, and from any
    idle state, the calls produce what the grouping spec says -/
theorem run_spec (cfg : Cfg) (items : List In) :
    (∀ f cs, timely cfg true items = true →
      (∃ st', (run cfg (openSt cfg f cs) items).fin = .ok st') ∧
      downstream (run cfg (openSt cfg f cs) items).outs = emit cfg (openRun f cs (segs cfg items)) ∧
      (run cfg (openSt cfg f cs) items).outs.map (·.res) = specResults cfg true items) ∧
    (∀ st, st.isJoining = false → timely cfg false items = true →
      (∃ st', (run cfg st items).fin = .ok st') ∧
      downstream (run cfg st items).outs = emit cfg (segs cfg items) ∧
      (run cfg st items).outs.map (·.res) = specResults cfg false items) := by
  induction items with
  | nil =>
    refine ⟨fun f cs _ => ?_, fun st _ _ => ?_⟩
    · simp [run, downstream, segs, openRun_nil, emit, specResults]
    · simp [run, downstream, segs, emit, specResults]
  | cons x r ih =>
    obtain ⟨ihO, ihI⟩ := ih
    refine ⟨fun f cs ht => ?_, fun st hj ht => ?_⟩
    · -- a run is open
      cases x with
      | timeout t =>
        have ht' : timely cfg false r = true := by simpa [timely, busyAfter] using ht
        obtain ⟨h1, h2, h3⟩ := ihI ⟨false, none, bufOf cfg f cs⟩ rfl ht'
        rw [run_cons_ok (step_open_timeout cfg f cs t)]
        refine ⟨h1, ?_, ?_⟩
        · simp only [downstream, List.flatMap_cons] at h2 ⊢
          simp [Out.down, h2, segs, openRun_tmo, emit]
        · simp [specResults, busyAfter, h3]
      | ev e =>
        cases hc : classify cfg e with
        | start =>
          have ht' : timely cfg true r = true := by simpa [timely, busyAfter, hc] using ht
          obtain ⟨h1, h2, h3⟩ := ihO e [] ht'
          rw [run_cons_ok (step_open_start cfg f cs e hc)]
          refine ⟨h1, ?_, ?_⟩
          · simp only [downstream, List.flatMap_cons] at h2 ⊢
            rw [h2, segs_start hc, openRun_openRun]
            simp [Out.down, openRun, emit]
          · simp [specResults, busyAfter, hc, h3]
        | cont =>
          have ht' : timely cfg true r = true := by simpa [timely, busyAfter, hc] using ht
          obtain ⟨h1, h2, h3⟩ := ihO f (cs ++ [e]) ht'
          rw [run_cons_ok (step_open_cont cfg f cs e hc)]
          refine ⟨h1, ?_, ?_⟩
          · simp only [downstream, List.flatMap_cons] at h2 ⊢
            rw [h2, segs_cont hc, openRun_orphan]
            simp [Out.down]
          · simp [specResults, busyAfter, hc, h3]
        | other =>
          have ht' : timely cfg false r = true := by simpa [timely, busyAfter, hc] using ht
          obtain ⟨h1, h2, h3⟩ := ihI ⟨false, none, bufOf cfg f cs⟩ rfl ht'
          rw [run_cons_ok (step_open_other cfg f cs e hc)]
          refine ⟨h1, ?_, ?_⟩
          · simp only [downstream, List.flatMap_cons] at h2 ⊢
            rw [h2, segs_other hc, openRun_single]
            simp [Out.down, emit, Ev.out]
          · simp [specResults, busyAfter, hc, h3]
    · -- idle
      cases x with
      | timeout t => simp [timely] at ht
      | ev e =>
        cases hc : classify cfg e with
        | start =>
          have ht' : timely cfg true r = true := by simpa [timely, busyAfter, hc] using ht
          obtain ⟨h1, h2, h3⟩ := ihO e [] ht'
          rw [run_cons_ok (step_idle_start cfg st hj e hc)]
          refine ⟨h1, ?_, ?_⟩
          · simp only [downstream, List.flatMap_cons] at h2 ⊢
            rw [h2, segs_start hc]
            simp [Out.down]
          · simp [specResults, busyAfter, hc, h3]
        | cont =>
          have ht' : timely cfg false r = true := by simpa [timely, busyAfter, hc] using ht
          obtain ⟨h1, h2, h3⟩ := ihI st hj ht'
          rw [run_cons_ok (step_idle_cont cfg st hj e hc)]
          refine ⟨h1, ?_, ?_⟩
          · simp only [downstream, List.flatMap_cons] at h2 ⊢
            rw [h2, segs_cont hc]
            simp [Out.down, emit]
          · simp [specResults, busyAfter, hc, h3]
        | other =>
          have ht' : timely cfg false r = true := by simpa [timely, busyAfter, hc] using ht
          obtain ⟨h1, h2, h3⟩ := ihI st hj ht'
          rw [run_cons_ok (step_idle_other cfg st hj e hc)]
          refine ⟨h1, ?_, ?_⟩
          · simp only [downstream, List.flatMap_cons] at h2 ⊢
            rw [h2, segs_other hc]
            simp [Out.down, emit]
          · simp [specResults, busyAfter, hc, h3]


/-- the other direction: an ill-timed time-out (the instance is not mid-run) is the plugin's
    documented `Panicf("timeout without joining, why?")` -/
theorem run_untimely (cfg : Cfg) (items : List In) :
    (∀ f cs, timely cfg true items = false →
      (run cfg (openSt cfg f cs) items).fin = .error .other) ∧
    (∀ st, st.isJoining = false → timely cfg false items = false →
      (run cfg st items).fin = .error .other) := by
  induction items with
  | nil => exact ⟨fun _ _ h => by simp [timely] at h, fun _ _ h => by simp [timely] at h⟩
  | cons x r ih =>
    obtain ⟨ihO, ihI⟩ := ih
    refine ⟨fun f cs ht => ?_, fun st hj ht => ?_⟩
    · cases x with
      | timeout t =>
        rw [run_cons_ok (step_open_timeout cfg f cs t)]
        exact ihI _ rfl (by simpa [timely, busyAfter] using ht)
      | ev e =>
        cases hc : classify cfg e with
        | start =>
          rw [run_cons_ok (step_open_start cfg f cs e hc)]
          exact ihO e [] (by simpa [timely, busyAfter, hc] using ht)
        | cont =>
          rw [run_cons_ok (step_open_cont cfg f cs e hc)]
          exact ihO f (cs ++ [e]) (by simpa [timely, busyAfter, hc] using ht)
        | other =>
          rw [run_cons_ok (step_open_other cfg f cs e hc)]
          exact ihI _ rfl (by simpa [timely, busyAfter, hc] using ht)
    · cases x with
      | timeout t => simp [run, step_idle_timeout cfg st hj t]
      | ev e =>
        cases hc : classify cfg e with
        | start =>
          rw [run_cons_ok (step_idle_start cfg st hj e hc)]
          exact ihO e [] (by simpa [timely, busyAfter, hc] using ht)
        | cont =>
          rw [run_cons_ok (step_idle_cont cfg st hj e hc)]
          exact ihI st hj (by simpa [timely, busyAfter, hc] using ht)
        | other =>
          rw [run_cons_ok (step_idle_other cfg st hj e hc)]
          exact ihI st hj (by simpa [timely, busyAfter, hc] using ht)

end FileD.Join
