/-
  keep_fields: `trav` (traverseFieldsTree with the trie and the per-depth delete buffers) against `project`.
-/
import FileD.Lemmas.FieldsTrie
namespace FileD.Fields
open FileD FileD.SpecC18

/-! ### the spec, entry by entry -/

/-- what the spec keeps of the field `k : v` -/
def keepOf (S : List Path) (k : Bytes) (v : JTree) : Option JTree :=
  if hasNil (tailsOf k S) then some v else projectV (tailsOf k S) v

theorem projectKVs_cons (S : List Path) (k : Bytes) (v : JTree) (r : KVs) :
    projectKVs S ((k, v) :: r) = match keepOf S k v with
      | some pv => (k, pv) :: projectKVs S r
      | none => projectKVs S r := by
  simp only [projectKVs, keepOf]
  by_cases h : hasNil (tailsOf k S) = true
  · simp [h]
  · simp only [h]
    cases projectV (tailsOf k S) v <;> rfl

theorem hasKey_projectKVs_false (S : List Path) (k : Bytes) (l : KVs) (h : hasKey k l = false) :
    lookup k (projectKVs S l) = none := by
  induction l with
  | nil => rfl
  | cons x r ih =>
    obtain ⟨k1, v1⟩ := x
    simp [hasKey] at h
    rw [projectKVs_cons]
    cases keepOf S k1 v1 with
    | none => exact ih h.2
    | some pv => simp [lookup, h.1, ih h.2]

theorem lookup_projectKVs (S : List Path) (k : Bytes) (l : KVs) (hn : nodupKeys l = true) :
    lookup k (projectKVs S l) = (lookup k l).bind (keepOf S k) := by
  induction l with
  | nil => rfl
  | cons x r ih =>
    obtain ⟨k1, v1⟩ := x
    simp [nodupKeys] at hn
    rw [projectKVs_cons]
    by_cases e : k1 = k
    · subst e
      cases hk : keepOf S k1 v1 with
      | none => simp [lookup, hk, hasKey_projectKVs_false S k1 r hn.1]
      | some pv => simp [lookup, hk]
    · cases hk : keepOf S k1 v1 with
      | none => simp [lookup, e, ih hn.2]
      | some pv => simp [lookup, e, ih hn.2]

def anyKept (S : List Path) : KVs → Bool
  | [] => false
  | (k, v) :: r => (keepOf S k v).isSome || anyKept S r

def droppedKeys (S : List Path) : KVs → List Bytes
  | [] => []
  | (k, v) :: r => if (keepOf S k v).isSome then droppedKeys S r else k :: droppedKeys S r

theorem projectKVs_isEmpty (S : List Path) (l : KVs) : (projectKVs S l).isEmpty = !anyKept S l := by
  induction l with
  | nil => rfl
  | cons x r ih =>
    obtain ⟨k, v⟩ := x
    rw [projectKVs_cons]
    cases h : keepOf S k v <;> simp [anyKept, h, ih]

theorem mem_droppedKeys {S : List Path} {k : Bytes} {l : KVs} :
    k ∈ droppedKeys S l ↔ ∃ v, (k, v) ∈ l ∧ keepOf S k v = none := by
  induction l with
  | nil => simp [droppedKeys]
  | cons x r ih =>
    obtain ⟨k1, v1⟩ := x
    simp only [droppedKeys]
    cases h : keepOf S k1 v1 with
    | some pv =>
      simp only [Option.isSome_some, if_true, ih, List.mem_cons, Prod.mk.injEq]
      constructor
      · rintro ⟨v, hv, hk⟩; exact ⟨v, Or.inr hv, hk⟩
      · rintro ⟨v, (⟨rfl, rfl⟩ | hv), hk⟩
        · rw [h] at hk; cases hk
        · exact ⟨v, hv, hk⟩
    | none =>
      simp only [Option.isSome_none, Bool.false_eq_true, if_false, List.mem_cons, ih, Prod.mk.injEq]
      constructor
      · rintro (rfl | ⟨v, hv, hk⟩)
        · exact ⟨v1, Or.inl ⟨rfl, rfl⟩, h⟩
        · exact ⟨v, Or.inr hv, hk⟩
      · rintro ⟨v, (⟨rfl, rfl⟩ | hv), hk⟩
        · exact Or.inl rfl
        · exact Or.inr ⟨v, hv, hk⟩

theorem projectV_nil : ∀ t : JTree, projectV [] t = none := by
  intro t
  induction t using jtree_induct with
  | hnull => rfl
  | hbool b => rfl
  | hnum r => rfl
  | hstr s => rfl
  | harr xs _ => rfl
  | hobj kvs ih =>
    have : projectKVs [] kvs = [] := by
      induction kvs with
      | nil => rfl
      | cons x r ihr =>
        obtain ⟨k, v⟩ := x
        rw [projectKVs_cons]
        have : keepOf [] k v = none := by
          simp only [keepOf, tailsOf, hasNil, Bool.false_eq_true, if_false]
          exact ih (k, v) List.mem_cons_self
        rw [this]
        exact ihr (fun kv h => ih kv (List.mem_cons_of_mem _ h))
    simp [projectV, this]

/-! ### the delete loop -/

theorem deleteAll_nil (l : KVs) : deleteAll [] l = l := rfl
theorem deleteAll_cons (f : Bytes) (buf : List Bytes) (l : KVs) :
    deleteAll (f :: buf) l = deleteAll buf (swapRemoveKey f l) := rfl

theorem nodupKeys_deleteAll (buf : List Bytes) : ∀ (l : KVs), nodupKeys l = true → nodupKeys (deleteAll buf l) = true := by
  induction buf with
  | nil => intro l h; exact h
  | cons f buf ih => intro l h; rw [deleteAll_cons]; exact ih _ (nodupKeys_swapRemoveKey f l h)

theorem lookup_deleteAll (buf : List Bytes) (k : Bytes) : ∀ (l : KVs), nodupKeys l = true →
    lookup k (deleteAll buf l) = if k ∈ buf then none else lookup k l := by
  induction buf with
  | nil => intro l _; simp [deleteAll_nil]
  | cons f buf ih =>
    intro l h
    rw [deleteAll_cons, ih _ (nodupKeys_swapRemoveKey f l h), lookup_swapRemoveKey f k l h]
    by_cases e : k = f
    · subst e; simp
    · by_cases e2 : k ∈ buf <;> simp [e, e2]

/-! ### the field loop -/

/-- relation between a field of the event and the same field after the loop -/
def FieldRel (S : List Path) (x y : Bytes × JTree) : Prop :=
  y.1 = x.1 ∧ ∀ pv, keepOf S x.1 x.2 = some pv → Eqv y.2 pv ∧ uniq y.2 = true

inductive FieldsRel (S : List Path) : KVs → KVs → Prop
  | nil : FieldsRel S [] []
  | cons {x y : Bytes × JTree} {l l' : KVs} : FieldRel S x y → FieldsRel S l l' → FieldsRel S (x :: l) (y :: l')

theorem forall₂_hasKey {S : List Path} {l l' : KVs} (h : FieldsRel S l l') (k : Bytes) :
    hasKey k l' = hasKey k l := by
  induction h with
  | nil => rfl
  | @cons x y _ _ hxy _ ih =>
    obtain ⟨k1, v1⟩ := x; obtain ⟨k2, v2⟩ := y
    have : k2 = k1 := hxy.1
    subst this
    simp [hasKey, ih]

theorem forall₂_nodupKeys {S : List Path} {l l' : KVs} (h : FieldsRel S l l') :
    nodupKeys l' = nodupKeys l := by
  induction h with
  | nil => rfl
  | @cons x y _ _ hxy hr ih =>
    obtain ⟨k1, v1⟩ := x; obtain ⟨k2, v2⟩ := y
    have : k2 = k1 := hxy.1
    subst this
    simp [nodupKeys, ih, forall₂_hasKey hr]

theorem forall₂_lookup {S : List Path} {l l' : KVs} (h : FieldsRel S l l') (k : Bytes) :
    match lookup k l, lookup k l' with
    | some v, some v' => ∀ pv, keepOf S k v = some pv → Eqv v' pv ∧ uniq v' = true
    | none, none => True
    | _, _ => False := by
  induction h with
  | nil => simp [lookup]
  | @cons x y _ _ hxy _ ih =>
    obtain ⟨k1, v1⟩ := x; obtain ⟨k2, v2⟩ := y
    have : k2 = k1 := hxy.1
    subst this
    by_cases e : k2 = k
    · subst e; simp only [lookup, if_true]; exact hxy.2
    · simp only [lookup, e, if_false]; exact ih

/-- buffers: room for every depth the walk can reach, and nothing pending at or below `depth` -/
def BufOK (depth : Nat) (S : List Path) (bufs : Bufs) : Prop :=
  depth + maxDepth S ≤ bufs.length ∧ ∀ d, depth ≤ d → ∀ b, bufs[d]? = some b → b = []

/-- what `trav` is shown to do on a value (the induction hypothesis for the values of an object) -/
def TravSpec (t : JTree) : Prop :=
  ∀ (fp : FP) (S : List Path) (depth : Nat) (bufs : Bufs), Rep fp S → AntiChain S → [] ∉ S → S ≠ [] →
    BufOK depth S bufs →
    ∃ keep t', trav fp depth bufs t = .ok (keep, t', bufs) ∧ keep = (projectV S t).isSome ∧
      (∀ kvs, t = .obj kvs → (depth = 0 ∨ keep = true) → Eqv t' (.obj (projectKVs S kvs)) ∧ uniq t' = true)

theorem set_set_same {α} (l : List α) (i : Nat) (a b : α) : (l.set i a).set i b = l.set i b := by
  simp

theorem set_self {α} (l : List α) (i : Nat) (a : α) (h : l[i]? = some a) : l.set i a = l := by
  apply List.ext_getElem?
  intro j
  by_cases e : i = j
  · subst e
    rw [List.getElem?_set_self' ]
    rw [h]; simp
  · rw [List.getElem?_set_ne e]

theorem travFields_spec (fp : FP) (S : List Path) (depth : Nat) (hrep : Rep fp S) (hanti : AntiChain S) :
    ∀ (kvs : KVs), (∀ kv ∈ kvs, TravSpec kv.2) → (∀ kv ∈ kvs, uniq kv.2 = true) →
    ∀ (bufs : Bufs) (sp : Bool) (b : List Bytes), bufs[depth]? = some b →
      depth + maxDepth S ≤ bufs.length → (∀ d, depth < d → ∀ b', bufs[d]? = some b' → b' = []) →
    ∃ kvs', travFields fp depth bufs sp kvs
        = .ok (sp || anyKept S kvs, kvs', bufs.set depth (b ++ droppedKeys S kvs)) ∧
      FieldsRel S kvs kvs' := by
  intro kvs
  induction kvs with
  | nil =>
    intro _ _ bufs sp b hb _ _
    refine ⟨[], ?_, FieldsRel.nil⟩
    simp [travFields, anyKept, droppedKeys, set_self bufs depth b hb]
  | cons x rest ih =>
    obtain ⟨k, v⟩ := x
    intro hts hus bufs sp b hb hlen hempty
    have ih' := ih (fun kv h => hts kv (List.mem_cons_of_mem _ h)) (fun kv h => hus kv (List.mem_cons_of_mem _ h))
    have huv : uniq v = true := hus (k, v) List.mem_cons_self
    -- pushing `k` on the buffer of this depth
    have push : bufPush bufs depth k = .ok (bufs.set depth (b ++ [k])) := by simp [bufPush, hb]
    have hb2 : (bufs.set depth (b ++ [k]))[depth]? = some (b ++ [k]) := by
      rw [List.getElem?_set_self']; rw [hb]; rfl
    have hlen2 : depth + maxDepth S ≤ (bufs.set depth (b ++ [k])).length := by simpa using hlen
    have hempty2 : ∀ d, depth < d → ∀ b', (bufs.set depth (b ++ [k]))[d]? = some b' → b' = [] := by
      intro d hd b' hb'
      rw [List.getElem?_set_ne (by omega)] at hb'
      exact hempty d hd b' hb'
    have dropStep : ∀ (sp : Bool) (v' : JTree), keepOf S k v = none →
        ∃ kvs', (match travFields fp depth (bufs.set depth (b ++ [k])) sp rest with
            | .error e => (.error e : GoM (Bool × KVs × Bufs))
            | .ok (sp', rest', bufs') => .ok (sp', (k, v') :: rest', bufs'))
          = .ok (sp || anyKept S ((k, v) :: rest), kvs', bufs.set depth (b ++ droppedKeys S ((k, v) :: rest))) ∧
          FieldsRel S ((k, v) :: rest) kvs' := by
      intro sp v' hk
      obtain ⟨rest', e1, e2⟩ := ih' (bufs.set depth (b ++ [k])) sp (b ++ [k]) hb2 hlen2 hempty2
      refine ⟨(k, v') :: rest', ?_, FieldsRel.cons ⟨rfl, by intro pv h; rw [hk] at h; cases h⟩ e2⟩
      rw [e1]
      simp [anyKept, droppedKeys, hk, List.append_assoc]
    have keepStep : ∀ (v' : JTree), (∀ pv, keepOf S k v = some pv → Eqv v' pv ∧ uniq v' = true) →
        (keepOf S k v).isSome = true →
        ∃ kvs', (match travFields fp depth bufs true rest with
            | .error e => (.error e : GoM (Bool × KVs × Bufs))
            | .ok (sp', rest', bufs') => .ok (sp', (k, v') :: rest', bufs'))
          = .ok (sp || anyKept S ((k, v) :: rest), kvs', bufs.set depth (b ++ droppedKeys S ((k, v) :: rest))) ∧
          FieldsRel S ((k, v) :: rest) kvs' := by
      intro v' hrel hk
      obtain ⟨rest', e1, e2⟩ := ih' bufs true b hb hlen hempty
      refine ⟨(k, v') :: rest', ?_, FieldsRel.cons ⟨rfl, hrel⟩ e2⟩
      rw [e1]
      simp [anyKept, droppedKeys, hk]
    simp only [travFields]
    cases hl : fpLookup k fp.children with
    | none =>
      have ht : tailsOf k S = [] := (hrep.child_none k).1 hl
      have hk : keepOf S k v = none := by simp [keepOf, ht, hasNil, projectV_nil]
      simp only [push]
      exact dropStep sp v hk
    | some c =>
      simp only
      have hne : tailsOf k S ≠ [] := by
        intro e; rw [← hrep.child_none k, hl] at e; cases e
      by_cases hleaf : c.isLeaf = true
      · have hn := (child_isLeaf_iff hrep hanti hl).1 hleaf
        have hk : keepOf S k v = some v := by simp [keepOf, hn]
        simp only [hleaf, if_true]
        exact keepStep v (by intro pv h; rw [hk] at h; cases h; exact ⟨eqv_refl v huv, huv⟩) (by rw [hk]; rfl)
      · have hn : ¬ hasNil (tailsOf k S) = true := fun e => hleaf ((child_isLeaf_iff hrep hanti hl).2 e)
        have hk : keepOf S k v = projectV (tailsOf k S) v := by simp [keepOf, hn]
        simp only [hleaf, Bool.false_eq_true, if_false]
        have hbuf : BufOK (depth + 1) (tailsOf k S) bufs := by
          refine ⟨?_, ?_⟩
          · have := maxDepth_tails k hne; omega
          · intro d hd b' hb'; exact hempty d (by omega) b' hb'
        obtain ⟨keep, v', e1, e2, e3⟩ := hts (k, v) List.mem_cons_self c (tailsOf k S) (depth + 1) bufs
          (hrep.child hl) (hanti.tails k) (by rw [← hasNil_iff]; exact hn) hne hbuf
        simp only at e1
        rw [e1]
        cases keep with
        | true =>
          simp only
          apply keepStep v'
          · intro pv hpv
            rw [hk] at hpv
            cases v with
            | obj kvs2 =>
              have := e3 kvs2 rfl (Or.inr rfl)
              simp only [projectV] at hpv
              split at hpv
              · cases hpv
              · cases hpv; exact this
            | _ => simp [projectV] at hpv
          · rw [hk, ← e2]
        | false =>
          simp only [push]
          exact dropStep sp v' (by rw [hk]; cases h : projectV (tailsOf k S) v with
            | none => rfl
            | some _ => rw [h] at e2; cases e2)

theorem not_isLeaf_of {fp : FP} {S : List Path} (hrep : Rep fp S) (hnil : [] ∉ S) (hne : S ≠ []) :
    fp.isLeaf = false := by
  cases h : fp.isLeaf with
  | false => rfl
  | true =>
    obtain ⟨p, hp⟩ := List.exists_mem_of_ne_nil _ hne
    have := (hrep.isLeaf.1 h) p hp
    subst this; exact absurd hp hnil

theorem trav_spec : ∀ t : JTree, uniq t = true → TravSpec t := by
  intro t
  induction t using jtree_induct with
  | hnull => intro _ fp S depth bufs hrep _ hnil hne _; exact ⟨false, .null, by simp [trav, not_isLeaf_of hrep hnil hne], rfl, by intro kvs h; cases h⟩
  | hbool b => intro _ fp S depth bufs hrep _ hnil hne _; exact ⟨false, .bool b, by simp [trav, not_isLeaf_of hrep hnil hne], rfl, by intro kvs h; cases h⟩
  | hnum r => intro _ fp S depth bufs hrep _ hnil hne _; exact ⟨false, .num r, by simp [trav, not_isLeaf_of hrep hnil hne], rfl, by intro kvs h; cases h⟩
  | hstr s => intro _ fp S depth bufs hrep _ hnil hne _; exact ⟨false, .str s, by simp [trav, not_isLeaf_of hrep hnil hne], rfl, by intro kvs h; cases h⟩
  | harr xs _ => intro _ fp S depth bufs hrep _ hnil hne _; exact ⟨false, .arr xs, by simp [trav, not_isLeaf_of hrep hnil hne], rfl, by intro kvs h; cases h⟩
  | hobj kvs ih =>
    intro hu fp S depth bufs hrep hanti hnil hne hbuf
    rw [uniq_obj] at hu
    have hS1 : 1 ≤ maxDepth S := by
      obtain ⟨p, hp⟩ := List.exists_mem_of_ne_nil _ hne
      have := le_maxDepth hp
      cases p with
      | nil => exact absurd hp hnil
      | cons _ _ => simp at this; omega
    have hd : depth < bufs.length := by have := hbuf.1; omega
    have hb0 : bufs[depth]? = some [] := by
      cases h : bufs[depth]? with
      | none => rw [List.getElem?_eq_none_iff] at h; omega
      | some b => rw [hbuf.2 depth (Nat.le_refl _) b h]
    obtain ⟨kvs', e1, e2⟩ := travFields_spec fp S depth hrep hanti kvs
      (fun kv h => ih kv h (hu.2 kv h)) hu.2 bufs false [] hb0 hbuf.1
      (fun d hd b' hb' => hbuf.2 d (by omega) b' hb')
    have hn' : nodupKeys kvs' = true := by rw [forall₂_nodupKeys e2]; exact hu.1
    simp only [trav, not_isLeaf_of hrep hnil hne, Bool.false_eq_true, if_false, e1, Bool.false_or, List.nil_append]
    have hget : (bufs.set depth (droppedKeys S kvs))[depth]? = some (droppedKeys S kvs) := by
      rw [List.getElem?_set_self']; rw [hb0]; rfl
    simp only [hget, set_set_same, set_self bufs depth [] hb0]
    refine ⟨_, _, rfl, ?_, ?_⟩
    · simp only [projectV, projectKVs_isEmpty]
      cases anyKept S kvs <;> rfl
    · intro kvs0 hk0 hcond
      cases hk0
      have hcond' : (depth == 0 || anyKept S kvs) = true := by
        rcases hcond with h | h
        · simp [h]
        · simp [h]
      simp only [hcond', if_true]
      have hnd := nodupKeys_deleteAll (droppedKeys S kvs) kvs' hn'
      have key : ∀ k, match lookup k (deleteAll (droppedKeys S kvs) kvs'), lookup k (projectKVs S kvs) with
          | some v, some v' => Eqv v v' ∧ uniq v = true
          | none, none => True
          | _, _ => False := by
        intro k
        rw [lookup_deleteAll _ k kvs' hn', lookup_projectKVs S k kvs hu.1]
        have hrel := forall₂_lookup e2 k
        cases hl : lookup k kvs with
        | none =>
          rw [hl] at hrel
          cases hl' : lookup k kvs' with
          | some _ => rw [hl'] at hrel; exact hrel.elim
          | none => simp
        | some v =>
          rw [hl] at hrel
          cases hl' : lookup k kvs' with
          | none => rw [hl'] at hrel; exact hrel.elim
          | some v' =>
            rw [hl'] at hrel
            simp only [Option.bind_some]
            cases hk : keepOf S k v with
            | none =>
              have : k ∈ droppedKeys S kvs := mem_droppedKeys.2 ⟨v, mem_of_lookup hl, hk⟩
              simp [this]
            | some pv =>
              have : k ∉ droppedKeys S kvs := by
                intro hmem
                obtain ⟨v2, hv2, hk2⟩ := mem_droppedKeys.1 hmem
                have := lookup_of_mem hu.1 hv2
                rw [hl] at this; cases this
                rw [hk] at hk2; cases hk2
              simp only [this, if_false]
              exact hrel pv hk
      constructor
      · rw [eqv_obj_iff hnd]
        intro k
        have := key k
        cases h1 : lookup k (deleteAll (droppedKeys S kvs) kvs') <;>
          cases h2 : lookup k (projectKVs S kvs) <;> rw [h1, h2] at this
        · trivial
        · exact this.elim
        · exact this.elim
        · exact this.1
      · rw [uniq_obj]
        refine ⟨hnd, ?_⟩
        intro kv hkv
        have h1 := lookup_of_mem hnd (show (kv.1, kv.2) ∈ _ from hkv)
        have := key kv.1
        rw [h1] at this
        cases h2 : lookup kv.1 (projectKVs S kvs) with
        | none => rw [h2] at this; exact this.elim
        | some _ => rw [h2] at this; exact this.2

end FileD.Fields
