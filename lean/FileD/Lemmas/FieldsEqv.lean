/-
  Key-order-insensitive equality `Eqv` and `uniq` (unique keys everywhere): induction principle for
  JTree, characterisation of `Eqv` on objects by lookups, equivalence laws.
-/
import FileD.Lemmas.FieldsKV
namespace FileD.Fields
open FileD FileD.SpecC18

/-- structural induction on JSON trees (Lean's `induction` does not handle the nested inductive) -/
theorem jtree_induct {P : JTree → Prop}
    (hnull : P .null) (hbool : ∀ b, P (.bool b)) (hnum : ∀ r, P (.num r)) (hstr : ∀ s, P (.str s))
    (harr : ∀ xs : List JTree, (∀ x ∈ xs, P x) → P (.arr xs))
    (hobj : ∀ kvs : KVs, (∀ kv ∈ kvs, P kv.2) → P (.obj kvs)) : ∀ t, P t :=
  @JTree.rec (motive_1 := P) (motive_2 := fun xs => ∀ x ∈ xs, P x)
    (motive_3 := fun kvs => ∀ kv ∈ kvs, P kv.2) (motive_4 := fun kv => P kv.2)
    hnull hbool hnum hstr harr hobj
    (by intro x h; cases h)
    (by intro h t ih1 ih2 x hx; cases hx with
        | head => exact ih1
        | tail _ hx => exact ih2 x hx)
    (by intro x h; cases h)
    (by intro h t ih1 ih2 x hx; cases hx with
        | head => exact ih1
        | tail _ hx => exact ih2 x hx)
    (by intro k v ih; exact ih)

/-! ### uniq -/

theorem uniqKVs_iff (l : KVs) : uniqKVs l = true ↔ ∀ kv ∈ l, uniq kv.2 = true := by
  induction l with
  | nil => simp [uniqKVs]
  | cons x r ih => obtain ⟨k, v⟩ := x; simp [uniqKVs, ih]

theorem uniqL_iff (l : List JTree) : uniqL l = true ↔ ∀ x ∈ l, uniq x = true := by
  induction l with
  | nil => simp [uniqL]
  | cons x r ih => simp [uniqL, ih]

theorem uniq_obj (l : KVs) : uniq (.obj l) = true ↔ nodupKeys l = true ∧ ∀ kv ∈ l, uniq kv.2 = true := by
  simp [uniq, uniqKVs_iff]

theorem uniq_arr (l : List JTree) : uniq (.arr l) = true ↔ ∀ x ∈ l, uniq x = true := by
  simp [uniq, uniqL_iff]

theorem mem_of_lookup {k : Bytes} {v : JTree} {l : KVs} (h : lookup k l = some v) : (k, v) ∈ l := by
  induction l with
  | nil => simp [lookup] at h
  | cons x r ih =>
    obtain ⟨k1, v1⟩ := x
    by_cases e : k1 = k
    · simp [lookup, e] at h; subst e; subst h; exact List.mem_cons_self
    · simp [lookup, e] at h; exact List.mem_cons_of_mem _ (ih h)

theorem lookup_of_mem {k : Bytes} {v : JTree} {l : KVs} (hn : nodupKeys l = true) (h : (k, v) ∈ l) :
    lookup k l = some v := by
  induction l with
  | nil => cases h
  | cons x r ih =>
    obtain ⟨k1, v1⟩ := x
    simp [nodupKeys] at hn
    cases h with
    | head => simp [lookup]
    | tail _ h =>
      have hk : hasKey k r = true := by rw [hasKey_eq_isSome, ih hn.2 h]; rfl
      have : k1 ≠ k := by intro e; subst e; rw [hn.1] at hk; cases hk
      simp [lookup, this, ih hn.2 h]

theorem uniq_of_lookup {k : Bytes} {v : JTree} {l : KVs} (hu : uniq (.obj l) = true) (h : lookup k l = some v) :
    uniq v = true := ((uniq_obj l).1 hu).2 _ (mem_of_lookup h)

theorem mem_setKey {k : Bytes} {nv : JTree} {l : KVs} {kv : Bytes × JTree} (h : kv ∈ setKey k nv l) :
    kv ∈ l ∨ kv.2 = nv := by
  induction l with
  | nil => simp [setKey] at h
  | cons x r ih =>
    obtain ⟨k1, v1⟩ := x
    by_cases e : k1 = k
    · simp [setKey, e] at h
      rcases h with h | h
      · right; rw [h]
      · left; exact List.mem_cons_of_mem _ h
    · simp [setKey, e] at h
      rcases h with h | h
      · left; rw [h]; exact List.mem_cons_self
      · rcases ih h with h' | h'
        · left; exact List.mem_cons_of_mem _ h'
        · right; exact h'

theorem uniq_setKey {k : Bytes} {nv : JTree} {l : KVs} (hu : uniq (.obj l) = true) (hv : uniq nv = true) :
    uniq (.obj (setKey k nv l)) = true := by
  rw [uniq_obj] at *
  refine ⟨by rw [nodupKeys_setKey]; exact hu.1, ?_⟩
  intro kv h
  rcases mem_setKey h with h | h
  · exact hu.2 kv h
  · rw [h]; exact hv

theorem mem_eraseKey {k : Bytes} {l : KVs} {kv : Bytes × JTree} (h : kv ∈ eraseKey k l) : kv ∈ l := by
  induction l with
  | nil => simp [eraseKey] at h
  | cons x r ih =>
    obtain ⟨k1, v1⟩ := x
    by_cases e : k1 = k
    · simp [eraseKey, e] at h; exact List.mem_cons_of_mem _ h
    · simp [eraseKey, e] at h
      rcases h with h | h
      · rw [h]; exact List.mem_cons_self
      · exact List.mem_cons_of_mem _ (ih h)

theorem uniq_eraseKey {k : Bytes} {l : KVs} (hu : uniq (.obj l) = true) : uniq (.obj (eraseKey k l)) = true := by
  rw [uniq_obj] at *
  exact ⟨nodupKeys_eraseKey k l hu.1, fun kv h => hu.2 kv (mem_eraseKey h)⟩

theorem uniq_swapRemoveKey {k : Bytes} {l : KVs} (hu : uniq (.obj l) = true) :
    uniq (.obj (swapRemoveKey k l)) = true := by
  rw [uniq_obj] at *
  exact ⟨nodupKeys_swapRemoveKey k l hu.1,
    fun kv h => hu.2 kv (mem_eraseKey ((swapRemoveKey_perm k l).mem_iff.1 h))⟩

/-! ### Eqv on atoms / shape -/

theorem eqv_null_iff (u : JTree) : Eqv .null u ↔ u = .null := by
  cases u <;> simp [Eqv, eqvb, JTree.isNull]
theorem eqv_bool_iff (b : Bool) (u : JTree) : Eqv (.bool b) u ↔ u = .bool b := by
  cases u <;> simp [Eqv, eqvb] <;> exact eq_comm
theorem eqv_num_iff (r : Bytes) (u : JTree) : Eqv (.num r) u ↔ u = .num r := by
  cases u <;> simp [Eqv, eqvb] <;> exact eq_comm
theorem eqv_str_iff (r : Bytes) (u : JTree) : Eqv (.str r) u ↔ u = .str r := by
  cases u <;> simp [Eqv, eqvb] <;> exact eq_comm

theorem eqv_arr_iff (xs : List JTree) (u : JTree) : Eqv (.arr xs) u ↔ ∃ ys, u = .arr ys ∧ eqvL xs ys = true := by
  cases u <;> simp [Eqv, eqvb]
theorem eqv_obj_shape (a : KVs) (u : JTree) :
    Eqv (.obj a) u ↔ ∃ b, u = .obj b ∧ eqvKVs a b = true ∧ keysIn a b = true := by
  cases u <;> simp [Eqv, eqvb]

/-! ### arrays -/

/-- pointwise `Eqv` -/
def EqvList : List JTree → List JTree → Prop
  | [], [] => True
  | x :: xs, y :: ys => Eqv x y ∧ EqvList xs ys
  | _, _ => False

theorem eqvL_iff (xs ys : List JTree) : eqvL xs ys = true ↔ EqvList xs ys := by
  induction xs generalizing ys with
  | nil => cases ys <;> simp [eqvL, EqvList]
  | cons x xs ih => cases ys <;> simp [eqvL, EqvList, ih, Eqv]

theorem EqvList.length_eq {xs ys : List JTree} (h : EqvList xs ys) : xs.length = ys.length := by
  induction xs generalizing ys with
  | nil => cases ys <;> simp_all [EqvList]
  | cons x xs ih => cases ys <;> simp_all [EqvList]; exact ih h.2

theorem EqvList.eraseIdx {xs ys : List JTree} (h : EqvList xs ys) (i : Nat) :
    EqvList (xs.eraseIdx i) (ys.eraseIdx i) := by
  induction xs generalizing ys i with
  | nil => cases ys <;> simp_all [EqvList]
  | cons x xs ih =>
    cases ys with
    | nil => simp [EqvList] at h
    | cons y ys =>
      cases i with
      | zero => exact h.2
      | succ j => exact ⟨h.1, ih h.2 j⟩

theorem EqvList.get {xs ys : List JTree} (h : EqvList xs ys) {i : Nat} {x : JTree} (hx : xs[i]? = some x) :
    ∃ y, ys[i]? = some y ∧ Eqv x y := by
  induction xs generalizing ys i with
  | nil => simp at hx
  | cons x0 xs ih =>
    cases ys with
    | nil => simp [EqvList] at h
    | cons y ys =>
      cases i with
      | zero => simp at hx; subst hx; exact ⟨y, by simp, h.1⟩
      | succ j => simp at hx; simpa using ih h.2 hx

theorem EqvList.set {xs ys : List JTree} (h : EqvList xs ys) (i : Nat) {x y : JTree} (hxy : Eqv x y) :
    EqvList (xs.set i x) (ys.set i y) := by
  induction xs generalizing ys i with
  | nil => cases ys <;> simp_all [EqvList]
  | cons x0 xs ih =>
    cases ys with
    | nil => simp [EqvList] at h
    | cons y0 ys =>
      cases i with
      | zero => exact ⟨hxy, h.2⟩
      | succ j => exact ⟨h.1, ih h.2 j⟩

/-! ### objects: Eqv by lookups -/

/-- the two field lists hold the same keys with equivalent values -/
def LookupEqv (a b : KVs) : Prop :=
  ∀ k, match lookup k a, lookup k b with
    | some v, some v' => Eqv v v'
    | none, none => True
    | _, _ => False

theorem eqvKVs_iff (a b : KVs) :
    eqvKVs a b = true ↔ ∀ kv ∈ a, ∃ v', lookup kv.1 b = some v' ∧ Eqv kv.2 v' := by
  induction a with
  | nil => simp [eqvKVs]
  | cons x r ih =>
    obtain ⟨k, v⟩ := x
    simp only [eqvKVs, Bool.and_eq_true, ih, List.mem_cons, forall_eq_or_imp]
    constructor
    · rintro ⟨h1, h2⟩
      refine ⟨?_, h2⟩
      cases hl : lookup k b with
      | none => simp [hl] at h1
      | some v' => simp [hl] at h1; exact ⟨v', rfl, h1⟩
    · rintro ⟨⟨v', hl, he⟩, h2⟩
      refine ⟨?_, h2⟩
      simp [hl]; exact he

theorem keysIn_iff (a b : KVs) : keysIn a b = true ↔ ∀ k, hasKey k b = true → hasKey k a = true := by
  induction b with
  | nil => simp [keysIn, hasKey]
  | cons x r ih =>
    obtain ⟨k1, v1⟩ := x
    simp only [keysIn, Bool.and_eq_true, ih, hasKey, Bool.or_eq_true, decide_eq_true_eq]
    constructor
    · rintro ⟨h1, h2⟩ k hk
      rcases hk with hk | hk
      · subst hk; exact h1
      · exact h2 k hk
    · intro h
      exact ⟨h k1 (Or.inl rfl), fun k hk => h k (Or.inr hk)⟩

theorem eqv_obj_iff {a b : KVs} (hn : nodupKeys a = true) : Eqv (.obj a) (.obj b) ↔ LookupEqv a b := by
  rw [eqv_obj_shape]
  constructor
  · rintro ⟨b', hb, h1, h2⟩
    cases hb
    rw [eqvKVs_iff] at h1
    rw [keysIn_iff] at h2
    intro k
    cases ha : lookup k a with
    | none =>
      cases hb : lookup k b with
      | none => trivial
      | some v' =>
        have := h2 k (hasKey_of_lookup hb)
        rw [hasKey_eq_isSome, ha] at this; cases this
    | some v =>
      obtain ⟨v', hl, he⟩ := h1 (k, v) (mem_of_lookup ha)
      simp only at hl he
      rw [hl]; exact he
  · intro h
    refine ⟨b, rfl, ?_, ?_⟩
    · rw [eqvKVs_iff]
      intro kv hkv
      have ha := lookup_of_mem hn (show (kv.1, kv.2) ∈ a from hkv)
      have := h kv.1
      rw [ha] at this
      cases hb : lookup kv.1 b with
      | none => rw [hb] at this; exact this.elim
      | some v' => rw [hb] at this; exact ⟨v', rfl, this⟩
    · rw [keysIn_iff]
      intro k hk
      have := h k
      rw [hasKey_eq_isSome] at hk ⊢
      cases ha : lookup k a with
      | some v => rfl
      | none =>
        rw [ha] at this
        cases hb : lookup k b with
        | none => rw [hb] at hk; cases hk
        | some v' => rw [hb] at this; exact this.elim

/-! ### equivalence laws (on trees with unique keys) -/

theorem eqv_refl : ∀ t, uniq t = true → Eqv t t := by
  apply jtree_induct
  · intro _; rfl
  · intro b _; simp [Eqv, eqvb]
  · intro r _; simp [Eqv, eqvb]
  · intro s _; simp [Eqv, eqvb]
  · intro xs ih hu
    rw [eqv_arr_iff]; refine ⟨xs, rfl, ?_⟩
    rw [eqvL_iff]
    rw [uniq_arr] at hu
    induction xs with
    | nil => trivial
    | cons x xs ihx =>
      exact ⟨ih x List.mem_cons_self (hu x List.mem_cons_self),
        ihx (fun y hy => ih y (List.mem_cons_of_mem _ hy)) (fun y hy => hu y (List.mem_cons_of_mem _ hy))⟩
  · intro kvs ih hu
    rw [uniq_obj] at hu
    rw [eqv_obj_iff hu.1]
    intro k
    cases h : lookup k kvs with
    | none => trivial
    | some v => exact ih (k, v) (mem_of_lookup h) (hu.2 _ (mem_of_lookup h))

theorem eqvList_trans_aux {xs : List JTree}
    (ih : ∀ x ∈ xs, ∀ u w, uniq x = true → uniq u = true → Eqv x u → Eqv u w → Eqv x w) :
    ∀ ys zs, (∀ x ∈ xs, uniq x = true) → (∀ y ∈ ys, uniq y = true) →
      EqvList xs ys → EqvList ys zs → EqvList xs zs := by
  induction xs with
  | nil => intro ys zs _ _ h1 h2; cases ys <;> cases zs <;> simp_all [EqvList]
  | cons x xs ihx =>
    intro ys zs hu1 hu2 h1 h2
    cases ys with
    | nil => simp [EqvList] at h1
    | cons y ys =>
      cases zs with
      | nil => simp [EqvList] at h2
      | cons z zs =>
        exact ⟨ih x List.mem_cons_self y z (hu1 x List.mem_cons_self) (hu2 y List.mem_cons_self) h1.1 h2.1,
          ihx (fun x' hx' => ih x' (List.mem_cons_of_mem _ hx')) ys zs
            (fun x' hx' => hu1 x' (List.mem_cons_of_mem _ hx')) (fun y' hy' => hu2 y' (List.mem_cons_of_mem _ hy'))
            h1.2 h2.2⟩

/-- transitivity; the middle and left trees have unique keys -/
theorem eqv_trans : ∀ t u w, uniq t = true → uniq u = true → Eqv t u → Eqv u w → Eqv t w := by
  intro t
  induction t using jtree_induct with
  | hnull => intro u w _ _ h1 h2; rw [eqv_null_iff] at h1; subst h1; exact h2
  | hbool b => intro u w _ _ h1 h2; rw [eqv_bool_iff] at h1; subst h1; exact h2
  | hnum r => intro u w _ _ h1 h2; rw [eqv_num_iff] at h1; subst h1; exact h2
  | hstr s => intro u w _ _ h1 h2; rw [eqv_str_iff] at h1; subst h1; exact h2
  | harr xs ih =>
    intro u w hu1 hu2 h1 h2
    rw [eqv_arr_iff] at h1
    obtain ⟨ys, rfl, h1⟩ := h1
    rw [eqv_arr_iff] at h2
    obtain ⟨zs, rfl, h2⟩ := h2
    rw [eqv_arr_iff]; refine ⟨zs, rfl, ?_⟩
    rw [eqvL_iff] at *
    rw [uniq_arr] at hu1 hu2
    exact eqvList_trans_aux ih ys zs hu1 hu2 h1 h2
  | hobj a ih =>
    intro u w hu1 hu2 h1 h2
    obtain ⟨b, rfl, _⟩ := (eqv_obj_shape a u).1 h1
    obtain ⟨c, rfl, _⟩ := (eqv_obj_shape b w).1 h2
    rw [uniq_obj] at hu1 hu2
    rw [eqv_obj_iff hu1.1] at h1 ⊢
    rw [eqv_obj_iff hu2.1] at h2
    intro k
    have h1k := h1 k
    have h2k := h2 k
    cases ha : lookup k a with
    | none =>
      rw [ha] at h1k
      cases hb : lookup k b with
      | some _ => rw [hb] at h1k; exact h1k.elim
      | none =>
        rw [hb] at h2k
        cases hc : lookup k c with
        | none => trivial
        | some _ => rw [hc] at h2k; exact h2k.elim
    | some v =>
      rw [ha] at h1k
      cases hb : lookup k b with
      | none => rw [hb] at h1k; exact h1k.elim
      | some v' =>
        rw [hb] at h1k h2k
        cases hc : lookup k c with
        | none => rw [hc] at h2k; exact h2k.elim
        | some v'' =>
          rw [hc] at h2k
          exact ih (k, v) (mem_of_lookup ha) v' v'' (hu1.2 _ (mem_of_lookup ha)) (hu2.2 _ (mem_of_lookup hb)) h1k h2k

theorem eqvList_symm_aux {xs : List JTree}
    (ih : ∀ x ∈ xs, ∀ u, uniq x = true → uniq u = true → Eqv x u → Eqv u x) :
    ∀ ys, (∀ x ∈ xs, uniq x = true) → (∀ y ∈ ys, uniq y = true) → EqvList xs ys → EqvList ys xs := by
  induction xs with
  | nil => intro ys _ _ h; cases ys <;> simp_all [EqvList]
  | cons x xs ihx =>
    intro ys hu1 hu2 h
    cases ys with
    | nil => simp [EqvList] at h
    | cons y ys =>
      exact ⟨ih x List.mem_cons_self y (hu1 x List.mem_cons_self) (hu2 y List.mem_cons_self) h.1,
        ihx (fun x' hx' => ih x' (List.mem_cons_of_mem _ hx')) ys
          (fun x' hx' => hu1 x' (List.mem_cons_of_mem _ hx')) (fun y' hy' => hu2 y' (List.mem_cons_of_mem _ hy')) h.2⟩

/-- symmetry on trees with unique keys -/
theorem eqv_symm : ∀ t u, uniq t = true → uniq u = true → Eqv t u → Eqv u t := by
  intro t
  induction t using jtree_induct with
  | hnull => intro u _ _ h; rw [eqv_null_iff] at h; subst h; rfl
  | hbool b => intro u _ hu h; rw [eqv_bool_iff] at h; subst h; exact eqv_refl _ hu
  | hnum r => intro u _ hu h; rw [eqv_num_iff] at h; subst h; exact eqv_refl _ hu
  | hstr s => intro u _ hu h; rw [eqv_str_iff] at h; subst h; exact eqv_refl _ hu
  | harr xs ih =>
    intro u hu1 hu2 h
    rw [eqv_arr_iff] at h
    obtain ⟨ys, rfl, h⟩ := h
    rw [eqv_arr_iff]; refine ⟨xs, rfl, ?_⟩
    rw [eqvL_iff] at *
    rw [uniq_arr] at hu1 hu2
    exact eqvList_symm_aux ih ys hu1 hu2 h
  | hobj a ih =>
    intro u hu1 hu2 h
    obtain ⟨b, rfl, _⟩ := (eqv_obj_shape a u).1 h
    rw [uniq_obj] at hu1 hu2
    rw [eqv_obj_iff hu1.1] at h
    rw [eqv_obj_iff hu2.1]
    intro k
    have hk := h k
    cases ha : lookup k a with
    | none =>
      rw [ha] at hk
      cases hb : lookup k b with
      | none => trivial
      | some _ => rw [hb] at hk; exact hk.elim
    | some v =>
      rw [ha] at hk
      cases hb : lookup k b with
      | none => rw [hb] at hk; exact hk.elim
      | some v' =>
        rw [hb] at hk
        exact ih (k, v) (mem_of_lookup ha) v' (hu1.2 _ (mem_of_lookup ha)) (hu2.2 _ (mem_of_lookup hb)) hk

end FileD.Fields
